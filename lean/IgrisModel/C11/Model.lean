/-
  C11 — executable model of the compat libc number parsers, qsort, bsearch and
  rand (after the `fix:` commits of branch fix-C11):

    compat/libc/stdlib/strtol.c  strtoul.c  strtoll.c  strtoull.c
    compat/libc/inttypes/strtoimax.c  strtoumax.c
    compat/libc/stdlib/atol.c  qsort.c  bsearch.c  rand.c
    igris/util/ctype.h   (what compat/libc/include/ctype.h maps is*() to)

  Conventions.  A C string is the list of its bytes INCLUDING the terminator
  (and whatever follows): a read beyond the end of the list is a fault
  (`none`).  The pointer `s` is the pair (bytes from `s` on, `s - nptr`).
  `w` is the width in bits of the result type (64 for every function on the
  LP64 host the correspondence check runs on; 32 for `long` on the MCUs the
  shim is written for): the theorems hold for every `w ≥ 1`.
  Unsigned arithmetic wraps explicitly (`% 2^w`); signed overflow is undefined
  behaviour in C and a fault (`none`) here.
-/
import IgrisModel.Common.Proto
namespace Igris.C11
open Igris.Proto (Byte)

/-! ## igris/util/ctype.h — plain range comparisons on an `int` -/

def isspace (c : Int) : Bool := c == 32 || c == 9 || c == 13 || c == 10 || c == 12 || c == 11
def isdigit (c : Int) : Bool := decide (48 ≤ c) && decide (c ≤ 57)
def isupper (c : Int) : Bool := decide (65 ≤ c) && decide (c ≤ 90)
def isalpha (c : Int) : Bool := (decide (97 ≤ c) && decide (c ≤ 122)) || (decide (65 ≤ c) && decide (c ≤ 90))
def isxdigit (c : Int) : Bool :=
  isdigit c || ((decide (97 ≤ c) && decide (c ≤ 102)) || (decide (65 ≤ c) && decide (c ≤ 70)))

/-! ## the strto* family -/

/-- `c = *s++`: the `char` read is converted through `unsigned char`
(`unsigned char c` in strtol/strtoimax, the explicit casts of strtoll/strtoull)
or sign-extended into an `int` (`int c = *s++` with a signed `char`). -/
def rd (viaUChar : Bool) (b : Byte) : Int := if viaUChar then (b.toNat : Int) else b.toInt

/-- which conversion each of the three groups of reads uses:
`ws` the white-space loop, `sg` the reads after a sign and `c = s[1]`,
`lp` the digit loop -/
structure Reads where
  ws : Bool
  sg : Bool
  lp : Bool

/-- `do { c = *s++; } while (isspace(c));` -/
def skipWs (u : Bool) : List Byte → Nat → Option (Int × List Byte × Nat)
  | [], _ => none
  | b :: rest, off => if isspace (rd u b) then skipWs u rest (off + 1) else some (rd u b, rest, off + 1)

/-- `if (base == 0) base = c == '0' ? 8 : 10;` -/
def base0 (c : Int) (base : Nat) : Nat := if base = 0 then (if c = 48 then 8 else 10) else base

/-- state after white space, sign and prefix: `neg`, the current character
`c`, the pointer `s` (`rest`, `off`) and the effective base -/
structure Front where
  neg : Bool
  c : Int
  rest : List Byte
  off : Nat
  base : Nat

/-- `if (c == '-') { neg = 1; c = *s++; } else if (c == '+') { c = *s++; }` -/
def signStep (R : Reads) (c : Int) (rest : List Byte) (off : Nat) : Option (Bool × Int × List Byte × Nat) :=
  if c = 45 then
    match rest with
    | [] => none
    | b :: r => some (true, rd R.sg b, r, off + 1)
  else if c = 43 then
    match rest with
    | [] => none
    | b :: r => some (false, rd R.sg b, r, off + 1)
  else some (false, c, rest, off)

/-- `if ((base == 0 || base == 16) && c == '0' && (*s == 'x' || *s == 'X') &&
isxdigit((unsigned char) s[1])) { c = s[1]; s += 2; base = 16; }
if (base == 0) base = c == '0' ? 8 : 10;`
C's `&&` short-circuits: `*s` is read only when `c == '0'`, `s[1]` only when
`*s` is `x`/`X`. -/
def prefixStep (R : Reads) (base : Nat) (neg : Bool) (c : Int) (rest : List Byte) (off : Nat) : Option Front :=
  if (base = 0 ∨ base = 16) ∧ c = 48 then
    match rest with
    | [] => none
    | x :: r1 =>
      if x = 120 ∨ x = 88 then
        match r1 with
        | [] => none
        | y :: r2 =>
          if isxdigit (y.toNat : Int) then some ⟨neg, rd R.sg y, r2, off + 2, base0 (rd R.sg y) 16⟩
          else some ⟨neg, c, rest, off, base0 c base⟩
      else some ⟨neg, c, rest, off, base0 c base⟩
  else some ⟨neg, c, rest, off, base0 c base⟩

/-- white space, sign, `0x` prefix, base 0 — statement by statement -/
def front (R : Reads) (mem : List Byte) (base : Nat) : Option Front :=
  match skipWs R.ws mem 0 with
  | none => none
  | some (c, rest, off) =>
    match signStep R c rest off with
    | none => none
    | some (neg, c, rest, off) => prefixStep R base neg c rest off

/-- the `isdigit / isalpha / else break` chain: the digit value, `none` = `break` -/
def digitOf (c : Int) : Option Int :=
  if isdigit c then some (c - 48)
  else if isalpha c then some (c - (if isupper c then 65 - 10 else 97 - 10))
  else none

/-- one pass of the loop body on an unsigned accumulator.  `ovf` is what the
code stores in `acc` at the moment it detects overflow (strtoull: the maximum;
the others leave `acc` alone and patch it after the loop). -/
def stepU (W base cutoff : Nat) (cutlim : Int) (ovf : Option Nat) (st : Nat × Int) (d : Int) : Nat × Int :=
  if st.2 < 0 then st
  else if st.1 > cutoff ∨ (st.1 = cutoff ∧ d > cutlim) then (ovf.getD st.1, -1)
  else ((st.1 * base + d.toNat) % W, 1)

/-- `for (acc = 0, any = 0;; c = *s++) { … }` — returns `(acc, any, s - nptr)` -/
def loopU (W base cutoff : Nat) (cutlim : Int) (lp : Bool) (ovf : Option Nat) :
    List Byte → Int → Nat → Nat × Int → Option (Nat × Int × Nat)
  | rest, c, off, st =>
    match digitOf c with
    | none => some (st.1, st.2, off)
    | some d =>
      if d ≥ (base : Int) then some (st.1, st.2, off)
      else
        match rest with
        | [] => none
        | b :: rest' => loopU W base cutoff cutlim lp ovf rest' (rd lp b) (off + 1) (stepU W base cutoff cutlim ovf st d)

/-- `(long) acc`: an unsigned bit pattern read as two's complement -/
def asSigned (w : Nat) (p : Nat) : Int := if p < 2 ^ (w - 1) then (p : Int) else (p : Int) - 2 ^ w

/-- `*endptr = any ? s - 1 : nptr` -/
def endOff (any : Int) (off : Nat) : Nat := if any ≠ 0 then off - 1 else 0

/-- strtol.c, strtoimax.c: magnitude accumulated in the unsigned type,
`cutoff = neg ? -(unsigned long) LONG_MIN : LONG_MAX` -/
def strtoSU (w : Nat) (R : Reads) (mem : List Byte) (base : Nat) : Option (Int × Nat) :=
  match front R mem base with
  | none => none
  | some f =>
    let W := 2 ^ w
    let H := 2 ^ (w - 1)
    let cutoff0 := if f.neg then H else H - 1
    let cutlim : Int := ((cutoff0 % f.base : Nat) : Int)
    let cutoff := cutoff0 / f.base
    match loopU W f.base cutoff cutlim R.lp none f.rest f.c f.off (0, 0) with
    | none => none
    | some (acc, any, off) =>
      let acc := if any < 0 then (if f.neg then H else H - 1) else if f.neg then (W - acc) % W else acc
      some (asSigned w acc, endOff any off)

/-- strtoul.c, strtoumax.c -/
def strtoUU (w : Nat) (R : Reads) (mem : List Byte) (base : Nat) : Option (Nat × Nat) :=
  match front R mem base with
  | none => none
  | some f =>
    let W := 2 ^ w
    let cutoff := (W - 1) / f.base
    let cutlim : Int := (((W - 1) % f.base : Nat) : Int)
    match loopU W f.base cutoff cutlim R.lp none f.rest f.c f.off (0, 0) with
    | none => none
    | some (acc, any, off) =>
      let acc := if any < 0 then W - 1 else if any = 0 then acc else if f.neg then (W - acc) % W else acc
      some (acc, endOff any off)

/-- strtoull.c: `acc = ULLONG_MAX` inside the loop, `if (neg && any > 0) acc = -acc` -/
def strtoULL (w : Nat) (R : Reads) (mem : List Byte) (base : Nat) : Option (Nat × Nat) :=
  match front R mem base with
  | none => none
  | some f =>
    let W := 2 ^ w
    let cutoff := (W - 1) / f.base
    let cutlim : Int := (((W - 1) % f.base : Nat) : Int)
    match loopU W f.base cutoff cutlim R.lp (some (W - 1)) f.rest f.c f.off (0, 0) with
    | none => none
    | some (acc, any, off) =>
      let acc := if f.neg ∧ any > 0 then (W - acc) % W else acc
      some (acc, endOff any off)

/-- strtoll.c loop body: a SIGNED accumulator that goes negative for negative
numbers.  `none` = signed overflow (undefined behaviour). -/
def stepS (MIN MAX : Int) (base : Int) (neg : Bool) (cutoff cutlim : Int) (st : Int × Int) (d : Int) : Option (Int × Int) :=
  if st.2 < 0 then some st
  else if neg then
    if st.1 < cutoff ∨ (st.1 = cutoff ∧ d > cutlim) then some (MIN, -1)
    else
      let m := st.1 * base
      if m < MIN ∨ MAX < m ∨ m - d < MIN ∨ MAX < m - d then none else some (m - d, 1)
  else
    if st.1 > cutoff ∨ (st.1 = cutoff ∧ d > cutlim) then some (MAX, -1)
    else
      let m := st.1 * base
      if m < MIN ∨ MAX < m ∨ m + d < MIN ∨ MAX < m + d then none else some (m + d, 1)

def loopS (MIN MAX : Int) (base : Int) (neg : Bool) (cutoff cutlim : Int) (lp : Bool) :
    List Byte → Int → Nat → Int × Int → Option (Int × Int × Nat)
  | rest, c, off, st =>
    match digitOf c with
    | none => some (st.1, st.2, off)
    | some d =>
      if d ≥ base then some (st.1, st.2, off)
      else
        match stepS MIN MAX base neg cutoff cutlim st d with
        | none => none
        | some st' =>
          match rest with
          | [] => none
          | b :: rest' => loopS MIN MAX base neg cutoff cutlim lp rest' (rd lp b) (off + 1) st'

/-- strtoll.c -/
def strtoLL (w : Nat) (R : Reads) (mem : List Byte) (base : Nat) : Option (Int × Nat) :=
  match front R mem base with
  | none => none
  | some f =>
    let MAX : Int := 2 ^ (w - 1) - 1
    let MIN : Int := -(2 ^ (w - 1))
    let b : Int := f.base
    let cutoff0 : Int := if f.neg then MIN else MAX
    -- C99 `/` and `%` truncate towards zero
    let cutlim0 := cutoff0.tmod b
    let cutoff1 := cutoff0.tdiv b
    let (cutoff, cutlim) :=
      if f.neg then
        let (co, cl) := if cutlim0 > 0 then (cutoff1 + 1, cutlim0 - b) else (cutoff1, cutlim0)
        (co, -cl)
      else (cutoff1, cutlim0)
    match loopS MIN MAX b f.neg cutoff cutlim R.lp f.rest f.c f.off (0, 0) with
    | none => none
    | some (acc, any, off) => some (acc, endOff any off)

/-- conversions of the reads, function by function -/
def readsL : Reads := ⟨true, true, true⟩      -- strtol, strtoimax: `unsigned char c`
def readsUL : Reads := ⟨false, false, false⟩  -- strtoul, strtoumax: `int c = *s++`
def readsLL : Reads := ⟨true, false, true⟩    -- strtoll, strtoull: casts in two of the three places

def strtol (w : Nat) := strtoSU w readsL
def strtoimax (w : Nat) := strtoSU w readsL
def strtoul (w : Nat) := strtoUU w readsUL
def strtoumax (w : Nat) := strtoUU w readsUL
def strtoll (w : Nat) := strtoLL w readsLL
def strtoull (w : Nat) := strtoULL w readsLL

/-! ## atol.c (repaired: accumulates negatively) -/

/-- `while (isspace(*p)) ++p; c = *p++;` with `const unsigned char *p` -/
def atolSkip : List Byte → Option (Int × List Byte)
  | [] => none
  | b :: rest => if isspace (b.toNat : Int) then atolSkip rest else some ((b.toNat : Int), rest)

/-- `while (isdigit(c)) { total = 10 * total - (c - '0'); c = *p++; }` — `none`
on a read outside the string or on signed overflow (undefined behaviour) -/
def atolLoop (MIN MAX : Int) : List Byte → Int → Int → Option Int
  | rest, c, total =>
    if isdigit c then
      let m := 10 * total
      if m < MIN ∨ MAX < m ∨ m - (c - 48) < MIN ∨ MAX < m - (c - 48) then none
      else
        match rest with
        | [] => none
        | b :: rest' => atolLoop MIN MAX rest' (b.toNat : Int) (m - (c - 48))
    else some total

/-- `if (c == '-' || c == '+') c = *p++;` -/
def atolSign (c : Int) (rest : List Byte) : Option (Int × List Byte) :=
  if c = 45 ∨ c = 43 then
    match rest with
    | [] => none
    | b :: r => some ((b.toNat : Int), r)
  else some (c, rest)

def atol (w : Nat) (mem : List Byte) : Option Int :=
  let MAX : Int := 2 ^ (w - 1) - 1
  let MIN : Int := -(2 ^ (w - 1))
  match atolSkip mem with
  | none => none
  | some (c, rest) =>
    let sign := c
    match atolSign c rest with
    | none => none
    | some (c, rest) =>
      match atolLoop MIN MAX rest c 0 with
      | none => none
      | some total =>
        if sign = 45 then some total
        else if -total < MIN ∨ MAX < -total then none else some (-total)

/-- `(int) atol(nptr)`: conversion to a narrower signed type keeps the low bits
(implementation-defined in ISO C, this is what gcc does) -/
def atoi (wl wi : Nat) (mem : List Byte) : Option Int :=
  (atol wl mem).map fun v => asSigned wi ((v % 2 ^ wi).toNat)

/-! ## rand.c -/

/-- `seed = (unsigned int)(seed * 16546134871 + 513585871) % (204814687);`
with `unsigned long seed` of 64 bits -/
def randSeed (seed : Nat) : Nat := ((seed * 16546134871 + 513585871) % 2 ^ 64 % 2 ^ 32) % 204814687

/-- `return (int) seed >> 1;` -/
def randOut (seed : Nat) : Int := (asSigned 32 (seed % 2 ^ 32)) >>> 1

/-- the first `n` results of `rand()` after `srand(s)` -/
def randStream : Nat → Nat → List Int
  | 0, _ => []
  | n + 1, seed => let s := randSeed seed; randOut s :: randStream n s

/-! ## qsort.c

The array is a `List α` (an element is one object of `size` bytes, moved as a
whole by `swap`); a recursive call sees the sub-array it is given, i.e. a
sub-list, and its result is written back in place.  `rs` is the stream of
future `rand()` results — an ARBITRARY list (exhausted = 0).  Indices are
element indices (`pointer - base) / size`).  `none` = an access outside the
array the call was given, or the fuel ran out. -/

section qsort
variable {α : Type}

/-- `swap(base + i*size, base + j*size, size)` -/
def swapAt (a : List α) (i j : Nat) : Option (List α) :=
  if h : i < a.length ∧ j < a.length then some ((a.set i a[j]).set j a[i]) else none

/-- `while (compar(i, key) < 0) i += size;` -/
def scanUp (cmp : α → α → Int) (key : α) (a : List α) : Nat → Nat → Option Nat
  | 0, _ => none
  | f + 1, i =>
    match a[i]? with
    | none => none
    | some x => if cmp x key < 0 then scanUp cmp key a f (i + 1) else some i

/-- `while (compar(key, j) < 0) j -= size;` (`j` may legitimately become
`base - size`, i.e. -1, but is never dereferenced there) -/
def scanDown (cmp : α → α → Int) (key : α) (a : List α) : Nat → Int → Option Int
  | 0, _ => none
  | f + 1, j =>
    if j < 0 then none
    else
      match a[j.toNat]? with
      | none => none
      | some x => if cmp key x < 0 then scanDown cmp key a f (j - 1) else some j

/-- `while (i <= j) { …; if (i <= j) { swap(i, j); i += size; j -= size; } }` -/
def partLoop (cmp : α → α → Int) (key : α) : Nat → List α → Nat → Int → Option (List α × Nat × Int)
  | 0, _, _, _ => none
  | f + 1, a, i, j =>
    if (i : Int) ≤ j then
      match scanUp cmp key a (a.length + 1) i with
      | none => none
      | some i =>
        match scanDown cmp key a (a.length + 1) j with
        | none => none
        | some j =>
          if (i : Int) ≤ j then
            match swapAt a i j.toNat with
            | none => none
            | some a => partLoop cmp key f a (i + 1) (j - 1)
          else partLoop cmp key f a i j
    else some (a, i, j)

/-- the next `rand()` -/
def nextRand : List Int → Int × List Int
  | [] => (0, [])
  | r :: rs => (r, rs)

/-- `rand() % nmemb`: the `int` is converted to `size_t` (64 bits) first -/
def pivotIndex (r : Int) (nmemb : Nat) : Nat := (r % 2 ^ 64).toNat % nmemb

/-- the `nmemb < 4` branch: nothing, one compare-exchange, or the three of a
bubble network, in the order of the source -/
def smallSort (cmp : α → α → Int) : List α → List α
  | [x, y] => if cmp y x < 0 then [y, x] else [x, y]
  | [x, y, z] =>
    let (x, y) := if cmp y x < 0 then (y, x) else (x, y)
    if cmp z y < 0 then
      if cmp z x < 0 then [z, x, y] else [x, z, y]
    else [x, y, z]
  | a => a

def qsortF (cmp : α → α → Int) : Nat → List Int → List α → Option (List α × List Int)
  | 0, _, _ => none
  | fuel + 1, rs, a =>
    let nmemb := a.length
    if nmemb < 4 then some (smallSort cmp a, rs)
    else
      let (r, rs) := nextRand rs
      match a[pivotIndex r nmemb]? with
      | none => none
      | some key =>
        match partLoop cmp key (nmemb + 2) a 0 ((nmemb : Int) - 1) with
        | none => none
        | some (a, i, j) =>
          -- if (j > base) qsort(base, (j - base) / size + 1, size, compar);
          let l : Option (List α × List Int) :=
            if j > 0 then
              (qsortF cmp fuel rs (a.take (j.toNat + 1))).map fun (s, rs) => (s ++ a.drop (j.toNat + 1), rs)
            else some (a, rs)
          match l with
          | none => none
          | some (a, rs) =>
            -- if (i < base + (nmemb - 1) * size) qsort(i, nmemb - (i - base) / size, size, compar);
            if i < nmemb - 1 then
              (qsortF cmp fuel rs (a.drop i)).map fun (s, rs) => (a.take i ++ s, rs)
            else some (a, rs)

/-- `qsort(base, nmemb, size, compar)` with the pivot stream `rs` -/
def qsort (cmp : α → α → Int) (rs : List Int) (a : List α) : Option (List α × List Int) :=
  qsortF cmp (a.length + 1) rs a

end qsort

/-! ## bsearch.c (repaired: empty array, argument order) -/

section bsearch
variable {κ α : Type}

/-- the bisection loop on element indices `left`, `right` -/
def bsLoop (cmp : κ → α → Int) (key : κ) (a : List α) : Nat → Nat → Nat → Option (Nat × Nat)
  | 0, _, _ => none
  | f + 1, left, right =>
    if left + 1 < right then
      let mid := left + (right - left) / 2
      match a[mid]? with
      | none => none
      | some x => if cmp key x < 0 then bsLoop cmp key a f left mid else bsLoop cmp key a f mid right
    else some (left, right)

/-- `some none` = NULL, `some (some i)` = `base + i*size`, `none` = fault -/
def bsearch (cmp : κ → α → Int) (key : κ) (a : List α) : Option (Option Nat) :=
  let nmemb := a.length
  if nmemb = 0 then some none
  else
    match bsLoop cmp key a (nmemb + 1) 0 nmemb with
    | none => none
    | some (left, _) =>
      match a[left]? with
      | none => none
      | some x => if cmp key x = 0 then some (some left) else some none

end bsearch

/-! ## upper_bound / lower_bound (bsearch.c, repaired: both bisect the
half-open range `[left, right)` and return `left`)

```
char *left = base, *right = base + size * nmemb, *mid;
while (left < right) {
    mid = left + ((right - left) / (size << 1) * size);
    if (compar(key, mid) < 0)   // lower_bound: <= 0
        right = mid;
    else
        left = mid + size;
}
return left;
```
`(right - left) / (size << 1) * size` is `((right - left) / size) / 2` elements
(`right - left` is a multiple of `size`). -/

section bounds
variable {α : Type}

/-- the loop on element indices; `goLeft x` is the test `compar(key, mid) < 0`
(resp. `<= 0`).  `none` = an access outside the array, or the fuel ran out. -/
def bndLoop (goLeft : α → Bool) (a : List α) : Nat → Nat → Nat → Option Nat
  | 0, _, _ => none
  | f + 1, left, right =>
    if left < right then
      let mid := left + (right - left) / 2
      match a[mid]? with
      | none => none
      | some x => if goLeft x then bndLoop goLeft a f left mid else bndLoop goLeft a f (mid + 1) right
    else some left

/-- `upper_bound(key, base, nmemb, size, compar)`: the result as an element
index (`nmemb` = the one-past-the-end pointer) -/
def upperBound {κ : Type} (cmp : κ → α → Int) (key : κ) (a : List α) : Option Nat :=
  bndLoop (fun x => decide (cmp key x < 0)) a (a.length + 1) 0 a.length

/-- `lower_bound(key, base, nmemb, size, compar)` -/
def lowerBound {κ : Type} (cmp : κ → α → Int) (key : κ) (a : List α) : Option Nat :=
  bndLoop (fun x => decide (cmp key x ≤ 0)) a (a.length + 1) 0 a.length

end bounds

/-! ## errno (the strto* family once more, with the store to `errno`)

The result gets a third component: what the call stores in `errno`, `0` =
nothing is stored (the caller's value stays).  strtol.c / strtoimax.c
(repaired) and strtoul.c / strtoumax.c store after the loop, from `any`;
strtoll.c / strtoull.c store inside the loop at the moment overflow is
detected.  strtoul/strtoumax also store EINVAL when no conversion is performed
(POSIX "may fail"; ISO C does not ask for it). -/

def ERANGE : Nat := 34
def EINVAL : Nat := 22

/-- strtol.c, strtoimax.c: `if (any < 0) { acc = neg ? LONG_MIN : LONG_MAX; errno = ERANGE; }` -/
def strtoSUe (w : Nat) (R : Reads) (mem : List Byte) (base : Nat) : Option (Int × Nat × Nat) :=
  match front R mem base with
  | none => none
  | some f =>
    let W := 2 ^ w
    let H := 2 ^ (w - 1)
    let cutoff0 := if f.neg then H else H - 1
    let cutlim : Int := ((cutoff0 % f.base : Nat) : Int)
    let cutoff := cutoff0 / f.base
    match loopU W f.base cutoff cutlim R.lp none f.rest f.c f.off (0, 0) with
    | none => none
    | some (acc, any, off) =>
      let err := if any < 0 then ERANGE else 0
      let acc := if any < 0 then (if f.neg then H else H - 1) else if f.neg then (W - acc) % W else acc
      some (asSigned w acc, endOff any off, err)

/-- strtoul.c, strtoumax.c: `SET_ERRNO(ERANGE)` / `SET_ERRNO(EINVAL)` -/
def strtoUUe (w : Nat) (R : Reads) (mem : List Byte) (base : Nat) : Option (Nat × Nat × Nat) :=
  match front R mem base with
  | none => none
  | some f =>
    let W := 2 ^ w
    let cutoff := (W - 1) / f.base
    let cutlim : Int := (((W - 1) % f.base : Nat) : Int)
    match loopU W f.base cutoff cutlim R.lp none f.rest f.c f.off (0, 0) with
    | none => none
    | some (acc, any, off) =>
      let err := if any < 0 then ERANGE else if any = 0 then EINVAL else 0
      let acc := if any < 0 then W - 1 else if any = 0 then acc else if f.neg then (W - acc) % W else acc
      some (acc, endOff any off, err)

/-- the store `errno = ERANGE` of one pass of the loop body (same tests as `stepU`) -/
def errU (cutoff : Nat) (cutlim : Int) (st : Nat × Int) (d : Int) (e : Nat) : Nat :=
  if st.2 < 0 then e
  else if st.1 > cutoff ∨ (st.1 = cutoff ∧ d > cutlim) then ERANGE
  else e

/-- `loopU` with `errno` threaded through — returns `(acc, any, s - nptr, errno)` -/
def loopUe (W base cutoff : Nat) (cutlim : Int) (lp : Bool) (ovf : Option Nat) :
    List Byte → Int → Nat → Nat × Int → Nat → Option (Nat × Int × Nat × Nat)
  | rest, c, off, st, e =>
    match digitOf c with
    | none => some (st.1, st.2, off, e)
    | some d =>
      if d ≥ (base : Int) then some (st.1, st.2, off, e)
      else
        match rest with
        | [] => none
        | b :: rest' =>
          loopUe W base cutoff cutlim lp ovf rest' (rd lp b) (off + 1) (stepU W base cutoff cutlim ovf st d)
            (errU cutoff cutlim st d e)

/-- strtoull.c: `any = -1; acc = ULLONG_MAX; errno = ERANGE;` inside the loop -/
def strtoULLe (w : Nat) (R : Reads) (mem : List Byte) (base : Nat) : Option (Nat × Nat × Nat) :=
  match front R mem base with
  | none => none
  | some f =>
    let W := 2 ^ w
    let cutoff := (W - 1) / f.base
    let cutlim : Int := (((W - 1) % f.base : Nat) : Int)
    match loopUe W f.base cutoff cutlim R.lp (some (W - 1)) f.rest f.c f.off (0, 0) 0 with
    | none => none
    | some (acc, any, off, err) =>
      let acc := if f.neg ∧ any > 0 then (W - acc) % W else acc
      some (acc, endOff any off, err)

/-- the store `errno = ERANGE` of one pass of strtoll's loop body -/
def errS (neg : Bool) (cutoff cutlim : Int) (st : Int × Int) (d : Int) (e : Nat) : Nat :=
  if st.2 < 0 then e
  else if neg then (if st.1 < cutoff ∨ (st.1 = cutoff ∧ d > cutlim) then ERANGE else e)
  else (if st.1 > cutoff ∨ (st.1 = cutoff ∧ d > cutlim) then ERANGE else e)

def loopSe (MIN MAX : Int) (base : Int) (neg : Bool) (cutoff cutlim : Int) (lp : Bool) :
    List Byte → Int → Nat → Int × Int → Nat → Option (Int × Int × Nat × Nat)
  | rest, c, off, st, e =>
    match digitOf c with
    | none => some (st.1, st.2, off, e)
    | some d =>
      if d ≥ base then some (st.1, st.2, off, e)
      else
        match stepS MIN MAX base neg cutoff cutlim st d with
        | none => none
        | some st' =>
          match rest with
          | [] => none
          | b :: rest' => loopSe MIN MAX base neg cutoff cutlim lp rest' (rd lp b) (off + 1) st' (errS neg cutoff cutlim st d e)

/-- strtoll.c with `errno` -/
def strtoLLe (w : Nat) (R : Reads) (mem : List Byte) (base : Nat) : Option (Int × Nat × Nat) :=
  match front R mem base with
  | none => none
  | some f =>
    let MAX : Int := 2 ^ (w - 1) - 1
    let MIN : Int := -(2 ^ (w - 1))
    let b : Int := f.base
    let cutoff0 : Int := if f.neg then MIN else MAX
    let cutlim0 := cutoff0.tmod b
    let cutoff1 := cutoff0.tdiv b
    let (cutoff, cutlim) :=
      if f.neg then
        let (co, cl) := if cutlim0 > 0 then (cutoff1 + 1, cutlim0 - b) else (cutoff1, cutlim0)
        (co, -cl)
      else (cutoff1, cutlim0)
    match loopSe MIN MAX b f.neg cutoff cutlim R.lp f.rest f.c f.off (0, 0) 0 with
    | none => none
    | some (acc, any, off, err) => some (acc, endOff any off, err)

def strtolE (w : Nat) := strtoSUe w readsL
def strtoimaxE (w : Nat) := strtoSUe w readsL
def strtoulE (w : Nat) := strtoUUe w readsUL
def strtoumaxE (w : Nat) := strtoUUe w readsUL
def strtollE (w : Nat) := strtoLLe w readsLL
def strtoullE (w : Nat) := strtoULLe w readsLL

/-- strtoll.c: `int64_t strtoq(…) { return ((int64_t) strtoll(nptr, endptr, base)); }`
(`w` = width of `long long`; the conversion to `int64_t` keeps the low 64 bits) -/
def strtoqE (w : Nat) (mem : List Byte) (base : Nat) : Option (Int × Nat × Nat) :=
  (strtollE w mem base).map fun r => (asSigned 64 ((r.1 % 2 ^ 64).toNat), r.2.1, r.2.2)

/-- strtoull.c: `uint64_t strtouq(…) { return ((uint64_t) strtoull(nptr, endptr, base)); }` -/
def strtouqE (w : Nat) (mem : List Byte) (base : Nat) : Option (Nat × Nat × Nat) :=
  (strtoullE w mem base).map fun r => (r.1 % 2 ^ 64, r.2.1, r.2.2)

/-- compat/libc/include/stdlib.h: `static inline long long atoll(const char *nptr)
{ return strtoll(nptr, 0, 10); }` -/
def atoll (w : Nat) (mem : List Byte) : Option Int := (strtoll w mem 10).map (·.1)

/-- rand.c `rand_r` (repaired: the product is formed in `unsigned long`):
`*seedp = (unsigned int)(*seedp * 16546134871ul + 513585871) % (204814687);
return (int)(*seedp) >> 1;` — the same recurrence as `rand`, on the caller's
32-bit seed -/
def randR (seed : Nat) : Nat × Int := let s := randSeed (seed % 2 ^ 32); (s, randOut s)

/-! ## Specification: ISO/IEC 9899 7.22.1.4 (strtol family), 7.22.1.2 (atol) -/

namespace Spec

/-- white space in the "C" locale -/
def isSpace (b : Byte) : Bool := b.toNat = 32 ∨ (9 ≤ b.toNat ∧ b.toNat ≤ 13)

/-- "The letters from a (or A) through z (or Z) are ascribed the values 10
through 35"; 36 (not a digit of any base) for every other character -/
def digit (b : Byte) : Nat :=
  let c := b.toNat
  if 48 ≤ c ∧ c ≤ 57 then c - 48
  else if 97 ≤ c ∧ c ≤ 122 then c - 87
  else if 65 ≤ c ∧ c ≤ 90 then c - 55
  else 36

/-- the longest run of digits of the base at the head of `t`, as values -/
def digits (base : Nat) (t : List Byte) : List Nat := (t.map digit).takeWhile (· < base)

/-- value of a digit string, most significant digit first -/
def ofDigits (base : Nat) (ds : List Nat) : Nat := ds.foldl (fun a d => a * base + d) 0

/-- the subject sequence: sign, magnitude, and the offset of the first
character after it -/
structure Subject where
  neg : Bool
  mag : Nat
  len : Nat
deriving DecidableEq, Repr

/-- optional sign -/
def sign (t : List Byte) : Bool × Nat × List Byte :=
  match t with
  | b :: r => if b.toNat = 45 then (true, 1, r) else if b.toNat = 43 then (false, 1, r) else (false, 0, t)
  | [] => (false, 0, [])

/-- "0x or 0X followed by a hexadecimal digit" at the head of `t` -/
def hexPrefix (t : List Byte) : Bool :=
  match t with
  | z :: x :: y :: _ => z.toNat = 48 && (x.toNat = 120 || x.toNat = 88) && digit y < 16
  | _ => false

/-- the base the digits are read in: 16 after a prefix; for base 0, 8 after
a leading `0`, else 10 -/
def effBase (base : Nat) (hex : Bool) (t2 : List Byte) : Nat :=
  if hex then 16 else if base = 0 then (if t2.head?.map (·.toNat) = some 48 then 8 else 10) else base

/-- The subject sequence of `t` for `base ∈ {0, 2..36}`: leading white space,
an optional sign, for base 16 (or 0) an optional `0x`/`0X`, then the longest
non-empty run of digits of the base (base 0: 16 after a prefix, 8 after a
leading `0`, else 10).  `none`: no conversion can be performed. -/
def parse (t : List Byte) (base : Nat) : Option Subject :=
  let ws := (t.takeWhile isSpace).length
  let t1 := t.dropWhile isSpace
  let sg := sign t1
  let hex := decide (base = 0 ∨ base = 16) && hexPrefix sg.2.2
  let b := effBase base hex sg.2.2
  let t3 := if hex then sg.2.2.drop 2 else sg.2.2
  let ds := digits b t3
  if ds = [] then none else some ⟨sg.1, ofDigits b ds, ws + sg.2.1 + (if hex then 2 else 0) + ds.length⟩

/-- result of a signed conversion of width `w`: the value if representable,
else the nearest limit; 0 and the start of the string when no conversion -/
def signedResult (w : Nat) (p : Option Subject) : Int × Nat :=
  match p with
  | none => (0, 0)
  | some s =>
    let v : Int := if s.neg then -(s.mag : Int) else s.mag
    let MAX : Int := 2 ^ (w - 1) - 1
    let MIN : Int := -(2 ^ (w - 1))
    (if v < MIN then MIN else if MAX < v then MAX else v, s.len)

/-- result of an unsigned conversion of width `w`: the maximum when the
magnitude is not representable, else the value, negated in the unsigned type
after a minus sign -/
def unsignedResult (w : Nat) (p : Option Subject) : Nat × Nat :=
  match p with
  | none => (0, 0)
  | some s =>
    (if s.mag > 2 ^ w - 1 then 2 ^ w - 1 else if s.neg then (2 ^ w - s.mag) % 2 ^ w else s.mag, s.len)

/-- the mathematical value of a decimal text (what `atol` denotes) -/
def decimalValue (t : List Byte) : Int :=
  match parse t 10 with
  | none => 0
  | some s => if s.neg then -(s.mag : Int) else s.mag

/-- ISO 7.22.1.4 ¶8: "If the correct value is outside the range of
representable values, … the value of the macro ERANGE is stored in errno";
nothing is stored otherwise (`0`).  Signed conversions. -/
def signedErr (w : Nat) (p : Option Subject) : Nat :=
  match p with
  | none => 0
  | some s =>
    let v : Int := if s.neg then -(s.mag : Int) else s.mag
    if v < -(2 ^ (w - 1)) ∨ 2 ^ (w - 1) - 1 < v then 34 else 0

/-- unsigned conversions: the magnitude does not fit (with or without a minus sign) -/
def unsignedErr (w : Nat) (p : Option Subject) : Nat :=
  match p with
  | none => 0
  | some s => if s.mag > 2 ^ w - 1 then 34 else 0

/-- what strtoul.c / strtoumax.c store: ISO's ERANGE, and additionally EINVAL
when no conversion is performed (allowed by POSIX, not asked for by ISO C) -/
def unsignedErrEinval (w : Nat) (p : Option Subject) : Nat :=
  match p with
  | none => 22
  | some _ => unsignedErr w p

/-- the first index whose element satisfies `p` (the length if none does) -/
def firstIdx {α : Type} (p : α → Bool) (a : List α) : Nat := (a.takeWhile fun x => !p x).length

end Spec

/-! ## comparators -/

/-- ISO 7.22.5 ¶4: a comparison function that defines a total (pre)order:
the sign of `cmp a b` is the opposite of the sign of `cmp b a`, and `≤` is
transitive -/
structure Consistent {α : Type} (cmp : α → α → Int) : Prop where
  anti : ∀ a b, cmp a b < 0 ↔ 0 < cmp b a
  trans : ∀ a b c, cmp a b ≤ 0 → cmp b c ≤ 0 → cmp a c ≤ 0

/-- the array is ordered by `cmp` -/
def Sorted {α : Type} (cmp : α → α → Int) (a : List α) : Prop := a.Pairwise fun x y => cmp x y ≤ 0

/-- ISO 7.22.5.1 ¶2 (bsearch): "the array shall consist of: all the elements
that compare less than, all the elements that compare equal to, and all the
elements that compare greater than the key object, in that order" — i.e. the
sign of `cmp key a[i]` never increases with `i` -/
def PartitionedBy {κ α : Type} (cmp : κ → α → Int) (key : κ) (a : List α) : Prop :=
  ∀ i j (_ : i ≤ j) (hj : j < a.length),
    (cmp key (a[i]'(by omega)) < 0 → cmp key a[j] < 0) ∧ (cmp key (a[i]'(by omega)) ≤ 0 → cmp key a[j] ≤ 0)

/-! ## round 3: what the correspondence compares for qsort / bsearch, rand.c's state

The property fixes "a permutation of the input ordered by the comparator" and
"an element comparing equal to the key": NOT the arrangement inside a run of
elements that compare equal, nor which of several equal elements bsearch
returns.  The correspondence therefore compares canonical forms (of the real
code's output and of the model's output); the theorems about the literal
algorithm stay as they are. -/

/-- inside every maximal run of adjacent elements comparing equal the elements
are sorted by `le` (a total order on whole elements) -/
def canonRuns {α : Type} (cmp : α → α → Int) (le : α → α → Bool) (a : List α) : List α :=
  ((a.splitBy fun x y => cmp x y == 0).map fun run => run.mergeSort le).flatten

/-- the lexicographic order "by the comparator, then by `le`" (a total order on whole
elements when `cmp` is consistent and `le` is a total order) -/
def lexLe {α : Type} (cmp : α → α → Int) (le : α → α → Bool) (x y : α) : Bool :=
  decide (cmp x y < 0) || (cmp x y == 0 && le x y)

/-- the canonical form the driver prints: the output sorted by `lexLe`.  On an output
that is ordered by `cmp` (every output of the model is: `qsort_sorted`) this only
rearranges the elements inside each run of equal elements, i.e. it is `canonRuns`,
the form the harness computes from the real code's output. -/
def canonLex {α : Type} (cmp : α → α → Int) (le : α → α → Bool) (a : List α) : List α :=
  a.mergeSort (lexLe cmp le)

/-- the run of elements comparing equal to the key around index `i` (first, last) -/
def equalRun {κ α : Type} (cmp : κ → α → Int) (key : κ) (a : List α) (i : Nat) : Nat × Nat :=
  (i - ((a.take i).reverse.takeWhile fun x => cmp key x == 0).length,
   i + ((a.drop (i + 1)).takeWhile fun x => cmp key x == 0).length)

/-- `static unsigned long seed = 314567651ul;` -/
def randInit : Nat := 314567651
/-- width of that object in the build the driver is instantiated for (LP64) -/
def randStateBits : Nat := 64
/-- the generator's modulus: every state after the first call is below it -/
def randMod : Nat := 204814687

end Igris.C11
