/-
  C11 — qsort.c once more, on BYTES.

  `Model.lean` treats an element as one object (`List α`) and pointers as
  element indices.  Here the array is what the C function gets: `nmemb * size`
  bytes, pointers are byte offsets from `base`, `swap` is its three `memcpy`s
  through the `char temp[size]` buffer, `key` is the `char key[size]` copy of
  the pivot, and a recursive call sees exactly the bytes of the sub-array it
  is given.  A `memcpy` or a comparator argument that is not completely inside
  the bytes the call was given is a fault (`none`).  `Bytes.lean` proves that
  this function is the element-level `qsortF` on the chunks of `size` bytes
  (for every `size ≥ 1`), which transports `qsort_perm` / `qsort_sorted` to it.

  Core Lean only; not executed by the driver (the driver runs the element-level
  model, which the refinement theorem shows to be the same function).
-/
import IgrisModel.C11.Model
namespace Igris.C11
open Igris.Proto (Byte)

/-- the `size` bytes at offset `p` (a comparator argument, or the source of a
`memcpy`): completely inside the array or a fault -/
def elemAt (size : Nat) (mem : List Byte) (p : Nat) : Option (List Byte) :=
  if p + size ≤ mem.length then some ((mem.drop p).take size) else none

/-- `memcpy(base + p, src, |src|)` -/
def blit (mem : List Byte) (p : Nat) (src : List Byte) : Option (List Byte) :=
  if p + src.length ≤ mem.length then some (mem.take p ++ src ++ mem.drop (p + src.length)) else none

/-- `swap(fst, snd, size)`: `memcpy(temp, snd, size); memcpy(snd, fst, size);
memcpy(fst, temp, size);` -/
def swapB (size : Nat) (mem : List Byte) (fst snd : Nat) : Option (List Byte) :=
  match elemAt size mem snd with
  | none => none
  | some temp =>
    match elemAt size mem fst with
    | none => none
    | some x =>
      match blit mem snd x with
      | none => none
      | some m1 => blit m1 fst temp

section
variable (cmp : List Byte → List Byte → Int) (key : List Byte) (size : Nat)

/-- `while (compar(i, key) < 0) i += size;` -/
def scanUpB (mem : List Byte) : Nat → Nat → Option Nat
  | 0, _ => none
  | f + 1, i =>
    match elemAt size mem i with
    | none => none
    | some x => if cmp x key < 0 then scanUpB mem f (i + size) else some i

/-- `while (compar(key, j) < 0) j -= size;` -/
def scanDownB (mem : List Byte) : Nat → Int → Option Int
  | 0, _ => none
  | f + 1, j =>
    if j < 0 then none
    else
      match elemAt size mem j.toNat with
      | none => none
      | some x => if cmp key x < 0 then scanDownB mem f (j - size) else some j

/-- `while (i <= j) { …; if (i <= j) { swap(i, j, size); i += size; j -= size; } }` -/
def partLoopB : Nat → List Byte → Nat → Int → Option (List Byte × Nat × Int)
  | 0, _, _, _ => none
  | f + 1, mem, i, j =>
    if (i : Int) ≤ j then
      match scanUpB cmp key size mem (mem.length / size + 1) i with
      | none => none
      | some i =>
        match scanDownB cmp key size mem (mem.length / size + 1) j with
        | none => none
        | some j =>
          if (i : Int) ≤ j then
            match swapB size mem i j.toNat with
            | none => none
            | some mem => partLoopB f mem (i + size) (j - size)
          else partLoopB f mem i j
    else some (mem, i, j)

/-- `if (compar(q, p) < 0) swap(p, q, size);` -/
def cswapB (mem : List Byte) (p q : Nat) : Option (List Byte) :=
  match elemAt size mem q, elemAt size mem p with
  | some y, some x => if cmp y x < 0 then swapB size mem p q else some mem
  | _, _ => none

/-- the `nmemb < 4` branch -/
def smallSortB (nmemb : Nat) (mem : List Byte) : Option (List Byte) :=
  if nmemb = 2 then cswapB cmp size mem 0 size
  else if nmemb = 3 then
    match cswapB cmp size mem 0 size with
    | none => none
    | some mem =>
      -- if (compar(base + (size << 1), base + size) < 0) { swap(…); if (compar(base + size, base) < 0) swap(…); }
      match elemAt size mem (size * 2), elemAt size mem size with
      | some z, some y =>
        if cmp z y < 0 then
          match swapB size mem size (size * 2) with
          | none => none
          | some mem => cswapB cmp size mem 0 size
        else some mem
      | _, _ => none
  else some mem

end

/-- `qsort(base, nmemb, size, compar)` on the `nmemb * size` bytes `mem` -/
def qsortFB (cmp : List Byte → List Byte → Int) (size : Nat) : Nat → List Int → List Byte → Option (List Byte × List Int)
  | 0, _, _ => none
  | fuel + 1, rs, mem =>
    let nmemb := mem.length / size
    if nmemb < 4 then (smallSortB cmp size nmemb mem).map fun m => (m, rs)
    else
      let (r, rs) := nextRand rs
      -- char *pos = (rand() % nmemb) * size + base; memcpy(key, pos, size);
      match elemAt size mem (pivotIndex r nmemb * size) with
      | none => none
      | some key =>
        -- char *i = base, *j = base + (size * (nmemb - 1));
        match partLoopB cmp key size (nmemb + 2) mem 0 ((size * (nmemb - 1) : Nat) : Int) with
        | none => none
        | some (mem, i, j) =>
          -- if (j > base) qsort(base, (j - base) / size + 1, size, compar);
          let l : Option (List Byte × List Int) :=
            if j > 0 then
              let len := (j.toNat / size + 1) * size
              (qsortFB cmp size fuel rs (mem.take len)).map fun (s, rs) => (s ++ mem.drop len, rs)
            else some (mem, rs)
          match l with
          | none => none
          | some (mem, rs) =>
            -- if (i < base + (nmemb - 1) * size) qsort(i, nmemb - (i - base) / size, size, compar);
            -- (the `nmemb - (i - base) / size` elements from `i` on are all the bytes from `i` to the
            -- end of the array this call was given: `mem.length = nmemb * size`)
            if i < (nmemb - 1) * size then
              (qsortFB cmp size fuel rs (mem.drop i)).map fun (s, rs) => (mem.take i ++ s, rs)
            else some (mem, rs)

/-- `qsort` on bytes: fuel `nmemb + 1` -/
def qsortB (cmp : List Byte → List Byte → Int) (size : Nat) (rs : List Int) (mem : List Byte) : Option (List Byte × List Int) :=
  qsortFB cmp size (mem.length / size + 1) rs mem

/-! ## bsearch.c on bytes: `left`, `right`, `mid` are byte offsets from `base`,
`mid = left + ((right - left) / (size << 1) * size)`; the key object is opaque
(`κ`), the comparator gets it and the `size` bytes of an element -/

section
variable {κ : Type} (cmp : κ → List Byte → Int) (key : κ) (size : Nat) (mem : List Byte)

/-- `while (left + size < right) { mid = …; if (compar(key, mid) < 0) right = mid; else left = mid; }` -/
def bsLoopB : Nat → Nat → Nat → Option (Nat × Nat)
  | 0, _, _ => none
  | f + 1, left, right =>
    if left + size < right then
      let mid := left + ((right - left) / (size * 2) * size)
      match elemAt size mem mid with
      | none => none
      | some x => if cmp key x < 0 then bsLoopB f left mid else bsLoopB f mid right
    else some (left, right)

/-- `bsearch`: `some none` = NULL, `some (some p)` = `base + p` -/
def bsearchB (nmemb : Nat) : Option (Option Nat) :=
  if nmemb = 0 then some none
  else
    match bsLoopB cmp key size mem (nmemb + 1) 0 (size * nmemb) with
    | none => none
    | some (left, _) =>
      match elemAt size mem left with
      | none => none
      | some x => if cmp key x = 0 then some (some left) else some none

/-- the loop of upper_bound / lower_bound (repaired): `while (left < right) { mid = …;
if (test) right = mid; else left = mid + size; } return left;` -/
def bndLoopB (goLeft : List Byte → Bool) : Nat → Nat → Nat → Option Nat
  | 0, _, _ => none
  | f + 1, left, right =>
    if left < right then
      let mid := left + ((right - left) / (size * 2) * size)
      match elemAt size mem mid with
      | none => none
      | some x => if goLeft x then bndLoopB goLeft f left mid else bndLoopB goLeft f (mid + size) right
    else some left

def upperBoundB (nmemb : Nat) : Option Nat :=
  bndLoopB size mem (fun x => decide (cmp key x < 0)) (nmemb + 1) 0 (size * nmemb)

def lowerBoundB (nmemb : Nat) : Option Nat :=
  bndLoopB size mem (fun x => decide (cmp key x ≤ 0)) (nmemb + 1) 0 (size * nmemb)

end

end Igris.C11
