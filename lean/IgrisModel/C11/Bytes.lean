/-
  C11 — the byte-level qsort (`ModelBytes.lean`) is the element-level one
  (`Model.lean`) on the chunks of `size` bytes, for every `size ≥ 1`.
-/
import IgrisModel.C11.ModelBytes
import IgrisModel.C11.Lemmas
namespace Igris.C11
open Igris.Proto (Byte)

/-- every element occupies exactly `size` bytes -/
def Uniform (size : Nat) (a : List (List Byte)) : Prop := ∀ x ∈ a, x.length = size

section chunks
variable {size : Nat}

theorem Uniform.tail {x : List Byte} {a : List (List Byte)} (h : Uniform size (x :: a)) : Uniform size a :=
  fun y hy => h y (List.mem_cons_of_mem _ hy)

theorem Uniform.head {x : List Byte} {a : List (List Byte)} (h : Uniform size (x :: a)) : x.length = size :=
  h x List.mem_cons_self

theorem Uniform.take {a : List (List Byte)} (h : Uniform size a) (k : Nat) : Uniform size (a.take k) :=
  fun y hy => h y (List.mem_of_mem_take hy)

theorem Uniform.drop {a : List (List Byte)} (h : Uniform size a) (k : Nat) : Uniform size (a.drop k) :=
  fun y hy => h y (List.mem_of_mem_drop hy)

theorem Uniform.append {a b : List (List Byte)} (ha : Uniform size a) (hb : Uniform size b) : Uniform size (a ++ b) := by
  intro y hy
  rcases List.mem_append.1 hy with h | h
  · exact ha y h
  · exact hb y h

theorem Uniform.getElem {a : List (List Byte)} (h : Uniform size a) (i : Nat) (hi : i < a.length) : a[i].length = size :=
  h _ (List.getElem_mem hi)

theorem Uniform.set {a : List (List Byte)} (h : Uniform size a) (i : Nat) (x : List Byte) (hx : x.length = size) :
    Uniform size (a.set i x) := by
  intro y hy
  rcases List.mem_or_eq_of_mem_set hy with h' | h'
  · exact h y h'
  · rw [h']; exact hx

theorem Uniform.perm {a b : List (List Byte)} (h : Uniform size a) (p : b.Perm a) : Uniform size b :=
  fun y hy => h y (p.mem_iff.1 hy)

theorem flatten_length : ∀ (a : List (List Byte)), Uniform size a → a.flatten.length = a.length * size := by
  intro a
  induction a with
  | nil => intro _; simp
  | cons x xs ih =>
    intro h
    simp only [List.flatten_cons, List.length_append, List.length_cons, ih h.tail, h.head, Nat.add_mul, Nat.one_mul]
    omega

theorem flatten_take : ∀ (a : List (List Byte)) (k : Nat), Uniform size a → a.flatten.take (k * size) = (a.take k).flatten := by
  intro a
  induction a with
  | nil => intro k _; simp
  | cons x xs ih =>
    intro k h
    cases k with
    | zero => simp
    | succ k' =>
      simp only [List.flatten_cons, List.take_succ_cons]
      have : (k' + 1) * size = x.length + k' * size := by rw [h.head, Nat.add_mul, Nat.one_mul]; omega
      rw [this, List.take_length_add_append, ih k' h.tail]

theorem flatten_drop : ∀ (a : List (List Byte)) (k : Nat), Uniform size a → a.flatten.drop (k * size) = (a.drop k).flatten := by
  intro a
  induction a with
  | nil => intro k _; simp
  | cons x xs ih =>
    intro k h
    cases k with
    | zero => simp
    | succ k' =>
      simp only [List.flatten_cons, List.drop_succ_cons]
      have : (k' + 1) * size = x.length + k' * size := by rw [h.head, Nat.add_mul, Nat.one_mul]; omega
      rw [this, List.drop_length_add_append, ih k' h.tail]

/-- P1: the bytes of element `i` — and a fault exactly when `i` is not an index of the array -/
theorem elemAt_flatten (hs : 0 < size) (a : List (List Byte)) (h : Uniform size a) (i : Nat) :
    elemAt size a.flatten (i * size) = a[i]? := by
  unfold elemAt
  rw [flatten_length a h]
  by_cases hi : i < a.length
  · have hle : i * size + size ≤ a.length * size := by
      have : (i + 1) * size ≤ a.length * size := Nat.mul_le_mul_right size hi
      rw [Nat.add_mul, Nat.one_mul] at this
      exact this
    rw [if_pos hle, flatten_drop a i h, List.drop_eq_getElem_cons hi, List.flatten_cons,
      List.take_left' (h.getElem i hi), List.getElem?_eq_getElem hi]
  · have hge : a.length ≤ i := by omega
    have : ¬ (i * size + size ≤ a.length * size) := by
      have : a.length * size ≤ i * size := Nat.mul_le_mul_right size hge
      omega
    rw [if_neg this, List.getElem?_eq_none hge]

/-- `memcpy` of one element into slot `i` -/
theorem blit_flatten (a : List (List Byte)) (h : Uniform size a) (i : Nat) (hi : i < a.length) (x : List Byte)
    (hx : x.length = size) : blit a.flatten (i * size) x = some (a.set i x).flatten := by
  unfold blit
  have hle : i * size + size ≤ a.length * size := by
    have : (i + 1) * size ≤ a.length * size := Nat.mul_le_mul_right size hi
    rw [Nat.add_mul, Nat.one_mul] at this
    exact this
  rw [hx, flatten_length a h, if_pos hle]
  have e : i * size + size = (i + 1) * size := by rw [Nat.add_mul, Nat.one_mul]
  rw [e, flatten_take a i h, flatten_drop a (i + 1) h, List.set_eq_take_append_cons_drop, if_pos hi]
  simp only [List.flatten_append, List.flatten_cons, List.append_assoc]

/-- P2: the three `memcpy`s of `swap` exchange elements `i` and `j` (also for `i = j`) -/
theorem swapB_flatten (hs : 0 < size) (a : List (List Byte)) (h : Uniform size a) (i j : Nat) :
    swapB size a.flatten (i * size) (j * size) = (swapAt a i j).map List.flatten := by
  unfold swapB swapAt
  rw [elemAt_flatten hs a h j, elemAt_flatten hs a h i]
  by_cases hij : i < a.length ∧ j < a.length
  · obtain ⟨hi, hj⟩ := hij
    rw [List.getElem?_eq_getElem hj, List.getElem?_eq_getElem hi]
    simp only
    rw [blit_flatten a h j hj a[i] (h.getElem i hi)]
    simp only
    rw [blit_flatten (a.set j a[i]) (h.set j _ (h.getElem i hi)) i (by simpa using hi) a[j] (h.getElem j hj)]
    rw [dif_pos ⟨hi, hj⟩]
    simp only [Option.map_some]
    by_cases e : i = j
    · subst e; simp
    · rw [List.set_comm _ _ (fun h' => e h'.symm)]
  · rw [dif_neg hij]
    by_cases hj : j < a.length
    · have hi : ¬ i < a.length := fun hi => hij ⟨hi, hj⟩
      rw [List.getElem?_eq_getElem hj, List.getElem?_eq_none (by omega)]
      rfl
    · rw [List.getElem?_eq_none (by omega)]
      rfl

/-- every byte array of `n * size` bytes is an array of `n` elements -/
theorem exists_chunks (_hs : 0 < size) : ∀ (n : Nat) (mem : List Byte), mem.length = n * size →
    ∃ a : List (List Byte), Uniform size a ∧ a.length = n ∧ a.flatten = mem := by
  intro n
  induction n with
  | zero =>
    intro mem h
    refine ⟨[], fun _ h => (by cases h), rfl, ?_⟩
    have : mem.length = 0 := by simpa using h
    simp [List.eq_nil_of_length_eq_zero this]
  | succ n ih =>
    intro mem h
    obtain ⟨a, ha, hn, hf⟩ := ih (mem.drop size) (by rw [List.length_drop, h, Nat.add_mul, Nat.one_mul]; omega)
    refine ⟨mem.take size :: a, ?_, by simp [hn], ?_⟩
    · intro y hy
      rcases List.mem_cons.1 hy with h' | h'
      · rw [h', List.length_take, h, Nat.add_mul, Nat.one_mul]; omega
      · exact ha y h'
    · rw [List.flatten_cons, hf, List.take_append_drop]

end chunks

/-! ## pointer arithmetic: byte offsets are `index * size` -/

section arith
variable {size : Nat}

theorem off_le_iff (hs : 0 < size) (i : Nat) (j : Int) : ((i * size : Nat) : Int) ≤ j * (size : Int) ↔ (i : Int) ≤ j := by
  have hs' : (0 : Int) < (size : Int) := by omega
  rw [Int.natCast_mul]
  constructor
  · intro h; exact Int.le_of_mul_le_mul_right h hs'
  · intro h; exact Int.mul_le_mul_of_nonneg_right h (by omega)

theorem off_neg_iff (hs : 0 < size) (j : Int) : j * (size : Int) < 0 ↔ j < 0 := by
  have hs' : (0 : Int) < (size : Int) := by omega
  constructor
  · intro h
    apply Classical.byContradiction
    intro hn
    have := Int.mul_nonneg (show (0 : Int) ≤ j by omega) (show (0 : Int) ≤ (size : Int) by omega)
    omega
  · intro h; exact Int.mul_neg_of_neg_of_pos h hs'

theorem off_toNat (j : Int) (hj : 0 ≤ j) : (j * (size : Int)).toNat = j.toNat * size := by
  obtain ⟨n, rfl⟩ := Int.eq_ofNat_of_zero_le hj
  rw [← Int.natCast_mul]
  simp only [Int.toNat_natCast]

theorem off_pred (j : Int) : j * (size : Int) - (size : Int) = (j - 1) * (size : Int) := by
  rw [Int.sub_mul, Int.one_mul]

theorem off_succ (i : Nat) : i * size + size = (i + 1) * size := by rw [Nat.add_mul, Nat.one_mul]

theorem flatten_div (hs : 0 < size) (a : List (List Byte)) (h : Uniform size a) : a.flatten.length / size = a.length := by
  rw [flatten_length a h, Nat.mul_div_cancel _ hs]

end arith

/-! ## the scans, the partition loop, the small networks -/

section refine
variable {size : Nat} (cmp : List Byte → List Byte → Int) (key : List Byte)

theorem scanUpB_refines (hs : 0 < size) (a : List (List Byte)) (h : Uniform size a) : ∀ (f i : Nat),
    scanUpB cmp key size a.flatten f (i * size) = (scanUp cmp key a f i).map (· * size) := by
  intro f
  induction f with
  | zero => intro i; rfl
  | succ f ih =>
    intro i
    unfold scanUpB scanUp
    rw [elemAt_flatten hs a h i]
    cases a[i]? with
    | none => rfl
    | some x =>
      simp only
      by_cases hc : cmp x key < 0
      · rw [if_pos hc, if_pos hc, off_succ, ih]
      · rw [if_neg hc, if_neg hc]; rfl

theorem scanDownB_refines (hs : 0 < size) (a : List (List Byte)) (h : Uniform size a) : ∀ (f : Nat) (j : Int),
    scanDownB cmp key size a.flatten f (j * (size : Int)) = (scanDown cmp key a f j).map (· * (size : Int)) := by
  intro f
  induction f with
  | zero => intro j; rfl
  | succ f ih =>
    intro j
    unfold scanDownB scanDown
    by_cases hj : j < 0
    · rw [if_pos ((off_neg_iff hs j).2 hj), if_pos hj]; rfl
    · rw [if_neg (fun h' => hj ((off_neg_iff hs j).1 h')), if_neg hj]
      rw [off_toNat j (by omega), elemAt_flatten hs a h j.toNat]
      cases a[j.toNat]? with
      | none => rfl
      | some x =>
        simp only
        by_cases hc : cmp key x < 0
        · rw [if_pos hc, if_pos hc, off_pred, ih]
        · rw [if_neg hc, if_neg hc]; rfl

theorem swapAt_uniform (a a' : List (List Byte)) (h : Uniform size a) (i j : Nat) (hsw : swapAt a i j = some a') :
    Uniform size a' := by
  unfold swapAt at hsw
  split at hsw
  · rename_i hij
    simp only [Option.some.injEq] at hsw
    rw [← hsw]
    exact (h.set i _ (h.getElem j hij.2)).set j _ (h.getElem i hij.1)
  · cases hsw

theorem partLoopB_refines (hs : 0 < size) : ∀ (f : Nat) (a : List (List Byte)), Uniform size a → ∀ (i : Nat) (j : Int),
    partLoopB cmp key size f a.flatten (i * size) (j * (size : Int)) =
      (partLoop cmp key f a i j).map fun r => (r.1.flatten, r.2.1 * size, r.2.2 * (size : Int)) := by
  intro f
  induction f with
  | zero => intro a _ i j; rfl
  | succ f ih =>
    intro a h i j
    unfold partLoopB partLoop
    by_cases hij : (i : Int) ≤ j
    · rw [if_pos ((off_le_iff hs i j).2 hij), if_pos hij]
      rw [flatten_div hs a h, scanUpB_refines cmp key hs a h]
      cases scanUp cmp key a (a.length + 1) i with
      | none => rfl
      | some i' =>
        simp only [Option.map_some]
        rw [scanDownB_refines cmp key hs a h]
        cases scanDown cmp key a (a.length + 1) j with
        | none => rfl
        | some j' =>
          simp only [Option.map_some]
          by_cases hij' : (i' : Int) ≤ j'
          · rw [if_pos ((off_le_iff hs i' j').2 hij'), if_pos hij']
            rw [off_toNat j' (by omega), swapB_flatten hs a h]
            cases hsw : swapAt a i' j'.toNat with
            | none => rfl
            | some a' =>
              simp only [Option.map_some]
              rw [off_succ, off_pred]
              exact ih a' (swapAt_uniform a a' h _ _ hsw) (i' + 1) (j' - 1)
          · rw [if_neg (fun h' => hij' ((off_le_iff hs i' j').1 h')), if_neg hij']
            exact ih a h i' j'
    · rw [if_neg (fun h' => hij ((off_le_iff hs i j).1 h')), if_neg hij]
      rfl

end refine

section refine2
variable {size : Nat} (cmp : List Byte → List Byte → Int)

theorem elemAt_flatten' (hs : 0 < size) (a : List (List Byte)) (h : Uniform size a) (i : Nat) (hi : i < a.length) :
    elemAt size a.flatten (i * size) = some a[i] := by
  rw [elemAt_flatten hs a h i, List.getElem?_eq_getElem hi]

theorem swapB_flatten' (hs : 0 < size) (a : List (List Byte)) (h : Uniform size a) (p q : Nat)
    (hp : p < a.length) (hq : q < a.length) :
    swapB size a.flatten (p * size) (q * size) = some ((a.set p a[q]).set q a[p]).flatten := by
  rw [swapB_flatten hs a h p q]
  unfold swapAt
  rw [dif_pos ⟨hp, hq⟩]
  rfl

theorem cswapB_flatten (hs : 0 < size) (a : List (List Byte)) (h : Uniform size a) (p q : Nat)
    (hp : p < a.length) (hq : q < a.length) :
    cswapB cmp size a.flatten (p * size) (q * size) =
      some (if cmp a[q] a[p] < 0 then (a.set p a[q]).set q a[p] else a).flatten := by
  unfold cswapB
  rw [elemAt_flatten' hs a h q hq, elemAt_flatten' hs a h p hp]
  simp only
  by_cases hc : cmp a[q] a[p] < 0
  · rw [if_pos hc, if_pos hc, swapB_flatten' hs a h p q hp hq]
  · rw [if_neg hc, if_neg hc]

theorem uniform3 {x y z : List Byte} (hx : x.length = size) (hy : y.length = size) (hz : z.length = size) :
    Uniform size [x, y, z] := by
  intro w hw
  simp only [List.mem_cons, List.not_mem_nil, or_false] at hw
  rcases hw with rfl | rfl | rfl <;> assumption

/-- the second and third compare-exchange of the 3-element network -/
theorem small3_tail (hs : 0 < size) (x y z : List Byte) (hx : x.length = size) (hy : y.length = size) (hz : z.length = size) :
    (match elemAt size [x, y, z].flatten (size * 2), elemAt size [x, y, z].flatten size with
      | some z', some y' =>
        if cmp z' y' < 0 then
          match swapB size [x, y, z].flatten size (size * 2) with
          | none => none
          | some mem => cswapB cmp size mem 0 size
        else some [x, y, z].flatten
      | _, _ => none) =
    some (if cmp z y < 0 then (if cmp z x < 0 then [z, x, y] else [x, z, y]) else [x, y, z]).flatten := by
  have hu := uniform3 hx hy hz
  have e2 : size * 2 = 2 * size := Nat.mul_comm _ _
  have e1 : size = 1 * size := (Nat.one_mul _).symm
  have r2 := elemAt_flatten' hs [x, y, z] hu 2 (by simp)
  have r1 := elemAt_flatten' hs [x, y, z] hu 1 (by simp)
  have sw := swapB_flatten' hs [x, y, z] hu 1 2 (by simp) (by simp)
  rw [← e2, ← e1] at sw
  rw [← e2] at r2
  rw [← e1] at r1
  rw [r2, r1]
  simp only [List.getElem_cons_succ, List.getElem_cons_zero]
  by_cases h1 : cmp z y < 0
  · rw [if_pos h1, if_pos h1, sw]
    simp only [List.getElem_cons_succ, List.getElem_cons_zero, List.set_cons_succ, List.set_cons_zero]
    have hu' := uniform3 hx hz hy
    have cs := cswapB_flatten cmp hs [x, z, y] hu' 0 1 (by simp) (by simp)
    rw [Nat.zero_mul, ← e1] at cs
    rw [cs]
    simp only [List.getElem_cons_succ, List.getElem_cons_zero, List.set_cons_succ, List.set_cons_zero]
  · rw [if_neg h1, if_neg h1]

theorem smallSortB_refines (hs : 0 < size) (a : List (List Byte)) (h : Uniform size a) (hlen : a.length < 4) :
    smallSortB cmp size a.length a.flatten = some (smallSort cmp a).flatten := by
  have e1 : size = 1 * size := (Nat.one_mul _).symm
  match a, h, hlen with
  | [], _, _ => simp [smallSortB, smallSort]
  | [x], _, _ => simp [smallSortB, smallSort]
  | [x, y], h, _ =>
    have cs := cswapB_flatten cmp hs [x, y] h 0 1 (by simp) (by simp)
    rw [Nat.zero_mul, ← e1] at cs
    unfold smallSortB
    simp only [List.length_cons, List.length_nil, if_true]
    rw [cs]
    simp only [List.getElem_cons_succ, List.getElem_cons_zero, List.set_cons_succ, List.set_cons_zero, smallSort]
  | [x, y, z], h, _ =>
    have hx : x.length = size := h x (by simp)
    have hy : y.length = size := h y (by simp)
    have hz : z.length = size := h z (by simp)
    have cs := cswapB_flatten cmp hs [x, y, z] h 0 1 (by simp) (by simp)
    rw [Nat.zero_mul, ← e1] at cs
    unfold smallSortB
    simp only [List.length_cons, List.length_nil]
    rw [if_pos trivial, cs]
    simp only [List.getElem_cons_succ, List.getElem_cons_zero, List.set_cons_succ, List.set_cons_zero, smallSort]
    by_cases hc : cmp y x < 0
    · rw [if_pos hc, if_pos hc]
      simp only
      exact small3_tail cmp hs y x z hy hx hz
    · rw [if_neg hc, if_neg hc]
      simp only
      exact small3_tail cmp hs x y z hx hy hz
  | _ :: _ :: _ :: _ :: _, _, hlen => exact absurd hlen (by simp only [List.length_cons]; omega)

theorem partLoop_uniform (key : List Byte) : ∀ (f : Nat) (a : List (List Byte)) (i : Nat) (j : Int) (r : List (List Byte) × Nat × Int),
    Uniform size a → partLoop cmp key f a i j = some r → Uniform size r.1 := by
  intro f
  induction f with
  | zero => intro a i j r _ h; cases h
  | succ f ih =>
    intro a i j r hu h
    unfold partLoop at h
    split at h
    · split at h
      · cases h
      · split at h
        · cases h
        · split at h
          · split at h
            · cases h
            · rename_i a' hsw
              exact ih a' _ _ r (swapAt_uniform a a' hu _ _ hsw) h
          · exact ih a _ _ r hu h
    · cases h; exact hu

theorem qsortF_uniform : ∀ (fuel : Nat) (rs : List Int) (a : List (List Byte)) (r : List (List Byte) × List Int),
    Uniform size a → qsortF cmp fuel rs a = some r → Uniform size r.1 := by
  intro fuel
  induction fuel with
  | zero => intro rs a r _ h; cases h
  | succ f ih =>
    intro rs a r hu h
    unfold qsortF at h
    simp only at h
    split at h
    · cases h; exact hu.perm (smallSort_perm cmp a)
    · split at h
      · cases h
      · rename_i key hkey
        split at h
        · cases h
        · rename_i a1 i j hpl
          have hu1 : Uniform size a1 := partLoop_uniform cmp key _ _ _ _ _ hu hpl
          split at h
          · cases h
          · rename_i a2 rs2 hl
            have hu2 : Uniform size a2 := by
              split at hl
              · cases hq : qsortF cmp f (nextRand rs).2 (List.take (j.toNat + 1) a1) with
                | none => rw [hq] at hl; cases hl
                | some r1 =>
                  rw [hq] at hl
                  simp only [Option.map_some, Option.some.injEq, Prod.mk.injEq] at hl
                  rw [← hl.1]
                  exact (ih _ _ r1 (hu1.take _) hq).append (hu1.drop _)
              · simp only [Option.some.injEq, Prod.mk.injEq] at hl
                rw [← hl.1]; exact hu1
            split at h
            · cases hq : qsortF cmp f rs2 (List.drop i a2) with
              | none => rw [hq] at h; cases h
              | some r2 =>
                rw [hq] at h
                simp only [Option.map_some, Option.some.injEq] at h
                rw [← h]
                exact (hu2.take _).append (ih _ _ r2 (hu2.drop _) hq)
            · cases h; exact hu2

end refine2

section main
variable {size : Nat} (cmp : List Byte → List Byte → Int)

theorem last_off (n : Nat) (hn : 1 ≤ n) : ((size * (n - 1) : Nat) : Int) = ((n : Int) - 1) * (size : Int) := by
  rw [Int.natCast_mul, Int.natCast_sub hn, Int.mul_comm]
  rfl

/-- REFINEMENT: qsort.c on the bytes of an array of `size`-byte elements is the
element-level model on the elements — same result, same faults, same use of
the pivot stream — for every element size ≥ 1, every comparator, every fuel -/
theorem qsortFB_refines (hs : 0 < size) : ∀ (fuel : Nat) (rs : List Int) (a : List (List Byte)), Uniform size a →
    qsortFB cmp size fuel rs a.flatten = (qsortF cmp fuel rs a).map fun r => (r.1.flatten, r.2) := by
  intro fuel
  induction fuel with
  | zero => intro rs a _; rfl
  | succ f ih =>
    intro rs a hu
    unfold qsortFB qsortF
    simp only [flatten_div hs a hu]
    by_cases hsmall : a.length < 4
    · rw [if_pos hsmall, if_pos hsmall, smallSortB_refines cmp hs a hu hsmall]
      rfl
    · rw [if_neg hsmall, if_neg hsmall]
      rw [elemAt_flatten hs a hu]
      cases hkey : a[pivotIndex (nextRand rs).1 a.length]? with
      | none => rfl
      | some key =>
        simp only
        have e0 : (0 : Nat) = 0 * size := (Nat.zero_mul _).symm
        rw [last_off a.length (by omega)]
        conv => lhs; rw [e0]
        rw [partLoopB_refines cmp key hs (a.length + 2) a hu 0 ((a.length : Int) - 1)]
        cases hpl : partLoop cmp key (a.length + 2) a 0 ((a.length : Int) - 1) with
        | none => rfl
        | some r =>
          obtain ⟨a1, i, j⟩ := r
          have hu1 : Uniform size a1 := partLoop_uniform cmp key _ _ _ _ _ hu hpl
          simp only [Option.map_some]
          -- the left recursive call
          have hleft : (if j * (size : Int) > 0 then
                Option.map (fun x => (x.1 ++ List.drop (((j * (size : Int)).toNat / size + 1) * size) a1.flatten, x.2))
                  (qsortFB cmp size f (nextRand rs).2 (List.take (((j * (size : Int)).toNat / size + 1) * size) a1.flatten))
              else some (a1.flatten, (nextRand rs).2)) =
              (if j > 0 then
                Option.map (fun x => (x.1 ++ List.drop (j.toNat + 1) a1, x.2)) (qsortF cmp f (nextRand rs).2 (List.take (j.toNat + 1) a1))
              else some (a1, (nextRand rs).2)).map fun r => (r.1.flatten, r.2) := by
            by_cases hj : j > 0
            · have hj' : j * (size : Int) > 0 := Int.mul_pos hj (by omega)
              rw [if_pos hj', if_pos hj]
              rw [off_toNat j (by omega), Nat.mul_div_cancel _ hs, flatten_take a1 _ hu1, flatten_drop a1 _ hu1,
                ih _ _ (hu1.take _)]
              cases qsortF cmp f (nextRand rs).2 (List.take (j.toNat + 1) a1) with
              | none => rfl
              | some r1 => simp only [Option.map_some, List.flatten_append]
            · have hj' : ¬ j * (size : Int) > 0 := by
                intro h'
                have : j * (size : Int) ≤ 0 := Int.mul_nonpos_of_nonpos_of_nonneg (by omega) (by omega)
                omega
              rw [if_neg hj', if_neg hj]
              rfl
          rw [hleft]
          cases hl : (if j > 0 then
                Option.map (fun x => (x.1 ++ List.drop (j.toNat + 1) a1, x.2)) (qsortF cmp f (nextRand rs).2 (List.take (j.toNat + 1) a1))
              else some (a1, (nextRand rs).2)) with
          | none => rfl
          | some r2 =>
            obtain ⟨a2, rs2⟩ := r2
            have hu2 : Uniform size a2 := by
              by_cases hj : j > 0
              · rw [if_pos hj] at hl
                cases hq : qsortF cmp f (nextRand rs).2 (List.take (j.toNat + 1) a1) with
                | none => rw [hq] at hl; cases hl
                | some r1 =>
                  rw [hq] at hl
                  simp only [Option.map_some, Option.some.injEq, Prod.mk.injEq] at hl
                  rw [← hl.1]
                  exact (qsortF_uniform cmp _ _ _ r1 (hu1.take _) hq).append (hu1.drop _)
              · rw [if_neg hj] at hl
                simp only [Option.some.injEq, Prod.mk.injEq] at hl
                rw [← hl.1]; exact hu1
            simp only [Option.map_some]
            by_cases hi : i < a.length - 1
            · have hi' : i * size < (a.length - 1) * size := Nat.mul_lt_mul_of_pos_right hi hs
              rw [if_pos hi', if_pos hi, flatten_drop a2 _ hu2, flatten_take a2 _ hu2, ih _ _ (hu2.drop _)]
              cases qsortF cmp f rs2 (List.drop i a2) with
              | none => rfl
              | some r3 => simp only [Option.map_some, List.flatten_append]
            · have hi' : ¬ i * size < (a.length - 1) * size := by
                intro h'
                exact hi (Nat.lt_of_mul_lt_mul_right h')
              rw [if_neg hi', if_neg hi]
              rfl

end main

/-! ## bsearch / upper_bound / lower_bound on bytes -/

section bsearchB
variable {size : Nat} {κ : Type} (cmp : κ → List Byte → Int) (key : κ)

/-- `left + ((right - left) / (size << 1) * size)` is the element-index midpoint -/
theorem mid_off (hs : 0 < size) (l r : Nat) :
    l * size + ((r * size - l * size) / (size * 2) * size) = (l + (r - l) / 2) * size := by
  rw [← Nat.sub_mul, Nat.mul_comm size 2, Nat.mul_comm (r - l) size, Nat.mul_comm 2 size,
    Nat.mul_div_mul_left _ _ hs, Nat.add_mul]

theorem bsLoopB_refines (hs : 0 < size) (a : List (List Byte)) (h : Uniform size a) : ∀ (f l r : Nat),
    bsLoopB cmp key size a.flatten f (l * size) (r * size) =
      (bsLoop cmp key a f l r).map fun p => (p.1 * size, p.2 * size) := by
  intro f
  induction f with
  | zero => intro l r; rfl
  | succ f ih =>
    intro l r
    unfold bsLoopB bsLoop
    by_cases hlr : l + 1 < r
    · have : l * size + size < r * size := by
        rw [off_succ]; exact Nat.mul_lt_mul_of_pos_right hlr hs
      rw [if_pos this, if_pos hlr]
      simp only
      rw [mid_off hs, elemAt_flatten hs a h]
      cases a[l + (r - l) / 2]? with
      | none => rfl
      | some x =>
        simp only
        by_cases hc : cmp key x < 0
        · rw [if_pos hc, if_pos hc, ih]
        · rw [if_neg hc, if_neg hc, ih]
    · have : ¬ l * size + size < r * size := by
        rw [off_succ]; intro h'; exact hlr (Nat.lt_of_mul_lt_mul_right h')
      rw [if_neg this, if_neg hlr]
      rfl

theorem bsearchB_refines (hs : 0 < size) (a : List (List Byte)) (h : Uniform size a) :
    bsearchB cmp key size a.flatten a.length = (bsearch cmp key a).map fun r => r.map (· * size) := by
  unfold bsearchB bsearch
  by_cases h0 : a.length = 0
  · rw [if_pos h0, if_pos h0]; rfl
  · rw [if_neg h0, if_neg h0]
    have e0 : (0 : Nat) = 0 * size := (Nat.zero_mul _).symm
    rw [Nat.mul_comm size a.length]
    conv => lhs; rw [e0]
    rw [bsLoopB_refines cmp key hs a h]
    cases bsLoop cmp key a (a.length + 1) 0 a.length with
    | none => rfl
    | some p =>
      obtain ⟨left, right⟩ := p
      simp only [Option.map_some]
      rw [elemAt_flatten hs a h]
      cases a[left]? with
      | none => rfl
      | some x =>
        simp only
        by_cases hc : cmp key x = 0
        · rw [if_pos hc, if_pos hc]; rfl
        · rw [if_neg hc, if_neg hc]; rfl

theorem bndLoopB_refines (hs : 0 < size) (p : List Byte → Bool) (a : List (List Byte)) (h : Uniform size a) : ∀ (f l r : Nat),
    bndLoopB size a.flatten p f (l * size) (r * size) = (bndLoop p a f l r).map (· * size) := by
  intro f
  induction f with
  | zero => intro l r; rfl
  | succ f ih =>
    intro l r
    unfold bndLoopB bndLoop
    by_cases hlr : l < r
    · rw [if_pos (Nat.mul_lt_mul_of_pos_right hlr hs), if_pos hlr]
      simp only
      rw [mid_off hs, elemAt_flatten hs a h]
      cases a[l + (r - l) / 2]? with
      | none => rfl
      | some x =>
        simp only
        cases p x with
        | true => simp only [if_true]; rw [ih]
        | false => simp only [Bool.false_eq_true, if_false]; rw [off_succ, ih]
    · have : ¬ l * size < r * size := fun h' => hlr (Nat.lt_of_mul_lt_mul_right h')
      rw [if_neg this, if_neg hlr]
      rfl

theorem boundsB_refine (hs : 0 < size) (a : List (List Byte)) (h : Uniform size a) :
    upperBoundB cmp key size a.flatten a.length = (upperBound cmp key a).map (· * size) ∧
    lowerBoundB cmp key size a.flatten a.length = (lowerBound cmp key a).map (· * size) := by
  have e0 : (0 : Nat) = 0 * size := (Nat.zero_mul _).symm
  constructor
  · unfold upperBoundB upperBound
    rw [Nat.mul_comm size a.length]
    conv => lhs; rw [e0]
    exact bndLoopB_refines hs _ a h _ _ _
  · unfold lowerBoundB lowerBound
    rw [Nat.mul_comm size a.length]
    conv => lhs; rw [e0]
    exact bndLoopB_refines hs _ a h _ _ _

end bsearchB

end Igris.C11
