/-
  C11 — the byte-level qsort (`ModelBytes.lean`) is the element-level one
  (`Model.lean`) on the chunks of `size` bytes, for every `size ≥ 1`.
-/
import IgrisModel.C11.ModelBytes
import IgrisModel.C11.Lemmas
namespace Igris.C11
open Igris.Proto (Byte)

/-- every element occupies exactly `size` bytes -/
def Uniform (size : Nat) (a : List (List Byte)) : Prop := ∀ x ∈ a, x.length = size

section chunks
variable {size : Nat}

theorem Uniform.tail {x : List Byte} {a : List (List Byte)} (h : Uniform size (x :: a)) : Uniform size a :=
  fun y hy => h y (List.mem_cons_of_mem _ hy)

theorem Uniform.head {x : List Byte} {a : List (List Byte)} (h : Uniform size (x :: a)) : x.length = size :=
  h x List.mem_cons_self

theorem Uniform.take {a : List (List Byte)} (h : Uniform size a) (k : Nat) : Uniform size (a.take k) :=
  fun y hy => h y (List.mem_of_mem_take hy)

theorem Uniform.drop {a : List (List Byte)} (h : Uniform size a) (k : Nat) : Uniform size (a.drop k) :=
  fun y hy => h y (List.mem_of_mem_drop hy)

theorem Uniform.append {a b : List (List Byte)} (ha : Uniform size a) (hb : Uniform size b) : Uniform size (a ++ b) := by
  intro y hy
  rcases List.mem_append.1 hy with h | h
  · exact ha y h
  · exact hb y h

theorem Uniform.getElem {a : List (List Byte)} (h : Uniform size a) (i : Nat) (hi : i < a.length) : a[i].length = size :=
  h _ (List.getElem_mem hi)

theorem Uniform.set {a : List (List Byte)} (h : Uniform size a) (i : Nat) (x : List Byte) (hx : x.length = size) :
    Uniform size (a.set i x) := by
  intro y hy
  rcases List.mem_or_eq_of_mem_set hy with h' | h'
  · exact h y h'
  · rw [h']; exact hx

theorem Uniform.perm {a b : List (List Byte)} (h : Uniform size a) (p : b.Perm a) : Uniform size b :=
  fun y hy => h y (p.mem_iff.1 hy)

theorem flatten_length : ∀ (a : List (List Byte)), Uniform size a → a.flatten.length = a.length * size := by
  intro a
  induction a with
  | nil => intro _; simp
  | cons x xs ih =>
    intro h
    simp only [List.flatten_cons, List.length_append, List.length_cons, ih h.tail, h.head, Nat.add_mul, Nat.one_mul]
    omega

theorem flatten_take : ∀ (a : List (List Byte)) (k : Nat), Uniform size a → a.flatten.take (k * size) = (a.take k).flatten := by
  intro a
  induction a with
  | nil => intro k _; simp
  | cons x xs ih =>
    intro k h
    cases k with
    | zero => simp
    | succ k' =>
      simp only [List.flatten_cons, List.take_succ_cons]
      have : (k' + 1) * size = x.length + k' * size := by rw [h.head, Nat.add_mul, Nat.one_mul]; omega
      rw [this, List.take_length_add_append, ih k' h.tail]

theorem flatten_drop : ∀ (a : List (List Byte)) (k : Nat), Uniform size a → a.flatten.drop (k * size) = (a.drop k).flatten := by
  intro a
  induction a with
  | nil => intro k _; simp
  | cons x xs ih =>
    intro k h
    cases k with
    | zero => simp
    | succ k' =>
      simp only [List.flatten_cons, List.drop_succ_cons]
      have : (k' + 1) * size = x.length + k' * size := by rw [h.head, Nat.add_mul, Nat.one_mul]; omega
      rw [this, List.drop_length_add_append, ih k' h.tail]

/-- P1: the bytes of element `i` — and a fault exactly when `i` is not an index of the array -/
theorem elemAt_flatten (hs : 0 < size) (a : List (List Byte)) (h : Uniform size a) (i : Nat) :
    elemAt size a.flatten (i * size) = a[i]? := by
  unfold elemAt
  rw [flatten_length a h]
  by_cases hi : i < a.length
  · have hle : i * size + size ≤ a.length * size := by
      have : (i + 1) * size ≤ a.length * size := Nat.mul_le_mul_right size hi
      rw [Nat.add_mul, Nat.one_mul] at this
      exact this
    rw [if_pos hle, flatten_drop a i h, List.drop_eq_getElem_cons hi, List.flatten_cons,
      List.take_left' (h.getElem i hi), List.getElem?_eq_getElem hi]
  · have hge : a.length ≤ i := by omega
    have : ¬ (i * size + size ≤ a.length * size) := by
      have : a.length * size ≤ i * size := Nat.mul_le_mul_right size hge
      omega
    rw [if_neg this, List.getElem?_eq_none hge]

/-- `memcpy` of one element into slot `i` -/
theorem blit_flatten (a : List (List Byte)) (h : Uniform size a) (i : Nat) (hi : i < a.length) (x : List Byte)
    (hx : x.length = size) : blit a.flatten (i * size) x = some (a.set i x).flatten := by
  unfold blit
  have hle : i * size + size ≤ a.length * size := by
    have : (i + 1) * size ≤ a.length * size := Nat.mul_le_mul_right size hi
    rw [Nat.add_mul, Nat.one_mul] at this
    exact this
  rw [hx, flatten_length a h, if_pos hle]
  have e : i * size + size = (i + 1) * size := by rw [Nat.add_mul, Nat.one_mul]
  rw [e, flatten_take a i h, flatten_drop a (i + 1) h, List.set_eq_take_append_cons_drop, if_pos hi]
  simp only [List.flatten_append, List.flatten_cons, List.append_assoc]

/-- P2: the three `memcpy`s of `swap` exchange elements `i` and `j` (also for `i = j`) -/
theorem swapB_flatten (hs : 0 < size) (a : List (List Byte)) (h : Uniform size a) (i j : Nat) :
    swapB size a.flatten (i * size) (j * size) = (swapAt a i j).map List.flatten := by
  unfold swapB swapAt
  rw [elemAt_flatten hs a h j, elemAt_flatten hs a h i]
  by_cases hij : i < a.length ∧ j < a.length
  · obtain ⟨hi, hj⟩ := hij
    rw [List.getElem?_eq_getElem hj, List.getElem?_eq_getElem hi]
    simp only
    rw [blit_flatten a h j hj a[i] (h.getElem i hi)]
    simp only
    rw [blit_flatten (a.set j a[i]) (h.set j _ (h.getElem i hi)) i (by simpa using hi) a[j] (h.getElem j hj)]
    rw [dif_pos ⟨hi, hj⟩]
    simp only [Option.map_some]
    by_cases e : i = j
    · subst e; simp
    · rw [List.set_comm _ _ (fun h' => e h'.symm)]
  · rw [dif_neg hij]
    by_cases hj : j < a.length
    · have hi : ¬ i < a.length := fun hi => hij ⟨hi, hj⟩
      rw [List.getElem?_eq_getElem hj, List.getElem?_eq_none (by omega)]
      rfl
    · rw [List.getElem?_eq_none (by omega)]
      rfl

/-- every byte array of `n * size` bytes is an array of `n` elements -/
theorem exists_chunks (hs : 0 < size) : ∀ (n : Nat) (mem : List Byte), mem.length = n * size →
    ∃ a : List (List Byte), Uniform size a ∧ a.length = n ∧ a.flatten = mem := by
  intro n
  induction n with
  | zero =>
    intro mem h
    refine ⟨[], fun _ h => (by cases h), rfl, ?_⟩
    have : mem.length = 0 := by simpa using h
    simp [List.eq_nil_of_length_eq_zero this]
  | succ n ih =>
    intro mem h
    obtain ⟨a, ha, hn, hf⟩ := ih (mem.drop size) (by rw [List.length_drop, h, Nat.add_mul, Nat.one_mul]; omega)
    refine ⟨mem.take size :: a, ?_, by simp [hn], ?_⟩
    · intro y hy
      rcases List.mem_cons.1 hy with h' | h'
      · rw [h', List.length_take, h, Nat.add_mul, Nat.one_mul]; omega
      · exact ha y h'
    · rw [List.flatten_cons, hf, List.take_append_drop]

end chunks

end Igris.C11
