/-
  C11 — lemmas of the extension: upper_bound / lower_bound, errno of the
  strto* family, strtoq/strtouq, atoll.
-/
import IgrisModel.C11.Lemmas
namespace Igris.C11
open Igris.Proto (Byte)

/-! ## upper_bound / lower_bound -/

section bounds
variable {α : Type}

/-- the bisection on a monotone predicate (`false … false true … true`) finds
the boundary, reads only indices `< nmemb`, and the fuel `right - left + 1`
suffices -/
theorem bndLoop_spec (p : α → Bool) (a : List α)
    (hmono : ∀ i j (_ : i ≤ j) (hj : j < a.length), p (a[i]'(by omega)) = true → p a[j] = true) :
    ∀ (fuel left right : Nat), right - left < fuel → left ≤ right → right ≤ a.length →
      (∀ i (h : i < a.length), i < left → p a[i] = false) →
      (∀ i (h : i < a.length), right ≤ i → p a[i] = true) →
      ∃ r, bndLoop p a fuel left right = some r ∧ left ≤ r ∧ r ≤ right ∧
        (∀ i (h : i < a.length), i < r → p a[i] = false) ∧ (∀ i (h : i < a.length), r ≤ i → p a[i] = true) := by
  intro fuel
  induction fuel with
  | zero => intro left right h; omega
  | succ f ih =>
    intro left right hf hlr hrn hL hR
    unfold bndLoop
    by_cases hlt : left < right
    · simp only [hlt, if_true]
      have hmid : left + (right - left) / 2 < right := by omega
      have hmidn : left + (right - left) / 2 < a.length := by omega
      rw [List.getElem?_eq_getElem hmidn]
      simp only
      cases hpm : p a[left + (right - left) / 2] with
      | true =>
        simp only [if_true]
        obtain ⟨r, hr, h1, h2, h3, h4⟩ := ih left (left + (right - left) / 2) (by omega) (by omega) (by omega) hL
          (by intro i hi hge; exact hmono _ i hge hi hpm)
        exact ⟨r, hr, h1, by omega, h3, h4⟩
      | false =>
        simp only [Bool.false_eq_true, if_false]
        obtain ⟨r, hr, h1, h2, h3, h4⟩ := ih (left + (right - left) / 2 + 1) right (by omega) (by omega) hrn
          (by
            intro i hi hlt'
            cases hpi : p a[i] with
            | false => rfl
            | true =>
              have := hmono i (left + (right - left) / 2) (by omega) hmidn hpi
              rw [hpm] at this; cases this)
          hR
        exact ⟨r, hr, by omega, h2, h3, h4⟩
    · simp only [hlt, if_false]
      refine ⟨left, rfl, Nat.le_refl _, hlr, hL, ?_⟩
      intro i hi hge
      exact hR i hi (by omega)

/-- a boundary position is the first index satisfying the predicate -/
theorem firstIdx_eq (p : α → Bool) : ∀ (a : List α) (r : Nat), r ≤ a.length →
    (∀ i (h : i < a.length), i < r → p a[i] = false) → (∀ i (h : i < a.length), r ≤ i → p a[i] = true) →
    Spec.firstIdx p a = r := by
  intro a
  induction a with
  | nil => intro r hr _ _; simp [Spec.firstIdx] at *; omega
  | cons x xs ih =>
    intro r hr h1 h2
    unfold Spec.firstIdx
    cases r with
    | zero =>
      have := h2 0 (by simp) (Nat.le_refl _)
      simp only [List.getElem_cons_zero] at this
      simp [this]
    | succ r' =>
      have hx := h1 0 (by simp) (by omega)
      simp only [List.getElem_cons_zero] at hx
      simp only [List.takeWhile_cons, hx, Bool.not_false, if_true, List.length_cons]
      have := ih r' (by simpa using hr)
        (by intro i hi hlt; have := h1 (i + 1) (by simpa using hi) (by omega); simpa using this)
        (by intro i hi hge; have := h2 (i + 1) (by simpa using hi) (by omega); simpa using this)
      unfold Spec.firstIdx at this
      omega

end bounds

section bounds2
variable {κ α : Type}

theorem upperBound_spec (cmp : κ → α → Int) (key : κ) (a : List α) (hp : PartitionedBy cmp key a) :
    ∃ r, upperBound cmp key a = some r ∧ r ≤ a.length ∧
      (∀ i (h : i < a.length), i < r → 0 ≤ cmp key a[i]) ∧ (∀ i (h : i < a.length), r ≤ i → cmp key a[i] < 0) := by
  obtain ⟨r, hr, _, h2, h3, h4⟩ := bndLoop_spec (fun x => decide (cmp key x < 0)) a
    (by intro i j hij hj h; simp only [decide_eq_true_eq] at h ⊢; exact (hp i j hij hj).1 h)
    (a.length + 1) 0 a.length (by omega) (by omega) (Nat.le_refl _) (by intro i _ h; omega)
    (by intro i hi h; omega)
  refine ⟨r, hr, h2, ?_, ?_⟩
  · intro i hi hlt; have := h3 i hi hlt; simp only [decide_eq_false_iff_not] at this; omega
  · intro i hi hge; have := h4 i hi hge; simpa using this

theorem lowerBound_spec (cmp : κ → α → Int) (key : κ) (a : List α) (hp : PartitionedBy cmp key a) :
    ∃ r, lowerBound cmp key a = some r ∧ r ≤ a.length ∧
      (∀ i (h : i < a.length), i < r → 0 < cmp key a[i]) ∧ (∀ i (h : i < a.length), r ≤ i → cmp key a[i] ≤ 0) := by
  obtain ⟨r, hr, _, h2, h3, h4⟩ := bndLoop_spec (fun x => decide (cmp key x ≤ 0)) a
    (by intro i j hij hj h; simp only [decide_eq_true_eq] at h ⊢; exact (hp i j hij hj).2 h)
    (a.length + 1) 0 a.length (by omega) (by omega) (Nat.le_refl _) (by intro i _ h; omega)
    (by intro i hi h; omega)
  refine ⟨r, hr, h2, ?_, ?_⟩
  · intro i hi hlt; have := h3 i hi hlt; simp only [decide_eq_false_iff_not] at this; omega
  · intro i hi hge; have := h4 i hi hge; simpa using this

end bounds2

/-! ## errno -/

section errno

/-- once overflow is flagged (`any < 0`) it stays flagged -/
theorem loopU_neg (W base cutoff : Nat) (cutlim : Int) (lp : Bool) (ovf : Option Nat) :
    ∀ (rest : List Byte) (c : Int) (off : Nat) (st : Nat × Int) (r : Nat × Int × Nat), st.2 < 0 →
    loopU W base cutoff cutlim lp ovf rest c off st = some r → r.2.1 < 0 := by
  intro rest
  induction rest with
  | nil =>
    intro c off st r hneg h
    unfold loopU at h
    split at h
    · cases h; exact hneg
    · split at h
      · cases h; exact hneg
      · cases h
  | cons b rest ih =>
    intro c off st r hneg h
    unfold loopU at h
    split at h
    · cases h; exact hneg
    · split at h
      · cases h; exact hneg
      · simp only at h
        refine ih _ _ _ _ ?_ h
        unfold stepU
        simp only [hneg, if_true]

/-- the loop with `errno` threaded through computes what `loopU` computes, and
`errno` is written (with ERANGE) exactly when the loop flags overflow -/
theorem loopUe_eq (W base cutoff : Nat) (cutlim : Int) (lp : Bool) (ovf : Option Nat) :
    ∀ (rest : List Byte) (c : Int) (off : Nat) (st : Nat × Int) (e : Nat),
    loopUe W base cutoff cutlim lp ovf rest c off st e =
      (loopU W base cutoff cutlim lp ovf rest c off st).map
        fun r => (r.1, r.2.1, r.2.2, if 0 ≤ st.2 ∧ r.2.1 < 0 then ERANGE else e) := by
  intro rest
  induction rest with
  | nil =>
    intro c off st e
    unfold loopUe loopU
    split
    · simp only [Option.map_some]; congr 4; rw [if_neg]; omega
    · split
      · simp only [Option.map_some]; congr 4; rw [if_neg]; omega
      · rfl
  | cons b rest ih =>
    intro c off st e
    unfold loopUe loopU
    split
    · simp only [Option.map_some]; congr 4; rw [if_neg]; omega
    · rename_i d hd
      split
      · simp only [Option.map_some]; congr 4; rw [if_neg]; omega
      · simp only
        rw [ih]
        cases hl : loopU W base cutoff cutlim lp ovf rest (rd lp b) (off + 1) (stepU W base cutoff cutlim ovf st d) with
        | none => rfl
        | some r =>
          simp only [Option.map_some]
          congr 4
          by_cases hneg : st.2 < 0
          · have h1 : stepU W base cutoff cutlim ovf st d = st := by unfold stepU; simp only [hneg, if_true]
            have h2 : errU cutoff cutlim st d e = e := by unfold errU; simp only [hneg, if_true]
            rw [h1, h2]
          · by_cases hov : st.1 > cutoff ∨ (st.1 = cutoff ∧ d > cutlim)
            · have h1 : (stepU W base cutoff cutlim ovf st d).2 = -1 := by
                unfold stepU; simp only [hneg, if_false, hov, if_true]
              have h2 : errU cutoff cutlim st d e = ERANGE := by
                unfold errU; simp only [hneg, if_false, hov, if_true]
              have h3 := loopU_neg W base cutoff cutlim lp ovf rest _ _ _ r (by rw [h1]; omega) hl
              rw [h1, h2]
              rw [if_neg (by omega), if_pos ⟨by omega, h3⟩]
            · have h1 : (stepU W base cutoff cutlim ovf st d).2 = 1 := by
                unfold stepU; simp only [hneg, if_false, hov]
              have h2 : errU cutoff cutlim st d e = e := by
                unfold errU; simp only [hneg, if_false, hov]
              rw [h1, h2]
              by_cases hr : r.2.1 < 0
              · rw [if_pos ⟨by omega, hr⟩, if_pos ⟨by omega, hr⟩]
              · rw [if_neg (fun h => hr h.2), if_neg (fun h => hr h.2)]

theorem loopS_neg (MIN MAX base : Int) (neg : Bool) (cutoff cutlim : Int) (lp : Bool) :
    ∀ (rest : List Byte) (c : Int) (off : Nat) (st : Int × Int) (r : Int × Int × Nat), st.2 < 0 →
    loopS MIN MAX base neg cutoff cutlim lp rest c off st = some r → r.2.1 < 0 := by
  intro rest
  induction rest with
  | nil =>
    intro c off st r hneg h
    unfold loopS at h
    split at h
    · cases h; exact hneg
    · split at h
      · cases h; exact hneg
      · split at h
        · cases h
        · cases h
  | cons b rest ih =>
    intro c off st r hneg h
    unfold loopS at h
    split at h
    · cases h; exact hneg
    · split at h
      · cases h; exact hneg
      · split at h
        · cases h
        · rename_i st' hst'
          simp only at h
          refine ih _ _ _ _ ?_ h
          unfold stepS at hst'
          simp only [hneg, if_true, Option.some.injEq] at hst'
          rw [← hst']; exact hneg

/-- the sign of `any` after one pass of strtoll's loop body, and the store to errno -/
theorem stepS_err (MIN MAX base : Int) (neg : Bool) (cutoff cutlim : Int) (st st' : Int × Int) (d : Int) (e : Nat)
    (h : stepS MIN MAX base neg cutoff cutlim st d = some st') :
    (st.2 < 0 → st' = st ∧ errS neg cutoff cutlim st d e = e) ∧
    (¬ st.2 < 0 → (st'.2 = -1 ∧ errS neg cutoff cutlim st d e = ERANGE) ∨ (st'.2 = 1 ∧ errS neg cutoff cutlim st d e = e)) := by
  unfold stepS at h
  unfold errS
  constructor
  · intro hneg
    simp only [hneg, if_true, Option.some.injEq] at h
    exact ⟨h.symm, by simp only [hneg, if_true]⟩
  · intro hneg
    simp only [hneg, if_false] at h ⊢
    cases neg with
    | true =>
      simp only [if_true] at h ⊢
      by_cases hov : st.1 < cutoff ∨ (st.1 = cutoff ∧ d > cutlim)
      · simp only [hov, if_true, Option.some.injEq] at h ⊢
        left; rw [← h]; exact ⟨rfl, trivial⟩
      · simp only [hov, if_false] at h ⊢
        split at h
        · cases h
        · simp only [Option.some.injEq] at h
          right; rw [← h]; exact ⟨rfl, trivial⟩
    | false =>
      simp only [Bool.false_eq_true, if_false] at h ⊢
      by_cases hov : st.1 > cutoff ∨ (st.1 = cutoff ∧ d > cutlim)
      · simp only [hov, if_true, Option.some.injEq] at h ⊢
        left; rw [← h]; exact ⟨rfl, trivial⟩
      · simp only [hov, if_false] at h ⊢
        split at h
        · cases h
        · simp only [Option.some.injEq] at h
          right; rw [← h]; exact ⟨rfl, trivial⟩

theorem loopSe_eq (MIN MAX base : Int) (neg : Bool) (cutoff cutlim : Int) (lp : Bool) :
    ∀ (rest : List Byte) (c : Int) (off : Nat) (st : Int × Int) (e : Nat),
    loopSe MIN MAX base neg cutoff cutlim lp rest c off st e =
      (loopS MIN MAX base neg cutoff cutlim lp rest c off st).map
        fun r => (r.1, r.2.1, r.2.2, if 0 ≤ st.2 ∧ r.2.1 < 0 then ERANGE else e) := by
  intro rest
  induction rest with
  | nil =>
    intro c off st e
    unfold loopSe loopS
    split
    · simp only [Option.map_some]; congr 4; rw [if_neg]; omega
    · split
      · simp only [Option.map_some]; congr 4; rw [if_neg]; omega
      · split <;> rfl
  | cons b rest ih =>
    intro c off st e
    unfold loopSe loopS
    split
    · simp only [Option.map_some]; congr 4; rw [if_neg]; omega
    · rename_i d hd
      split
      · simp only [Option.map_some]; congr 4; rw [if_neg]; omega
      · split
        · rfl
        · rename_i st' hst'
          simp only
          rw [ih]
          cases hl : loopS MIN MAX base neg cutoff cutlim lp rest (rd lp b) (off + 1) st' with
          | none => rfl
          | some r =>
            simp only [Option.map_some]
            congr 4
            obtain ⟨k1, k2⟩ := stepS_err MIN MAX base neg cutoff cutlim st st' d e hst'
            by_cases hneg : st.2 < 0
            · obtain ⟨h1, h2⟩ := k1 hneg
              rw [h1, h2]
            · rcases k2 hneg with ⟨h1, h2⟩ | ⟨h1, h2⟩
              · have h3 := loopS_neg MIN MAX base neg cutoff cutlim lp rest _ _ _ r (by rw [h1]; omega) hl
                rw [h1, h2]
                rw [if_neg (by omega), if_pos ⟨by omega, h3⟩]
              · rw [h1, h2]
                by_cases hr : r.2.1 < 0
                · rw [if_pos ⟨by omega, hr⟩, if_pos ⟨by omega, hr⟩]
                · rw [if_neg (fun h => hr h.2), if_neg (fun h => hr h.2)]

/-! ### `any` after the digit loop, in terms of the specification -/

/-- what the flag `any` says after the loop: 0 = no digit, 1 = the magnitude is
within the limit, -1 = it is not -/
def AnyOK (any : Int) (p : Option Spec.Subject) (lim : Bool → Nat) : Prop :=
  (p = none → any = 0) ∧ ∀ s, p = some s → (s.mag ≤ lim s.neg → any = 1) ∧ (lim s.neg < s.mag → any = -1)

theorem parse_unfold (t : List Byte) (base : Nat) (sg : Bool × Nat × List Byte) (hex : Bool) (b : Nat) (t3 : List Byte)
    (hsg : Spec.sign (t.dropWhile Spec.isSpace) = sg)
    (hhex : (decide (base = 0 ∨ base = 16) && Spec.hexPrefix sg.2.2) = hex)
    (hb : Spec.effBase base hex sg.2.2 = b) (ht3 : (if hex = true then sg.2.2.drop 2 else sg.2.2) = t3) :
    Spec.parse t base =
      if Spec.digits b t3 = [] then none
      else some ⟨sg.1, Spec.ofDigits b (Spec.digits b t3),
        (t.takeWhile Spec.isSpace).length + sg.2.1 + (if hex = true then 2 else 0) + (Spec.digits b t3).length⟩ := by
  subst hsg; subst hhex; subst hb; subst ht3
  unfold Spec.parse
  simp only

/-- front end + unsigned digit loop (strtol, strtoimax, strtoul, strtoumax,
strtoull): the loop terminates inside the string and `any` is as specified -/
theorem loopU_any (R : Reads) (t : List Byte) (base : Nat) (hbase : base = 0 ∨ (2 ≤ base ∧ base ≤ 36))
    (W : Nat) (lim : Bool → Nat) (hlim : ∀ n, lim n < W) (ovf : Option Nat) :
    ∃ f acc any off, front R (t ++ [0]) base = some f ∧
      loopU W f.base (lim f.neg / f.base) ((lim f.neg % f.base : Nat) : Int) R.lp ovf f.rest f.c f.off (0, 0) = some (acc, any, off) ∧
      AnyOK any (Spec.parse t base) lim := by
  obtain ⟨cb, rest, u, hcb, hfront⟩ := front_spec R t base
  generalize hsg : Spec.sign (t.dropWhile Spec.isSpace) = sg at hcb hfront
  generalize hhex : (decide (base = 0 ∨ base = 16) && Spec.hexPrefix sg.2.2) = hex at hcb hfront
  obtain ⟨hb2, hb36⟩ := effBase_range base hbase hex sg.2.2
  generalize hb : Spec.effBase base hex sg.2.2 = b at hfront hb2 hb36
  generalize ht3 : (if hex = true then sg.2.2.drop 2 else sg.2.2) = t3 at hcb
  obtain ⟨st, hloop, hgood⟩ := loopU_good W b (lim sg.1) ovf R.lp hb2 hb36 (hlim _) t3 cb rest hcb u
    ((t.takeWhile Spec.isSpace).length + sg.2.1 + (if hex = true then 2 else 0) + 1)
  refine ⟨_, st.1, st.2, _, hfront, hloop, ?_⟩
  rw [parse_unfold t base sg hex b t3 hsg hhex hb ht3]
  obtain ⟨g1, g2, g3⟩ := hgood
  by_cases hds : Spec.digits b t3 = []
  · obtain ⟨_, hst⟩ := g1 (by simp [hds])
    simp only [hds, if_true]
    refine ⟨fun _ => (by rw [hst]), ?_⟩
    intro s hs; cases hs
  · have hne : (!(Spec.digits b t3).isEmpty) = true := by
      cases h : Spec.digits b t3 with
      | nil => exact absurd h hds
      | cons _ _ => rfl
    simp only [hds, if_false]
    refine ⟨fun h => (by cases h), ?_⟩
    intro s hs
    simp only [Option.some.injEq] at hs
    subst hs
    simp only
    constructor
    · intro hfit; rw [g2 hne hfit]
    · intro hov; exact (g3 hne hov).1

/-- the same for strtoll's signed loop, with the cutoff/cutlim computation of
strtoll.c (truncating `/` and `%`, the adjustment for negative numbers) -/
theorem loopS_any (w : Nat) (hw : 0 < w) (R : Reads) (t : List Byte) (base : Nat) (hbase : base = 0 ∨ (2 ≤ base ∧ base ≤ 36)) :
    ∃ f acc any off, front R (t ++ [0]) base = some f ∧
      (let MAX : Int := 2 ^ (w - 1) - 1
       let MIN : Int := -(2 ^ (w - 1))
       let b : Int := f.base
       let cutoff0 : Int := if f.neg then MIN else MAX
       let cutlim0 := cutoff0.tmod b
       let cutoff1 := cutoff0.tdiv b
       let cc : Int × Int :=
         if f.neg then
           let (co, cl) := if cutlim0 > 0 then (cutoff1 + 1, cutlim0 - b) else (cutoff1, cutlim0)
           (co, -cl)
         else (cutoff1, cutlim0)
       loopS MIN MAX b f.neg cc.1 cc.2 R.lp f.rest f.c f.off (0, 0) = some (acc, any, off)) ∧
      AnyOK any (Spec.parse t base) (fun n => if n = true then 2 ^ (w - 1) else 2 ^ (w - 1) - 1) := by
  obtain ⟨cb, rest, u, hcb, hfront⟩ := front_spec R t base
  obtain ⟨hW2, hH0⟩ := pow_split w hw
  generalize hsg : Spec.sign (t.dropWhile Spec.isSpace) = sg at hcb hfront
  generalize hhex : (decide (base = 0 ∨ base = 16) && Spec.hexPrefix sg.2.2) = hex at hcb hfront
  obtain ⟨hb2, hb36⟩ := effBase_range base hbase hex sg.2.2
  generalize hb : Spec.effBase base hex sg.2.2 = b at hfront hb2 hb36
  generalize ht3 : (if hex = true then sg.2.2.drop 2 else sg.2.2) = t3 at hcb
  have hHi : (2 : Int) ^ (w - 1) = ((2 ^ (w - 1) : Nat) : Int) := by norm_cast
  rw [parse_unfold t base sg hex b t3 hsg hhex hb ht3]
  generalize hH : 2 ^ (w - 1) = H at *
  obtain ⟨stop, tail, hsplit, hstop⟩ := run_split b hb36 t3
  have g0 : GoodS H sg.1 0 false ((0 : Int), (0 : Int)) :=
    ⟨fun _ => ⟨rfl, rfl⟩, (by intro h; cases h), (by intro h; cases h)⟩
  obtain ⟨st, hloop, hgood⟩ := loopS_good H b sg.1 R.lp hH0 hb2 hb36
    (t3.takeWhile (fun x => decide (Spec.digit x < b))) stop tail
    (by intro x hx; have := mem_takeWhile_sat hx; simpa using this) hstop cb rest (by rw [hcb, hsplit]) u
    ((t.takeWhile Spec.isSpace).length + sg.2.1 + (if hex = true then 2 else 0) + 1) (0, 0) 0 false g0
  refine ⟨_, st.1, st.2, (t.takeWhile Spec.isSpace).length + sg.2.1 + (if hex = true then 2 else 0) + 1 + (Spec.digits b t3).length, hfront, ?_, ?_⟩
  · simp only [hHi]
    have hcut : (if sg.1 = true then
          ((if ((if sg.1 = true then -(H : Int) else (H : Int) - 1).tmod (b : Int)) > 0 then
              ((if sg.1 = true then -(H : Int) else (H : Int) - 1).tdiv (b : Int) + 1,
               (if sg.1 = true then -(H : Int) else (H : Int) - 1).tmod (b : Int) - (b : Int))
            else ((if sg.1 = true then -(H : Int) else (H : Int) - 1).tdiv (b : Int),
                  (if sg.1 = true then -(H : Int) else (H : Int) - 1).tmod (b : Int))).1,
           -(if ((if sg.1 = true then -(H : Int) else (H : Int) - 1).tmod (b : Int)) > 0 then
              ((if sg.1 = true then -(H : Int) else (H : Int) - 1).tdiv (b : Int) + 1,
               (if sg.1 = true then -(H : Int) else (H : Int) - 1).tmod (b : Int) - (b : Int))
            else ((if sg.1 = true then -(H : Int) else (H : Int) - 1).tdiv (b : Int),
                  (if sg.1 = true then -(H : Int) else (H : Int) - 1).tmod (b : Int))).2)
        else ((if sg.1 = true then -(H : Int) else (H : Int) - 1).tdiv (b : Int),
              (if sg.1 = true then -(H : Int) else (H : Int) - 1).tmod (b : Int))) =
        ((if sg.1 = true then -(((if sg.1 = true then H else H - 1) / b : Nat) : Int) else (((if sg.1 = true then H else H - 1) / b : Nat) : Int)),
         (((if sg.1 = true then H else H - 1) % b : Nat) : Int)) := by
      cases sg.1
      · simp only [Bool.false_eq_true, if_false]
        have : (H : Int) - 1 = ((H - 1 : Nat) : Int) := by omega
        rw [this, ← Int.ofNat_tdiv, ← Int.ofNat_tmod]
      · simp only [if_true, Int.neg_tmod, Int.neg_tdiv, ← Int.ofNat_tdiv, ← Int.ofNat_tmod]
        have : ¬ (-((H % b : Nat) : Int) > 0) := by omega
        simp only [this, if_false, Int.neg_neg]
    rw [hcut]
    simp only
    rw [hloop]
    congr 3
    rw [digits_eq, List.length_map]
  · rw [← digits_eq] at hgood
    have hemp : (t3.takeWhile (fun x => decide (Spec.digit x < b))).isEmpty = (Spec.digits b t3).isEmpty := by
      rw [digits_eq, List.isEmpty_map]
    rw [hemp] at hgood
    have hof : List.foldl (fun a d => a * b + d) 0 (Spec.digits b t3) = Spec.ofDigits b (Spec.digits b t3) := rfl
    rw [hof] at hgood
    obtain ⟨g1, g2, g3⟩ := hgood
    by_cases hds : Spec.digits b t3 = []
    · obtain ⟨_, hst⟩ := g1 (by simp [hds])
      simp only [hds, if_true]
      refine ⟨fun _ => (by rw [hst]), ?_⟩
      intro s hs; cases hs
    · have hne : (false || !(Spec.digits b t3).isEmpty) = true := by
        cases h : Spec.digits b t3 with
        | nil => exact absurd h hds
        | cons _ _ => rfl
      simp only [hds, if_false]
      refine ⟨fun h => (by cases h), ?_⟩
      intro s hs
      simp only [Option.some.injEq] at hs
      subst hs
      simp only
      constructor
      · intro hfit; rw [g2 hne hfit]
      · intro hov; rw [g3 hne hov]

/-! ### value, end pointer and errno -/

/-- ISO's errno for a signed conversion, from the flag -/
theorem signedErr_of_any (w : Nat) (hw : 0 < w) (any : Int) (p : Option Spec.Subject)
    (h : AnyOK any p (fun n => if n = true then 2 ^ (w - 1) else 2 ^ (w - 1) - 1)) :
    (if any < 0 then ERANGE else 0) = Spec.signedErr w p := by
  obtain ⟨_, hH0⟩ := pow_split w hw
  have hHi : (2 : Int) ^ (w - 1) = ((2 ^ (w - 1) : Nat) : Int) := by norm_cast
  cases p with
  | none => rw [h.1 rfl]; simp [Spec.signedErr]
  | some s =>
    obtain ⟨h1, h2⟩ := h.2 s rfl
    simp only [Spec.signedErr, hHi, ERANGE]
    generalize 2 ^ (w - 1) = H at *
    simp only at h1 h2
    cases hneg : s.neg <;> simp only [hneg, Bool.false_eq_true, if_false, if_true] at h1 h2 ⊢
    · by_cases hfit : s.mag ≤ H - 1
      · rw [h1 hfit]; rw [if_neg (by omega), if_neg (by omega)]
      · rw [h2 (by omega)]; rw [if_pos (by omega), if_pos (by omega)]
    · by_cases hfit : s.mag ≤ H
      · rw [h1 hfit]; rw [if_neg (by omega), if_neg (by omega)]
      · rw [h2 (by omega)]; rw [if_pos (by omega), if_pos (by omega)]

theorem unsignedErr_of_any (w : Nat) (any : Int) (p : Option Spec.Subject)
    (h : AnyOK any p (fun _ => 2 ^ w - 1)) :
    (if any < 0 then ERANGE else 0) = Spec.unsignedErr w p ∧
    (if any < 0 then ERANGE else if any = 0 then EINVAL else 0) = Spec.unsignedErrEinval w p := by
  cases p with
  | none => rw [h.1 rfl]; simp [Spec.unsignedErr, Spec.unsignedErrEinval, EINVAL]
  | some s =>
    obtain ⟨h1, h2⟩ := h.2 s rfl
    simp only [Spec.unsignedErr, Spec.unsignedErrEinval, ERANGE]
    simp only at h1 h2
    by_cases hfit : s.mag ≤ 2 ^ w - 1
    · rw [h1 hfit]; simp; omega
    · rw [h2 (by omega)]; simp; omega

theorem strtoSUe_spec (w : Nat) (hw : 0 < w) (R : Reads) (t : List Byte) (base : Nat)
    (hbase : base = 0 ∨ (2 ≤ base ∧ base ≤ 36)) :
    strtoSUe w R (t ++ [0]) base =
      some ((Spec.signedResult w (Spec.parse t base)).1, (Spec.signedResult w (Spec.parse t base)).2,
        Spec.signedErr w (Spec.parse t base)) := by
  obtain ⟨_, hH0⟩ := pow_split w hw
  obtain ⟨f, acc, any, off, hf, hl, hany⟩ := loopU_any R t base hbase (2 ^ w)
    (fun n => if n = true then 2 ^ (w - 1) else 2 ^ (w - 1) - 1)
    (by intro n; have := pow_split w hw; split <;> omega) none
  have hv := strtoSU_spec w hw R t base hbase
  unfold strtoSU at hv
  unfold strtoSUe
  rw [hf] at hv ⊢
  simp only at hv hl ⊢
  rw [hl] at hv ⊢
  simp only [Option.some.injEq] at hv ⊢
  rw [← hv]
  refine Prod.ext rfl (Prod.ext rfl ?_)
  exact signedErr_of_any w hw any _ hany

theorem strtoUUe_spec (w : Nat) (R : Reads) (t : List Byte) (base : Nat)
    (hbase : base = 0 ∨ (2 ≤ base ∧ base ≤ 36)) :
    strtoUUe w R (t ++ [0]) base =
      some ((Spec.unsignedResult w (Spec.parse t base)).1, (Spec.unsignedResult w (Spec.parse t base)).2,
        Spec.unsignedErrEinval w (Spec.parse t base)) := by
  have hW0 : 0 < 2 ^ w := Nat.two_pow_pos _
  obtain ⟨f, acc, any, off, hf, hl, hany⟩ := loopU_any R t base hbase (2 ^ w)
    (fun _ => 2 ^ w - 1) (by intro n; omega) none
  have hv := strtoUU_spec w R t base hbase
  unfold strtoUU at hv
  unfold strtoUUe
  rw [hf] at hv ⊢
  simp only at hv hl ⊢
  rw [hl] at hv ⊢
  simp only [Option.some.injEq] at hv ⊢
  rw [← hv]
  refine Prod.ext rfl (Prod.ext rfl ?_)
  exact (unsignedErr_of_any w any _ hany).2

theorem strtoULLe_spec (w : Nat) (R : Reads) (t : List Byte) (base : Nat)
    (hbase : base = 0 ∨ (2 ≤ base ∧ base ≤ 36)) :
    strtoULLe w R (t ++ [0]) base =
      some ((Spec.unsignedResult w (Spec.parse t base)).1, (Spec.unsignedResult w (Spec.parse t base)).2,
        Spec.unsignedErr w (Spec.parse t base)) := by
  have hW0 : 0 < 2 ^ w := Nat.two_pow_pos _
  obtain ⟨f, acc, any, off, hf, hl, hany⟩ := loopU_any R t base hbase (2 ^ w)
    (fun _ => 2 ^ w - 1) (by intro n; omega) (some (2 ^ w - 1))
  have hv := strtoULL_spec w R t base hbase
  unfold strtoULL at hv
  unfold strtoULLe
  rw [hf] at hv ⊢
  simp only at hv hl ⊢
  rw [loopUe_eq, hl] at ⊢
  rw [hl] at hv
  simp only [Option.some.injEq, Option.map_some] at hv ⊢
  rw [← hv]
  refine Prod.ext rfl (Prod.ext rfl ?_)
  have := (unsignedErr_of_any w any _ hany).1
  simpa using this

theorem strtoLLe_spec (w : Nat) (hw : 0 < w) (R : Reads) (t : List Byte) (base : Nat)
    (hbase : base = 0 ∨ (2 ≤ base ∧ base ≤ 36)) :
    strtoLLe w R (t ++ [0]) base =
      some ((Spec.signedResult w (Spec.parse t base)).1, (Spec.signedResult w (Spec.parse t base)).2,
        Spec.signedErr w (Spec.parse t base)) := by
  obtain ⟨f, acc, any, off, hf, hl, hany⟩ := loopS_any w hw R t base hbase
  have hv := strtoLL_spec w hw R t base hbase
  unfold strtoLL at hv
  unfold strtoLLe
  rw [hf] at hv ⊢
  simp only at hv hl ⊢
  rw [loopSe_eq, hl] at ⊢
  rw [hl] at hv
  simp only [Option.some.injEq, Option.map_some] at hv ⊢
  rw [← hv]
  refine Prod.ext rfl (Prod.ext rfl ?_)
  have := signedErr_of_any w hw any _ hany
  simpa using this

/-! ### the errno-carrying functions are the original ones plus one component -/

theorem strtoSUe_proj (w : Nat) (R : Reads) (mem : List Byte) (base : Nat) :
    (strtoSUe w R mem base).map (fun r => (r.1, r.2.1)) = strtoSU w R mem base := by
  unfold strtoSUe strtoSU
  cases front R mem base with
  | none => rfl
  | some f =>
    simp only
    cases loopU (2 ^ w) f.base ((if f.neg = true then 2 ^ (w - 1) else 2 ^ (w - 1) - 1) / f.base)
      (((if f.neg = true then 2 ^ (w - 1) else 2 ^ (w - 1) - 1) % f.base : Nat) : Int) R.lp none f.rest f.c f.off (0, 0) with
    | none => rfl
    | some r => rfl

theorem strtoUUe_proj (w : Nat) (R : Reads) (mem : List Byte) (base : Nat) :
    (strtoUUe w R mem base).map (fun r => (r.1, r.2.1)) = strtoUU w R mem base := by
  unfold strtoUUe strtoUU
  cases front R mem base with
  | none => rfl
  | some f =>
    simp only
    cases loopU (2 ^ w) f.base ((2 ^ w - 1) / f.base) (((2 ^ w - 1) % f.base : Nat) : Int) R.lp none f.rest f.c f.off (0, 0) with
    | none => rfl
    | some r => rfl

theorem strtoULLe_proj (w : Nat) (R : Reads) (mem : List Byte) (base : Nat) :
    (strtoULLe w R mem base).map (fun r => (r.1, r.2.1)) = strtoULL w R mem base := by
  unfold strtoULLe strtoULL
  cases front R mem base with
  | none => rfl
  | some f =>
    simp only
    rw [loopUe_eq]
    cases loopU (2 ^ w) f.base ((2 ^ w - 1) / f.base) (((2 ^ w - 1) % f.base : Nat) : Int) R.lp (some (2 ^ w - 1)) f.rest f.c f.off (0, 0) with
    | none => rfl
    | some r => rfl

theorem signedResult_range (w : Nat) (hw : 0 < w) (p : Option Spec.Subject) :
    -((2 : Int) ^ (w - 1)) ≤ (Spec.signedResult w p).1 ∧ (Spec.signedResult w p).1 ≤ (2 : Int) ^ (w - 1) - 1 := by
  obtain ⟨_, hH0⟩ := pow_split w hw
  have hHi : (2 : Int) ^ (w - 1) = ((2 ^ (w - 1) : Nat) : Int) := by norm_cast
  rw [hHi]
  generalize 2 ^ (w - 1) = H at *
  cases p with
  | none => simp only [Spec.signedResult]; omega
  | some s =>
    simp only [Spec.signedResult, hHi]
    generalize 2 ^ (w - 1) = H at *
    constructor <;> (repeat' split) <;> omega

theorem unsignedResult_lt (w : Nat) (p : Option Spec.Subject) : (Spec.unsignedResult w p).1 < 2 ^ w := by
  have hW0 : 0 < 2 ^ w := Nat.two_pow_pos _
  cases p with
  | none => simpa [Spec.unsignedResult] using hW0
  | some s =>
    simp only [Spec.unsignedResult]
    split
    · omega
    · split
      · exact Nat.mod_lt _ hW0
      · omega

theorem pow_le_63 (w : Nat) (hw : 0 < w) (h64 : w ≤ 64) : (2 : Int) ^ (w - 1) ≤ (2 : Int) ^ (64 - 1) := by
  have : (2 : Nat) ^ (w - 1) ≤ 2 ^ (64 - 1) := Nat.pow_le_pow_right (by omega) (by omega)
  exact_mod_cast this

end errno

/-! ## atol outside the range of `long`: what the code does -/

section atolovf

/-- a digit string whose value passes `H`: the negative accumulation overflows
at the first digit that takes it below `-H` -/
theorem atolLoop_ovf (H : Nat) (hH : 0 < H) : ∀ (bs : List Byte) (stop : Byte) (tail : List Byte),
    (∀ x ∈ bs, Spec.digit x < 10) →
    ∀ (cb : Byte) (rest : List Byte), cb :: rest = bs ++ stop :: tail →
    ∀ (N : Nat), N ≤ H → H < (bs.map Spec.digit).foldl (fun a d => a * 10 + d) N →
    atolLoop (-(H : Int)) ((H : Int) - 1) rest (cb.toNat : Int) (-(N : Int)) = none := by
  intro bs
  induction bs with
  | nil =>
    intro stop tail _ cb rest _ N hN hov
    simp only [List.map_nil, List.foldl_nil] at hov
    omega
  | cons x bs ih =>
    intro stop tail hbs cb rest heq N hN hov
    simp only [List.cons_append, List.cons.injEq] at heq
    obtain ⟨h1, h2⟩ := heq
    subst h1
    have hx := hbs cb List.mem_cons_self
    have hval := (isdigit_toNat cb).2 hx
    simp only [List.map_cons, List.foldl_cons] at hov
    have hne : ∃ cb' rest', cb' :: rest' = bs ++ stop :: tail := by
      cases bs with
      | nil => exact ⟨stop, tail, rfl⟩
      | cons y ys => exact ⟨y, ys ++ stop :: tail, rfl⟩
    obtain ⟨cb', rest', heq'⟩ := hne
    unfold atolLoop
    rw [(isdigit_toNat cb).1]
    simp only [hx, decide_true, if_true, hval]
    by_cases hstep : N * 10 + Spec.digit cb ≤ H
    · rw [if_neg (by omega)]
      rw [h2, ← heq']
      simp only
      have e : (10 : Int) * -(N : Int) - (Spec.digit cb : Int) = -((N * 10 + Spec.digit cb : Nat) : Int) := by omega
      rw [e]
      exact ih stop tail (fun y hy => hbs y (List.mem_cons_of_mem _ hy)) cb' rest' heq' _ hstep hov
    · rw [if_pos (by omega)]

/-- atol on a text whose decimal value is NOT representable: signed overflow
(undefined behaviour in C; ISO 7.22.1.2 makes the call undefined as well).
Together with `atol_value`: the model returns a value iff ISO defines one. -/
theorem atol_overflow (w : Nat) (hw : 0 < w) (t : List Byte)
    (hrep : ¬ (-((2 : Int) ^ (w - 1)) ≤ Spec.decimalValue t ∧ Spec.decimalValue t ≤ (2 : Int) ^ (w - 1) - 1)) :
    atol w (t ++ [0]) = none := by
  obtain ⟨_, hH0⟩ := pow_split w hw
  have hHi : (2 : Int) ^ (w - 1) = ((2 ^ (w - 1) : Nat) : Int) := by norm_cast
  rw [hHi] at hrep
  generalize hH : 2 ^ (w - 1) = H at *
  obtain ⟨cb1, rest1, e1, h1⟩ := atolSkip_spec t
  obtain ⟨cb2, rest2, e2, hsign, h2⟩ := atolSign_spec (t.dropWhile Spec.isSpace) cb1 rest1 e1
  generalize hsg : Spec.sign (t.dropWhile Spec.isSpace) = sg at *
  obtain ⟨stop, tail, hsplit, hstop⟩ := run_split 10 (by omega) sg.2.2
  have hparse : Spec.parse t 10 =
      if Spec.digits 10 sg.2.2 = [] then none
      else some ⟨sg.1, Spec.ofDigits 10 (Spec.digits 10 sg.2.2),
        (t.takeWhile Spec.isSpace).length + sg.2.1 + 0 + (Spec.digits 10 sg.2.2).length⟩ := by
    unfold Spec.parse
    simp [hsg, Spec.effBase]
  have hval : Spec.decimalValue t =
      if sg.1 = true then -((Spec.ofDigits 10 (Spec.digits 10 sg.2.2) : Nat) : Int)
      else ((Spec.ofDigits 10 (Spec.digits 10 sg.2.2) : Nat) : Int) := by
    unfold Spec.decimalValue
    rw [hparse]
    by_cases hds : Spec.digits 10 sg.2.2 = []
    · simp [hds, Spec.ofDigits]
    · simp [hds]
  rw [hval] at hrep
  have hof : List.foldl (fun a d => a * 10 + d) 0 (Spec.digits 10 sg.2.2) = Spec.ofDigits 10 (Spec.digits 10 sg.2.2) := rfl
  have hz : (-((0 : Nat) : Int)) = 0 := by simp
  unfold atol
  rw [h1]
  simp only [hHi]
  rw [h2]
  simp only
  by_cases hbig : H < Spec.ofDigits 10 (Spec.digits 10 sg.2.2)
  · have hloop := atolLoop_ovf H hH0 (sg.2.2.takeWhile (fun x => decide (Spec.digit x < 10))) stop tail
      (by intro x hx; have := mem_takeWhile_sat hx; simpa using this) cb2 rest2 (by rw [e2, hsplit]) 0
      (by omega) (by rw [← digits_eq, hof]; exact hbig)
    rw [hz] at hloop
    rw [hloop]
  · have hloop := atolLoop_spec H hH0 (sg.2.2.takeWhile (fun x => decide (Spec.digit x < 10))) stop tail
      (by intro x hx; have := mem_takeWhile_sat hx; simpa using this) hstop cb2 rest2 (by rw [e2, hsplit]) 0
      (by rw [← digits_eq, hof]; omega)
    rw [← digits_eq, hof, hz] at hloop
    rw [hloop]
    simp only
    generalize Spec.ofDigits 10 (Spec.digits 10 sg.2.2) = mag at *
    cases h : sg.1
    · have : ¬ (cb1.toNat : Int) = 45 := by rw [hsign, h]; simp
      simp only [this, if_false]
      simp only [h, Bool.false_eq_true, if_false] at hrep
      rw [if_pos (by omega)]
    · simp only [h, if_true] at hrep
      omega

end atolovf

/-! ## unconditional safety of the bisections (no hypothesis on the comparator or the layout) -/

section safe
variable {κ α : Type}

theorem bsLoop_safe (cmp : κ → α → Int) (key : κ) (a : List α) :
    ∀ (f l r : Nat), l < r → r ≤ a.length → r - l < f →
      ∃ l' r', bsLoop cmp key a f l r = some (l', r') ∧ l' < a.length := by
  intro f
  induction f with
  | zero => intro l r _ _ h; omega
  | succ f ih =>
    intro l r hlr hr hf
    unfold bsLoop
    by_cases h : l + 1 < r
    · simp only [h, if_true]
      have hm : l + (r - l) / 2 < a.length := by omega
      rw [List.getElem?_eq_getElem hm]
      simp only []
      split
      · exact ih l (l + (r - l) / 2) (by omega) (by omega) (by omega)
      · exact ih (l + (r - l) / 2) r (by omega) hr (by omega)
    · simp only [h, if_false]
      exact ⟨l, r, rfl, by omega⟩

theorem bsearch_safe' (cmp : κ → α → Int) (key : κ) (a : List α) :
    ∃ r, bsearch cmp key a = some r ∧ ∀ i, r = some i → i < a.length := by
  unfold bsearch
  by_cases h0 : a.length = 0
  · simp [h0]
  · simp only [h0, if_false]
    obtain ⟨l', r', h, hl⟩ := bsLoop_safe cmp key a (a.length + 1) 0 a.length (by omega) (by omega) (by omega)
    rw [h]
    simp only []
    rw [List.getElem?_eq_getElem hl]
    simp only []
    split
    · exact ⟨_, rfl, by intro i hi; cases hi; exact hl⟩
    · exact ⟨_, rfl, by intro i hi; cases hi⟩

theorem bndLoop_safe (p : α → Bool) (a : List α) :
    ∀ (f l r : Nat), l ≤ r → r ≤ a.length → r - l < f →
      ∃ x, bndLoop p a f l r = some x ∧ l ≤ x ∧ x ≤ r := by
  intro f
  induction f with
  | zero => intro l r _ _ h; omega
  | succ f ih =>
    intro l r hlr hr hf
    unfold bndLoop
    by_cases h : l < r
    · simp only [h, if_true]
      have hm : l + (r - l) / 2 < a.length := by omega
      rw [List.getElem?_eq_getElem hm]
      simp only []
      split
      · obtain ⟨x, hx, h1, h2⟩ := ih l (l + (r - l) / 2) (by omega) (by omega) (by omega)
        exact ⟨x, hx, h1, by omega⟩
      · obtain ⟨x, hx, h1, h2⟩ := ih (l + (r - l) / 2 + 1) r (by omega) hr (by omega)
        exact ⟨x, hx, by omega, h2⟩
    · simp only [h, if_false]
      exact ⟨l, rfl, Nat.le_refl _, hlr⟩

end safe

/-- one more digit never wraps: after ANY digit string the state is flagged or
`acc ≤ limit`, and whenever the cutoff/cutlim test lets the next digit through,
`acc * base + digit ≤ limit < 2^w` — the `% 2^w` of `stepU` is the identity on
every step of every run -/
theorem stepU_never_wraps (W b limit : Nat) (ovf : Option Nat) (hb : 0 < b) (hW : limit < W)
    (ds : List Nat) (hds : ∀ d ∈ ds, d < b) (d : Nat) (hd : d < b)
    (st : Nat × Int)
    (hst : st = ds.foldl (fun st (d : Nat) => stepU W b (limit / b) ((limit % b : Nat) : Int) ovf st (d : Int)) (0, 0)) :
    st.2 = -1 ∨ (st.1 ≤ limit ∧
      (¬ (st.1 > limit / b ∨ (st.1 = limit / b ∧ (d : Int) > ((limit % b : Nat) : Int))) → st.1 * b + d ≤ limit)) := by
  have g0 : GoodU limit ovf 0 false ((0 : Nat), (0 : Int)) :=
    ⟨fun _ => ⟨rfl, rfl⟩, (by intro h; cases h), (by intro h; cases h)⟩
  have g := foldU_good W b limit ovf hb hW ds 0 false (0, 0) hds g0
  rw [← hst] at g
  obtain ⟨g1, g2, g3⟩ := g
  generalize hN : ds.foldl (fun a d => a * b + d) 0 = N at *
  have key := cutoff_test limit b
  cases hne : (false || !ds.isEmpty) with
  | false =>
    obtain ⟨hN0, hs⟩ := g1 hne
    right
    rw [hs]
    dsimp only
    refine ⟨Nat.zero_le _, ?_⟩
    intro hno
    have := key 0 d hb hd
    apply Classical.byContradiction
    intro hc
    apply hno
    have h' := this.2 (by omega)
    rcases h' with h' | ⟨h1, h2⟩
    · left; exact h'
    · right; exact ⟨h1, by omega⟩
  | true =>
    by_cases hfit : N ≤ limit
    · have hs := g2 hne hfit
      right
      rw [hs]
      dsimp only
      refine ⟨hfit, ?_⟩
      intro hno
      have := key N d hb hd
      apply Classical.byContradiction
      intro hc
      apply hno
      have h' := this.2 (by omega)
      rcases h' with h' | ⟨h1, h2⟩
      · left; exact h'
      · right; exact ⟨h1, by omega⟩
    · left; exact (g3 hne (by omega)).1

end Igris.C11
