/-
  C11 — PROPERTY THEOREMS (statements only use definitions from Model.lean;
  helper lemmas live in Lemmas.lean).

  Property: "strtol, strtoul, strtoll, strtoull, strtoimax, strtoumax, atoi and
  atol return the value ISO C prescribes for every text and base (0, 2..36) -
  leading space, sign, 0x/0 prefixes, clamping to the type limits on overflow -
  and set the end pointer to the first unconsumed character (the start when no
  digits were consumed).  qsort leaves a permutation of its input ordered by
  the comparator for every array length, element size and comparator that is a
  consistent weak order.  bsearch returns an element comparing equal to the key
  if and only if one exists and never dereferences outside the array,
  including when it is empty."

  The model is the code AFTER the `fix:` commits of branch fix-C11 (0x
  look-ahead in the six strto*, bsearch empty array + argument order, atol
  accumulating negatively, strtoumax cutoff in uintmax_t); on the unrepaired
  tree the first three statements below are false ("0xg", nmemb = 0,
  "-9223372036854775808") and the check reports them with concrete inputs.

  Reading the statements.
  * `t : List Byte` is the text WITHOUT its terminator; the function is run on
    the memory `t ++ [0]` and nothing else: `= some …` says in particular that
    no byte outside the string (terminator included) is read.
  * `w` is the width of the result type.  Every theorem holds for every
    `w ≥ 1`, i.e. for the 64-bit types of the host as well as for a 32-bit
    `long`.
  * A model result `none` is a fault: a read outside the given memory, signed
    overflow (undefined behaviour) or, for qsort, running out of fuel.
-/
import IgrisModel.C11.Lemmas
namespace Igris.C11
open Igris.Proto (Byte)

/-- the bases the property quantifies over -/
def ValidBase (base : Nat) : Prop := base = 0 ∨ (2 ≤ base ∧ base ≤ 36)

example : ValidBase 0 ∧ ValidBase 2 ∧ ValidBase 36 := by unfold ValidBase; omega

/-! ## strto*: value, clamping and end offset are ISO 7.22.1.4 for every byte
string and every base -/

/-- strtol: for every text and base the result is the ISO value (the subject
sequence's value, clamped to `[LONG_MIN, LONG_MAX]`, 0 without a conversion)
and `*endptr - nptr` is the length of white space + subject sequence (0 without
a conversion). -/
theorem strtol_value_end (w : Nat) (hw : 0 < w) (t : List Byte) (base : Nat) (hb : ValidBase base) :
    strtol w (t ++ [0]) base = some (Spec.signedResult w (Spec.parse t base)) :=
  strtoSU_spec w hw readsL t base hb

theorem strtoimax_value_end (w : Nat) (hw : 0 < w) (t : List Byte) (base : Nat) (hb : ValidBase base) :
    strtoimax w (t ++ [0]) base = some (Spec.signedResult w (Spec.parse t base)) :=
  strtoSU_spec w hw readsL t base hb

/-- strtoll accumulates in a SIGNED `long long` (negatively for negative
numbers): in addition to value and end offset the theorem says that no signed
overflow ever happens (the model faults on it). -/
theorem strtoll_value_end (w : Nat) (hw : 0 < w) (t : List Byte) (base : Nat) (hb : ValidBase base) :
    strtoll w (t ++ [0]) base = some (Spec.signedResult w (Spec.parse t base)) :=
  strtoLL_spec w hw readsLL t base hb

/-- strtoul: the magnitude if it fits (negated modulo 2^w after a minus sign),
else the maximum. -/
theorem strtoul_value_end (w : Nat) (t : List Byte) (base : Nat) (hb : ValidBase base) :
    strtoul w (t ++ [0]) base = some (Spec.unsignedResult w (Spec.parse t base)) :=
  strtoUU_spec w readsUL t base hb

theorem strtoumax_value_end (w : Nat) (t : List Byte) (base : Nat) (hb : ValidBase base) :
    strtoumax w (t ++ [0]) base = some (Spec.unsignedResult w (Spec.parse t base)) :=
  strtoUU_spec w readsUL t base hb

theorem strtoull_value_end (w : Nat) (t : List Byte) (base : Nat) (hb : ValidBase base) :
    strtoull w (t ++ [0]) base = some (Spec.unsignedResult w (Spec.parse t base)) :=
  strtoULL_spec w readsLL t base hb

/-- The digit loop never lets the accumulator pass the limit it was given
(`LONG_MAX`, `-(unsigned long)LONG_MIN`, `ULONG_MAX`, all `< 2^w`), for any
digit string: after the loop either overflow was flagged (`any = -1`) or
`acc ≤ limit`.  Every intermediate state is the final state of a shorter
string, so the `* base + digit` never wraps modulo `2^w`. -/
theorem strto_accumulator_never_wraps (W b limit : Nat) (ovf : Option Nat) (lp : Bool)
    (hb2 : 2 ≤ b) (hb36 : b ≤ 36) (hW : limit < W)
    (t3 : List Byte) (cb : Byte) (rest : List Byte) (h : cb :: rest = t3 ++ [0]) (u : Bool) (off : Nat) :
    ∃ acc any off', loopU W b (limit / b) ((limit % b : Nat) : Int) lp ovf rest (rd u cb) off (0, 0) = some (acc, any, off') ∧
      (any = -1 ∨ acc ≤ limit) := by
  obtain ⟨st, hrun, g1, g2, g3⟩ := loopU_good W b limit ovf lp hb2 hb36 hW t3 cb rest h u off
  refine ⟨st.1, st.2, _, hrun, ?_⟩
  cases hne : (!(Spec.digits b t3).isEmpty) with
  | false => right; rw [(g1 hne).2]; exact Nat.zero_le _
  | true =>
    by_cases hfit : Spec.ofDigits b (Spec.digits b t3) ≤ limit
    · right; rw [g2 hne hfit]; exact hfit
    · left; exact (g3 hne (by omega)).1

/-! the hypotheses are satisfiable and the statements say something: the
specification itself on a few texts (`decide` on the SPEC, not on the model) -/

-- "0xg", base 16: ISO consumes the "0" (the defect repaired by 045fefc)
example : Spec.parse [0x30, 0x78, 0x67] 16 = some ⟨false, 0, 1⟩ := by decide
-- "  -0x1F;" base 0
example : Spec.parse [0x20, 0x20, 0x2d, 0x30, 0x78, 0x31, 0x46, 0x3b] 0 = some ⟨true, 31, 7⟩ := by decide
-- "077" base 0 is octal, "08" stops after the 0
example : Spec.parse [0x30, 0x37, 0x37] 0 = some ⟨false, 63, 3⟩ := by decide
example : Spec.parse [0x30, 0x38] 0 = some ⟨false, 0, 1⟩ := by decide
-- "-", "+x", "": no conversion
example : Spec.parse [0x2d] 10 = none ∧ Spec.parse [0x2b, 0x78] 16 = none ∧ Spec.parse [] 0 = none := by decide
-- "zZ" base 36
example : Spec.parse [0x7a, 0x5a] 36 = some ⟨false, 35 * 36 + 35, 2⟩ := by decide
-- clamping both ways at w = 8: "-129" -> -128, "128" -> 127, "-128" -> -128
example : Spec.signedResult 8 (some ⟨true, 129, 4⟩) = (-128, 4) ∧ Spec.signedResult 8 (some ⟨false, 128, 3⟩) = (127, 3)
    ∧ Spec.signedResult 8 (some ⟨true, 128, 4⟩) = (-128, 4) := by decide
-- unsigned: "-1" -> 255, "256" -> 255
example : Spec.unsignedResult 8 (some ⟨true, 1, 2⟩) = (255, 2) ∧ Spec.unsignedResult 8 (some ⟨false, 256, 3⟩) = (255, 3) := by decide
-- and the model on the text of the repaired defect, at the width of the host
example : strtol 64 ([0x30, 0x78, 0x67] ++ [0]) 16 = some (0, 1) := by decide

/-! ## atol / atoi

ISO 7.22.1.2: `atol(s)` is `strtol(s, NULL, 10)` "except for the behavior on
error"; "if the value of the result cannot be represented, the behavior is
undefined".  So the full ISO statement carries the representability hypothesis;
it is not a weakening.  Inside it (LONG_MIN included) the repaired code returns
the value and commits no signed overflow. -/

theorem atol_value (w : Nat) (hw : 0 < w) (t : List Byte)
    (hrep : -((2 : Int) ^ (w - 1)) ≤ Spec.decimalValue t ∧ Spec.decimalValue t ≤ (2 : Int) ^ (w - 1) - 1) :
    atol w (t ++ [0]) = some (Spec.decimalValue t) :=
  atol_spec w hw t hrep

/-- `atoi` = `(int) atol`: the value, whenever it is representable in `int` -/
theorem atoi_value (wl wi : Nat) (hwi : 0 < wi) (hle : wi ≤ wl) (t : List Byte)
    (hrep : -((2 : Int) ^ (wi - 1)) ≤ Spec.decimalValue t ∧ Spec.decimalValue t ≤ (2 : Int) ^ (wi - 1) - 1) :
    atoi wl wi (t ++ [0]) = some (Spec.decimalValue t) :=
  atoi_spec wl wi hwi hle t hrep

-- LONG_MIN of a 64-bit long is inside the hypothesis (the defect repaired by 6ffd635) …
example : Spec.decimalValue [0x2d, 0x39, 0x32, 0x32, 0x33, 0x33, 0x37, 0x32, 0x30, 0x33, 0x36, 0x38, 0x35, 0x34, 0x37, 0x37,
    0x35, 0x38, 0x30, 0x38] = -(2 : Int) ^ 63 := by decide
-- … and one more is outside: there the code has undefined behaviour (model: fault), as ISO allows
example : atol 8 ([0x31, 0x32, 0x38] ++ [0]) = none ∧ atol 8 ([0x2d, 0x31, 0x32, 0x38] ++ [0]) = some (-128) := by decide

/-! ## qsort -/

/-- qsort terminates without touching anything outside the array it was given
and leaves a permutation of its input — for EVERY stream of `rand()` results
and every comparator that never says `x < x` (nothing else is needed for
safety: the scans are stopped by sentinels the partition itself creates). -/
theorem qsort_perm {α : Type} (cmp : α → α → Int) (hirr : ∀ x, ¬ cmp x x < 0) (rs : List Int) (a : List α) :
    ∃ out rs', qsort cmp rs a = some (out, rs') ∧ out.Perm a := by
  obtain ⟨out, rs', h, hp, _⟩ := qsortF_spec cmp hirr (a.length + 1) rs a (by omega)
  exact ⟨out, rs', h, hp⟩

/-- … and the result is ordered by the comparator, for every comparator that
is consistent in the sense of ISO 7.22.5 ¶4 (a total preorder: this includes
duplicates and comparators that identify distinct elements). -/
theorem qsort_sorted {α : Type} (cmp : α → α → Int) (hc : Consistent cmp) (rs : List Int) (a : List α) :
    ∃ out rs', qsort cmp rs a = some (out, rs') ∧ out.Perm a ∧ Sorted cmp out := by
  obtain ⟨out, rs', h, hp, hs⟩ := qsortF_spec cmp hc.irrefl (a.length + 1) rs a (by omega)
  exact ⟨out, rs', h, hp, hs hc⟩

-- consistent comparators exist (the harness's ascending and "everything equal" ones)
example : Consistent (fun a b : Int => a - b) := ⟨by intro a b; omega, by intro a b c; omega⟩
example : Consistent (fun _ _ : Int => (0 : Int)) := ⟨by intro a b; omega, by intro a b c; omega⟩
-- a run of the model: 6 elements, pivots 4 and 1
example : (qsort (fun a b : Int => a - b) [4, 1] [3, 1, 2, 3, 0, 1]).map (·.1) = some [0, 1, 1, 2, 3, 3] := by decide

/-! ## bsearch -/

/-- On an array laid out as ISO 7.22.5.1 ¶2 requires for this key (elements
comparing less, then equal, then greater), bsearch never accesses an index
outside the array and returns the index of an element comparing equal to the
key if one exists, NULL if and only if none does.  `cmp` is called as
`cmp key element` only; key and elements may have different types. -/
theorem bsearch_iff {κ α : Type} (cmp : κ → α → Int) (key : κ) (a : List α) (hp : PartitionedBy cmp key a) :
    ∃ r, bsearch cmp key a = some r ∧
      (∀ i, r = some i → ∃ h : i < a.length, cmp key a[i] = 0) ∧
      (r = none → ∀ i (h : i < a.length), cmp key a[i] ≠ 0) :=
  bsearch_spec cmp key a hp

/-- the empty array: NULL, and the comparator is not called at all (the model
has no access to make: `a = []`) -/
theorem bsearch_empty {κ α : Type} (cmp : κ → α → Int) (key : κ) : bsearch cmp key ([] : List α) = some none := rfl

/-- the usual situation: key and elements of one type, array sorted by a
consistent comparator ⇒ the layout hypothesis of `bsearch_iff` holds -/
theorem partitioned_of_sorted {α : Type} (cmp : α → α → Int) (hc : Consistent cmp) (a : List α) (hs : Sorted cmp a)
    (key : α) : PartitionedBy cmp key a := by
  intro i j hij hj
  by_cases hije : i = j
  · subst hije; exact ⟨id, id⟩
  · have hle : cmp (a[i]'(by omega)) a[j] ≤ 0 := by
      have := List.pairwise_iff_getElem.1 hs i j (by omega) hj (by omega)
      exact this
    constructor
    · intro h
      apply Classical.byContradiction
      intro hn
      have h1 : cmp a[j] key ≤ 0 := hc.le_of_not_lt hn
      have h2 := hc.trans _ _ _ hle h1
      have := hc.anti key (a[i]'(by omega))
      omega
    · intro h
      exact hc.trans _ _ _ h hle

theorem bsearch_iff_sorted {α : Type} (cmp : α → α → Int) (hc : Consistent cmp) (key : α) (a : List α) (hs : Sorted cmp a) :
    ∃ r, bsearch cmp key a = some r ∧
      (∀ i, r = some i → ∃ h : i < a.length, cmp key a[i] = 0) ∧
      (r = none → ∀ i (h : i < a.length), cmp key a[i] ≠ 0) :=
  bsearch_iff cmp key a (partitioned_of_sorted cmp hc a hs key)

/-- what qsort produces is what bsearch needs -/
theorem bsearch_after_qsort {α : Type} (cmp : α → α → Int) (hc : Consistent cmp) (rs : List Int) (a : List α) (key : α) :
    ∃ out rs' r, qsort cmp rs a = some (out, rs') ∧ bsearch cmp key out = some r ∧
      (r = none ↔ ∀ x ∈ a, cmp key x ≠ 0) := by
  obtain ⟨out, rs', hq, hperm, hs⟩ := qsort_sorted cmp hc rs a
  obtain ⟨r, hb, h1, h2⟩ := bsearch_iff_sorted cmp hc key out hs
  refine ⟨out, rs', r, hq, hb, ?_⟩
  constructor
  · intro hr x hx
    have hx' : x ∈ out := hperm.mem_iff.2 hx
    obtain ⟨i, hi, rfl⟩ := List.getElem_of_mem hx'
    exact h2 hr i hi
  · intro hall
    cases r with
    | none => rfl
    | some i =>
      obtain ⟨hi, h0⟩ := h1 i rfl
      exact absurd h0 (hall _ (hperm.mem_iff.1 (List.getElem_mem hi)))

-- a layout satisfying the hypothesis, with duplicates and an absent key
example : bsearch (fun (k : Int) (e : Int) => k - e) 4 [1, 3, 3, 5, 7] = some none := by decide
example : bsearch (fun (k : Int) (e : Int) => k - e) 3 [1, 3, 3, 5, 7] = some (some 2) := by decide

end Igris.C11
