/-
  C11 — PROPERTY THEOREMS (statements only use definitions from Model.lean;
  helper lemmas live in Lemmas.lean).

  Property: "strtol, strtoul, strtoll, strtoull, strtoimax, strtoumax, atoi and
  atol return the value ISO C prescribes for every text and base (0, 2..36) -
  leading space, sign, 0x/0 prefixes, clamping to the type limits on overflow -
  and set the end pointer to the first unconsumed character (the start when no
  digits were consumed).  qsort leaves a permutation of its input ordered by
  the comparator for every array length, element size and comparator that is a
  consistent weak order.  bsearch returns an element comparing equal to the key
  if and only if one exists and never dereferences outside the array,
  including when it is empty."

  The model is the code AFTER the `fix:` commits of branch fix-C11 (0x
  look-ahead in the six strto*, bsearch empty array + argument order, atol
  accumulating negatively, strtoumax cutoff in uintmax_t); on the unrepaired
  tree the first three statements below are false ("0xg", nmemb = 0,
  "-9223372036854775808") and the check reports them with concrete inputs.

  Reading the statements.
  * `t : List Byte` is the text WITHOUT its terminator; the function is run on
    the memory `t ++ [0]` and nothing else: `= some …` says in particular that
    no byte outside the string (terminator included) is read.
  * `w` is the width of the result type.  Every theorem holds for every
    `w ≥ 1`, i.e. for the 64-bit types of the host as well as for a 32-bit
    `long`.
  * A model result `none` is a fault: a read outside the given memory, signed
    overflow (undefined behaviour) or, for qsort, running out of fuel.
-/
import IgrisModel.C11.Lemmas
import IgrisModel.C11.More
import IgrisModel.C11.Bytes
import IgrisModel.C11.Round3
namespace Igris.C11
open Igris.Proto (Byte)

/-- the bases the property quantifies over -/
def ValidBase (base : Nat) : Prop := base = 0 ∨ (2 ≤ base ∧ base ≤ 36)

example : ValidBase 0 ∧ ValidBase 2 ∧ ValidBase 36 := by unfold ValidBase; omega

/-! ## strto*: value, clamping and end offset are ISO 7.22.1.4 for every byte
string and every base -/

/-- strtol: for every text and base the result is the ISO value (the subject
sequence's value, clamped to `[LONG_MIN, LONG_MAX]`, 0 without a conversion)
and `*endptr - nptr` is the length of white space + subject sequence (0 without
a conversion). -/
theorem strtol_value_end (w : Nat) (hw : 0 < w) (t : List Byte) (base : Nat) (hb : ValidBase base) :
    strtol w (t ++ [0]) base = some (Spec.signedResult w (Spec.parse t base)) :=
  strtoSU_spec w hw readsL t base hb

theorem strtoimax_value_end (w : Nat) (hw : 0 < w) (t : List Byte) (base : Nat) (hb : ValidBase base) :
    strtoimax w (t ++ [0]) base = some (Spec.signedResult w (Spec.parse t base)) :=
  strtoSU_spec w hw readsL t base hb

/-- strtoll accumulates in a SIGNED `long long` (negatively for negative
numbers): in addition to value and end offset the theorem says that no signed
overflow ever happens (the model faults on it). -/
theorem strtoll_value_end (w : Nat) (hw : 0 < w) (t : List Byte) (base : Nat) (hb : ValidBase base) :
    strtoll w (t ++ [0]) base = some (Spec.signedResult w (Spec.parse t base)) :=
  strtoLL_spec w hw readsLL t base hb

/-- strtoul: the magnitude if it fits (negated modulo 2^w after a minus sign),
else the maximum. -/
theorem strtoul_value_end (w : Nat) (t : List Byte) (base : Nat) (hb : ValidBase base) :
    strtoul w (t ++ [0]) base = some (Spec.unsignedResult w (Spec.parse t base)) :=
  strtoUU_spec w readsUL t base hb

theorem strtoumax_value_end (w : Nat) (t : List Byte) (base : Nat) (hb : ValidBase base) :
    strtoumax w (t ++ [0]) base = some (Spec.unsignedResult w (Spec.parse t base)) :=
  strtoUU_spec w readsUL t base hb

theorem strtoull_value_end (w : Nat) (t : List Byte) (base : Nat) (hb : ValidBase base) :
    strtoull w (t ++ [0]) base = some (Spec.unsignedResult w (Spec.parse t base)) :=
  strtoULL_spec w readsLL t base hb

/-- The digit loop never lets the accumulator pass the limit it was given
(`LONG_MAX`, `-(unsigned long)LONG_MIN`, `ULONG_MAX`, all `< 2^w`), for any
digit string: after the loop either overflow was flagged (`any = -1`) or
`acc ≤ limit`.  Every intermediate state is the final state of a shorter
string, so the `* base + digit` never wraps modulo `2^w`. -/
theorem strto_accumulator_never_wraps (W b limit : Nat) (ovf : Option Nat) (lp : Bool)
    (hb2 : 2 ≤ b) (hb36 : b ≤ 36) (hW : limit < W)
    (t3 : List Byte) (cb : Byte) (rest : List Byte) (h : cb :: rest = t3 ++ [0]) (u : Bool) (off : Nat) :
    ∃ acc any off', loopU W b (limit / b) ((limit % b : Nat) : Int) lp ovf rest (rd u cb) off (0, 0) = some (acc, any, off') ∧
      (any = -1 ∨ acc ≤ limit) := by
  obtain ⟨st, hrun, g1, g2, g3⟩ := loopU_good W b limit ovf lp hb2 hb36 hW t3 cb rest h u off
  refine ⟨st.1, st.2, _, hrun, ?_⟩
  cases hne : (!(Spec.digits b t3).isEmpty) with
  | false => right; rw [(g1 hne).2]; exact Nat.zero_le _
  | true =>
    by_cases hfit : Spec.ofDigits b (Spec.digits b t3) ≤ limit
    · right; rw [g2 hne hfit]; exact hfit
    · left; exact (g3 hne (by omega)).1

/-! the hypotheses are satisfiable and the statements say something: the
specification itself on a few texts (`decide` on the SPEC, not on the model) -/

-- "0xg", base 16: ISO consumes the "0" (the defect repaired by 045fefc)
example : Spec.parse [0x30, 0x78, 0x67] 16 = some ⟨false, 0, 1⟩ := by decide
-- "  -0x1F;" base 0
example : Spec.parse [0x20, 0x20, 0x2d, 0x30, 0x78, 0x31, 0x46, 0x3b] 0 = some ⟨true, 31, 7⟩ := by decide
-- "077" base 0 is octal, "08" stops after the 0
example : Spec.parse [0x30, 0x37, 0x37] 0 = some ⟨false, 63, 3⟩ := by decide
example : Spec.parse [0x30, 0x38] 0 = some ⟨false, 0, 1⟩ := by decide
-- "-", "+x", "": no conversion
example : Spec.parse [0x2d] 10 = none ∧ Spec.parse [0x2b, 0x78] 16 = none ∧ Spec.parse [] 0 = none := by decide
-- "zZ" base 36
example : Spec.parse [0x7a, 0x5a] 36 = some ⟨false, 35 * 36 + 35, 2⟩ := by decide
-- clamping both ways at w = 8: "-129" -> -128, "128" -> 127, "-128" -> -128
example : Spec.signedResult 8 (some ⟨true, 129, 4⟩) = (-128, 4) ∧ Spec.signedResult 8 (some ⟨false, 128, 3⟩) = (127, 3)
    ∧ Spec.signedResult 8 (some ⟨true, 128, 4⟩) = (-128, 4) := by decide
-- unsigned: "-1" -> 255, "256" -> 255
example : Spec.unsignedResult 8 (some ⟨true, 1, 2⟩) = (255, 2) ∧ Spec.unsignedResult 8 (some ⟨false, 256, 3⟩) = (255, 3) := by decide
-- and the model on the text of the repaired defect, at the width of the host
example : strtol 64 ([0x30, 0x78, 0x67] ++ [0]) 16 = some (0, 1) := by decide

/-! ## atol / atoi

ISO 7.22.1.2: `atol(s)` is `strtol(s, NULL, 10)` "except for the behavior on
error"; "if the value of the result cannot be represented, the behavior is
undefined".  So the full ISO statement carries the representability hypothesis;
it is not a weakening.  Inside it (LONG_MIN included) the repaired code returns
the value and commits no signed overflow. -/

theorem atol_value (w : Nat) (hw : 0 < w) (t : List Byte)
    (hrep : -((2 : Int) ^ (w - 1)) ≤ Spec.decimalValue t ∧ Spec.decimalValue t ≤ (2 : Int) ^ (w - 1) - 1) :
    atol w (t ++ [0]) = some (Spec.decimalValue t) :=
  atol_spec w hw t hrep

/-- `atoi` = `(int) atol`: the value, whenever it is representable in `int` -/
theorem atoi_value (wl wi : Nat) (hwi : 0 < wi) (hle : wi ≤ wl) (t : List Byte)
    (hrep : -((2 : Int) ^ (wi - 1)) ≤ Spec.decimalValue t ∧ Spec.decimalValue t ≤ (2 : Int) ^ (wi - 1) - 1) :
    atoi wl wi (t ++ [0]) = some (Spec.decimalValue t) :=
  atoi_spec wl wi hwi hle t hrep

-- LONG_MIN of a 64-bit long is inside the hypothesis (the defect repaired by 6ffd635) …
example : Spec.decimalValue [0x2d, 0x39, 0x32, 0x32, 0x33, 0x33, 0x37, 0x32, 0x30, 0x33, 0x36, 0x38, 0x35, 0x34, 0x37, 0x37,
    0x35, 0x38, 0x30, 0x38] = -(2 : Int) ^ 63 := by decide
-- … and one more is outside: there the code has undefined behaviour (model: fault), as ISO allows
example : atol 8 ([0x31, 0x32, 0x38] ++ [0]) = none ∧ atol 8 ([0x2d, 0x31, 0x32, 0x38] ++ [0]) = some (-128) := by decide

/-! ## qsort -/

/-- qsort terminates without touching anything outside the array it was given
and leaves a permutation of its input — for EVERY stream of `rand()` results
and every comparator that never says `x < x` (nothing else is needed for
safety: the scans are stopped by sentinels the partition itself creates). -/
theorem qsort_perm {α : Type} (cmp : α → α → Int) (hirr : ∀ x, ¬ cmp x x < 0) (rs : List Int) (a : List α) :
    ∃ out rs', qsort cmp rs a = some (out, rs') ∧ out.Perm a := by
  obtain ⟨out, rs', h, hp, _⟩ := qsortF_spec cmp hirr (a.length + 1) rs a (by omega)
  exact ⟨out, rs', h, hp⟩

/-- … and the result is ordered by the comparator, for every comparator that
is consistent in the sense of ISO 7.22.5 ¶4 (a total preorder: this includes
duplicates and comparators that identify distinct elements). -/
theorem qsort_sorted {α : Type} (cmp : α → α → Int) (hc : Consistent cmp) (rs : List Int) (a : List α) :
    ∃ out rs', qsort cmp rs a = some (out, rs') ∧ out.Perm a ∧ Sorted cmp out := by
  obtain ⟨out, rs', h, hp, hs⟩ := qsortF_spec cmp hc.irrefl (a.length + 1) rs a (by omega)
  exact ⟨out, rs', h, hp, hs hc⟩

-- consistent comparators exist (the harness's ascending and "everything equal" ones)
example : Consistent (fun a b : Int => a - b) := ⟨by intro a b; omega, by intro a b c; omega⟩
example : Consistent (fun _ _ : Int => (0 : Int)) := ⟨by intro a b; omega, by intro a b c; omega⟩
-- a run of the model: 6 elements, pivots 4 and 1
example : (qsort (fun a b : Int => a - b) [4, 1] [3, 1, 2, 3, 0, 1]).map (·.1) = some [0, 1, 1, 2, 3, 3] := by decide

/-! ## bsearch -/

/-- On an array laid out as ISO 7.22.5.1 ¶2 requires for this key (elements
comparing less, then equal, then greater), bsearch never accesses an index
outside the array and returns the index of an element comparing equal to the
key if one exists, NULL if and only if none does.  `cmp` is called as
`cmp key element` only; key and elements may have different types. -/
theorem bsearch_iff {κ α : Type} (cmp : κ → α → Int) (key : κ) (a : List α) (hp : PartitionedBy cmp key a) :
    ∃ r, bsearch cmp key a = some r ∧
      (∀ i, r = some i → ∃ h : i < a.length, cmp key a[i] = 0) ∧
      (r = none → ∀ i (h : i < a.length), cmp key a[i] ≠ 0) :=
  bsearch_spec cmp key a hp

/-- the empty array: NULL, and the comparator is not called at all (the model
has no access to make: `a = []`) -/
theorem bsearch_empty {κ α : Type} (cmp : κ → α → Int) (key : κ) : bsearch cmp key ([] : List α) = some none := rfl

/-- the usual situation: key and elements of one type, array sorted by a
consistent comparator ⇒ the layout hypothesis of `bsearch_iff` holds -/
theorem partitioned_of_sorted {α : Type} (cmp : α → α → Int) (hc : Consistent cmp) (a : List α) (hs : Sorted cmp a)
    (key : α) : PartitionedBy cmp key a := by
  intro i j hij hj
  by_cases hije : i = j
  · subst hije; exact ⟨id, id⟩
  · have hle : cmp (a[i]'(by omega)) a[j] ≤ 0 := by
      have := List.pairwise_iff_getElem.1 hs i j (by omega) hj (by omega)
      exact this
    constructor
    · intro h
      apply Classical.byContradiction
      intro hn
      have h1 : cmp a[j] key ≤ 0 := hc.le_of_not_lt hn
      have h2 := hc.trans _ _ _ hle h1
      have := hc.anti key (a[i]'(by omega))
      omega
    · intro h
      exact hc.trans _ _ _ h hle

theorem bsearch_iff_sorted {α : Type} (cmp : α → α → Int) (hc : Consistent cmp) (key : α) (a : List α) (hs : Sorted cmp a) :
    ∃ r, bsearch cmp key a = some r ∧
      (∀ i, r = some i → ∃ h : i < a.length, cmp key a[i] = 0) ∧
      (r = none → ∀ i (h : i < a.length), cmp key a[i] ≠ 0) :=
  bsearch_iff cmp key a (partitioned_of_sorted cmp hc a hs key)

/-- what qsort produces is what bsearch needs -/
theorem bsearch_after_qsort {α : Type} (cmp : α → α → Int) (hc : Consistent cmp) (rs : List Int) (a : List α) (key : α) :
    ∃ out rs' r, qsort cmp rs a = some (out, rs') ∧ bsearch cmp key out = some r ∧
      (r = none ↔ ∀ x ∈ a, cmp key x ≠ 0) := by
  obtain ⟨out, rs', hq, hperm, hs⟩ := qsort_sorted cmp hc rs a
  obtain ⟨r, hb, h1, h2⟩ := bsearch_iff_sorted cmp hc key out hs
  refine ⟨out, rs', r, hq, hb, ?_⟩
  constructor
  · intro hr x hx
    have hx' : x ∈ out := hperm.mem_iff.2 hx
    obtain ⟨i, hi, rfl⟩ := List.getElem_of_mem hx'
    exact h2 hr i hi
  · intro hall
    cases r with
    | none => rfl
    | some i =>
      obtain ⟨hi, h0⟩ := h1 i rfl
      exact absurd h0 (hall _ (hperm.mem_iff.1 (List.getElem_mem hi)))

-- a layout satisfying the hypothesis, with duplicates and an absent key
example : bsearch (fun (k : Int) (e : Int) => k - e) 4 [1, 3, 3, 5, 7] = some none := by decide
example : bsearch (fun (k : Int) (e : Int) => k - e) 3 [1, 3, 3, 5, 7] = some (some 2) := by decide

/-! ## Extension: errno, strtoq/strtouq, atoll

`strtolE` … are the same transcriptions with one more result component: what
the call stores in `errno` (`0` = nothing is stored, the caller's value stays;
`ERANGE = 34`, `EINVAL = 22`).  ISO 7.22.1.4 ¶8: ERANGE is stored iff the
correct value is outside the range of the result type (`Spec.signedErr`,
`Spec.unsignedErr`); ISO 7.5 ¶3: a library function never stores 0.
strtol.c / strtoimax.c stored nothing before eaa5889. -/

/-- the errno-carrying functions compute the value and end offset of the
original ones, on EVERY memory (not only on well-formed strings) -/
theorem strtoE_same_value_end (w : Nat) (mem : List Byte) (base : Nat) :
    (strtolE w mem base).map (fun r => (r.1, r.2.1)) = strtol w mem base ∧
    (strtoimaxE w mem base).map (fun r => (r.1, r.2.1)) = strtoimax w mem base ∧
    (strtoulE w mem base).map (fun r => (r.1, r.2.1)) = strtoul w mem base ∧
    (strtoumaxE w mem base).map (fun r => (r.1, r.2.1)) = strtoumax w mem base ∧
    (strtoullE w mem base).map (fun r => (r.1, r.2.1)) = strtoull w mem base :=
  ⟨strtoSUe_proj w readsL mem base, strtoSUe_proj w readsL mem base, strtoUUe_proj w readsUL mem base,
   strtoUUe_proj w readsUL mem base, strtoULLe_proj w readsLL mem base⟩

/-- strtol: value, end offset AND errno are ISO's, for every text and base -/
theorem strtol_value_end_errno (w : Nat) (hw : 0 < w) (t : List Byte) (base : Nat) (hb : ValidBase base) :
    strtolE w (t ++ [0]) base =
      some ((Spec.signedResult w (Spec.parse t base)).1, (Spec.signedResult w (Spec.parse t base)).2,
        Spec.signedErr w (Spec.parse t base)) :=
  strtoSUe_spec w hw readsL t base hb

theorem strtoimax_value_end_errno (w : Nat) (hw : 0 < w) (t : List Byte) (base : Nat) (hb : ValidBase base) :
    strtoimaxE w (t ++ [0]) base =
      some ((Spec.signedResult w (Spec.parse t base)).1, (Spec.signedResult w (Spec.parse t base)).2,
        Spec.signedErr w (Spec.parse t base)) :=
  strtoSUe_spec w hw readsL t base hb

/-- strtoll stores ERANGE inside the digit loop, at the digit that would pass
the limit: the theorem says that this happens exactly for the out-of-range texts -/
theorem strtoll_value_end_errno (w : Nat) (hw : 0 < w) (t : List Byte) (base : Nat) (hb : ValidBase base) :
    strtollE w (t ++ [0]) base =
      some ((Spec.signedResult w (Spec.parse t base)).1, (Spec.signedResult w (Spec.parse t base)).2,
        Spec.signedErr w (Spec.parse t base)) :=
  strtoLLe_spec w hw readsLL t base hb

theorem strtoull_value_end_errno (w : Nat) (t : List Byte) (base : Nat) (hb : ValidBase base) :
    strtoullE w (t ++ [0]) base =
      some ((Spec.unsignedResult w (Spec.parse t base)).1, (Spec.unsignedResult w (Spec.parse t base)).2,
        Spec.unsignedErr w (Spec.parse t base)) :=
  strtoULLe_spec w readsLL t base hb

/-- strtoul / strtoumax: ISO's value, end offset and ERANGE; in addition the
code stores EINVAL when no conversion is performed (`Spec.unsignedErrEinval`;
POSIX allows it, ISO C does not ask for it — the code is modelled as it is) -/
theorem strtoul_value_end_errno (w : Nat) (t : List Byte) (base : Nat) (hb : ValidBase base) :
    strtoulE w (t ++ [0]) base =
      some ((Spec.unsignedResult w (Spec.parse t base)).1, (Spec.unsignedResult w (Spec.parse t base)).2,
        Spec.unsignedErrEinval w (Spec.parse t base)) :=
  strtoUUe_spec w readsUL t base hb

theorem strtoumax_value_end_errno (w : Nat) (t : List Byte) (base : Nat) (hb : ValidBase base) :
    strtoumaxE w (t ++ [0]) base =
      some ((Spec.unsignedResult w (Spec.parse t base)).1, (Spec.unsignedResult w (Spec.parse t base)).2,
        Spec.unsignedErrEinval w (Spec.parse t base)) :=
  strtoUUe_spec w readsUL t base hb

/-- … and whenever a conversion IS performed, what strtoul/strtoumax store is exactly ISO's -/
theorem strtoul_errno_iso_when_converted (w : Nat) (s : Spec.Subject) :
    Spec.unsignedErrEinval w (some s) = Spec.unsignedErr w (some s) := rfl

-- errno of the specification at w = 8: "128" -> ERANGE, "-128" -> nothing, "-129" -> ERANGE, "" -> nothing;
-- unsigned: "256" -> ERANGE, "-255" -> nothing, "-256" -> ERANGE (the magnitude does not fit), "" -> EINVAL (code) / nothing (ISO)
example : Spec.signedErr 8 (some ⟨false, 128, 3⟩) = 34 ∧ Spec.signedErr 8 (some ⟨true, 128, 4⟩) = 0
    ∧ Spec.signedErr 8 (some ⟨true, 129, 4⟩) = 34 ∧ Spec.signedErr 8 none = 0 := by decide
example : Spec.unsignedErr 8 (some ⟨false, 256, 3⟩) = 34 ∧ Spec.unsignedErr 8 (some ⟨true, 255, 4⟩) = 0
    ∧ Spec.unsignedErr 8 (some ⟨true, 256, 4⟩) = 34 ∧ Spec.unsignedErrEinval 8 none = 22 ∧ Spec.unsignedErr 8 none = 0 := by decide
-- the model at w = 8: "128" base 10 clamps and stores ERANGE; base 36: "3k" = 128 overflows on the LAST digit, "3j" = 127 does not;
-- "-3k" = -128 is representable (nothing stored), "-3l" is not
example : strtolE 8 ([0x31, 0x32, 0x38] ++ [0]) 10 = some (127, 3, 34) := by decide
example : strtollE 8 ([0x33, 0x6b] ++ [0]) 36 = some (127, 2, 34) ∧ strtollE 8 ([0x33, 0x6a] ++ [0]) 36 = some (127, 2, 0) := by decide
example : strtollE 8 ([0x2d, 0x33, 0x6b] ++ [0]) 36 = some (-128, 3, 0) ∧ strtollE 8 ([0x2d, 0x33, 0x6c] ++ [0]) 36 = some (-128, 3, 34) := by decide
example : strtoulE 8 ([0x2d] ++ [0]) 10 = some (0, 0, 22) ∧ strtoullE 8 ([0x2d] ++ [0]) 10 = some (0, 0, 0) := by decide

/-- strtoq = `(int64_t) strtoll`: for every `long long` of at most 64 bits the
conversion changes nothing, the result is ISO's -/
theorem strtoq_value_end_errno (w : Nat) (hw : 0 < w) (h64 : w ≤ 64) (t : List Byte) (base : Nat) (hb : ValidBase base) :
    strtoqE w (t ++ [0]) base =
      some ((Spec.signedResult w (Spec.parse t base)).1, (Spec.signedResult w (Spec.parse t base)).2,
        Spec.signedErr w (Spec.parse t base)) := by
  unfold strtoqE
  rw [strtoll_value_end_errno w hw t base hb]
  simp only [Option.map_some]
  obtain ⟨h1, h2⟩ := signedResult_range w hw (Spec.parse t base)
  have h3 := pow_le_63 w hw h64
  rw [asSigned_wrap 64 (by omega) _ ⟨by omega, by omega⟩]

theorem strtouq_value_end_errno (w : Nat) (h64 : w ≤ 64) (t : List Byte) (base : Nat) (hb : ValidBase base) :
    strtouqE w (t ++ [0]) base =
      some ((Spec.unsignedResult w (Spec.parse t base)).1, (Spec.unsignedResult w (Spec.parse t base)).2,
        Spec.unsignedErr w (Spec.parse t base)) := by
  unfold strtouqE
  rw [strtoull_value_end_errno w t base hb]
  simp only [Option.map_some]
  have h1 := unsignedResult_lt w (Spec.parse t base)
  have h2 : (2 : Nat) ^ w ≤ 2 ^ 64 := Nat.pow_le_pow_right (by omega) h64
  rw [Nat.mod_eq_of_lt (by omega)]

/-- atoll = `strtoll(nptr, 0, 10)` (compat/libc/include/stdlib.h): unlike
atol/atoi it is defined for EVERY text — the decimal value clamped to the range -/
theorem atoll_value (w : Nat) (hw : 0 < w) (t : List Byte) :
    atoll w (t ++ [0]) = some (Spec.signedResult w (Spec.parse t 10)).1 := by
  unfold atoll
  rw [strtoll_value_end w hw t 10 (Or.inr ⟨by omega, by omega⟩)]
  rfl

/-! ## Extension: upper_bound / lower_bound (bsearch.c, after 4b0cc1f / 4849c5e)

stdlib.h: lower_bound "Find the smallest element, greater or equals to
specified", upper_bound "… strictly greater than specified".  Result = element
index, `nmemb` = the one-past-the-end pointer.  `= some r` says: no access
outside the array (the comparator is only called on elements `a[i]`, `i < nmemb`,
as `cmp key element`), and the loop terminates. -/

/-- upper_bound on an array laid out as ISO 7.22.5.1 ¶2 requires for this key:
every element before the result is not greater than the key, every element from
the result on is greater -/
theorem upper_bound_spec {κ α : Type} (cmp : κ → α → Int) (key : κ) (a : List α) (hp : PartitionedBy cmp key a) :
    ∃ r, upperBound cmp key a = some r ∧ r ≤ a.length ∧
      (∀ i (h : i < a.length), i < r → 0 ≤ cmp key a[i]) ∧ (∀ i (h : i < a.length), r ≤ i → cmp key a[i] < 0) :=
  upperBound_spec cmp key a hp

/-- lower_bound: every element before the result is less than the key, every
element from the result on is not less -/
theorem lower_bound_spec {κ α : Type} (cmp : κ → α → Int) (key : κ) (a : List α) (hp : PartitionedBy cmp key a) :
    ∃ r, lowerBound cmp key a = some r ∧ r ≤ a.length ∧
      (∀ i (h : i < a.length), i < r → 0 < cmp key a[i]) ∧ (∀ i (h : i < a.length), r ≤ i → cmp key a[i] ≤ 0) :=
  lowerBound_spec cmp key a hp

/-- the positions are their specification: the FIRST element greater than the
key / the FIRST element not less than the key (`nmemb` when there is none) -/
theorem upper_bound_is_first_greater {κ α : Type} (cmp : κ → α → Int) (key : κ) (a : List α) (hp : PartitionedBy cmp key a) :
    upperBound cmp key a = some (Spec.firstIdx (fun x => decide (cmp key x < 0)) a) := by
  obtain ⟨r, hr, hle, h1, h2⟩ := upperBound_spec cmp key a hp
  rw [hr, firstIdx_eq _ a r hle]
  · intro i hi hlt; have := h1 i hi hlt; simp only [decide_eq_false_iff_not]; omega
  · intro i hi hge; simpa using h2 i hi hge

theorem lower_bound_is_first_not_less {κ α : Type} (cmp : κ → α → Int) (key : κ) (a : List α) (hp : PartitionedBy cmp key a) :
    lowerBound cmp key a = some (Spec.firstIdx (fun x => decide (cmp key x ≤ 0)) a) := by
  obtain ⟨r, hr, hle, h1, h2⟩ := lowerBound_spec cmp key a hp
  rw [hr, firstIdx_eq _ a r hle]
  · intro i hi hlt; have := h1 i hi hlt; simp only [decide_eq_false_iff_not]; omega
  · intro i hi hge; simpa using h2 i hi hge

/-- the two bounds bracket exactly the elements comparing equal, and bsearch
answers from inside the bracket: found iff `lower < upper` -/
theorem bounds_bracket_equal_range {κ α : Type} (cmp : κ → α → Int) (key : κ) (a : List α) (hp : PartitionedBy cmp key a) :
    ∃ lo hi r, lowerBound cmp key a = some lo ∧ upperBound cmp key a = some hi ∧ bsearch cmp key a = some r ∧
      lo ≤ hi ∧ hi ≤ a.length ∧
      (∀ i (h : i < a.length), (lo ≤ i ∧ i < hi) ↔ cmp key a[i] = 0) ∧
      (r = none ↔ lo = hi) ∧ (∀ i, r = some i → lo ≤ i ∧ i < hi) := by
  obtain ⟨lo, hlo, hlon, l1, l2⟩ := lowerBound_spec cmp key a hp
  obtain ⟨hi, hhi, hhin, u1, u2⟩ := upperBound_spec cmp key a hp
  obtain ⟨r, hr, r1, r2⟩ := bsearch_spec cmp key a hp
  have hlohi : lo ≤ hi := by
    apply Classical.byContradiction
    intro hn
    have hlt : hi < a.length := by omega
    have := l1 hi hlt (by omega)
    have := u2 hi hlt (Nat.le_refl _)
    omega
  have hiff : ∀ i (h : i < a.length), (lo ≤ i ∧ i < hi) ↔ cmp key a[i] = 0 := by
    intro i h
    constructor
    · rintro ⟨h1, h2⟩
      have := l2 i h h1
      have := u1 i h h2
      omega
    · intro h0
      constructor
      · apply Classical.byContradiction; intro hn; have := l1 i h (by omega); omega
      · apply Classical.byContradiction; intro hn; have := u2 i h (by omega); omega
  refine ⟨lo, hi, r, hlo, hhi, hr, hlohi, hhin, hiff, ?_, ?_⟩
  · constructor
    · intro hnone
      apply Classical.byContradiction
      intro hne
      have hlt : lo < a.length := by omega
      exact r2 hnone lo hlt ((hiff lo hlt).1 ⟨Nat.le_refl _, by omega⟩)
    · intro heq
      cases r with
      | none => rfl
      | some i =>
        obtain ⟨hi', h0⟩ := r1 i rfl
        have := (hiff i hi').2 h0
        omega
  · intro i hri
    obtain ⟨hi', h0⟩ := r1 i hri
    exact (hiff i hi').2 h0

/-- the usual situation: one type, array sorted by a consistent comparator -/
theorem bounds_sorted {α : Type} (cmp : α → α → Int) (hc : Consistent cmp) (key : α) (a : List α) (hs : Sorted cmp a) :
    lowerBound cmp key a = some (Spec.firstIdx (fun x => decide (cmp key x ≤ 0)) a) ∧
    upperBound cmp key a = some (Spec.firstIdx (fun x => decide (cmp key x < 0)) a) :=
  ⟨lower_bound_is_first_not_less cmp key a (partitioned_of_sorted cmp hc a hs key),
   upper_bound_is_first_greater cmp key a (partitioned_of_sorted cmp hc a hs key)⟩

/-- nmemb = 0: `base` is returned and nothing is read -/
theorem bounds_empty {κ α : Type} (cmp : κ → α → Int) (key : κ) :
    upperBound cmp key ([] : List α) = some 0 ∧ lowerBound cmp key ([] : List α) = some 0 := ⟨rfl, rfl⟩

/-- nmemb = 1: one comparison decides between `base` and `base + size` -/
theorem bounds_singleton {κ α : Type} (cmp : κ → α → Int) (key : κ) (x : α) :
    upperBound cmp key [x] = some (if cmp key x < 0 then 0 else 1) ∧
    lowerBound cmp key [x] = some (if cmp key x ≤ 0 then 0 else 1) := by
  constructor
  · by_cases h : cmp key x < 0 <;> simp [upperBound, bndLoop, h]
  · by_cases h : cmp key x ≤ 0 <;> simp [lowerBound, bndLoop, h]

-- duplicates, key present / absent / below all / above all (the last two are the inputs of the repaired defects)
example : lowerBound (fun (k e : Int) => k - e) 3 [1, 3, 3, 5, 7] = some 1 ∧ upperBound (fun (k e : Int) => k - e) 3 [1, 3, 3, 5, 7] = some 3 := by decide
example : lowerBound (fun (k e : Int) => k - e) 4 [1, 3, 3, 5, 7] = some 3 ∧ upperBound (fun (k e : Int) => k - e) 4 [1, 3, 3, 5, 7] = some 3 := by decide
example : upperBound (fun (k e : Int) => k - e) 0 [1, 3, 3, 5, 7] = some 0 ∧ lowerBound (fun (k e : Int) => k - e) 9 [1, 3, 3, 5, 7] = some 5 := by decide
example : Spec.firstIdx (fun x : Int => decide (3 - x < 0)) [1, 3, 3, 5, 7] = 3 := by decide

/-! ## Extension: qsort — recursion depth, element size -/

/-- Termination with an explicit bound: one unit of fuel is consumed per NESTED
call, so `fuel` bounds the recursion depth; every fuel above `nmemb` suffices.
The recursion of qsort.c is therefore never deeper than `nmemb + 1` frames
(each holding two VLAs of `size` bytes) — and the bound is reached: a pivot
stream that always picks an extreme element peels one element per level. -/
theorem qsort_recursion_depth {α : Type} (cmp : α → α → Int) (hirr : ∀ x, ¬ cmp x x < 0) (rs : List Int) (a : List α)
    (fuel : Nat) (hf : a.length < fuel) :
    ∃ out rs', qsortF cmp fuel rs a = some (out, rs') ∧ out.Perm a := by
  obtain ⟨out, rs', h, hp, _⟩ := qsortF_spec cmp hirr fuel rs a hf
  exact ⟨out, rs', h, hp⟩

/-- An element index `i < nmemb` is the byte range `[i*size, i*size + size)`
inside `[0, nmemb*size)`: the model gives every access as such an index (a
fault otherwise), so for every element size the bytes touched by qsort,
bsearch, upper_bound and lower_bound lie inside the array. -/
theorem element_bytes_in_array (nmemb size i : Nat) (hi : i < nmemb) : i * size + size ≤ nmemb * size := by
  have : (i + 1) * size ≤ nmemb * size := Nat.mul_le_mul_right size hi
  rw [Nat.add_mul, Nat.one_mul] at this
  exact this

-- depth is really linear for an adversarial pivot stream: 8 distinct elements with fuel 4 run out of fuel, fuel 9 does not
example : qsortF (fun a b : Int => a - b) 3 [0, 0, 0, 0, 0, 0, 0, 0] [0, 1, 2, 3, 4, 5, 6, 7] = none := by decide
example : (qsortF (fun a b : Int => a - b) 9 [0, 0, 0, 0, 0, 0, 0, 0] [0, 1, 2, 3, 4, 5, 6, 7]).map (·.1) = some [0, 1, 2, 3, 4, 5, 6, 7] := by decide

/-! ## Extension: qsort on BYTES, for every element size ≥ 1

`qsortB` (ModelBytes.lean) is qsort.c on the `nmemb * size` bytes it is given:
pointers are byte offsets, `swap` is three `memcpy`s through `char temp[size]`,
the pivot is copied into `char key[size]`, a recursive call gets exactly the
bytes of its sub-array; a `memcpy` or comparator argument that is not
completely inside those bytes is a fault.  The comparator sees the `size`
bytes of an element (so it may look at a key subfield only). -/

/-- the byte-level function IS the element-level model on the `size`-byte
chunks: same result, same faults, same consumption of the pivot stream — for
every comparator (also inconsistent ones), every size ≥ 1, every array -/
theorem qsort_bytes_refines (size : Nat) (hs : 0 < size) (cmp : List Byte → List Byte → Int) (rs : List Int)
    (a : List (List Byte)) (hu : Uniform size a) :
    qsortB cmp size rs a.flatten = (qsort cmp rs a).map fun r => (r.1.flatten, r.2) := by
  unfold qsortB qsort
  rw [flatten_div hs a hu]
  exact qsortFB_refines cmp hs _ rs a hu

/-- qsort on ANY array of `nmemb * size` bytes, `size ≥ 1`: it terminates, no
byte outside `[base, base + nmemb*size)` is read or written (no fault, although
exactly these bytes are mapped), the result has the same length and its
elements are a permutation of the input's elements — for every pivot stream and
every comparator that never says `x < x` -/
theorem qsort_bytes_perm (size : Nat) (hs : 0 < size) (cmp : List Byte → List Byte → Int) (hirr : ∀ x, ¬ cmp x x < 0)
    (rs : List Int) (nmemb : Nat) (mem : List Byte) (hlen : mem.length = nmemb * size) :
    ∃ a out rs', Uniform size a ∧ a.length = nmemb ∧ a.flatten = mem ∧
      qsortB cmp size rs mem = some (out.flatten, rs') ∧ Uniform size out ∧ out.Perm a ∧
      out.flatten.length = mem.length := by
  obtain ⟨a, hu, hn, hf⟩ := exists_chunks hs nmemb mem hlen
  obtain ⟨out, rs', hq, hp⟩ := qsort_perm cmp hirr rs a
  refine ⟨a, out, rs', hu, hn, hf, ?_, hu.perm hp, hp, ?_⟩
  · rw [← hf, qsort_bytes_refines size hs cmp rs a hu, hq]; rfl
  · rw [flatten_length out (hu.perm hp), hp.length_eq, hn, hlen]

/-- … and ordered by the comparator, for every consistent comparator (total
preorder on element contents, e.g. the order of a key subfield) -/
theorem qsort_bytes_sorted (size : Nat) (hs : 0 < size) (cmp : List Byte → List Byte → Int) (hc : Consistent cmp)
    (rs : List Int) (nmemb : Nat) (mem : List Byte) (hlen : mem.length = nmemb * size) :
    ∃ a out rs', Uniform size a ∧ a.length = nmemb ∧ a.flatten = mem ∧
      qsortB cmp size rs mem = some (out.flatten, rs') ∧ Uniform size out ∧ out.Perm a ∧ Sorted cmp out := by
  obtain ⟨a, hu, hn, hf⟩ := exists_chunks hs nmemb mem hlen
  obtain ⟨out, rs', hq, hp, hsrt⟩ := qsort_sorted cmp hc rs a
  refine ⟨a, out, rs', hu, hn, hf, ?_, hu.perm hp, hp, hsrt⟩
  rw [← hf, qsort_bytes_refines size hs cmp rs a hu, hq]; rfl

/-- the primitives: a comparator argument / `memcpy` source at byte offset
`i * size` is element `i`, and a fault exactly when `i ≥ nmemb`; `swap` on the
bytes exchanges the two elements (also `swap(p, p)`) -/
theorem qsort_bytes_primitives (size : Nat) (hs : 0 < size) (a : List (List Byte)) (hu : Uniform size a) (i j : Nat) :
    elemAt size a.flatten (i * size) = a[i]? ∧
    swapB size a.flatten (i * size) (j * size) = (swapAt a i j).map List.flatten :=
  ⟨elemAt_flatten hs a hu i, swapB_flatten hs a hu i j⟩

-- a comparator on a key subfield (the first byte) is consistent; a run on 3-byte elements
example : Consistent (fun x y : List Byte => ((x.headD 0).toNat : Int) - (y.headD 0).toNat) :=
  ⟨by intro a b; omega, by intro a b c; omega⟩
example : (qsortB (fun x y : List Byte => ((x.headD 0).toNat : Int) - (y.headD 0).toNat) 3 [2, 0]
    [3, 0xa, 0xb, 1, 0xc, 0xd, 2, 0xe, 0xf, 1, 0x1, 0x2, 0, 0x3, 0x4]).map (·.1) =
    some [0, 0x3, 0x4, 1, 0xc, 0xd, 1, 0x1, 0x2, 2, 0xe, 0xf, 3, 0xa, 0xb] := by decide
-- an element that is not completely inside the bytes given is a fault: element 1 of a 3-byte array of 2-byte elements,
-- a swap with it, and a `memcpy` over the end
example : elemAt 2 [3, 0, 2] 2 = none ∧ swapB 2 [3, 0, 2] 0 2 = none ∧ blit [3, 0, 2] 2 [7, 7] = none := by decide

/-! ## Extension: bsearch / upper_bound / lower_bound on BYTES

The same for bsearch.c: `left`, `right`, `mid` as byte offsets with the C
expression `mid = left + ((right - left) / (size << 1) * size)`; every
comparator argument must be `size` bytes completely inside the array. -/

/-- bsearch on the bytes of an array laid out as ISO requires: no access
outside `[base, base + nmemb*size)`, the returned pointer is `base + i*size` of
an element comparing equal, NULL iff there is none — for every `size ≥ 1` -/
theorem bsearch_bytes_iff {κ : Type} (size : Nat) (hs : 0 < size) (cmp : κ → List Byte → Int) (key : κ)
    (a : List (List Byte)) (hu : Uniform size a) (hp : PartitionedBy cmp key a) :
    ∃ r, bsearchB cmp key size a.flatten a.length = some r ∧
      (∀ p, r = some p → ∃ i, ∃ h : i < a.length, p = i * size ∧ cmp key a[i] = 0) ∧
      (r = none → ∀ i (h : i < a.length), cmp key a[i] ≠ 0) := by
  obtain ⟨r, hr, h1, h2⟩ := bsearch_iff cmp key a hp
  refine ⟨r.map (· * size), ?_, ?_, ?_⟩
  · rw [bsearchB_refines cmp key hs a hu, hr]; rfl
  · intro p hp'
    cases r with
    | none => cases hp'
    | some i =>
      simp only [Option.map_some, Option.some.injEq] at hp'
      obtain ⟨hi, h0⟩ := h1 i rfl
      exact ⟨i, hi, hp'.symm, h0⟩
  · intro hn
    cases r with
    | none => exact h2 rfl
    | some i => cases hn

/-- upper_bound / lower_bound on bytes return `base + size * (first index …)` -/
theorem bounds_bytes {κ : Type} (size : Nat) (hs : 0 < size) (cmp : κ → List Byte → Int) (key : κ)
    (a : List (List Byte)) (hu : Uniform size a) (hp : PartitionedBy cmp key a) :
    upperBoundB cmp key size a.flatten a.length = some (Spec.firstIdx (fun x => decide (cmp key x < 0)) a * size) ∧
    lowerBoundB cmp key size a.flatten a.length = some (Spec.firstIdx (fun x => decide (cmp key x ≤ 0)) a * size) := by
  obtain ⟨h1, h2⟩ := boundsB_refine cmp key hs a hu
  rw [h1, h2, upper_bound_is_first_greater cmp key a hp, lower_bound_is_first_not_less cmp key a hp]
  exact ⟨rfl, rfl⟩

-- 3-byte elements ordered by their first byte, a 1-byte key: found at byte offset 6, bounds at 3 and 9
example : bsearchB (fun (k : Nat) (e : List Byte) => (k : Int) - (e.headD 0).toNat) 3 3 [1, 9, 9, 3, 8, 8, 3, 7, 7, 5, 6, 6] 4 = some (some 6)
    ∧ lowerBoundB (fun (k : Nat) (e : List Byte) => (k : Int) - (e.headD 0).toNat) 3 3 [1, 9, 9, 3, 8, 8, 3, 7, 7, 5, 6, 6] 4 = some 3
    ∧ upperBoundB (fun (k : Nat) (e : List Byte) => (k : Int) - (e.headD 0).toNat) 3 3 [1, 9, 9, 3, 8, 8, 3, 7, 7, 5, 6, 6] 4 = some 9 := by decide

/-! ## Extension: atol / atoi / atoll outside the representable range -/

/-- atol is defined by the code exactly where ISO defines it: the decimal value
when it is representable in `long`, and signed overflow (a fault of the model,
undefined behaviour of the C code — UBSan aborts) for every other text.  ISO
7.22.1.2 leaves that case undefined, so this is not a violation; callers that
need clamping have `strtol` / `atoll` (`atoll_value`: defined for every text). -/
theorem atol_defined_iff_representable (w : Nat) (hw : 0 < w) (t : List Byte) :
    atol w (t ++ [0]) =
      if -((2 : Int) ^ (w - 1)) ≤ Spec.decimalValue t ∧ Spec.decimalValue t ≤ (2 : Int) ^ (w - 1) - 1
      then some (Spec.decimalValue t) else none := by
  by_cases h : -((2 : Int) ^ (w - 1)) ≤ Spec.decimalValue t ∧ Spec.decimalValue t ≤ (2 : Int) ^ (w - 1) - 1
  · rw [if_pos h]; exact atol_value w hw t h
  · rw [if_neg h]; exact atol_overflow w hw t h

/-- atoi = `(int) atol`: inside `long` but outside `int` the low `wi` bits of the
value (implementation-defined conversion, what gcc and glibc's atoi do);
outside `long` the fault of atol -/
theorem atoi_truncates (wl wi : Nat) (hwl : 0 < wl) (t : List Byte) :
    atoi wl wi (t ++ [0]) =
      if -((2 : Int) ^ (wl - 1)) ≤ Spec.decimalValue t ∧ Spec.decimalValue t ≤ (2 : Int) ^ (wl - 1) - 1
      then some (asSigned wi ((Spec.decimalValue t % 2 ^ wi).toNat)) else none := by
  unfold atoi
  rw [atol_defined_iff_representable wl hwl t]
  split <;> rfl

-- "128" as atol of an 8-bit long: overflow; "200" as atoi of a 16-bit long / 8-bit int: 200 - 256
example : atol 8 ([0x31, 0x32, 0x38] ++ [0]) = none := by decide
example : atoi 16 8 ([0x32, 0x30, 0x30] ++ [0]) = some (-56) := by decide
example : atoll 8 ([0x31, 0x32, 0x38] ++ [0]) = some 127 ∧ atoll 8 ([0x20, 0x2d, 0x39, 0x39, 0x39] ++ [0]) = some (-128) := by decide

/-! ## Extension: safety WITHOUT any hypothesis on the comparator or the array

"never dereferences outside the array" does not depend on the array being laid
out as ISO requires (that is the caller's obligation for the RESULT to mean
something): for every comparator — inconsistent, constant, anything — and every
array the three bisections terminate, read only indices `< nmemb` and return a
pointer into `[base, base + nmemb*size]`. -/

theorem bsearch_safe {κ α : Type} (cmp : κ → α → Int) (key : κ) (a : List α) :
    ∃ r, bsearch cmp key a = some r ∧ ∀ i, r = some i → i < a.length :=
  bsearch_safe' cmp key a

theorem bounds_safe {κ α : Type} (cmp : κ → α → Int) (key : κ) (a : List α) :
    (∃ r, upperBound cmp key a = some r ∧ r ≤ a.length) ∧ (∃ r, lowerBound cmp key a = some r ∧ r ≤ a.length) := by
  constructor
  · obtain ⟨x, hx, _, h2⟩ := bndLoop_safe (fun x => decide (cmp key x < 0)) a (a.length + 1) 0 a.length
      (Nat.zero_le _) (Nat.le_refl _) (by omega)
    exact ⟨x, hx, h2⟩
  · obtain ⟨x, hx, _, h2⟩ := bndLoop_safe (fun x => decide (cmp key x ≤ 0)) a (a.length + 1) 0 a.length
      (Nat.zero_le _) (Nat.le_refl _) (by omega)
    exact ⟨x, hx, h2⟩

/-- … and on bytes, for every element size ≥ 1: no `size`-byte comparator
argument outside `[base, base + nmemb*size)`, the returned pointer is
`base + i*size` with `i < nmemb` (bsearch) resp. `i ≤ nmemb` (bounds) -/
theorem bisections_bytes_safe {κ : Type} (size : Nat) (hs : 0 < size) (cmp : κ → List Byte → Int) (key : κ)
    (a : List (List Byte)) (hu : Uniform size a) :
    (∃ r, bsearchB cmp key size a.flatten a.length = some r ∧ ∀ p, r = some p → ∃ i, i < a.length ∧ p = i * size) ∧
    (∃ i, upperBoundB cmp key size a.flatten a.length = some (i * size) ∧ i ≤ a.length) ∧
    (∃ i, lowerBoundB cmp key size a.flatten a.length = some (i * size) ∧ i ≤ a.length) := by
  obtain ⟨r, hr, hin⟩ := bsearch_safe cmp key a
  obtain ⟨⟨u, hu', hul⟩, ⟨l, hl', hll⟩⟩ := bounds_safe cmp key a
  obtain ⟨b1, b2⟩ := boundsB_refine cmp key hs a hu
  refine ⟨⟨r.map (· * size), ?_, ?_⟩, ⟨u, ?_, hul⟩, ⟨l, ?_, hll⟩⟩
  · rw [bsearchB_refines cmp key hs a hu, hr]; rfl
  · intro p hp
    cases r with
    | none => cases hp
    | some i =>
      simp only [Option.map_some, Option.some.injEq] at hp
      exact ⟨i, hin i rfl, hp.symm⟩
  · rw [b1, hu']; rfl
  · rw [b2, hl']; rfl

-- an unordered array and a nonsense comparator: still inside the array
example : bsearch (fun (k : Int) (e : Int) => if e % 2 = 0 then -1 else k - e) 3 [5, 3, 8, 1, 3, 0, 9] = some (some 4) := by decide

/-- `strto_accumulator_never_wraps` for EVERY step of EVERY run (not only the
final state): after any digit string the loop state is flagged (`any = -1`) or
`acc ≤ limit`, and whenever the cutoff/cutlim test admits the next digit `d`,
`acc * base + d ≤ limit < 2^w`: the unsigned multiplication and addition of the
code never wrap -/
theorem strto_no_step_wraps (W b limit : Nat) (ovf : Option Nat) (hb : 0 < b) (hW : limit < W)
    (ds : List Nat) (hds : ∀ d ∈ ds, d < b) (d : Nat) (hd : d < b) :
    let st := ds.foldl (fun st (d : Nat) => stepU W b (limit / b) ((limit % b : Nat) : Int) ovf st (d : Int)) (0, 0)
    st.2 = -1 ∨ (st.1 ≤ limit ∧
      (¬ (st.1 > limit / b ∨ (st.1 = limit / b ∧ (d : Int) > ((limit % b : Nat) : Int))) → st.1 * b + d < W)) := by
  intro st
  rcases stepU_never_wraps W b limit ovf hb hW ds hds d hd st rfl with h | ⟨h1, h2⟩
  · left; exact h
  · right; exact ⟨h1, fun hno => by have := h2 hno; omega⟩

/-! ## Extension round 3

rand.c, the uniqueness that makes the canonical observable of the correspondence
sound, and which element the literal bsearch returns. -/

/-- rand.c is the linear congruential generator its header announces:
`x' = ((x * 16546134871 + 513585871) mod 2^32) mod 204814687`, result `x' / 2` —
for EVERY state `x`; the result lies in `[0, 102407343]`, so inside
`[0, RAND_MAX]` (`RAND_MAX = INT_MAX` in compat/libc/include/stdlib.h), and the
`(int)` conversion never sees a negative number. -/
theorem rand_is_lcg (x : Nat) :
    randSeed x = (x * 16546134871 + 513585871) % 2 ^ 32 % 204814687 ∧
    randOut (randSeed x) = ((randSeed x / 2 : Nat) : Int) ∧
    0 ≤ randOut (randSeed x) ∧ randOut (randSeed x) ≤ 102407343 ∧ randOut (randSeed x) ≤ 2 ^ 31 - 1 := by
  have hlt := randSeed_lt x
  have ho := randOut_of_lt (randSeed x) (by omega)
  refine ⟨randSeed_formula x, ho, ?_, ?_, ?_⟩ <;> rw [ho] <;> omega

/-- the width of `static unsigned long seed` does not matter: bits 32 and above of
the state never influence the next state (the `(unsigned int)` cast), so a
target with a 32-bit `unsigned long` produces the same sequence; and after the
first call the state is below the modulus for good -/
theorem rand_state_width_irrelevant (x k : Nat) :
    randSeed (x + k * 2 ^ 32) = randSeed x ∧ randSeed x < 204814687 :=
  ⟨randSeed_high_bits x k, randSeed_lt x⟩

/-- `rand_r(&s)` is one step of the same generator on the caller's `unsigned int`:
the value `rand()` would return after `srand(s)`, the new `*seedp` below the modulus -/
theorem rand_r_is_rand_step (s : Nat) :
    [(randR s).2] = randStream 1 (s % 2 ^ 32) ∧ (randR s).1 < 204814687 ∧ randR (s + 2 ^ 32) = randR s := by
  refine ⟨rfl, randSeed_lt _, ?_⟩
  unfold randR
  rw [Nat.add_mod_right]

example : randStream 3 randInit = [30021663, 54139618, 75880662] := by decide

/-- The ordered key sequence is UNIQUE: when the comparator orders the elements by
an integer key (any sign-compatible comparator: `a - b`, `±1`, `INT_MIN/INT_MAX`),
the keys of qsort's output are the merge-sorted keys of the input - for every
pivot stream.  Only the arrangement of elements with equal keys is left open; that
is what the canonical form of the correspondence (`canonRuns`) abstracts from, and
why the driver may print `mergeSort` of the keys for arrays too long to execute. -/
theorem qsort_keys_unique {α : Type} (key : α → Int) (cmp : α → α → Int)
    (hk : ∀ x y, (cmp x y < 0 ↔ key x < key y) ∧ (0 < cmp x y ↔ key y < key x)) (rs : List Int) (a : List α) :
    ∃ out rs', qsort cmp rs a = some (out, rs') ∧
      out.map key = (a.map key).mergeSort (fun x y => decide (x ≤ y)) := by
  have hc : Consistent cmp := by
    constructor
    · intro a b; rw [(hk a b).1, (hk b a).2]
    · intro a b c h1 h2
      have := (hk a b).2; have := (hk b c).2; have := (hk a c).2
      omega
  obtain ⟨out, rs', h, hp, hs⟩ := qsort_sorted cmp hc rs a
  refine ⟨out, rs', h, sorted_keys_unique key cmp ?_ out a hp hs⟩
  intro x y
  have := (hk x y).2
  omega

/-- hence the pivots (the state of `rand()`) have no influence on the keys -/
theorem qsort_keys_pivot_independent {α : Type} (key : α → Int) (cmp : α → α → Int)
    (hk : ∀ x y, (cmp x y < 0 ↔ key x < key y) ∧ (0 < cmp x y ↔ key y < key x)) (rs₁ rs₂ : List Int) (a : List α) :
    ((qsort cmp rs₁ a).map fun r => r.1.map key) = ((qsort cmp rs₂ a).map fun r => r.1.map key) := by
  obtain ⟨o1, r1, h1, e1⟩ := qsort_keys_unique key cmp hk rs₁ a
  obtain ⟨o2, r2, h2, e2⟩ := qsort_keys_unique key cmp hk rs₂ a
  rw [h1, h2]
  simp only [Option.map_some, e1, e2]

example : ∀ x y : Int × Nat, ((fun a b : Int × Nat => a.1 - b.1) x y < 0 ↔ x.1 < y.1) ∧
    (0 < (fun a b : Int × Nat => a.1 - b.1) x y ↔ y.1 < x.1) := by intro x y; constructor <;> constructor <;> intro h <;> simp only at * <;> omega
-- two pivot streams: the same keys, a different arrangement of the equal elements
example : (qsort (fun a b : Int × Nat => a.1 - b.1) [0] [(0, 0), (1, 1), (0, 2), (0, 3)]).map (·.1) = some [(0, 3), (0, 2), (0, 0), (1, 1)] ∧
    (qsort (fun a b : Int × Nat => a.1 - b.1) [1] [(0, 0), (1, 1), (0, 2), (0, 3)]).map (·.1) = some [(0, 0), (0, 3), (0, 2), (1, 1)] := by decide

/-- WHICH of several equal elements: the bisection of bsearch.c never stops on
equality and moves `left` on "key >= *mid", so it returns the LAST element of the
run of equal elements, i.e. the one just before `upper_bound`.  (True of the code
as it is; ISO and the property leave the choice open, so the correspondence
compares only the run - `equalRun` - that contains the returned element.) -/
theorem bsearch_returns_last_equal {κ α : Type} (cmp : κ → α → Int) (key : κ) (a : List α)
    (hp : PartitionedBy cmp key a) (i : Nat) (h : bsearch cmp key a = some (some i)) :
    upperBound cmp key a = some (i + 1) ∧ ∀ k (hk : k < a.length), i < k → cmp key a[k] ≠ 0 := by
  have hlast := bsearch_last cmp key a hp i h
  obtain ⟨r, hr, hr1, _⟩ := bsearch_iff cmp key a hp
  rw [h] at hr
  cases hr
  obtain ⟨hi, h0⟩ := hr1 i rfl
  refine ⟨?_, fun k hk hik => by have := hlast k hk hik; omega⟩
  rw [upper_bound_is_first_greater cmp key a hp, firstIdx_eq _ a (i + 1) (by omega)]
  · intro j hj hlt
    simp only [decide_eq_false_iff_not]
    intro hneg
    have := (hp j i (by omega) hi).1 hneg
    omega
  · intro j hj hge
    simpa using hlast j hj (by omega)

example : bsearch (fun (k : Int) (e : Int) => k - e) 3 [1, 3, 3, 3, 7] = some (some 3) ∧
    upperBound (fun (k : Int) (e : Int) => k - e) 3 [1, 3, 3, 3, 7] = some 4 ∧
    equalRun (fun (k : Int) (e : Int) => k - e) 3 [1, 3, 3, 3, 7] 2 = (1, 3) := by decide

/-- Soundness of the canonical bsearch observable: on an array laid out as ISO
requires, the run of equal elements around ANY element comparing equal to the key
is the bracket `[lower_bound, upper_bound - 1]` - the same for every admissible
answer.  So two correct implementations that return different equal elements
print the same line, and a wrong answer (an element that is not equal) cannot. -/
theorem bsearch_equal_run_canonical {κ α : Type} (cmp : κ → α → Int) (key : κ) (a : List α)
    (hp : PartitionedBy cmp key a) (i : Nat) (hi : i < a.length) (h0 : cmp key a[i] = 0) :
    ∃ lo up, lowerBound cmp key a = some lo ∧ upperBound cmp key a = some up ∧
      equalRun cmp key a i = (lo, up - 1) := by
  obtain ⟨lo, up, r, hlo, hup, _, _, hupn, hiff, _, _⟩ := bounds_bracket_equal_range cmp key a hp
  have hin := (hiff i hi).2 h0
  refine ⟨lo, up, hlo, hup, equalRun_eq cmp key a lo up i hupn hin.1 hin.2 ?_ ?_ ?_⟩
  · intro j hj h1 h2; exact (hiff j hj).1 ⟨h1, h2⟩
  · intro j hj h1 h; have := (hiff j hj).2 h; omega
  · intro j hj h1 h; have := (hiff j hj).2 h; omega

/-- in particular the line does not depend on WHICH equal element was returned -/
theorem bsearch_equal_run_independent {κ α : Type} (cmp : κ → α → Int) (key : κ) (a : List α)
    (hp : PartitionedBy cmp key a) (i j : Nat) (hi : i < a.length) (hj : j < a.length)
    (h0 : cmp key a[i] = 0) (h1 : cmp key a[j] = 0) :
    equalRun cmp key a i = equalRun cmp key a j := by
  obtain ⟨lo, up, hlo, hup, e1⟩ := bsearch_equal_run_canonical cmp key a hp i hi h0
  obtain ⟨lo', up', hlo', hup', e2⟩ := bsearch_equal_run_canonical cmp key a hp j hj h1
  rw [hlo] at hlo'; rw [hup] at hup'
  cases hlo'; cases hup'
  rw [e1, e2]

example : equalRun (fun (k : Int) (e : Int) => k - e) 3 [1, 3, 3, 3, 7] 1 = (1, 3) ∧
    equalRun (fun (k : Int) (e : Int) => k - e) 3 [1, 3, 3, 3, 7] 3 = (1, 3) := by decide

/-- Soundness of the canonical qsort observable, for EVERY consistent comparator
(classes, partial keys, everything-equal included) and every pivot stream: the
canonical form of the model's output (`canonLex`: elements ordered by the
comparator, elements comparing equal ordered by a total order `le` on whole
elements) is the merge sort of the INPUT by that lexicographic order - a list
function of the input alone.  So the pivots, `rand()`, the partition scheme and
the arrangement of equal elements cannot influence the line the driver prints,
and any implementation that leaves a permutation ordered by the comparator
prints the same line. -/
theorem qsort_canonical {α : Type} (cmp : α → α → Int) (hc : Consistent cmp) (le : α → α → Bool)
    (htot : ∀ x y, (le x y || le y x) = true) (htr : ∀ x y z, le x y = true → le y z = true → le x z = true)
    (has : ∀ x y, le x y = true → le y x = true → x = y) (rs : List Int) (a : List α) :
    ∃ out rs', qsort cmp rs a = some (out, rs') ∧ canonLex cmp le out = a.mergeSort (lexLe cmp le) := by
  obtain ⟨out, rs', h, hp, _⟩ := qsort_sorted cmp hc rs a
  exact ⟨out, rs', h, canonLex_perm cmp hc le htot htr has out a hp⟩

/-- … and EVERY permutation of the input has that same canonical form: the line
the driver prints carries the multiset clause; the order clause is judged by the
oracle on the raw output of the real code and by the run structure of the form
the harness computes from it (`canon_runs`: runs of adjacent equal elements) -/
theorem canonical_of_any_permutation {α : Type} (cmp : α → α → Int) (hc : Consistent cmp) (le : α → α → Bool)
    (htot : ∀ x y, (le x y || le y x) = true) (htr : ∀ x y z, le x y = true → le y z = true → le x z = true)
    (has : ∀ x y, le x y = true → le y x = true → x = y) (a out : List α) (hp : out.Perm a) :
    canonLex cmp le out = a.mergeSort (lexLe cmp le) :=
  canonLex_perm cmp hc le htot htr has out a hp

-- a total order `le` exists (the hypotheses are satisfiable)
example : (∀ x y : Int, (decide (x ≤ y) || decide (y ≤ x)) = true) ∧
    (∀ x y z : Int, decide (x ≤ y) = true → decide (y ≤ z) = true → decide (x ≤ z) = true) ∧
    (∀ x y : Int, decide (x ≤ y) = true → decide (y ≤ x) = true → x = y) := by
  refine ⟨?_, ?_, ?_⟩
  · intro x y; simp only [Bool.or_eq_true, decide_eq_true_eq]; omega
  · intro x y z; simp only [decide_eq_true_eq]; omega
  · intro x y; simp only [decide_eq_true_eq]; omega

/-! ## round 3b: re-entrancy - a comparator that itself calls qsort

In C a comparator may call qsort (rows ordered by their sorted contents).  The
model has no state, so a call made from inside a comparator is an independent
call; what has to be said is that such a comparator is a pure function of its two
arguments WHATEVER pivots the inner calls draw (i.e. in whatever state `rand()` is
at that moment: `pick` chooses arbitrary pivot streams per call), and that the
outer call then does what the property says.  That the real code behaves like
this (no shared static between two calls in progress) is what the ops `qsn` /
`bsn` of the correspondence check. -/

/-- the comparator "compare two rows by a function `f` of their SORTED key
sequences", the sorting done by nested calls of the model's qsort with the pivot
streams `pick a b` (a fault of a nested call, which never happens, would give 0) -/
def nestedCmp {β : Type} (f : List Int → List Int → Int) (key : β → Int) (icmp : β → β → Int)
    (pick : List β → List β → List Int × List Int) (a b : List β) : Int :=
  match qsort icmp (pick a b).1 a, qsort icmp (pick a b).2 b with
  | some (oa, _), some (ob, _) => f (oa.map key) (ob.map key)
  | _, _ => 0

/-- … is, for EVERY choice of inner pivot streams, the list function "f of the
merge-sorted keys" (right-hand side without any model function) -/
theorem nested_comparator_is_pure {β : Type} (f : List Int → List Int → Int) (key : β → Int) (icmp : β → β → Int)
    (hk : ∀ x y, (icmp x y < 0 ↔ key x < key y) ∧ (0 < icmp x y ↔ key y < key x))
    (pick : List β → List β → List Int × List Int) (a b : List β) :
    nestedCmp f key icmp pick a b =
      f ((a.map key).mergeSort fun x y => decide (x ≤ y)) ((b.map key).mergeSort fun x y => decide (x ≤ y)) := by
  obtain ⟨oa, ra, ha, ea⟩ := qsort_keys_unique key icmp hk (pick a b).1 a
  obtain ⟨ob, rb, hb, eb⟩ := qsort_keys_unique key icmp hk (pick a b).2 b
  unfold nestedCmp
  rw [ha, hb]
  simp only [ea, eb]

/-- qsort whose comparator calls qsort: for every outer pivot stream, every choice
of inner pivot streams and every `f` that is a consistent order on sorted key
sequences, the outer call terminates without fault and leaves a permutation of the
rows ordered by "f of the sorted contents" - the same statement as for a plain
comparator; the nested calls cannot be seen. -/
theorem qsort_nested_comparator {β : Type} (f : List Int → List Int → Int) (key : β → Int) (icmp : β → β → Int)
    (hk : ∀ x y, (icmp x y < 0 ↔ key x < key y) ∧ (0 < icmp x y ↔ key y < key x))
    (hf : Consistent fun a b : List β =>
      f ((a.map key).mergeSort fun x y => decide (x ≤ y)) ((b.map key).mergeSort fun x y => decide (x ≤ y)))
    (pick : List β → List β → List Int × List Int) (rs : List Int) (rows : List (List β)) :
    ∃ out rs', qsort (nestedCmp f key icmp pick) rs rows = some (out, rs') ∧ out.Perm rows ∧
      Sorted (fun a b : List β =>
        f ((a.map key).mergeSort fun x y => decide (x ≤ y)) ((b.map key).mergeSort fun x y => decide (x ≤ y))) out := by
  have he : nestedCmp f key icmp pick = fun a b : List β =>
      f ((a.map key).mergeSort fun x y => decide (x ≤ y)) ((b.map key).mergeSort fun x y => decide (x ≤ y)) := by
    funext a b; exact nested_comparator_is_pure f key icmp hk pick a b
  rw [he]
  exact qsort_sorted _ hf rs rows

/-- two different choices of inner pivots: the same outer result -/
theorem qsort_nested_pivot_independent {β : Type} (f : List Int → List Int → Int) (key : β → Int) (icmp : β → β → Int)
    (hk : ∀ x y, (icmp x y < 0 ↔ key x < key y) ∧ (0 < icmp x y ↔ key y < key x))
    (pick₁ pick₂ : List β → List β → List Int × List Int) (rs : List Int) (rows : List (List β)) :
    qsort (nestedCmp f key icmp pick₁) rs rows = qsort (nestedCmp f key icmp pick₂) rs rows := by
  have he : nestedCmp f key icmp pick₁ = nestedCmp f key icmp pick₂ := by
    funext a b
    rw [nested_comparator_is_pure f key icmp hk pick₁ a b, nested_comparator_is_pure f key icmp hk pick₂ a b]
  rw [he]

-- the hypotheses are satisfiable: rows of integers ordered by their minimum (= head of the sorted row)
example : Consistent fun a b : List Int =>
    (fun x y : List Int => x.headD 0 - y.headD 0) ((a.map id).mergeSort fun x y => decide (x ≤ y)) ((b.map id).mergeSort fun x y => decide (x ≤ y)) :=
  ⟨by intro a b; simp only []; omega, by intro a b c; simp only []; omega⟩
-- a run: rows ordered by their minimum, the minimum found by a nested qsort with other pivots than the outer call
example : (qsort (nestedCmp (fun x y => x.headD 0 - y.headD 0) id (fun a b : Int => a - b) (fun _ _ => ([2, 0, 1], [1, 1, 0])))
    [3, 0, 1, 2] [[5, 9, 7, 8, 6], [3, 1, 2, 4, 1], [9, 9, 2, 9, 9], [7, 6, 5, 4, 3], [8, 8, 8, 8, 0]]).map (·.1) =
    some [[8, 8, 8, 8, 0], [3, 1, 2, 4, 1], [9, 9, 2, 9, 9], [7, 6, 5, 4, 3], [5, 9, 7, 8, 6]] := by decide

/-! ## round 3b: the period of rand.c's generator (open item of round 3)

`x ↦ ((x·a + c) mod 2^32) mod m` is not a bijection of `[0, m)`, so the sequence has a
tail and a short cycle.  For the state the library starts from (and for `srand(1)`,
`srand(0)`) both are determined here by kernel evaluation; an exhaustive walk of all
204 814 687 states (scratch program, recorded in the notes, not a theorem) finds 15
cycles with 80 816 cyclic states in total, the longest of length 34 436. -/

/-- `n` calls of `rand()`: the state afterwards -/
def randIter : Nat → Nat → Nat
  | 0, x => x
  | n + 1, x => randIter n (randSeed x)

/-- from the initial state, after 8269 calls the sequence of `rand()` repeats with
period (dividing) 34436; same cycle after `srand(1)` (462 calls) and `srand(0)` (2919 calls) -/
theorem rand_eventually_periodic :
    randIter 34436 (randIter 8269 randInit) = randIter 8269 randInit ∧
    randIter 34436 (randIter 462 1) = randIter 462 1 ∧
    randIter 34436 (randIter 2919 0) = randIter 2919 0 := by
  refine ⟨?_, ?_, ?_⟩ <;> decide +kernel

/-- … and 34436 = 2·2·8609 is the exact period: its maximal proper divisors 17218 = 34436/2 and
4 = 34436/8609 are not periods (nor is 8609), and the least period divides every period -/
theorem rand_period_exact :
    randIter 17218 (randIter 8269 randInit) ≠ randIter 8269 randInit ∧
    randIter 8609 (randIter 8269 randInit) ≠ randIter 8269 randInit ∧
    randIter 4 (randIter 8269 randInit) ≠ randIter 8269 randInit := by
  refine ⟨?_, ?_, ?_⟩ <;> decide +kernel

end Igris.C11
