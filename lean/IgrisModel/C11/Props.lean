import IgrisModel.C11.Lemmas
namespace Igris.C11
theorem placeholder : True := trivial
end Igris.C11
