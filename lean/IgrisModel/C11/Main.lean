import IgrisModel.C11.Model
open Igris.Proto Igris.C11

/-- the comparators of harness/C11.cpp (`cmp_keys`), on key bytes -/
def cmpKeys (kind : Nat) (a b : Int) : Int :=
  match kind with
  | 0 => a - b
  | 1 => b - a
  | 2 => if a / 2 < b / 2 then -1 else if a / 2 > b / 2 then 1 else 0
  | 3 => 0
  | _ => if a < b then -2147483648 else if a > b then 2147483647 else 0

def ints? (s : String) : Option (List Int) :=
  if s = "-" then some [] else (s.splitOn ",").mapM fun t => t.toInt?

def hex64 (v : Int) : String := hexOfNat 16 (v % 2 ^ 64).toNat

def errName (e : Nat) : String := if e = ERANGE then "ERANGE" else if e = EINVAL then "EINVAL" else toString e

/-- `n` calls of `rand_r(&seed)` -/
def randRStream : Nat → Nat → List Int
  | 0, _ => []
  | n + 1, seed => let r := randR seed; r.2 :: randRStream n r.1

def stepLine (_ : Unit) (line : String) : Unit × String :=
  let r : Option String :=
    match words line with
    | ["reset"] => some "ok"
    | ["widths"] => some "64 64 64 32"
    | ["st", fn, base, t] => do
        let base ← base.toNat?
        let t ← parseBytes? t
        let mem := t ++ [0#8]
        let sg (r : Option (Int × Nat × Nat)) : String :=
          match r with
          | some (v, e, err) => hex64 v ++ " " ++ toString e ++ " " ++ errName err
          | none => "fault"
        let us (r : Option (Nat × Nat × Nat)) : String :=
          match r with
          | some (v, e, err) => hexOfNat 16 v ++ " " ++ toString e ++ " " ++ errName err
          | none => "fault"
        match fn with
        | "l" => pure (sg (strtolE 64 mem base))
        | "ul" => pure (us (strtoulE 64 mem base))
        | "ll" => pure (sg (strtollE 64 mem base))
        | "ull" => pure (us (strtoullE 64 mem base))
        | "imax" => pure (sg (strtoimaxE 64 mem base))
        | "umax" => pure (us (strtoumaxE 64 mem base))
        | "q" => pure (sg (strtoqE 64 mem base))
        | "uq" => pure (us (strtouqE 64 mem base))
        | _ => none
    | ["at", fn, t] => do
        let t ← parseBytes? t
        let mem := t ++ [0#8]
        match fn with
        | "l" => pure (match atol 64 mem with | some v => hex64 v | none => "fault")
        | "i" => pure (match atoi 64 32 mem with | some v => hexOfNat 8 (v % 2 ^ 32).toNat | none => "fault")
        | "ll" => pure (match atoll 64 mem with | some v => hex64 v | none => "fault")
        | _ => none
    | ["rndr", seed, n] => do
        let seed ← seed.toNat?
        let n ← n.toNat?
        let xs := randRStream n seed
        pure (if xs.isEmpty then "-" else ",".intercalate (xs.map toString))
    | ["rnd", seed, n] => do
        let seed ← seed.toNat?
        let n ← n.toNat?
        let xs := randStream n (seed % 2 ^ 32)
        pure (if xs.isEmpty then "-" else ",".intercalate (xs.map toString))
    | ["qs", esize, kind, seed, keys] => do
        let esize ← esize.toNat?
        let kind ← kind.toNat?
        let seed ← seed.toNat?
        let keys ← ints? keys
        let a : List (Int × Nat) := keys.zipIdx
        let cmp : (Int × Nat) → (Int × Nat) → Int := fun x y => cmpKeys kind x.1 y.1
        match qsort cmp (randStream (a.length + 1) (seed % 2 ^ 32)) a with
        | none => pure "fault"
        | some (out, _) =>
          pure (if out.isEmpty then "-" else
            ",".intercalate (out.map fun e => if esize > 1 then toString e.1 ++ "." ++ toString e.2 else toString e.1))
    | [bd, _, kind, key, keys] => do
        let kind ← kind.toNat?
        let key ← key.toInt?
        let keys ← ints? keys
        match bd with
        | "bs" =>
          match bsearch (cmpKeys kind) key keys with
          | none => pure "fault"
          | some none => pure "null"
          | some (some i) => pure (toString i)
        | "ub" => pure (match upperBound (cmpKeys kind) key keys with | some i => toString i | none => "fault")
        | "lb" => pure (match lowerBound (cmpKeys kind) key keys with | some i => toString i | none => "fault")
        | _ => none
    | _ => none
  ((), r.getD "bad-op")

def main : IO Unit := run () stepLine
