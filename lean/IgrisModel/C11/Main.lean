import IgrisModel.C11.Model
open Igris.Proto Igris.C11

/-- the comparators of harness/C11.cpp (`cmp_keys`), on key bytes -/
def cmpKeys (kind : Nat) (a b : Int) : Int :=
  match kind with
  | 0 => a - b
  | 1 => b - a
  | 2 => if a / 2 < b / 2 then -1 else if a / 2 > b / 2 then 1 else 0
  | 3 => 0
  | _ => if a < b then -2147483648 else if a > b then 2147483647 else 0

def ints? (s : String) : Option (List Int) :=
  if s = "-" then some [] else (s.splitOn ",").mapM fun t => t.toInt?

def hex64 (v : Int) : String := hexOfNat 16 (v % 2 ^ 64).toNat

def stepLine (_ : Unit) (line : String) : Unit × String :=
  let r : Option String :=
    match words line with
    | ["reset"] => some "ok"
    | ["widths"] => some "64 64 64 32"
    | ["st", fn, base, t] => do
        let base ← base.toNat?
        let t ← parseBytes? t
        let mem := t ++ [0#8]
        let sg (r : Option (Int × Nat)) : String :=
          match r with
          | some (v, e) => hex64 v ++ " " ++ toString e
          | none => "fault"
        let us (r : Option (Nat × Nat)) : String :=
          match r with
          | some (v, e) => hexOfNat 16 v ++ " " ++ toString e
          | none => "fault"
        match fn with
        | "l" => pure (sg (strtol 64 mem base))
        | "ul" => pure (us (strtoul 64 mem base))
        | "ll" => pure (sg (strtoll 64 mem base))
        | "ull" => pure (us (strtoull 64 mem base))
        | "imax" => pure (sg (strtoimax 64 mem base))
        | "umax" => pure (us (strtoumax 64 mem base))
        | _ => none
    | ["at", fn, t] => do
        let t ← parseBytes? t
        let mem := t ++ [0#8]
        match fn with
        | "l" => pure (match atol 64 mem with | some v => hex64 v | none => "fault")
        | "i" => pure (match atoi 64 32 mem with | some v => hexOfNat 8 (v % 2 ^ 32).toNat | none => "fault")
        | _ => none
    | ["rnd", seed, n] => do
        let seed ← seed.toNat?
        let n ← n.toNat?
        let xs := randStream n (seed % 2 ^ 32)
        pure (if xs.isEmpty then "-" else ",".intercalate (xs.map toString))
    | ["qs", esize, kind, seed, keys] => do
        let esize ← esize.toNat?
        let kind ← kind.toNat?
        let seed ← seed.toNat?
        let keys ← ints? keys
        let a : List (Int × Nat) := keys.zipIdx
        let cmp : (Int × Nat) → (Int × Nat) → Int := fun x y => cmpKeys kind x.1 y.1
        match qsort cmp (randStream (a.length + 1) (seed % 2 ^ 32)) a with
        | none => pure "fault"
        | some (out, _) =>
          pure (if out.isEmpty then "-" else
            ",".intercalate (out.map fun e => if esize > 1 then toString e.1 ++ "." ++ toString e.2 else toString e.1))
    | ["bs", _, kind, key, keys] => do
        let kind ← kind.toNat?
        let key ← key.toInt?
        let keys ← ints? keys
        match bsearch (cmpKeys kind) key keys with
        | none => pure "fault"
        | some none => pure "null"
        | some (some i) => pure (toString i)
    | _ => none
  ((), r.getD "bad-op")

def main : IO Unit := run () stepLine
