import IgrisModel.C11.Model
open Igris.Proto Igris.C11

/-- the comparators of harness/C11.cpp (`cmp_keys`), on key bytes -/
def cmpKeys (kind : Nat) (a b : Int) : Int :=
  match kind with
  | 0 => a - b
  | 1 => b - a
  | 2 => if a / 2 < b / 2 then -1 else if a / 2 > b / 2 then 1 else 0
  | 3 => 0
  | 5 => a / 16 - b / 16
  | 6 => a % 16 - b % 16
  | _ => if a < b then -2147483648 else if a > b then 2147483647 else 0

def ints? (s : String) : Option (List Int) :=
  if s = "-" then some [] else (s.splitOn ",").mapM fun t => t.toInt?

def hex64 (v : Int) : String := hexOfNat 16 (v % 2 ^ 64).toNat

def errName (e : Nat) : String := if e = ERANGE then "ERANGE" else if e = EINVAL then "EINVAL" else toString e

/-- `n` calls of `rand_r(&seed)` -/
def randRStream : Nat → Nat → List Int
  | 0, _ => []
  | n + 1, seed => let r := randR seed; r.2 :: randRStream n r.1

def pairLe (x y : Int × Nat) : Bool := x.1 < y.1 || (x.1 == y.1 && x.2 ≤ y.2)

def showElems (withIdx : Bool) (out : List (Int × Nat)) : String :=
  if out.isEmpty then "-" else
    ",".intercalate (out.map fun e => if withIdx then toString e.1 ++ "." ++ toString e.2 else toString e.1)

/-- run-length form of a key sequence -/
def rleLine (ks : List Int) : String :=
  if ks.isEmpty then "-" else
    ",".intercalate ((ks.splitBy (· == ·)).map fun g => toString (g.headD 0) ++ "*" ++ toString g.length)

/-- the generated arrays of the op `qsg` (harness: `qsg_key`) -/
def qsgKey (shape i n m seed : Nat) : Int :=
  match shape with
  | 0 => ((((i * 2654435761 + seed * 40503) % 2 ^ 32) / 65536) % m : Nat)
  | 1 => (i * m / n : Nat)
  | 2 => ((n - 1 - i) * m / n : Nat)
  | 3 => 7
  | _ => let d := min i (n - 1 - i); let v := d * 2 * m / n; ((if v ≥ m then m - 1 else v) : Nat)

/-- above this length the driver does not execute `qsort` (quadratic on lists) but prints the
ordered key sequence that `qsort_perm` + `qsort_sorted` (`qsort_keys_unique`) prescribe -/
def qsgModelMax : Nat := 600

def bsShow (kind : Nat) (key : Int) (keys : List Int) : String :=
  match bsearch (cmpKeys kind) key keys with
  | none => "fault"
  | some none => "null"
  | some (some i) => let r := equalRun (cmpKeys kind) key keys i; "found " ++ toString r.1 ++ ".." ++ toString r.2

def ctypeBits (c : Int) : Nat :=
  (if isspace c then 1 else 0) + (if isdigit c then 2 else 0) + (if isalpha c then 4 else 0) +
  (if isupper c then 8 else 0) + (if isxdigit c then 16 else 0)

def premainLine : String :=
  let rs := randStream 16 randInit
  let mem (t : String) : List Byte := t.toUTF8.toList.map (fun b => BitVec.ofNat 8 b.toNat) ++ [0#8]
  let keys : List Int := [5, 1, 4, 1, 5, 9, 2, 6, 5]
  let cmp : (Int × Nat) → (Int × Nat) → Int := fun x y => x.1 - y.1
  let sorted := (qsort cmp (rs.drop 3) keys.zipIdx).map (·.1)
  let bs (key : Int) : String :=
    match sorted with
    | none => "fault"
    | some out =>
      match bsearch (fun (k : Int) (e : Int × Nat) => k - e.1) key out with
      | some (some i) => "found(" ++ toString (out.getD i (0, 0)).1 ++ ")"
      | some none => "null"
      | none => "fault"
  -- round 3c: the values of rand() and its initial state are not part of the compared line (the property
  -- does not fix the generator); the qsort part below is canonical, hence pivot-independent (`qsort_canonical`)
  "rand in-range" ++
  " strtol " ++ (match strtolE 64 (mem " \t-0x7fZ") 0 with | some (v, e, _) => hex64 v ++ " " ++ toString e | none => "fault") ++
  " strtoull " ++ (match strtoullE 64 (mem "18446744073709551616") 10 with
                   | some (v, _, err) => hexOfNat 16 v ++ " " ++ (if err = 0 then "0" else errName err) | none => "fault") ++
  " qsort " ++ (match sorted with | some out => showElems true (canonLex cmp pairLe out) | none => "fault") ++
  " bsearch " ++ bs 5 ++ " " ++ bs 3 ++ " " ++ bs 9

def stRun (fn : String) (base : Nat) (mem : List Byte) : Option String :=
  let sg (r : Option (Int × Nat × Nat)) : String :=
    match r with
    | some (v, e, err) => hex64 v ++ " " ++ toString e ++ " " ++ errName err
    | none => "fault"
  let us (r : Option (Nat × Nat × Nat)) : String :=
    match r with
    | some (v, e, err) => hexOfNat 16 v ++ " " ++ toString e ++ " " ++ errName err
    | none => "fault"
  match fn with
  | "l" => some (sg (strtolE 64 mem base))
  | "ul" => some (us (strtoulE 64 mem base))
  | "ll" => some (sg (strtollE 64 mem base))
  | "ull" => some (us (strtoullE 64 mem base))
  | "imax" => some (sg (strtoimaxE 64 mem base))
  | "umax" => some (us (strtoumaxE 64 mem base))
  | "q" => some (sg (strtoqE 64 mem base))
  | "uq" => some (us (strtouqE 64 mem base))
  | _ => none

/-- the canonical line of one qsort call (ops `qs`, `qsn`) -/
def qsLine (esize kind seed : Nat) (keys : List Int) : String :=
  let a : List (Int × Nat) := keys.zipIdx
  let cmp : (Int × Nat) → (Int × Nat) → Int := fun x y => cmpKeys kind x.1 y.1
  match qsort cmp (randStream (a.length + 1) (seed % 2 ^ 32)) a with
  | none => "fault"
  | some (out, _) =>
    -- round 3b: the harness computes the RUN-based form (`canon_runs` = `canonRuns`), the theorems are about
    -- `canonLex`; that the two agree on the model's (ordered) output is checked here on every op
    let o := out.map fun e => (e.1, if esize > 1 then e.2 else 0)
    let c := canonLex cmp pairLe o
    if c == canonRuns cmp pairLe o then showElems (esize > 1) c else "canonLex-differs-from-canonRuns"

/-- the nested calls of the ops `qsn` / `bsn`: in the model a call made from inside a comparator is an
independent call (the model has no state: `qsort_nested_comparator`), so the line is what the inner
qsort and the strto* call give on their own -/
def nestedLine (iesize : Nat) (ikeys : List Int) (fn : String) (base : Nat) (t : List Byte) : Option String := do
  let st ← stRun fn base (t ++ [0#8])
  pure (" | " ++ qsLine iesize 0 1 ikeys ++ " | " ++ st)

def stepLine (_ : Unit) (line : String) : Unit × String :=
  let r : Option String :=
    match words line with
    | ["reset"] => some "ok"
    | ["widths"] => some "64 64 64 32"
    -- round 3c: rand.c's state width is no longer part of the compared line (harness: a tag)
    | ["consts"] => some ("ERANGE " ++ toString ERANGE ++ " EINVAL " ++ toString EINVAL)
    | ["ctype"] => some (String.join ((List.range 384).map fun (i : Nat) => hexOfNat 2 (ctypeBits (Int.ofNat i - 128))))
    | ["premain", _] => some premainLine
    | ["qsn", esize, kind, seed, _, _, iesize, ikeys, fn, base, t, keys] => do
        let esize ← esize.toNat?
        let kind ← kind.toNat?
        let seed ← seed.toNat?
        let keys ← ints? keys
        let iesize ← iesize.toNat?
        let ikeys ← ints? ikeys
        let base ← base.toNat?
        let t ← parseBytes? t
        let nl ← nestedLine iesize ikeys fn base t
        pure (qsLine esize kind seed keys ++ nl)
    | ["bsn", _, kind, key, _, _, iesize, ikeys, fn, base, t, keys] => do
        let kind ← kind.toNat?
        let key ← key.toInt?
        let keys ← ints? keys
        let iesize ← iesize.toNat?
        let ikeys ← ints? ikeys
        let base ← base.toNat?
        let t ← parseBytes? t
        let nl ← nestedLine iesize ikeys fn base t
        pure (bsShow kind key keys ++ " " ++ (match upperBound (cmpKeys kind) key keys with | some i => toString i | none => "fault") ++ " " ++
          (match lowerBound (cmpKeys kind) key keys with | some i => toString i | none => "fault") ++ nl)
    | ["stx", _, _, _] => some "returns"
    | ["stL", fn, base, pre, unit, count, tail] => do
        let base ← base.toNat?
        let pre ← parseBytes? pre
        let unit ← parseBytes? unit
        let count ← count.toNat?
        let tail ← parseBytes? tail
        stRun fn base (pre ++ (List.replicate count unit).flatten ++ tail ++ [0#8])
    | ["qsg", _, kind, seed, n, shape, m] => do
        let kind ← kind.toNat?
        let seed ← seed.toNat?
        let n ← n.toNat?
        let shape ← shape.toNat?
        let m ← m.toNat?
        let keys : List Int := (List.range n).map fun i => qsgKey shape i n m seed
        let cmpK := cmpKeys kind
        if n ≤ qsgModelMax then
          let cmp : (Int × Nat) → (Int × Nat) → Int := fun x y => cmpK x.1 y.1
          match qsort cmp (randStream (n + 1) (seed % 2 ^ 32)) keys.zipIdx with
          | none => pure "fault"
          | some (out, _) => pure (toString n ++ " " ++ rleLine (canonLex cmpK (fun a b => decide (a ≤ b)) (out.map (·.1))))
        else
          pure (toString n ++ " " ++ rleLine (keys.mergeSort fun a b => cmpK a b < 0 || (cmpK a b == 0 && a ≤ b)))
    | ["atL", fn, pre, unit, count, tail] => do
        let pre ← parseBytes? pre
        let unit ← parseBytes? unit
        let count ← count.toNat?
        let tail ← parseBytes? tail
        let mem := pre ++ (List.replicate count unit).flatten ++ tail ++ [0#8]
        match fn with
        | "l" => pure (match atol 64 mem with | some v => hex64 v | none => "fault")
        | "i" => pure (match atoi 64 32 mem with | some v => hex64 v | none => "fault")
        | "ll" => pure (match atoll 64 mem with | some v => hex64 v | none => "fault")
        | _ => none
    | ["qsr", esize, seed, kinds, keys] => do
        let esize ← esize.toNat?
        let seed ← seed.toNat?
        let kinds ← ints? kinds
        let keys ← ints? keys
        let n := keys.length
        let step (st : Option (List (Int × Nat) × List Int × List String)) (kind : Int) :=
          match st with
          | none => none
          | some (a, rs, acc) =>
            let cmp : (Int × Nat) → (Int × Nat) → Int := fun x y => cmpKeys kind.toNat x.1 y.1
            match qsort cmp rs a with
            | none => none
            | some (out, rs') =>
              some (out, rs', acc ++ [showElems (esize > 1) (canonLex cmp pairLe (out.map fun e => (e.1, if esize > 1 then e.2 else 0)))])
        match kinds.foldl step (some (keys.zipIdx, randStream ((n + 1) * kinds.length) (seed % 2 ^ 32), [])) with
        | none => pure "fault"
        | some (out, _, acc) =>
          let kind := (kinds.getLast?.getD 0).toNat
          let mx := keys.foldl max 0
          let f := if kinds.isEmpty then "" else
            String.join ((List.range (mx + 2).toNat).map fun key =>
              match bsearch (fun (k : Int) (e : Int × Nat) => cmpKeys kind k e.1) (Int.ofNat key) out with
              | some (some _) => "y" | some none => "n" | none => "F")
          pure ("|".intercalate acc ++ " " ++ (if f.isEmpty then "-" else f))
    | ["bsa", _, kind, idx, keys] => do
        let kind ← kind.toNat?
        let idx ← idx.toNat?
        let keys ← ints? keys
        let key ← keys[idx]?
        pure (bsShow kind key keys)
    | ["st", fn, base, t] => do
        let base ← base.toNat?
        let t ← parseBytes? t
        let mem := t ++ [0#8]
        let sg (r : Option (Int × Nat × Nat)) : String :=
          match r with
          | some (v, e, err) => hex64 v ++ " " ++ toString e ++ " " ++ errName err
          | none => "fault"
        let us (r : Option (Nat × Nat × Nat)) : String :=
          match r with
          | some (v, e, err) => hexOfNat 16 v ++ " " ++ toString e ++ " " ++ errName err
          | none => "fault"
        match fn with
        | "l" => pure (sg (strtolE 64 mem base))
        | "ul" => pure (us (strtoulE 64 mem base))
        | "ll" => pure (sg (strtollE 64 mem base))
        | "ull" => pure (us (strtoullE 64 mem base))
        | "imax" => pure (sg (strtoimaxE 64 mem base))
        | "umax" => pure (us (strtoumaxE 64 mem base))
        | "q" => pure (sg (strtoqE 64 mem base))
        | "uq" => pure (us (strtouqE 64 mem base))
        | _ => none
    | ["at", fn, t] => do
        let t ← parseBytes? t
        let mem := t ++ [0#8]
        match fn with
        | "l" => pure (match atol 64 mem with | some v => hex64 v | none => "fault")
        | "i" =>
          -- outside `int` the call is undefined in ISO 7.22.1.2: the value is not part of the observable
          let dv := Spec.decimalValue t
          if dv < -(2 ^ 31) ∨ dv ≥ 2 ^ 31 then pure "unrepresentable"
          else pure (match atoi 64 32 mem with | some v => hexOfNat 8 (v % 2 ^ 32).toNat | none => "fault")
        | "ll" => pure (match atoll 64 mem with | some v => hex64 v | none => "fault")
        | _ => none
    -- round 3c: the property (strto*/ato*, qsort, bsearch) says nothing about the VALUES rand() / rand_r()
    -- return: the ops are judged by the harness alone (range, reproducibility, rand_r touches only *seedp)
    -- and the compared result is a constant word.  The theorems about rand.c (`rand_is_lcg`, ...) stay:
    -- they are about the current code, not compared.
    | ["rndr", seed, n] => do
        let _ ← seed.toNat?
        let _ ← n.toNat?
        pure "rand_r-contract"
    | ["rnd", seed, n] => do
        let _ ← seed.toNat?
        let _ ← n.toNat?
        pure "rand-contract"
    | ["qs", esize, kind, seed, keys] => do
        let esize ← esize.toNat?
        let kind ← kind.toNat?
        let seed ← seed.toNat?
        let keys ← ints? keys
        -- canonical form: the arrangement inside a run of equal elements is not fixed by the property
        pure (qsLine esize kind seed keys)
    | [bd, _, kind, key, keys] => do
        let kind ← kind.toNat?
        let key ← key.toInt?
        let keys ← ints? keys
        match bd with
        | "bs" =>
          pure (bsShow kind key keys)
        | "ub" => pure (match upperBound (cmpKeys kind) key keys with | some i => toString i | none => "fault")
        | "lb" => pure (match lowerBound (cmpKeys kind) key keys with | some i => toString i | none => "fault")
        | _ => none
    | _ => none
  ((), r.getD "bad-op")

def main : IO Unit := run () stepLine
