import IgrisModel.C11.Lemmas
/-! Lemmas of extension round 3: rand.c, uniqueness of the ordered key sequence,
which element bsearch returns. -/
namespace Igris.C11

/-! ### rand.c -/

theorem randSeed_lt (s : Nat) : randSeed s < 204814687 := by
  unfold randSeed; exact Nat.mod_lt _ (by decide)

theorem randSeed_formula (s : Nat) : randSeed s = (s * 16546134871 + 513585871) % 2 ^ 32 % 204814687 := by
  unfold randSeed
  rw [Nat.mod_mod_of_dvd _ (by decide : (2 : Nat) ^ 32 ∣ 2 ^ 64)]

theorem randSeed_high_bits (s k : Nat) : randSeed (s + k * 2 ^ 32) = randSeed s := by
  rw [randSeed_formula, randSeed_formula]
  have : (s + k * 2 ^ 32) * 16546134871 + 513585871 = (s * 16546134871 + 513585871) + 2 ^ 32 * (k * 16546134871) := by
    omega
  rw [this, Nat.add_mul_mod_self_left]

theorem randOut_of_lt (x : Nat) (h : x < 2 ^ 31) : randOut x = ((x / 2 : Nat) : Int) := by
  unfold randOut asSigned
  have h1 : x % 2 ^ 32 = x := Nat.mod_eq_of_lt (by omega)
  rw [h1]
  have h2 : x < 2 ^ (32 - 1) := by simpa using h
  simp only [h2, if_true]
  rw [Int.shiftRight_eq_div_pow]
  norm_cast

/-! ### bsearch: the literal algorithm ends on the LAST element not greater than the key -/

section
variable {κ α : Type}

theorem bsearch_last (cmp : κ → α → Int) (key : κ) (a : List α) (hp : PartitionedBy cmp key a) (i : Nat)
    (h : bsearch cmp key a = some (some i)) :
    ∀ k (hk : k < a.length), i < k → cmp key a[k] < 0 := by
  unfold bsearch at h
  by_cases h0 : a.length = 0
  · simp only [h0, if_true] at h; cases h
  · simp only [h0, if_false] at h
    obtain ⟨l, hl, hrun, hR, hL⟩ := bsLoop_spec cmp key a hp (a.length + 1) 0 a.length (by omega) (by omega) (by omega)
      (by intro k hk hge; omega) (Or.inl rfl)
    rw [hrun] at h
    simp only [List.getElem?_eq_getElem hl] at h
    by_cases he : cmp key a[l] = 0
    · simp only [he, if_true] at h
      have : l = i := by injection h with h; injection h
      subst this
      intro k hk hik
      exact hR k hk (by omega)
    · simp only [he, if_false] at h; cases h

end

/-! ### the ordered key sequence is unique -/

theorem sorted_keys_unique {α : Type} (key : α → Int) (cmp : α → α → Int)
    (hk : ∀ x y, cmp x y ≤ 0 ↔ key x ≤ key y) (out a : List α) (hperm : out.Perm a) (hs : Sorted cmp out) :
    out.map key = (a.map key).mergeSort (fun x y => decide (x ≤ y)) := by
  apply List.Perm.eq_of_pairwise (le := fun x y : Int => x ≤ y)
  · intro x y _ _ h1 h2; omega
  · unfold Sorted at hs
    rw [List.pairwise_map]
    exact hs.imp (fun {x y} h => (hk x y).1 h)
  · have := List.pairwise_mergeSort (le := fun x y : Int => decide (x ≤ y))
      (by intro a b c h1 h2; simp only [decide_eq_true_eq] at *; omega)
      (by intro a b; simp only [Bool.or_eq_true, decide_eq_true_eq]; omega) (a.map key)
    exact this.imp (fun {x y} h => by simpa using h)
  · exact (hperm.map key).trans (List.mergeSort_perm _ _).symm

end Igris.C11
