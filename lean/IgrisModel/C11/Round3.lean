import IgrisModel.C11.Lemmas
import IgrisModel.C11.More
/-! Lemmas of extension round 3: rand.c, uniqueness of the ordered key sequence,
which element bsearch returns. -/
namespace Igris.C11

/-! ### rand.c -/

theorem randSeed_lt (s : Nat) : randSeed s < 204814687 := by
  unfold randSeed; exact Nat.mod_lt _ (by decide)

theorem randSeed_formula (s : Nat) : randSeed s = (s * 16546134871 + 513585871) % 2 ^ 32 % 204814687 := by
  unfold randSeed
  rw [Nat.mod_mod_of_dvd _ (by decide : (2 : Nat) ^ 32 ∣ 2 ^ 64)]

theorem randSeed_high_bits (s k : Nat) : randSeed (s + k * 2 ^ 32) = randSeed s := by
  rw [randSeed_formula, randSeed_formula]
  have : (s + k * 2 ^ 32) * 16546134871 + 513585871 = (s * 16546134871 + 513585871) + 2 ^ 32 * (k * 16546134871) := by
    omega
  rw [this, Nat.add_mul_mod_self_left]

theorem randOut_of_lt (x : Nat) (h : x < 2 ^ 31) : randOut x = ((x / 2 : Nat) : Int) := by
  unfold randOut asSigned
  have h1 : x % 2 ^ 32 = x := Nat.mod_eq_of_lt (by omega)
  rw [h1]
  have h2 : x < 2 ^ (32 - 1) := by simpa using h
  simp only [h2, if_true]
  rw [Int.shiftRight_eq_div_pow]
  norm_cast

/-! ### bsearch: the literal algorithm ends on the LAST element not greater than the key -/

section
variable {κ α : Type}

theorem bsearch_last (cmp : κ → α → Int) (key : κ) (a : List α) (hp : PartitionedBy cmp key a) (i : Nat)
    (h : bsearch cmp key a = some (some i)) :
    ∀ k (hk : k < a.length), i < k → cmp key a[k] < 0 := by
  unfold bsearch at h
  by_cases h0 : a.length = 0
  · simp only [h0, if_true] at h; cases h
  · simp only [h0, if_false] at h
    obtain ⟨l, hl, hrun, hR, hL⟩ := bsLoop_spec cmp key a hp (a.length + 1) 0 a.length (by omega) (by omega) (by omega)
      (by intro k hk hge; omega) (Or.inl rfl)
    rw [hrun] at h
    simp only [List.getElem?_eq_getElem hl] at h
    by_cases he : cmp key a[l] = 0
    · simp only [he, if_true] at h
      have : l = i := by injection h with h; injection h
      subst this
      intro k hk hik
      exact hR k hk (by omega)
    · simp only [he, if_false] at h; cases h

end

/-! ### the ordered key sequence is unique -/

theorem sorted_keys_unique {α : Type} (key : α → Int) (cmp : α → α → Int)
    (hk : ∀ x y, cmp x y ≤ 0 ↔ key x ≤ key y) (out a : List α) (hperm : out.Perm a) (hs : Sorted cmp out) :
    out.map key = (a.map key).mergeSort (fun x y => decide (x ≤ y)) := by
  apply List.Perm.eq_of_pairwise (le := fun x y : Int => x ≤ y)
  · intro x y _ _ h1 h2; omega
  · unfold Sorted at hs
    rw [List.pairwise_map]
    exact hs.imp (fun {x y} h => (hk x y).1 h)
  · have := List.pairwise_mergeSort (le := fun x y : Int => decide (x ≤ y))
      (by intro a b c h1 h2; simp only [decide_eq_true_eq] at *; omega)
      (by intro a b; simp only [Bool.or_eq_true, decide_eq_true_eq]; omega) (a.map key)
    exact this.imp (fun {x y} h => by simpa using h)
  · exact (hperm.map key).trans (List.mergeSort_perm _ _).symm

/-! ### the run of equal elements around ANY equal element is the bracket of the two bounds -/

theorem takeWhile_length_eq {α : Type} (p : α → Bool) : ∀ (l : List α) (k : Nat), k ≤ l.length →
    (∀ j (h : j < l.length), j < k → p l[j] = true) → (∀ j (h : j < l.length), k ≤ j → p l[j] = false) →
    (l.takeWhile p).length = k := by
  intro l
  induction l with
  | nil => intro k hk _ _; simp at hk; simp [hk]
  | cons x xs ih =>
    intro k hk h1 h2
    cases k with
    | zero =>
      have := h2 0 (by simp) (Nat.le_refl _)
      simp only [List.getElem_cons_zero] at this
      simp [this]
    | succ k =>
      have hx := h1 0 (by simp) (by omega)
      simp only [List.getElem_cons_zero] at hx
      simp only [List.takeWhile_cons, hx, if_true, List.length_cons]
      have := ih k (by simpa using hk)
        (by intro j hj hjk; have := h1 (j + 1) (by simpa using hj) (by omega); simpa using this)
        (by intro j hj hjk; have := h2 (j + 1) (by simpa using hj) (by omega); simpa using this)
      omega

theorem equalRun_eq {κ α : Type} (cmp : κ → α → Int) (key : κ) (a : List α) (lo hi i : Nat)
    (hhi : hi ≤ a.length) (hlo : lo ≤ i) (hih : i < hi)
    (hin : ∀ j (h : j < a.length), lo ≤ j → j < hi → cmp key a[j] = 0)
    (hbelow : ∀ j (h : j < a.length), j < lo → cmp key a[j] ≠ 0)
    (habove : ∀ j (h : j < a.length), hi ≤ j → cmp key a[j] ≠ 0) :
    equalRun cmp key a i = (lo, hi - 1) := by
  unfold equalRun
  have h1 : ((a.take i).reverse.takeWhile fun x => cmp key x == 0).length = i - lo := by
    apply takeWhile_length_eq
    · simp only [List.length_reverse, List.length_take]; omega
    · intro j hj hjk
      simp only [List.length_reverse, List.length_take] at hj
      simp only [List.getElem_reverse, List.getElem_take, List.length_take, beq_iff_eq]
      apply hin <;> omega
    · intro j hj hjk
      simp only [List.length_reverse, List.length_take] at hj
      simp only [List.getElem_reverse, List.getElem_take, List.length_take, beq_eq_false_iff_ne]
      apply hbelow; omega
  have h2 : ((a.drop (i + 1)).takeWhile fun x => cmp key x == 0).length = hi - 1 - i := by
    apply takeWhile_length_eq
    · simp only [List.length_drop]; omega
    · intro j hj hjk
      simp only [List.length_drop] at hj
      simp only [List.getElem_drop, beq_iff_eq]
      apply hin <;> omega
    · intro j hj hjk
      simp only [List.length_drop] at hj
      simp only [List.getElem_drop, beq_eq_false_iff_ne]
      apply habove; omega
  rw [h1, h2]
  congr 1 <;> omega

/-! ### the lexicographic order of the canonical form is a total order -/

section lex
variable {α : Type}

theorem lexLe_iff (cmp : α → α → Int) (le : α → α → Bool) (x y : α) :
    lexLe cmp le x y = true ↔ cmp x y < 0 ∨ (cmp x y = 0 ∧ le x y = true) := by
  unfold lexLe; simp

theorem cons_zero_symm (cmp : α → α → Int) (hc : Consistent cmp) (x y : α) (h0 : cmp x y = 0) : cmp y x = 0 := by
  have h1 := hc.anti x y; have h2 := hc.anti y x
  omega

theorem cons_lt_le (cmp : α → α → Int) (hc : Consistent cmp) (x y z : α) (h1 : cmp x y < 0) (h2 : cmp y z ≤ 0) :
    cmp x z < 0 := by
  have t := hc.trans x y z (by omega) h2
  by_cases h0 : cmp x z = 0
  · have := cons_zero_symm cmp hc x z h0
    have := hc.trans y z x h2 (by omega)
    have := (hc.anti x y).1 h1
    omega
  · omega

theorem cons_le_lt (cmp : α → α → Int) (hc : Consistent cmp) (x y z : α) (h1 : cmp x y ≤ 0) (h2 : cmp y z < 0) :
    cmp x z < 0 := by
  have t := hc.trans x y z h1 (by omega)
  by_cases h0 : cmp x z = 0
  · have := cons_zero_symm cmp hc x z h0
    have := hc.trans z x y (by omega) h1
    have := (hc.anti y z).1 h2
    omega
  · omega

theorem lexLe_trans (cmp : α → α → Int) (hc : Consistent cmp) (le : α → α → Bool)
    (htr : ∀ x y z, le x y = true → le y z = true → le x z = true) (x y z : α)
    (h1 : lexLe cmp le x y = true) (h2 : lexLe cmp le y z = true) : lexLe cmp le x z = true := by
  rw [lexLe_iff] at *
  rcases h1 with h1 | ⟨h1, l1⟩ <;> rcases h2 with h2 | ⟨h2, l2⟩
  · exact Or.inl (cons_lt_le cmp hc x y z h1 (by omega))
  · exact Or.inl (cons_lt_le cmp hc x y z h1 (by omega))
  · exact Or.inl (cons_le_lt cmp hc x y z (by omega) h2)
  · right
    refine ⟨?_, htr x y z l1 l2⟩
    have a1 := hc.trans x y z (by omega) (by omega)
    have := cons_zero_symm cmp hc x y h1
    have := cons_zero_symm cmp hc y z h2
    have a2 := hc.trans z y x (by omega) (by omega)
    have := hc.anti x z
    omega

theorem lexLe_total (cmp : α → α → Int) (hc : Consistent cmp) (le : α → α → Bool)
    (htot : ∀ x y, (le x y || le y x) = true) (x y : α) : (lexLe cmp le x y || lexLe cmp le y x) = true := by
  rw [Bool.or_eq_true, lexLe_iff, lexLe_iff]
  rcases Int.lt_trichotomy (cmp x y) 0 with h | h | h
  · exact Or.inl (Or.inl h)
  · have := htot x y
    rw [Bool.or_eq_true] at this
    rcases this with l | l
    · exact Or.inl (Or.inr ⟨h, l⟩)
    · exact Or.inr (Or.inr ⟨cons_zero_symm cmp hc x y h, l⟩)
  · exact Or.inr (Or.inl ((hc.anti y x).2 h))

theorem lexLe_antisymm (cmp : α → α → Int) (hc : Consistent cmp) (le : α → α → Bool)
    (has : ∀ x y, le x y = true → le y x = true → x = y) (x y : α)
    (h1 : lexLe cmp le x y = true) (h2 : lexLe cmp le y x = true) : x = y := by
  rw [lexLe_iff] at *
  have a1 := hc.anti x y
  have a2 := hc.anti y x
  rcases h1 with h1 | ⟨h1, l1⟩ <;> rcases h2 with h2 | ⟨h2, l2⟩
  · omega
  · omega
  · omega
  · exact has x y l1 l2

/-- two permutations of one list have the same canonical form -/
theorem canonLex_perm (cmp : α → α → Int) (hc : Consistent cmp) (le : α → α → Bool)
    (htot : ∀ x y, (le x y || le y x) = true) (htr : ∀ x y z, le x y = true → le y z = true → le x z = true)
    (has : ∀ x y, le x y = true → le y x = true → x = y) (l₁ l₂ : List α) (hp : l₁.Perm l₂) :
    canonLex cmp le l₁ = canonLex cmp le l₂ := by
  unfold canonLex
  apply List.Perm.eq_of_pairwise (le := fun x y => lexLe cmp le x y = true)
  · intro x y _ _ h1 h2; exact lexLe_antisymm cmp hc le has x y h1 h2
  · exact List.pairwise_mergeSort (lexLe_trans cmp hc le htr) (lexLe_total cmp hc le htot) l₁
  · exact List.pairwise_mergeSort (lexLe_trans cmp hc le htr) (lexLe_total cmp hc le htot) l₂
  · exact (List.mergeSort_perm l₁ _).trans (hp.trans (List.mergeSort_perm l₂ _).symm)

end lex

end Igris.C11
