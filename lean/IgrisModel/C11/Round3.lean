import IgrisModel.C11.Lemmas
import IgrisModel.C11.More
/-! Lemmas of extension round 3: rand.c, uniqueness of the ordered key sequence,
which element bsearch returns. -/
namespace Igris.C11

/-! ### rand.c -/

theorem randSeed_lt (s : Nat) : randSeed s < 204814687 := by
  unfold randSeed; exact Nat.mod_lt _ (by decide)

theorem randSeed_formula (s : Nat) : randSeed s = (s * 16546134871 + 513585871) % 2 ^ 32 % 204814687 := by
  unfold randSeed
  rw [Nat.mod_mod_of_dvd _ (by decide : (2 : Nat) ^ 32 ∣ 2 ^ 64)]

theorem randSeed_high_bits (s k : Nat) : randSeed (s + k * 2 ^ 32) = randSeed s := by
  rw [randSeed_formula, randSeed_formula]
  have : (s + k * 2 ^ 32) * 16546134871 + 513585871 = (s * 16546134871 + 513585871) + 2 ^ 32 * (k * 16546134871) := by
    omega
  rw [this, Nat.add_mul_mod_self_left]

theorem randOut_of_lt (x : Nat) (h : x < 2 ^ 31) : randOut x = ((x / 2 : Nat) : Int) := by
  unfold randOut asSigned
  have h1 : x % 2 ^ 32 = x := Nat.mod_eq_of_lt (by omega)
  rw [h1]
  have h2 : x < 2 ^ (32 - 1) := by simpa using h
  simp only [h2, if_true]
  rw [Int.shiftRight_eq_div_pow]
  norm_cast

/-! ### bsearch: the literal algorithm ends on the LAST element not greater than the key -/

section
variable {κ α : Type}

theorem bsearch_last (cmp : κ → α → Int) (key : κ) (a : List α) (hp : PartitionedBy cmp key a) (i : Nat)
    (h : bsearch cmp key a = some (some i)) :
    ∀ k (hk : k < a.length), i < k → cmp key a[k] < 0 := by
  unfold bsearch at h
  by_cases h0 : a.length = 0
  · simp only [h0, if_true] at h; cases h
  · simp only [h0, if_false] at h
    obtain ⟨l, hl, hrun, hR, hL⟩ := bsLoop_spec cmp key a hp (a.length + 1) 0 a.length (by omega) (by omega) (by omega)
      (by intro k hk hge; omega) (Or.inl rfl)
    rw [hrun] at h
    simp only [List.getElem?_eq_getElem hl] at h
    by_cases he : cmp key a[l] = 0
    · simp only [he, if_true] at h
      have : l = i := by injection h with h; injection h
      subst this
      intro k hk hik
      exact hR k hk (by omega)
    · simp only [he, if_false] at h; cases h

end

/-! ### the ordered key sequence is unique -/

theorem sorted_keys_unique {α : Type} (key : α → Int) (cmp : α → α → Int)
    (hk : ∀ x y, cmp x y ≤ 0 ↔ key x ≤ key y) (out a : List α) (hperm : out.Perm a) (hs : Sorted cmp out) :
    out.map key = (a.map key).mergeSort (fun x y => decide (x ≤ y)) := by
  apply List.Perm.eq_of_pairwise (le := fun x y : Int => x ≤ y)
  · intro x y _ _ h1 h2; omega
  · unfold Sorted at hs
    rw [List.pairwise_map]
    exact hs.imp (fun {x y} h => (hk x y).1 h)
  · have := List.pairwise_mergeSort (le := fun x y : Int => decide (x ≤ y))
      (by intro a b c h1 h2; simp only [decide_eq_true_eq] at *; omega)
      (by intro a b; simp only [Bool.or_eq_true, decide_eq_true_eq]; omega) (a.map key)
    exact this.imp (fun {x y} h => by simpa using h)
  · exact (hperm.map key).trans (List.mergeSort_perm _ _).symm

/-! ### the run of equal elements around ANY equal element is the bracket of the two bounds -/

theorem takeWhile_length_eq {α : Type} (p : α → Bool) : ∀ (l : List α) (k : Nat), k ≤ l.length →
    (∀ j (h : j < l.length), j < k → p l[j] = true) → (∀ j (h : j < l.length), k ≤ j → p l[j] = false) →
    (l.takeWhile p).length = k := by
  intro l
  induction l with
  | nil => intro k hk _ _; simp at hk; simp [hk]
  | cons x xs ih =>
    intro k hk h1 h2
    cases k with
    | zero =>
      have := h2 0 (by simp) (Nat.le_refl _)
      simp only [List.getElem_cons_zero] at this
      simp [this]
    | succ k =>
      have hx := h1 0 (by simp) (by omega)
      simp only [List.getElem_cons_zero] at hx
      simp only [List.takeWhile_cons, hx, if_true, List.length_cons]
      have := ih k (by simpa using hk)
        (by intro j hj hjk; have := h1 (j + 1) (by simpa using hj) (by omega); simpa using this)
        (by intro j hj hjk; have := h2 (j + 1) (by simpa using hj) (by omega); simpa using this)
      omega

theorem equalRun_eq {κ α : Type} (cmp : κ → α → Int) (key : κ) (a : List α) (lo hi i : Nat)
    (hhi : hi ≤ a.length) (hlo : lo ≤ i) (hih : i < hi)
    (hin : ∀ j (h : j < a.length), lo ≤ j → j < hi → cmp key a[j] = 0)
    (hbelow : ∀ j (h : j < a.length), j < lo → cmp key a[j] ≠ 0)
    (habove : ∀ j (h : j < a.length), hi ≤ j → cmp key a[j] ≠ 0) :
    equalRun cmp key a i = (lo, hi - 1) := by
  unfold equalRun
  have h1 : ((a.take i).reverse.takeWhile fun x => cmp key x == 0).length = i - lo := by
    apply takeWhile_length_eq
    · simp only [List.length_reverse, List.length_take]; omega
    · intro j hj hjk
      simp only [List.length_reverse, List.length_take] at hj
      simp only [List.getElem_reverse, List.getElem_take, List.length_take, beq_iff_eq]
      apply hin <;> omega
    · intro j hj hjk
      simp only [List.length_reverse, List.length_take] at hj
      simp only [List.getElem_reverse, List.getElem_take, List.length_take, beq_eq_false_iff_ne]
      apply hbelow; omega
  have h2 : ((a.drop (i + 1)).takeWhile fun x => cmp key x == 0).length = hi - 1 - i := by
    apply takeWhile_length_eq
    · simp only [List.length_drop]; omega
    · intro j hj hjk
      simp only [List.length_drop] at hj
      simp only [List.getElem_drop, beq_iff_eq]
      apply hin <;> omega
    · intro j hj hjk
      simp only [List.length_drop] at hj
      simp only [List.getElem_drop, beq_eq_false_iff_ne]
      apply habove; omega
  rw [h1, h2]
  congr 1 <;> omega

end Igris.C11
