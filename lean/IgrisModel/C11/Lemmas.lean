/-
  C11 — helper lemmas (loop invariants of bsearch, of the qsort partition and
  recursion, of the strto* digit loop).  Property theorems are in Props.lean.
-/
import IgrisModel.C11.Model
namespace Igris.C11

/-! ## bsearch -/

section
variable {κ α : Type}

theorem bsLoop_spec (cmp : κ → α → Int) (key : κ) (a : List α) (hp : PartitionedBy cmp key a) :
    ∀ (fuel left right : Nat), left < right → right ≤ a.length → right - left ≤ fuel →
    (∀ k (hk : k < a.length), right ≤ k → cmp key a[k] < 0) →
    (left = 0 ∨ ∃ h : left < a.length, 0 ≤ cmp key a[left]) →
    ∃ l, ∃ h : l < a.length, bsLoop cmp key a fuel left right = some (l, l + 1) ∧
      (∀ k (hk : k < a.length), l + 1 ≤ k → cmp key a[k] < 0) ∧ (l = 0 ∨ 0 ≤ cmp key a[l]) := by
  intro fuel
  induction fuel with
  | zero => intro left right h1 h2 h3; omega
  | succ f ih =>
    intro left right hlr hr hf hR hL
    unfold bsLoop
    by_cases hc : left + 1 < right
    · simp only [hc, if_true]
      have hm1 : left < left + (right - left) / 2 := by omega
      have hm2 : left + (right - left) / 2 < right := by omega
      have hm : left + (right - left) / 2 < a.length := by omega
      rw [List.getElem?_eq_getElem hm]
      simp only
      by_cases hk : cmp key a[left + (right - left) / 2] < 0
      · simp only [hk, if_true]
        apply ih _ _ hm1 (by omega) (by omega) _ hL
        intro k hk' hge
        exact ((hp _ k hge hk').1 hk)
      · simp only [hk, if_false]
        apply ih _ _ hm2 hr (by omega) hR
        right
        exact ⟨hm, by omega⟩
    · simp only [hc, if_false]
      have : right = left + 1 := by omega
      subst this
      refine ⟨left, by omega, rfl, hR, ?_⟩
      rcases hL with h | ⟨h, h'⟩
      · left; exact h
      · right; exact h'

theorem bsearch_spec (cmp : κ → α → Int) (key : κ) (a : List α) (hp : PartitionedBy cmp key a) :
    ∃ r, bsearch cmp key a = some r ∧
      (∀ i, r = some i → ∃ h : i < a.length, cmp key a[i] = 0) ∧
      (r = none → ∀ i (h : i < a.length), cmp key a[i] ≠ 0) := by
  unfold bsearch
  by_cases h0 : a.length = 0
  · simp only [h0, if_true]
    refine ⟨none, rfl, ?_, ?_⟩
    · intro i hi; cases hi
    · intro _ i h; omega
  · simp only [h0, if_false]
    obtain ⟨l, hl, hrun, hR, hL⟩ := bsLoop_spec cmp key a hp (a.length + 1) 0 a.length (by omega) (by omega) (by omega)
      (by intro k hk hge; omega) (Or.inl rfl)
    rw [hrun]
    simp only [List.getElem?_eq_getElem hl]
    by_cases he : cmp key a[l] = 0
    · simp only [he, if_true]
      refine ⟨some l, rfl, ?_, ?_⟩
      · intro i hi
        cases hi
        exact ⟨hl, he⟩
      · intro h; cases h
    · simp only [he, if_false]
      refine ⟨none, rfl, ?_, ?_⟩
      · intro i hi; cases hi
      intro _ p hpl hp0
      have hpl' : p ≤ l := by
        apply Classical.byContradiction
        intro hn
        have := hR p hpl (by omega)
        omega
      by_cases hpe : p = l
      · subst hpe; exact he hp0
      · rcases hL with h | h
        · omega
        · have := (hp p l hpl' hl).2 (by omega)
          omega
end

/-! ## qsort -/

section
variable {α : Type} (cmp : α → α → Int) (key : α)

theorem scanUp_spec (a : List α) : ∀ (fuel i u : Nat) (xu : α), a[u]? = some xu → ¬ cmp xu key < 0 →
    i ≤ u → u - i < fuel →
    ∃ i' xi, scanUp cmp key a fuel i = some i' ∧ i ≤ i' ∧ i' ≤ u ∧ a[i']? = some xi ∧ ¬ cmp xi key < 0 ∧
      ∀ k x, i ≤ k → k < i' → a[k]? = some x → cmp x key < 0 := by
  intro fuel
  induction fuel with
  | zero => intro i u xu _ _ _ h; omega
  | succ f ih =>
    intro i u xu hu hxu hiu hf
    have hul : u < a.length := by
      rcases Nat.lt_or_ge u a.length with h | h
      · exact h
      · rw [List.getElem?_eq_none h] at hu; cases hu
    have hil : i < a.length := by omega
    unfold scanUp
    rw [List.getElem?_eq_getElem hil]
    simp only
    by_cases hc : cmp a[i] key < 0
    · simp only [hc, if_true]
      have hne : i ≠ u := by
        intro h; subst h
        rw [List.getElem?_eq_getElem hil] at hu
        cases hu; exact hxu hc
      obtain ⟨i', xi, h1, h2, h3, h4, h5, h6⟩ := ih (i + 1) u xu hu hxu (by omega) (by omega)
      refine ⟨i', xi, h1, by omega, h3, h4, h5, ?_⟩
      intro k x hk1 hk2 hk3
      by_cases hki : k = i
      · subst hki
        rw [List.getElem?_eq_getElem hil] at hk3
        cases hk3; exact hc
      · exact h6 k x (by omega) hk2 hk3
    · simp only [hc, if_false]
      refine ⟨i, a[i], rfl, by omega, hiu, List.getElem?_eq_getElem hil, hc, ?_⟩
      intro k x h1 h2; omega

theorem scanDown_spec (a : List α) : ∀ (fuel : Nat) (j : Int) (d : Nat) (xd : α), a[d]? = some xd → ¬ cmp key xd < 0 →
    (d : Int) ≤ j → j < a.length → (j - d).toNat < fuel →
    ∃ (j' : Nat) (xj : α), scanDown cmp key a fuel j = some (j' : Int) ∧ d ≤ j' ∧ (j' : Int) ≤ j ∧ a[j']? = some xj ∧ ¬ cmp key xj < 0 ∧
      ∀ (k : Nat) x, j' < k → (k : Int) ≤ j → a[k]? = some x → cmp key x < 0 := by
  intro fuel
  induction fuel with
  | zero => intro j d xd _ _ _ _ h; omega
  | succ f ih =>
    intro j d xd hd hxd hdj hjl hf
    have hj0 : ¬ j < 0 := by omega
    have hjl' : j.toNat < a.length := by omega
    unfold scanDown
    simp only [hj0, if_false]
    rw [List.getElem?_eq_getElem hjl']
    simp only
    by_cases hc : cmp key a[j.toNat] < 0
    · simp only [hc, if_true]
      have hne : j.toNat ≠ d := by
        intro h
        have : a[j.toNat]? = some xd := by rw [h]; exact hd
        rw [List.getElem?_eq_getElem hjl'] at this
        cases this; exact hxd hc
      obtain ⟨j', xj, h1, h2, h3, h4, h5, h6⟩ := ih (j - 1) d xd hd hxd (by omega) (by omega) (by omega)
      refine ⟨j', xj, h1, h2, by omega, h4, h5, ?_⟩
      intro k x hk1 hk2 hk3
      by_cases hkj : k = j.toNat
      · subst hkj
        rw [List.getElem?_eq_getElem hjl'] at hk3
        cases hk3; exact hc
      · exact h6 k x hk1 (by omega) hk3
    · simp only [hc, if_false]
      refine ⟨j.toNat, a[j.toNat], by simp [Int.toNat_of_nonneg (by omega : 0 ≤ j)], by omega, by omega, List.getElem?_eq_getElem hjl', hc, ?_⟩
      intro k x h1 h2; omega
theorem swapAt_spec (a : List α) (i j : Nat) (x y : α) (hi : a[i]? = some x) (hj : a[j]? = some y) :
    swapAt a i j = some ((a.set i y).set j x) ∧ ((a.set i y).set j x).Perm a := by
  have hil : i < a.length := by
    rcases Nat.lt_or_ge i a.length with h | h
    · exact h
    · rw [List.getElem?_eq_none h] at hi; cases hi
  have hjl : j < a.length := by
    rcases Nat.lt_or_ge j a.length with h | h
    · exact h
    · rw [List.getElem?_eq_none h] at hj; cases hj
  rw [List.getElem?_eq_getElem hil] at hi
  rw [List.getElem?_eq_getElem hjl] at hj
  cases hi; cases hj
  unfold swapAt
  simp only [hil, hjl, and_self, dite_true]
  exact ⟨trivial, List.set_set_perm hil hjl⟩

theorem swap_get (a : List α) (i j k : Nat) (x y : α) (hi : i < a.length) (hj : j < a.length) :
    ((a.set i y).set j x)[k]? = if k = j then some x else if k = i then some y else a[k]? := by
  simp only [List.getElem?_set, List.length_set]
  by_cases h1 : j = k
  · subst h1; simp [hj]
  · by_cases h2 : i = k
    · subst h2; simp [hi, h1]; intro h; omega
    · simp [h1, h2]
      have : ¬ k = j := fun h => h1 h.symm
      have : ¬ k = i := fun h => h2 h.symm
      simp [*]

/-- invariant of the `while (i <= j)` loop of the partition -/
structure PInv (a0 a : List α) (i : Nat) (j : Int) : Prop where
  perm : a.Perm a0
  jlo : -1 ≤ j
  jhi : j < a.length
  L : ∀ k x, k < i → a[k]? = some x → (cmp x key < 0 ∨ ¬ cmp key x < 0)
  R : ∀ (k : Nat) x, j < (k : Int) → a[k]? = some x → (cmp key x < 0 ∨ ¬ cmp x key < 0)
  S : (i = 0 ∧ j = (a.length : Int) - 1 ∧ ∃ (p : Nat) (x : α), a[p]? = some x ∧ ¬ cmp x key < 0 ∧ ¬ cmp key x < 0) ∨
      (1 ≤ i ∧ j + 2 ≤ a.length ∧ (∃ x, a[(j + 1).toNat]? = some x ∧ ¬ cmp x key < 0) ∧
        (∃ x, a[i - 1]? = some x ∧ ¬ cmp key x < 0))

/-- what the partition establishes -/
structure PPost (a0 a : List α) (i : Nat) (j : Int) : Prop where
  perm : a.Perm a0
  jlo : -1 ≤ j
  ilo : 1 ≤ i
  jhi : j + 2 ≤ a.length
  ji : j < (i : Int)
  L : ∀ k x, k < i → a[k]? = some x → (cmp x key < 0 ∨ ¬ cmp key x < 0)
  R : ∀ (k : Nat) x, j < (k : Int) → a[k]? = some x → (cmp key x < 0 ∨ ¬ cmp x key < 0)

theorem getElem?_some_lt {a : List α} {k : Nat} {x : α} (h : a[k]? = some x) : k < a.length := by
  rcases Nat.lt_or_ge k a.length with h' | h'
  · exact h'
  · rw [List.getElem?_eq_none h'] at h; cases h

theorem partLoop_spec (a0 : List α) : ∀ (fuel : Nat) (a : List α) (i : Nat) (j : Int),
    PInv cmp key a0 a i j → (j + 2 - i).toNat < fuel →
    ∃ a' i' j', partLoop cmp key fuel a i j = some (a', i', j') ∧ PPost cmp key a0 a' i' j' := by
  intro fuel
  induction fuel with
  | zero => intro a i j _ h; omega
  | succ f ih =>
    intro a i j inv hf
    unfold partLoop
    by_cases hij : (i : Int) ≤ j
    · simp only [hij, if_true]
      -- sentinels
      have hS : ∃ (u d : Nat) (xu xd : α), a[u]? = some xu ∧ ¬ cmp xu key < 0 ∧ i ≤ u ∧ a[d]? = some xd ∧ ¬ cmp key xd < 0 ∧ (d : Int) ≤ j ∧
          ((i = 0 ∧ u = d) ∨ (1 ≤ i ∧ j + 2 ≤ a.length ∧ (u : Int) = j + 1 ∧ d = i - 1)) := by
        rcases inv.S with ⟨h1, h2, p, x, hp, hx1, hx2⟩ | ⟨h1, h2, ⟨x, hx, hx'⟩, ⟨y, hy, hy'⟩⟩
        · have := getElem?_some_lt hp
          exact ⟨p, p, x, x, hp, hx1, by omega, hp, hx2, by omega, Or.inl ⟨h1, rfl⟩⟩
        · exact ⟨(j + 1).toNat, i - 1, x, y, hx, hx', by omega, hy, hy', by omega, Or.inr ⟨h1, h2, by omega, rfl⟩⟩
      obtain ⟨u, d, xu, xd, hu, hxu, hiu, hd, hxd, hdj, hph⟩ := hS
      have hul := getElem?_some_lt hu
      obtain ⟨i', xi, hsu, hi1, hi2, hxi, hxi', hup⟩ := scanUp_spec cmp key a (a.length + 1) i u xu hu hxu hiu (by omega)
      have hjhi := inv.jhi
      obtain ⟨j', xj, hsd, hj1, hj2, hxj, hxj', hdn⟩ := scanDown_spec cmp key a (a.length + 1) j d xd hd hxd hdj inv.jhi (by omega)
      rw [hsu]; simp only
      rw [hsd]; simp only
      have hi'l := getElem?_some_lt hxi
      have hj'l := getElem?_some_lt hxj
      by_cases hc : (i' : Int) ≤ (j' : Int)
      · simp only [hc, if_true, Int.toNat_natCast]
        obtain ⟨hsw, hperm⟩ := swapAt_spec a i' j' xi xj hxi hxj
        rw [hsw]; simp only
        have hc' : i' ≤ j' := by omega
        apply ih
        · constructor
          · exact hperm.trans inv.perm
          · omega
          · simp only [List.length_set]; omega
          · intro k x hk hkx
            rw [swap_get a i' j' k xi xj hi'l hj'l] at hkx
            by_cases h1 : k = j'
            · have : k = i' := by omega
              subst h1
              simp only [if_true] at hkx
              cases hkx
              have : xi = xj := by rw [this] at hxj; rw [hxi] at hxj; cases hxj; rfl
              right; rw [this]; exact hxj'
            · simp only [h1, if_false] at hkx
              by_cases h2 : k = i'
              · simp only [h2, if_true] at hkx; cases hkx; right; exact hxj'
              · simp only [h2, if_false] at hkx
                by_cases h3 : k < i
                · exact inv.L k x h3 hkx
                · left; exact hup k x (by omega) (by omega) hkx
          · intro k x hk hkx
            rw [swap_get a i' j' k xi xj hi'l hj'l] at hkx
            by_cases h1 : k = j'
            · simp only [h1, if_true] at hkx; cases hkx; right; exact hxi'
            · simp only [h1, if_false] at hkx
              by_cases h2 : k = i'
              · omega
              · simp only [h2, if_false] at hkx
                by_cases h3 : j < (k : Int)
                · exact inv.R k x h3 hkx
                · left; exact hdn k x (by omega) (by omega) hkx
          · right
            simp only [List.length_set]
            refine ⟨by omega, by omega, ⟨xi, ?_, hxi'⟩, ?_⟩
            · have : ((j' : Int) - 1 + 1).toNat = j' := by omega
              rw [this, swap_get a i' j' j' xi xj hi'l hj'l]; simp
            · have : i' + 1 - 1 = i' := by omega
              rw [this, swap_get a i' j' i' xi xj hi'l hj'l]
              by_cases h : i' = j'
              · simp only [h, if_true]
                have : xi = xj := by rw [h] at hxi; rw [hxi] at hxj; cases hxj; rfl
                exact ⟨xi, rfl, by rw [this]; exact hxj'⟩
              · simp only [h, if_false, if_true]
                exact ⟨xj, rfl, hxj'⟩
        · omega
      · simp only [hc, if_false]
        -- the next test `i <= j` fails and the loop ends
        have hnot1 : ¬ (i = 0 ∧ u = d) := by
          rintro ⟨_, h⟩; subst h; omega
        have hph2 : 1 ≤ i ∧ j + 2 ≤ a.length := by
          rcases hph with h | ⟨h1, h2, _, _⟩
          · exact absurd h hnot1
          · exact ⟨h1, h2⟩
        have hf1 : ∃ f', f = f' + 1 := ⟨f - 1, by omega⟩
        obtain ⟨f', rfl⟩ := hf1
        unfold partLoop
        simp only [hc, if_false]
        refine ⟨a, i', j', rfl, ?_⟩
        constructor
        · exact inv.perm
        · omega
        · omega
        · omega
        · omega
        · intro k x hk hkx
          by_cases h3 : k < i
          · exact inv.L k x h3 hkx
          · left; exact hup k x (by omega) (by omega) hkx
        · intro k x hk hkx
          by_cases h3 : j < (k : Int)
          · exact inv.R k x h3 hkx
          · left; exact hdn k x (by omega) (by omega) hkx
    · simp only [hij, if_false]
      refine ⟨a, i, j, rfl, ?_⟩
      have hph2 : 1 ≤ i ∧ j + 2 ≤ a.length := by
        rcases inv.S with ⟨h1, h2, p, x, hp, _, _⟩ | ⟨h1, h2, _, _⟩
        · have := getElem?_some_lt hp; omega
        · exact ⟨h1, h2⟩
      exact ⟨inv.perm, inv.jlo, hph2.1, hph2.2, by omega, inv.L, inv.R⟩
theorem mem_take_getElem? {l : List α} {n : Nat} {x : α} (h : x ∈ l.take n) : ∃ k, k < n ∧ l[k]? = some x := by
  obtain ⟨k, hk⟩ := List.mem_iff_getElem?.1 h
  rw [List.getElem?_take] at hk
  by_cases hkn : k < n
  · simp only [hkn, if_true] at hk; exact ⟨k, hkn, hk⟩
  · simp only [hkn, if_false] at hk; cases hk

theorem mem_drop_getElem? {l : List α} {n : Nat} {x : α} (h : x ∈ l.drop n) : ∃ k, n ≤ k ∧ l[k]? = some x := by
  obtain ⟨k, hk⟩ := List.mem_iff_getElem?.1 h
  rw [List.getElem?_drop] at hk
  exact ⟨n + k, by omega, hk⟩

theorem sorted_short (l : List α) (h : l.length ≤ 1) : Sorted cmp l := by
  match l, h with
  | [], _ => exact List.Pairwise.nil
  | [x], _ => exact List.pairwise_singleton _ _
  | _ :: _ :: _, h => simp at h

theorem smallSort_perm (a : List α) : (smallSort cmp a).Perm a := by
  unfold smallSort
  split
  · split
    · exact List.Perm.swap _ _ _
    · exact List.Perm.refl _
  · rename_i x y z
    by_cases h1 : cmp y x < 0 <;> by_cases h2 : cmp z x < 0 <;> by_cases h3 : cmp z y < 0 <;> simp only [h1, h2, h3, if_true, if_false]
    all_goals first
      | exact List.Perm.refl _
      | exact List.Perm.swap _ _ _
      | exact (List.Perm.swap _ _ _).trans (List.Perm.cons _ (List.Perm.swap _ _ _))
      | exact List.Perm.cons _ (List.Perm.swap _ _ _)
      | exact ((List.Perm.cons _ (List.Perm.swap _ _ _)).trans (List.Perm.swap _ _ _))
      | exact (List.Perm.swap _ _ _).trans ((List.Perm.cons _ (List.Perm.swap _ _ _)).trans (List.Perm.swap _ _ _))
  · exact List.Perm.refl _

theorem Consistent.le_of_not_lt {cmp : α → α → Int} (hc : Consistent cmp) {p q : α} (h : ¬ cmp q p < 0) : cmp p q ≤ 0 := by
  have := hc.anti q p
  omega

theorem Consistent.irrefl {cmp : α → α → Int} (hc : Consistent cmp) (x : α) : ¬ cmp x x < 0 := by
  have := hc.anti x x
  omega

theorem smallSort_sorted (hc : Consistent cmp) (a : List α) (h : a.length < 4) : Sorted cmp (smallSort cmp a) := by
  match a, h with
  | [], _ => exact List.Pairwise.nil
  | [x], _ => exact List.pairwise_singleton _ _
  | [x, y], _ =>
    simp only [smallSort]
    by_cases h1 : cmp y x < 0 <;> simp only [h1, if_true, if_false, Sorted, List.pairwise_cons, List.mem_cons, forall_eq_or_imp, List.not_mem_nil, false_imp_iff, implies_true, List.Pairwise.nil, and_true]
    · omega
    · exact hc.le_of_not_lt h1
  | [x, y, z], _ =>
    simp only [smallSort]
    have e1 := @Consistent.le_of_not_lt _ _ hc x y
    have e2 := @Consistent.le_of_not_lt _ _ hc x z
    have e3 := @Consistent.le_of_not_lt _ _ hc y z
    by_cases h1 : cmp y x < 0 <;> by_cases h2 : cmp z x < 0 <;> by_cases h3 : cmp z y < 0 <;>
      simp only [h1, h2, h3, if_true, if_false, Sorted, List.pairwise_cons, List.mem_cons, forall_eq_or_imp, List.not_mem_nil, false_imp_iff, implies_true, List.Pairwise.nil, and_true]
    all_goals (have t1 := hc.trans y x z; have t2 := hc.trans x y z; omega)
  | _ :: _ :: _ :: _ :: _, h => simp only [List.length_cons] at h; omega

theorem sorted_append3 (hc : Consistent cmp) (A M B : List α)
    (hA : ∀ x ∈ A, cmp x key ≤ 0) (hM : ∀ x ∈ M, cmp x key ≤ 0 ∧ cmp key x ≤ 0) (hB : ∀ x ∈ B, cmp key x ≤ 0)
    (sA : Sorted cmp A) (sB : Sorted cmp B) : Sorted cmp (A ++ (M ++ B)) := by
  unfold Sorted at *
  rw [List.pairwise_append, List.pairwise_append]
  refine ⟨sA, ⟨?_, sB, ?_⟩, ?_⟩
  · apply List.pairwise_of_forall_mem_list
    intro x hx y hy
    exact hc.trans x key y (hM x hx).1 (hM y hy).2
  · intro x hx y hy
    exact hc.trans x key y (hM x hx).1 (hB y hy)
  · intro x hx y hy
    rcases List.mem_append.1 hy with h | h
    · exact hc.trans x key y (hA x hx) (hM y h).2
    · exact hc.trans x key y (hA x hx) (hB y h)

theorem pivotIndex_lt (r : Int) (n : Nat) (h : 0 < n) : pivotIndex r n < n := Nat.mod_lt _ h

theorem qsortF_spec (hirr : ∀ x, ¬ cmp x x < 0) : ∀ (fuel : Nat) (rs : List Int) (a : List α), a.length < fuel →
    ∃ out rs', qsortF cmp fuel rs a = some (out, rs') ∧ out.Perm a ∧ (Consistent cmp → Sorted cmp out) := by
  intro fuel
  induction fuel with
  | zero => intro rs a h; omega
  | succ f ih =>
    intro rs a hlen
    unfold qsortF
    by_cases h4 : a.length < 4
    · simp only [h4, if_true]
      exact ⟨_, _, rfl, smallSort_perm cmp a, fun hc => smallSort_sorted cmp hc a h4⟩
    · simp only [h4, if_false]
      have hp := pivotIndex_lt (nextRand rs).1 a.length (by omega)
      generalize (nextRand rs).2 = rs1
      generalize pivotIndex (nextRand rs).1 a.length = p at hp
      rw [List.getElem?_eq_getElem hp]
      simp only
      generalize hkey : a[p] = key
      have hkp : a[p]? = some key := by rw [List.getElem?_eq_getElem hp, hkey]
      -- the partition
      have inv : PInv cmp key a a 0 ((a.length : Int) - 1) := by
        constructor
        · exact List.Perm.refl _
        · omega
        · omega
        · intro k x hk; omega
        · intro k x hk hkx
          have := getElem?_some_lt hkx; omega
        · left; exact ⟨rfl, rfl, p, key, hkp, hirr key, hirr key⟩
      obtain ⟨a1, i, j, hpl, post⟩ := partLoop_spec cmp key a (a.length + 2) a 0 ((a.length : Int) - 1) inv (by omega)
      rw [hpl]
      simp only
      have hlen1 : a1.length = a.length := post.perm.length_eq
      have hjlo := post.jlo
      have hilo := post.ilo
      have hjhi := post.jhi
      have hji := post.ji
      -- order facts (only meaningful for a consistent comparator)
      have hLE : Consistent cmp → ∀ k x, k < i → a1[k]? = some x → cmp x key ≤ 0 := by
        intro hc k x hk hkx
        rcases post.L k x hk hkx with h | h
        · omega
        · exact hc.le_of_not_lt h
      have hGE : Consistent cmp → ∀ x ∈ a1.drop (j + 1).toNat, cmp key x ≤ 0 := by
        intro hc x hx
        obtain ⟨k, hk, hkx⟩ := mem_drop_getElem? hx
        rcases post.R k x (by omega) hkx with h | h
        · omega
        · exact hc.le_of_not_lt h
      generalize hjn : (j + 1).toNat = jn at hGE
      have hjni : jn ≤ i := by omega
      have hjnl : jn + 1 ≤ a.length := by omega
      -- left recursion
      have hleft : ∃ lft rs2, lft.Perm (a1.take jn) ∧ (Consistent cmp → Sorted cmp lft) ∧
          (if j > 0 then
              (qsortF cmp f rs1 (a1.take (j.toNat + 1))).map fun (s, rs) => (s ++ a1.drop (j.toNat + 1), rs)
            else some (a1, rs1)) = some (lft ++ a1.drop jn, rs2) := by
        by_cases hj0 : j > 0
        · simp only [hj0, if_true]
          have e : j.toNat + 1 = jn := by omega
          rw [e]
          obtain ⟨s, rs2, hs, hsp, hss⟩ := ih rs1 (a1.take jn) (by rw [List.length_take]; omega)
          exact ⟨s, rs2, hsp, hss, by rw [hs]; rfl⟩
        · simp only [hj0, if_false]
          refine ⟨a1.take jn, rs1, List.Perm.refl _, fun _ => sorted_short cmp _ (by rw [List.length_take]; omega), ?_⟩
          rw [List.take_append_drop]
      obtain ⟨lft, rs2, hlp, hls, hleq⟩ := hleft
      rw [hleq]
      simp only
      have hlftlen : lft.length = jn := by rw [hlp.length_eq, List.length_take]; omega
      -- right recursion
      have htake : (lft ++ a1.drop jn).take i = lft ++ (a1.drop jn).take (i - jn) := by
        rw [List.take_append, List.take_of_length_le (by omega), hlftlen]
      have hdrop : (lft ++ a1.drop jn).drop i = (a1.drop jn).drop (i - jn) := by
        rw [List.drop_append, List.drop_of_length_le (by omega), hlftlen, List.nil_append]
      have hlen2 : (lft ++ a1.drop jn).length = a.length := by
        rw [List.length_append, hlftlen, List.length_drop]; omega
      have hright : ∃ rgt rs3, rgt.Perm ((a1.drop jn).drop (i - jn)) ∧ (Consistent cmp → Sorted cmp rgt) ∧
          (if i < a.length - 1 then
              (qsortF cmp f rs2 ((lft ++ a1.drop jn).drop i)).map fun (s, rs) => ((lft ++ a1.drop jn).take i ++ s, rs)
            else some (lft ++ a1.drop jn, rs2)) = some (lft ++ ((a1.drop jn).take (i - jn) ++ rgt), rs3) := by
        by_cases hi0 : i < a.length - 1
        · simp only [hi0, if_true]
          rw [hdrop, htake]
          obtain ⟨s, rs3, hs, hsp, hss⟩ := ih rs2 ((a1.drop jn).drop (i - jn)) (by simp only [List.length_drop]; omega)
          exact ⟨s, rs3, hsp, hss, by rw [hs]; simp [List.append_assoc]⟩
        · simp only [hi0, if_false]
          refine ⟨(a1.drop jn).drop (i - jn), rs2, List.Perm.refl _, fun _ => sorted_short cmp _ (by simp only [List.length_drop]; omega), ?_⟩
          rw [List.take_append_drop]
      obtain ⟨rgt, rs3, hrp, hrs, hreq⟩ := hright
      simp only at hreq ⊢
      rw [hreq]
      refine ⟨_, _, rfl, ?_, ?_⟩
      · -- permutation
        have h1 : (lft ++ ((a1.drop jn).take (i - jn) ++ rgt)).Perm (a1.take jn ++ ((a1.drop jn).take (i - jn) ++ (a1.drop jn).drop (i - jn))) :=
          hlp.append ((List.Perm.refl _).append hrp)
        rw [List.take_append_drop, List.take_append_drop] at h1
        exact h1.trans post.perm
      · intro hc
        apply sorted_append3 cmp key hc
        · intro x hx
          have : x ∈ a1.take jn := hlp.mem_iff.1 hx
          obtain ⟨k, hk, hkx⟩ := mem_take_getElem? this
          exact hLE hc k x (by omega) hkx
        · intro x hx
          constructor
          · obtain ⟨k, hk, hkx⟩ := mem_take_getElem? hx
            rw [List.getElem?_drop] at hkx
            exact hLE hc (jn + k) x (by omega) hkx
          · exact hGE hc x (List.mem_of_mem_take hx)
        · intro x hx
          have : x ∈ (a1.drop jn).drop (i - jn) := hrp.mem_iff.1 hx
          exact hGE hc x (List.mem_of_mem_drop this)
        · exact hls hc
        · exact hrs hc
end

end Igris.C11
