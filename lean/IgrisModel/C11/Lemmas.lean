import IgrisModel.C11.Model
namespace Igris.C11
end Igris.C11
