/-
  C11 — helper lemmas (loop invariants of bsearch, of the qsort partition and
  recursion, of the strto* digit loop).  Property theorems are in Props.lean.
-/
import IgrisModel.C11.Model
set_option linter.unusedSimpArgs false
set_option linter.unusedVariables false
namespace Igris.C11

/-! ## bsearch -/

section
variable {κ α : Type}

theorem bsLoop_spec (cmp : κ → α → Int) (key : κ) (a : List α) (hp : PartitionedBy cmp key a) :
    ∀ (fuel left right : Nat), left < right → right ≤ a.length → right - left ≤ fuel →
    (∀ k (hk : k < a.length), right ≤ k → cmp key a[k] < 0) →
    (left = 0 ∨ ∃ h : left < a.length, 0 ≤ cmp key a[left]) →
    ∃ l, ∃ h : l < a.length, bsLoop cmp key a fuel left right = some (l, l + 1) ∧
      (∀ k (hk : k < a.length), l + 1 ≤ k → cmp key a[k] < 0) ∧ (l = 0 ∨ 0 ≤ cmp key a[l]) := by
  intro fuel
  induction fuel with
  | zero => intro left right h1 h2 h3; omega
  | succ f ih =>
    intro left right hlr hr hf hR hL
    unfold bsLoop
    by_cases hc : left + 1 < right
    · simp only [hc, if_true]
      have hm1 : left < left + (right - left) / 2 := by omega
      have hm2 : left + (right - left) / 2 < right := by omega
      have hm : left + (right - left) / 2 < a.length := by omega
      rw [List.getElem?_eq_getElem hm]
      simp only
      by_cases hk : cmp key a[left + (right - left) / 2] < 0
      · simp only [hk, if_true]
        apply ih _ _ hm1 (by omega) (by omega) _ hL
        intro k hk' hge
        exact ((hp _ k hge hk').1 hk)
      · simp only [hk, if_false]
        apply ih _ _ hm2 hr (by omega) hR
        right
        exact ⟨hm, by omega⟩
    · simp only [hc, if_false]
      have : right = left + 1 := by omega
      subst this
      refine ⟨left, by omega, rfl, hR, ?_⟩
      rcases hL with h | ⟨h, h'⟩
      · left; exact h
      · right; exact h'

theorem bsearch_spec (cmp : κ → α → Int) (key : κ) (a : List α) (hp : PartitionedBy cmp key a) :
    ∃ r, bsearch cmp key a = some r ∧
      (∀ i, r = some i → ∃ h : i < a.length, cmp key a[i] = 0) ∧
      (r = none → ∀ i (h : i < a.length), cmp key a[i] ≠ 0) := by
  unfold bsearch
  by_cases h0 : a.length = 0
  · simp only [h0, if_true]
    refine ⟨none, rfl, ?_, ?_⟩
    · intro i hi; cases hi
    · intro _ i h; omega
  · simp only [h0, if_false]
    obtain ⟨l, hl, hrun, hR, hL⟩ := bsLoop_spec cmp key a hp (a.length + 1) 0 a.length (by omega) (by omega) (by omega)
      (by intro k hk hge; omega) (Or.inl rfl)
    rw [hrun]
    simp only [List.getElem?_eq_getElem hl]
    by_cases he : cmp key a[l] = 0
    · simp only [he, if_true]
      refine ⟨some l, rfl, ?_, ?_⟩
      · intro i hi
        cases hi
        exact ⟨hl, he⟩
      · intro h; cases h
    · simp only [he, if_false]
      refine ⟨none, rfl, ?_, ?_⟩
      · intro i hi; cases hi
      intro _ p hpl hp0
      have hpl' : p ≤ l := by
        apply Classical.byContradiction
        intro hn
        have := hR p hpl (by omega)
        omega
      by_cases hpe : p = l
      · subst hpe; exact he hp0
      · rcases hL with h | h
        · omega
        · have := (hp p l hpl' hl).2 (by omega)
          omega
end

/-! ## qsort -/

section
variable {α : Type} (cmp : α → α → Int) (key : α)

theorem scanUp_spec (a : List α) : ∀ (fuel i u : Nat) (xu : α), a[u]? = some xu → ¬ cmp xu key < 0 →
    i ≤ u → u - i < fuel →
    ∃ i' xi, scanUp cmp key a fuel i = some i' ∧ i ≤ i' ∧ i' ≤ u ∧ a[i']? = some xi ∧ ¬ cmp xi key < 0 ∧
      ∀ k x, i ≤ k → k < i' → a[k]? = some x → cmp x key < 0 := by
  intro fuel
  induction fuel with
  | zero => intro i u xu _ _ _ h; omega
  | succ f ih =>
    intro i u xu hu hxu hiu hf
    have hul : u < a.length := by
      rcases Nat.lt_or_ge u a.length with h | h
      · exact h
      · rw [List.getElem?_eq_none h] at hu; cases hu
    have hil : i < a.length := by omega
    unfold scanUp
    rw [List.getElem?_eq_getElem hil]
    simp only
    by_cases hc : cmp a[i] key < 0
    · simp only [hc, if_true]
      have hne : i ≠ u := by
        intro h; subst h
        rw [List.getElem?_eq_getElem hil] at hu
        cases hu; exact hxu hc
      obtain ⟨i', xi, h1, h2, h3, h4, h5, h6⟩ := ih (i + 1) u xu hu hxu (by omega) (by omega)
      refine ⟨i', xi, h1, by omega, h3, h4, h5, ?_⟩
      intro k x hk1 hk2 hk3
      by_cases hki : k = i
      · subst hki
        rw [List.getElem?_eq_getElem hil] at hk3
        cases hk3; exact hc
      · exact h6 k x (by omega) hk2 hk3
    · simp only [hc, if_false]
      refine ⟨i, a[i], rfl, by omega, hiu, List.getElem?_eq_getElem hil, hc, ?_⟩
      intro k x h1 h2; omega

theorem scanDown_spec (a : List α) : ∀ (fuel : Nat) (j : Int) (d : Nat) (xd : α), a[d]? = some xd → ¬ cmp key xd < 0 →
    (d : Int) ≤ j → j < a.length → (j - d).toNat < fuel →
    ∃ (j' : Nat) (xj : α), scanDown cmp key a fuel j = some (j' : Int) ∧ d ≤ j' ∧ (j' : Int) ≤ j ∧ a[j']? = some xj ∧ ¬ cmp key xj < 0 ∧
      ∀ (k : Nat) x, j' < k → (k : Int) ≤ j → a[k]? = some x → cmp key x < 0 := by
  intro fuel
  induction fuel with
  | zero => intro j d xd _ _ _ _ h; omega
  | succ f ih =>
    intro j d xd hd hxd hdj hjl hf
    have hj0 : ¬ j < 0 := by omega
    have hjl' : j.toNat < a.length := by omega
    unfold scanDown
    simp only [hj0, if_false]
    rw [List.getElem?_eq_getElem hjl']
    simp only
    by_cases hc : cmp key a[j.toNat] < 0
    · simp only [hc, if_true]
      have hne : j.toNat ≠ d := by
        intro h
        have : a[j.toNat]? = some xd := by rw [h]; exact hd
        rw [List.getElem?_eq_getElem hjl'] at this
        cases this; exact hxd hc
      obtain ⟨j', xj, h1, h2, h3, h4, h5, h6⟩ := ih (j - 1) d xd hd hxd (by omega) (by omega) (by omega)
      refine ⟨j', xj, h1, h2, by omega, h4, h5, ?_⟩
      intro k x hk1 hk2 hk3
      by_cases hkj : k = j.toNat
      · subst hkj
        rw [List.getElem?_eq_getElem hjl'] at hk3
        cases hk3; exact hc
      · exact h6 k x hk1 (by omega) hk3
    · simp only [hc, if_false]
      refine ⟨j.toNat, a[j.toNat], by simp [Int.toNat_of_nonneg (by omega : 0 ≤ j)], by omega, by omega, List.getElem?_eq_getElem hjl', hc, ?_⟩
      intro k x h1 h2; omega
theorem swapAt_spec (a : List α) (i j : Nat) (x y : α) (hi : a[i]? = some x) (hj : a[j]? = some y) :
    swapAt a i j = some ((a.set i y).set j x) ∧ ((a.set i y).set j x).Perm a := by
  have hil : i < a.length := by
    rcases Nat.lt_or_ge i a.length with h | h
    · exact h
    · rw [List.getElem?_eq_none h] at hi; cases hi
  have hjl : j < a.length := by
    rcases Nat.lt_or_ge j a.length with h | h
    · exact h
    · rw [List.getElem?_eq_none h] at hj; cases hj
  rw [List.getElem?_eq_getElem hil] at hi
  rw [List.getElem?_eq_getElem hjl] at hj
  cases hi; cases hj
  unfold swapAt
  simp only [hil, hjl, and_self, dite_true]
  exact ⟨trivial, List.set_set_perm hil hjl⟩

theorem swap_get (a : List α) (i j k : Nat) (x y : α) (hi : i < a.length) (hj : j < a.length) :
    ((a.set i y).set j x)[k]? = if k = j then some x else if k = i then some y else a[k]? := by
  simp only [List.getElem?_set, List.length_set]
  by_cases h1 : j = k
  · subst h1; simp [hj]
  · by_cases h2 : i = k
    · subst h2; simp [hi, h1]; intro h; omega
    · simp [h1, h2]
      have : ¬ k = j := fun h => h1 h.symm
      have : ¬ k = i := fun h => h2 h.symm
      simp [*]

/-- invariant of the `while (i <= j)` loop of the partition -/
structure PInv (a0 a : List α) (i : Nat) (j : Int) : Prop where
  perm : a.Perm a0
  jlo : -1 ≤ j
  jhi : j < a.length
  L : ∀ k x, k < i → a[k]? = some x → (cmp x key < 0 ∨ ¬ cmp key x < 0)
  R : ∀ (k : Nat) x, j < (k : Int) → a[k]? = some x → (cmp key x < 0 ∨ ¬ cmp x key < 0)
  S : (i = 0 ∧ j = (a.length : Int) - 1 ∧ ∃ (p : Nat) (x : α), a[p]? = some x ∧ ¬ cmp x key < 0 ∧ ¬ cmp key x < 0) ∨
      (1 ≤ i ∧ j + 2 ≤ a.length ∧ (∃ x, a[(j + 1).toNat]? = some x ∧ ¬ cmp x key < 0) ∧
        (∃ x, a[i - 1]? = some x ∧ ¬ cmp key x < 0))

/-- what the partition establishes -/
structure PPost (a0 a : List α) (i : Nat) (j : Int) : Prop where
  perm : a.Perm a0
  jlo : -1 ≤ j
  ilo : 1 ≤ i
  jhi : j + 2 ≤ a.length
  ji : j < (i : Int)
  L : ∀ k x, k < i → a[k]? = some x → (cmp x key < 0 ∨ ¬ cmp key x < 0)
  R : ∀ (k : Nat) x, j < (k : Int) → a[k]? = some x → (cmp key x < 0 ∨ ¬ cmp x key < 0)

theorem getElem?_some_lt {a : List α} {k : Nat} {x : α} (h : a[k]? = some x) : k < a.length := by
  rcases Nat.lt_or_ge k a.length with h' | h'
  · exact h'
  · rw [List.getElem?_eq_none h'] at h; cases h

theorem partLoop_spec (a0 : List α) : ∀ (fuel : Nat) (a : List α) (i : Nat) (j : Int),
    PInv cmp key a0 a i j → (j + 2 - i).toNat < fuel →
    ∃ a' i' j', partLoop cmp key fuel a i j = some (a', i', j') ∧ PPost cmp key a0 a' i' j' := by
  intro fuel
  induction fuel with
  | zero => intro a i j _ h; omega
  | succ f ih =>
    intro a i j inv hf
    unfold partLoop
    by_cases hij : (i : Int) ≤ j
    · simp only [hij, if_true]
      -- sentinels
      have hS : ∃ (u d : Nat) (xu xd : α), a[u]? = some xu ∧ ¬ cmp xu key < 0 ∧ i ≤ u ∧ a[d]? = some xd ∧ ¬ cmp key xd < 0 ∧ (d : Int) ≤ j ∧
          ((i = 0 ∧ u = d) ∨ (1 ≤ i ∧ j + 2 ≤ a.length ∧ (u : Int) = j + 1 ∧ d = i - 1)) := by
        rcases inv.S with ⟨h1, h2, p, x, hp, hx1, hx2⟩ | ⟨h1, h2, ⟨x, hx, hx'⟩, ⟨y, hy, hy'⟩⟩
        · have := getElem?_some_lt hp
          exact ⟨p, p, x, x, hp, hx1, by omega, hp, hx2, by omega, Or.inl ⟨h1, rfl⟩⟩
        · exact ⟨(j + 1).toNat, i - 1, x, y, hx, hx', by omega, hy, hy', by omega, Or.inr ⟨h1, h2, by omega, rfl⟩⟩
      obtain ⟨u, d, xu, xd, hu, hxu, hiu, hd, hxd, hdj, hph⟩ := hS
      have hul := getElem?_some_lt hu
      obtain ⟨i', xi, hsu, hi1, hi2, hxi, hxi', hup⟩ := scanUp_spec cmp key a (a.length + 1) i u xu hu hxu hiu (by omega)
      have hjhi := inv.jhi
      obtain ⟨j', xj, hsd, hj1, hj2, hxj, hxj', hdn⟩ := scanDown_spec cmp key a (a.length + 1) j d xd hd hxd hdj inv.jhi (by omega)
      rw [hsu]; simp only
      rw [hsd]; simp only
      have hi'l := getElem?_some_lt hxi
      have hj'l := getElem?_some_lt hxj
      by_cases hc : (i' : Int) ≤ (j' : Int)
      · simp only [hc, if_true, Int.toNat_natCast]
        obtain ⟨hsw, hperm⟩ := swapAt_spec a i' j' xi xj hxi hxj
        rw [hsw]; simp only
        have hc' : i' ≤ j' := by omega
        apply ih
        · constructor
          · exact hperm.trans inv.perm
          · omega
          · simp only [List.length_set]; omega
          · intro k x hk hkx
            rw [swap_get a i' j' k xi xj hi'l hj'l] at hkx
            by_cases h1 : k = j'
            · have : k = i' := by omega
              subst h1
              simp only [if_true] at hkx
              cases hkx
              have : xi = xj := by rw [this] at hxj; rw [hxi] at hxj; cases hxj; rfl
              right; rw [this]; exact hxj'
            · simp only [h1, if_false] at hkx
              by_cases h2 : k = i'
              · simp only [h2, if_true] at hkx; cases hkx; right; exact hxj'
              · simp only [h2, if_false] at hkx
                by_cases h3 : k < i
                · exact inv.L k x h3 hkx
                · left; exact hup k x (by omega) (by omega) hkx
          · intro k x hk hkx
            rw [swap_get a i' j' k xi xj hi'l hj'l] at hkx
            by_cases h1 : k = j'
            · simp only [h1, if_true] at hkx; cases hkx; right; exact hxi'
            · simp only [h1, if_false] at hkx
              by_cases h2 : k = i'
              · omega
              · simp only [h2, if_false] at hkx
                by_cases h3 : j < (k : Int)
                · exact inv.R k x h3 hkx
                · left; exact hdn k x (by omega) (by omega) hkx
          · right
            simp only [List.length_set]
            refine ⟨by omega, by omega, ⟨xi, ?_, hxi'⟩, ?_⟩
            · have : ((j' : Int) - 1 + 1).toNat = j' := by omega
              rw [this, swap_get a i' j' j' xi xj hi'l hj'l]; simp
            · have : i' + 1 - 1 = i' := by omega
              rw [this, swap_get a i' j' i' xi xj hi'l hj'l]
              by_cases h : i' = j'
              · simp only [h, if_true]
                have : xi = xj := by rw [h] at hxi; rw [hxi] at hxj; cases hxj; rfl
                exact ⟨xi, rfl, by rw [this]; exact hxj'⟩
              · simp only [h, if_false, if_true]
                exact ⟨xj, rfl, hxj'⟩
        · omega
      · simp only [hc, if_false]
        -- the next test `i <= j` fails and the loop ends
        have hnot1 : ¬ (i = 0 ∧ u = d) := by
          rintro ⟨_, h⟩; subst h; omega
        have hph2 : 1 ≤ i ∧ j + 2 ≤ a.length := by
          rcases hph with h | ⟨h1, h2, _, _⟩
          · exact absurd h hnot1
          · exact ⟨h1, h2⟩
        have hf1 : ∃ f', f = f' + 1 := ⟨f - 1, by omega⟩
        obtain ⟨f', rfl⟩ := hf1
        unfold partLoop
        simp only [hc, if_false]
        refine ⟨a, i', j', rfl, ?_⟩
        constructor
        · exact inv.perm
        · omega
        · omega
        · omega
        · omega
        · intro k x hk hkx
          by_cases h3 : k < i
          · exact inv.L k x h3 hkx
          · left; exact hup k x (by omega) (by omega) hkx
        · intro k x hk hkx
          by_cases h3 : j < (k : Int)
          · exact inv.R k x h3 hkx
          · left; exact hdn k x (by omega) (by omega) hkx
    · simp only [hij, if_false]
      refine ⟨a, i, j, rfl, ?_⟩
      have hph2 : 1 ≤ i ∧ j + 2 ≤ a.length := by
        rcases inv.S with ⟨h1, h2, p, x, hp, _, _⟩ | ⟨h1, h2, _, _⟩
        · have := getElem?_some_lt hp; omega
        · exact ⟨h1, h2⟩
      exact ⟨inv.perm, inv.jlo, hph2.1, hph2.2, by omega, inv.L, inv.R⟩
theorem mem_take_getElem? {l : List α} {n : Nat} {x : α} (h : x ∈ l.take n) : ∃ k, k < n ∧ l[k]? = some x := by
  obtain ⟨k, hk⟩ := List.mem_iff_getElem?.1 h
  rw [List.getElem?_take] at hk
  by_cases hkn : k < n
  · simp only [hkn, if_true] at hk; exact ⟨k, hkn, hk⟩
  · simp only [hkn, if_false] at hk; cases hk

theorem mem_drop_getElem? {l : List α} {n : Nat} {x : α} (h : x ∈ l.drop n) : ∃ k, n ≤ k ∧ l[k]? = some x := by
  obtain ⟨k, hk⟩ := List.mem_iff_getElem?.1 h
  rw [List.getElem?_drop] at hk
  exact ⟨n + k, by omega, hk⟩

theorem sorted_short (l : List α) (h : l.length ≤ 1) : Sorted cmp l := by
  match l, h with
  | [], _ => exact List.Pairwise.nil
  | [x], _ => exact List.pairwise_singleton _ _
  | _ :: _ :: _, h => simp at h

theorem smallSort_perm (a : List α) : (smallSort cmp a).Perm a := by
  unfold smallSort
  split
  · split
    · exact List.Perm.swap _ _ _
    · exact List.Perm.refl _
  · rename_i x y z
    by_cases h1 : cmp y x < 0 <;> by_cases h2 : cmp z x < 0 <;> by_cases h3 : cmp z y < 0 <;> simp only [h1, h2, h3, if_true, if_false]
    all_goals first
      | exact List.Perm.refl _
      | exact List.Perm.swap _ _ _
      | exact (List.Perm.swap _ _ _).trans (List.Perm.cons _ (List.Perm.swap _ _ _))
      | exact List.Perm.cons _ (List.Perm.swap _ _ _)
      | exact ((List.Perm.cons _ (List.Perm.swap _ _ _)).trans (List.Perm.swap _ _ _))
      | exact (List.Perm.swap _ _ _).trans ((List.Perm.cons _ (List.Perm.swap _ _ _)).trans (List.Perm.swap _ _ _))
  · exact List.Perm.refl _

theorem Consistent.le_of_not_lt {cmp : α → α → Int} (hc : Consistent cmp) {p q : α} (h : ¬ cmp q p < 0) : cmp p q ≤ 0 := by
  have := hc.anti q p
  omega

theorem Consistent.irrefl {cmp : α → α → Int} (hc : Consistent cmp) (x : α) : ¬ cmp x x < 0 := by
  have := hc.anti x x
  omega

theorem smallSort_sorted (hc : Consistent cmp) (a : List α) (h : a.length < 4) : Sorted cmp (smallSort cmp a) := by
  match a, h with
  | [], _ => exact List.Pairwise.nil
  | [x], _ => exact List.pairwise_singleton _ _
  | [x, y], _ =>
    simp only [smallSort]
    by_cases h1 : cmp y x < 0 <;> simp only [h1, if_true, if_false, Sorted, List.pairwise_cons, List.mem_cons, forall_eq_or_imp, List.not_mem_nil, false_imp_iff, implies_true, List.Pairwise.nil, and_true]
    · omega
    · exact hc.le_of_not_lt h1
  | [x, y, z], _ =>
    simp only [smallSort]
    have e1 := @Consistent.le_of_not_lt _ _ hc x y
    have e2 := @Consistent.le_of_not_lt _ _ hc x z
    have e3 := @Consistent.le_of_not_lt _ _ hc y z
    by_cases h1 : cmp y x < 0 <;> by_cases h2 : cmp z x < 0 <;> by_cases h3 : cmp z y < 0 <;>
      simp only [h1, h2, h3, if_true, if_false, Sorted, List.pairwise_cons, List.mem_cons, forall_eq_or_imp, List.not_mem_nil, false_imp_iff, implies_true, List.Pairwise.nil, and_true]
    all_goals (have t1 := hc.trans y x z; have t2 := hc.trans x y z; omega)
  | _ :: _ :: _ :: _ :: _, h => simp only [List.length_cons] at h; omega

theorem sorted_append3 (hc : Consistent cmp) (A M B : List α)
    (hA : ∀ x ∈ A, cmp x key ≤ 0) (hM : ∀ x ∈ M, cmp x key ≤ 0 ∧ cmp key x ≤ 0) (hB : ∀ x ∈ B, cmp key x ≤ 0)
    (sA : Sorted cmp A) (sB : Sorted cmp B) : Sorted cmp (A ++ (M ++ B)) := by
  unfold Sorted at *
  rw [List.pairwise_append, List.pairwise_append]
  refine ⟨sA, ⟨?_, sB, ?_⟩, ?_⟩
  · apply List.pairwise_of_forall_mem_list
    intro x hx y hy
    exact hc.trans x key y (hM x hx).1 (hM y hy).2
  · intro x hx y hy
    exact hc.trans x key y (hM x hx).1 (hB y hy)
  · intro x hx y hy
    rcases List.mem_append.1 hy with h | h
    · exact hc.trans x key y (hA x hx) (hM y h).2
    · exact hc.trans x key y (hA x hx) (hB y h)

theorem pivotIndex_lt (r : Int) (n : Nat) (h : 0 < n) : pivotIndex r n < n := Nat.mod_lt _ h

theorem qsortF_spec (hirr : ∀ x, ¬ cmp x x < 0) : ∀ (fuel : Nat) (rs : List Int) (a : List α), a.length < fuel →
    ∃ out rs', qsortF cmp fuel rs a = some (out, rs') ∧ out.Perm a ∧ (Consistent cmp → Sorted cmp out) := by
  intro fuel
  induction fuel with
  | zero => intro rs a h; omega
  | succ f ih =>
    intro rs a hlen
    unfold qsortF
    by_cases h4 : a.length < 4
    · simp only [h4, if_true]
      exact ⟨_, _, rfl, smallSort_perm cmp a, fun hc => smallSort_sorted cmp hc a h4⟩
    · simp only [h4, if_false]
      have hp := pivotIndex_lt (nextRand rs).1 a.length (by omega)
      generalize (nextRand rs).2 = rs1
      generalize pivotIndex (nextRand rs).1 a.length = p at hp
      rw [List.getElem?_eq_getElem hp]
      simp only
      generalize hkey : a[p] = key
      have hkp : a[p]? = some key := by rw [List.getElem?_eq_getElem hp, hkey]
      -- the partition
      have inv : PInv cmp key a a 0 ((a.length : Int) - 1) := by
        constructor
        · exact List.Perm.refl _
        · omega
        · omega
        · intro k x hk; omega
        · intro k x hk hkx
          have := getElem?_some_lt hkx; omega
        · left; exact ⟨rfl, rfl, p, key, hkp, hirr key, hirr key⟩
      obtain ⟨a1, i, j, hpl, post⟩ := partLoop_spec cmp key a (a.length + 2) a 0 ((a.length : Int) - 1) inv (by omega)
      rw [hpl]
      simp only
      have hlen1 : a1.length = a.length := post.perm.length_eq
      have hjlo := post.jlo
      have hilo := post.ilo
      have hjhi := post.jhi
      have hji := post.ji
      -- order facts (only meaningful for a consistent comparator)
      have hLE : Consistent cmp → ∀ k x, k < i → a1[k]? = some x → cmp x key ≤ 0 := by
        intro hc k x hk hkx
        rcases post.L k x hk hkx with h | h
        · omega
        · exact hc.le_of_not_lt h
      have hGE : Consistent cmp → ∀ x ∈ a1.drop (j + 1).toNat, cmp key x ≤ 0 := by
        intro hc x hx
        obtain ⟨k, hk, hkx⟩ := mem_drop_getElem? hx
        rcases post.R k x (by omega) hkx with h | h
        · omega
        · exact hc.le_of_not_lt h
      generalize hjn : (j + 1).toNat = jn at hGE
      have hjni : jn ≤ i := by omega
      have hjnl : jn + 1 ≤ a.length := by omega
      -- left recursion
      have hleft : ∃ lft rs2, lft.Perm (a1.take jn) ∧ (Consistent cmp → Sorted cmp lft) ∧
          (if j > 0 then
              (qsortF cmp f rs1 (a1.take (j.toNat + 1))).map fun (s, rs) => (s ++ a1.drop (j.toNat + 1), rs)
            else some (a1, rs1)) = some (lft ++ a1.drop jn, rs2) := by
        by_cases hj0 : j > 0
        · simp only [hj0, if_true]
          have e : j.toNat + 1 = jn := by omega
          rw [e]
          obtain ⟨s, rs2, hs, hsp, hss⟩ := ih rs1 (a1.take jn) (by rw [List.length_take]; omega)
          exact ⟨s, rs2, hsp, hss, by rw [hs]; rfl⟩
        · simp only [hj0, if_false]
          refine ⟨a1.take jn, rs1, List.Perm.refl _, fun _ => sorted_short cmp _ (by rw [List.length_take]; omega), ?_⟩
          rw [List.take_append_drop]
      obtain ⟨lft, rs2, hlp, hls, hleq⟩ := hleft
      rw [hleq]
      simp only
      have hlftlen : lft.length = jn := by rw [hlp.length_eq, List.length_take]; omega
      -- right recursion
      have htake : (lft ++ a1.drop jn).take i = lft ++ (a1.drop jn).take (i - jn) := by
        rw [List.take_append, List.take_of_length_le (by omega), hlftlen]
      have hdrop : (lft ++ a1.drop jn).drop i = (a1.drop jn).drop (i - jn) := by
        rw [List.drop_append, List.drop_of_length_le (by omega), hlftlen, List.nil_append]
      have hlen2 : (lft ++ a1.drop jn).length = a.length := by
        rw [List.length_append, hlftlen, List.length_drop]; omega
      have hright : ∃ rgt rs3, rgt.Perm ((a1.drop jn).drop (i - jn)) ∧ (Consistent cmp → Sorted cmp rgt) ∧
          (if i < a.length - 1 then
              (qsortF cmp f rs2 ((lft ++ a1.drop jn).drop i)).map fun (s, rs) => ((lft ++ a1.drop jn).take i ++ s, rs)
            else some (lft ++ a1.drop jn, rs2)) = some (lft ++ ((a1.drop jn).take (i - jn) ++ rgt), rs3) := by
        by_cases hi0 : i < a.length - 1
        · simp only [hi0, if_true]
          rw [hdrop, htake]
          obtain ⟨s, rs3, hs, hsp, hss⟩ := ih rs2 ((a1.drop jn).drop (i - jn)) (by simp only [List.length_drop]; omega)
          exact ⟨s, rs3, hsp, hss, by rw [hs]; simp [List.append_assoc]⟩
        · simp only [hi0, if_false]
          refine ⟨(a1.drop jn).drop (i - jn), rs2, List.Perm.refl _, fun _ => sorted_short cmp _ (by simp only [List.length_drop]; omega), ?_⟩
          rw [List.take_append_drop]
      obtain ⟨rgt, rs3, hrp, hrs, hreq⟩ := hright
      simp only at hreq ⊢
      rw [hreq]
      refine ⟨_, _, rfl, ?_, ?_⟩
      · -- permutation
        have h1 : (lft ++ ((a1.drop jn).take (i - jn) ++ rgt)).Perm (a1.take jn ++ ((a1.drop jn).take (i - jn) ++ (a1.drop jn).drop (i - jn))) :=
          hlp.append ((List.Perm.refl _).append hrp)
        rw [List.take_append_drop, List.take_append_drop] at h1
        exact h1.trans post.perm
      · intro hc
        apply sorted_append3 cmp key hc
        · intro x hx
          have : x ∈ a1.take jn := hlp.mem_iff.1 hx
          obtain ⟨k, hk, hkx⟩ := mem_take_getElem? this
          exact hLE hc k x (by omega) hkx
        · intro x hx
          constructor
          · obtain ⟨k, hk, hkx⟩ := mem_take_getElem? hx
            rw [List.getElem?_drop] at hkx
            exact hLE hc (jn + k) x (by omega) hkx
          · exact hGE hc x (List.mem_of_mem_take hx)
        · intro x hx
          have : x ∈ (a1.drop jn).drop (i - jn) := hrp.mem_iff.1 hx
          exact hGE hc x (List.mem_of_mem_drop this)
        · exact hls hc
        · exact hrs hc
end

/-! ## strto* -/
section strto
open Igris.Proto (Byte)


theorem isspace_rd : ∀ (u : Bool) (b : Byte), isspace (rd u b) = Spec.isSpace b := by decide +kernel

theorem digitOf_rd : ∀ (u : Bool) (b : Byte),
    digitOf (rd u b) = if Spec.digit b < 36 then some ((Spec.digit b : Nat) : Int) else none := by decide +kernel

theorem isxdigit_toNat : ∀ (b : Byte), isxdigit (b.toNat : Int) = decide (Spec.digit b < 16) := by decide +kernel

theorem rd_eq_lit : ∀ (u : Bool) (b : Byte),
    (rd u b = 48 ↔ b.toNat = 48) ∧ (rd u b = 45 ↔ b.toNat = 45) ∧ (rd u b = 43 ↔ b.toNat = 43) := by decide +kernel

theorem byte_eq_lit : ∀ (b : Byte), ((b = 120 ∨ b = 88) ↔ (b.toNat = 120 ∨ b.toNat = 88)) := by decide +kernel

theorem digit_le : ∀ (b : Byte), Spec.digit b ≤ 36 := by decide +kernel
theorem digit_zero : Spec.digit (0 : Byte) = 36 := by decide
theorem isSpace_zero : Spec.isSpace (0 : Byte) = false := by decide

/-- the cutoff/cutlim test is exactly "one more digit would exceed the limit" -/
theorem cutoff_test (limit base N d : Nat) (hb : 0 < base) (hd : d < base) :
    (N > limit / base ∨ (N = limit / base ∧ d > limit % base)) ↔ N * base + d > limit := by
  have h1 := Nat.div_add_mod limit base
  have h2 := Nat.mod_lt limit hb
  generalize limit / base = q at *
  generalize limit % base = r at *
  rw [Nat.mul_comm] at h1
  constructor
  · rintro (h | ⟨h, h'⟩)
    · have := Nat.mul_le_mul_right base (show q + 1 ≤ N from h)
      rw [Nat.add_mul] at this
      omega
    · subst h; omega
  · intro h
    rcases Nat.lt_trichotomy N q with h3 | h3 | h3
    · have := Nat.mul_le_mul_right base (show N + 1 ≤ q from h3)
      rw [Nat.add_mul] at this
      omega
    · subst h3; right; exact ⟨rfl, by omega⟩
    · left; exact h3

/-- state of the unsigned digit loop after a digit string of value `N`
(`ne`: at least one digit) -/
def GoodU (limit : Nat) (ovf : Option Nat) (N : Nat) (ne : Bool) (st : Nat × Int) : Prop :=
  (ne = false → N = 0 ∧ st = (0, 0)) ∧
  (ne = true → N ≤ limit → st = (N, 1)) ∧
  (ne = true → limit < N → st.2 = -1 ∧ ∀ v, ovf = some v → st.1 = v)

theorem stepU_good (W base limit : Nat) (ovf : Option Nat) (hb : 0 < base) (hW : limit < W)
    (N : Nat) (ne : Bool) (st : Nat × Int) (d : Nat) (hd : d < base) (g : GoodU limit ovf N ne st) :
    GoodU limit ovf (N * base + d) true (stepU W base (limit / base) ((limit % base : Nat) : Int) ovf st (d : Int)) := by
  obtain ⟨g1, g2, g3⟩ := g
  have hmono : N ≤ N * base + d := by
    have := Nat.mul_le_mul_left N (show 1 ≤ base from hb)
    omega
  have key := cutoff_test limit base N d hb hd
  unfold stepU
  by_cases hne : ne = true
  · by_cases hN : N ≤ limit
    · have hst := g2 hne hN
      subst hst
      have hcond : ((N > limit / base ∨ (N = limit / base ∧ (d : Int) > ((limit % base : Nat) : Int))) ↔ N * base + d > limit) := by
        rw [← key]
        constructor
        · rintro (h | ⟨h, h'⟩)
          · left; exact h
          · right; exact ⟨h, by omega⟩
        · rintro (h | ⟨h, h'⟩)
          · left; exact h
          · right; exact ⟨h, by omega⟩
      simp only [show ¬ ((1 : Int) < 0) by omega, if_false]
      by_cases hov : N * base + d > limit
      · rw [if_pos (hcond.2 hov)]
        refine ⟨(by intro h; cases h), (by intro _ h; omega), ?_⟩
        intro _ _
        refine ⟨rfl, ?_⟩
        intro v hv; simp [hv]
      · rw [if_neg (fun h => hov (hcond.1 h))]
        refine ⟨(by intro h; cases h), ?_, (by intro _ h; omega)⟩
        intro _ _
        have : (N * base + (d : Int).toNat) % W = N * base + d := by
          simp only [Int.toNat_natCast]
          exact Nat.mod_eq_of_lt (by omega)
        rw [this]
    · have hst := g3 hne (by omega)
      simp only [hst.1, show ((-1 : Int) < 0) by omega, if_true]
      refine ⟨(by intro h; cases h), (by intro _ h; omega), ?_⟩
      intro _ _
      exact hst
  · have hne' : ne = false := by cases ne <;> simp_all
    obtain ⟨hN0, hst⟩ := g1 hne'
    subst hN0; subst hst
    have hcond : (((0 : Nat) > limit / base ∨ ((0 : Nat) = limit / base ∧ (d : Int) > ((limit % base : Nat) : Int))) ↔ 0 * base + d > limit) := by
      rw [← key]
      constructor
      · rintro (h | ⟨h, h'⟩)
        · left; exact h
        · right; exact ⟨h, by omega⟩
      · rintro (h | ⟨h, h'⟩)
        · left; exact h
        · right; exact ⟨h, by omega⟩
    simp only [show ¬ ((0 : Int) < 0) by omega, if_false]
    by_cases hov : 0 * base + d > limit
    · rw [if_pos (hcond.2 hov)]
      refine ⟨(by intro h; cases h), (by intro _ h; omega), ?_⟩
      intro _ _
      refine ⟨rfl, ?_⟩
      intro v hv; simp [hv]
    · rw [if_neg (fun h => hov (hcond.1 h))]
      refine ⟨(by intro h; cases h), ?_, (by intro _ h; omega)⟩
      intro _ _
      have : (0 * base + (d : Int).toNat) % W = 0 * base + d := by
        simp only [Int.toNat_natCast]
        exact Nat.mod_eq_of_lt (by omega)
      rw [this]

theorem foldU_good (W base limit : Nat) (ovf : Option Nat) (hb : 0 < base) (hW : limit < W) :
    ∀ (ds : List Nat) (N : Nat) (ne : Bool) (st : Nat × Int), (∀ d ∈ ds, d < base) → GoodU limit ovf N ne st →
    GoodU limit ovf (ds.foldl (fun a d => a * base + d) N) (ne || !ds.isEmpty)
      (ds.foldl (fun st (d : Nat) => stepU W base (limit / base) ((limit % base : Nat) : Int) ovf st (d : Int)) st) := by
  intro ds
  induction ds with
  | nil => intro N ne st _ g; simpa using g
  | cons d ds ih =>
    intro N ne st hds g
    simp only [List.foldl_cons]
    have := ih (N * base + d) true _ (fun x hx => hds x (List.mem_cons_of_mem _ hx))
      (stepU_good W base limit ovf hb hW N ne st d (hds d List.mem_cons_self) g)
    simpa using this

theorem loopU_spec (W base cutoff : Nat) (cutlim : Int) (lp : Bool) (ovf : Option Nat) (hb36 : base ≤ 36) :
    ∀ (bs : List Byte) (stop : Byte) (tail : List Byte), (∀ x ∈ bs, Spec.digit x < base) → ¬ Spec.digit stop < base →
    ∀ (cb : Byte) (rest : List Byte), cb :: rest = bs ++ stop :: tail → ∀ (u : Bool) (off : Nat) (st : Nat × Int),
    loopU W base cutoff cutlim lp ovf rest (rd u cb) off st =
      some (((bs.map Spec.digit).foldl (fun st (d : Nat) => stepU W base cutoff cutlim ovf st (d : Int)) st).1,
            ((bs.map Spec.digit).foldl (fun st (d : Nat) => stepU W base cutoff cutlim ovf st (d : Int)) st).2,
            off + bs.length) := by
  intro bs
  induction bs with
  | nil =>
    intro stop tail _ hstop cb rest heq u off st
    simp only [List.nil_append, List.cons.injEq] at heq
    obtain ⟨h1, h2⟩ := heq
    subst h1; subst h2
    unfold loopU
    rw [digitOf_rd]
    by_cases h36 : Spec.digit cb < 36
    · simp only [h36, if_true]
      have : ((Spec.digit cb : Nat) : Int) ≥ (base : Int) := by omega
      simp only [this, if_true, List.map_nil, List.foldl_nil, List.length_nil, Nat.add_zero]
    · simp only [h36, if_false, List.map_nil, List.foldl_nil, List.length_nil, Nat.add_zero]
  | cons x bs ih =>
    intro stop tail hbs hstop cb rest heq u off st
    simp only [List.cons_append, List.cons.injEq] at heq
    obtain ⟨h1, h2⟩ := heq
    subst h1
    have hx := hbs cb List.mem_cons_self
    unfold loopU
    rw [digitOf_rd]
    have h36 : Spec.digit cb < 36 := by omega
    simp only [h36, if_true]
    have : ¬ ((Spec.digit cb : Nat) : Int) ≥ (base : Int) := by omega
    simp only [this, if_false]
    -- the next character exists: it is a digit of the run or the stopping character
    have hne : ∃ cb' rest', cb' :: rest' = bs ++ stop :: tail := by
      cases bs with
      | nil => exact ⟨stop, tail, rfl⟩
      | cons y ys => exact ⟨y, ys ++ stop :: tail, rfl⟩
    obtain ⟨cb', rest', heq'⟩ := hne
    rw [h2, ← heq']
    simp only
    rw [ih stop tail (fun y hy => hbs y (List.mem_cons_of_mem _ hy)) hstop cb' rest' heq' lp (off + 1)]
    simp only [List.map_cons, List.foldl_cons, List.length_cons]
    congr 2
    congr 1
    omega

theorem skipWs_spec (u : Bool) : ∀ (t : List Byte) (off : Nat),
    ∃ cb rest, cb :: rest = t.dropWhile Spec.isSpace ++ [0] ∧
      skipWs u (t ++ [0]) off = some (rd u cb, rest, off + (t.takeWhile Spec.isSpace).length + 1) := by
  intro t
  induction t with
  | nil =>
    intro off
    refine ⟨0, [], rfl, ?_⟩
    simp only [List.nil_append, skipWs, isspace_rd, isSpace_zero, List.takeWhile_nil, List.length_nil]
    rfl
  | cons c t ih =>
    intro off
    by_cases hc : Spec.isSpace c = true
    · obtain ⟨cb, rest, h1, h2⟩ := ih (off + 1)
      refine ⟨cb, rest, ?_, ?_⟩
      · simp only [List.dropWhile_cons, hc, if_true]; exact h1
      · simp only [List.cons_append, skipWs, isspace_rd, hc, if_true, h2, List.takeWhile_cons, List.length_cons]
        congr 3; omega
    · have hc' : Spec.isSpace c = false := by cases h : Spec.isSpace c <;> simp_all
      refine ⟨c, t ++ [0], ?_, ?_⟩
      · simp only [List.dropWhile_cons, hc', List.cons_append]; rfl
      · simp only [List.cons_append, skipWs, isspace_rd, hc', List.takeWhile_cons, List.length_nil]
        rfl

theorem signStep_spec (R : Reads) (t1 : List Byte) (cb : Byte) (rest : List Byte) (h : cb :: rest = t1 ++ [0])
    (u : Bool) (off : Nat) :
    ∃ cb2 rest2 u2, cb2 :: rest2 = (Spec.sign t1).2.2 ++ [0] ∧
      signStep R (rd u cb) rest off = some ((Spec.sign t1).1, rd u2 cb2, rest2, off + (Spec.sign t1).2.1) := by
  obtain ⟨l48, l45, l43⟩ := rd_eq_lit u cb
  cases t1 with
  | nil =>
    simp only [List.nil_append, List.cons.injEq] at h
    obtain ⟨h1, h2⟩ := h
    subst h1; subst h2
    refine ⟨0, [], u, rfl, ?_⟩
    have a : ¬ rd u (0 : Byte) = 45 := by rw [(rd_eq_lit u 0).2.1]; decide
    have b : ¬ rd u (0 : Byte) = 43 := by rw [(rd_eq_lit u 0).2.2]; decide
    simp only [signStep, a, b, if_false, Spec.sign, Nat.add_zero]
  | cons b r =>
    simp only [List.cons_append, List.cons.injEq] at h
    obtain ⟨h1, h2⟩ := h
    subst h1; subst h2
    -- the character after the sign exists
    have hne : ∃ cb2 rest2, cb2 :: rest2 = r ++ [0] := by
      cases r with
      | nil => exact ⟨0, [], rfl⟩
      | cons y ys => exact ⟨y, ys ++ [0], rfl⟩
    obtain ⟨cb2, rest2, heq⟩ := hne
    by_cases h45 : cb.toNat = 45
    · refine ⟨cb2, rest2, R.sg, ?_, ?_⟩
      · simp only [Spec.sign, h45, if_true]; exact heq
      · simp only [signStep, l45.2 h45, if_true, ← heq, Spec.sign, h45]
    · by_cases h43 : cb.toNat = 43
      · refine ⟨cb2, rest2, R.sg, ?_, ?_⟩
        · simp only [Spec.sign, h45, h43, if_true, if_false]; exact heq
        · have : ¬ rd u cb = 45 := fun h => h45 (l45.1 h)
          simp only [signStep, l43.2 h43, ← heq, Spec.sign, h43]
          simp
      · refine ⟨cb, r ++ [0], u, ?_, ?_⟩
        · simp only [Spec.sign, h45, h43, if_false]; rfl
        · have a : ¬ rd u cb = 45 := fun h => h45 (l45.1 h)
          have b : ¬ rd u cb = 43 := fun h => h43 (l43.1 h)
          simp only [signStep, a, b, if_false, Spec.sign, h45, h43, Nat.add_zero]

theorem base0_eff (u : Bool) (base : Nat) (t2 : List Byte) (cb : Byte) (rest : List Byte) (h : cb :: rest = t2 ++ [0]) :
    base0 (rd u cb) base = Spec.effBase base false t2 := by
  obtain ⟨l48, _, _⟩ := rd_eq_lit u cb
  unfold base0 Spec.effBase
  cases t2 with
  | nil =>
    simp only [List.nil_append, List.cons.injEq] at h
    obtain ⟨h1, _⟩ := h
    subst h1
    have : ¬ rd u (0#8) = 48 := by rw [(rd_eq_lit u 0#8).1]; decide
    simp [this]
  | cons z r =>
    simp only [List.cons_append, List.cons.injEq] at h
    obtain ⟨h1, _⟩ := h
    subst h1
    by_cases h48 : cb.toNat = 48
    · simp [l48.2 h48, h48]
    · have : ¬ rd u cb = 48 := fun h => h48 (l48.1 h)
      simp [this, h48]

theorem prefixStep_spec (R : Reads) (base : Nat) (t2 : List Byte) (cb : Byte) (rest : List Byte)
    (h : cb :: rest = t2 ++ [0]) (u : Bool) (off : Nat) (neg : Bool) :
    ∃ cb3 rest3 u3,
      cb3 :: rest3 = (if (decide (base = 0 ∨ base = 16) && Spec.hexPrefix t2) = true then t2.drop 2 else t2) ++ [0] ∧
      prefixStep R base neg (rd u cb) rest off =
        some ⟨neg, rd u3 cb3, rest3, off + (if (decide (base = 0 ∨ base = 16) && Spec.hexPrefix t2) = true then 2 else 0),
              Spec.effBase base (decide (base = 0 ∨ base = 16) && Spec.hexPrefix t2) t2⟩ := by
  obtain ⟨l48, _, _⟩ := rd_eq_lit u cb
  have hb0 := base0_eff u base t2 cb rest h
  -- the fall-through answer (no prefix consumed)
  have fall : (decide (base = 0 ∨ base = 16) && Spec.hexPrefix t2) = false →
      prefixStep R base neg (rd u cb) rest off = some ⟨neg, rd u cb, rest, off, base0 (rd u cb) base⟩ →
      ∃ cb3 rest3 u3,
      cb3 :: rest3 = (if (decide (base = 0 ∨ base = 16) && Spec.hexPrefix t2) = true then t2.drop 2 else t2) ++ [0] ∧
      prefixStep R base neg (rd u cb) rest off =
        some ⟨neg, rd u3 cb3, rest3, off + (if (decide (base = 0 ∨ base = 16) && Spec.hexPrefix t2) = true then 2 else 0),
              Spec.effBase base (decide (base = 0 ∨ base = 16) && Spec.hexPrefix t2) t2⟩ := by
    intro hh hp
    refine ⟨cb, rest, u, ?_, ?_⟩
    · simp only [hh]; exact h
    · rw [hp, hh, hb0]; simp
  by_cases hcond : (base = 0 ∨ base = 16) ∧ rd u cb = 48
  · obtain ⟨hbase, hc48⟩ := hcond
    have h48 := l48.1 hc48
    cases t2 with
    | nil =>
      simp only [List.nil_append, List.cons.injEq] at h
      obtain ⟨h1, _⟩ := h
      subst h1
      exact absurd h48 (by decide)
    | cons z r =>
      simp only [List.cons_append, List.cons.injEq] at h
      obtain ⟨h1, h2⟩ := h
      subst h1
      cases r with
      | nil =>
        subst h2
        apply fall
        · simp [Spec.hexPrefix]
        · simp only [prefixStep, hbase, hc48, and_self, if_true, List.nil_append]
          have : ¬ ((0 : Byte) = 120 ∨ (0 : Byte) = 88) := by decide
          simp only [this, if_false]
      | cons x r' =>
        by_cases hx : x = 120 ∨ x = 88
        · cases r' with
          | nil =>
            subst h2
            apply fall
            · simp [Spec.hexPrefix]
            · simp only [prefixStep, hbase, hc48, and_self, if_true, List.cons_append, List.nil_append, hx]
              have : ¬ (isxdigit ((0 : Byte).toNat : Int) = true) := by decide
              simp only [this, if_false]
              simp
          | cons y r'' =>
            subst h2
            by_cases hy : Spec.digit y < 16
            · have hhex : (decide (base = 0 ∨ base = 16) && Spec.hexPrefix (cb :: x :: y :: r'')) = true := by
                have := (byte_eq_lit x).1 hx
                simp only [Spec.hexPrefix, hbase, decide_true, Bool.true_and, h48, hy, Bool.and_true]
                rcases this with h | h <;> simp [h]
              refine ⟨y, r'' ++ [0], R.sg, ?_, ?_⟩
              · simp only [hhex, if_true, List.drop_succ_cons, List.drop_zero, List.cons_append]
              · simp only [hhex]
                simp only [prefixStep, hbase, hc48, and_self, if_true, List.cons_append, hx, isxdigit_toNat, hy, decide_true,
                  Spec.effBase, base0]
                simp
            · apply fall
              · have : ¬ (Spec.digit y < 16) := hy
                simp [Spec.hexPrefix, this]
              · simp only [prefixStep, hbase, hc48, and_self, if_true, List.cons_append, hx, isxdigit_toNat, hy, decide_false]
                simp
        · subst h2
          apply fall
          · have := fun h => hx ((byte_eq_lit x).2 h)
            have a : ¬ x.toNat = 120 := fun h => this (Or.inl h)
            have b : ¬ x.toNat = 88 := fun h => this (Or.inr h)
            cases r' <;> simp [Spec.hexPrefix, a, b]
          · simp only [prefixStep, hbase, hc48, and_self, if_true, List.cons_append, hx, if_false]
  · apply fall
    · by_cases hbase : base = 0 ∨ base = 16
      · have hc : ¬ rd u cb = 48 := fun h => hcond ⟨hbase, h⟩
        have h48 : ¬ cb.toNat = 48 := fun h => hc (l48.2 h)
        cases t2 with
        | nil => simp [Spec.hexPrefix]
        | cons z r =>
          simp only [List.cons_append, List.cons.injEq] at h
          obtain ⟨h1, _⟩ := h
          subst h1
          match r with
          | [] => simp [Spec.hexPrefix]
          | [_] => simp [Spec.hexPrefix]
          | _ :: _ :: _ => simp [Spec.hexPrefix, h48]
      · simp [hbase]
    · simp only [prefixStep, hcond, if_false]

theorem front_spec (R : Reads) (t : List Byte) (base : Nat) :
    ∃ cb rest u,
      cb :: rest = (if (decide (base = 0 ∨ base = 16) && Spec.hexPrefix (Spec.sign (t.dropWhile Spec.isSpace)).2.2) = true
          then (Spec.sign (t.dropWhile Spec.isSpace)).2.2.drop 2 else (Spec.sign (t.dropWhile Spec.isSpace)).2.2) ++ [0] ∧
      front R (t ++ [0]) base = some ⟨(Spec.sign (t.dropWhile Spec.isSpace)).1, rd u cb, rest,
        (t.takeWhile Spec.isSpace).length + (Spec.sign (t.dropWhile Spec.isSpace)).2.1 +
          (if (decide (base = 0 ∨ base = 16) && Spec.hexPrefix (Spec.sign (t.dropWhile Spec.isSpace)).2.2) = true then 2 else 0) + 1,
        Spec.effBase base (decide (base = 0 ∨ base = 16) && Spec.hexPrefix (Spec.sign (t.dropWhile Spec.isSpace)).2.2)
          (Spec.sign (t.dropWhile Spec.isSpace)).2.2⟩ := by
  obtain ⟨cb1, rest1, e1, h1⟩ := skipWs_spec R.ws t 0
  obtain ⟨cb2, rest2, u2, e2, h2⟩ := signStep_spec R (t.dropWhile Spec.isSpace) cb1 rest1 e1 R.ws (0 + (t.takeWhile Spec.isSpace).length + 1)
  obtain ⟨cb3, rest3, u3, e3, h3⟩ := prefixStep_spec R base (Spec.sign (t.dropWhile Spec.isSpace)).2.2 cb2 rest2 e2 u2
    (0 + (t.takeWhile Spec.isSpace).length + 1 + (Spec.sign (t.dropWhile Spec.isSpace)).2.1) (Spec.sign (t.dropWhile Spec.isSpace)).1
  refine ⟨cb3, rest3, u3, e3, ?_⟩
  unfold front
  rw [h1]; simp only
  rw [h2]; simp only
  rw [h3]
  congr 2
  omega

theorem run_split (b : Nat) (hb : b ≤ 36) : ∀ (t3 : List Byte),
    ∃ stop tail, t3 ++ [0] = t3.takeWhile (fun x => decide (Spec.digit x < b)) ++ stop :: tail ∧ ¬ Spec.digit stop < b := by
  intro t3
  induction t3 with
  | nil => exact ⟨0, [], rfl, by rw [show Spec.digit (0 : Byte) = 36 by decide]; omega⟩
  | cons x xs ih =>
    by_cases hx : Spec.digit x < b
    · obtain ⟨stop, tail, h1, h2⟩ := ih
      refine ⟨stop, tail, ?_, h2⟩
      simp only [List.takeWhile_cons, hx, decide_true, if_true, List.cons_append, h1]
    · refine ⟨x, xs ++ [0], ?_, hx⟩
      simp only [List.takeWhile_cons, hx, decide_false, List.cons_append, List.nil_append]
      rfl

theorem digits_eq (b : Nat) (t3 : List Byte) :
    Spec.digits b t3 = (t3.takeWhile (fun x => decide (Spec.digit x < b))).map Spec.digit := by
  unfold Spec.digits
  rw [List.takeWhile_map]
  rfl

theorem effBase_range (base : Nat) (hbase : base = 0 ∨ (2 ≤ base ∧ base ≤ 36)) (hex : Bool) (t2 : List Byte) :
    2 ≤ Spec.effBase base hex t2 ∧ Spec.effBase base hex t2 ≤ 36 := by
  unfold Spec.effBase
  split
  · omega
  · split
    · split <;> omega
    · omega


theorem mem_takeWhile_sat {α : Type} {p : α → Bool} : ∀ {l : List α} {x : α}, x ∈ l.takeWhile p → p x = true := by
  intro l
  induction l with
  | nil => intro x h; simp at h
  | cons y ys ih =>
    intro x h
    rw [List.takeWhile_cons] at h
    by_cases hy : p y = true
    · simp only [hy, if_true, List.mem_cons] at h
      rcases h with h | h
      · rw [h]; exact hy
      · exact ih h
    · simp [hy] at h

theorem loopU_good (W b limit : Nat) (ovf : Option Nat) (lp : Bool) (hb2 : 2 ≤ b) (hb36 : b ≤ 36) (hW : limit < W)
    (t3 : List Byte) (cb : Byte) (rest : List Byte) (h : cb :: rest = t3 ++ [0]) (u : Bool) (off : Nat) :
    ∃ st : Nat × Int,
      loopU W b (limit / b) ((limit % b : Nat) : Int) lp ovf rest (rd u cb) off (0, 0) =
        some (st.1, st.2, off + (Spec.digits b t3).length) ∧
      GoodU limit ovf (Spec.ofDigits b (Spec.digits b t3)) (!(Spec.digits b t3).isEmpty) st := by
  obtain ⟨stop, tail, hsplit, hstop⟩ := run_split b hb36 t3
  have hrun := loopU_spec W b (limit / b) ((limit % b : Nat) : Int) lp ovf hb36
    (t3.takeWhile (fun x => decide (Spec.digit x < b))) stop tail
    (by intro x hx; have := mem_takeWhile_sat hx; simpa using this) hstop cb rest (by rw [h, hsplit]) u off (0, 0)
  refine ⟨((t3.takeWhile (fun x => decide (Spec.digit x < b))).map Spec.digit).foldl
    (fun st (d : Nat) => stepU W b (limit / b) ((limit % b : Nat) : Int) ovf st (d : Int)) (0, 0), ?_, ?_⟩
  · rw [hrun, digits_eq, List.length_map]
  · rw [digits_eq]
    have g0 : GoodU limit ovf 0 false ((0 : Nat), (0 : Int)) :=
      ⟨fun _ => ⟨rfl, rfl⟩, (by intro h; cases h), (by intro h; cases h)⟩
    have := foldU_good W b limit ovf (by omega) hW
      ((t3.takeWhile (fun x => decide (Spec.digit x < b))).map Spec.digit) 0 false (0, 0)
      (by
        intro d hd
        obtain ⟨x, hx, rfl⟩ := List.mem_map.1 hd
        have := mem_takeWhile_sat hx; simpa using this) g0
    simpa [Spec.ofDigits] using this

theorem pow_split (w : Nat) (hw : 0 < w) : 2 ^ w = 2 * 2 ^ (w - 1) ∧ 0 < 2 ^ (w - 1) := by
  have : w = (w - 1) + 1 := by omega
  constructor
  · conv => lhs; rw [this, Nat.pow_succ]
    omega
  · exact Nat.two_pow_pos _

theorem strtoSU_spec (w : Nat) (hw : 0 < w) (R : Reads) (t : List Byte) (base : Nat)
    (hbase : base = 0 ∨ (2 ≤ base ∧ base ≤ 36)) :
    strtoSU w R (t ++ [0]) base = some (Spec.signedResult w (Spec.parse t base)) := by
  obtain ⟨cb, rest, u, hcb, hfront⟩ := front_spec R t base
  obtain ⟨hW2, hH0⟩ := pow_split w hw
  generalize hsg : Spec.sign (t.dropWhile Spec.isSpace) = sg at hcb hfront
  generalize hhex : (decide (base = 0 ∨ base = 16) && Spec.hexPrefix sg.2.2) = hex at hcb hfront
  obtain ⟨hb2, hb36⟩ := effBase_range base hbase hex sg.2.2
  generalize hb : Spec.effBase base hex sg.2.2 = b at hfront hb2 hb36
  generalize ht3 : (if hex = true then sg.2.2.drop 2 else sg.2.2) = t3 at hcb
  have hHi : (2 : Int) ^ (w - 1) = ((2 ^ (w - 1) : Nat) : Int) := by norm_cast
  have hWi : (2 : Int) ^ w = ((2 ^ w : Nat) : Int) := by norm_cast
  generalize hH : 2 ^ (w - 1) = H at *
  generalize hWW : 2 ^ w = W at *
  obtain ⟨st, hloop, hgood⟩ := loopU_good W b (if sg.1 = true then H else H - 1) none R.lp hb2 hb36
    (by split <;> omega) t3 cb rest hcb u
    ((t.takeWhile Spec.isSpace).length + sg.2.1 + (if hex = true then 2 else 0) + 1)
  unfold strtoSU
  rw [hfront]
  simp only [hH, hWW]
  rw [hloop]
  simp only
  -- the specification side
  have hparse : Spec.parse t base =
      if Spec.digits b t3 = [] then none
      else some ⟨sg.1, Spec.ofDigits b (Spec.digits b t3),
        (t.takeWhile Spec.isSpace).length + sg.2.1 + (if hex = true then 2 else 0) + (Spec.digits b t3).length⟩ := by
    unfold Spec.parse
    simp only [hsg, hhex, hb, ht3]
  rw [hparse]
  obtain ⟨g1, g2, g3⟩ := hgood
  by_cases hds : Spec.digits b t3 = []
  · obtain ⟨_, hst⟩ := g1 (by simp [hds])
    simp only [hds, if_true, Spec.signedResult]
    rw [hst]
    simp only [endOff, asSigned, hH]
    simp [hH0]
  · have hne : (!(Spec.digits b t3).isEmpty) = true := by
      cases h : Spec.digits b t3 with
      | nil => exact absurd h hds
      | cons _ _ => rfl
    have hlen : 0 < (Spec.digits b t3).length := by
      cases h : Spec.digits b t3 with
      | nil => exact absurd h hds
      | cons _ _ => simp
    simp only [hds, if_false, Spec.signedResult, hHi]
    generalize Spec.ofDigits b (Spec.digits b t3) = mag at *
    generalize (Spec.digits b t3).length = len at *
    by_cases hfit : mag ≤ (if sg.1 = true then H else H - 1)
    · have hst := g2 hne hfit
      rw [hst]
      simp only [endOff, asSigned, hH, hWW, hWi]
      have hmod : (W - mag) % W = if mag = 0 then 0 else W - mag := by
        by_cases hm0 : mag = 0
        · subst hm0; simp
        · simp only [hm0, if_false]; exact Nat.mod_eq_of_lt (by omega)
      rw [hmod]
      cases hneg : sg.1 <;> simp only [hneg] at hfit <;> simp only [Bool.false_eq_true, if_false, if_true] at hfit ⊢ <;>
        refine congrArg some (Prod.ext ?_ ?_) <;> simp only [] <;> (repeat' split) <;> omega
    · have hst := g3 hne (by omega)
      obtain ⟨hany, _⟩ := hst
      simp only [hany, endOff, asSigned, hH, hWW, hWi]
      cases hneg : sg.1 <;> simp only [hneg] at hfit <;> simp only [Bool.false_eq_true, if_false, if_true] at hfit ⊢ <;>
        refine congrArg some (Prod.ext ?_ ?_) <;> simp only [] <;> (repeat' split) <;> omega

theorem strtoUU_spec (w : Nat) (R : Reads) (t : List Byte) (base : Nat)
    (hbase : base = 0 ∨ (2 ≤ base ∧ base ≤ 36)) :
    strtoUU w R (t ++ [0]) base = some (Spec.unsignedResult w (Spec.parse t base)) := by
  obtain ⟨cb, rest, u, hcb, hfront⟩ := front_spec R t base
  have hW0 : 0 < 2 ^ w := Nat.two_pow_pos _
  generalize hsg : Spec.sign (t.dropWhile Spec.isSpace) = sg at hcb hfront
  generalize hhex : (decide (base = 0 ∨ base = 16) && Spec.hexPrefix sg.2.2) = hex at hcb hfront
  obtain ⟨hb2, hb36⟩ := effBase_range base hbase hex sg.2.2
  generalize hb : Spec.effBase base hex sg.2.2 = b at hfront hb2 hb36
  generalize ht3 : (if hex = true then sg.2.2.drop 2 else sg.2.2) = t3 at hcb
  generalize hWW : 2 ^ w = W at *
  obtain ⟨st, hloop, hgood⟩ := loopU_good W b (W - 1) none R.lp hb2 hb36 (by omega) t3 cb rest hcb u
    ((t.takeWhile Spec.isSpace).length + sg.2.1 + (if hex = true then 2 else 0) + 1)
  unfold strtoUU
  rw [hfront]
  simp only [hWW]
  rw [hloop]
  simp only
  have hparse : Spec.parse t base =
      if Spec.digits b t3 = [] then none
      else some ⟨sg.1, Spec.ofDigits b (Spec.digits b t3),
        (t.takeWhile Spec.isSpace).length + sg.2.1 + (if hex = true then 2 else 0) + (Spec.digits b t3).length⟩ := by
    unfold Spec.parse
    simp only [hsg, hhex, hb, ht3]
  rw [hparse]
  obtain ⟨g1, g2, g3⟩ := hgood
  by_cases hds : Spec.digits b t3 = []
  · obtain ⟨_, hst⟩ := g1 (by simp [hds])
    simp only [hds, if_true, Spec.unsignedResult]
    rw [hst]
    simp [endOff]
  · have hne : (!(Spec.digits b t3).isEmpty) = true := by
      cases h : Spec.digits b t3 with
      | nil => exact absurd h hds
      | cons _ _ => rfl
    have hlen : 0 < (Spec.digits b t3).length := by
      cases h : Spec.digits b t3 with
      | nil => exact absurd h hds
      | cons _ _ => simp
    simp only [hds, if_false, Spec.unsignedResult, hWW]
    generalize Spec.ofDigits b (Spec.digits b t3) = mag at *
    generalize (Spec.digits b t3).length = len at *
    by_cases hfit : mag ≤ W - 1
    · have hst := g2 hne hfit
      rw [hst]
      simp only [endOff]
      generalize (W - mag) % W = nm
      refine congrArg some (Prod.ext ?_ ?_) <;> simp only [] <;> (repeat' split) <;> omega
    · have hst := g3 hne (by omega)
      obtain ⟨hany, _⟩ := hst
      simp only [hany, endOff]
      generalize (W - mag) % W = nm
      generalize (W - st.1) % W = nm'
      refine congrArg some (Prod.ext ?_ ?_) <;> simp only [] <;> (repeat' split) <;> omega

theorem strtoULL_spec (w : Nat) (R : Reads) (t : List Byte) (base : Nat)
    (hbase : base = 0 ∨ (2 ≤ base ∧ base ≤ 36)) :
    strtoULL w R (t ++ [0]) base = some (Spec.unsignedResult w (Spec.parse t base)) := by
  obtain ⟨cb, rest, u, hcb, hfront⟩ := front_spec R t base
  have hW0 : 0 < 2 ^ w := Nat.two_pow_pos _
  generalize hsg : Spec.sign (t.dropWhile Spec.isSpace) = sg at hcb hfront
  generalize hhex : (decide (base = 0 ∨ base = 16) && Spec.hexPrefix sg.2.2) = hex at hcb hfront
  obtain ⟨hb2, hb36⟩ := effBase_range base hbase hex sg.2.2
  generalize hb : Spec.effBase base hex sg.2.2 = b at hfront hb2 hb36
  generalize ht3 : (if hex = true then sg.2.2.drop 2 else sg.2.2) = t3 at hcb
  generalize hWW : 2 ^ w = W at *
  obtain ⟨st, hloop, hgood⟩ := loopU_good W b (W - 1) (some (W - 1)) R.lp hb2 hb36 (by omega) t3 cb rest hcb u
    ((t.takeWhile Spec.isSpace).length + sg.2.1 + (if hex = true then 2 else 0) + 1)
  unfold strtoULL
  rw [hfront]
  simp only [hWW]
  rw [hloop]
  simp only
  have hparse : Spec.parse t base =
      if Spec.digits b t3 = [] then none
      else some ⟨sg.1, Spec.ofDigits b (Spec.digits b t3),
        (t.takeWhile Spec.isSpace).length + sg.2.1 + (if hex = true then 2 else 0) + (Spec.digits b t3).length⟩ := by
    unfold Spec.parse
    simp only [hsg, hhex, hb, ht3]
  rw [hparse]
  obtain ⟨g1, g2, g3⟩ := hgood
  by_cases hds : Spec.digits b t3 = []
  · obtain ⟨_, hst⟩ := g1 (by simp [hds])
    simp only [hds, if_true, Spec.unsignedResult]
    rw [hst]
    simp [endOff]
  · have hne : (!(Spec.digits b t3).isEmpty) = true := by
      cases h : Spec.digits b t3 with
      | nil => exact absurd h hds
      | cons _ _ => rfl
    have hlen : 0 < (Spec.digits b t3).length := by
      cases h : Spec.digits b t3 with
      | nil => exact absurd h hds
      | cons _ _ => simp
    simp only [hds, if_false, Spec.unsignedResult, hWW]
    generalize Spec.ofDigits b (Spec.digits b t3) = mag at *
    generalize (Spec.digits b t3).length = len at *
    by_cases hfit : mag ≤ W - 1
    · have hst := g2 hne hfit
      rw [hst]
      simp only [endOff]
      generalize (W - mag) % W = nm
      cases sg.1 <;> refine congrArg some (Prod.ext ?_ ?_) <;> simp <;> omega
    · have hst := g3 hne (by omega)
      obtain ⟨hany, hacc⟩ := hst
      have hacc' := hacc (W - 1) rfl
      simp only [hany, hacc', endOff]
      generalize (W - mag) % W = nm
      generalize (W - (W - 1)) % W = nm'
      cases sg.1 <;> refine congrArg some (Prod.ext ?_ ?_) <;> simp <;> omega

/-! ### strtoll: the signed accumulator -/


/-- state of strtoll's signed digit loop after a digit string of value `N` -/
def GoodS (H : Nat) (neg : Bool) (N : Nat) (ne : Bool) (st : Int × Int) : Prop :=
  (ne = false → N = 0 ∧ st = (0, 0)) ∧
  (ne = true → N ≤ (if neg = true then H else H - 1) → st = (if neg = true then -(N : Int) else (N : Int), 1)) ∧
  (ne = true → (if neg = true then H else H - 1) < N → st = (if neg = true then -(H : Int) else (H : Int) - 1, -1))

theorem stepS_good (H b : Nat) (neg : Bool) (hH : 0 < H) (hb : 0 < b)
    (N : Nat) (ne : Bool) (st : Int × Int) (d : Nat) (hd : d < b) (g : GoodS H neg N ne st) :
    ∃ st', stepS (-(H : Int)) ((H : Int) - 1) (b : Int) neg
        (if neg = true then -(((if neg = true then H else H - 1) / b : Nat) : Int) else (((if neg = true then H else H - 1) / b : Nat) : Int))
        (((if neg = true then H else H - 1) % b : Nat) : Int) st (d : Int) = some st' ∧
      GoodS H neg (N * b + d) true st' := by
  obtain ⟨g1, g2, g3⟩ := g
  have hmono : N ≤ N * b + d := by
    have := Nat.mul_le_mul_left N (show 1 ≤ b from hb)
    omega
  have hNb : (N : Int) * (b : Int) = ((N * b : Nat) : Int) := by push_cast; rfl
  cases neg with
  | true =>
    simp only [if_true] at g2 g3 ⊢
    unfold GoodS
    simp only [if_true]
    generalize hlim : H = limit at g2 g3 ⊢
    have key := cutoff_test limit b N d hb hd
    have hq := Nat.div_add_mod limit b
    have hr := Nat.mod_lt limit hb
    generalize hqq : limit / b = q at *
    generalize hrr : limit % b = r at *
    have hcases : (ne = false ∧ N = 0 ∧ st = (0, 0)) ∨ (ne = true ∧ N ≤ limit ∧ st = (-(N : Int), 1)) ∨
        (ne = true ∧ limit < N ∧ st = (-(limit : Int), -1)) := by
      cases ne with
      | false => left; exact ⟨rfl, g1 rfl⟩
      | true =>
        right
        by_cases h : N ≤ limit
        · left; exact ⟨rfl, h, g2 rfl h⟩
        · right; exact ⟨rfl, by omega, g3 rfl (by omega)⟩

    rcases hcases with ⟨_, hN0, hst⟩ | ⟨_, hN, hst⟩ | ⟨_, hN, hst⟩
    · subst hN0; subst hst
      unfold stepS
      simp only [show ¬ ((0 : Int) < 0) by omega, if_false, Bool.false_eq_true, if_true]
      by_cases hov : 0 * b + d > limit
      · have hc : ((0 : Int) < -(q : Int) ∨ ((0 : Int) = -(q : Int) ∧ (d : Int) > (r : Int))) := by
          rcases key.2 hov with h | ⟨h, h'⟩
          · omega
          · right; constructor <;> omega
        rw [if_pos hc]
        refine ⟨_, rfl, ?_⟩
        refine ⟨(by intro h; cases h), (by intro _ h; omega), ?_⟩
        intro _ _; simp
      · have hc : ¬ ((0 : Int) < -(q : Int) ∨ ((0 : Int) = -(q : Int) ∧ (d : Int) > (r : Int))) := by
          intro h
          apply hov; apply key.1
          rcases h with h | ⟨h, h'⟩
          · omega
          · right; constructor <;> omega
        rw [if_neg hc]
        simp only [Int.zero_mul]
        rw [if_neg (by omega)]
        refine ⟨_, rfl, ?_⟩
        refine ⟨(by intro h; cases h), ?_, (by intro _ h; omega)⟩
        intro _ _; simp
    · subst hst
      unfold stepS
      simp only [show ¬ ((1 : Int) < 0) by omega, if_false, Bool.false_eq_true, if_true]
      by_cases hov : N * b + d > limit
      · have hc : (-(N : Int) < -(q : Int) ∨ (-(N : Int) = -(q : Int) ∧ (d : Int) > (r : Int))) := by
          rcases key.2 hov with h | ⟨h, h'⟩
          · omega
          · right; constructor <;> omega
        rw [if_pos hc]
        refine ⟨_, rfl, ?_⟩
        refine ⟨(by intro h; cases h), (by intro _ h; omega), ?_⟩
        intro _ _; simp
      · have hc : ¬ (-(N : Int) < -(q : Int) ∨ (-(N : Int) = -(q : Int) ∧ (d : Int) > (r : Int))) := by
          intro h
          apply hov; apply key.1
          rcases h with h | ⟨h, h'⟩
          · omega
          · right; constructor <;> omega
        rw [if_neg hc]
        simp only [Int.neg_mul, hNb]
        rw [if_neg (by omega)]
        refine ⟨_, rfl, ?_⟩
        refine ⟨(by intro h; cases h), ?_, (by intro _ h; omega)⟩
        intro _ _; simp <;> omega
    · subst hst
      unfold stepS
      simp only [show ((-1 : Int) < 0) by omega, if_true]
      refine ⟨_, rfl, ?_⟩
      refine ⟨(by intro h; cases h), (by intro _ h; omega), ?_⟩
      intro _ _; rfl
  | false =>
    simp only [Bool.false_eq_true, if_false] at g2 g3 ⊢
    unfold GoodS
    simp only [Bool.false_eq_true, if_false]
    generalize hlim : H - 1 = limit at g2 g3 ⊢
    have key := cutoff_test limit b N d hb hd
    have hq := Nat.div_add_mod limit b
    have hr := Nat.mod_lt limit hb
    generalize hqq : limit / b = q at *
    generalize hrr : limit % b = r at *
    have hcases : (ne = false ∧ N = 0 ∧ st = (0, 0)) ∨ (ne = true ∧ N ≤ limit ∧ st = ((N : Int), 1)) ∨
        (ne = true ∧ limit < N ∧ st = ((H : Int) - 1, -1)) := by
      cases ne with
      | false => left; exact ⟨rfl, g1 rfl⟩
      | true =>
        right
        by_cases h : N ≤ limit
        · left; exact ⟨rfl, h, g2 rfl h⟩
        · right; exact ⟨rfl, by omega, g3 rfl (by omega)⟩

    rcases hcases with ⟨_, hN0, hst⟩ | ⟨_, hN, hst⟩ | ⟨_, hN, hst⟩
    · subst hN0; subst hst
      unfold stepS
      simp only [show ¬ ((0 : Int) < 0) by omega, if_false, Bool.false_eq_true, if_true]
      by_cases hov : 0 * b + d > limit
      · have hc : ((0 : Int) > (q : Int) ∨ ((0 : Int) = (q : Int) ∧ (d : Int) > (r : Int))) := by
          rcases key.2 hov with h | ⟨h, h'⟩
          · omega
          · right; constructor <;> omega
        rw [if_pos hc]
        refine ⟨_, rfl, ?_⟩
        refine ⟨(by intro h; cases h), (by intro _ h; omega), ?_⟩
        intro _ _; simp
      · have hc : ¬ ((0 : Int) > (q : Int) ∨ ((0 : Int) = (q : Int) ∧ (d : Int) > (r : Int))) := by
          intro h
          apply hov; apply key.1
          rcases h with h | ⟨h, h'⟩
          · omega
          · right; constructor <;> omega
        rw [if_neg hc]
        simp only [Int.zero_mul]
        rw [if_neg (by omega)]
        refine ⟨_, rfl, ?_⟩
        refine ⟨(by intro h; cases h), ?_, (by intro _ h; omega)⟩
        intro _ _; simp
    · subst hst
      unfold stepS
      simp only [show ¬ ((1 : Int) < 0) by omega, if_false, Bool.false_eq_true, if_true]
      by_cases hov : N * b + d > limit
      · have hc : ((N : Int) > (q : Int) ∨ ((N : Int) = (q : Int) ∧ (d : Int) > (r : Int))) := by
          rcases key.2 hov with h | ⟨h, h'⟩
          · omega
          · right; constructor <;> omega
        rw [if_pos hc]
        refine ⟨_, rfl, ?_⟩
        refine ⟨(by intro h; cases h), (by intro _ h; omega), ?_⟩
        intro _ _; simp
      · have hc : ¬ ((N : Int) > (q : Int) ∨ ((N : Int) = (q : Int) ∧ (d : Int) > (r : Int))) := by
          intro h
          apply hov; apply key.1
          rcases h with h | ⟨h, h'⟩
          · omega
          · right; constructor <;> omega
        rw [if_neg hc]
        simp only [hNb]
        rw [if_neg (by omega)]
        refine ⟨_, rfl, ?_⟩
        refine ⟨(by intro h; cases h), ?_, (by intro _ h; omega)⟩
        intro _ _; simp <;> omega
    · subst hst
      unfold stepS
      simp only [show ((-1 : Int) < 0) by omega, if_true]
      refine ⟨_, rfl, ?_⟩
      refine ⟨(by intro h; cases h), (by intro _ h; omega), ?_⟩
      intro _ _; rfl

theorem loopS_good (H b : Nat) (neg : Bool) (lp : Bool) (hH : 0 < H) (hb2 : 2 ≤ b) (hb36 : b ≤ 36) :
    ∀ (bs : List Byte) (stop : Byte) (tail : List Byte), (∀ x ∈ bs, Spec.digit x < b) → ¬ Spec.digit stop < b →
    ∀ (cb : Byte) (rest : List Byte), cb :: rest = bs ++ stop :: tail →
    ∀ (u : Bool) (off : Nat) (st : Int × Int) (N : Nat) (ne : Bool), GoodS H neg N ne st →
    ∃ st' : Int × Int,
      loopS (-(H : Int)) ((H : Int) - 1) (b : Int) neg
        (if neg = true then -(((if neg = true then H else H - 1) / b : Nat) : Int) else (((if neg = true then H else H - 1) / b : Nat) : Int))
        (((if neg = true then H else H - 1) % b : Nat) : Int) lp rest (rd u cb) off st = some (st'.1, st'.2, off + bs.length) ∧
      GoodS H neg ((bs.map Spec.digit).foldl (fun a d => a * b + d) N) (ne || !bs.isEmpty) st' := by
  intro bs
  induction bs with
  | nil =>
    intro stop tail _ hstop cb rest heq u off st N ne g
    simp only [List.nil_append, List.cons.injEq] at heq
    obtain ⟨h1, h2⟩ := heq
    subst h1; subst h2
    refine ⟨st, ?_, by simpa using g⟩
    unfold loopS
    rw [digitOf_rd]
    by_cases h36 : Spec.digit cb < 36
    · simp only [h36, if_true]
      have : ((Spec.digit cb : Nat) : Int) ≥ (b : Int) := by omega
      simp only [this, if_true, List.length_nil, Nat.add_zero]
    · simp only [h36, if_false, List.length_nil, Nat.add_zero]
  | cons x bs ih =>
    intro stop tail hbs hstop cb rest heq u off st N ne g
    simp only [List.cons_append, List.cons.injEq] at heq
    obtain ⟨h1, h2⟩ := heq
    subst h1
    have hx := hbs cb List.mem_cons_self
    obtain ⟨st1, hstep, g'⟩ := stepS_good H b neg hH (by omega) N ne st (Spec.digit cb) hx g
    have hne : ∃ cb' rest', cb' :: rest' = bs ++ stop :: tail := by
      cases bs with
      | nil => exact ⟨stop, tail, rfl⟩
      | cons y ys => exact ⟨y, ys ++ stop :: tail, rfl⟩
    obtain ⟨cb', rest', heq'⟩ := hne
    obtain ⟨st', hrun, g''⟩ := ih stop tail (fun y hy => hbs y (List.mem_cons_of_mem _ hy)) hstop cb' rest' heq' lp (off + 1) st1
      (N * b + Spec.digit cb) true g'
    refine ⟨st', ?_, by simpa using g''⟩
    unfold loopS
    rw [digitOf_rd]
    have h36 : Spec.digit cb < 36 := by omega
    simp only [h36, if_true]
    have : ¬ ((Spec.digit cb : Nat) : Int) ≥ (b : Int) := by omega
    simp only [this, if_false]
    rw [hstep]
    simp only
    rw [h2, ← heq']
    simp only
    rw [hrun]
    simp only [List.length_cons]
    congr 3
    omega

theorem strtoLL_spec (w : Nat) (hw : 0 < w) (R : Reads) (t : List Byte) (base : Nat)
    (hbase : base = 0 ∨ (2 ≤ base ∧ base ≤ 36)) :
    strtoLL w R (t ++ [0]) base = some (Spec.signedResult w (Spec.parse t base)) := by
  obtain ⟨cb, rest, u, hcb, hfront⟩ := front_spec R t base
  obtain ⟨hW2, hH0⟩ := pow_split w hw
  generalize hsg : Spec.sign (t.dropWhile Spec.isSpace) = sg at hcb hfront
  generalize hhex : (decide (base = 0 ∨ base = 16) && Spec.hexPrefix sg.2.2) = hex at hcb hfront
  obtain ⟨hb2, hb36⟩ := effBase_range base hbase hex sg.2.2
  generalize hb : Spec.effBase base hex sg.2.2 = b at hfront hb2 hb36
  generalize ht3 : (if hex = true then sg.2.2.drop 2 else sg.2.2) = t3 at hcb
  have hHi : (2 : Int) ^ (w - 1) = ((2 ^ (w - 1) : Nat) : Int) := by norm_cast
  generalize hH : 2 ^ (w - 1) = H at *
  obtain ⟨stop, tail, hsplit, hstop⟩ := run_split b hb36 t3
  have g0 : GoodS H sg.1 0 false ((0 : Int), (0 : Int)) :=
    ⟨fun _ => ⟨rfl, rfl⟩, (by intro h; cases h), (by intro h; cases h)⟩
  obtain ⟨st, hloop, hgood⟩ := loopS_good H b sg.1 R.lp hH0 hb2 hb36
    (t3.takeWhile (fun x => decide (Spec.digit x < b))) stop tail
    (by intro x hx; have := mem_takeWhile_sat hx; simpa using this) hstop cb rest (by rw [hcb, hsplit]) u
    ((t.takeWhile Spec.isSpace).length + sg.2.1 + (if hex = true then 2 else 0) + 1) (0, 0) 0 false g0
  unfold strtoLL
  rw [hfront]
  simp only [hHi]
  -- the cutoff / cutlim computation
  have hcut : (if sg.1 = true then
        ((if ((if sg.1 = true then -(H : Int) else (H : Int) - 1).tmod (b : Int)) > 0 then
            ((if sg.1 = true then -(H : Int) else (H : Int) - 1).tdiv (b : Int) + 1,
             (if sg.1 = true then -(H : Int) else (H : Int) - 1).tmod (b : Int) - (b : Int))
          else ((if sg.1 = true then -(H : Int) else (H : Int) - 1).tdiv (b : Int),
                (if sg.1 = true then -(H : Int) else (H : Int) - 1).tmod (b : Int))).1,
         -(if ((if sg.1 = true then -(H : Int) else (H : Int) - 1).tmod (b : Int)) > 0 then
            ((if sg.1 = true then -(H : Int) else (H : Int) - 1).tdiv (b : Int) + 1,
             (if sg.1 = true then -(H : Int) else (H : Int) - 1).tmod (b : Int) - (b : Int))
          else ((if sg.1 = true then -(H : Int) else (H : Int) - 1).tdiv (b : Int),
                (if sg.1 = true then -(H : Int) else (H : Int) - 1).tmod (b : Int))).2)
      else ((if sg.1 = true then -(H : Int) else (H : Int) - 1).tdiv (b : Int),
            (if sg.1 = true then -(H : Int) else (H : Int) - 1).tmod (b : Int))) =
      ((if sg.1 = true then -(((if sg.1 = true then H else H - 1) / b : Nat) : Int) else (((if sg.1 = true then H else H - 1) / b : Nat) : Int)),
       (((if sg.1 = true then H else H - 1) % b : Nat) : Int)) := by
    cases sg.1
    · simp only [Bool.false_eq_true, if_false]
      have : (H : Int) - 1 = ((H - 1 : Nat) : Int) := by omega
      rw [this, ← Int.ofNat_tdiv, ← Int.ofNat_tmod]
    · simp only [if_true, Int.neg_tmod, Int.neg_tdiv, ← Int.ofNat_tdiv, ← Int.ofNat_tmod]
      have : ¬ (-((H % b : Nat) : Int) > 0) := by omega
      simp only [this, if_false, Int.neg_neg]
  rw [hcut]
  simp only
  rw [hloop]
  simp only
  have hparse : Spec.parse t base =
      if Spec.digits b t3 = [] then none
      else some ⟨sg.1, Spec.ofDigits b (Spec.digits b t3),
        (t.takeWhile Spec.isSpace).length + sg.2.1 + (if hex = true then 2 else 0) + (Spec.digits b t3).length⟩ := by
    unfold Spec.parse
    simp only [hsg, hhex, hb, ht3]
  rw [hparse]
  rw [← digits_eq] at hgood
  have hlen' : (t3.takeWhile (fun x => decide (Spec.digit x < b))).length = (Spec.digits b t3).length := by
    rw [digits_eq, List.length_map]
  have hemp : (t3.takeWhile (fun x => decide (Spec.digit x < b))).isEmpty = (Spec.digits b t3).isEmpty := by
    rw [digits_eq, List.isEmpty_map]
  rw [hlen']
  rw [hemp] at hgood
  have hof : List.foldl (fun a d => a * b + d) 0 (Spec.digits b t3) = Spec.ofDigits b (Spec.digits b t3) := rfl
  rw [hof] at hgood
  obtain ⟨g1, g2, g3⟩ := hgood
  by_cases hds : Spec.digits b t3 = []
  · obtain ⟨_, hst⟩ := g1 (by simp [hds])
    simp only [hds, if_true, Spec.signedResult]
    rw [hst]
    simp [endOff]
  · have hne : (false || !(Spec.digits b t3).isEmpty) = true := by
      cases h : Spec.digits b t3 with
      | nil => exact absurd h hds
      | cons _ _ => rfl
    have hlen : 0 < (Spec.digits b t3).length := by
      cases h : Spec.digits b t3 with
      | nil => exact absurd h hds
      | cons _ _ => simp
    simp only [hds, if_false, Spec.signedResult, hHi]
    generalize Spec.ofDigits b (Spec.digits b t3) = mag at *
    generalize (Spec.digits b t3).length = len at *
    by_cases hfit : mag ≤ (if sg.1 = true then H else H - 1)
    · have hst := g2 hne hfit
      rw [hst]
      simp only [endOff]
      cases hneg : sg.1 <;> simp only [hneg] at hfit <;> simp only [Bool.false_eq_true, if_false, if_true] at hfit ⊢ <;>
        refine congrArg some (Prod.ext ?_ ?_) <;> simp only [] <;> (repeat' split) <;> omega
    · have hst := g3 hne (by omega)
      rw [hst]
      simp only [endOff]
      cases hneg : sg.1 <;> simp only [hneg] at hfit <;> simp only [Bool.false_eq_true, if_false, if_true] at hfit ⊢ <;>
        refine congrArg some (Prod.ext ?_ ?_) <;> simp only [] <;> (repeat' split) <;> omega

/-! ### atol / atoi -/


theorem isdigit_toNat : ∀ (b : Byte), isdigit (b.toNat : Int) = decide (Spec.digit b < 10) ∧
    (Spec.digit b < 10 → (b.toNat : Int) - 48 = (Spec.digit b : Int)) := by decide +kernel

theorem atolSkip_spec : ∀ (t : List Byte),
    ∃ cb rest, cb :: rest = t.dropWhile Spec.isSpace ++ [0] ∧ atolSkip (t ++ [0]) = some ((cb.toNat : Int), rest) := by
  intro t
  induction t with
  | nil =>
    refine ⟨0, [], rfl, ?_⟩
    simp only [List.nil_append, atolSkip]
    have := isspace_rd true 0
    simp only [rd, if_true] at this
    rw [this]
    rfl
  | cons c t ih =>
    have hsp := isspace_rd true c
    simp only [rd, if_true] at hsp
    by_cases hc : Spec.isSpace c = true
    · obtain ⟨cb, rest, h1, h2⟩ := ih
      refine ⟨cb, rest, ?_, ?_⟩
      · simp only [List.dropWhile_cons, hc, if_true]; exact h1
      · simp only [List.cons_append, atolSkip, hsp, hc, if_true, h2]
    · have hc' : Spec.isSpace c = false := by cases h : Spec.isSpace c <;> simp_all
      refine ⟨c, t ++ [0], ?_, ?_⟩
      · simp only [List.dropWhile_cons, hc']; rfl
      · simp only [List.cons_append, atolSkip, hsp, hc']
        rfl

theorem fold10_ge : ∀ (ds : List Nat) (N : Nat), N ≤ ds.foldl (fun a d => a * 10 + d) N := by
  intro ds
  induction ds with
  | nil => intro N; exact Nat.le_refl _
  | cons d ds ih =>
    intro N
    simp only [List.foldl_cons]
    have := ih (N * 10 + d)
    omega

theorem atolLoop_spec (H : Nat) (hH : 0 < H) : ∀ (bs : List Byte) (stop : Byte) (tail : List Byte),
    (∀ x ∈ bs, Spec.digit x < 10) → ¬ Spec.digit stop < 10 →
    ∀ (cb : Byte) (rest : List Byte), cb :: rest = bs ++ stop :: tail →
    ∀ (N : Nat), (bs.map Spec.digit).foldl (fun a d => a * 10 + d) N ≤ H →
    atolLoop (-(H : Int)) ((H : Int) - 1) rest (cb.toNat : Int) (-(N : Int)) =
      some (-(((bs.map Spec.digit).foldl (fun a d => a * 10 + d) N : Nat) : Int)) := by
  intro bs
  induction bs with
  | nil =>
    intro stop tail _ hstop cb rest heq N _
    simp only [List.nil_append, List.cons.injEq] at heq
    obtain ⟨h1, h2⟩ := heq
    subst h1; subst h2
    unfold atolLoop
    rw [(isdigit_toNat cb).1]
    simp [hstop]
  | cons x bs ih =>
    intro stop tail hbs hstop cb rest heq N hle
    simp only [List.cons_append, List.cons.injEq] at heq
    obtain ⟨h1, h2⟩ := heq
    subst h1
    have hx := hbs cb List.mem_cons_self
    have hval := (isdigit_toNat cb).2 hx
    simp only [List.map_cons, List.foldl_cons] at hle ⊢
    have hge := fold10_ge (bs.map Spec.digit) (N * 10 + Spec.digit cb)
    have hne : ∃ cb' rest', cb' :: rest' = bs ++ stop :: tail := by
      cases bs with
      | nil => exact ⟨stop, tail, rfl⟩
      | cons y ys => exact ⟨y, ys ++ stop :: tail, rfl⟩
    obtain ⟨cb', rest', heq'⟩ := hne
    unfold atolLoop
    rw [(isdigit_toNat cb).1]
    simp only [hx, decide_true, if_true, hval]
    rw [if_neg (by omega)]
    rw [h2, ← heq']
    simp only
    have := ih stop tail (fun y hy => hbs y (List.mem_cons_of_mem _ hy)) hstop cb' rest' heq' (N * 10 + Spec.digit cb) hle
    have e : (10 : Int) * -(N : Int) - (Spec.digit cb : Int) = -((N * 10 + Spec.digit cb : Nat) : Int) := by omega
    rw [e]
    exact this

theorem atolSign_spec (t1 : List Byte) (cb : Byte) (rest : List Byte) (h : cb :: rest = t1 ++ [0]) :
    ∃ cb2 rest2, cb2 :: rest2 = (Spec.sign t1).2.2 ++ [0] ∧
      ((cb.toNat : Int) = 45 ↔ (Spec.sign t1).1 = true) ∧
      atolSign (cb.toNat : Int) rest = some ((cb2.toNat : Int), rest2) := by
  unfold atolSign
  cases t1 with
  | nil =>
    simp only [List.nil_append, List.cons.injEq] at h
    obtain ⟨h1, h2⟩ := h
    subst h1; subst h2
    exact ⟨0, [], rfl, by simp [Spec.sign], by simp⟩
  | cons b r =>
    simp only [List.cons_append, List.cons.injEq] at h
    obtain ⟨h1, h2⟩ := h
    subst h1; subst h2
    have hne : ∃ cb2 rest2, cb2 :: rest2 = r ++ [0] := by
      cases r with
      | nil => exact ⟨0, [], rfl⟩
      | cons y ys => exact ⟨y, ys ++ [0], rfl⟩
    obtain ⟨cb2, rest2, heq⟩ := hne
    by_cases h45 : cb.toNat = 45
    · refine ⟨cb2, rest2, ?_, ?_, ?_⟩
      · simp only [Spec.sign, h45, if_true]; exact heq
      · simp [Spec.sign, h45]
      · have : (cb.toNat : Int) = 45 := by omega
        simp only [this, true_or, if_true, ← heq]
    · by_cases h43 : cb.toNat = 43
      · refine ⟨cb2, rest2, ?_, ?_, ?_⟩
        · simp only [Spec.sign, h45, h43, if_true, if_false]; exact heq
        · simp [Spec.sign, h43]
        · have : (cb.toNat : Int) = 43 := by omega
          simp only [this, or_true, if_true, ← heq]
      · refine ⟨cb, r ++ [0], ?_, ?_, ?_⟩
        · simp only [Spec.sign, h45, h43, if_false]; rfl
        · simp only [Spec.sign, h45, h43, if_false]
          constructor
          · intro h; omega
          · intro h; cases h
        · have a : ¬ (cb.toNat : Int) = 45 := by omega
          have b : ¬ (cb.toNat : Int) = 43 := by omega
          simp only [a, b, or_self, if_false]

theorem atol_spec (w : Nat) (hw : 0 < w) (t : List Byte)
    (hrep : -((2 : Int) ^ (w - 1)) ≤ Spec.decimalValue t ∧ Spec.decimalValue t ≤ (2 : Int) ^ (w - 1) - 1) :
    atol w (t ++ [0]) = some (Spec.decimalValue t) := by
  obtain ⟨_, hH0⟩ := pow_split w hw
  have hHi : (2 : Int) ^ (w - 1) = ((2 ^ (w - 1) : Nat) : Int) := by norm_cast
  rw [hHi] at hrep
  generalize hH : 2 ^ (w - 1) = H at *
  obtain ⟨cb1, rest1, e1, h1⟩ := atolSkip_spec t
  obtain ⟨cb2, rest2, e2, hsign, h2⟩ := atolSign_spec (t.dropWhile Spec.isSpace) cb1 rest1 e1
  generalize hsg : Spec.sign (t.dropWhile Spec.isSpace) = sg at *
  obtain ⟨stop, tail, hsplit, hstop⟩ := run_split 10 (by omega) sg.2.2
  have hparse : Spec.parse t 10 =
      if Spec.digits 10 sg.2.2 = [] then none
      else some ⟨sg.1, Spec.ofDigits 10 (Spec.digits 10 sg.2.2),
        (t.takeWhile Spec.isSpace).length + sg.2.1 + 0 + (Spec.digits 10 sg.2.2).length⟩ := by
    unfold Spec.parse
    simp [hsg, Spec.effBase]
  have hval : Spec.decimalValue t =
      if sg.1 = true then -((Spec.ofDigits 10 (Spec.digits 10 sg.2.2) : Nat) : Int)
      else ((Spec.ofDigits 10 (Spec.digits 10 sg.2.2) : Nat) : Int) := by
    unfold Spec.decimalValue
    rw [hparse]
    by_cases hds : Spec.digits 10 sg.2.2 = []
    · simp [hds, Spec.ofDigits]
    · simp [hds]
  rw [hval] at hrep ⊢
  have hmag : Spec.ofDigits 10 (Spec.digits 10 sg.2.2) ≤ H := by
    cases h : sg.1 <;> simp only [h, Bool.false_eq_true, if_false, if_true] at hrep <;> omega
  have hloop := atolLoop_spec H hH0 (sg.2.2.takeWhile (fun x => decide (Spec.digit x < 10))) stop tail
    (by intro x hx; have := mem_takeWhile_sat hx; simpa using this) hstop cb2 rest2 (by rw [e2, hsplit]) 0
    (by rw [← digits_eq]; exact hmag)
  rw [← digits_eq] at hloop
  have hof : List.foldl (fun a d => a * 10 + d) 0 (Spec.digits 10 sg.2.2) = Spec.ofDigits 10 (Spec.digits 10 sg.2.2) := rfl
  rw [hof] at hloop
  unfold atol
  rw [h1]
  simp only [hHi, hH]
  rw [h2]
  simp only
  have hz : (-((0 : Nat) : Int)) = 0 := by simp
  rw [hz] at hloop
  rw [hloop]
  simp only
  generalize Spec.ofDigits 10 (Spec.digits 10 sg.2.2) = mag at *
  cases h : sg.1
  · have : ¬ (cb1.toNat : Int) = 45 := by rw [hsign, h]; simp
    simp only [this, if_false, h, Bool.false_eq_true]
    simp only [h, Bool.false_eq_true, if_false] at hrep
    rw [if_neg (by omega)]
    simp
  · have : (cb1.toNat : Int) = 45 := by rw [hsign, h]
    simp only [this, if_true]

theorem asSigned_wrap (w : Nat) (hw : 0 < w) (v : Int)
    (h : -((2 : Int) ^ (w - 1)) ≤ v ∧ v ≤ (2 : Int) ^ (w - 1) - 1) :
    asSigned w ((v % 2 ^ w).toNat) = v := by
  obtain ⟨hW2, hH0⟩ := pow_split w hw
  have hHi : (2 : Int) ^ (w - 1) = ((2 ^ (w - 1) : Nat) : Int) := by norm_cast
  have hWi : (2 : Int) ^ w = ((2 ^ w : Nat) : Int) := by norm_cast
  rw [hHi] at h
  unfold asSigned
  rw [hWi]
  generalize 2 ^ (w - 1) = H at *
  generalize 2 ^ w = W at *
  by_cases hv : 0 ≤ v
  · have e : v % (W : Int) = v := Int.emod_eq_of_lt hv (by omega)
    rw [e]
    have : v.toNat < H := by omega
    simp only [this, if_true]
    omega
  · have e : v % (W : Int) = v + W := by
      have := Int.add_mul_emod_self_left v (W : Int) 1
      rw [Int.mul_one] at this
      rw [← this]
      exact Int.emod_eq_of_lt (by omega) (by omega)
    rw [e]
    have : ¬ (v + (W : Int)).toNat < H := by omega
    simp only [this, if_false]
    omega

theorem atoi_spec (wl wi : Nat) (hwi : 0 < wi) (hle : wi ≤ wl) (t : List Byte)
    (hrep : -((2 : Int) ^ (wi - 1)) ≤ Spec.decimalValue t ∧ Spec.decimalValue t ≤ (2 : Int) ^ (wi - 1) - 1) :
    atoi wl wi (t ++ [0]) = some (Spec.decimalValue t) := by
  have hmono : (2 : Int) ^ (wi - 1) ≤ (2 : Int) ^ (wl - 1) := by
    have := Nat.pow_le_pow_right (show 0 < 2 by omega) (show wi - 1 ≤ wl - 1 by omega)
    have a : (2 : Int) ^ (wi - 1) = ((2 ^ (wi - 1) : Nat) : Int) := by norm_cast
    have b : (2 : Int) ^ (wl - 1) = ((2 ^ (wl - 1) : Nat) : Int) := by norm_cast
    rw [a, b]; omega
  unfold atoi
  rw [atol_spec wl (by omega) t ⟨by omega, by omega⟩]
  simp only [Option.map_some]
  rw [asSigned_wrap wi hwi _ hrep]

end strto

end Igris.C11
