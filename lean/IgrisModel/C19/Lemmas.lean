import IgrisModel.C19.Spec
namespace Igris.C19
open Igris.Proto
set_option linter.unusedSimpArgs false
set_option linter.unusedVariables false

/-! ## generic list facts -/

theorem length_dropWhile_le (p : Byte → Bool) (l : Str) : (l.dropWhile p).length ≤ l.length := by
  induction l with
  | nil => simp
  | cons c cs ih => simp only [List.dropWhile_cons]; split <;> simp <;> omega

theorem between_dropWhile (p : Byte → Bool) (s : Str) : between s (s.dropWhile p) = s.takeWhile p := by
  unfold between
  have h := @List.takeWhile_append_dropWhile _ p s
  have hl : (s.takeWhile p).length + (s.dropWhile p).length = s.length := by
    rw [← List.length_append, h]
  conv => lhs; arg 2; rw [← h]
  exact List.take_left' (by omega)

/-- a non-empty `dropWhile p` starts with a character not satisfying `p` -/
theorem dropWhile_cons_head (p : Byte → Bool) (s : Str) (c : Byte) (cs : Str)
    (h : s.dropWhile p = c :: cs) : p c = false := by
  have := List.head_dropWhile_not p (l := s) (by rw [h]; simp)
  simpa [h] using this

theorem dropWhile_dropWhile (p : Byte → Bool) (s : Str) : (s.dropWhile p).dropWhile p = s.dropWhile p := by
  induction s with
  | nil => rfl
  | cons c cs ih =>
    simp only [List.dropWhile_cons]
    split
    · exact ih
    · rename_i h; simp [List.dropWhile_cons, h]

/-! ## runs -/

theorem runsGo_acc (d : Byte → Bool) (s acc : Str) :
    runsGo d acc s =
      if (acc ++ s.takeWhile (fun c => !d c)).isEmpty then runsGo d [] (s.dropWhile (fun c => !d c))
      else (acc ++ s.takeWhile (fun c => !d c)) :: runsGo d [] (s.dropWhile (fun c => !d c)) := by
  induction s generalizing acc with
  | nil => cases acc <;> simp [runsGo]
  | cons c cs ih =>
    by_cases hc : d c
    · cases acc <;> simp [runsGo, hc]
    · rw [runsGo]; simp only [hc, Bool.false_eq_true, ↓reduceIte]
      rw [ih]
      simp [List.takeWhile_cons, List.dropWhile_cons, hc]

theorem runs_dropWhile (d : Byte → Bool) (s : Str) : runs d s = runs d (s.dropWhile d) := by
  induction s with
  | nil => rfl
  | cons c cs ih =>
    by_cases hc : d c
    · simp only [List.dropWhile_cons, hc, ↓reduceIte]
      rw [← ih]; simp [runs, runsGo, hc]
    · simp [List.dropWhile_cons, hc]

theorem runs_nil (d : Byte → Bool) : runs d [] = [] := rfl

/-- unfolding of `runs` at a character that is not a delimiter -/
theorem runs_cons_token (d : Byte → Bool) (c : Byte) (cs : Str) (hc : d c = false) :
    runs d (c :: cs) =
      (c :: cs).takeWhile (fun c => !d c) :: runs d ((c :: cs).dropWhile (fun c => !d c)) := by
  unfold runs
  rw [runsGo_acc]
  simp [List.takeWhile_cons, hc]

/-- the equation the splitting loops follow -/
theorem runs_unfold (d : Byte → Bool) (s : Str) :
    runs d s =
      match s.dropWhile d with
      | [] => []
      | c :: cs => (c :: cs).takeWhile (fun c => !d c) :: runs d ((c :: cs).dropWhile (fun c => !d c)) := by
  rw [runs_dropWhile]
  split
  · rename_i h; rw [h]; rfl
  · rename_i c cs h
    rw [h]; exact runs_cons_token d c cs (dropWhile_cons_head d s c cs h)


theorem runsGo_congr (d d' : Byte → Bool) (s acc : Str) (h : ∀ c ∈ s, d c = d' c) :
    runsGo d acc s = runsGo d' acc s := by
  induction s generalizing acc with
  | nil => rfl
  | cons c cs ih =>
    have hc := h c (by simp)
    have hcs : ∀ x ∈ cs, d x = d' x := fun x hx => h x (by simp [hx])
    simp only [runsGo, hc, ih _ hcs]

theorem runs_congr (d d' : Byte → Bool) (s : Str) (h : ∀ c ∈ s, d c = d' c) : runs d s = runs d' s :=
  runsGo_congr d d' s [] h

/-! ## the three "skip delimiters / scan token" loops -/

theorem bne_fun (delim : Byte) : (fun c : Byte => c != delim) = (fun c => !(c == delim)) := rfl

/-- after a non-delimiter head, scanning the token consumes at least that head -/
theorem length_scan_lt (d : Byte → Bool) (c : Byte) (cs : Str) (hc : d c = false) :
    ((c :: cs).dropWhile (fun c => !d c)).length < (c :: cs).length := by
  simp only [List.dropWhile_cons, hc, Bool.not_false, ↓reduceIte, List.length_cons]
  have := length_dropWhile_le (fun c => !d c) cs
  omega

theorem splitCharLoop_eq (delim : Byte) (f : Nat) (ptr : Cur) (out : List Str) (h : ptr.length < f) :
    splitCharLoop delim f ptr out = some (out ++ runs (· == delim) ptr) := by
  induction f generalizing ptr out with
  | zero => omega
  | succ f ih =>
    unfold splitCharLoop
    simp only
    rw [runs_unfold]
    cases hp : ptr.dropWhile (· == delim) with
    | nil => simp
    | cons c cs =>
      have hc := dropWhile_cons_head _ ptr c cs hp
      have hl := length_dropWhile_le (· == delim) ptr
      rw [hp] at hl
      have hlt := length_scan_lt (· == delim) c cs hc
      simp only [List.isEmpty_cons, Bool.false_eq_true, ↓reduceIte]
      rw [bne_fun, ih _ _ (by simp only [List.length_cons] at *; omega), between_dropWhile]
      simp [List.append_assoc]

theorem splitDelimsLoop_eq (delims : Str) (f : Nat) (ptr : Cur) (out : List Str) (h : ptr.length < f) :
    splitDelimsLoop delims f ptr out = some (out ++ runs (strchrHit delims) ptr) := by
  induction f generalizing ptr out with
  | zero => omega
  | succ f ih =>
    unfold splitDelimsLoop
    simp only
    rw [runs_unfold]
    cases hp : ptr.dropWhile (strchrHit delims) with
    | nil => simp
    | cons c cs =>
      have hc := dropWhile_cons_head _ ptr c cs hp
      have hl := length_dropWhile_le (strchrHit delims) ptr
      rw [hp] at hl
      have hlt := length_scan_lt (strchrHit delims) c cs hc
      simp only [List.isEmpty_cons, Bool.false_eq_true, ↓reduceIte]
      rw [between_dropWhile]
      split
      · rename_i he
        have : (c :: cs).dropWhile (fun c => !strchrHit delims c) = [] := by simpa using he
        rw [this, runs_nil]
      · rw [ih _ _ (by simp only [List.length_cons] at *; omega)]
        simp [List.append_assoc]


/-! ## join -/

theorem intercalate_cons_cons (sep t u : Str) (rest : List Str) :
    List.intercalate sep (t :: u :: rest) = t ++ sep ++ List.intercalate sep (u :: rest) := by
  simp [List.intercalate, List.intersperse_cons_cons, List.append_assoc]

theorem intercalate_single (sep t : Str) : List.intercalate sep [t] = t := by
  simp [List.intercalate]

theorem joinLoop_eq (delim : Str) (vec : List Str) (ret : Str) :
    joinLoop delim vec ret = ret ++ List.intercalate delim vec := by
  induction vec generalizing ret with
  | nil => simp [joinLoop, List.intercalate]
  | cons t rest ih =>
    cases rest with
    | nil => simp [joinLoop, intercalate_single]
    | cons u rest =>
      rw [joinLoop, ih, intercalate_cons_cons]
      simp [List.append_assoc]
      intro h; cases h

/-! ## tokens of `runs`, and the inverse laws -/

theorem runsGo_tokens (d : Byte → Bool) (s acc : Str) (hacc : ∀ c ∈ acc, d c = false) :
    ∀ t ∈ runsGo d acc s, t ≠ [] ∧ ∀ c ∈ t, d c = false := by
  induction s generalizing acc with
  | nil =>
    intro t ht
    cases acc with
    | nil => simp [runsGo] at ht
    | cons a as => simp [runsGo] at ht; subst ht; exact ⟨by simp, hacc⟩
  | cons c cs ih =>
    intro t ht
    by_cases hc : d c
    · cases acc with
      | nil =>
        simp only [runsGo, hc, ↓reduceIte, List.isEmpty_nil] at ht
        exact ih [] (by simp) t ht
      | cons a as =>
        simp only [runsGo, hc, ↓reduceIte, List.isEmpty_cons, Bool.false_eq_true, List.mem_cons] at ht
        rcases ht with ht | ht
        · subst ht; exact ⟨by simp, hacc⟩
        · exact ih [] (by simp) t ht
    · simp only [runsGo, hc, Bool.false_eq_true, ↓reduceIte] at ht
      refine ih (acc ++ [c]) ?_ t ht
      intro x hx
      simp only [List.mem_append, List.mem_singleton] at hx
      rcases hx with hx | hx
      · exact hacc x hx
      · subst hx; simpa using hc

theorem runsGo_flatten (d : Byte → Bool) (s acc : Str) :
    (runsGo d acc s).flatten = acc ++ s.filter (fun c => !d c) := by
  induction s generalizing acc with
  | nil => cases acc <;> simp [runsGo]
  | cons c cs ih =>
    by_cases hc : d c
    · cases acc <;> simp [runsGo, hc, ih]
    · simp [runsGo, hc, ih]

theorem runsGo_append_token (d : Byte → Bool) (t rest acc : Str) (hd : ∀ c ∈ t, d c = false) :
    runsGo d acc (t ++ rest) = runsGo d (acc ++ t) rest := by
  induction t generalizing acc with
  | nil => simp
  | cons c cs ih =>
    have hc : d c = false := hd c (by simp)
    simp only [List.cons_append, runsGo, hc, Bool.false_eq_true, ↓reduceIte]
    rw [ih _ (fun x hx => hd x (by simp [hx]))]
    simp [List.append_assoc]

/-- a non-empty delimiter-free token followed by the end or by a delimiter -/
theorem runs_token_append (d : Byte → Bool) (t rest : Str) (ht : t ≠ []) (hd : ∀ c ∈ t, d c = false)
    (hr : rest = [] ∨ ∃ c r, rest = c :: r ∧ d c = true) :
    runs d (t ++ rest) = t :: runs d rest := by
  unfold runs
  rw [runsGo_append_token d t rest [] hd]
  cases t with
  | nil => exact absurd rfl ht
  | cons a as =>
    rcases hr with hr | ⟨c, r, hr, hc⟩
    · subst hr; simp [runsGo]
    · subst hr; simp [runsGo, hc]

theorem runs_split_join (d : Byte → Bool) (delim : Byte) (hdel : d delim = true) (toks : List Str)
    (h : ∀ t ∈ toks, t ≠ [] ∧ ∀ c ∈ t, d c = false) :
    runs d (List.intercalate [delim] toks) = toks := by
  induction toks with
  | nil => simp [List.intercalate, runs, runsGo]
  | cons t rest ih =>
    have ⟨ht, hd⟩ := h t (by simp)
    cases rest with
    | nil =>
      rw [intercalate_single]
      have := runs_token_append d t [] ht hd (Or.inl rfl)
      simpa [runs_nil] using this
    | cons u rest =>
      rw [intercalate_cons_cons, List.append_assoc, List.singleton_append,
        runs_token_append d t _ ht hd (Or.inr ⟨delim, _, rfl, hdel⟩)]
      have : runs d (delim :: List.intercalate [delim] (u :: rest)) = runs d (List.intercalate [delim] (u :: rest)) := by
        simp [runs, runsGo, hdel]
      rw [this, ih (fun x hx => h x (by simp [hx]))]

end Igris.C19
