import IgrisModel.C19.Model
namespace Igris.C19
open Igris.Proto

end Igris.C19
