import IgrisModel.C19.Spec
namespace Igris.C19
open Igris.Proto
set_option linter.unusedSimpArgs false
set_option linter.unusedVariables false
set_option linter.unnecessarySimpa false

/-! ## generic list facts -/

theorem length_dropWhile_le (p : Byte → Bool) (l : Str) : (l.dropWhile p).length ≤ l.length := by
  induction l with
  | nil => simp
  | cons c cs ih => simp only [List.dropWhile_cons]; split <;> simp <;> omega

theorem between_dropWhile (p : Byte → Bool) (s : Str) : between s (s.dropWhile p) = s.takeWhile p := by
  unfold between
  have h := @List.takeWhile_append_dropWhile _ p s
  have hl : (s.takeWhile p).length + (s.dropWhile p).length = s.length := by
    rw [← List.length_append, h]
  conv => lhs; arg 2; rw [← h]
  exact List.take_left' (by omega)

/-- a non-empty `dropWhile p` starts with a character not satisfying `p` -/
theorem dropWhile_cons_head (p : Byte → Bool) (s : Str) (c : Byte) (cs : Str)
    (h : s.dropWhile p = c :: cs) : p c = false := by
  have := List.head_dropWhile_not p (l := s) (by rw [h]; simp)
  simpa [h] using this

theorem dropWhile_dropWhile (p : Byte → Bool) (s : Str) : (s.dropWhile p).dropWhile p = s.dropWhile p := by
  induction s with
  | nil => rfl
  | cons c cs ih =>
    simp only [List.dropWhile_cons]
    split
    · exact ih
    · rename_i h; simp [List.dropWhile_cons, h]

/-! ## runs -/

theorem runsGo_acc (d : Byte → Bool) (s acc : Str) :
    runsGo d acc s =
      if (acc ++ s.takeWhile (fun c => !d c)).isEmpty then runsGo d [] (s.dropWhile (fun c => !d c))
      else (acc ++ s.takeWhile (fun c => !d c)) :: runsGo d [] (s.dropWhile (fun c => !d c)) := by
  induction s generalizing acc with
  | nil => cases acc <;> simp [runsGo]
  | cons c cs ih =>
    by_cases hc : d c
    · cases acc <;> simp [runsGo, hc]
    · rw [runsGo]; simp only [hc, Bool.false_eq_true, ↓reduceIte]
      rw [ih]
      simp [List.takeWhile_cons, List.dropWhile_cons, hc]

theorem runs_dropWhile (d : Byte → Bool) (s : Str) : runs d s = runs d (s.dropWhile d) := by
  induction s with
  | nil => rfl
  | cons c cs ih =>
    by_cases hc : d c
    · simp only [List.dropWhile_cons, hc, ↓reduceIte]
      rw [← ih]; simp [runs, runsGo, hc]
    · simp [List.dropWhile_cons, hc]

theorem runs_nil (d : Byte → Bool) : runs d [] = [] := rfl

/-- unfolding of `runs` at a character that is not a delimiter -/
theorem runs_cons_token (d : Byte → Bool) (c : Byte) (cs : Str) (hc : d c = false) :
    runs d (c :: cs) =
      (c :: cs).takeWhile (fun c => !d c) :: runs d ((c :: cs).dropWhile (fun c => !d c)) := by
  unfold runs
  rw [runsGo_acc]
  simp [List.takeWhile_cons, hc]

/-- the equation the splitting loops follow -/
theorem runs_unfold (d : Byte → Bool) (s : Str) :
    runs d s =
      match s.dropWhile d with
      | [] => []
      | c :: cs => (c :: cs).takeWhile (fun c => !d c) :: runs d ((c :: cs).dropWhile (fun c => !d c)) := by
  rw [runs_dropWhile]
  split
  · rename_i h; rw [h]; rfl
  · rename_i c cs h
    rw [h]; exact runs_cons_token d c cs (dropWhile_cons_head d s c cs h)


theorem runsGo_congr (d d' : Byte → Bool) (s acc : Str) (h : ∀ c ∈ s, d c = d' c) :
    runsGo d acc s = runsGo d' acc s := by
  induction s generalizing acc with
  | nil => rfl
  | cons c cs ih =>
    have hc := h c (by simp)
    have hcs : ∀ x ∈ cs, d x = d' x := fun x hx => h x (by simp [hx])
    simp only [runsGo, hc, ih _ hcs]

theorem runs_congr (d d' : Byte → Bool) (s : Str) (h : ∀ c ∈ s, d c = d' c) : runs d s = runs d' s :=
  runsGo_congr d d' s [] h

/-! ## the three "skip delimiters / scan token" loops -/

theorem bne_fun (delim : Byte) : (fun c : Byte => c != delim) = (fun c => !(c == delim)) := rfl

/-- after a non-delimiter head, scanning the token consumes at least that head -/
theorem length_scan_lt (d : Byte → Bool) (c : Byte) (cs : Str) (hc : d c = false) :
    ((c :: cs).dropWhile (fun c => !d c)).length < (c :: cs).length := by
  simp only [List.dropWhile_cons, hc, Bool.not_false, ↓reduceIte, List.length_cons]
  have := length_dropWhile_le (fun c => !d c) cs
  omega

theorem splitCharLoop_eq (delim : Byte) (f : Nat) (ptr : Cur) (out : List Str) (h : ptr.length < f) :
    splitCharLoop delim f ptr out = some (out ++ runs (· == delim) ptr) := by
  induction f generalizing ptr out with
  | zero => omega
  | succ f ih =>
    unfold splitCharLoop
    simp only
    rw [runs_unfold]
    cases hp : ptr.dropWhile (· == delim) with
    | nil => simp
    | cons c cs =>
      have hc := dropWhile_cons_head _ ptr c cs hp
      have hl := length_dropWhile_le (· == delim) ptr
      rw [hp] at hl
      have hlt := length_scan_lt (· == delim) c cs hc
      simp only [List.isEmpty_cons, Bool.false_eq_true, ↓reduceIte]
      rw [bne_fun, ih _ _ (by simp only [List.length_cons] at *; omega), between_dropWhile]
      simp [List.append_assoc]

theorem splitDelimsLoop_eq (delims : Str) (f : Nat) (ptr : Cur) (out : List Str) (h : ptr.length < f) :
    splitDelimsLoop delims f ptr out = some (out ++ runs (strchrHit delims) ptr) := by
  induction f generalizing ptr out with
  | zero => omega
  | succ f ih =>
    unfold splitDelimsLoop
    simp only
    rw [runs_unfold]
    cases hp : ptr.dropWhile (strchrHit delims) with
    | nil => simp
    | cons c cs =>
      have hc := dropWhile_cons_head _ ptr c cs hp
      have hl := length_dropWhile_le (strchrHit delims) ptr
      rw [hp] at hl
      have hlt := length_scan_lt (strchrHit delims) c cs hc
      simp only [List.isEmpty_cons, Bool.false_eq_true, ↓reduceIte]
      rw [between_dropWhile]
      split
      · rename_i he
        have : (c :: cs).dropWhile (fun c => !strchrHit delims c) = [] := by simpa using he
        rw [this, runs_nil]
      · rw [ih _ _ (by simp only [List.length_cons] at *; omega)]
        simp [List.append_assoc]


/-! ## join -/

theorem intercalate_cons_cons (sep t u : Str) (rest : List Str) :
    List.intercalate sep (t :: u :: rest) = t ++ sep ++ List.intercalate sep (u :: rest) := by
  simp [List.intercalate, List.intersperse_cons_cons, List.append_assoc]

theorem intercalate_single (sep t : Str) : List.intercalate sep [t] = t := by
  simp [List.intercalate]

theorem joinLoop_eq (delim : Str) (vec : List Str) (ret : Str) :
    joinLoop delim vec ret = ret ++ List.intercalate delim vec := by
  induction vec generalizing ret with
  | nil => simp [joinLoop, List.intercalate]
  | cons t rest ih =>
    cases rest with
    | nil => simp [joinLoop, intercalate_single]
    | cons u rest =>
      rw [joinLoop, ih, intercalate_cons_cons]
      simp [List.append_assoc]
      intro h; cases h

/-! ## tokens of `runs`, and the inverse laws -/

theorem runsGo_tokens (d : Byte → Bool) (s acc : Str) (hacc : ∀ c ∈ acc, d c = false) :
    ∀ t ∈ runsGo d acc s, t ≠ [] ∧ ∀ c ∈ t, d c = false := by
  induction s generalizing acc with
  | nil =>
    intro t ht
    cases acc with
    | nil => simp [runsGo] at ht
    | cons a as => simp [runsGo] at ht; subst ht; exact ⟨by simp, hacc⟩
  | cons c cs ih =>
    intro t ht
    by_cases hc : d c
    · cases acc with
      | nil =>
        simp only [runsGo, hc, ↓reduceIte, List.isEmpty_nil] at ht
        exact ih [] (by simp) t ht
      | cons a as =>
        simp only [runsGo, hc, ↓reduceIte, List.isEmpty_cons, Bool.false_eq_true, List.mem_cons] at ht
        rcases ht with ht | ht
        · subst ht; exact ⟨by simp, hacc⟩
        · exact ih [] (by simp) t ht
    · simp only [runsGo, hc, Bool.false_eq_true, ↓reduceIte] at ht
      refine ih (acc ++ [c]) ?_ t ht
      intro x hx
      simp only [List.mem_append, List.mem_singleton] at hx
      rcases hx with hx | hx
      · exact hacc x hx
      · subst hx; simpa using hc

theorem runsGo_flatten (d : Byte → Bool) (s acc : Str) :
    (runsGo d acc s).flatten = acc ++ s.filter (fun c => !d c) := by
  induction s generalizing acc with
  | nil => cases acc <;> simp [runsGo]
  | cons c cs ih =>
    by_cases hc : d c
    · cases acc <;> simp [runsGo, hc, ih]
    · simp [runsGo, hc, ih]

theorem runsGo_append_token (d : Byte → Bool) (t rest acc : Str) (hd : ∀ c ∈ t, d c = false) :
    runsGo d acc (t ++ rest) = runsGo d (acc ++ t) rest := by
  induction t generalizing acc with
  | nil => simp
  | cons c cs ih =>
    have hc : d c = false := hd c (by simp)
    simp only [List.cons_append, runsGo, hc, Bool.false_eq_true, ↓reduceIte]
    rw [ih _ (fun x hx => hd x (by simp [hx]))]
    simp [List.append_assoc]

/-- a non-empty delimiter-free token followed by the end or by a delimiter -/
theorem runs_token_append (d : Byte → Bool) (t rest : Str) (ht : t ≠ []) (hd : ∀ c ∈ t, d c = false)
    (hr : rest = [] ∨ ∃ c r, rest = c :: r ∧ d c = true) :
    runs d (t ++ rest) = t :: runs d rest := by
  unfold runs
  rw [runsGo_append_token d t rest [] hd]
  cases t with
  | nil => exact absurd rfl ht
  | cons a as =>
    rcases hr with hr | ⟨c, r, hr, hc⟩
    · subst hr; simp [runsGo]
    · subst hr; simp [runsGo, hc]

theorem runs_split_join (d : Byte → Bool) (delim : Byte) (hdel : d delim = true) (toks : List Str)
    (h : ∀ t ∈ toks, t ≠ [] ∧ ∀ c ∈ t, d c = false) :
    runs d (List.intercalate [delim] toks) = toks := by
  induction toks with
  | nil => simp [List.intercalate, runs, runsGo]
  | cons t rest ih =>
    have ⟨ht, hd⟩ := h t (by simp)
    cases rest with
    | nil =>
      rw [intercalate_single]
      have := runs_token_append d t [] ht hd (Or.inl rfl)
      simpa [runs_nil] using this
    | cons u rest =>
      rw [intercalate_cons_cons, List.append_assoc, List.singleton_append,
        runs_token_append d t _ ht hd (Or.inr ⟨delim, _, rfl, hdel⟩)]
      have : runs d (delim :: List.intercalate [delim] (u :: rest)) = runs d (List.intercalate [delim] (u :: rest)) := by
        simp [runs, runsGo, hdel]
      rw [this, ih (fun x hx => h x (by simp [hx]))]


/-! ## trim -/

theorem trimBack_eq (pre : Str) (x : Byte) (hx : isWsTrim x = false) :
    trimBack (pre ++ [x]) = (pre ++ [x]).dropWhile isWsTrim := by
  induction pre with
  | nil => simp [trimBack, List.dropWhile_cons, hx]
  | cons p ps ih =>
    have hne : ps ++ [x] ≠ [] := by simp
    obtain ⟨q, qs, h⟩ := List.exists_cons_of_ne_nil hne
    rw [List.cons_append, h, trimBack, List.dropWhile_cons, ← h, ih]
    intro e; cases e

theorem trim_eq_strip' (view : Str) : trim view = strip isWsTrim view := by
  unfold trim strip
  split
  · rename_i h
    have : view = [] := List.eq_nil_of_length_eq_zero h
    subst this; rfl
  · cases hl : view.dropWhile isWsTrim with
    | nil => rfl
    | cons c cs =>
      have hc := dropWhile_cons_head _ view c cs hl
      simp only [List.isEmpty_cons, Bool.false_eq_true, ↓reduceIte, List.reverse_cons]
      rw [trimBack_eq _ _ hc]

/-! ## memmem -/

theorem isPrefixOf_eq_take (s l : Str) : s.isPrefixOf l = (l.take s.length == s) := by
  rw [Bool.eq_iff_iff]
  simp only [List.isPrefixOf_iff_prefix, beq_iff_eq]
  rw [List.prefix_iff_eq_take]
  exact eq_comm

theorem isPrefixOf_short (s l : Str) (h : l.length < s.length) : s.isPrefixOf l = false := by
  rw [Bool.eq_false_iff]
  intro hp
  have := (List.isPrefixOf_iff_prefix.mp hp).length_le
  omega

theorem firstOcc_short (s l : Str) (h : l.length < s.length) : firstOcc s l = none := by
  induction l with
  | nil =>
    cases s with
    | nil => simp at h
    | cons a as => simp [firstOcc]
  | cons c cs ih =>
    simp only [firstOcc, isPrefixOf_short s (c :: cs) h, Bool.false_eq_true, ↓reduceIte]
    rw [ih (by simp only [List.length_cons] at h; omega)]; rfl

theorem memchr_eq (x : Byte) (l : Str) (off : Nat) :
    memchr x l off = (firstOcc [x] l).map (· + off) := by
  induction l generalizing off with
  | nil => simp [memchr, firstOcc]
  | cons c cs ih =>
    by_cases h : c = x
    · subst h; simp [memchr, firstOcc, List.isPrefixOf]
    · have h' : ¬ x = c := fun e => h e.symm
      have hb : (x == c) = false := by simpa using h'
      have hb' : (c == x) = false := by simpa using h
      simp only [memchr, firstOcc, List.isPrefixOf, hb, hb', ↓reduceIte, Bool.false_and,
        Bool.false_eq_true, ih, Option.map_map]
      congr 1; funext n; show n + (off + 1) = n + 1 + off; omega

theorem memmemLoop_eq (s l : Str) (off : Nat) (hs : s ≠ []) :
    memmemLoop s l off = (firstOcc s l).map (· + off) := by
  induction l generalizing off with
  | nil =>
    cases s with
    | nil => exact absurd rfl hs
    | cons a as => simp [memmemLoop, firstOcc]
  | cons c cs ih =>
    unfold memmemLoop
    split
    · rename_i hlt; rw [firstOcc_short s _ hlt]; rfl
    · have hp : (s.head? == some c && (c :: cs).take s.length == s) = s.isPrefixOf (c :: cs) := by
        rw [isPrefixOf_eq_take]
        cases s with
        | nil => exact absurd rfl hs
        | cons a as =>
          by_cases hac : a = c
          · subst hac; simp
          · simp [hac]
            intro h1 h2; exact absurd h1.symm hac
      rw [hp]
      simp only [firstOcc]
      split
      · simp
      · rw [ih, Option.map_map]
        congr 1; funext n; show n + (off + 1) = n + 1 + off; omega

theorem memmem_eq_firstOcc' (l s : Str) (hs : s ≠ []) : memmem l s = firstOcc s l := by
  unfold memmem
  have hs' : s.length ≠ 0 := fun h => hs (List.eq_nil_of_length_eq_zero h)
  split
  · rename_i h
    rcases h with h | h
    · have : l = [] := List.eq_nil_of_length_eq_zero h
      subst this
      rw [firstOcc_short]; simp; omega
    · exact absurd h hs'
  · split
    · rename_i h; rw [firstOcc_short _ _ h]
    · split
      · rename_i h1
        match s, h1 with
        | [x], _ => rw [memchr_eq]; simp
      · rw [memmemLoop_eq _ _ _ hs]; simp


/-! ## first occurrence, declaratively -/

theorem firstOcc_some_spec (s l : Str) (i : Nat) (h : firstOcc s l = some i) :
    s <+: l.drop i ∧ ∀ j, j < i → ¬ s <+: l.drop j := by
  induction l generalizing i with
  | nil =>
    simp only [firstOcc] at h
    split at h
    · cases h
      rename_i he
      have : s = [] := by simpa using he
      subst this; simp
    · cases h
  | cons c cs ih =>
    simp only [firstOcc] at h
    split at h
    · cases h
      rename_i hp
      exact ⟨by simpa using List.isPrefixOf_iff_prefix.mp hp, fun j hj => by omega⟩
    · rename_i hp
      cases ho : firstOcc s cs with
      | none => rw [ho] at h; cases h
      | some i' =>
        rw [ho] at h; cases h
        have ⟨h1, h2⟩ := ih i' ho
        refine ⟨by simpa using h1, fun j hj => ?_⟩
        have hj : j < i' + 1 := hj
        cases j with
        | zero => simpa [List.isPrefixOf_iff_prefix] using hp
        | succ j => simpa using h2 j (by omega)

theorem firstOcc_none_spec (s l : Str) (hs : s ≠ []) (h : firstOcc s l = none) :
    ∀ j, ¬ s <+: l.drop j := by
  induction l with
  | nil =>
    intro j hp
    simp only [List.drop_nil, List.prefix_nil] at hp
    exact hs hp
  | cons c cs ih =>
    simp only [firstOcc] at h
    split at h
    · cases h
    · rename_i hp
      cases ho : firstOcc s cs with
      | some i' => rw [ho] at h; cases h
      | none =>
        intro j
        cases j with
        | zero => simpa [List.isPrefixOf_iff_prefix] using hp
        | succ j => simpa using ih ho j

/-! ## substitution -/

theorem substGo_skip (sub rep : Str) (k : Nat) (s : Str) :
    substGo sub rep k s = substGo sub rep 0 (s.drop k) := by
  induction k generalizing s with
  | zero => simp
  | succ k ih =>
    cases s with
    | nil => simp [substGo]
    | cons c cs => simp [substGo, ih]

theorem substGo_none (sub rep s : Str) (h : firstOcc sub s = none) : substGo sub rep 0 s = s := by
  induction s with
  | nil => rfl
  | cons c cs ih =>
    simp only [firstOcc] at h
    split at h
    · cases h
    · rename_i hp
      cases ho : firstOcc sub cs with
      | some i' => rw [ho] at h; cases h
      | none => simp only [substGo, hp, Bool.false_eq_true, ↓reduceIte, ih ho]

theorem substGo_some (sub rep s : Str) (i : Nat) (hs : sub ≠ []) (h : firstOcc sub s = some i) :
    substGo sub rep 0 s = s.take i ++ rep ++ substGo sub rep 0 (s.drop (i + sub.length)) := by
  induction s generalizing i with
  | nil =>
    simp only [firstOcc] at h
    split at h
    · rename_i he; exact absurd (by simpa using he) hs
    · cases h
  | cons c cs ih =>
    simp only [firstOcc] at h
    split at h
    · cases h
      rename_i hp
      have hl : sub.length - 1 + 1 = sub.length := by
        cases sub with
        | nil => exact absurd rfl hs
        | cons a as => simp
      simp only [substGo, hp, ↓reduceIte, List.take_zero, List.nil_append, Nat.zero_add]
      rw [substGo_skip]
      congr 2
      conv => rhs; rw [← hl, List.drop_succ_cons]
    · rename_i hp
      cases ho : firstOcc sub cs with
      | none => rw [ho] at h; cases h
      | some i' =>
        rw [ho] at h; cases h
        simp only [substGo, hp, Bool.false_eq_true, ↓reduceIte, ih i' ho]
        have : i' + 1 + sub.length = (i' + sub.length) + 1 := by omega
        simp [this]

theorem memmem_bound (l s : Str) (i : Nat) (hs : s ≠ []) (h : memmem l s = some i) :
    i + s.length ≤ l.length := by
  rw [memmem_eq_firstOcc' l s hs] at h
  have hp := (firstOcc_some_spec s l i h).1
  have := hp.length_le
  simp only [List.length_drop] at this
  have hpos : 0 < s.length := by cases s with | nil => exact absurd rfl hs | cons a as => simp
  omega

theorem replaceLoop_eq (sub rep : Str) (hs : sub ≠ []) (f : Nat) (strit out : Str) (h : strit.length < f) :
    replaceLoop sub rep f strit out = some (out ++ substGo sub rep 0 strit) := by
  induction f generalizing strit out with
  | zero => omega
  | succ f ih =>
    unfold replaceLoop
    rw [memmem_eq_firstOcc' strit sub hs]
    cases ho : firstOcc sub strit with
    | none => simp [substGo_none sub rep strit ho]
    | some step =>
      simp only
      have hb := memmem_bound strit sub step hs (by rw [memmem_eq_firstOcc' strit sub hs]; exact ho)
      have hpos : 0 < sub.length := by cases sub with | nil => exact absurd rfl hs | cons a as => simp
      rw [ih _ _ (by simp only [List.length_drop]; omega), substGo_some sub rep strit step hs ho]
      simp [List.append_assoc]

/-! ## replace_substrings: the bounded writer -/

/-- `(w, room)` stands for "the unbounded output so far is `F`, the buffer holds `R` characters" -/
def RsRep (F : Str) (R : Nat) : Str × Nat := (F.take R, R - F.length)

theorem rsPut_rep (F : Str) (R : Nat) (src : Str) (len : Nat) (hl : len ≤ src.length) :
    rsPut (RsRep F R) src len = RsRep (F ++ src.take len) R := by
  unfold rsPut RsRep
  simp only [List.take_append, List.length_append, List.length_take, List.take_take]
  have h1 : min len src.length = len := Nat.min_eq_left hl
  refine Prod.ext ?_ ?_
  · simp only
    congr 2
    omega
  · simp only [h1]; omega

theorem rsLoop_eq (sub rep : Str) (hs : sub ≠ []) (R : Nat) (f : Nat) (strit F : Str) (h : strit.length < f) :
    rsLoop sub rep f strit (RsRep F R) = some (RsRep (F ++ substGo sub rep 0 strit) R) := by
  induction f generalizing strit F with
  | zero => omega
  | succ f ih =>
    unfold rsLoop
    rw [memmem_eq_firstOcc' strit sub hs]
    cases ho : firstOcc sub strit with
    | none =>
      simp only
      rw [rsPut_rep F R strit strit.length (Nat.le_refl _), substGo_none sub rep strit ho]
      simp
    | some step =>
      simp only
      have hb := memmem_bound strit sub step hs (by rw [memmem_eq_firstOcc' strit sub hs]; exact ho)
      have hpos : 0 < sub.length := by cases sub with | nil => exact absurd rfl hs | cons a as => simp
      rw [rsPut_rep F R strit step (by omega), rsPut_rep _ R rep rep.length (Nat.le_refl _),
        ih _ _ (by simp only [List.length_drop]; omega), substGo_some sub rep strit step hs ho]
      simp [List.append_assoc]


/-! ## split_cmdargs -/

theorem cmdGo_gap_skip (s : Str) : cmdGo .gap s = cmdGo .gap (s.dropWhile (· == SP)) := by
  induction s with
  | nil => rfl
  | cons c cs ih =>
    by_cases h : (c == SP) = true
    · simp only [List.dropWhile_cons, h, ↓reduceIte]
      rw [← ih]; simp [cmdGo, h]
    · simp [List.dropWhile_cons, h]

theorem cmdGo_word (s acc : Str) :
    cmdGo (.word acc) s = (acc ++ s.takeWhile (· != SP)) :: cmdGo .gap (s.dropWhile (· != SP)) := by
  induction s generalizing acc with
  | nil => simp [cmdGo]
  | cons c cs ih =>
    by_cases h : c = SP
    · subst h; simp [cmdGo, List.takeWhile_cons, List.dropWhile_cons]
    · simp [cmdGo, h, List.takeWhile_cons, List.dropWhile_cons, ih]

theorem cmdGo_quote (q : Byte) (s acc : Str) :
    cmdGo (.quote q acc) s =
      (acc ++ s.takeWhile (· != q)) ::
        (match s.dropWhile (· != q) with
         | [] => []
         | _ :: r => cmdGo .gap r) := by
  induction s generalizing acc with
  | nil => simp [cmdGo]
  | cons c cs ih =>
    by_cases h : c = q
    · subst h; simp [cmdGo, List.takeWhile_cons, List.dropWhile_cons]
    · simp [cmdGo, h, List.takeWhile_cons, List.dropWhile_cons, ih]

theorem cmdargsLoop_eq (f : Nat) (ptr : Cur) (out : List Str) (h : ptr.length < f) :
    cmdargsLoop f ptr out = some (out ++ cmdGo .gap ptr) := by
  induction f generalizing ptr out with
  | zero => omega
  | succ f ih =>
    unfold cmdargsLoop
    rw [cmdGo_gap_skip ptr]
    have hl := length_dropWhile_le (· == SP) ptr
    cases hp : ptr.dropWhile (· == SP) with
    | nil => simp [cmdGo]
    | cons c rest =>
      have hc := dropWhile_cons_head _ ptr c rest hp
      rw [hp] at hl
      simp only [List.length_cons] at hl
      simp only
      split
      · rename_i hq
        have hl2 := length_dropWhile_le (· != c) rest
        have hgo : cmdGo .gap (c :: rest) = cmdGo (.quote c []) rest := by
          simp only [cmdGo, hc, Bool.false_eq_true, ↓reduceIte, hq]
        rw [hgo, cmdGo_quote, between_dropWhile]
        cases hp2 : rest.dropWhile (· != c) with
        | nil => simp
        | cons x p' =>
          rw [hp2] at hl2
          simp only [List.length_cons] at hl2
          simp only
          rw [ih _ _ (by omega)]
          simp [List.append_assoc]
      · rename_i hq
        have hq' : (c == DQ || c == SQ) = false := by simpa using hq
        have hgo : cmdGo .gap (c :: rest) = cmdGo (.word [c]) rest := by
          simp only [cmdGo, hc, Bool.false_eq_true, ↓reduceIte, hq']
        have hne : (c != SP) = true := by simp [bne, hc]
        have hl2 := length_dropWhile_le (· != SP) rest
        rw [hgo, cmdGo_word, between_dropWhile]
        simp only [List.dropWhile_cons, List.takeWhile_cons, hne, ↓reduceIte]
        rw [ih _ _ (by omega)]
        simp [List.append_assoc]


theorem cmdGo_no_quotes_aux (s : Str) (h : DQ ∉ s ∧ SQ ∉ s) :
    (∀ acc, acc ≠ [] → cmdGo (.word acc) s = runsGo (· == SP) acc s)
      ∧ cmdGo .gap s = runsGo (· == SP) [] s := by
  induction s with
  | nil =>
    refine ⟨fun acc ha => ?_, rfl⟩
    cases acc with
    | nil => exact absurd rfl ha
    | cons a as => simp [cmdGo, runsGo]
  | cons c cs ih =>
    have hcs : DQ ∉ cs ∧ SQ ∉ cs := ⟨fun m => h.1 (by simp [m]), fun m => h.2 (by simp [m])⟩
    have hdq : c ≠ DQ := fun e => h.1 (by simp [e])
    have hsq : c ≠ SQ := fun e => h.2 (by simp [e])
    have ⟨ih1, ih2⟩ := ih hcs
    refine ⟨fun acc ha => ?_, ?_⟩
    · by_cases hc : c = SP
      · subst hc
        cases acc with
        | nil => exact absurd rfl ha
        | cons a as => simp [cmdGo, runsGo, ih2]
      · simp [cmdGo, runsGo, hc, ih1]
    · by_cases hc : c = SP
      · subst hc; simp [cmdGo, runsGo, ih2]
      · simp [cmdGo, runsGo, hc, hdq, hsq, ih1]

theorem cmdGo_no_quotes (s : Str) (h : DQ ∉ s ∧ SQ ∉ s) : cmdargsSpec s = runs (· == SP) s :=
  (cmdGo_no_quotes_aux s h).2

/-! ## strip, declaratively -/

theorem mem_takeWhile_sat (p : Byte → Bool) (l : Str) : ∀ c ∈ l.takeWhile p, p c = true := by
  induction l with
  | nil => simp
  | cons a as ih =>
    intro c hc
    simp only [List.takeWhile_cons] at hc
    split at hc
    · rename_i ha
      simp only [List.mem_cons] at hc
      rcases hc with hc | hc
      · subst hc; exact ha
      · exact ih c hc
    · simp at hc

theorem head?_dropWhile_not (p : Byte → Bool) (l : Str) (c : Byte)
    (h : (l.dropWhile p).head? = some c) : p c = false := by
  cases hd : l.dropWhile p with
  | nil => rw [hd] at h; simp at h
  | cons x xs =>
    rw [hd] at h; simp at h; subst h
    exact dropWhile_cons_head p l x xs hd

theorem getLast?_dropWhile (p : Byte → Bool) (l : Str) (c : Byte)
    (h : (l.dropWhile p).getLast? = some c) : l.getLast? = some c := by
  have := @List.takeWhile_append_dropWhile _ p l
  rw [← this, List.getLast?_append, h]
  rfl

theorem strip_exact (w : Byte → Bool) (s : Str) :
    ∃ pre post, s = pre ++ strip w s ++ post
      ∧ (∀ c ∈ pre, w c = true) ∧ (∀ c ∈ post, w c = true)
      ∧ (∀ c, (strip w s).head? = some c → w c = false)
      ∧ (∀ c, (strip w s).getLast? = some c → w c = false) := by
  refine ⟨s.takeWhile w, (((s.dropWhile w).reverse).takeWhile w).reverse, ?_, ?_, ?_, ?_, ?_⟩
  · unfold strip
    rw [List.append_assoc, ← List.reverse_append, List.takeWhile_append_dropWhile,
      List.reverse_reverse, List.takeWhile_append_dropWhile]
  · exact mem_takeWhile_sat w s
  · intro c hc
    exact mem_takeWhile_sat w _ c (by simpa using hc)
  · intro c hc
    unfold strip at hc
    rw [List.head?_reverse] at hc
    have := getLast?_dropWhile w _ c hc
    rw [List.getLast?_reverse] at this
    exact head?_dropWhile_not w s c this
  · intro c hc
    unfold strip at hc
    rw [List.getLast?_reverse] at hc
    exact head?_dropWhile_not w _ c hc


/-! ## argv splitting -/

theorem strchrHit_ws (c : Byte) : strchrHit wsArgv c = (c == NUL || isWsArgv c) := by
  simp only [strchrHit, wsArgv, isWsArgv, List.contains, List.elem, Bool.or_assoc]
  cases (c == SP) <;> cases (c == CR) <;> cases (c == NL) <;> cases (c == TAB) <;> simp

theorem strchrHit_ws_of_ne (c : Byte) (h : c ≠ NUL) : strchrHit wsArgv c = isWsArgv c := by
  rw [strchrHit_ws]; simp [h]

theorem isWsArgv_NUL : isWsArgv NUL = false := by decide

theorem skipWsZ_eq (text junk : Str) (hn : NUL ∉ text) :
    skipWsZ (text ++ NUL :: junk) = some (text.dropWhile isWsArgv ++ NUL :: junk) := by
  induction text with
  | nil => simp [skipWsZ]
  | cons c cs ih =>
    have hc : c ≠ NUL := fun e => hn (by simp [e])
    have hcs : NUL ∉ cs := fun m => hn (by simp [m])
    simp only [List.cons_append, skipWsZ, bne_iff_ne, ne_eq, hc, not_false_eq_true, ↓reduceIte,
      strchrHit_ws_of_ne c hc, List.dropWhile_cons]
    split
    · exact ih hcs
    · rfl

theorem scanTokZ_eq (text junk : Str) (hn : NUL ∉ text) :
    scanTokZ (text ++ NUL :: junk) = some (text.dropWhile (fun c => !isWsArgv c) ++ NUL :: junk) := by
  induction text with
  | nil => simp [scanTokZ, strchrHit_ws]
  | cons c cs ih =>
    have hc : c ≠ NUL := fun e => hn (by simp [e])
    have hcs : NUL ∉ cs := fun m => hn (by simp [m])
    simp only [List.cons_append, scanTokZ, strchrHit_ws_of_ne c hc, List.dropWhile_cons]
    by_cases hw : isWsArgv c = true
    · simp [hw]
    · have hw' : isWsArgv c = false := by simpa using hw
      simp [hw', hc, ih hcs]

theorem drop_append_add (A m : Str) (o : Nat) : (A ++ m).drop (A.length + o) = m.drop o := by
  induction A with
  | nil => simp
  | cons a as ih =>
    have : (a :: as).length + o = (as.length + o) + 1 := by simp; omega
    rw [this]; simpa using ih

theorem cstrAt_shift (A m : Str) (o : Nat) : cstrAt (A ++ m) (o + A.length) = cstrAt m o := by
  unfold cstrAt
  rw [Nat.add_comm, drop_append_add]

theorem takeWhile_ne_append (tok rest : Str) (x : Byte) (ht : x ∉ tok) :
    (tok ++ x :: rest).takeWhile (· != x) = tok := by
  induction tok with
  | nil => simp
  | cons a as ih =>
    have ha : a ≠ x := fun e => ht (by simp [e])
    have has : x ∉ as := fun m => ht (by simp [m])
    simp [List.takeWhile_cons, ha, ih has]

theorem cstrAt_token (pre tok rest : Str) (ht : NUL ∉ tok) :
    cstrAt (pre ++ tok ++ NUL :: rest) pre.length = some tok := by
  unfold cstrAt
  have : (pre ++ tok ++ NUL :: rest).drop pre.length = tok ++ NUL :: rest := by
    rw [List.append_assoc]; simpa using drop_append_add pre (tok ++ NUL :: rest) 0
  rw [this]
  simp only [List.contains_eq_mem, List.mem_append, List.mem_cons, true_or, or_true, decide_true, ↓reduceIte]
  rw [takeWhile_ne_append tok rest NUL ht]

theorem argStrings_shift (A m : Str) (offs : List Nat) :
    argStrings (A ++ m) (offs.map (· + A.length)) = argStrings m offs := by
  induction offs with
  | nil => rfl
  | cons o os ih => simp only [List.map_cons, argStrings, cstrAt_shift, ih]

theorem argStrings_length (m : Str) (offs : List Nat) (r : List Str) (h : argStrings m offs = some r) :
    r.length = offs.length := by
  induction offs generalizing r with
  | nil => simp [argStrings] at h; subst h; rfl
  | cons o os ih =>
    simp only [argStrings] at h
    cases h1 : cstrAt m o with
    | none => simp [h1] at h
    | some s =>
      cases h2 : argStrings m os with
      | none => simp [h1, h2] at h
      | some r' =>
        simp [h1, h2] at h
        subst h
        simp [ih r' h2]

theorem mem_of_dropWhile (p : Byte → Bool) (l : Str) (x : Byte) (h : x ∈ l.dropWhile p) : x ∈ l := by
  have := @List.takeWhile_append_dropWhile _ p l
  rw [← this]; exact List.mem_append_right _ h

theorem mem_of_takeWhile (p : Byte → Bool) (l : Str) (x : Byte) (h : x ∈ l.takeWhile p) : x ∈ l := by
  have := @List.takeWhile_append_dropWhile _ p l
  rw [← this]; exact List.mem_append_left _ h

theorem argvSplitGo_spec (argcmax : Nat) (f : Nat) (text junk : Str) (argc : Nat)
    (hn : NUL ∉ text) (hf : text.length < f) :
    ∃ r, argvSplitGo argcmax f (text ++ NUL :: junk) argc = some r
      ∧ r.argc = argc + r.argv.length
      ∧ argStrings r.mem r.argv = some ((runs isWsArgv text).take (argcmax - argc))
      ∧ r.mem.length = (text ++ NUL :: junk).length := by
  induction f generalizing text argc with
  | zero => omega
  | succ f ih =>
    have hsplit := @List.takeWhile_append_dropWhile _ isWsArgv text
    rw [argvSplitGo]
    simp only [skipWsZ_eq text junk hn, Option.bind_eq_bind, Option.bind_some, bind]
    rw [runs_unfold]
    cases ht1 : text.dropWhile isWsArgv with
    | nil =>
      simp
      rfl
    | cons c cs =>
      have hcws : isWsArgv c = false := dropWhile_cons_head _ text c cs ht1
      have hn1 : NUL ∉ c :: cs := fun m => hn (mem_of_dropWhile isWsArgv text NUL (by rw [ht1]; exact m))
      have hcn : c ≠ NUL := fun e => hn1 (by simp [e])
      have hcn' : (c == NUL) = false := by simpa using hcn
      simp only [List.cons_append, List.head?_cons, Option.bind_some, hcn', Bool.false_or]
      by_cases hmax : argc ≥ argcmax
      · have : argcmax - argc = 0 := by omega
        simp [hmax, this]
        rfl
      · simp only [hmax, decide_false, Bool.false_eq_true, ↓reduceIte]
        have hs2 := scanTokZ_eq (c :: cs) junk hn1
        simp only [List.cons_append] at hs2
        simp only [hs2, Option.bind_some]
        have hsplit2 := @List.takeWhile_append_dropWhile _ (fun c => !isWsArgv c) (c :: cs)
        cases ht2 : (c :: cs).dropWhile (fun c => !isWsArgv c) with
        | nil =>
          have htok : (c :: cs).takeWhile (fun c => !isWsArgv c) = c :: cs := by
            rw [ht2, List.append_nil] at hsplit2; exact hsplit2
          generalize hpre : text.takeWhile isWsArgv = pre at *
          have htext : text = pre ++ c :: cs := by rw [← hsplit, ht1]
          subst htext
          simp only [List.nil_append, List.head?_cons, Option.bind_some, BEq.rfl, ↓reduceIte]
          refine ⟨_, rfl, ?_, ?_, ?_⟩
          · simp
          · have hlen : (pre ++ c :: cs ++ NUL :: junk).length - (c :: (cs ++ NUL :: junk)).length = pre.length := by
              simp only [List.length_append, List.length_cons]; omega
            have h1 : argcmax - argc = (argcmax - argc - 1) + 1 := by omega
            simp only [hlen, argStrings, htok, runs_nil]
            rw [h1, List.take_succ_cons, List.take_nil]
            have := cstrAt_token pre (c :: cs) junk hn1
            simp only [List.append_assoc, List.cons_append] at this ⊢
            simp [this]
          · rfl
        | cons w t3 =>
          generalize htokd : (c :: cs).takeWhile (fun c => !isWsArgv c) = tok at *
          have hww : isWsArgv w = true := by
            have := dropWhile_cons_head _ (c :: cs) w t3 ht2
            simpa using this
          have hw_mem : w ∈ c :: cs := mem_of_dropWhile _ _ w (by rw [ht2]; simp)
          have hwn : w ≠ NUL := fun e => hn1 (e ▸ hw_mem)
          have hwn' : (w == NUL) = false := by simpa using hwn
          have hn3 : NUL ∉ t3 := fun m => hn1 (mem_of_dropWhile _ _ NUL (by rw [ht2]; simp [m]))
          have hntok : NUL ∉ tok := fun m => hn1 (mem_of_takeWhile _ _ NUL (by rw [htokd]; exact m))
          generalize hpre : text.takeWhile isWsArgv = pre at *
          have htext : text = pre ++ tok ++ w :: t3 := by
            rw [← hsplit, ht1, ← hsplit2, ht2, List.append_assoc]
          subst htext
          have hf3 : t3.length < f := by
            simp only [List.length_append, List.length_cons] at hf; omega
          obtain ⟨r', hr', hargc', hstr', hlen'⟩ := ih t3 (argc + 1) hn3 hf3
          simp only [List.cons_append, List.head?_cons, Option.bind_some, hwn', Bool.false_eq_true, ↓reduceIte,
            strchrHit_ws_of_ne w hwn, hww, List.tail_cons, hr']
          refine ⟨_, rfl, ?_, ?_, ?_⟩
          · simp [hargc']; omega
          · have hcs : (c :: cs).length = tok.length + (t3.length + 1) := by
              rw [← hsplit2, ht2]; simp
            have hl1 : (pre ++ tok ++ w :: t3 ++ NUL :: junk).length - (c :: (cs ++ NUL :: junk)).length = pre.length := by
              simp only [List.length_append, List.length_cons] at hcs ⊢; omega
            have hl2 : (pre ++ tok ++ w :: t3 ++ NUL :: junk).length - (w :: (t3 ++ NUL :: junk)).length + 1
                = (pre ++ tok ++ [NUL]).length := by
              simp only [List.length_append, List.length_cons, List.length_nil]; omega
            have htake : List.take ((pre ++ tok ++ [NUL]).length - 1) (pre ++ tok ++ w :: t3 ++ NUL :: junk) = pre ++ tok := by
              rw [List.append_assoc (pre ++ tok)]
              exact List.take_left' (by simp)
            have hruns : runs isWsArgv (w :: t3) = runs isWsArgv t3 := by
              simp [runs, runsGo, hww]
            have h1 : argcmax - argc = (argcmax - (argc + 1)) + 1 := by omega
            simp only [hl1, hl2, htake, hruns]
            rw [h1, List.take_succ_cons]
            have hmem : pre ++ tok ++ NUL :: r'.mem = (pre ++ tok ++ [NUL]) ++ r'.mem := by simp
            simp only [argStrings, cstrAt_token pre tok r'.mem hntok, Option.bind_some, bind]
            rw [hmem, argStrings_shift, hstr']
            rfl
          · simp only [List.length_append, List.length_cons, hlen', List.length_take]
            omega

theorem cstrAtN_shift (A m : Str) (o : Nat) : cstrAtN (A ++ m) (o + A.length) = cstrAtN m o := by
  unfold cstrAtN
  rw [Nat.add_comm, drop_append_add]

theorem cstrAtN_token (pre tok rest : Str) (ht : NUL ∉ tok) :
    cstrAtN (pre ++ tok ++ NUL :: rest) pre.length = tok := by
  unfold cstrAtN
  have : (pre ++ tok ++ NUL :: rest).drop pre.length = tok ++ NUL :: rest := by
    rw [List.append_assoc]; simpa using drop_append_add pre (tok ++ NUL :: rest) 0
  rw [this, takeWhile_ne_append tok rest NUL ht]

theorem cstrAtN_last (pre tok : Str) (ht : NUL ∉ tok) : cstrAtN (pre ++ tok) pre.length = tok := by
  unfold cstrAtN
  have : (pre ++ tok).drop pre.length = tok := by simpa using drop_append_add pre tok 0
  rw [this]
  induction tok with
  | nil => rfl
  | cons a as ih =>
    have ha : a ≠ NUL := fun e => ht (by simp [e])
    simp only [List.takeWhile_cons, bne_iff_ne, ne_eq, ha, not_false_eq_true, ↓reduceIte]
    congr 1
    exact ih (fun m => ht (by simp [m])) (by simpa using drop_append_add pre as 0)

theorem strchrHit_NUL (s : Str) : strchrHit s NUL = true := by simp [strchrHit]

theorem argvSplitNGo_spec (argcmax : Nat) (f : Nat) (data : Str) (argc : Nat) (hf : data.length < f) :
    ∃ r, argvSplitNGo argcmax f data argc = some r
      ∧ r.argc = argc + r.argv.length
      ∧ r.argv.map (cstrAtN r.mem) = (runs (strchrHit wsArgv) data).take (argcmax - argc)
      ∧ r.mem.length = data.length := by
  induction f generalizing data argc with
  | zero => omega
  | succ f ih =>
    have hsplit := @List.takeWhile_append_dropWhile _ (strchrHit wsArgv) data
    rw [argvSplitNGo]
    simp only
    rw [runs_unfold]
    cases ht1 : data.dropWhile (strchrHit wsArgv) with
    | nil => exact ⟨_, rfl, by simp, by simp, rfl⟩
    | cons c cs =>
      have hch : strchrHit wsArgv c = false := dropWhile_cons_head _ data c cs ht1
      have hcn : c ≠ NUL := fun e => by rw [e, strchrHit_NUL] at hch; cases hch
      have hcn' : (c == NUL) = false := by simpa using hcn
      simp only [hcn', Bool.false_or]
      by_cases hmax : argc ≥ argcmax
      · have : argcmax - argc = 0 := by omega
        simp only [hmax, decide_true, ↓reduceIte, this, List.take_zero]
        exact ⟨_, rfl, by simp, by simp, rfl⟩
      · simp only [hmax, decide_false, Bool.false_eq_true, ↓reduceIte]
        have hsplit2 := @List.takeWhile_append_dropWhile _ (fun c => !strchrHit wsArgv c) (c :: cs)
        have h1 : argcmax - argc = (argcmax - (argc + 1)) + 1 := by omega
        generalize htokd : (c :: cs).takeWhile (fun c => !strchrHit wsArgv c) = tok at *
        have hntok : NUL ∉ tok := by
          intro m
          have := mem_takeWhile_sat (fun c => !strchrHit wsArgv c) (c :: cs) NUL (by rw [htokd]; exact m)
          simp [strchrHit_NUL] at this
        generalize hpre : data.takeWhile (strchrHit wsArgv) = pre at *
        cases ht2 : (c :: cs).dropWhile (fun c => !strchrHit wsArgv c) with
        | nil =>
          have htok : tok = c :: cs := by rw [ht2, List.append_nil] at hsplit2; exact hsplit2
          have hdata : data = pre ++ tok := by rw [← hsplit, ht1, htok]
          subst hdata
          refine ⟨_, rfl, by simp, ?_, rfl⟩
          have hl : (pre ++ tok).length - (c :: cs).length = pre.length := by
            rw [← htok]; simp
          simp only [List.map_cons, List.map_nil, hl, cstrAtN_last pre tok hntok, runs_nil]
          rw [h1, List.take_succ_cons, List.take_nil]
        | cons w t3 =>
          have hww : strchrHit wsArgv w = true := by
            have := dropWhile_cons_head _ (c :: cs) w t3 ht2
            simpa using this
          have hdata : data = pre ++ tok ++ w :: t3 := by
            rw [← hsplit, ht1, ← hsplit2, ht2, List.append_assoc]
          subst hdata
          have hf3 : t3.length < f := by
            simp only [List.length_append, List.length_cons] at hf; omega
          obtain ⟨r', hr', hargc', hstr', hlen'⟩ := ih t3 (argc + 1) hf3
          simp only [hww, ↓reduceIte, hr']
          refine ⟨_, rfl, ?_, ?_, ?_⟩
          · simp [hargc']; omega
          · have hcs : (c :: cs).length = tok.length + (t3.length + 1) := by
              rw [← hsplit2, ht2]; simp
            have hl1 : (pre ++ tok ++ w :: t3).length - (c :: cs).length = pre.length := by
              simp only [List.length_append, List.length_cons] at hcs ⊢; omega
            have hl2 : (pre ++ tok ++ w :: t3).length - (w :: t3).length + 1 = (pre ++ tok ++ [NUL]).length := by
              simp only [List.length_append, List.length_cons, List.length_nil]; omega
            have htake : List.take ((pre ++ tok ++ [NUL]).length - 1) (pre ++ tok ++ w :: t3) = pre ++ tok :=
              List.take_left' (by simp)
            have hruns : runs (strchrHit wsArgv) (w :: t3) = runs (strchrHit wsArgv) t3 := by
              simp [runs, runsGo, hww]
            simp only [hl1, hl2, htake, hruns]
            rw [h1, List.take_succ_cons]
            have hmem : pre ++ tok ++ NUL :: r'.mem = (pre ++ tok ++ [NUL]) ++ r'.mem := by simp
            simp only [List.map_cons, cstrAtN_token pre tok r'.mem hntok, List.map_map]
            congr 1
            rw [← hstr']
            apply List.map_congr_left
            intro o _
            simp only [Function.comp, hmem, cstrAtN_shift]
          · simp only [List.length_append, List.length_cons, hlen', List.length_take]
            omega


/-! ## command lookup -/

theorem findCmd_none_iff (a0 : Str) (tbl : List Str) (k : Nat) : findCmd a0 tbl k = none ↔ a0 ∉ tbl := by
  induction tbl generalizing k with
  | nil => simp [findCmd]
  | cons n rest ih =>
    by_cases h : n = a0
    · subst h; simp [findCmd]
    · have h' : ¬ a0 = n := fun e => h e.symm
      simp [findCmd, h, h', ih]

theorem findCmd_some_spec (a0 : Str) (tbl : List Str) (k j : Nat) (h : findCmd a0 tbl k = some j) :
    ∃ i, j = k + i ∧ tbl[i]? = some a0 ∧ ∀ i', i' < i → tbl[i']? ≠ some a0 := by
  induction tbl generalizing k with
  | nil => simp [findCmd] at h
  | cons n rest ih =>
    by_cases hn : n = a0
    · subst hn
      simp [findCmd] at h
      exact ⟨0, by omega, by simp, fun i' hi => by omega⟩
    · simp only [findCmd, beq_iff_eq, hn, ↓reduceIte] at h
      obtain ⟨i, hj, hi, hfirst⟩ := ih (k + 1) h
      refine ⟨i + 1, by omega, by simpa using hi, fun i' hi' => ?_⟩
      cases i' with
      | zero => simpa using hn
      | succ i' => simpa using hfirst i' (by omega)

theorem findCmdTables_none_iff (a0 : Str) (tables : List (List Str × Nat)) (t : Nat) :
    findCmdTables a0 tables t = none ↔ ∀ e ∈ tables, a0 ∉ e.1 := by
  induction tables generalizing t with
  | nil => simp [findCmdTables]
  | cons e rest ih =>
    obtain ⟨tbl, drop⟩ := e
    cases hf : findCmd a0 tbl 0 with
    | none =>
      have := (findCmd_none_iff a0 tbl 0).mp hf
      simp [findCmdTables, hf, ih, this]
    | some k =>
      have hm : a0 ∈ tbl := by
        have := findCmd_none_iff a0 tbl 0
        rw [hf] at this
        simpa using this
      simp [findCmdTables, hf, hm]

theorem findCmdTables_some_spec (a0 : Str) (tables : List (List Str × Nat)) (t0 h drop : Nat)
    (hh : findCmdTables a0 tables t0 = some (h, drop)) :
    ∃ t i tbl, h = 4 * (t0 + t) + i ∧ tables[t]? = some (tbl, drop) ∧ tbl[i]? = some a0
      ∧ (∀ i', i' < i → tbl[i']? ≠ some a0)
      ∧ (∀ t', t' < t → ∀ e, tables[t']? = some e → a0 ∉ e.1) := by
  induction tables generalizing t0 with
  | nil => simp [findCmdTables] at hh
  | cons e rest ih =>
    obtain ⟨tbl, d⟩ := e
    cases hf : findCmd a0 tbl 0 with
    | some k =>
      simp only [findCmdTables, hf, Option.some.injEq, Prod.mk.injEq] at hh
      obtain ⟨i, hk, hi, hfirst⟩ := findCmd_some_spec a0 tbl 0 k hf
      refine ⟨0, i, tbl, by omega, by simp [hh.2], hi, hfirst, fun t' ht' => by omega⟩
    | none =>
      simp only [findCmdTables, hf] at hh
      obtain ⟨t, i, tbl', hh', htab, hi, hfirst, hprev⟩ := ih (t0 + 1) hh
      refine ⟨t + 1, i, tbl', by omega, by simpa using htab, hi, hfirst, fun t' ht' e he => ?_⟩
      cases t' with
      | zero =>
        simp at he; subst he
        exact (findCmd_none_iff a0 tbl 0).mp hf
      | succ t' => exact hprev t' (by omega) e (by simpa using he)


/-! ## dispatch -/

theorem shellExecute_spec' (rcEmpty : Int) (text junk : Str) (tables : List (List Str × Nat))
    (hn : NUL ∉ text) :
    shellExecute rcEmpty (text ++ NUL :: junk) tables
      = some (dispatchSpec rcEmpty ((runs isWsArgv text).take SSHELL_ARGCMAX) tables) := by
  unfold shellExecute
  cases text with
  | nil => simp [dispatchSpec, runs, runsGo]
  | cons c cs =>
    have hc : c ≠ NUL := fun e => hn (by simp [e])
    have hc' : (c == NUL) = false := by simpa using hc
    obtain ⟨r, h1, h2, h3, h4⟩ :=
      argvSplitGo_spec SSHELL_ARGCMAX (((c :: cs) ++ NUL :: junk).length + 1) (c :: cs) junk 0 hn
        (by simp; omega)
    simp only [Nat.sub_zero, Nat.zero_add] at h2 h3
    have hlen := argStrings_length _ _ _ h3
    simp only [List.cons_append, List.head?_cons, Option.bind_eq_bind, Option.bind_some, bind, hc',
      Bool.false_eq_true, ↓reduceIte]
    have h1' : argvSplit (c :: (cs ++ NUL :: junk)) SSHELL_ARGCMAX = some r := h1
    simp only [h1', Option.bind_some, h3]
    generalize (runs isWsArgv (c :: cs)).take SSHELL_ARGCMAX = toks at *
    cases toks with
    | nil =>
      have : r.argc = 0 := by simp at hlen; omega
      simp [this, dispatchSpec]
    | cons t0 rest =>
      have : r.argc ≠ 0 := by simp at hlen; omega
      simp only [this, ↓reduceIte, dispatchSpec]
      cases findCmdTables t0 tables 0 with
      | none => rfl
      | some p =>
        obtain ⟨k, drop⟩ := p
        simp only [h2, ← hlen]

/-! ## paths -/

theorem splitSlash_ne_nil (p : Str) : splitSlash p ≠ [] := by
  induction p with
  | nil => simp [splitSlash]
  | cons c cs ih =>
    simp only [splitSlash]
    split
    · simp
    · split <;> simp

theorem joinSlash_cons_cons (a b : Str) (rest : List Str) :
    joinSlash (a :: b :: rest) = a ++ SLASH :: joinSlash (b :: rest) := by
  simp [joinSlash, intercalate_cons_cons]

theorem joinSlash_single (a : Str) : joinSlash [a] = a := by simp [joinSlash, intercalate_single]

theorem joinSlash_nil : joinSlash [] = [] := by simp [joinSlash, List.intercalate]

theorem joinSlash_cons (a : Str) (rest : List Str) (h : rest ≠ []) :
    joinSlash (a :: rest) = a ++ SLASH :: joinSlash rest := by
  cases rest with
  | nil => exact absurd rfl h
  | cons b r => exact joinSlash_cons_cons a b r

theorem joinSlash_splitSlash (p : Str) : joinSlash (splitSlash p) = p := by
  induction p with
  | nil => simp [splitSlash, joinSlash_single]
  | cons c cs ih =>
    simp only [splitSlash]
    split
    · rename_i hc
      have : c = SLASH := by simpa using hc
      subst this
      rw [joinSlash_cons _ _ (splitSlash_ne_nil cs), ih]; rfl
    · cases hs : splitSlash cs with
      | nil => exact absurd hs (splitSlash_ne_nil cs)
      | cons a rest =>
        rw [hs] at ih
        simp only
        cases rest with
        | nil => rw [joinSlash_single] at ih ⊢; rw [ih]
        | cons b r =>
          rw [joinSlash_cons_cons] at ih ⊢
          rw [← ih]; rfl

theorem splitSlash_noslash (p : Str) : ∀ c ∈ splitSlash p, SLASH ∉ c := by
  induction p with
  | nil => simp [splitSlash]
  | cons x xs ih =>
    simp only [splitSlash]
    split
    · intro c hc
      simp only [List.mem_cons] at hc
      rcases hc with hc | hc
      · subst hc; simp
      · exact ih c hc
    · rename_i hx
      have hx' : x ≠ SLASH := by simpa using hx
      cases hs : splitSlash xs with
      | nil => exact absurd hs (splitSlash_ne_nil xs)
      | cons a rest =>
        rw [hs] at ih
        intro c hc
        simp only [List.mem_cons] at hc
        rcases hc with hc | hc
        · subst hc
          intro hm
          simp only [List.mem_cons] at hm
          rcases hm with hm | hm
          · exact hx' hm.symm
          · exact ih a (by simp) hm
        · exact ih c (by simp [hc])

theorem splitSlash_mem (p : Str) : ∀ c ∈ splitSlash p, ∀ x ∈ c, x ∈ p := by
  induction p with
  | nil => simp [splitSlash]
  | cons y ys ih =>
    simp only [splitSlash]
    split
    · intro c hc x hx
      simp only [List.mem_cons] at hc
      rcases hc with hc | hc
      · subst hc; simp at hx
      · exact List.mem_cons_of_mem _ (ih c hc x hx)
    · cases hs : splitSlash ys with
      | nil => exact absurd hs (splitSlash_ne_nil ys)
      | cons a rest =>
        rw [hs] at ih
        intro c hc x hx
        simp only [List.mem_cons] at hc
        rcases hc with hc | hc
        · subst hc
          simp only [List.mem_cons] at hx
          rcases hx with hx | hx
          · subst hx; simp
          · exact List.mem_cons_of_mem _ (ih a (by simp) x hx)
        · exact List.mem_cons_of_mem _ (ih c (by simp [hc]) x hx)


theorem scanComp_eq (p junk : Str) (hn : NUL ∉ p) :
    scanComp (p ++ NUL :: junk) = some (p.dropWhile (· != SLASH) ++ NUL :: junk) := by
  induction p with
  | nil => simp [scanComp]
  | cons c cs ih =>
    have hc : c ≠ NUL := fun e => hn (by simp [e])
    have hcs : NUL ∉ cs := fun m => hn (by simp [m])
    by_cases hs : c = SLASH
    · subst hs; simp [scanComp, List.dropWhile_cons]
    · simp [scanComp, List.dropWhile_cons, hc, hs, ih hcs]

theorem skipSlashDots_real (c tail : Str) (hreal : isReal c = true) (hs : SLASH ∉ c) (hn : NUL ∉ c) :
    skipSlashDots (c ++ tail) = some (c ++ tail) := by
  cases c with
  | nil => simp [isReal] at hreal
  | cons x xs =>
    have hx : x ≠ SLASH := fun e => hs (by simp [e])
    have hx' : (x == SLASH) = false := by simpa using hx
    by_cases hd : x = DOT
    · subst hd
      cases xs with
      | nil => simp [isReal] at hreal
      | cons y ys =>
        have hy : y ≠ SLASH := fun e => hs (by simp [e])
        have hyn : y ≠ NUL := fun e => hn (by simp [e])
        have hb : (y == SLASH || y == NUL) = false := by simp [hy, hyn]
        simp +decide [skipSlashDots, isSingleDot, hb]
    · simp +decide [skipSlashDots, isSingleDot, hx, hd]

theorem skipSlashDots_join (cs : List Str) (junk : Str) (hne : cs ≠ [])
    (hs : ∀ c ∈ cs, SLASH ∉ c ∧ NUL ∉ c) :
    skipSlashDots (joinSlash cs ++ NUL :: junk)
      = some (joinSlash (cs.dropWhile (fun c => !isReal c)) ++ NUL :: junk) := by
  induction cs with
  | nil => exact absurd rfl hne
  | cons c rest ih =>
    have ⟨hcs, hcn⟩ := hs c (by simp)
    by_cases hreal : isReal c = true
    · simp only [List.dropWhile_cons, hreal, Bool.not_true, Bool.false_eq_true, ↓reduceIte]
      cases rest with
      | nil => rw [joinSlash_single]; exact skipSlashDots_real c _ hreal hcs hcn
      | cons d r =>
        rw [joinSlash_cons_cons, List.append_assoc]
        exact skipSlashDots_real c _ hreal hcs hcn
    · have hreal' : isReal c = false := by simpa using hreal
      simp only [List.dropWhile_cons, hreal', Bool.not_false, ↓reduceIte]
      have hc : c = [] ∨ c = [DOT] := by
        cases c with
        | nil => exact Or.inl rfl
        | cons x xs =>
          simp only [isReal, List.isEmpty_cons, Bool.not_false, Bool.true_and, bne_eq_false_iff_eq] at hreal'
          exact Or.inr hreal'
      cases rest with
      | nil =>
        rw [joinSlash_single]
        rcases hc with hc | hc <;> subst hc <;>
          simp +decide [skipSlashDots, isSingleDot, joinSlash_nil]
      | cons d r =>
        have ih' := ih (by simp) (fun x hx => hs x (by simp [hx]))
        rw [joinSlash_cons_cons]
        rcases hc with hc | hc <;> subst hc <;>
          simp +decide [skipSlashDots, isSingleDot, ih']

theorem splitSlash_nonul (p : Str) (hn : NUL ∉ p) : ∀ c ∈ splitSlash p, SLASH ∉ c ∧ NUL ∉ c :=
  fun c hc => ⟨splitSlash_noslash p c hc, fun m => hn (splitSlash_mem p c hc NUL m)⟩

theorem skipSlashDots_eq (p junk : Str) (hn : NUL ∉ p) :
    skipSlashDots (p ++ NUL :: junk) = some (skipRef p ++ NUL :: junk) := by
  have := skipSlashDots_join (splitSlash p) junk (splitSlash_ne_nil p) (splitSlash_nonul p hn)
  rw [joinSlash_splitSlash] at this
  exact this


/-! ### splitSlash ∘ joinSlash -/

theorem splitSlash_noslash_self (c : Str) (hs : SLASH ∉ c) : splitSlash c = [c] := by
  induction c with
  | nil => rfl
  | cons x xs ih =>
    have hx : (x == SLASH) = false := by
      have : x ≠ SLASH := fun e => hs (by simp [e])
      simpa using this
    simp [splitSlash, hx, ih (fun m => hs (by simp [m]))]

theorem splitSlash_append_slash (c X : Str) (hs : SLASH ∉ c) :
    splitSlash (c ++ SLASH :: X) = c :: splitSlash X := by
  induction c with
  | nil => simp [splitSlash]
  | cons x xs ih =>
    have hx : (x == SLASH) = false := by
      have : x ≠ SLASH := fun e => hs (by simp [e])
      simpa using this
    simp [splitSlash, hx, ih (fun m => hs (by simp [m]))]

theorem splitSlash_joinSlash (cs : List Str) (hne : cs ≠ []) (hs : ∀ c ∈ cs, SLASH ∉ c) :
    splitSlash (joinSlash cs) = cs := by
  induction cs with
  | nil => exact absurd rfl hne
  | cons c rest ih =>
    cases rest with
    | nil => rw [joinSlash_single]; exact splitSlash_noslash_self c (hs c (by simp))
    | cons d r =>
      rw [joinSlash_cons_cons, splitSlash_append_slash c _ (hs c (by simp)),
        ih (by simp) (fun x hx => hs x (by simp [hx]))]

/-- `joinSlash` of a tail obtained by dropping leading components is a suffix -/
theorem joinSlash_dropWhile_suffix (q : Str → Bool) (cs : List Str) :
    joinSlash (cs.dropWhile q) <:+ joinSlash cs := by
  induction cs with
  | nil => exact List.suffix_refl _
  | cons c rest ih =>
    simp only [List.dropWhile_cons]
    split
    · cases rest with
      | nil => simp [joinSlash_nil]
      | cons d r =>
        rw [joinSlash_cons_cons]
        refine List.IsSuffix.trans ih ?_
        exact ⟨c ++ [SLASH], by simp⟩
    · exact List.suffix_refl _

theorem skipRef_suffix (p : Str) : skipRef p <:+ p := by
  have := joinSlash_dropWhile_suffix (fun c => !isReal c) (splitSlash p)
  rw [joinSlash_splitSlash] at this
  exact this

theorem skipRef_nonul (p : Str) (hn : NUL ∉ p) : NUL ∉ skipRef p :=
  fun m => hn ((skipRef_suffix p).subset m)

theorem filter_dropWhile_not (q : Str → Bool) (cs : List Str) :
    (cs.dropWhile (fun c => !q c)).filter q = cs.filter q := by
  induction cs with
  | nil => rfl
  | cons c rest ih =>
    by_cases h : q c = true
    · simp [List.dropWhile_cons, h]
    · have h' : q c = false := by simpa using h
      simp [List.dropWhile_cons, List.filter_cons, h', ih]

/-- what is left of `p` behind its first piece -/
theorem dropWhile_ne_slash (p : Str) :
    p.dropWhile (· != SLASH)
      = (match (splitSlash p).tail with
         | [] => []
         | t => SLASH :: joinSlash t) := by
  induction p with
  | nil => simp [splitSlash]
  | cons x xs ih =>
    by_cases hx : x = SLASH
    · subst hx
      simp only [List.dropWhile_cons, bne_self_eq_false, Bool.false_eq_true, ↓reduceIte, splitSlash,
        BEq.rfl, List.tail_cons]
      have := splitSlash_ne_nil xs
      cases hsx : splitSlash xs with
      | nil => exact absurd hsx this
      | cons a r => simp only; rw [← hsx, joinSlash_splitSlash]
    · have hx' : (x == SLASH) = false := by simpa using hx
      have hx'' : (x != SLASH) = true := by simp [bne, hx']
      simp only [List.dropWhile_cons, hx'', ↓reduceIte, splitSlash, hx', Bool.false_eq_true]
      rw [ih]
      cases hsx : splitSlash xs with
      | nil => exact absurd hsx (splitSlash_ne_nil xs)
      | cons a r => rfl

theorem iterRef_eq_skipRef (p : Str) : iterRef p = skipRef (p.dropWhile (· != SLASH)) := by
  rw [dropWhile_ne_slash]
  unfold iterRef skipRef
  have hns := splitSlash_noslash p
  cases hsp : splitSlash p with
  | nil => exact absurd hsp (splitSlash_ne_nil p)
  | cons h t =>
    rw [hsp] at hns
    cases t with
    | nil => simp [splitSlash, isReal, joinSlash_nil]
    | cons d r =>
      simp only [List.tail_cons]
      have : splitSlash (SLASH :: joinSlash (d :: r)) = [] :: (d :: r) := by
        simp only [splitSlash, BEq.rfl, ↓reduceIte]
        rw [splitSlash_joinSlash (d :: r) (by simp) (fun x hx => hns x (by simp [hx]))]
      rw [this]
      simp [List.dropWhile_cons, isReal]

theorem iterRef_length_lt (p : Str) (hp : p ≠ []) : (iterRef p).length < p.length := by
  unfold iterRef
  have hj := joinSlash_splitSlash p
  cases hsp : splitSlash p with
  | nil => exact absurd hsp (splitSlash_ne_nil p)
  | cons h t =>
    rw [hsp] at hj
    simp only [List.tail_cons]
    cases t with
    | nil =>
      simp only [List.dropWhile_nil, joinSlash_nil, List.length_nil]
      cases p with
      | nil => exact absurd rfl hp
      | cons a as => simp
    | cons d r =>
      have hs := (joinSlash_dropWhile_suffix (fun c => !isReal c) (d :: r)).length_le
      rw [joinSlash_cons_cons] at hj
      rw [← hj]
      simp only [List.length_append, List.length_cons] at hs ⊢
      omega

theorem iterRef_suffix (p : Str) : iterRef p <:+ p := by
  rw [iterRef_eq_skipRef]
  exact (skipRef_suffix _).trans (List.dropWhile_suffix _)

/-! ### path_next / path_iterate -/

theorem pathNext_eq (p junk : Str) (hn : NUL ∉ p) :
    pathNext (p ++ NUL :: junk)
      = some (match skipRef p with
              | [] => none
              | c :: r => some (p.length - (c :: r).length, (headComp (c :: r)).length)) := by
  unfold pathNext
  simp only [skipSlashDots_eq p junk hn, Option.bind_eq_bind, Option.bind_some, bind]
  have hnr := skipRef_nonul p hn
  have hsuf := (skipRef_suffix p).length_le
  cases hr : skipRef p with
  | nil => simp
  | cons c r =>
    rw [hr] at hnr hsuf
    have hc : (c == NUL) = false := by
      have : c ≠ NUL := fun e => hnr (by simp [e])
      simpa using this
    have hsc := scanComp_eq (c :: r) junk hnr
    simp only [List.cons_append] at hsc
    simp only [List.cons_append, List.head?_cons, Option.bind_some, hc, Bool.false_eq_true, ↓reduceIte, hsc]
    have hl := @List.takeWhile_append_dropWhile _ (· != SLASH) (c :: r)
    have hl' : ((c :: r).takeWhile (· != SLASH)).length + ((c :: r).dropWhile (· != SLASH)).length = (c :: r).length := by
      rw [← List.length_append, hl]
    simp only [headComp, List.length_append, List.length_cons] at hl' hsuf ⊢
    congr 3 <;> omega

theorem pathIterate_eq (p junk : Str) (hn : NUL ∉ p) :
    pathIterate (p ++ NUL :: junk)
      = some (if p.isEmpty then none else some (iterRef p ++ NUL :: junk)) := by
  unfold pathIterate
  cases p with
  | nil => simp
  | cons c cs =>
    have hc : (c == NUL) = false := by
      have : c ≠ NUL := fun e => hn (by simp [e])
      simpa using this
    simp only [List.cons_append, List.head?_cons, Option.bind_eq_bind, Option.bind_some, bind, hc,
      Bool.false_eq_true, ↓reduceIte, List.isEmpty_cons]
    by_cases hs : c = SLASH
    · subst hs
      have h1 := skipSlashDots_eq (SLASH :: cs) junk hn
      simp only [List.cons_append] at h1
      simp only [BEq.rfl, ↓reduceIte, h1, Option.bind_some]
      rw [iterRef_eq_skipRef]
      simp [List.dropWhile_cons]
    · have hs' : (c == SLASH) = false := by simpa using hs
      have h1 := scanComp_eq (c :: cs) junk hn
      simp only [List.cons_append] at h1
      have hn2 : NUL ∉ (c :: cs).dropWhile (· != SLASH) := fun m => hn ((List.dropWhile_suffix _).subset m)
      simp only [hs', Bool.false_eq_true, ↓reduceIte, h1, Option.bind_some,
        skipSlashDots_eq _ junk hn2, iterRef_eq_skipRef]


theorem takeWhile_all (l : Str) (q : Byte → Bool) (h : ∀ x ∈ l, q x = true) : l.takeWhile q = l := by
  induction l with
  | nil => rfl
  | cons a as ih =>
    simp [List.takeWhile_cons, h a (by simp), ih (fun x hx => h x (by simp [hx]))]

/-- the component-wise reading of `pathNext_eq` -/
theorem skipRef_components (p : Str) :
    match skipRef p with
    | [] => comps p = []
    | c :: r => ∃ h t, comps p = h :: t ∧ headComp (c :: r) = h ∧ (c :: r).take h.length = h
        ∧ comps ((c :: r).drop h.length) = t := by
  unfold skipRef comps
  have hns := splitSlash_noslash p
  rw [← filter_dropWhile_not isReal (splitSlash p)]
  have hsub : ∀ x ∈ (splitSlash p).dropWhile (fun c => !isReal c), SLASH ∉ x :=
    fun x hx => hns x ((List.dropWhile_suffix _).subset hx)
  cases hd : (splitSlash p).dropWhile (fun c => !isReal c) with
  | nil => simp [joinSlash_nil]
  | cons h t =>
    have hreal : isReal h = true := by
      have := List.head_dropWhile_not (fun c => !isReal c) (l := splitSlash p) (by rw [hd]; simp)
      simpa [hd] using this
    rw [hd] at hsub
    have hhs : SLASH ∉ h := hsub h (by simp)
    have hne : h ≠ [] := by
      intro e; subst e; simp [isReal] at hreal
    cases hj : joinSlash (h :: t) with
    | nil =>
      cases t with
      | nil => rw [joinSlash_single] at hj; exact absurd hj hne
      | cons d r => rw [joinSlash_cons_cons] at hj; simp at hj
    | cons c r =>
      simp only
      refine ⟨h, t.filter isReal, by simp [List.filter_cons, hreal], ?_, ?_, ?_⟩
      · rw [← hj]
        cases t with
        | nil =>
          rw [joinSlash_single]
          unfold headComp
          exact takeWhile_all h (· != SLASH) (fun x hx => by
            have : x ≠ SLASH := fun e => hhs (e ▸ hx)
            simpa using this)
        | cons d r' =>
          rw [joinSlash_cons_cons]
          exact takeWhile_ne_append h _ SLASH hhs
      · rw [← hj]
        cases t with
        | nil => rw [joinSlash_single]; simp
        | cons d r' => rw [joinSlash_cons_cons]; exact List.take_left' rfl
      · rw [← hj]
        cases t with
        | nil => rw [joinSlash_single]; simp [splitSlash, isReal]
        | cons d r' =>
          rw [joinSlash_cons_cons]
          have : (h ++ SLASH :: joinSlash (d :: r')).drop h.length = SLASH :: joinSlash (d :: r') := by
            simpa using drop_append_add h (SLASH :: joinSlash (d :: r')) 0
          rw [this]
          simp only [splitSlash, BEq.rfl, ↓reduceIte]
          rw [splitSlash_joinSlash (d :: r') (by simp) (fun x hx => hsub x (by simp [hx]))]
          simp [List.filter_cons, isReal]

/-! ### path_compare_node -/

theorem compareNode_eq (a ja b jb : Str) (ha : NUL ∉ a) (hb : NUL ∉ b) :
    compareNode (a ++ NUL :: ja) (b ++ NUL :: jb) = some (lexCmp (headComp a) (headComp b)) := by
  induction a generalizing b with
  | nil =>
    cases b with
    | nil => simp +decide [compareNode, headComp, lexCmp]
    | cons cb rb =>
      have hcb : cb ≠ NUL := fun e => hb (by simp [e])
      by_cases hs : cb = SLASH
      · subst hs; simp +decide [compareNode, headComp, lexCmp]
      · simp +decide [compareNode, headComp, lexCmp, hcb, hs, List.takeWhile_cons]
  | cons ca ra ih =>
    have hca : ca ≠ NUL := fun e => ha (by simp [e])
    have hra : NUL ∉ ra := fun m => ha (by simp [m])
    by_cases hsa : ca = SLASH
    · subst hsa
      cases b with
      | nil => simp +decide [compareNode, headComp, lexCmp]
      | cons cb rb =>
        have hcb : cb ≠ NUL := fun e => hb (by simp [e])
        by_cases hs : cb = SLASH
        · subst hs; simp +decide [compareNode, headComp, lexCmp]
        · simp +decide [compareNode, headComp, lexCmp, hcb, hs, List.takeWhile_cons]
    · cases b with
      | nil => simp +decide [compareNode, headComp, lexCmp, hca, hsa, List.takeWhile_cons]
      | cons cb rb =>
        have hcb : cb ≠ NUL := fun e => hb (by simp [e])
        have hrb : NUL ∉ rb := fun m => hb (by simp [m])
        by_cases hs : cb = SLASH
        · subst hs; simp +decide [compareNode, headComp, lexCmp, hca, hsa, List.takeWhile_cons]
        · have := ih rb hra hrb
          simp only [headComp] at this
          by_cases he : ca = cb
          · subst he
            simp +decide [compareNode, headComp, lexCmp, hca, hsa, List.takeWhile_cons, this]
          · simp +decide [compareNode, headComp, lexCmp, hca, hsa, hcb, hs, he, List.takeWhile_cons]

theorem lexCmp_eq_zero_iff (x y : Str) : lexCmp x y = 0 ↔ x = y := by
  induction x generalizing y with
  | nil => cases y <;> simp [lexCmp]
  | cons a as ih =>
    cases y with
    | nil => simp [lexCmp]
    | cons b bs =>
      by_cases h : a = b
      · subst h; simp [lexCmp, ih]
      · simp only [lexCmp, beq_iff_eq, h, ↓reduceIte, List.cons.injEq, false_and, iff_false]
        split <;> simp


/-! ### path_remove_prefix -/

theorem removePrefixLoop_eq (f : Nat) (p jp q jq : Str) (hp : NUL ∉ p) (hq : NUL ∉ q) (hf : p.length < f) :
    removePrefixLoop f (p ++ NUL :: jp) (q ++ NUL :: jq) = some (removePrefixRef f p q ++ NUL :: jp) := by
  induction f generalizing p q with
  | zero => omega
  | succ f ih =>
    unfold removePrefixLoop removePrefixRef
    have hcmp := compareNode_eq p jp q jq hp hq
    cases q with
    | nil =>
      cases p with
      | nil => simp +decide
      | cons c cs =>
        have hc : (c == NUL) = false := by
          have : c ≠ NUL := fun e => hp (by simp [e])
          simpa using this
        simp only [List.nil_append, List.cons_append] at hcmp
        simp +decide only [List.nil_append, List.cons_append, List.head?_cons, Option.bind_eq_bind,
          Option.bind_some, bind, hc, hcmp, List.isEmpty_nil, List.isEmpty_cons, Bool.or_true, ↓reduceIte,
          bne, Bool.not_false, Bool.not_true, BEq.rfl, Bool.false_eq_true]
        split <;> rfl
    | cons d ds =>
      have hd : (d == NUL) = false := by
        have : d ≠ NUL := fun e => hq (by simp [e])
        simpa using this
      cases p with
      | nil =>
        simp only [List.nil_append, List.cons_append] at hcmp
        simp +decide only [List.nil_append, List.cons_append, List.head?_cons, Option.bind_eq_bind,
          Option.bind_some, bind, hd, hcmp, List.isEmpty_nil, List.isEmpty_cons, Bool.true_or, ↓reduceIte,
          bne, Bool.not_false, Bool.not_true, BEq.rfl, Bool.false_eq_true]
        split <;> rfl
      | cons c cs =>
        have hc : (c == NUL) = false := by
          have : c ≠ NUL := fun e => hp (by simp [e])
          simpa using this
        have hip := pathIterate_eq (c :: cs) jp hp
        have hiq := pathIterate_eq (d :: ds) jq hq
        simp only [List.cons_append, List.isEmpty_cons, Bool.false_eq_true, ↓reduceIte] at hcmp hip hiq
        simp only [List.cons_append, List.head?_cons, Option.bind_eq_bind, Option.bind_some, bind, hc, hd,
          hcmp, List.isEmpty_cons, Bool.or_self, Bool.false_eq_true, ↓reduceIte, bne, Bool.not_false,
          Bool.not_true, hip, hiq]
        by_cases he : headComp (c :: cs) = headComp (d :: ds)
        · have h0 : lexCmp (headComp (c :: cs)) (headComp (d :: ds)) = 0 := (lexCmp_eq_zero_iff _ _).mpr he
          have hlt := iterRef_length_lt (c :: cs) (by simp)
          have hnp : NUL ∉ iterRef (c :: cs) := fun m => hp ((iterRef_suffix _).subset m)
          have hnq : NUL ∉ iterRef (d :: ds) := fun m => hq ((iterRef_suffix _).subset m)
          simp only [h0]
          simp only [he, BEq.rfl, ↓reduceIte]
          exact ih _ _ hnp hnq (by simp only [List.length_cons] at hf hlt; omega)
        · have h0 : lexCmp (headComp (c :: cs)) (headComp (d :: ds)) ≠ 0 := fun e => he ((lexCmp_eq_zero_iff _ _).mp e)
          have h0' : (lexCmp (headComp (c :: cs)) (headComp (d :: ds)) == 0) = false := by simpa using h0
          have he' : (headComp (c :: cs) == headComp (d :: ds)) = false := by simpa using he
          simp only [h0', he', Bool.false_eq_true, ↓reduceIte, List.cons_append]

/-- more fuel than the length of `p` changes nothing -/
theorem removePrefixRef_stable (f g : Nat) (p q : Str) (hf : p.length < f) (hg : p.length < g) :
    removePrefixRef f p q = removePrefixRef g p q := by
  induction f generalizing g p q with
  | zero => omega
  | succ f ih =>
    cases g with
    | zero => omega
    | succ g =>
      unfold removePrefixRef
      split
      · rfl
      · rename_i hne
        split
        · have hp : p ≠ [] := by
            intro e; subst e; simp at hne
          have hlt := iterRef_length_lt p hp
          exact ih g _ _ (by omega) (by omega)
        · rfl


theorem removePrefixRef_suffix (f : Nat) (p q : Str) : removePrefixRef f p q <:+ p := by
  induction f generalizing p q with
  | zero => exact List.suffix_refl _
  | succ f ih =>
    unfold removePrefixRef
    split
    · exact List.suffix_refl _
    · split
      · exact (ih _ _).trans (iterRef_suffix p)
      · exact List.suffix_refl _

/-! ## creader -/

theorem rewindCR_eq (pre rest rb : Str) :
    rewindCR (pre ++ rb.reverse ++ rest) pre.length (pre.length + rb.length)
      = some (pre.length + (rb.dropWhile (· == CR)).length) := by
  induction rb generalizing rest with
  | nil =>
    cases pre with
    | nil => simp [rewindCR]
    | cons a as => simp [rewindCR]
  | cons x xs ih =>
    have hidx : (pre ++ (x :: xs).reverse ++ rest)[pre.length + xs.length]? = some x := by
      simp [List.getElem?_append_left, List.getElem?_append_right]
    have : pre.length + (x :: xs).length = (pre.length + xs.length) + 1 := by simp; omega
    rw [this, rewindCR]
    have hne : ¬ (pre.length + xs.length + 1 = pre.length) := by omega
    simp only [hne, ↓reduceIte, hidx, List.dropWhile_cons]
    split
    · have := ih (x :: rest)
      simpa [List.append_assoc] using this
    · simp; omega

theorem creaderReadline_eq (mem : Str) (cursor : Nat) (h : cursor ≤ mem.length) :
    creaderReadline mem cursor
      = some (if (mem.drop cursor).isEmpty then (-1, cursor, cursor)
              else (((lineRef (mem.drop cursor)).1 : Int), cursor, cursor + (lineRef (mem.drop cursor)).2)) := by
  unfold creaderReadline lineRef
  simp only
  split
  · rfl
  · rename_i hne
    have hmem : mem = mem.take cursor ++ mem.drop cursor := (List.take_append_drop cursor mem).symm
    have hpl : (mem.take cursor).length = cursor := by simp [List.length_take]; omega
    generalize hs : mem.drop cursor = s at *
    generalize hpre : mem.take cursor = pre at *
    have hsplit := @List.takeWhile_append_dropWhile _ (fun c => c != NL && c != NUL) s
    generalize hb : s.takeWhile (fun c => c != NL && c != NUL) = body at *
    generalize hr : s.dropWhile (fun c => c != NL && c != NUL) = rest at *
    have hsl : s.length = body.length + rest.length := by rw [← hsplit]; simp
    have hml : mem.length = cursor + s.length := by rw [hmem]; simp [hpl]
    have hit : mem.length - rest.length = cursor + body.length := by omega
    rw [hit]
    cases rest with
    | nil =>
      simp only [List.isEmpty_nil, Bool.not_true, Bool.false_eq_true, ↓reduceIte]
      have : body.length = s.length := by simp at hsl; omega
      simp [this]
      omega
    | cons x xs =>
      have : ¬ body.length = s.length := by simp at hsl; omega
      simp only [List.isEmpty_cons, Bool.not_false, ↓reduceIte, this]
      have hrw := rewindCR_eq pre (x :: xs) body.reverse
      simp only [List.reverse_reverse, List.length_reverse, hpl] at hrw
      have hm2 : mem = pre ++ body ++ x :: xs := by rw [hmem, ← hsplit, List.append_assoc]
      rw [← hm2] at hrw
      rw [hrw]
      simp
      omega


theorem lineRef_used (s : Str) (hs : s ≠ []) : 1 ≤ (lineRef s).2 ∧ (lineRef s).2 ≤ s.length := by
  unfold lineRef
  have hsplit := @List.takeWhile_append_dropWhile _ (fun c => c != NL && c != NUL) s
  have hle : (s.takeWhile (fun c => c != NL && c != NUL)).length ≤ s.length := by
    have := congrArg List.length hsplit
    simp only [List.length_append] at this
    omega
  have hpos : 0 < s.length := by cases s with | nil => exact absurd rfl hs | cons a as => simp
  simp only
  split
  · rename_i h; simp only [h]; omega
  · simp only; omega

theorem creaderAll_ends (mem : Str) (f cursor : Nat) (hc : cursor ≤ mem.length) (hf : mem.length - cursor + 1 ≤ f) :
    ∃ l, creaderAll mem f cursor = some (l, true) := by
  induction f generalizing cursor with
  | zero => omega
  | succ f ih =>
    unfold creaderAll
    rw [creaderReadline_eq mem cursor hc]
    by_cases he : (mem.drop cursor).isEmpty = true
    · simp [he]
    · have hne : mem.drop cursor ≠ [] := by simpa using he
      have ⟨h1, h2⟩ := lineRef_used _ hne
      simp only [List.length_drop] at h2
      simp only [he, Bool.false_eq_true, ↓reduceIte]
      have hnn : ¬ (((lineRef (mem.drop cursor)).1 : Int) < 0) := by omega
      simp only [hnn, ↓reduceIte]
      obtain ⟨l, hl⟩ := ih (cursor + (lineRef (mem.drop cursor)).2) (by omega) (by omega)
      rw [hl]
      exact ⟨_, rfl⟩

/-! ## what the argv splitters write -/

theorem onlyTerminated_refl (s : Str) : onlyTerminated s s = true := by
  induction s with
  | nil => rfl
  | cons a as ih => simp [onlyTerminated, ih]

theorem onlyTerminated_append (a b c d : Str) (h1 : onlyTerminated a b = true) (h2 : onlyTerminated c d = true) :
    onlyTerminated (a ++ c) (b ++ d) = true := by
  induction a generalizing b with
  | nil =>
    cases b with
    | nil => simpa using h2
    | cons y ys => simp [onlyTerminated] at h1
  | cons x xs ih =>
    cases b with
    | nil => simp [onlyTerminated] at h1
    | cons y ys =>
      simp only [onlyTerminated, Bool.and_eq_true] at h1
      simp only [List.cons_append, onlyTerminated, Bool.and_eq_true]
      exact ⟨h1.1, ih ys h1.2⟩

theorem skipWsZ_suffix (d d' : Str) (h : skipWsZ d = some d') : d' <:+ d := by
  induction d with
  | nil => simp [skipWsZ] at h
  | cons c rest ih =>
    simp only [skipWsZ] at h
    split at h
    · split at h
      · exact (ih h).trans (List.suffix_cons _ _)
      · cases h; exact List.suffix_refl _
    · cases h; exact List.suffix_refl _

theorem scanTokZ_suffix (d d' : Str) (h : scanTokZ d = some d') : d' <:+ d := by
  induction d with
  | nil => simp [scanTokZ] at h
  | cons c rest ih =>
    simp only [scanTokZ] at h
    split at h
    · exact (ih h).trans (List.suffix_cons _ _)
    · cases h; exact List.suffix_refl _

theorem take_append_suffix (data d2 : Str) (h : d2 <:+ data) :
    data = data.take (data.length - d2.length) ++ d2 := by
  obtain ⟨pre, hpre⟩ := h
  subst hpre
  simp

theorem argvSplitGo_mem (argcmax f : Nat) (data : Str) (argc : Nat) (r : ArgvRes)
    (h : argvSplitGo argcmax f data argc = some r) : onlyTerminated r.mem data = true := by
  induction f generalizing data argc r with
  | zero => simp [argvSplitGo] at h
  | succ f ih =>
    rw [argvSplitGo] at h
    simp only [Option.bind_eq_bind, bind] at h
    cases h1 : skipWsZ data with
    | none => simp [h1] at h
    | some d1 =>
      simp only [h1, Option.bind_some] at h
      cases hc : d1.head? with
      | none => simp [hc] at h
      | some c =>
        simp only [hc, Option.bind_some] at h
        split at h
        · cases h; exact onlyTerminated_refl _
        · cases h2 : scanTokZ d1 with
          | none => simp [h2] at h
          | some d2 =>
            simp only [h2, Option.bind_some] at h
            cases d2 with
            | nil => simp at h
            | cons c2 t2 =>
              simp only [List.head?_cons, Option.bind_some, List.tail_cons] at h
              split at h
              · cases h; exact onlyTerminated_refl _
              · rename_i hnz
                split at h
                · rename_i hws
                  cases hr : argvSplitGo argcmax f t2 (argc + 1) with
                  | none => simp [hr] at h
                  | some r' =>
                    simp only [hr, Option.bind_some, Option.some.injEq] at h
                    subst h
                    simp only
                    have hsuf : (c2 :: t2) <:+ data := (scanTokZ_suffix _ _ h2).trans (skipWsZ_suffix _ _ h1)
                    have hdata := take_append_suffix data (c2 :: t2) hsuf
                    have hk : data.length - (c2 :: t2).length + 1 - 1 = data.length - (c2 :: t2).length := by omega
                    rw [hk]
                    conv => lhs; arg 2; rw [hdata]
                    apply onlyTerminated_append _ _ _ _ (onlyTerminated_refl _)
                    have hc2n : c2 ≠ NUL := by simpa using hnz
                    have hw : isWsArgv c2 = true := by rw [← strchrHit_ws_of_ne c2 hc2n]; exact hws
                    simp only [onlyTerminated, BEq.rfl, hw, Bool.and_self, Bool.or_true, Bool.true_and]
                    exact ih _ _ _ hr
                · cases h; exact onlyTerminated_refl _

theorem argvSplitNGo_mem (argcmax f : Nat) (data : Str) (argc : Nat) (r : ArgvRes)
    (h : argvSplitNGo argcmax f data argc = some r) : onlyTerminated r.mem data = true := by
  induction f generalizing data argc r with
  | zero => simp [argvSplitNGo] at h
  | succ f ih =>
    rw [argvSplitNGo] at h
    simp only at h
    split at h
    · cases h; exact onlyTerminated_refl _
    · rename_i c rest1 hd1
      split at h
      · cases h; exact onlyTerminated_refl _
      · split at h
        · cases h; exact onlyTerminated_refl _
        · rename_i c2 rest2 hd2
          split at h
          · rename_i hws
            cases hr : argvSplitNGo argcmax f rest2 (argc + 1) with
            | none => simp [hr] at h
            | some r' =>
              simp only [hr, Option.some.injEq] at h
              subst h
              simp only
              have hsuf : (c2 :: rest2) <:+ data := by
                rw [← hd2]
                exact (List.dropWhile_suffix _).trans (List.dropWhile_suffix _)
              have hdata := take_append_suffix data (c2 :: rest2) hsuf
              rw [hd2]
              have hk : data.length - (c2 :: rest2).length + 1 - 1 = data.length - (c2 :: rest2).length := by omega
              rw [hk]
              conv => lhs; arg 2; rw [hdata]
              apply onlyTerminated_append _ _ _ _ (onlyTerminated_refl _)
              have hw : (c2 == NUL || isWsArgv c2) = true := by rw [← strchrHit_ws]; exact hws
              simp only [onlyTerminated, BEq.rfl, Bool.true_and, Bool.and_eq_true, Bool.or_eq_true, beq_iff_eq]
              refine ⟨?_, ih _ _ _ hr⟩
              simp only [Bool.or_eq_true, beq_iff_eq] at hw
              rcases hw with hw | hw
              · exact Or.inl hw.symm
              · exact Or.inr hw
          · cases h; exact onlyTerminated_refl _

end Igris.C19
