/- C19 round 3b: index-level `path_remove_prefix` against the cursor model. -/
import IgrisModel.C19.Ptr2
import IgrisModel.C19.Lemmas5
namespace Igris.C19
open Igris.Proto

/-- wherever the cursor-model loop yields a cursor, the index-level loop (same fuel) yields the
index of that cursor: no `oob`, no `fuel`, no NULL from `path_iterate` -/
theorem removePrefixLoopP_ok (mp mq : Str) : ∀ (f p q : Nat) (c : Cur),
    removePrefixLoop f (mp.drop p) (mq.drop q) = some c →
    ∃ r, removePrefixLoopP mp mq f p q = .ok r ∧ c = mp.drop r := by
  intro f
  induction f with
  | zero => intro p q c h; simp [removePrefixLoop] at h
  | succ f ih =>
    intro p q c h
    unfold removePrefixLoop at h
    unfold removePrefixLoopP
    simp only [List.head?_drop] at h
    cases hq : mq[q]? with
    | none => rw [hq] at h; simp at h
    | some cp =>
      rw [hq] at h
      simp only [rd, hq, PR.ok_bind] at h ⊢
      simp only [Option.bind_eq_bind, Option.bind_some] at h
      cases hp : mp[p]? with
      | none =>
        have hnil : mp.drop p = [] := List.drop_eq_nil_of_le (List.getElem?_eq_none_iff.mp hp)
        rw [hp, hnil] at h
        by_cases h1 : (cp != NUL) = true
        · simp [h1, compareNode] at h
        · simp [h1] at h
      | some c0 =>
        rw [hp] at h
        simp only [PR.ok_bind] at h ⊢
        have hcont : ∀ (b : Bool),
            (if (cp != NUL) = true then some true else (some c0).bind fun c => some (c != NUL)) = some b →
            (if (cp != NUL) = true then (pure true : PR Bool) else pure (c0 != NUL)) = PR.ok b := by
          intro b hb
          by_cases h1 : (cp != NUL) = true
          · simp only [h1, if_true] at hb ⊢; injection hb with hb; rw [hb]; rfl
          · simp only [h1] at hb ⊢
            simp only [Bool.false_eq_true, if_false, Option.bind_some] at hb
            simp only [Bool.false_eq_true, if_false]
            injection hb with hb; rw [hb]; rfl
        cases hk : (if (cp != NUL) = true then some true else (some c0).bind fun c => some (c != NUL)) with
        | none => by_cases h1 : (cp != NUL) = true <;> simp [h1] at hk
        | some cont =>
          rw [hk] at h
          rw [hcont cont hk]
          simp only [Option.bind_some, PR.ok_bind] at h ⊢
          by_cases h2 : (!cont) = true
          · simp only [h2, if_true] at h ⊢
            injection h with h
            exact ⟨p, rfl, h.symm⟩
          · simp only [h2] at h ⊢
            simp only [Bool.false_eq_true, if_false] at h ⊢
            cases hc : compareNode (mp.drop p) (mq.drop q) with
            | none => rw [hc] at h; simp at h
            | some v =>
              rw [hc] at h
              rw [compareNodeP_ok mp mq (mp.length + 1) p q v (by omega) hc]
              simp only [Option.bind_some, PR.ok_bind] at h ⊢
              by_cases h3 : (v == 0) = true
              · simp only [h3, if_true] at h ⊢
                by_cases h4 : (c0 == NUL || cp == NUL) = true
                · simp only [h4, if_true] at h ⊢
                  injection h with h
                  exact ⟨p, rfl, h.symm⟩
                · simp only [h4] at h ⊢
                  simp only [Bool.false_eq_true, if_false] at h ⊢
                  cases hi1 : pathIterate (mp.drop p) with
                  | none => rw [hi1] at h; simp at h
                  | some r1 =>
                    cases hi2 : pathIterate (mq.drop q) with
                    | none => rw [hi1, hi2] at h; simp at h
                    | some r2 =>
                      rw [hi1, hi2] at h
                      simp only [Option.bind_some] at h
                      obtain ⟨r1', e1, e1'⟩ := pathIterateP_eq mp p r1 hi1
                      obtain ⟨r2', e2, e2'⟩ := pathIterateP_eq mq q r2 hi2
                      rw [e1, e2]
                      simp only [PR.ok_bind]
                      cases r1' with
                      | none => subst e1'; simp at h
                      | some p' =>
                        cases r2' with
                        | none => subst e1' e2'; simp at h
                        | some q' =>
                          subst e1' e2'
                          simp only [Option.map_some] at h
                          exact ih p' q' c h
              · simp only [h3] at h ⊢
                simp only [Bool.false_eq_true, if_false] at h ⊢
                injection h with h
                exact ⟨p, rfl, h.symm⟩

end Igris.C19
