/-
  C19 round 3b — `path_remove_prefix` at index level (continues Ptr.lean; core Lean only).
  `mp` / `mq` are the two allocations (exactly), `path` / `pre` indices into them.
-/
import IgrisModel.C19.Model3
namespace Igris.C19
open Igris.Proto

/-- the loop of `path_remove_prefix`; fuel as in the cursor model (one unit per iteration).
A NULL from `path_iterate` would be dereferenced by the next test: `oob (-1)` (unreachable, the
first bytes were just seen to be non-NUL - `removePrefixLoopP_ok` shows it never happens). -/
def removePrefixLoopP (mp mq : Str) : Nat → Nat → Nat → PR Nat
  | 0, _, _ => .fuel
  | f + 1, path, pre => do
    -- while (*prefix != 0 || *path != 0)
    let cp ← rd mq pre
    let cont ← (if cp != NUL then (pure true : PR Bool) else do let c ← rd mp path; pure (c != NUL))
    if !cont then pure path else
    let cmp ← compareNodeP mp mq (mp.length + 1) path pre
    if cmp == 0 then
      -- if (*path == 0 || *prefix == 0) break;
      let c ← rd mp path
      if c == NUL || cp == NUL then pure path else
      let a ← pathIterateP mp path
      let b ← pathIterateP mq pre
      match a, b with
      | some p', some q' => removePrefixLoopP mp mq f p' q'
      | _, _ => .oob (-1)
    else pure path

/-- `path_remove_prefix(path, prefix)`: index of the returned pointer in `path`'s block -/
def pathRemovePrefixP (mp mq : Str) : PR Nat :=
  removePrefixLoopP mp mq (mp.length + mq.length + 1) 0 0

end Igris.C19
