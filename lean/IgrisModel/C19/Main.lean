import IgrisModel.C19.Ptr2
open Igris.Proto Igris.C19

def fmtToks (v : List Str) : String :=
  toString v.length ++ String.join (v.map fun t => " " ++ bytesHex t)

def fmtToksO : Option (List Str) → String
  | some v => fmtToks v
  | none => "fault"

/-- results of the pointer-level models (Ptr.lean): an access outside the
extent prints `fault`, a loop that did not end `fuel` -/
def fmtPR {α : Type} (f : α → String) : PR α → String
  | .ok a => f a
  | .oob _ => "fault"
  | .fuel => "fuel"

def parseNames (w : String) : Option (List Str) :=
  if w = "-" then some [] else (w.splitOn ",").mapM parseBytes?

/-- `argc`, then `offset:string` for every `argv[i]` (the C string read from
the line after the call, bounded by the extent), then the line after the call -/
def fmtArgv : Option ArgvRes → String
  | none => "fault"
  | some r =>
    toString r.argc
      ++ String.join (r.argv.map fun o => " " ++ toString o ++ ":" ++ bytesHex (cstrAtN r.mem o))
      ++ " |" ++ bytesHex r.mem

def fmtDispatch : Option Dispatch → String
  | none => "fault"
  | some d =>
    match d.call with
    | none => "rc=" ++ toString d.rc ++ " ret=-777 call=none"
    | some (k, argc, args) =>
      "rc=" ++ toString d.rc ++ " ret=" ++ toString (100 + k) ++ " call=" ++ toString k ++ "/" ++ toString argc
        ++ String.join (args.map fun a => ":" ++ bytesHex a)

def parseDropTable (w : String) : Option (List Str × Nat) :=
  match w.splitOn ":" with
  | [d, n] => do
    let d ← d.toNat?
    let n ← parseNames n
    pure (n, d)
  | _ => none

def fmtCreader (mem : Str) : String :=
  match creaderAllP mem (mem.length + 2) 0 with
  | .oob _ => "fault"
  | .fuel => "fuel"
  | .ok (l, ended) =>
    String.join (l.map fun (t, len, c) => toString t ++ ":" ++ toString len ++ ":" ++ toString c ++ " ")
      ++ (if ended then "end" else "LOOP")


def fmtOB : Option Bool → String
  | none => "fault"
  | some true => "1"
  | some false => "0"

def fmtON : Option Nat → String
  | none => "fault"
  | some n => toString n

/-- `name[:help]`, both hex or `-` -/
def parseEntry (w : String) : Option HelpEntry :=
  match w.splitOn ":" with
  | [n] => do let n ← parseBytes? n; pure (n, none)
  | [n, h] => do let n ← parseBytes? n; let h ← parseBytes? h; pure (n, some h)
  | _ => none

/-- `_` = empty table, else entries separated by commas -/
def parseHelpTable (w : String) : Option (List HelpEntry) :=
  if w = "_" then some [] else (w.splitOn ",").mapM parseEntry

/-- the answer buffer after the call: bytes written, the rest still 0xa5 -/
def fmtAns (m : Int) (r : Nat × Str) : String :=
  if (r.2.length : Int) > max m 0 then "fault"
  else toString r.1 ++ " " ++ bytesHex (r.2 ++ List.replicate (m.toNat - r.2.length) 0xa5#8)

def stepLine2 (line : String) : Option String :=
  match words line with
  | ["pabs", t] => do
      let t ← parseBytes? t
      pure (fmtOB (pathIsAbs (t ++ [NUL])))
  | ["psimple", t] => do
      let t ← parseBytes? t
      pure (fmtOB (pathIsSimple (t ++ [NUL])))
  | ["pdd", t] => do
      let t ← parseBytes? t
      pure (fmtOB (pathIsDoubleDot (t ++ [NUL])))
  | ["plast", t] => do
      let t ← parseBytes? t
      pure (fmtON (pathLastNode (t ++ [NUL])))
  | ["plastu", t] => do
      let t ← parseBytes? t
      pure (fmtON (pathLastNode (t ++ [NUL])))
  | ["pnext0", t] => do
      let t ← parseBytes? t
      pure (match pathNextNoLen (t ++ [NUL]) with
            | none => "fault"
            | some none => "null"
            | some (some o) => toString o)
  | ["lenfirst", t] => do
      let t ← parseBytes? t
      pure (fmtON (lengthOfFirst (t ++ [NUL])))
  | ["cskip", b, sy] => do
      let b ← parseBytes? b
      let sy ← parseBytes? sy
      pure (match creaderSkip b (sy ++ [NUL]) with
            | none => "fault"
            | some (n, c) => toString n ++ " " ++ toString (b.length - c.length))
  | ["cskipws", b] => do
      let b ← parseBytes? b
      pure (match creaderSkipws b with
            | none => "fault"
            | some (n, c) => toString n ++ " " ++ toString (b.length - c.length))
  | ["beq", a, b] => do
      let a ← parseBytes? a
      let b ← parseBytes? b
      pure (fmtOB (bufEq a b) ++ " " ++ fmtOB (bufNe a b))
  | ["beqz", a, z] => do
      let a ← parseBytes? a
      let z ← parseBytes? z
      pure (fmtOB (bufEqZ a (z ++ [NUL])) ++ " " ++ fmtOB (bufNeZ a (z ++ [NUL])))
  | ["bufctor", k, a] => do
      let a ← parseBytes? a
      pure (fmtON (bufCtorSize (k == "c") a))
  | ["dstr", b] => do
      let b ← parseBytes? b
      pure (bytesHex (dstring b))
  | ["mhelp", t] => do
      let t ← parseHelpTable t
      pure (fmtToks (mshellHelp t))
  | "mhelpt" :: ts => do
      let ts ← ts.mapM parseHelpTable
      pure (fmtToks (mshellTablesHelp ts))
  | ["rhelp", m, t] => do
      let m ← m.toInt?
      let t ← parseHelpTable t
      pure (fmtAns m (rshellHelp t m))
  | "rhelpt" :: m :: ts => do
      let m ← m.toInt?
      let ts ← ts.mapM parseHelpTable
      pure (fmtAns m (rshellTablesHelp ts m))
  | "rshv" :: d :: n :: args => do
      let d ← d.toNat?
      let n ← parseNames n
      let args ← args.mapM parseBytes?
      pure (fmtDispatch (rshellExecuteV args n d))
  | _ => none

def stepCore (line : String) : String :=
  let r : Option String :=
    match words line with
    | ["reset"] => some "ok"
    | ["splitc", b, d] => do
        let b ← parseBytes? b
        let d ← parseBytes? d
        pure (fmtPR fmtToks (splitCharP b (d.headD NUL)))
    | ["splitd", b, d] => do
        let b ← parseBytes? b
        let d ← parseBytes? d
        pure (fmtPR fmtToks (splitDelimsP b d))
    | "join" :: d :: toks => do
        let d ← parseBytes? d
        let toks ← toks.mapM parseBytes?
        pure (fmtPR bytesHex (joinP toks (d.headD NUL)))
    | "joinf" :: d :: pre :: post :: toks => do
        let d ← parseBytes? d
        let pre ← parseBytes? pre
        let post ← parseBytes? post
        let toks ← toks.mapM parseBytes?
        pure (fmtPR bytesHex (joinFmtP toks d pre post))
    | ["trim", b] => do
        let b ← parseBytes? b
        pure (fmtPR bytesHex (trimP b))
    | ["replace", s, a, b] => do
        let s ← parseBytes? s
        let a ← parseBytes? a
        let b ← parseBytes? b
        pure (fmtPR bytesHex (replaceP s a b))
    | ["rsub", m, s, a, b] => do
        let m ← m.toNat?
        let s ← parseBytes? s
        let a ← parseBytes? a
        let b ← parseBytes? b
        pure (fmtPR (fun w =>
                -- a write at an offset ≥ maxsize is outside the buffer
                if w.length > m then "fault"
                else bytesHex (w ++ List.replicate (m - w.length) 0xa5#8))
              (replaceSubstringsP m s a b))
    | ["memmem", l, s] => do
        let l ← parseBytes? l
        let s ← parseBytes? s
        pure (fmtPR (fun r => match r with | some o => toString o | none => "none") (memmemP l 0 l.length s s.length))
    | ["cmdargs", b] => do
        let b ← parseBytes? b
        pure (fmtPR fmtToks (splitCmdargsP b))
    | ["argvn", b, m] => do
        let b ← parseBytes? b
        let m ← m.toNat?
        pure (fmtPR (fun r => fmtArgv (some r)) (argvSplitNP b m))
    | ["argvnz", b, m] => do
        let b ← parseBytes? b
        let m ← m.toNat?
        pure (fmtPR (fun r => fmtArgv (some r)) (argvSplitNP b m))
    | ["premc", a, b] => do
        let a ← parseBytes? a
        let b ← parseBytes? b
        -- round 3b: the index-level model; the result is the offset of the returned pointer
        pure (fmtPR (fun (r : Nat) => toString r) (pathRemovePrefixP (a ++ [NUL]) (b ++ [NUL])))
    | ["argv", b, m] => do
        let b ← parseBytes? b
        let m ← m.toNat?
        pure (fmtPR (fun r => fmtArgv (some r)) (argvSplitP (b ++ [NUL]) m))
    | ["msh", t] => do
        let t ← parseBytes? t
        pure (fmtDispatch (mshellExecute (t ++ [NUL]) []))
    | ["msh", t, n] => do
        let t ← parseBytes? t
        let n ← parseNames n
        pure (fmtDispatch (mshellExecute (t ++ [NUL]) n))
    | "msht" :: t :: tbls => do
        let t ← parseBytes? t
        let tbls ← tbls.mapM parseNames
        pure (fmtDispatch (mshellTablesExecute (t ++ [NUL]) tbls))
    | ["rsh", t, d] => do
        let t ← parseBytes? t
        let d ← d.toNat?
        pure (fmtDispatch (rshellExecute (t ++ [NUL]) [] d))
    | ["rsh", t, d, n] => do
        let t ← parseBytes? t
        let d ← d.toNat?
        let n ← parseNames n
        pure (fmtDispatch (rshellExecute (t ++ [NUL]) n d))
    | "rsht" :: t :: tbls => do
        let t ← parseBytes? t
        let tbls ← tbls.mapM parseDropTable
        pure (fmtDispatch (rshellTablesExecute (t ++ [NUL]) tbls))
    | ["pnext", t] => do
        let t ← parseBytes? t
        pure (fmtPR (fun r => match r with
              | none => "null"
              | some (o, l) => toString o ++ " " ++ toString l) (pathNextP (t ++ [NUL]) 0))
    | ["piter", t] => do
        let t ← parseBytes? t
        pure (fmtPR (fun r => match r with
              | none => "null"
              | some q => toString q) (pathIterateP (t ++ [NUL]) 0))
    | ["pcmp", a, b] => do
        let a ← parseBytes? a
        let b ← parseBytes? b
        -- round 3b: the index-level model (two blocks of exactly strlen+1 bytes)
        pure (fmtPR (fun (c : Int) => toString c) (compareNodeP (a ++ [NUL]) (b ++ [NUL]) (a.length + 2) 0 0))
    | ["prem", a, b] => do
        let a ← parseBytes? a
        let b ← parseBytes? b
        -- round 3b: the index-level model; the result is the offset of the returned pointer
        pure (fmtPR (fun (r : Nat) => toString r) (pathRemovePrefixP (a ++ [NUL]) (b ++ [NUL])))
    | ["creader", b] => do
        let b ← parseBytes? b
        pure (fmtCreader b)
    | _ => stepLine2 line
  r.getD "bad-op"

/-! ## round 3: cases on fixed addresses, long inputs, pre-main calls, constants -/

/-- the words of a `re` case cut at the `/` words -/
def splitCalls : List String → List String → List (List String)
  | [], cur => [cur.reverse]
  | w :: ws, cur => if w = "/" then cur.reverse :: splitCalls ws [] else splitCalls ws (w :: cur)

def fnv32 (s : String) : Nat :=
  s.foldl (fun h c => ((h ^^^ c.toNat) * 16777619) % 4294967296) 2166136261

def digest (s : String) : String := toString s.length ++ " " ++ hexOfNat 8 (fnv32 s)

def fmtOff (total : Nat) : Option (Option Cur) → String
  | none => "fault"
  | some none => "null"
  | some (some c) => toString (total - c.length)

def fmtCreaderL (mem : Str) : String :=
  match creaderAll mem (mem.length + 2) 0 with
  | none => "fault"
  | some (l, ended) =>
    String.join (l.map fun (t, len, c) => toString t ++ ":" ++ toString len ++ ":" ++ toString c ++ " ")
      ++ (if ended then "end" else "LOOP")

/-- long inputs run on the list-level models (linear; proved equal to the pointer-level ones
by the `…P_refines` theorems), `@` stands for the expanded buffer -/
def stepLong (big : Str) : List String → Option String
  | ["splitc", "@", d] => do
      let d ← parseBytes? d
      pure (fmtToksO (splitChar big (d.headD NUL)))
  | ["splitd", "@", d] => do
      let d ← parseBytes? d
      pure (fmtToksO (splitDelims big d))
  | ["cmdargs", "@"] => pure (fmtToksO (splitCmdargs big))
  | ["trim", "@"] => pure (bytesHex (trim big))
  | ["memmem", "@", s] => do
      let s ← parseBytes? s
      pure (match memmemF big s with | some o => toString o | none => "none")
  | ["replace", "@", a, b] => do
      let a ← parseBytes? a
      let b ← parseBytes? b
      pure (match replaceF big a b with | some r => bytesHex r | none => "fuel")
  | ["rsub", m, "@", a, b] => do
      let m ← m.toNat?
      let a ← parseBytes? a
      let b ← parseBytes? b
      pure (match replaceSubstringsF m big a b with
            | none => "fuel"
            | some w => if w.length > m then "fault" else bytesHex (w ++ List.replicate (m - w.length) 0xa5#8))
  | ["argv", "@", m] => do
      let m ← m.toNat?
      pure (fmtArgv (argvSplit (big ++ [NUL]) m))
  | ["argvn", "@", m] => do
      let m ← m.toNat?
      pure (fmtArgv (argvSplitN big m))
  | ["creader", "@"] => pure (fmtCreaderL big)
  | ["msh", "@", n] => do
      let n ← parseNames n
      pure (fmtDispatch (mshellExecute (big ++ [NUL]) n))
  | ["pnext", "@"] =>
      pure (match pathNext (big ++ [NUL]) with
            | none => "fault"
            | some none => "null"
            | some (some (o, l)) => toString o ++ " " ++ toString l)
  | ["piter", "@"] => pure (fmtOff (big.length + 1) (pathIterate (big ++ [NUL])))
  | "join" :: d :: toks => do
      let d ← parseBytes? d
      if toks.all (· == "@") then pure (bytesHex (join (toks.map fun _ => big) (d.headD NUL))) else none
  | "joinf" :: d :: pre :: post :: toks => do
      let d ← parseBytes? d
      let pre ← parseBytes? pre
      let post ← parseBytes? post
      if toks.all (· == "@") then pure (bytesHex (joinFmt (toks.map fun _ => big) d pre post)) else none
  | _ => none

def stepLine (_ : Unit) (line : String) : Unit × String :=
  let r : String :=
    match words line with
    | "re" :: ws =>
        " / ".intercalate ((splitCalls ws []).map fun c =>
          match c.filter (· ≠ "@t") with
          | [] => "bad-op"
          | "re" :: _ => "bad-op"
          | "long" :: _ => "bad-op"
          | "premain" :: _ => "bad-op"
          | cw => stepCore (" ".intercalate cw))
    | "long" :: n :: u :: t :: cw =>
        (do
          let n ← n.toNat?
          let u ← parseBytes? u
          let t ← parseBytes? t
          let big := (List.replicate n u).flatten ++ t
          let r ← stepLong big cw
          pure (digest r)).getD "bad-op"
    | "premain" :: _ :: cw => stepCore (" ".intercalate cw)
    | ["consts"] => constsLine
    | ["rsubip", blk, n, a, b] =>
        (do
          let blk ← parseBytes? blk
          let n ← n.toNat?
          let a ← parseBytes? a
          let b ← parseBytes? b
          pure (fmtPR bytesHex (replaceSubstringsInPlace blk n a b))).getD "bad-op"
    | _ => stepCore line
  ((), r)

def main : IO Unit := run () stepLine
