/-
  C19 — lemmas for the pointer-level models of Ptr.lean: each never faults and
  computes what the list-level model of Model.lean computes.
-/
import IgrisModel.C19.Ptr
import IgrisModel.C19.Lemmas
namespace Igris.C19
open Igris.Proto

theorem rd_lt (m : Str) (i : Nat) (h : i < m.length) : rd m i = .ok m[i] := by
  simp [rd, List.getElem?_eq_getElem h]

theorem rd_ge (m : Str) (i : Nat) (h : m.length ≤ i) : rd m i = .oob i := by
  unfold rd
  rw [List.getElem?_eq_none h]

theorem drop_cons_of_lt (m : Str) (p : Nat) (h : p < m.length) : m.drop p = m[p] :: m.drop (p + 1) := by
  exact List.drop_eq_getElem_cons h

/-- the guarded scan on a memory of exactly the extent: stops at the index of
the first byte that fails `P` (or at the end), having read only indices
`< length` -/
theorem scanG_spec (m : Str) (P : Byte → Bool) : ∀ (f p : Nat), p ≤ m.length → m.length - p < f →
    ∃ q, scanG m m.length P f p = .ok q ∧ p ≤ q ∧ q ≤ m.length ∧ m.drop q = (m.drop p).dropWhile P := by
  intro f
  induction f with
  | zero => intro p _ h; omega
  | succ f ih =>
    intro p hp hf
    unfold scanG
    by_cases hpe : p = m.length
    · subst hpe
      refine ⟨m.length, by simp, by omega, by omega, by simp⟩
    · have hlt : p < m.length := by omega
      have hne : (p != m.length) = true := by simp [hpe]
      rw [if_pos hne, rd_lt m p hlt, drop_cons_of_lt m p hlt]
      simp only [PR.ok_bind]
      by_cases hP : P m[p] = true
      · rw [if_pos hP]
        obtain ⟨q, h1, h2, h3, h4⟩ := ih (p + 1) (by omega) (by omega)
        refine ⟨q, h1, by omega, h3, ?_⟩
        rw [h4, List.dropWhile_cons_of_pos hP]
      · rw [if_neg hP]
        refine ⟨p, rfl, by omega, hp, ?_⟩
        rw [List.dropWhile_cons_of_neg hP, drop_cons_of_lt m p hlt]

theorem rdRange_ok (m : Str) (p n : Nat) (h : p + n ≤ m.length) : rdRange m p n = .ok ((m.drop p).take n) := by
  unfold rdRange
  by_cases hn : n = 0
  · simp [hn]
  · simp [hn, h]

/-- `std::string(strt, ptr - strt)` for two indices of the same memory -/
theorem rdRange_between (m : Str) (s q : Nat) (hsq : s ≤ q) (hq : q ≤ m.length) :
    rdRange m s (q - s) = .ok (between (m.drop s) (m.drop q)) := by
  rw [rdRange_ok m s (q - s) (by omega)]
  simp only [between, List.length_drop]
  congr 2
  omega

theorem drop_isEmpty_iff (m : Str) (q : Nat) (hq : q ≤ m.length) : (m.drop q).isEmpty = (q == m.length) := by
  by_cases h : q = m.length
  · subst h; simp
  · have : q < m.length := by omega
    rw [drop_cons_of_lt m q this]
    simp [List.isEmpty, h]

/-! ## split(buffer, char) -/

theorem splitCharLoopP_eq (m : Str) (d : Byte) : ∀ (f p : Nat) (out v : List Str), p ≤ m.length →
    splitCharLoop d f (m.drop p) out = some v → splitCharLoopP m m.length d f p out = .ok v := by
  intro f
  induction f with
  | zero => intro p out v _ h; simp [splitCharLoop] at h
  | succ f ih =>
    intro p out v hp h
    obtain ⟨q1, h1, hpq1, hq1, hd1⟩ := scanG_spec m (· == d) (m.length + 1) p hp (by omega)
    obtain ⟨q2, h2, hq12, hq2, hd2⟩ := scanG_spec m (· != d) (m.length + 1) q1 hq1 (by omega)
    unfold splitCharLoopP
    rw [h1]
    simp only [PR.ok_bind]
    unfold splitCharLoop at h
    simp only [← hd1, drop_isEmpty_iff m q1 hq1] at h
    by_cases he : q1 = m.length
    · simp only [he, beq_self_eq_true, if_true] at h ⊢
      rw [Option.some.inj h]; rfl
    · have hne : (q1 == m.length) = false := by simp [he]
      rw [hne] at h
      simp only [Bool.false_eq_true, if_false] at h ⊢
      rw [if_neg (by simp [he])]
      rw [h2]
      simp only [PR.ok_bind]
      rw [rdRange_between m q1 q2 hq12 hq2]
      simp only [PR.ok_bind]
      rw [← hd2] at h
      exact ih q2 _ v hq2 h

/-! ## split(buffer, delims) -/

theorem splitDelimsLoopP_eq (m : Str) (ds : Str) : ∀ (f p : Nat) (out v : List Str), p ≤ m.length →
    splitDelimsLoop ds f (m.drop p) out = some v → splitDelimsLoopP m m.length ds f p out = .ok v := by
  intro f
  induction f with
  | zero => intro p out v _ h; simp [splitDelimsLoop] at h
  | succ f ih =>
    intro p out v hp h
    obtain ⟨q1, h1, hpq1, hq1, hd1⟩ := scanG_spec m (strchrHit ds) (m.length + 1) p hp (by omega)
    obtain ⟨q2, h2, hq12, hq2, hd2⟩ :=
      scanG_spec m (fun c => !strchrHit ds c) (m.length + 1) q1 hq1 (by omega)
    unfold splitDelimsLoopP
    rw [h1]
    simp only [PR.ok_bind]
    unfold splitDelimsLoop at h
    simp only [← hd1, drop_isEmpty_iff m q1 hq1] at h
    by_cases he : q1 = m.length
    · simp only [he, beq_self_eq_true, if_true] at h ⊢
      rw [Option.some.inj h]; rfl
    · have hne : (q1 == m.length) = false := by simp [he]
      rw [hne] at h
      simp only [Bool.false_eq_true, if_false] at h ⊢
      rw [if_neg (by simp [he])]
      rw [h2]
      simp only [PR.ok_bind]
      rw [rdRange_between m q1 q2 hq12 hq2]
      simp only [PR.ok_bind]
      simp only [← hd2, drop_isEmpty_iff m q2 hq2] at h
      by_cases he2 : q2 = m.length
      · simp only [he2, beq_self_eq_true, if_true] at h ⊢
        rw [Option.some.inj h]; rfl
      · have hne2 : (q2 == m.length) = false := by simp [he2]
        rw [hne2] at h
        simp only [Bool.false_eq_true, if_false] at h
        rw [if_neg (by simp [he2])]
        exact ih q2 _ v hq2 h

/-! ## split_cmdargs -/

theorem cmdargsLoopP_eq (m : Str) : ∀ (f p : Nat) (out v : List Str), p ≤ m.length →
    cmdargsLoop f (m.drop p) out = some v → cmdargsLoopP m m.length f p out = .ok v := by
  intro f
  induction f with
  | zero => intro p out v _ h; simp [cmdargsLoop] at h
  | succ f ih =>
    intro p out v hp h
    obtain ⟨q1, h1, hpq1, hq1, hd1⟩ := scanG_spec m (· == SP) (m.length + 1) p hp (by omega)
    unfold cmdargsLoopP
    rw [h1]
    simp only [PR.ok_bind]
    unfold cmdargsLoop at h
    rw [← hd1] at h
    by_cases he : q1 = m.length
    · have : m.drop q1 = [] := by simp [he]
      rw [this] at h
      simp only [he, beq_self_eq_true, if_true] at h ⊢
      rw [Option.some.inj h]; rfl
    · have hlt : q1 < m.length := by omega
      rw [drop_cons_of_lt m q1 hlt] at h
      simp only at h
      rw [if_neg (by simp [he]), rd_lt m q1 hlt]
      simp only [PR.ok_bind]
      by_cases hq : (m[q1] == DQ || m[q1] == SQ) = true
      · rw [if_pos hq] at h
        rw [if_pos hq]
        obtain ⟨q2, h2, hq12, hq2, hd2⟩ :=
          scanG_spec m (· != m[q1]) (m.length + 1) (q1 + 1) (by omega) (by omega)
        rw [h2]
        simp only [PR.ok_bind]
        rw [rdRange_between m (q1 + 1) q2 hq12 hq2]
        simp only [PR.ok_bind]
        rw [← hd2] at h
        by_cases he2 : q2 = m.length
        · have : m.drop q2 = [] := by simp [he2]
          rw [this] at h
          simp only [he2, beq_self_eq_true, if_true] at h ⊢
          rw [he2] at this
          rw [this, ← Option.some.inj h]; rfl
        · have hlt2 : q2 < m.length := by omega
          rw [drop_cons_of_lt m q2 hlt2] at h
          simp only at h
          rw [if_neg (by simp [he2]), drop_cons_of_lt m q2 hlt2]
          exact ih (q2 + 1) _ v (by omega) h
      · rw [if_neg hq] at h
        rw [if_neg hq]
        obtain ⟨q2, h2, hq12, hq2, hd2⟩ :=
          scanG_spec m (· != SP) (m.length + 1) q1 hq1 (by omega)
        rw [h2]
        simp only [PR.ok_bind]
        rw [rdRange_between m q1 q2 hq12 hq2]
        simp only [PR.ok_bind]
        rw [← drop_cons_of_lt m q1 hlt, ← hd2] at h
        exact ih q2 _ v hq2 h

/-! ## trim -/

theorem seg_succ (m : Str) (l r : Nat) (hlr : l ≤ r) (hr : r < m.length) :
    (m.drop l).take (r - l + 1) = (m.drop l).take (r - l) ++ [m[r]] := by
  rw [List.take_add_one]
  congr 1
  have : (m.drop l)[r - l]? = some m[r] := by
    rw [List.getElem?_drop]
    have : l + (r - l) = r := by omega
    rw [this, List.getElem?_eq_getElem hr]
  rw [this]; rfl

theorem rdI_nat (m : Str) (i : Nat) : rdI m (i : Int) = rd m i := by
  unfold rdI
  rw [if_neg (by omega)]
  simp

/-- the backward scan never leaves `[left, right]` and computes `trimBack` of
the segment read from `*right` down to `*left` -/
theorem scanBack_spec (m : Str) (l : Nat) : ∀ (f r : Nat), l ≤ r → r < m.length → r - l < f →
    ∃ r' : Nat, scanBack m (l : Int) isWsTrim f (r : Int) = .ok ((r' : Nat) : Int) ∧ l ≤ r' ∧ r' ≤ r ∧
      ((m.drop l).take (r' - l + 1)).reverse = trimBack (((m.drop l).take (r - l + 1)).reverse) := by
  intro f
  induction f with
  | zero => intro r _ _ h; omega
  | succ f ih =>
    intro r hlr hr hf
    unfold scanBack
    by_cases he : l = r
    · subst he
      refine ⟨l, by simp, by omega, by omega, ?_⟩
      have : (m.drop l).take 1 = [m[l]] := by rw [drop_cons_of_lt m l hr]; rfl
      simp only [Nat.sub_self, Nat.zero_add, this, List.reverse_singleton, trimBack]
    · have hne : ((l : Int) != (r : Int)) = true := by simp; omega
      rw [if_pos hne, rdI_nat, rd_lt m r hr]
      simp only [PR.ok_bind]
      have hseg := seg_succ m l r hlr hr
      have hne' : ((m.drop l).take (r - l)).reverse ≠ [] := by
        intro h
        have := congrArg List.length h
        simp at this
        omega
      obtain ⟨c2, rest, hcr⟩ := List.exists_cons_of_ne_nil hne'
      by_cases hP : isWsTrim m[r] = true
      · rw [if_pos hP]
        obtain ⟨r', h1, h2, h3, h4⟩ := ih (r - 1) (by omega) (by omega) (by omega)
        have hcast : ((r : Int) - 1) = ((r - 1 : Nat) : Int) := by omega
        rw [hcast]
        refine ⟨r', h1, h2, by omega, ?_⟩
        have htb : trimBack (m[r] :: c2 :: rest) = trimBack (c2 :: rest) := by simp [trimBack, hP]
        rw [h4, hseg, List.reverse_append, List.reverse_singleton, List.singleton_append, hcr, htb, ← hcr]
        have : r - 1 - l + 1 = r - l := by omega
        rw [this]
      · rw [if_neg hP]
        refine ⟨r, rfl, hlr, by omega, ?_⟩
        have htb : trimBack (m[r] :: c2 :: rest) = m[r] :: c2 :: rest := by simp [trimBack, hP]
        rw [hseg, List.reverse_append, List.reverse_singleton, List.singleton_append, hcr, htb]

theorem trimP_eq (view : Str) : trimP view = .ok (trim view) := by
  unfold trimP trim
  by_cases h0 : view.length = 0
  · simp [h0]
  · rw [if_neg h0, if_neg h0]
    obtain ⟨q, h1, _, hq, hd⟩ := scanG_spec view isWsTrim (view.length + 1) 0 (by omega) (by omega)
    simp only []
    rw [h1]
    simp only [PR.ok_bind]
    simp only [List.drop_zero] at hd
    rw [← hd, drop_isEmpty_iff view q hq]
    by_cases he : q = view.length
    · simp [he]
    · have hne : (q == view.length) = false := by simp [he]
      rw [hne]
      simp only [Bool.false_eq_true, if_false]
      obtain ⟨r', h2, h3, h4, h5⟩ := scanBack_spec view q (view.length + 1) (view.length - 1)
        (by omega) (by omega) (by omega)
      have hcast : ((view.length : Int) - 1) = ((view.length - 1 : Nat) : Int) := by omega
      rw [hcast, h2]
      simp only [PR.ok_bind]
      have hn : (((r' : Int) - (q : Int)) + 1).toNat = r' - q + 1 := by omega
      rw [hn, rdRange_ok view q _ (by omega)]
      congr 1
      have hall : (view.drop q).take (view.length - 1 - q + 1) = view.drop q := by
        apply List.take_of_length_le
        simp; omega
      rw [hall] at h5
      rw [← h5, List.reverse_reverse]

/-! ## igris_memmem -/

theorem memchrP_eq (m : Str) (b : Nat) (c : Byte) : ∀ (n i : Nat), b + i + n = m.length →
    memchrP m b c n i = .ok ((memchr c (m.drop (b + i)) i).map (· + b)) := by
  intro n
  induction n with
  | zero =>
    intro i h
    have : m.drop (b + i) = [] := by simp; omega
    simp [memchrP, this, memchr]
  | succ n ih =>
    intro i h
    have hlt : b + i < m.length := by omega
    unfold memchrP
    rw [rd_lt m _ hlt, drop_cons_of_lt m _ hlt]
    simp only [PR.ok_bind, memchr]
    by_cases hx : (m[b + i] == c) = true
    · simp [hx, Nat.add_comm]
    · rw [if_neg hx, if_neg hx, ih (i + 1) (by omega)]
      rfl

theorem memmemLoop_shift (s c : Str) (off : Nat) (hs : s ≠ []) :
    memmemLoop s c off = (memmemLoop s c 0).map (· + off) := by
  rw [memmemLoop_eq s c off hs, memmemLoop_eq s c 0 hs, Option.map_map]
  congr 1

theorem memmemLoopP_eq (lm sm : Str) (last : Nat) (hs : sm ≠ []) (hlast : last + sm.length = lm.length) :
    ∀ (f cur : Nat), cur ≤ lm.length → lm.length - cur < f →
    memmemLoopP lm sm sm.length last f cur = .ok ((memmemLoop sm (lm.drop cur) 0).map (· + cur)) := by
  have hpos : 0 < sm.length := List.length_pos_iff.mpr hs
  intro f
  induction f with
  | zero => intro cur _ h; omega
  | succ f ih =>
    intro cur hc hf
    unfold memmemLoopP
    by_cases hcl : cur ≤ last
    · have hlt : cur < lm.length := by omega
      rw [if_pos hcl, rd_lt lm cur hlt, rd_lt sm 0 hpos, drop_cons_of_lt lm cur hlt]
      simp only [PR.ok_bind]
      unfold memmemLoop
      rw [← drop_cons_of_lt lm cur hlt]
      have hlen : ¬ (lm.drop cur).length < sm.length := by simp; omega
      rw [if_neg hlen]
      have hhead : sm.head? = some sm[0] := by
        cases sm with
        | nil => exact absurd rfl hs
        | cons a as => rfl
      rw [hhead]
      have hrec := ih (cur + 1) (by omega) (by omega)
      have hsh := memmemLoop_shift sm (lm.drop (cur + 1)) (0 + 1) hs
      by_cases hab : (lm[cur] == sm[0]) = true
      · have hab' : (some sm[0] == some lm[cur]) = true := by
          have : lm[cur] = sm[0] := by simpa using hab
          simp [this]
        rw [if_pos hab, hab']
        unfold memcmpEqP
        rw [rdRange_ok lm cur sm.length (by omega), rdRange_ok sm 0 sm.length (by omega)]
        simp only [PR.ok_bind, List.drop_zero, List.take_length, PR.pure_eq, Bool.true_and]
        by_cases hm : ((lm.drop cur).take sm.length == sm) = true
        · simp [hm]
        · rw [if_neg hm, if_neg hm, hrec, hsh, Option.map_map]
          congr 2; funext n; simp; omega
      · have hab' : (some sm[0] == some lm[cur]) = false := by
          have : ¬ lm[cur] = sm[0] := by simpa using hab
          simp; exact fun h => this h.symm
        rw [if_neg hab, hab']
        simp only [Bool.false_and, Bool.false_eq_true, if_false]
        rw [hrec, hsh, Option.map_map]
        congr 2; funext n; simp; omega
    · rw [if_neg hcl]
      have : memmemLoop sm (lm.drop cur) 0 = none := by
        cases hd : lm.drop cur with
        | nil => rfl
        | cons a rest =>
          unfold memmemLoop
          have : (a :: rest).length < sm.length := by rw [← hd]; simp; omega
          rw [if_pos this]
      rw [this]; rfl

/-- `igris_memmem(lm + l, l_len, sm, s_len)` where the `l_len` bytes are the
rest of the block and `s_len` is the size of `sm` -/
theorem memmemP_eq (lm sm : Str) (l : Nat) (hl : l ≤ lm.length) :
    memmemP lm l (lm.length - l) sm sm.length = .ok ((memmem (lm.drop l) sm).map (· + l)) := by
  unfold memmemP memmem
  simp only [List.length_drop]
  by_cases h1 : lm.length - l = 0 ∨ sm.length = 0
  · rw [if_pos h1, if_pos h1]; rfl
  · rw [if_neg h1, if_neg h1]
    by_cases h2 : lm.length - l < sm.length
    · rw [if_pos h2, if_pos h2]; rfl
    · rw [if_neg h2, if_neg h2]
      have hs : sm ≠ [] := by intro h; subst h; simp at h1
      have hpos : 0 < sm.length := List.length_pos_iff.mpr hs
      by_cases h3 : sm.length = 1
      · rw [if_pos h3, if_pos h3, rd_lt sm 0 hpos]
        simp only [PR.ok_bind]
        rw [memchrP_eq lm l _ (lm.length - l) 0 (by omega)]
        have : sm.headD NUL = sm[0] := by
          cases sm with
          | nil => exact absurd rfl hs
          | cons a as => rfl
        rw [this]; rfl
      · rw [if_neg h3, if_neg h3]
        rw [memmemLoopP_eq lm sm (l + (lm.length - l) - sm.length) hs (by omega) _ l hl (by omega)]

/-! ## igris::replace -/

theorem rdRange_rest (m : Str) (p : Nat) (hp : p ≤ m.length) : rdRange m p (m.length - p) = .ok (m.drop p) := by
  rw [rdRange_ok m p _ (by omega)]
  congr 1
  apply List.take_of_length_le
  simp

theorem replaceLoopP_eq (im sm rep : Str) (hs : sm ≠ []) : ∀ (f strit : Nat) (out v : Str), strit ≤ im.length →
    replaceLoop sm rep f (im.drop strit) out = some v → replaceLoopP im sm rep im.length f strit out = .ok v := by
  intro f
  induction f with
  | zero => intro strit out v _ h; simp [replaceLoop] at h
  | succ f ih =>
    intro strit out v hp h
    unfold replaceLoopP
    rw [memmemP_eq im sm strit hp]
    unfold replaceLoop at h
    cases hm : memmem (im.drop strit) sm with
    | none =>
      rw [hm] at h
      simp only [Option.map_none, PR.ok_bind]
      rw [rdRange_rest im strit hp]
      simp only [PR.ok_bind, PR.pure_eq]
      rw [Option.some.inj h]
    | some step =>
      rw [hm] at h
      have hb := memmem_bound _ _ _ hs hm
      simp only [List.length_drop] at hb
      simp only [Option.map_some, PR.ok_bind]
      have h1 : step + strit - strit = step := by omega
      rw [h1, rdRange_ok im strit step (by omega)]
      simp only [PR.ok_bind]
      simp only [List.drop_drop] at h
      have h2 : strit + step + sm.length = strit + (step + sm.length) := by omega
      rw [h2]
      exact ih _ _ v (by omega) h

theorem replaceP_eq (input sub rep : Str) : replaceP input sub rep = .ok (subst sub rep input) := by
  unfold replaceP
  by_cases h : sub.length = 0
  · have : sub = [] := List.eq_nil_of_length_eq_zero h
    subst this; simp [subst]
  · rw [if_neg h]
    have hs : sub ≠ [] := by intro e; subst e; simp at h
    apply replaceLoopP_eq input sub rep hs _ 0 [] _ (by omega)
    rw [List.drop_zero, replaceLoop_eq sub rep hs _ _ _ (by omega)]
    simp [subst, hs]

/-! ## replace_substrings -/

/-- the writer never passes `buffer[maxsize - 2]`: one byte is kept for the terminator -/
def RsInv (maxsize : Nat) (st : Str × Nat) : Prop := st.1.length + st.2 + 1 ≤ maxsize

theorem rsPutP_eq (maxsize : Nat) (st : Str × Nat) (srcm : Str) (src len : Nat)
    (hsrc : src + len ≤ srcm.length) (hinv : RsInv maxsize st) :
    rsPutP maxsize st srcm src len = .ok (rsPut st (srcm.drop src) len) ∧
      RsInv maxsize (rsPut st (srcm.drop src) len) := by
  unfold rsPutP rsPut RsInv at *
  have hmin : min len st.2 ≤ len := Nat.min_le_left _ _
  have hmin2 : min len st.2 ≤ st.2 := Nat.min_le_right _ _
  simp only []
  rw [rdRange_ok srcm src _ (by omega)]
  simp only [PR.ok_bind]
  constructor
  · rw [if_neg (by omega)]; rfl
  · simp only [List.length_append, List.length_take, List.length_drop]
    omega

theorem rsLoopP_eq (maxsize : Nat) (im sm rm : Str) (hs : sm ≠ []) :
    ∀ (f strit : Nat) (st v : Str × Nat), strit ≤ im.length → RsInv maxsize st →
    rsLoop sm rm f (im.drop strit) st = some v →
    rsLoopP maxsize im sm rm im.length f strit st = .ok v ∧ RsInv maxsize v := by
  intro f
  induction f with
  | zero => intro strit st v _ _ h; simp [rsLoop] at h
  | succ f ih =>
    intro strit st v hp hinv h
    unfold rsLoopP
    rw [memmemP_eq im sm strit hp]
    unfold rsLoop at h
    cases hm : memmem (im.drop strit) sm with
    | none =>
      rw [hm] at h
      simp only [Option.map_none, PR.ok_bind]
      have := rsPutP_eq maxsize st im strit (im.length - strit) (by omega) hinv
      simp only [List.length_drop] at h
      rw [← Option.some.inj h]
      exact this
    | some step =>
      rw [hm] at h
      have hb := memmem_bound _ _ _ hs hm
      simp only [List.length_drop] at hb
      simp only [Option.map_some, PR.ok_bind]
      have h1 : step + strit - strit = step := by omega
      rw [h1]
      obtain ⟨e1, i1⟩ := rsPutP_eq maxsize st im strit step (by omega) hinv
      rw [e1]
      simp only [PR.ok_bind]
      obtain ⟨e2, i2⟩ := rsPutP_eq maxsize _ rm 0 rm.length (by omega) i1
      rw [e2]
      simp only [PR.ok_bind, List.drop_zero]
      simp only [List.drop_drop] at h
      have h2 : strit + step + sm.length = strit + (step + sm.length) := by omega
      rw [h2]
      rw [List.drop_zero] at i2
      exact ih _ _ v (by omega) i2 h

theorem replaceSubstringsP_refines (maxsize : Nat) (input sub rep : Str) (v : Str)
    (h : replaceSubstrings maxsize input sub rep = some v) :
    replaceSubstringsP maxsize input sub rep = .ok v := by
  unfold replaceSubstringsP
  unfold replaceSubstrings at h
  by_cases h0 : maxsize = 0
  · rw [if_pos h0] at h; rw [if_pos h0, ← Option.some.inj h]; rfl
  · rw [if_neg h0] at h; rw [if_neg h0]
    simp only [] at h ⊢
    by_cases hsl : sub.length = 0
    · rw [if_pos hsl] at h; rw [if_pos hsl]
      have hmin : min (maxsize - 1) input.length ≤ input.length := Nat.min_le_right _ _
      have hmin2 : min (maxsize - 1) input.length ≤ maxsize - 1 := Nat.min_le_left _ _
      rw [rdRange_ok input 0 _ (by omega)]
      simp only [PR.ok_bind, List.drop_zero]
      rw [if_pos (by omega), ← Option.some.inj h]; rfl
    · rw [if_neg hsl] at h; rw [if_neg hsl]
      have hs : sub ≠ [] := by intro e; subst e; simp at hsl
      cases hl : rsLoop sub rep (input.length + 1) input ([], maxsize - 1) with
      | none => rw [hl] at h; simp at h
      | some st =>
        rw [hl] at h
        simp only at h
        have hinv0 : RsInv maxsize (([] : Str), maxsize - 1) := by unfold RsInv; simp; omega
        obtain ⟨e, i⟩ := rsLoopP_eq maxsize input sub rep hs (input.length + 1) 0 ([], maxsize - 1) st
          (by omega) hinv0 (by rw [List.drop_zero]; exact hl)
        rw [e]
        simp only [PR.ok_bind]
        unfold RsInv at i
        rw [if_pos (by omega), ← Option.some.inj h]; rfl

/-! ## join -/

theorem rdV_lt (vec : List Str) (i : Nat) (h : i < vec.length) : rdV vec i = .ok vec[i] := by
  simp [rdV, List.getElem?_eq_getElem h]

theorem dropV_cons_of_lt (vec : List Str) (p : Nat) (h : p < vec.length) :
    vec.drop p = vec[p] :: vec.drop (p + 1) := List.drop_eq_getElem_cons h

theorem joinLoop_step (delim t u : Str) (rest : List Str) (ret : Str) :
    joinLoop delim (t :: u :: rest) ret = joinLoop delim (u :: rest) (ret ++ t ++ delim) := by
  simp [joinLoop]

theorem joinLoopP_eq (vec : List Str) (delim : Str) : ∀ (f iter : Nat) (ret : Str) (h : iter < vec.length),
    vec.length - iter ≤ f →
    ∃ ret', joinLoopP vec delim (vec.length - 1) f iter ret = .ok (vec.length - 1, ret') ∧
      ret' ++ vec[vec.length - 1]'(by omega) = joinLoop delim (vec.drop iter) ret := by
  intro f
  induction f with
  | zero => intro iter ret h hf; omega
  | succ f ih =>
    intro iter ret h hf
    unfold joinLoopP
    by_cases he : iter = vec.length - 1
    · have hne : (iter != vec.length - 1) = false := by simp [he]
      rw [hne]
      refine ⟨ret, by simp [he], ?_⟩
      rw [dropV_cons_of_lt vec iter h]
      have : vec.drop (iter + 1) = [] := by simp; omega
      rw [this]
      simp [joinLoop, he]
    · have hne : (iter != vec.length - 1) = true := by simp [he]
      rw [hne, if_pos rfl, rdV_lt vec iter h]
      simp only [PR.ok_bind]
      have h1 : iter + 1 < vec.length := by omega
      obtain ⟨ret', e, hr⟩ := ih (iter + 1) (ret ++ vec[iter] ++ delim) h1 (by omega)
      refine ⟨ret', e, ?_⟩
      rw [hr, dropV_cons_of_lt vec iter h, dropV_cons_of_lt vec (iter + 1) h1, joinLoop_step]

theorem joinP_eq (vec : List Str) (delim : Byte) : joinP vec delim = .ok (join vec delim) := by
  unfold joinP join
  by_cases h0 : vec.length = 0
  · simp [h0]
  · rw [if_neg h0, if_neg h0]
    obtain ⟨ret', e, hr⟩ := joinLoopP_eq vec [delim] (vec.length + 1) 0 [] (by omega) (by omega)
    simp only []
    rw [e]
    simp only [PR.ok_bind]
    rw [rdV_lt vec _ (by omega)]
    simp only [PR.ok_bind, PR.pure_eq]
    rw [hr, List.drop_zero]

theorem joinFmtLoopP_eq (vec : List Str) (delim : Str) (h32 : vec.length ≤ 2 ^ 32) :
    ∀ (f i : Nat) (ret : Str) (h : i < vec.length), vec.length - i ≤ f →
    ∃ ret', joinFmtLoopP vec delim (vec.length - 1) f i i ret = .ok (vec.length - 1, ret') ∧
      ret' ++ vec[vec.length - 1]'(by omega) = joinLoop delim (vec.drop i) ret := by
  intro f
  induction f with
  | zero => intro i ret h hf; omega
  | succ f ih =>
    intro i ret h hf
    unfold joinFmtLoopP
    by_cases he : i = vec.length - 1
    · rw [if_neg (by omega)]
      refine ⟨ret, by simp [he], ?_⟩
      rw [dropV_cons_of_lt vec i h]
      have : vec.drop (i + 1) = [] := by simp; omega
      rw [this]
      simp [joinLoop, he]
    · rw [if_pos (by omega), rdV_lt vec i h]
      simp only [PR.ok_bind]
      have h1 : i + 1 < vec.length := by omega
      have hmod : (i + 1) % 2 ^ 32 = i + 1 := Nat.mod_eq_of_lt (by omega)
      rw [hmod]
      obtain ⟨ret', e, hr⟩ := ih (i + 1) (ret ++ vec[i] ++ delim) h1 (by omega)
      refine ⟨ret', e, ?_⟩
      rw [hr, dropV_cons_of_lt vec i h, dropV_cons_of_lt vec (i + 1) h1, joinLoop_step]

theorem joinFmtP_eq' (vec : List Str) (delim pre post : Str) (h32 : vec.length ≤ 2 ^ 32) :
    joinFmtP vec delim pre post = .ok (joinFmt vec delim pre post) := by
  unfold joinFmtP joinFmt
  by_cases h0 : vec.length = 0
  · simp [h0]
  · simp only []
    rw [if_neg h0, if_neg h0]
    have hsd : sizeDec vec.length = vec.length - 1 := by simp [sizeDec, h0]
    obtain ⟨ret', e, hr⟩ := joinFmtLoopP_eq vec delim h32 (vec.length + 1) 0 pre (by omega) (by omega)
    rw [hsd, e]
    simp only [PR.ok_bind]
    rw [rdV_lt vec _ (by omega)]
    simp only [PR.ok_bind, PR.pure_eq]
    rw [hr, List.drop_zero]

/-! ## argvc_internal_split_n -/

theorem set_take_succ (m : Str) (q : Nat) (c : Byte) (h : q < m.length) :
    (m.set q c).take (q + 1) = m.take q ++ [c] := by
  rw [List.take_add_one]
  simp [List.take_set, h]
  rw [List.set_eq_of_length_le (by simp; omega)]

theorem take_drop_take (m : Str) (a b : Nat) (h : a ≤ b) : m.take a ++ (m.drop a).take (b - a) = m.take b := by
  have : b = a + (b - a) := by omega
  rw [this, List.take_add]
  congr 2
  omega

theorem argvSplitNLoopP_eq (argcmax : Nat) : ∀ (f : Nat) (m : Str) (data argc : Nat) (argv : List Nat) (r : ArgvRes),
    data ≤ m.length → argvSplitNGo argcmax f (m.drop data) argc = some r →
    argvSplitNLoopP argcmax m.length f m data argc argv
      = .ok ⟨r.argc, argv ++ r.argv.map (· + data), m.take data ++ r.mem⟩ := by
  intro f
  induction f with
  | zero => intro m data argc argv r _ h; simp [argvSplitNGo] at h
  | succ f ih =>
    intro m data argc argv r hd h
    obtain ⟨q1, h1, hdq1, hq1, hd1⟩ := scanG_spec m (strchrHit wsArgv) (m.length + 1) data hd (by omega)
    unfold argvSplitNLoopP
    rw [h1]
    simp only [PR.ok_bind]
    unfold argvSplitNGo at h
    simp only [] at h
    rw [← hd1] at h
    by_cases he : q1 = m.length
    · have hnil : m.drop q1 = [] := by simp [he]
      rw [hnil] at h
      simp only at h
      rw [if_pos (by simp [he]), ← Option.some.inj h]
      simp
    · have hlt : q1 < m.length := by omega
      rw [drop_cons_of_lt m q1 hlt] at h
      simp only at h
      rw [← drop_cons_of_lt m q1 hlt] at h
      rw [if_neg (by simp [he]), rd_lt m q1 hlt]
      simp only [PR.ok_bind]
      by_cases hc : (m[q1] == NUL || decide (argc ≥ argcmax)) = true
      · rw [if_pos hc] at h
        rw [if_pos hc, ← Option.some.inj h]
        simp
      · rw [if_neg hc] at h
        rw [if_neg hc]
        have hac : ¬ argc ≥ argcmax := by
          intro hge; apply hc; simp [hge]
        rw [if_neg hac]
        obtain ⟨q2, h2, hq12, hq2, hd2⟩ :=
          scanG_spec m (fun c => !strchrHit wsArgv c) (m.length + 1) q1 hq1 (by omega)
        rw [h2]
        simp only [PR.ok_bind]
        rw [← hd2] at h
        simp only [List.length_drop] at h
        have ho1 : m.length - data - (m.length - q1) = q1 - data := by omega
        rw [ho1] at h
        by_cases he2 : q2 = m.length
        · have hnil : m.drop q2 = [] := by simp [he2]
          rw [hnil] at h
          simp only at h
          rw [if_neg (by simp [he2]), ← Option.some.inj h]
          simp; omega
        · have hlt2 : q2 < m.length := by omega
          rw [drop_cons_of_lt m q2 hlt2] at h
          simp only at h
          rw [if_pos (by simp [he2]), rd_lt m q2 hlt2]
          simp only [PR.ok_bind]
          by_cases hw : strchrHit wsArgv m[q2] = true
          · rw [if_pos hw] at h
            rw [if_pos hw]
            have hk : m.length - data - (m.length - q2) = q2 - data := by omega
            rw [hk] at h
            cases hr : argvSplitNGo argcmax f (m.drop (q2 + 1)) (argc + 1) with
            | none => rw [hr] at h; simp at h
            | some r' =>
              rw [hr] at h
              simp only at h
              have hwr : wr m q2 NUL = .ok (m.set q2 NUL) := by unfold wr; rw [if_pos hlt2]
              have hlen : (m.set q2 NUL).length = m.length := List.length_set
              have hdrop : (m.set q2 NUL).drop (q2 + 1) = m.drop (q2 + 1) := List.drop_set_of_lt (by omega)
              have hi := ih (m.set q2 NUL) (q2 + 1) (argc + 1) (argv ++ [q1]) r' (by rw [hlen]; omega)
                (by rw [hdrop]; exact hr)
              rw [hlen] at hi
              rw [hwr]
              simp only [PR.ok_bind]
              rw [hi, ← Option.some.inj h, set_take_succ m q2 NUL hlt2]
              simp only [List.map_cons, List.map_map, List.append_assoc, List.singleton_append,
                Nat.add_sub_cancel]
              rw [← List.append_assoc (m.take data), take_drop_take m data q2 (by omega)]
              have e1 : q1 - data + data = q1 := by omega
              rw [e1]
              congr 5
              funext x
              simp only [Function.comp]
              omega
          · rw [if_neg hw] at h
            rw [if_neg hw, ← Option.some.inj h]
            simp; omega
/-! ## creader_readline -/

theorem rewindCRP_eq (mem : Str) (token : Nat) : ∀ (f it : Nat), token ≤ it → it ≤ mem.length → it - token < f →
    ∃ it' : Nat, rewindCR mem token it = some it' ∧
      rewindCRP mem (token : Int) f (it : Int) = .ok ((it' : Nat) : Int) := by
  intro f
  induction f with
  | zero => intro it _ _ h; omega
  | succ f ih =>
    intro it ht hl hf
    unfold rewindCRP
    by_cases he : it = token
    · subst he
      refine ⟨it, ?_, by simp⟩
      cases it with
      | zero => simp [rewindCR]
      | succ k => simp [rewindCR]
    · have hne : ((it : Int) != (token : Int)) = true := by simp; omega
      rw [if_pos hne]
      cases it with
      | zero => omega
      | succ k =>
        have hk : k < mem.length := by omega
        have hcast : (((k + 1 : Nat) : Int) - 1) = ((k : Nat) : Int) := by omega
        rw [hcast, rdI_nat, rd_lt mem k hk]
        simp only [PR.ok_bind]
        unfold rewindCR
        rw [if_neg he, List.getElem?_eq_getElem hk]
        simp only
        by_cases hc : (mem[k] == CR) = true
        · rw [if_pos hc, if_pos hc]
          exact ih k (by omega) (by omega) (by omega)
        · rw [if_neg hc, if_neg hc]
          exact ⟨k + 1, rfl, rfl⟩

theorem creaderReadlineP_eq (mem : Str) (cursor : Nat) (h : cursor ≤ mem.length) :
    ∃ r, creaderReadline mem cursor = some r ∧ creaderReadlineP mem cursor = .ok r ∧ r.2.2 ≤ mem.length := by
  unfold creaderReadline creaderReadlineP
  simp only []
  rw [drop_isEmpty_iff mem cursor h]
  by_cases he : cursor = mem.length
  · simp [he]
  · have hne : (cursor == mem.length) = false := by simp [he]
    rw [hne]
    simp only [Bool.false_eq_true, if_false]
    obtain ⟨q, h1, hcq, hq, hd⟩ :=
      scanG_spec mem (fun c => c != NL && c != NUL) (mem.length + 1) cursor h (by omega)
    rw [h1, ← hd, drop_isEmpty_iff mem q hq]
    simp only [PR.ok_bind, List.length_drop]
    have hit : mem.length - (mem.length - q) = q := by omega
    rw [hit]
    by_cases he2 : q = mem.length
    · simp [he2]
    · have hne2 : (q == mem.length) = false := by simp [he2]
      rw [hne2]
      simp only [Bool.not_false, if_true]
      rw [if_pos (by simp [he2])]
      obtain ⟨it', e1, e2⟩ := rewindCRP_eq mem cursor (mem.length + 1) q hcq hq (by omega)
      rw [e1, e2]
      simp only [PR.ok_bind, PR.pure_eq]
      exact ⟨_, rfl, rfl, by simp; omega⟩

theorem creaderAllP_eq (mem : Str) : ∀ (f cursor : Nat), cursor ≤ mem.length →
    ∀ v, creaderAll mem f cursor = some v → creaderAllP mem f cursor = .ok v := by
  intro f
  induction f with
  | zero => intro cursor _ v h; simp [creaderAll] at h; simp [creaderAllP, ← h]
  | succ f ih =>
    intro cursor hc v h
    obtain ⟨⟨len, tok, cur'⟩, e1, e2, hb⟩ := creaderReadlineP_eq mem cursor hc
    unfold creaderAllP
    unfold creaderAll at h
    rw [e1] at h
    rw [e2]
    simp only [PR.ok_bind] at h ⊢
    by_cases hl : len < 0
    · rw [if_pos hl] at h; rw [if_pos hl, ← Option.some.inj h]; rfl
    · rw [if_neg hl] at h; rw [if_neg hl]
      cases hr : creaderAll mem f cur' with
      | none => rw [hr] at h; simp at h
      | some w =>
        rw [hr] at h
        obtain ⟨l, ended⟩ := w
        simp only at h
        rw [ih cur' hb (l, ended) hr, ← Option.some.inj h]
        rfl

/-! ## path_next / path_iterate -/

theorem isSingleDotP_eq (m : Str) (p : Nat) (b : Bool) (h : isSingleDot (m.drop p) = some b) :
    isSingleDotP m p = .ok b := by
  unfold isSingleDotP
  by_cases hp : p < m.length
  · rw [drop_cons_of_lt m p hp] at h
    rw [rd_lt m p hp]
    simp only [PR.ok_bind]
    unfold isSingleDot at h
    simp only at h
    by_cases hc : (m[p] != DOT) = true
    · rw [if_pos hc] at h; rw [if_pos hc, ← Option.some.inj h]; rfl
    · rw [if_neg hc] at h; rw [if_neg hc]
      by_cases hp1 : p + 1 < m.length
      · rw [drop_cons_of_lt m (p + 1) hp1] at h
        rw [rd_lt m (p + 1) hp1]
        simp only at h
        rw [← Option.some.inj h]; rfl
      · have : m.drop (p + 1) = [] := by simp; omega
        rw [this] at h; simp at h
  · have : m.drop p = [] := by simp; omega
    rw [this] at h; simp [isSingleDot] at h

theorem skipSlashDotsP_eq (m : Str) : ∀ (f p : Nat) (c : Cur), m.length - p < f →
    skipSlashDots (m.drop p) = some c →
    ∃ q, skipSlashDotsP m f p = .ok q ∧ p ≤ q ∧ q < m.length ∧ c = m.drop q := by
  intro f
  induction f with
  | zero => intro p c h; omega
  | succ f ih =>
    intro p c hf h
    by_cases hp : p < m.length
    · unfold skipSlashDotsP
      rw [rd_lt m p hp]
      simp only [PR.ok_bind]
      rw [drop_cons_of_lt m p hp] at h
      unfold skipSlashDots at h
      by_cases hs : (m[p] == SLASH) = true
      · rw [if_pos hs] at h; rw [if_pos hs]
        obtain ⟨q, h1, h2, h3, h4⟩ := ih (p + 1) c (by omega) h
        exact ⟨q, h1, by omega, h3, h4⟩
      · rw [if_neg hs] at h; rw [if_neg hs]
        rw [← drop_cons_of_lt m p hp] at h
        cases hd : isSingleDot (m.drop p) with
        | none => rw [hd] at h; simp at h
        | some b =>
          rw [hd] at h
          rw [isSingleDotP_eq m p b hd]
          simp only [PR.ok_bind]
          cases b with
          | true =>
            simp only at h
            simp only [if_true]
            obtain ⟨q, h1, h2, h3, h4⟩ := ih (p + 1) c (by omega) h
            exact ⟨q, h1, by omega, h3, h4⟩
          | false =>
            simp only at h
            simp only [Bool.false_eq_true, if_false]
            exact ⟨p, rfl, by omega, hp, (Option.some.inj h).symm⟩
    · have : m.drop p = [] := by simp; omega
      rw [this] at h; simp [skipSlashDots] at h

theorem scanCompP_eq (m : Str) : ∀ (f p : Nat) (c : Cur), m.length - p < f →
    scanComp (m.drop p) = some c →
    ∃ q, scanCompP m f p = .ok q ∧ p ≤ q ∧ q < m.length ∧ c = m.drop q := by
  intro f
  induction f with
  | zero => intro p c h; omega
  | succ f ih =>
    intro p c hf h
    by_cases hp : p < m.length
    · unfold scanCompP
      rw [rd_lt m p hp]
      simp only [PR.ok_bind]
      rw [drop_cons_of_lt m p hp] at h
      unfold scanComp at h
      by_cases hs : (m[p] != NUL && m[p] != SLASH) = true
      · rw [if_pos hs] at h; rw [if_pos hs]
        obtain ⟨q, h1, h2, h3, h4⟩ := ih (p + 1) c (by omega) h
        exact ⟨q, h1, by omega, h3, h4⟩
      · rw [if_neg hs] at h; rw [if_neg hs]
        rw [← drop_cons_of_lt m p hp] at h
        exact ⟨p, rfl, by omega, hp, (Option.some.inj h).symm⟩
    · have : m.drop p = [] := by simp; omega
      rw [this] at h; simp [scanComp] at h

theorem pathNextP_eq (m : Str) (path : Nat) (hp : path ≤ m.length) (r : Option (Nat × Nat))
    (h : pathNext (m.drop path) = some r) :
    pathNextP m path = .ok (r.map fun x => (path + x.1, x.2)) := by
  unfold pathNext at h
  unfold pathNextP
  cases h1 : skipSlashDots (m.drop path) with
  | none => rw [h1] at h; simp at h
  | some c =>
    rw [h1] at h
    obtain ⟨q, e1, hpq, hq, hc⟩ := skipSlashDotsP_eq m (m.length + 1) path c (by omega) h1
    subst hc
    rw [e1]
    simp only [PR.ok_bind, Option.bind_eq_bind, Option.bind_some] at h ⊢
    rw [rd_lt m q hq]
    simp only [PR.ok_bind]
    rw [drop_cons_of_lt m q hq] at h
    simp only [List.head?_cons, Option.bind_some] at h
    by_cases hn : (m[q] == NUL) = true
    · rw [if_pos hn] at h; rw [if_pos hn, ← Option.some.inj h]; rfl
    · rw [if_neg hn] at h; rw [if_neg hn]
      rw [← drop_cons_of_lt m q hq] at h
      cases h2 : scanComp (m.drop q) with
      | none => rw [h2] at h; simp at h
      | some c2 =>
        rw [h2] at h
        obtain ⟨q2, e2, hq12, hq2, hc2⟩ := scanCompP_eq m (m.length + 1) q c2 (by omega) h2
        subst hc2
        rw [e2]
        simp only [PR.ok_bind, Option.bind_some, List.length_drop] at h ⊢
        rw [← Option.some.inj h]
        simp only [Option.map_some, PR.pure_eq]
        congr 3 <;> omega

theorem pathIterateP_eq (m : Str) (path : Nat) (r : Option Cur)
    (h : pathIterate (m.drop path) = some r) :
    ∃ r', pathIterateP m path = .ok r' ∧ r = r'.map (fun q => m.drop q) := by
  unfold pathIterate at h
  unfold pathIterateP
  by_cases hp : path < m.length
  · rw [drop_cons_of_lt m path hp] at h
    rw [rd_lt m path hp]
    simp only [List.head?_cons, Option.bind_eq_bind, Option.bind_some, PR.ok_bind] at h ⊢
    by_cases hn : (m[path] == NUL) = true
    · rw [if_pos hn] at h; rw [if_pos hn]
      exact ⟨none, rfl, (Option.some.inj h).symm⟩
    · rw [if_neg hn] at h; rw [if_neg hn]
      rw [← drop_cons_of_lt m path hp] at h
      by_cases hs : (m[path] == SLASH) = true
      · rw [if_pos hs] at h; rw [if_pos hs]
        cases h1 : skipSlashDots (m.drop path) with
        | none => rw [h1] at h; simp at h
        | some c =>
          rw [h1] at h
          obtain ⟨q, e1, _, _, hc⟩ := skipSlashDotsP_eq m (m.length + 1) path c (by omega) h1
          rw [e1]
          simp only [PR.ok_bind, Option.bind_some] at h ⊢
          exact ⟨some q, rfl, by rw [← Option.some.inj h, hc]; rfl⟩
      · rw [if_neg hs] at h; rw [if_neg hs]
        cases h2 : scanComp (m.drop path) with
        | none => rw [h2] at h; simp at h
        | some c2 =>
          rw [h2] at h
          obtain ⟨q2, e2, _, hq2, hc2⟩ := scanCompP_eq m (m.length + 1) path c2 (by omega) h2
          subst hc2
          rw [e2]
          simp only [PR.ok_bind, Option.bind_some] at h ⊢
          cases h1 : skipSlashDots (m.drop q2) with
          | none => rw [h1] at h; simp at h
          | some c =>
            rw [h1] at h
            obtain ⟨q, e1, _, _, hc⟩ := skipSlashDotsP_eq m (m.length + 1) q2 c (by omega) h1
            rw [e1]
            simp only [PR.ok_bind, Option.bind_some] at h ⊢
            exact ⟨some q, rfl, by rw [← Option.some.inj h, hc]; rfl⟩
  · have : m.drop path = [] := by simp; omega
    rw [this] at h; simp at h



/-! ## argvc_internal_split -/

theorem skipWsZP_eq (m : Str) : ∀ (f p : Nat) (c : Cur), m.length - p < f →
    skipWsZ (m.drop p) = some c →
    ∃ q, skipWsZP m f p = .ok q ∧ p ≤ q ∧ q < m.length ∧ c = m.drop q := by
  intro f
  induction f with
  | zero => intro p c h; omega
  | succ f ih =>
    intro p c hf h
    by_cases hp : p < m.length
    · unfold skipWsZP
      rw [rd_lt m p hp]
      simp only [PR.ok_bind]
      rw [drop_cons_of_lt m p hp] at h
      unfold skipWsZ at h
      by_cases hs : (m[p] != NUL) = true
      · rw [if_pos hs] at h; rw [if_pos hs]
        by_cases hw : strchrHit wsArgv m[p] = true
        · rw [if_pos hw] at h; rw [if_pos hw]
          obtain ⟨q, h1, h2, h3, h4⟩ := ih (p + 1) c (by omega) h
          exact ⟨q, h1, by omega, h3, h4⟩
        · rw [if_neg hw] at h; rw [if_neg hw]
          rw [← drop_cons_of_lt m p hp] at h
          exact ⟨p, rfl, by omega, hp, (Option.some.inj h).symm⟩
      · rw [if_neg hs] at h; rw [if_neg hs]
        rw [← drop_cons_of_lt m p hp] at h
        exact ⟨p, rfl, by omega, hp, (Option.some.inj h).symm⟩
    · have : m.drop p = [] := by simp; omega
      rw [this] at h; simp [skipWsZ] at h

theorem scanTokZP_eq (m : Str) : ∀ (f p : Nat) (c : Cur), m.length - p < f →
    scanTokZ (m.drop p) = some c →
    ∃ q, scanTokZP m f p = .ok q ∧ p ≤ q ∧ q < m.length ∧ c = m.drop q := by
  intro f
  induction f with
  | zero => intro p c h; omega
  | succ f ih =>
    intro p c hf h
    by_cases hp : p < m.length
    · unfold scanTokZP
      rw [rd_lt m p hp]
      simp only [PR.ok_bind]
      rw [drop_cons_of_lt m p hp] at h
      unfold scanTokZ at h
      by_cases hs : (!strchrHit wsArgv m[p] && m[p] != NUL) = true
      · rw [if_pos hs] at h; rw [if_pos hs]
        obtain ⟨q, h1, h2, h3, h4⟩ := ih (p + 1) c (by omega) h
        exact ⟨q, h1, by omega, h3, h4⟩
      · rw [if_neg hs] at h; rw [if_neg hs]
        rw [← drop_cons_of_lt m p hp] at h
        exact ⟨p, rfl, by omega, hp, (Option.some.inj h).symm⟩
    · have : m.drop p = [] := by simp; omega
      rw [this] at h; simp [scanTokZ] at h

theorem argvSplitLoopP_eq (argcmax : Nat) : ∀ (f : Nat) (m : Str) (data argc : Nat) (argv : List Nat) (r : ArgvRes),
    data ≤ m.length → argvSplitGo argcmax f (m.drop data) argc = some r →
    argvSplitLoopP argcmax f m data argc argv
      = .ok ⟨r.argc, argv ++ r.argv.map (· + data), m.take data ++ r.mem⟩ := by
  intro f
  induction f with
  | zero => intro m data argc argv r _ h; simp [argvSplitGo] at h
  | succ f ih =>
    intro m data argc argv r hd h
    unfold argvSplitGo at h
    unfold argvSplitLoopP
    cases h1 : skipWsZ (m.drop data) with
    | none => rw [h1] at h; simp at h
    | some d1 =>
      rw [h1] at h
      obtain ⟨q1, e1, hdq1, hlt, hc1⟩ := skipWsZP_eq m (m.length + 1) data d1 (by omega) h1
      subst hc1
      rw [e1]
      simp only [PR.ok_bind, Option.bind_eq_bind, Option.bind_some] at h ⊢
      rw [rd_lt m q1 hlt]
      simp only [PR.ok_bind]
      have hhead : (m.drop q1).head? = some m[q1] := by rw [drop_cons_of_lt m q1 hlt]; rfl
      rw [hhead] at h
      simp only [Option.bind_some] at h
      by_cases hc : (m[q1] == NUL || decide (argc ≥ argcmax)) = true
      · rw [if_pos hc] at h
        rw [if_pos hc, ← Option.some.inj h]
        simp
      · rw [if_neg hc] at h
        rw [if_neg hc]
        have hac : ¬ argc ≥ argcmax := by
          intro hge; apply hc; simp [hge]
        rw [if_neg hac]
        cases h2 : scanTokZ (m.drop q1) with
        | none => rw [h2] at h; simp at h
        | some d2 =>
          rw [h2] at h
          obtain ⟨q2, e2, hq12, hlt2, hc2⟩ := scanTokZP_eq m (m.length + 1) q1 d2 (by omega) h2
          subst hc2
          rw [e2]
          simp only [PR.ok_bind, Option.bind_some] at h ⊢
          rw [rd_lt m q2 hlt2]
          simp only [PR.ok_bind]
          have hhead2 : (m.drop q2).head? = some m[q2] := by rw [drop_cons_of_lt m q2 hlt2]; rfl
          rw [hhead2] at h
          simp only [Option.bind_some, List.length_drop] at h
          have ho1 : m.length - data - (m.length - q1) = q1 - data := by omega
          rw [ho1] at h
          by_cases hn2 : (m[q2] == NUL) = true
          · rw [if_pos hn2] at h
            rw [if_pos hn2, ← Option.some.inj h]
            simp; omega
          · rw [if_neg hn2] at h
            rw [if_neg hn2]
            by_cases hw : strchrHit wsArgv m[q2] = true
            · rw [if_pos hw] at h
              rw [if_pos hw]
              have hk : m.length - data - (m.length - q2) = q2 - data := by omega
              rw [hk] at h
              have htail : (m.drop q2).tail = m.drop (q2 + 1) := by simp
              rw [htail] at h
              cases hr : argvSplitGo argcmax f (m.drop (q2 + 1)) (argc + 1) with
              | none => rw [hr] at h; simp at h
              | some r' =>
                rw [hr] at h
                simp only [Option.bind_some] at h
                have hwr : wr m q2 NUL = .ok (m.set q2 NUL) := by unfold wr; rw [if_pos hlt2]
                have hlen : (m.set q2 NUL).length = m.length := List.length_set
                have hdrop : (m.set q2 NUL).drop (q2 + 1) = m.drop (q2 + 1) := List.drop_set_of_lt (by omega)
                have hi := ih (m.set q2 NUL) (q2 + 1) (argc + 1) (argv ++ [q1]) r' (by rw [hlen]; omega)
                  (by rw [hdrop]; exact hr)
                rw [hwr]
                simp only [PR.ok_bind]
                rw [hi, ← Option.some.inj h, set_take_succ m q2 NUL hlt2]
                simp only [List.map_cons, List.map_map, List.append_assoc, List.singleton_append,
                  Nat.add_sub_cancel]
                rw [← List.append_assoc (m.take data), take_drop_take m data q2 (by omega)]
                have e1' : q1 - data + data = q1 := by omega
                rw [e1']
                congr 5
                funext x
                simp only [Function.comp]
                omega
            · rw [if_neg hw] at h
              rw [if_neg hw, ← Option.some.inj h]
              simp; omega


end Igris.C19
