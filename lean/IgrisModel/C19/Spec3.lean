/-
  C19 — reference definitions of extension round 4 (core Lean only):
  the node list of a path and the longest common prefix of two lists, for an
  independent statement of `path_remove_prefix`.
-/
import IgrisModel.C19.Spec
namespace Igris.C19
open Igris.Proto

/-- the nodes of a path as `path_iterate` counts them (comment in pathops.h:
"a slash counts as a node"): the first piece as it stands — empty for an
absolute path, possibly `"."` — then the real components of the rest.
`"/dev/./null"` gives `["", "dev", "null"]`, `"./a"` gives `[".", "a"]`. -/
def nodes (p : Str) : List Str :=
  match splitSlash p with
  | [] => []
  | first :: rest => if p.isEmpty then [] else first :: rest.filter isReal

/-- length of the longest common prefix of two lists of names -/
def lcpLen : List Str → List Str → Nat
  | a :: as, b :: bs => if a == b then lcpLen as bs + 1 else 0
  | _, _ => 0

end Igris.C19
