/-
  C19 (extension) — lemmas for the routines of Model2.lean.
-/
import IgrisModel.C19.Lemmas
import IgrisModel.C19.Spec2
namespace Igris.C19
open Igris.Proto

/-! ### path predicates -/

theorem pathIsAbs_eq (s junk : Str) (_hn : NUL ∉ s) :
    pathIsAbs (s ++ NUL :: junk) = some (s.head? == some SLASH) := by
  cases s with
  | nil => simp [pathIsAbs]; decide
  | cons c r => simp [pathIsAbs]

theorem pathIsSimple_eq (s junk : Str) (hn : NUL ∉ s) :
    pathIsSimple (s ++ NUL :: junk) = some (!s.contains SLASH) := by
  induction s with
  | nil => simp [pathIsSimple]
  | cons c r ih =>
    have hc : c ≠ NUL := fun e => hn (by simp [e])
    have hr : NUL ∉ r := fun h => hn (by simp [h])
    simp only [List.cons_append, pathIsSimple]
    by_cases hs : c = SLASH
    · subst hs; simp; decide
    · have hs' : ¬ SLASH = c := fun e => hs e.symm
      simp [hc, hs, hs', ih hr]

theorem pathIsDoubleDot_eq (s junk : Str) (hn : NUL ∉ s) :
    pathIsDoubleDot (s ++ NUL :: junk) = some (headComp s == [DOT, DOT]) := by
  have e1 : ¬ NUL = DOT := by decide
  have e2 : (DOT != SLASH) = true := by decide
  have e3 : (SLASH != SLASH) = false := by decide
  have e4 : ¬ SLASH = DOT := by decide
  match s, hn with
  | [], _ => simp [pathIsDoubleDot, headComp, e1]
  | c0 :: r0, hn =>
    by_cases h0 : c0 = DOT
    · subst h0
      match r0, hn with
      | [], _ => simp [pathIsDoubleDot, headComp, e1, e2, List.takeWhile_cons]
      | c1 :: r1, hn =>
        by_cases h1 : c1 = DOT
        · subst h1
          match r1, hn with
          | [], _ => simp [pathIsDoubleDot, headComp, e2, List.takeWhile_cons]
          | c2 :: r2, hn =>
            have h2 : c2 ≠ NUL := fun e => hn (by simp [e])
            by_cases h3 : c2 = SLASH
            · subst h3; simp [pathIsDoubleDot, headComp, e2, e3, List.takeWhile_cons]
            · have h3' : (c2 != SLASH) = true := by simp [h3]
              simp [pathIsDoubleDot, headComp, h2, h3, h3', e2, List.takeWhile_cons]
        · by_cases h1s : c1 = SLASH
          · subst h1s; simp [pathIsDoubleDot, headComp, e2, e3, e4, List.takeWhile_cons]
          · have h1' : (c1 != SLASH) = true := by simp [h1s]
            simp [pathIsDoubleDot, headComp, h1, h1', e2, List.takeWhile_cons]
    · by_cases h0s : c0 = SLASH
      · subst h0s; simp [pathIsDoubleDot, headComp, e3, e4, List.takeWhile_cons]
      · have h0' : (c0 != SLASH) = true := by simp [h0s]
        simp [pathIsDoubleDot, headComp, h0, h0', List.takeWhile_cons]

/-! ### strlen, path_last_node -/

theorem snoc_induction {P : Str → Prop} (h0 : P []) (hs : ∀ l c, P l → P (l ++ [c])) : ∀ s, P s := by
  intro s
  have : ∀ r : Str, P r.reverse := by
    intro r
    induction r with
    | nil => exact h0
    | cons c r ih => simpa using hs _ c ih
  simpa using this s.reverse

theorem takeWhile_length_le (p : Byte → Bool) (l : Str) : (l.takeWhile p).length ≤ l.length := by
  induction l with
  | nil => simp
  | cons c r ih =>
    simp only [List.takeWhile_cons]
    split <;> simp <;> omega

theorem strlenZ_eq (s junk : Str) (hn : NUL ∉ s) : strlenZ (s ++ NUL :: junk) = some s.length := by
  induction s with
  | nil => simp [strlenZ]
  | cons c r ih =>
    have hc : c ≠ NUL := fun e => hn (by simp [e])
    have hr : NUL ∉ r := fun h => hn (by simp [h])
    simp [strlenZ, hc, ih hr]

/-- offset just behind the last `sep` of `s` (0 when there is none) -/
def lastSepEnd (sep : Byte) (s : Str) : Nat := s.length - (lastSeg sep s).length

theorem lastSeg_snoc (sep : Byte) (l : Str) (c : Byte) :
    lastSeg sep (l ++ [c]) = if c != sep then lastSeg sep l ++ [c] else [] := by
  simp only [lastSeg, List.reverse_append, List.reverse_cons, List.reverse_nil, List.nil_append,
    List.cons_append, List.takeWhile_cons]
  split <;> simp

theorem lastSeg_length_le (sep : Byte) (s : Str) : (lastSeg sep s).length ≤ s.length := by
  simp only [lastSeg, List.length_reverse]
  have := takeWhile_length_le (fun x => x != sep) s.reverse
  simpa using this

theorem lastSepEnd_snoc (sep : Byte) (l : Str) (c : Byte) :
    lastSepEnd sep (l ++ [c]) = if c != sep then lastSepEnd sep l else l.length + 1 := by
  have hle := lastSeg_length_le sep l
  simp only [lastSepEnd, lastSeg_snoc]
  split <;> simp <;> omega

/-- the backward loop, started at offset `n ≥ 1` inside the text -/
theorem lastNodeBack_eq (sep : Byte) (s rest : Str) :
    ∀ n, 0 < n → n ≤ s.length →
      lastNodeBack sep (s ++ rest) n = some (lastSepEnd sep (s.take n) - 1) := by
  intro n
  induction n with
  | zero => intro h; omega
  | succ k ih =>
    intro _ hk
    have hlt : k < s.length := by omega
    have hget : (s ++ rest)[k]? = some s[k] := by
      rw [List.getElem?_append_left hlt]; simp [hlt]
    have htake : s.take (k + 1) = s.take k ++ [s[k]] := by
      rw [List.take_add_one]; simp [hlt]
    simp only [lastNodeBack, hget, htake, lastSepEnd_snoc]
    have hlen : (s.take k).length = k := by simp; omega
    by_cases hc : s[k] = sep
    · simp [hc, hlen]
    · by_cases hk0 : k = 0
      · subst hk0; simp [hc, lastSepEnd, lastSeg]
      · have := ih (by omega) (by omega)
        simp [hc, hk0, this]

theorem lastSepEnd_pos_get (sep : Byte) (s : Str) (h : 0 < lastSepEnd sep s) :
    s[lastSepEnd sep s - 1]? = some sep := by
  revert h
  refine snoc_induction (P := fun s => 0 < lastSepEnd sep s → s[lastSepEnd sep s - 1]? = some sep) ?_ ?_ s
  · intro h; simp [lastSepEnd, lastSeg] at h
  · intro l c ih h
    rw [lastSepEnd_snoc] at h ⊢
    by_cases hc : c = sep
    · subst hc; simp
    · simp only [bne_iff_ne, ne_eq, hc, not_false_eq_true, ↓reduceIte] at h ⊢
      have hle : lastSepEnd sep l ≤ l.length := by simp [lastSepEnd]
      rw [List.getElem?_append_left (by omega)]
      exact ih h

theorem lastSepEnd_zero_get (sep : Byte) (s : Str) (h : lastSepEnd sep s = 0) :
    ∀ c ∈ s, c ≠ sep := by
  revert h
  refine snoc_induction (P := fun s => lastSepEnd sep s = 0 → ∀ c ∈ s, c ≠ sep) ?_ ?_ s
  · simp
  · intro l c ih h
    rw [lastSepEnd_snoc] at h
    by_cases hc : c = sep
    · subst hc; simp at h
    · simp only [bne_iff_ne, ne_eq, hc, not_false_eq_true, ↓reduceIte] at h
      intro x hx
      rcases List.mem_append.mp hx with hx | hx
      · exact ih h x hx
      · simp at hx; subst hx; exact hc

theorem pathLastNodeSep_eq (sep : Byte) (s junk : Str) (hn : NUL ∉ s) :
    pathLastNodeSep sep (s ++ NUL :: junk) = some (s.length - (lastSeg sep s).length) := by
  cases hs : s with
  | nil => simp [pathLastNodeSep, lastSeg]
  | cons c r =>
    rw [← hs]
    have hc : c ≠ NUL := fun e => hn (by simp [hs, e])
    have hpos : 0 < s.length := by simp [hs]
    have hhead : (s ++ NUL :: junk).head? = some c := by simp [hs]
    have hback := lastNodeBack_eq sep s (NUL :: junk) s.length hpos (Nat.le_refl _)
    rw [List.take_length] at hback
    simp only [pathLastNodeSep, hhead, strlenZ_eq s junk hn, hback, Option.bind_eq_bind,
      Option.bind_some, beq_iff_eq, hc, ↓reduceIte]
    change ((s ++ NUL :: junk)[lastSepEnd sep s - 1]?.bind fun c =>
               some (if c = sep then lastSepEnd sep s - 1 + 1 else lastSepEnd sep s - 1))
          = some (lastSepEnd sep s)
    have hle : lastSepEnd sep s ≤ s.length := by simp [lastSepEnd]
    by_cases hz : lastSepEnd sep s = 0
    · have hall := lastSepEnd_zero_get sep s hz
      have h0 : (s ++ NUL :: junk)[0]? = some c := by rw [hs]; rfl
      have hcs : c ≠ sep := hall c (by simp [hs])
      rw [hz]
      simp [h0, hcs]
    · have hg := lastSepEnd_pos_get sep s (by omega)
      have : (s ++ NUL :: junk)[lastSepEnd sep s - 1]? = some sep := by
        rw [List.getElem?_append_left (by omega)]; exact hg
      simp [this]; omega

theorem lastSeg_char (sep : Byte) (s : Str) :
    ∃ pre, s = pre ++ lastSeg sep s ∧ sep ∉ lastSeg sep s ∧ (pre = [] ∨ pre.getLast? = some sep) := by
  refine snoc_induction (P := fun s => ∃ pre, s = pre ++ lastSeg sep s ∧ sep ∉ lastSeg sep s ∧
    (pre = [] ∨ pre.getLast? = some sep)) ?_ ?_ s
  · exact ⟨[], by simp [lastSeg]⟩
  · intro l c ih
    obtain ⟨pre, h1, h2, h3⟩ := ih
    rw [lastSeg_snoc]
    by_cases hc : c = sep
    · subst hc
      refine ⟨l ++ [c], by simp, by simp, Or.inr (by simp)⟩
    · simp only [bne_iff_ne, ne_eq, hc, not_false_eq_true, ↓reduceIte]
      refine ⟨pre, ?_, ?_, h3⟩
      · rw [← List.append_assoc, ← h1]
      · simp only [List.mem_append, List.mem_singleton, not_or]
        exact ⟨h2, fun e => hc e.symm⟩

theorem lastSeg_drop (sep : Byte) (s : Str) :
    s.drop (s.length - (lastSeg sep s).length) = lastSeg sep s := by
  obtain ⟨pre, h1, _, _⟩ := lastSeg_char sep s
  have hl : s.length = pre.length + (lastSeg sep s).length := by
    conv => lhs; rw [h1]
    simp
  conv => lhs; arg 2; rw [h1]
  rw [hl]; simp

theorem lastSeg_of_not_mem (sep : Byte) (s : Str) (h : sep ∉ s) : lastSeg sep s = s := by
  simp only [lastSeg]
  rw [takeWhile_all]
  · simp
  · intro x hx
    simp only [List.mem_reverse] at hx
    simp only [bne_iff_ne, ne_eq]
    intro e; exact h (e ▸ hx)

/-! ### path_next(path, NULL), argvc_length_of_first -/

theorem pathNextNoLen_of_pathNext (p : Cur) (r : Option (Nat × Nat)) (h : pathNext p = some r) :
    pathNextNoLen p = some (r.map (·.1)) := by
  unfold pathNext at h
  unfold pathNextNoLen
  cases hs : skipSlashDots p with
  | none => simp [hs] at h
  | some q =>
    simp only [hs, Option.bind_eq_bind, Option.bind_some] at h ⊢
    cases hh : q.head? with
    | none => simp [hh] at h
    | some c =>
      simp only [hh, Option.bind_some] at h ⊢
      by_cases hc : c = NUL
      · simp [hc] at h ⊢; subst h; rfl
      · simp only [beq_iff_eq, hc, ↓reduceIte] at h ⊢
        cases he : scanComp q with
        | none => simp [he] at h
        | some e => simp [he] at h; subst h; rfl

theorem lengthOfFirst_eq (s junk : Str) (hn : NUL ∉ s) :
    lengthOfFirst (s ++ NUL :: junk) = some (s.takeWhile (· != SP)).length := by
  induction s with
  | nil => simp [lengthOfFirst]
  | cons c r ih =>
    have hc : c ≠ NUL := fun e => hn (by simp [e])
    have hr : NUL ∉ r := fun h => hn (by simp [h])
    simp only [List.cons_append, lengthOfFirst, List.takeWhile_cons]
    by_cases hs : c = SP
    · subst hs; simp
    · simp [hs, hc, ih hr]

/-! ### creader_skip -/

theorem skipFound_eq (c : Byte) (sy junk : Str) (hn : NUL ∉ sy) :
    skipFound c (sy ++ NUL :: junk) = some (sy.contains c) := by
  induction sy with
  | nil => simp [skipFound]
  | cons s r ih =>
    have hs : s ≠ NUL := fun e => hn (by simp [e])
    have hr : NUL ∉ r := fun h => hn (by simp [h])
    simp only [List.cons_append, skipFound]
    by_cases hcs : c = s
    · subst hcs; simp [hs]
    · simp [hs, hcs, ih hr]

theorem creaderSkipLoop_eq (sy junk : Str) (hn : NUL ∉ sy) (cur : Cur) (count : Nat) :
    creaderSkipLoop (sy ++ NUL :: junk) cur count
      = some (count + (cur.takeWhile (sy.contains ·)).length, cur.dropWhile (sy.contains ·)) := by
  induction cur generalizing count with
  | nil => simp [creaderSkipLoop]
  | cons c r ih =>
    simp only [creaderSkipLoop, skipFound_eq c sy junk hn, List.takeWhile_cons, List.dropWhile_cons]
    cases hcc : sy.contains c
    · simp
    · simp [ih]; omega

/-! ### igris::buffer comparisons -/

theorem beq_dec (a b : Str) : (a == b) = decide (a = b) := by
  by_cases h : a = b <;> simp [h]

theorem bufEq_eq (a b : Str) : bufEq a b = some (decide (a = b)) := by
  unfold bufEq memcmpEq
  by_cases hl : a.length = b.length
  · by_cases h0 : a.length = 0
    · have ha : a = [] := List.eq_nil_of_length_eq_zero h0
      have hb : b = [] := List.eq_nil_of_length_eq_zero (by omega)
      subst ha; subst hb; simp
    · have hb0 : b ≠ [] := by intro e; subst e; simp at hl; exact h0 (by simp [hl])
      have ha : a.take b.length = a := by rw [← hl]; exact List.take_length
      simp [hl, hb0, ha, beq_dec]
  · have hne : a ≠ b := fun e => hl (by rw [e])
    simp [hl, hne]

theorem bufNe_eq (a b : Str) : bufNe a b = some (decide (a ≠ b)) := by
  unfold bufNe memcmpEq
  by_cases hl : a.length = b.length
  · by_cases h0 : a.length = 0
    · have ha : a = [] := List.eq_nil_of_length_eq_zero h0
      have hb : b = [] := List.eq_nil_of_length_eq_zero (by omega)
      subst ha; subst hb; simp
    · have hb0 : b ≠ [] := by intro e; subst e; simp at hl; exact h0 (by simp [hl])
      have ha : a.take b.length = a := by rw [← hl]; exact List.take_length
      simp [hl, hb0, ha, beq_dec]
  · have hne : a ≠ b := fun e => hl (by rw [e])
    simp [hl, hne]

theorem strncmpEq_cstr (t junk : Str) (hn : NUL ∉ t) :
    ∀ (n : Nat) (a : Str), n ≤ a.length →
      strncmpEq a (t ++ NUL :: junk) n = some ((a.take n).takeWhile (· != NUL) == t.take n) := by
  intro n
  induction n generalizing t with
  | zero => intro a _; simp [strncmpEq]
  | succ n ih =>
    intro a hle
    match a, hle with
    | x :: a', hle =>
      have hle' : n ≤ a'.length := by simpa using hle
      cases t with
      | nil =>
        by_cases hx : x = NUL
        · subst hx; simp [strncmpEq]
        · simp [strncmpEq, hx, List.takeWhile_cons]
      | cons y t' =>
        have hy : y ≠ NUL := fun e => hn (by simp [e])
        have ht' : NUL ∉ t' := fun h => hn (by simp [h])
        by_cases hxy : x = y
        · subst hxy
          simp [strncmpEq, hy, List.takeWhile_cons, ih t' ht' a' hle']
        · by_cases hx : x = NUL
          · subst hx; simp [strncmpEq, hxy, List.takeWhile_cons]
          · simp [strncmpEq, hxy, hx, List.takeWhile_cons]

/-! ### dstring -/

theorem dstringByte_shape : ∀ c : Byte,
    (c = BSL ∧ dstringByte c = [BSL, BSL]) ∨
    (c ≠ BSL ∧ dstringByte c = [c]) ∨
    (c = NL ∧ dstringByte c = [BSL, LN]) ∨
    (c = TAB ∧ dstringByte c = [BSL, LT]) ∨
    (dstringByte c = [BSL, LX, half2hex ((c &&& 0xF0#8) >>> 4), half2hex (c &&& 0x0F#8)] ∧
      unhexD (half2hex ((c &&& 0xF0#8) >>> 4)) = some ((c &&& 0xF0#8) >>> 4) ∧
      unhexD (half2hex (c &&& 0x0F#8)) = some (c &&& 0x0F#8) ∧
      (((c &&& 0xF0#8) >>> 4) <<< 4 ||| (c &&& 0x0F#8)) = c) := by decide +kernel

theorem dstringByte_printable : ∀ c : Byte, (dstringByte c).all isPrint = true := by decide +kernel

theorem dstringByte_length : ∀ c : Byte, 1 ≤ (dstringByte c).length ∧ (dstringByte c).length ≤ 4 := by
  decide +kernel

theorem decodeD_byte (c : Byte) (rest : Str) (f : Nat) :
    decodeD (f + 1) (dstringByte c ++ rest) = (decodeD f rest).map (c :: ·) := by
  have e1 : (BSL != BSL) = false := by decide
  have e2 : (LN == BSL) = false := by decide
  have e3 : (LT == BSL) = false := by decide
  have e4 : (LX == BSL) = false := by decide
  have e5 : (LT == LN) = false := by decide
  have e6 : (LX == LN) = false := by decide
  have e7 : (LX == LT) = false := by decide
  rcases dstringByte_shape c with ⟨h, e⟩ | ⟨h, e⟩ | ⟨h, e⟩ | ⟨h, e⟩ | ⟨e, h1, h2, h3⟩
  · subst h; rw [e]; simp [decodeD, e1]
  · rw [e]
    have : (c != BSL) = true := by simp [h]
    simp [decodeD, this]
  · subst h; rw [e]; simp [decodeD, e1, e2]
  · subst h; rw [e]; simp [decodeD, e1, e3, e5]
  · rw [e]; simp [decodeD, e1, e4, e6, e7, h1, h2, h3]

theorem decodeD_dstring (s : Str) : ∀ f, s.length < f → decodeD f (dstring s) = some s := by
  induction s with
  | nil => intro f hf; cases f with | zero => omega | succ f => simp [dstring, decodeD]
  | cons c r ih =>
    intro f hf
    cases f with
    | zero => omega
    | succ f =>
      have := ih f (by simpa using hf)
      simp [dstring, decodeD_byte, this]

theorem dstring_length (s : Str) : s.length ≤ (dstring s).length ∧ (dstring s).length ≤ 4 * s.length := by
  induction s with
  | nil => simp [dstring]
  | cons c r ih =>
    have := dstringByte_length c
    simp only [dstring, List.length_append, List.length_cons]
    omega

theorem dstring_all_printable (s : Str) : ∀ x ∈ dstring s, isPrint x = true := by
  induction s with
  | nil => simp [dstring]
  | cons c r ih =>
    intro x hx
    simp only [dstring, List.mem_append] at hx
    rcases hx with hx | hx
    · exact List.all_eq_true.mp (dstringByte_printable c) x hx
    · exact ih x hx

/-! ### help texts -/

theorem mshellHelp_flatten (t : List HelpEntry) : (mshellHelp t).flatten = helpText t := by
  induction t with
  | nil => rfl
  | cons e r ih =>
    obtain ⟨name, help⟩ := e
    cases help <;> simp [mshellHelp, helpText, helpLine, ih] <;> rfl

theorem mshellTablesHelp_flatten (ts : List (List HelpEntry)) :
    (mshellTablesHelp ts).flatten = helpTextTables ts := by
  induction ts with
  | nil => rfl
  | cons t r ih => simp [mshellTablesHelp, helpTextTables, mshellHelp_flatten, ih]

theorem take_append_take (k : Nat) (T src : Str) :
    T.take k ++ src.take (k - (T.take k).length) = (T ++ src).take k := by
  rw [List.take_append]
  congr 1
  simp only [List.length_take]
  by_cases h : T.length ≤ k
  · rw [Nat.min_eq_right h]
  · have : k - T.length = 0 := by omega
    have h2 : k - min k T.length = 0 := by omega
    rw [this, h2]

theorem helpPut_take (m : Nat) (T src : Str) :
    helpPut m (T.take (m - 1)) src = (T ++ src).take (m - 1) := by
  unfold helpPut
  rw [← take_append_take]
  congr 1
  have : min src.length (m - (T.take (m - 1)).length - 1) ≤ src.length := Nat.min_le_left _ _
  rw [show m - (T.take (m - 1)).length - 1 = m - 1 - (T.take (m - 1)).length by omega]
  by_cases h : src.length ≤ m - 1 - (T.take (m - 1)).length
  · rw [Nat.min_eq_left h, List.take_of_length_le h, List.take_of_length_le (Nat.le_refl _)]
  · rw [Nat.min_eq_right (by omega)]

theorem rshellHelpLoop_eq (m : Nat) (t : List HelpEntry) (T : Str) :
    rshellHelpLoop m t (T.take (m - 1)) = (T ++ helpText t).take (m - 1) := by
  induction t generalizing T with
  | nil => simp [rshellHelpLoop, helpText]
  | cons e r ih =>
    obtain ⟨name, help⟩ := e
    cases help with
    | none =>
      simp only [rshellHelpLoop, helpPut_take, ih]
      simp [helpText, helpLine]
    | some h =>
      simp only [rshellHelpLoop, helpPut_take, ih]
      simp [helpText, helpLine]

theorem rshellHelp_pos (t : List HelpEntry) (m : Nat) (h : 0 < m) :
    rshellHelp t (m : Int)
      = (((helpText t).take (m - 1)).length, (helpText t).take (m - 1) ++ [NUL]) := by
  have hm0 : m ≠ 0 := by omega
  have := rshellHelpLoop_eq m t []
  simp only [List.take_nil, List.nil_append] at this
  simp [rshellHelp, hm0, this]

theorem rshellHelp_text (t : List HelpEntry) (m : Int) :
    (rshellHelp t m).2.take (rshellHelp t m).1 = (helpText t).take (m.toNat - 1) := by
  by_cases hm : m ≤ 0
  · have : m.toNat = 0 := by omega
    simp [rshellHelp, hm, this]
  · obtain ⟨M, rfl⟩ : ∃ M : Nat, m = M := ⟨m.toNat, by omega⟩
    rw [rshellHelp_pos t M (by omega)]
    simp

theorem rshellTablesHelpLoop_eq (M : Nat) (hM : 0 < M) (ts : List (List HelpEntry)) (T : Str) :
    rshellTablesHelpLoop (M : Int) ts (T.take (M - 2)) = (T ++ helpTextTables ts).take (M - 2) := by
  induction ts generalizing T with
  | nil => simp [rshellTablesHelpLoop, helpTextTables]
  | cons t r ih =>
    simp only [rshellTablesHelpLoop, rshellHelp_text]
    have hlen : (T.take (M - 2)).length ≤ M - 2 := by simp [List.length_take]; omega
    have hk : (((M : Int) - ((T.take (M - 2)).length : Int) - 1).toNat - 1)
        = (M - 2) - (T.take (M - 2)).length := by omega
    rw [hk, take_append_take, ih]
    simp [helpTextTables, List.append_assoc]

theorem rshellTablesHelp_pos (ts : List (List HelpEntry)) (M : Nat) (hM : 0 < M) :
    rshellTablesHelp ts (M : Int)
      = (((helpTextTables ts).take (M - 2)).length, (helpTextTables ts).take (M - 2) ++ [NUL]) := by
  have hm0 : M ≠ 0 := by omega
  have := rshellTablesHelpLoop_eq M hM ts []
  simp only [List.take_nil, List.nil_append] at this
  simp [rshellTablesHelp, hm0, this]

/-! ### rshell_execute_v -/

theorem rshellExecuteV_eq (a0 : Str) (rest : List Str) (table : List Str) (dropargs : Nat) :
    rshellExecuteV (a0 :: rest) table dropargs
      = some (dispatchSpec 0 (a0 :: rest) [(table, dropargs)]) := by
  simp only [rshellExecuteV, dispatchSpec, findCmdTables]
  cases findCmd a0 table 0 <;> simp

theorem take_takeWhile_length (p : Byte → Bool) (l : Str) :
    l.take (l.takeWhile p).length = l.takeWhile p := by
  induction l with
  | nil => simp
  | cons c r ih =>
    simp only [List.takeWhile_cons]
    split <;> simp [ih]

theorem dropWhile_head_not (p : Byte → Bool) (l : Str) (c : Byte) (r : Str)
    (h : l.dropWhile p = c :: r) : p c = false := by
  induction l with
  | nil => simp at h
  | cons x xs ih =>
    simp only [List.dropWhile_cons] at h
    split at h
    · exact ih h
    · rename_i hx
      injection h with h1 _
      subst h1
      simpa using hx

end Igris.C19
