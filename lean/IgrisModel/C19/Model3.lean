/-
C19, extension round 3 — core Lean only.

* `replace_substrings` called IN PLACE (`buffer == input`): one memory block holds the input
  and receives the output.  The header promises nothing about aliasing (no `restrict`, no
  comment); the routine copies with `memcpy`, so an in-place call is defined exactly as long
  as every `memcpy` has `dst == src` or disjoint ranges.  `memcpyIn` makes the overlapping case
  an explicit result (`PR.oob (-1)`: what ASan reports as memcpy-param-overlap).
* the constants and type widths the models embed (`constsLine`), compared on every run with
  what the compiled code answers (op `consts`).
-/
import IgrisModel.C19.Ptr
namespace Igris.C19
open Igris.Proto

/-- `memcpy(m + dst, m + src, len)` inside ONE block.  `len = 0` copies nothing;
`dst = src` leaves the block as it is; overlapping ranges are undefined (C11 7.24.2.1):
marker `oob (-1)`. -/
def memcpyIn (m : Str) (dst src len : Nat) : PR Str :=
  if len = 0 then .ok m
  else if src + len > m.length then .oob (max src m.length)
  else if dst + len > m.length then .oob (max dst m.length)
  else if dst = src then .ok m
  else if dst < src + len ∧ src < dst + len then .oob (-1)
  else .ok (m.take dst ++ (m.drop src).take len ++ m.drop (dst + len))

/-- `replace_substrings_put(&bufit, &room, m + src, len)` with `bufit` pointing into the same block -/
def rsPutIn (m : Str) (bufit room src len : Nat) : PR (Str × Nat × Nat) := do
  let len := min len room
  let m ← memcpyIn m bufit src len
  pure (m, bufit + len, room - len)

/-- `replace_substrings_put(&bufit, &room, rep, replen)`: `rep` is a block of its own -/
def rsPutRepIn (m : Str) (bufit room : Nat) (rm : Str) : PR (Str × Nat × Nat) := do
  let len := min rm.length room
  let bytes ← rdRange rm 0 len
  if len ≠ 0 ∧ bufit + len > m.length then .oob m.length else
  pure (m.take bufit ++ bytes ++ m.drop (bufit + len), bufit + len, room - len)

/-- the `while ((finded = igris_memmem(strit, streit - strit, sub, sublen)) != NULL)` loop;
`igris_memmem` searches the block as it is NOW (after the writes of the earlier rounds) -/
def rsLoopIn (sm rm : Str) (streit : Nat) : Nat → Str → Nat → Nat → Nat → PR (Str × Nat)
  | 0, _, _, _, _ => .fuel
  | f + 1, m, strit, bufit, room => do
    match ← memmemP m strit (streit - strit) sm sm.length with
    | none =>
      let (m, bufit, _) ← rsPutIn m bufit room strit (streit - strit)
      pure (m, bufit)
    | some finded =>
      let step := finded - strit
      let (m, bufit, room) ← rsPutIn m bufit room strit step
      let strit := strit + step
      let (m, bufit, room) ← rsPutRepIn m bufit room rm
      let strit := strit + sm.length
      rsLoopIn sm rm streit f m strit bufit room

/-- `replace_substrings(block, |block|, block, inlen, sub, sublen, rep, replen)`:
the block after the call -/
def replaceSubstringsInPlace (block : Str) (inlen : Nat) (sub rep : Str) : PR Str :=
  let maxsize := block.length
  if maxsize = 0 then pure block else
  let room := maxsize - 1
  if sub.length = 0 then do
    let len := min (maxsize - 1) inlen
    let m ← memcpyIn block 0 0 len
    wr m len NUL
  else do
    let (m, bufit) ← rsLoopIn sub rep inlen (inlen + 1) block 0 0 room
    wr m bufit NUL


/-! ## linear-time evaluation of the memmem-based routines (driver, long inputs)

`memmemLoop` recomputes the length of the rest at every position (`cur <= last` as
`length ≥ s_len`): quadratic in the driver.  `memmemLoopF` carries the number of remaining
bytes along instead; `Props.memmemF_eq`, `replaceF_eq`, `replaceSubstringsF_eq` prove the
fast versions equal to the models for every input, so the driver may run them. -/

def memmemLoopF (s : Str) (slen : Nat) : Cur → Nat → Nat → Option Nat
  | [], _, _ => none
  | a :: rest, rem, off =>
    if rem < slen then none
    else if s.head? == some a && (a :: rest).take slen == s then some off
    else memmemLoopF s slen rest (rem - 1) (off + 1)

def memmemF (l s : Str) : Option Nat :=
  if l.length = 0 ∨ s.length = 0 then none
  else if l.length < s.length then none
  else if s.length = 1 then memchr (s.headD NUL) l 0
  else memmemLoopF s s.length l l.length 0

def replaceLoopF (sub rep : Str) : Nat → Cur → Str → Option Str
  | 0, _, _ => none
  | f + 1, strit, output =>
    match memmemF strit sub with
    | none => some (output ++ strit)
    | some step =>
      replaceLoopF sub rep f (strit.drop (step + sub.length)) (output ++ strit.take step ++ rep)

def replaceF (input sub rep : Str) : Option Str :=
  if sub.length = 0 then some input else replaceLoopF sub rep (input.length + 1) input []

def rsLoopF (sub rep : Str) : Nat → Cur → Str × Nat → Option (Str × Nat)
  | 0, _, _ => none
  | f + 1, strit, st =>
    match memmemF strit sub with
    | none => some (rsPut st strit strit.length)
    | some step =>
      rsLoopF sub rep f (strit.drop (step + sub.length)) (rsPut (rsPut st strit step) rep rep.length)

def replaceSubstringsF (maxsize : Nat) (input sub rep : Str) : Option Str :=
  if maxsize = 0 then some [] else
  let room := maxsize - 1
  if sub.length = 0 then
    let len := min (maxsize - 1) input.length
    some (input.take len ++ [NUL])
  else
    match rsLoopF sub rep (input.length + 1) input ([], room) with
    | none => none
    | some st => some (st.1 ++ [NUL])

/-! ## a membership table for `strchr` (what the seeded change caches) -/

/-- the 256-entry table `member[c] = (c == 0 || c occurs in delims)` built from the CONTENTS of
the delimiter string -/
def delimTable (d : Str) : List Bool :=
  (List.range 256).map fun i => i == 0 || d.any (fun c => c.toNat == i)

/-! ## constants and widths embedded in the models -/

/-- width of `unsigned int` (`*p_len` of `path_next`, the counter of the iterator-range `join`) -/
abbrev UINT_BITS : Nat := 32
/-- width of `size_t` (`sizeDec`, `tot - 1`) -/
abbrev SIZE_BITS : Nat := 64

/-- the 256-bit set `isprint((char)c)` as 32 bytes, bit `k` of byte `j` = character `8j + k` -/
def isPrintBits : List Byte :=
  (List.range 32).map fun j =>
    BitVec.ofNat 8 ((List.range 8).foldl (fun acc k => if isPrint (BitVec.ofNat 8 (8 * j + k)) then acc + 2 ^ k else acc) 0)

/-! ## round 3b: `path_compare_node` at index level

Two memory blocks of exactly the two allocations, `a` / `b` indices into them.  The loop test
`*a != 0 && *a != '/' && *b != 0 && *b != '/'` short-circuits: `*b` is read only when `*a` is an
ordinary character; behind the loop `*a` is read again (same byte) and `*b` only on the branch
that needs it.  Fuel = one iteration per byte of `a`'s block. -/
def compareNodeP (ma mb : Str) : Nat → Nat → Nat → PR Int
  | 0, _, _ => .fuel
  | f + 1, a, b => do
    let ca ← rd ma a
    if ca != NUL && ca != SLASH then
      let cb ← rd mb b
      if cb != NUL && cb != SLASH then
        if ca == cb then compareNodeP ma mb f (a + 1) (b + 1)
        else pure (if ca.slt cb then -1 else 1)   -- return *a < *b ? -1 : 1;   (`char`: signed)
      else pure 1                                  -- loop left by `*b`: `*a` is no end -> return 1
    else
      -- if (*a == 0 || *a == '/') { if (*b == 0 || *b == '/') return 0; return -1; }
      let cb ← rd mb b
      pure (if cb == NUL || cb == SLASH then 0 else -1)


def constsLine : String :=
  "argcmax_m=" ++ toString SSHELL_ARGCMAX ++ " argcmax_r=" ++ toString SSHELL_ARGCMAX ++ " enoent=" ++ toString ENOENT
    ++ " ok=0 plen=" ++ toString UINT_BITS ++ " size_t=" ++ toString SIZE_BITS ++ " bufsize=" ++ toString SIZE_BITS
    ++ " int=32 char_signed=1 isprint=" ++ bytesHex isPrintBits

end Igris.C19
