/-
  C19 — lemmas of extension round 4: the node list of a path, `path_remove_prefix`
  in terms of node lists and of component lists.
-/
import IgrisModel.C19.Spec3
import IgrisModel.C19.Lemmas
namespace Igris.C19
open Igris.Proto

theorem splitSlash_head (p : Str) : ∃ t, splitSlash p = headComp p :: t := by
  induction p with
  | nil => exact ⟨[], rfl⟩
  | cons x xs ih =>
    obtain ⟨t, ht⟩ := ih
    by_cases hx : x = SLASH
    · subst hx
      exact ⟨splitSlash xs, by simp [splitSlash, headComp]⟩
    · have hx' : (x == SLASH) = false := by simpa using hx
      refine ⟨t, ?_⟩
      simp [splitSlash, hx', ht, headComp, hx]

theorem comps_after_first (p : Str) :
    comps (p.dropWhile (· != SLASH)) = ((splitSlash p).tail).filter isReal := by
  rw [dropWhile_ne_slash]
  have hns := splitSlash_noslash p
  cases hsp : splitSlash p with
  | nil => exact absurd hsp (splitSlash_ne_nil p)
  | cons h t =>
    rw [hsp] at hns
    cases t with
    | nil => simp [comps, splitSlash, isReal]
    | cons d r =>
      simp only [List.tail_cons]
      have : splitSlash (SLASH :: joinSlash (d :: r)) = [] :: (d :: r) := by
        simp only [splitSlash, BEq.rfl, ↓reduceIte]
        rw [splitSlash_joinSlash (d :: r) (by simp) (fun x hx => hns x (by simp [hx]))]
      rw [comps, this]
      simp [List.filter_cons, isReal]

/-- `nodes` in the other vocabulary: first piece, then the components of what follows it -/
theorem nodes_eq (p : Str) (hp : p ≠ []) : nodes p = headComp p :: comps (p.dropWhile (· != SLASH)) := by
  obtain ⟨t, ht⟩ := splitSlash_head p
  rw [comps_after_first, nodes, ht]
  have : p.isEmpty = false := by cases p with | nil => exact absurd rfl hp | cons a as => rfl
  simp [this]

theorem nodes_nil : nodes [] = [] := by simp [nodes, splitSlash]

theorem comps_eq_filter_nodes (p : Str) : comps p = (nodes p).filter isReal := by
  by_cases hp : p = []
  · subst hp; simp [nodes_nil, comps, splitSlash, isReal]
  · obtain ⟨t, ht⟩ := splitSlash_head p
    have : p.isEmpty = false := by cases p with | nil => exact absurd rfl hp | cons a as => rfl
    rw [comps, nodes, ht]
    simp [this, List.filter_cons]

theorem dropWhile_eq_drop (l : Str) (P : Byte → Bool) : l.dropWhile P = l.drop (l.takeWhile P).length := by
  induction l with
  | nil => rfl
  | cons a as ih =>
    by_cases h : P a = true
    · simp [h, ih]
    · simp [h]

theorem nodes_skipRef (x : Str) : nodes (skipRef x) = comps x := by
  have h := skipRef_components x
  cases hs : skipRef x with
  | nil => rw [hs] at h; simp only at h; rw [h, nodes_nil]
  | cons c r =>
    rw [hs] at h
    simp only at h
    obtain ⟨hh, t, h1, h2, _, h4⟩ := h
    rw [nodes_eq (c :: r) (by simp), dropWhile_eq_drop, h1]
    have : ((c :: r).takeWhile (· != SLASH)) = hh := h2
    rw [this, h4, h2]

/-- one step of `path_iterate` leaves the first node behind -/
theorem nodes_iterRef (p : Str) (hp : p ≠ []) : nodes p = headComp p :: nodes (iterRef p) := by
  rw [iterRef_eq_skipRef, nodes_skipRef, nodes_eq p hp]

theorem lcpLen_nil_left (l : List Str) : lcpLen [] l = 0 := by simp [lcpLen]
theorem lcpLen_nil_right (l : List Str) : lcpLen l [] = 0 := by cases l <;> simp [lcpLen]

theorem removePrefixRef_nodes (f : Nat) (p q : Str) (hf : p.length < f) :
    nodes (removePrefixRef f p q) = (nodes p).drop (lcpLen (nodes p) (nodes q)) := by
  induction f generalizing p q with
  | zero => omega
  | succ f ih =>
    unfold removePrefixRef
    by_cases hp : p = []
    · subst hp; simp [nodes_nil]
    · by_cases hq : q = []
      · subst hq
        have : p.isEmpty = false := by cases p with | nil => exact absurd rfl hp | cons a as => rfl
        simp [this, nodes_nil, lcpLen_nil_right]
      · have e1 : p.isEmpty = false := by cases p with | nil => exact absurd rfl hp | cons a as => rfl
        have e2 : q.isEmpty = false := by cases q with | nil => exact absurd rfl hq | cons a as => rfl
        simp only [e1, e2, Bool.or_self, Bool.false_eq_true, if_false]
        rw [nodes_iterRef p hp, nodes_iterRef q hq]
        by_cases he : (headComp p == headComp q) = true
        · rw [if_pos he]
          have hlt := iterRef_length_lt p hp
          rw [ih _ _ (by omega)]
          simp [lcpLen, he]
        · rw [if_neg he]
          simp only [lcpLen, he, Bool.false_eq_true, if_false, List.drop_zero]
          rw [← nodes_iterRef p hp]

theorem comps_all_real (p : Str) : ∀ x ∈ comps p, isReal x = true := by
  intro x hx
  exact (List.mem_filter.mp hx).2

theorem filter_real_drop_comps (p : Str) (k : Nat) : ((comps p).drop k).filter isReal = (comps p).drop k := by
  apply List.filter_eq_self.mpr
  intro x hx
  exact comps_all_real p x ((List.drop_sublist k _).subset hx)

/-- for a path whose first piece is not a single dot the nodes are the
components, preceded by the empty root node when the path is absolute -/
theorem nodes_of_plain (p : Str) (hd : headComp p ≠ [DOT]) :
    nodes p = if p.head? = some SLASH then [] :: comps p else comps p := by
  cases p with
  | nil => simp [nodes_nil, comps, splitSlash, isReal]
  | cons c cs =>
    obtain ⟨t, ht⟩ := splitSlash_head (c :: cs)
    have hC := comps_after_first (c :: cs)
    rw [ht, List.tail_cons] at hC
    rw [nodes_eq (c :: cs) (by simp), hC]
    have hcomps : comps (c :: cs) = (headComp (c :: cs) :: t).filter isReal := by rw [comps, ht]
    by_cases hc : c = SLASH
    · subst hc
      have hh : headComp (SLASH :: cs) = [] := by simp [headComp]
      rw [hcomps, hh]
      simp [isReal]
    · have hne : headComp (c :: cs) ≠ [] := by simp [headComp, hc]
      have hreal : isReal (headComp (c :: cs)) = true := by
        unfold isReal
        simp only [Bool.and_eq_true, Bool.not_eq_true', bne_iff_ne, ne_eq]
        exact ⟨by cases h : headComp (c :: cs) with | nil => exact absurd h hne | cons a as => rfl, hd⟩
      rw [hcomps]
      simp [hreal, hc]

theorem removePrefix_comps_partial (p q : Str) (hdp : headComp p ≠ [DOT]) (hdq : headComp q ≠ [DOT])
    (hk : p.head? = some SLASH ↔ q.head? = some SLASH) :
    comps (removePrefixSpec p q) = (comps p).drop (lcpLen (comps p) (comps q)) := by
  unfold removePrefixSpec
  rw [comps_eq_filter_nodes, removePrefixRef_nodes _ p q (by omega), nodes_of_plain p hdp, nodes_of_plain q hdq]
  by_cases ha : p.head? = some SLASH
  · rw [if_pos ha, if_pos (hk.mp ha)]
    simp only [lcpLen, BEq.rfl, if_true, List.drop_succ_cons]
    exact filter_real_drop_comps p _
  · rw [if_neg ha, if_neg (fun h => ha (hk.mpr h))]
    exact filter_real_drop_comps p _

end Igris.C19
