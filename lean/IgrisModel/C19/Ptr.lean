/-
  C19 — POINTER-LEVEL models (extension round 4).

  Model.lean writes the guarded scans `while (p != end && P(*p)) ++p` as
  `List.dropWhile`: an over-read cannot even be expressed there, so "stays in
  bounds" was true of those routines by the way the model was written.  Here
  the same routines are written the way the C code is:

    * a buffer is a memory `m : List Byte` of EXACTLY the extent the caller
      gives (`data()[0 .. size())`, no terminator, nothing behind it);
    * a pointer is an explicit index (`Nat` for pointers that only move
      forward from the start of the buffer, `Int` for the ones that are
      decremented);
    * every `*p`, `p[i]`, `memcmp`, `memcpy`, `std::string(p, n)` is a read
      `rd`/`rdI`/`rdRange`, every store a `wr`: an index `< 0` or `≥ length`
      is the explicit result `PR.oob index` (what ASan reports on an exactly
      sized heap block);
    * `p != end` compares indices and reads nothing; the loop tests are
      evaluated IN THE ORDER THE CODE WRITES THEM: `scanG` is
      `while (p != end && P(*p)) ++p`, `scanU` is `while (P(*p) && p != end) ++p`
      (the order of the unrepaired code), `scanZ` is `while (P(*p)) ++p`;
    * loops have explicit fuel; running out of it is the separate result
      `PR.fuel` (so "fault" and "did not terminate" are told apart).

  LemmasPtr.lean / Props.lean prove for every routine: the pointer-level model
  never yields `oob` or `fuel`, and its value is the value of the list-level
  model of Model.lean (so all value theorems transfer); the unrepaired bodies
  (`…OrigP`) yield `oob` on the inputs recorded in corpus/C19/fixed-defects.ops.
  The driver (Main.lean) runs THESE functions.

  Core Lean only.
-/
import IgrisModel.C19.Model2
namespace Igris.C19
open Igris.Proto

/-- result of a pointer-level routine -/
inductive PR (α : Type)
  | ok (a : α)
  /-- an access at this index of a memory block that does not contain it -/
  | oob (i : Int)
  /-- the loop fuel ran out -/
  | fuel
deriving DecidableEq, Repr

namespace PR
def bind {α β : Type} : PR α → (α → PR β) → PR β
  | ok a, f => f a
  | oob i, _ => oob i
  | fuel, _ => fuel
instance : Monad PR where
  pure := ok
  bind := PR.bind
@[simp] theorem ok_bind {α β : Type} (a : α) (f : α → PR β) : (ok a >>= f) = f a := rfl
@[simp] theorem oob_bind {α β : Type} (i : Int) (f : α → PR β) : ((oob i : PR α) >>= f) = oob i := rfl
@[simp] theorem fuel_bind {α β : Type} (f : α → PR β) : ((fuel : PR α) >>= f) = fuel := rfl
@[simp] theorem pure_eq {α : Type} (a : α) : (pure a : PR α) = ok a := rfl
/-- forget why it failed (the list-level models have only `none`) -/
def toOption {α : Type} : PR α → Option α
  | ok a => some a
  | _ => none
end PR

/-! ## memory accesses -/

/-- `*(base + i)` for a forward index -/
def rd (m : Str) (i : Nat) : PR Byte :=
  match m[i]? with
  | some c => .ok c
  | none => .oob i

/-- `*(base + i)` for an index that may have been decremented -/
def rdI (m : Str) (i : Int) : PR Byte :=
  if i < 0 then .oob i else rd m i.toNat

/-- the `n` bytes `base[p .. p+n)`: `std::string(p, n)`, the source of a
`memcpy`, one side of a `memcmp`.  `n = 0` reads nothing. -/
def rdRange (m : Str) (p n : Nat) : PR Str :=
  if n = 0 then .ok []
  else if p + n ≤ m.length then .ok ((m.drop p).take n)
  else .oob (max p m.length)

/-- `base[i] = c` -/
def wr (m : Str) (i : Nat) (c : Byte) : PR Str :=
  if i < m.length then .ok (m.set i c) else .oob i

/-! ## the three loop shapes -/

/-- `while (p != e && P(*p)) ++p;` — the end test comes first -/
def scanG (m : Str) (e : Nat) (P : Byte → Bool) : Nat → Nat → PR Nat
  | 0, _ => .fuel
  | f + 1, p =>
    if p != e then do
      let c ← rd m p
      if P c then scanG m e P f (p + 1) else pure p
    else pure p

/-- `while (P(*p) && p != e) ++p;` — the read comes first (unrepaired order) -/
def scanU (m : Str) (e : Nat) (P : Byte → Bool) : Nat → Nat → PR Nat
  | 0, _ => .fuel
  | f + 1, p => do
    let c ← rd m p
    if P c && p != e then scanU m e P f (p + 1) else pure p

/-- `while (P(*p)) ++p;` — no end test at all -/
def scanZ (m : Str) (P : Byte → Bool) : Nat → Nat → PR Nat
  | 0, _ => .fuel
  | f + 1, p => do
    let c ← rd m p
    if P c then scanZ m P f (p + 1) else pure p

/-! ## igris::split(buffer, char) — string.cpp -/

/-- `ptr`, `strt` are indices into `m`, `e` is `end` -/
def splitCharLoopP (m : Str) (e : Nat) (delim : Byte) : Nat → Nat → List Str → PR (List Str)
  | 0, _, _ => .fuel
  | f + 1, ptr, outvec => do
    -- while (ptr != end && *ptr == delim) ptr++;
    let ptr ← scanG m e (· == delim) (m.length + 1) ptr
    -- if (ptr == end) break;
    if ptr == e then pure outvec else
    let strt := ptr
    -- while (ptr != end && *ptr != delim) ptr++;
    let ptr ← scanG m e (· != delim) (m.length + 1) ptr
    -- outvec.emplace_back(strt, ptr - strt);
    let tok ← rdRange m strt (ptr - strt)
    splitCharLoopP m e delim f ptr (outvec ++ [tok])

def splitCharP (buf : Str) (delim : Byte) : PR (List Str) :=
  splitCharLoopP buf buf.length delim (buf.length + 1) 0 []

/-- before 8b4a8e9: `while (*ptr == delim) ptr++;` -/
def splitCharOrigLoopP (m : Str) (e : Nat) (delim : Byte) : Nat → Nat → List Str → PR (List Str)
  | 0, _, _ => .fuel
  | f + 1, ptr, outvec => do
    let ptr ← scanZ m (· == delim) (m.length + 1) ptr
    if ptr == e then pure outvec else
    let strt := ptr
    let ptr ← scanG m e (· != delim) (m.length + 1) ptr
    let tok ← rdRange m strt (ptr - strt)
    splitCharOrigLoopP m e delim f ptr (outvec ++ [tok])

def splitCharOrigP (buf : Str) (delim : Byte) : PR (List Str) :=
  splitCharOrigLoopP buf buf.length delim (buf.length + 1) 0 []

/-! ## igris::split(buffer, const char *delims) -/

def splitDelimsLoopP (m : Str) (e : Nat) (delims : Str) : Nat → Nat → List Str → PR (List Str)
  | 0, _, _ => .fuel
  | f + 1, ptr, outvec => do
    -- while (ptr != end && strchr(delims, *ptr) != NULL) ptr++;
    let ptr ← scanG m e (strchrHit delims) (m.length + 1) ptr
    if ptr == e then pure outvec else
    let strt := ptr
    -- while (ptr != end && strchr(delims, *ptr) == NULL) ptr++;
    let ptr ← scanG m e (fun c => !strchrHit delims c) (m.length + 1) ptr
    let tok ← rdRange m strt (ptr - strt)
    let outvec := outvec ++ [tok]
    -- if (ptr == end) break;
    if ptr == e then pure outvec else splitDelimsLoopP m e delims f ptr outvec

def splitDelimsP (buf delims : Str) : PR (List Str) :=
  if buf.length = 0 then pure [] else splitDelimsLoopP buf buf.length delims (buf.length + 1) 0 []

/-- before 76a8f9d: `while (strchr(delims, *ptr) != NULL && ptr != end) ptr++;` -/
def splitDelimsOrigLoopP (m : Str) (e : Nat) (delims : Str) : Nat → Nat → List Str → PR (List Str)
  | 0, _, _ => .fuel
  | f + 1, ptr, outvec => do
    let ptr ← scanU m e (strchrHit delims) (m.length + 2) ptr
    if ptr == e then pure outvec else
    let strt := ptr
    let ptr ← scanG m e (fun c => !strchrHit delims c) (m.length + 1) ptr
    let tok ← rdRange m strt (ptr - strt)
    let outvec := outvec ++ [tok]
    if ptr == e then pure outvec else splitDelimsOrigLoopP m e delims f ptr outvec

def splitDelimsOrigP (buf delims : Str) : PR (List Str) :=
  if buf.length = 0 then pure [] else splitDelimsOrigLoopP buf buf.length delims (buf.length + 1) 0 []

/-! ## igris::split_cmdargs -/

def cmdargsLoopP (m : Str) (e : Nat) : Nat → Nat → List Str → PR (List Str)
  | 0, _, _ => .fuel
  | f + 1, ptr, outvec => do
    -- while (ptr != end && *ptr == ' ') ptr++;
    let ptr ← scanG m e (· == SP) (m.length + 1) ptr
    -- if (ptr == end) break;
    if ptr == e then pure outvec else
    -- if (*ptr == '"' || *ptr == '\'')
    let c ← rd m ptr
    if c == DQ || c == SQ then
      -- char delim = *ptr; ptr++; strt = ptr;
      let delim ← rd m ptr
      let ptr := ptr + 1
      let strt := ptr
      -- while (ptr != end && *ptr != delim) ptr++;
      let ptr ← scanG m e (· != delim) (m.length + 1) ptr
      let tok ← rdRange m strt (ptr - strt)
      let outvec := outvec ++ [tok]
      -- if (ptr == end) break;  ptr++;
      if ptr == e then pure outvec else cmdargsLoopP m e f (ptr + 1) outvec
    else
      let strt := ptr
      -- while (ptr != end && *ptr != ' ') ptr++;
      let ptr ← scanG m e (· != SP) (m.length + 1) ptr
      let tok ← rdRange m strt (ptr - strt)
      cmdargsLoopP m e f ptr (outvec ++ [tok])

def splitCmdargsP (buf : Str) : PR (List Str) :=
  if buf.length = 0 then pure [] else cmdargsLoopP buf buf.length (buf.length + 1) 0 []

/-- before 16fd822: `while (*ptr == ' ' && ptr != end) ptr++;` -/
def cmdargsOrigLoopP (m : Str) (e : Nat) : Nat → Nat → List Str → PR (List Str)
  | 0, _, _ => .fuel
  | f + 1, ptr, outvec => do
    let ptr ← scanU m e (· == SP) (m.length + 2) ptr
    if ptr == e then pure outvec else
    let c ← rd m ptr
    if c == DQ || c == SQ then
      let delim ← rd m ptr
      let ptr := ptr + 1
      let strt := ptr
      let ptr ← scanG m e (· != delim) (m.length + 1) ptr
      let tok ← rdRange m strt (ptr - strt)
      let outvec := outvec ++ [tok]
      if ptr == e then pure outvec else cmdargsOrigLoopP m e f (ptr + 1) outvec
    else
      let strt := ptr
      let ptr ← scanG m e (· != SP) (m.length + 1) ptr
      let tok ← rdRange m strt (ptr - strt)
      cmdargsOrigLoopP m e f ptr (outvec ++ [tok])

def splitCmdargsOrigP (buf : Str) : PR (List Str) :=
  if buf.length = 0 then pure [] else cmdargsOrigLoopP buf buf.length (buf.length + 1) 0 []

/-! ## igris::trim — string.h -/

/-- `while (left != right && ws(*right)) --right;` — `right` is decremented:
an `Int` index, read with `rdI` -/
def scanBack (m : Str) (left : Int) (P : Byte → Bool) : Nat → Int → PR Int
  | 0, _ => .fuel
  | f + 1, right =>
    if left != right then do
      let c ← rdI m right
      if P c then scanBack m left P f (right - 1) else pure right
    else pure right

def trimP (view : Str) : PR Str :=
  if view.length = 0 then pure [] else do
  -- left = data; right = data + size - 1; end = data + size;
  let e := view.length
  let right : Int := (view.length : Int) - 1
  -- while (left != end && ws(*left)) ++left;
  let left ← scanG view e isWsTrim (view.length + 1) 0
  -- if (left == end) return "";
  if left == e then pure [] else
  -- while (left != right && ws(*right)) --right;
  let right ← scanBack view left isWsTrim (view.length + 1) right
  -- return std::string(left, (right - left) + 1);
  rdRange view left ((right - left) + 1).toNat

/-! ## igris_memmem — memmem.c

`lm` is the memory block `l` points into, `l` the index of the first byte,
`l_len` the length the caller passes; `sm`, `s_len` the same for the needle
(`cs` = index 0).  Result: NULL or the index (into `lm`) of the match. -/

/-- libc `memchr(base + b, c, n)`: looks at `base[b], base[b+1], …` in turn -/
def memchrP (m : Str) (b : Nat) (c : Byte) : Nat → Nat → PR (Option Nat)
  | 0, _ => pure none
  | n + 1, i => do
    let x ← rd m (b + i)
    if x == c then pure (some (b + i)) else memchrP m b c n (i + 1)

/-- libc `memcmp(lm + lp, sm + sp, n) == 0`: may read all `n` bytes of both -/
def memcmpEqP (lm : Str) (lp : Nat) (sm : Str) (sp n : Nat) : PR Bool := do
  let a ← rdRange lm lp n
  let b ← rdRange sm sp n
  pure (a == b)

/-- `for (cur = cl; cur <= last; cur++) if (cur[0] == cs[0] && memcmp(cur, cs, s_len) == 0) return cur;` -/
def memmemLoopP (lm sm : Str) (s_len last : Nat) : Nat → Nat → PR (Option Nat)
  | 0, _ => .fuel
  | f + 1, cur =>
    if cur ≤ last then do
      let a ← rd lm cur
      let b ← rd sm 0
      if a == b then
        if (← memcmpEqP lm cur sm 0 s_len) then pure (some cur)
        else memmemLoopP lm sm s_len last f (cur + 1)
      else memmemLoopP lm sm s_len last f (cur + 1)
    else pure none

def memmemP (lm : Str) (l l_len : Nat) (sm : Str) (s_len : Nat) : PR (Option Nat) :=
  -- if (l_len == 0 || s_len == 0) return NULL;
  if l_len = 0 ∨ s_len = 0 then pure none
  -- if (l_len < s_len) return NULL;
  else if l_len < s_len then pure none
  -- if (s_len == 1) return memchr(l, (int)*cs, l_len);
  else if s_len = 1 then do
    let c ← rd sm 0
    memchrP lm l c l_len 0
  else
    -- last = cl + l_len - s_len;
    let last := l + l_len - s_len
    memmemLoopP lm sm s_len last (l_len + 1) l

/-! ## igris::replace — replace.cpp -/

def replaceLoopP (im sm rep : Str) (streit : Nat) : Nat → Nat → Str → PR Str
  | 0, _, _ => .fuel
  | f + 1, strit, output => do
    -- while ((finded = igris_memmem(strit, streit - strit, sub.data(), sub.size())) != NULL)
    match ← memmemP im strit (streit - strit) sm sm.length with
    | none =>
      -- output.append(strit, streit - strit);
      let t ← rdRange im strit (streit - strit)
      pure (output ++ t)
    | some finded =>
      let step := finded - strit
      -- output.append(strit, step); strit += step;
      let t ← rdRange im strit step
      let output := output ++ t
      let strit := strit + step
      -- output.append(rep); strit += sub.size();
      let output := output ++ rep
      let strit := strit + sm.length
      replaceLoopP im sm rep streit f strit output

def replaceP (input sub rep : Str) : PR Str :=
  if sub.length = 0 then pure input
  else replaceLoopP input sub rep input.length (input.length + 1) 0 []

/-! ## replace_substrings — replace_substrings.c

The destination is a block of exactly `maxsize` bytes.  State of the writer:
the bytes written so far from `buffer[0]` on (`bufit` = their number) and
`room`. -/

/-- `replace_substrings_put(&bufit, &room, srcm + src, len)` -/
def rsPutP (maxsize : Nat) (st : Str × Nat) (srcm : Str) (src len : Nat) : PR (Str × Nat) := do
  let len := min len st.2
  -- memcpy(*bufit, src, len): reads src[0..len), writes bufit[0..len)
  let bytes ← rdRange srcm src len
  if len ≠ 0 ∧ st.1.length + len > maxsize then .oob maxsize else
  pure (st.1 ++ bytes, st.2 - len)

def rsLoopP (maxsize : Nat) (im sm rm : Str) (streit : Nat) : Nat → Nat → Str × Nat → PR (Str × Nat)
  | 0, _, _ => .fuel
  | f + 1, strit, st => do
    match ← memmemP im strit (streit - strit) sm sm.length with
    | none => rsPutP maxsize st im strit (streit - strit)
    | some finded =>
      let step := finded - strit
      let st ← rsPutP maxsize st im strit step
      let strit := strit + step
      let st ← rsPutP maxsize st rm 0 rm.length
      let strit := strit + sm.length
      rsLoopP maxsize im sm rm streit f strit st

def replaceSubstringsP (maxsize : Nat) (input sub rep : Str) : PR Str :=
  if maxsize = 0 then pure [] else
  let room := maxsize - 1
  if sub.length = 0 then do
    let len := min (maxsize - 1) input.length
    -- memcpy(buffer, input, len); buffer[len] = 0;
    let bytes ← rdRange input 0 len
    if len < maxsize then pure (bytes ++ [NUL]) else .oob len
  else do
    let st ← rsLoopP maxsize input sub rep input.length (input.length + 1) 0 ([], room)
    -- *bufit = 0;
    if st.1.length < maxsize then pure (st.1 ++ [NUL]) else .oob st.1.length

/-- before d4e621a: plain `memcpy`s, `maxsize` looked at only for an empty pattern
(and then `maxsize - 1` wraps for 0) — the writer state is just the bytes written -/
def rsPutOrigP (maxsize : Nat) (w : Str) (srcm : Str) (src len : Nat) : PR Str := do
  let bytes ← rdRange srcm src len
  if len ≠ 0 ∧ w.length + len > maxsize then .oob maxsize else pure (w ++ bytes)

def rsOrigLoopP (maxsize : Nat) (im sm rm : Str) (streit : Nat) : Nat → Nat → Str → PR Str
  | 0, _, _ => .fuel
  | f + 1, strit, w => do
    match ← memmemP im strit (streit - strit) sm sm.length with
    | none =>
      -- memcpy(bufit, strit, lastlen); *(bufit + lastlen) = 0;
      let w ← rsPutOrigP maxsize w im strit (streit - strit)
      if w.length < maxsize then pure (w ++ [NUL]) else .oob w.length
    | some finded =>
      let step := finded - strit
      let w ← rsPutOrigP maxsize w im strit step
      let w ← rsPutOrigP maxsize w rm 0 rm.length
      rsOrigLoopP maxsize im sm rm streit f (strit + step + sm.length) w

def replaceSubstringsOrigP (maxsize : Nat) (input sub rep : Str) : PR Str := do
  -- if (sublen == 0) { len = MIN(maxsize - 1, inlen); memcpy(buffer, input, len); buffer[len] = 0; }  (no return)
  if sub.length = 0 then
    let len := min ((maxsize + 2 ^ 64 - 1) % 2 ^ 64) input.length
    let _ ← rdRange input 0 len
    if len ≥ maxsize then .oob maxsize else pure ()
  rsOrigLoopP maxsize input sub rep input.length (input.length + 1) 0 []

/-! ## join — string.cpp / string.h: iterators are indices into the vector -/

/-- `*iter` -/
def rdV (vec : List Str) (i : Nat) : PR Str :=
  match vec[i]? with
  | some s => .ok s
  | none => .oob i

/-- `for (; iter != preend; iter++) { ret.append(*iter); ret.push_back(delim); }` -/
def joinLoopP (vec : List Str) (delim : Str) (preend : Nat) : Nat → Nat → Str → PR (Nat × Str)
  | 0, _, _ => .fuel
  | f + 1, iter, ret =>
    if iter != preend then do
      let s ← rdV vec iter
      joinLoopP vec delim preend f (iter + 1) (ret ++ s ++ delim)
    else pure (iter, ret)

def joinP (vec : List Str) (delim : Byte) : PR Str :=
  if vec.length = 0 then pure [] else do
  -- preend = vec.end(); iter = vec.begin(); preend--;
  let preend := vec.length - 1
  let (iter, ret) ← joinLoopP vec [delim] preend (vec.length + 1) 0 []
  -- ret.append(*iter);
  let s ← rdV vec iter
  pure (ret ++ s)

/-- `for (unsigned int i = 0; i < tot - 1; ++i) { ret.append(*it++); ret.append(delim); }`
`i` is a 32-bit counter (`++i` wraps), `tot - 1` a `size_t` (`totm1`) -/
def joinFmtLoopP (vec : List Str) (delim : Str) (totm1 : Nat) : Nat → Nat → Nat → Str → PR (Nat × Str)
  | 0, _, _, _ => .fuel
  | f + 1, i, it, ret =>
    if i < totm1 then do
      let s ← rdV vec it
      joinFmtLoopP vec delim totm1 f ((i + 1) % 2 ^ 32) (it + 1) (ret ++ s ++ delim)
    else pure (it, ret)

/-- `tot - 1` for a `size_t`: wraps to 2⁶⁴−1 for 0 -/
def sizeDec (tot : Nat) : Nat := if tot = 0 then 2 ^ 64 - 1 else tot - 1

def joinFmtP (vec : List Str) (delim pre post : Str) : PR Str :=
  let tot := vec.length
  let ret := pre
  -- if (tot == 0) { ret.append(postfix); return ret; }
  if tot = 0 then pure (ret ++ post) else do
  let (it, ret) ← joinFmtLoopP vec delim (sizeDec tot) (vec.length + 1) 0 0 ret
  let s ← rdV vec it
  pure (ret ++ s ++ post)

/-- before 6236ab4: no `tot == 0` guard -/
def joinFmtOrigP (vec : List Str) (delim pre post : Str) : PR Str := do
  let tot := vec.length
  let ret := pre
  let (it, ret) ← joinFmtLoopP vec delim (sizeDec tot) (vec.length + 1) 0 0 ret
  let s ← rdV vec it
  pure (ret ++ s ++ post)

/-! ## argvc_internal_split_n — argvc.h

`m` = the `maxlen` bytes the caller gives, `eptr = maxlen`; `argv` is an array
of `argcmax` slots: the store `argv[argc++] = data` is a fault for
`argc ≥ argcmax`.  Pointers stored in `argv` are indices into `m`. -/

def argvSplitNLoopP (argcmax eptr : Nat) : Nat → Str → Nat → Nat → List Nat → PR ArgvRes
  | 0, _, _, _, _ => .fuel
  | f + 1, m, data, argc, argv => do
    -- while (data != eptr && strchr(ws, *data)) ++data;
    let data ← scanG m eptr (strchrHit wsArgv) (m.length + 1) data
    -- if (data == eptr || *data == '\0' || argc >= argcmax) return argc;
    if data == eptr then pure ⟨argc, argv, m⟩ else
    let c ← rd m data
    if c == NUL || argc ≥ argcmax then pure ⟨argc, argv, m⟩ else
    -- argv[argc++] = data;
    if argc ≥ argcmax then .oob argc else
    let argv := argv ++ [data]
    let argc := argc + 1
    -- while (data != eptr && !strchr(ws, *data)) ++data;
    let data ← scanG m eptr (fun c => !strchrHit wsArgv c) (m.length + 1) data
    -- if (data != eptr && strchr(ws, *data)) { *data++ = '\0'; goto newarg_search; }
    if data != eptr then
      let c2 ← rd m data
      if strchrHit wsArgv c2 then
        let m ← wr m data NUL
        argvSplitNLoopP argcmax eptr f m (data + 1) argc argv
      else pure ⟨argc, argv, m⟩
    else pure ⟨argc, argv, m⟩

def argvSplitNP (data : Str) (argcmax : Nat) : PR ArgvRes :=
  argvSplitNLoopP argcmax data.length (data.length + 1) data 0 0 []

/-- before eff14ad:
`while (strchr(ws, *data) && data != eptr)`, `if (*data == '\0' || argc >= argcmax || data == eptr)`,
`while (!strchr(ws, *data) && data != eptr)`, `if (strchr(ws, *data))` -/
def argvSplitNOrigLoopP (argcmax eptr : Nat) : Nat → Str → Nat → Nat → List Nat → PR ArgvRes
  | 0, _, _, _, _ => .fuel
  | f + 1, m, data, argc, argv => do
    let data ← scanU m eptr (strchrHit wsArgv) (m.length + 2) data
    let c ← rd m data
    if c == NUL || argc ≥ argcmax || data == eptr then pure ⟨argc, argv, m⟩ else
    if argc ≥ argcmax then .oob argc else
    let argv := argv ++ [data]
    let argc := argc + 1
    let data ← scanU m eptr (fun c => !strchrHit wsArgv c) (m.length + 2) data
    let c2 ← rd m data
    if strchrHit wsArgv c2 then
      let m ← wr m data NUL
      argvSplitNOrigLoopP argcmax eptr f m (data + 1) argc argv
    else pure ⟨argc, argv, m⟩

def argvSplitNOrigP (data : Str) (argcmax : Nat) : PR ArgvRes :=
  argvSplitNOrigLoopP argcmax data.length (data.length + 1) data 0 0 []

/-! ## creader_readline — creader.h (`strt = 0`, `fini = mem.length`) -/

/-- `while ((it != *token) && (*(it - 1) == '\r')) --it;` -/
def rewindCRP (mem : Str) (token : Int) : Nat → Int → PR Int
  | 0, _ => .fuel
  | f + 1, it =>
    if it != token then do
      let c ← rdI mem (it - 1)
      if c == CR then rewindCRP mem token f (it - 1) else pure it
    else pure it

def creaderReadlineP (mem : Str) (cursor : Nat) : PR (Int × Nat × Nat) :=
  let fini := mem.length
  -- it = reader->cursor; *token = reader->cursor;
  let token := cursor
  -- if (creader_end(reader)) return -1;
  if cursor == fini then pure (-1, token, cursor) else do
  -- while (it != fini && *it != '\n' && *it != '\0') it++;
  let it ← scanG mem fini (fun c => c != NL && c != NUL) (mem.length + 1) cursor
  if it != fini then
    -- reader->cursor = it + 1;
    let cursor' := it + 1
    -- while ((it != *token) && (*(it - 1) == '\r')) --it;
    let it' ← rewindCRP mem token (mem.length + 1) it
    -- len = it - *token;
    pure (it' - (token : Int), token, cursor')
  else
    -- reader->cursor = it; return it - *token;
    pure ((it : Int) - (token : Int), token, it)

/-- before 6d1ea18: `while (*it != '\n' && *it != '\0' && it != reader->fini) it++;`
(only the scan matters for the witness; what follows is the repaired code) -/
def creaderReadlineOrigP (mem : Str) (cursor : Nat) : PR (Int × Nat × Nat) :=
  let fini := mem.length
  let token := cursor
  if cursor == fini then pure (-1, token, cursor) else do
  let it ← scanU mem fini (fun c => c != NL && c != NUL) (mem.length + 2) cursor
  if it != fini then
    let cursor' := it + 1
    let it' ← rewindCRP mem token (mem.length + 1) it
    pure (it' - (token : Int), token, cursor')
  else
    pure ((it : Int) - (token : Int), token, it)

/-- the harness loop over the pointer-level reader -/
def creaderAllP (mem : Str) : Nat → Nat → PR (List (Nat × Int × Nat) × Bool)
  | 0, _ => pure ([], false)
  | f + 1, cursor => do
    let (len, tok, cur') ← creaderReadlineP mem cursor
    if len < 0 then pure ([], true) else
    let (l, ended) ← creaderAllP mem f cur'
    pure ((tok, len, cur') :: l, ended)

/-! ## path_next / path_iterate — pathops.h

`m` is the whole allocation of the NUL-terminated path (text, terminator and
whatever follows), a `const char *` is an index into it. -/

/-- `*path == '.' && (*(path + 1) == '/' || *(path + 1) == '\0')` -/
def isSingleDotP (m : Str) (path : Nat) : PR Bool := do
  let c ← rd m path
  if c != DOT then pure false else
  let nc ← rd m (path + 1)
  pure (nc == SLASH || nc == NUL)

/-- before 03ab9aa: `char nc = *(path + 1);` came first -/
def isSingleDotOrigP (m : Str) (path : Nat) : PR Bool := do
  let nc ← rd m (path + 1)
  let c ← rd m path
  pure (c == DOT && (nc == SLASH || nc == NUL))

/-- `while (*path == '/' || path_is_single_dot(path)) ++path;` -/
def skipSlashDotsP (m : Str) : Nat → Nat → PR Nat
  | 0, _ => .fuel
  | f + 1, path => do
    let c ← rd m path
    if c == SLASH then skipSlashDotsP m f (path + 1) else
    if (← isSingleDotP m path) then skipSlashDotsP m f (path + 1) else pure path

/-- `while (*end && *end != '/') ++end;` -/
def scanCompP (m : Str) : Nat → Nat → PR Nat
  | 0, _ => .fuel
  | f + 1, e => do
    let c ← rd m e
    if c != NUL && c != SLASH then scanCompP m f (e + 1) else pure e

/-- `path_next(path, &len)` for `path != NULL`: NULL or (returned pointer, `*p_len`) -/
def pathNextP (m : Str) (path : Nat) : PR (Option (Nat × Nat)) := do
  let path ← skipSlashDotsP m (m.length + 1) path
  -- if (!*path) return NULL;
  let c ← rd m path
  if c == NUL then pure none else
  -- end = path; while (*end && *end != '/') ++end; *p_len = end - path;
  let e ← scanCompP m (m.length + 1) path
  pure (some (path, e - path))

/-- `path_iterate(path)` for `path != NULL` -/
def pathIterateP (m : Str) (path : Nat) : PR (Option Nat) := do
  -- if (*path == '\0') return NULL;
  let c ← rd m path
  if c == NUL then pure none else
  if c == SLASH then
    let p ← skipSlashDotsP m (m.length + 1) path
    pure (some p)
  else
    let p ← scanCompP m (m.length + 1) path
    let p ← skipSlashDotsP m (m.length + 1) p
    pure (some p)

/-! ## argvc_internal_split — argvc.h (NUL-terminated; `m` = the whole allocation) -/

/-- `while (*data != '\0') { if (strchr(ws, *data)) ++data; else break; }` -/
def skipWsZP (m : Str) : Nat → Nat → PR Nat
  | 0, _ => .fuel
  | f + 1, data => do
    let c ← rd m data
    if c != NUL then (if strchrHit wsArgv c then skipWsZP m f (data + 1) else pure data) else pure data

/-- `while (!strchr(ws, *data) && *data != '\0') ++data;` -/
def scanTokZP (m : Str) : Nat → Nat → PR Nat
  | 0, _ => .fuel
  | f + 1, data => do
    let c ← rd m data
    if !strchrHit wsArgv c && c != NUL then scanTokZP m f (data + 1) else pure data

def argvSplitLoopP (argcmax : Nat) : Nat → Str → Nat → Nat → List Nat → PR ArgvRes
  | 0, _, _, _, _ => .fuel
  | f + 1, m, data, argc, argv => do
    let data ← skipWsZP m (m.length + 1) data
    -- if (*data == '\0' || argc >= argcmax) return argc;
    let c ← rd m data
    if c == NUL || argc ≥ argcmax then pure ⟨argc, argv, m⟩ else
    -- argv[argc++] = data;   (an array of argcmax slots)
    if argc ≥ argcmax then .oob argc else
    let argv := argv ++ [data]
    let argc := argc + 1
    let data ← scanTokZP m (m.length + 1) data
    -- if (*data == '\0') return argc;
    let c2 ← rd m data
    if c2 == NUL then pure ⟨argc, argv, m⟩ else
    -- if (strchr(ws, *data)) { *data++ = '\0'; continue; }  break;
    if strchrHit wsArgv c2 then
      let m ← wr m data NUL
      argvSplitLoopP argcmax f m (data + 1) argc argv
    else pure ⟨argc, argv, m⟩

/-- `argvc_internal_split(data, argv, argcmax)` -/
def argvSplitP (data : Str) (argcmax : Nat) : PR ArgvRes :=
  argvSplitLoopP argcmax (data.length + 1) data 0 0 []

end Igris.C19
