/-
  C19 — model of the text, path and command-line utilities of igris
  (after the `fix:` commits of branch fix-C19):

    igris/util/string.{h,cpp}        split(char), split(delims), split_cmdargs, join, join<Iter>, trim
    igris/string/replace.cpp         igris::replace
    igris/string/replace_substrings.c, igris/string/memmem.c
    igris/datastruct/argvc.h         argvc_internal_split, argvc_internal_split_n
    igris/shell/mshell.c, rshell.c   mshell_execute, mshell_tables_execute, rshell_execute, rshell_tables_execute
    igris/util/pathops.h             path_next, path_iterate, path_compare_node, path_remove_prefix
    igris/creader.h                  creader_readline

  ## How pointers and extents are modelled

  All these routines walk *forward* through a buffer.  A pointer `p` into a
  buffer `[data, data+size)` is modelled by a **cursor**: the list of the bytes
  from `*p` to the last byte of the extent (`Cur`).  Then

      p == end          is   cur = []
      *p                is   the head of cur — and a FAULT when cur = []
                             (the read at offset `size` that ASan reports on an
                              exactly sized buffer)
      p[1]              is   cur[1]?  (fault when absent)
      ++p               is   the tail
      p - q  (q ≤ p)    is   q.length - p.length
      std::string(q, p - q)   is   `between q p`

  A NUL-terminated C string is modelled by the cursor over its *whole
  allocation* (text, terminator and whatever follows): running past the
  terminator to the end of the allocation is a fault like any other over-read.
  Routines that can fault return `Option`: `none` is "an access outside the
  extent (or the loop fuel ran out — the theorems show neither happens)".
  Loops whose every read is preceded by its own end test cannot fault; they
  are written with `List.dropWhile` (`while (p != end && P(*p)) ++p`).
  The pre-repair loops (`…Orig`) are kept to show where they fault.

  Outer loops that are not structurally recursive get explicit fuel
  (`size + 1` iterations always suffice, see Props).

  libc calls are modelled by their textbook meaning (DESIGN §2):
  `strchr(s,c) != NULL` (`strchrHit`: the terminator belongs to the string, so
  `c = 0` is always found), `strcmp(a,b) == 0` (`cstrAt … = name`), `memchr`,
  `memcmp`, `memcpy`.
-/
import IgrisModel.Common.Proto
namespace Igris.C19
open Igris.Proto

abbrev Cur := List Byte
abbrev Str := List Byte

abbrev NUL : Byte := 0x00#8
abbrev TAB : Byte := 0x09#8
abbrev NL : Byte := 0x0a#8
abbrev CR : Byte := 0x0d#8
abbrev SP : Byte := 0x20#8
abbrev DQ : Byte := 0x22#8
abbrev SQ : Byte := 0x27#8
abbrev DOT : Byte := 0x2e#8
abbrev SLASH : Byte := 0x2f#8

/-- `std::string(strt, ptr - strt)` for `strt ≤ ptr` in the same buffer -/
def between (strt ptr : Cur) : Str := strt.take (strt.length - ptr.length)

/-- libc `strchr(s, c) != NULL`, `s` = the characters of the C string without
its terminator.  The terminator is part of the string: `c = 0` is found. -/
def strchrHit (s : Str) (c : Byte) : Bool := c == NUL || s.contains c

/-! ## igris::split(buffer, char)  — string.cpp -/

/-- the `while (true)` loop; one iteration per token -/
def splitCharLoop (delim : Byte) : Nat → Cur → List Str → Option (List Str)
  | 0, _, _ => none
  | f + 1, ptr, outvec =>
    -- while (ptr != end && *ptr == delim) ptr++;
    let ptr := ptr.dropWhile (· == delim)
    -- if (ptr == end) break;
    if ptr.isEmpty then some outvec else
    let strt := ptr
    -- while (ptr != end && *ptr != delim) ptr++;
    let ptr := ptr.dropWhile (· != delim)
    -- outvec.emplace_back(strt, ptr - strt);
    splitCharLoop delim f ptr (outvec ++ [between strt ptr])

def splitChar (buf : Str) (delim : Byte) : Option (List Str) :=
  splitCharLoop delim (buf.length + 1) buf []

/-- before `fix: split(buffer, char) tests for the end …`:
`while (*ptr == delim) ptr++;` — no end test -/
def skipEqOrig (delim : Byte) : Cur → Option Cur
  | [] => none
  | c :: rest => if c == delim then skipEqOrig delim rest else some (c :: rest)

def splitCharOrigLoop (delim : Byte) : Nat → Cur → List Str → Option (List Str)
  | 0, _, _ => none
  | f + 1, ptr, outvec => do
    let ptr ← skipEqOrig delim ptr
    if ptr.isEmpty then some outvec else
    let strt := ptr
    let ptr := ptr.dropWhile (· != delim)
    splitCharOrigLoop delim f ptr (outvec ++ [between strt ptr])

def splitCharOrig (buf : Str) (delim : Byte) : Option (List Str) :=
  splitCharOrigLoop delim (buf.length + 1) buf []

/-! ## igris::split(buffer, const char* delims) -/

def splitDelimsLoop (delims : Str) : Nat → Cur → List Str → Option (List Str)
  | 0, _, _ => none
  | f + 1, ptr, outvec =>
    -- while (ptr != end && strchr(delims, *ptr) != NULL) ptr++;
    let ptr := ptr.dropWhile (strchrHit delims)
    if ptr.isEmpty then some outvec else
    let strt := ptr
    -- while (ptr != end && strchr(delims, *ptr) == NULL) ptr++;
    let ptr := ptr.dropWhile (fun c => !strchrHit delims c)
    let outvec := outvec ++ [between strt ptr]
    -- if (ptr == end) break;
    if ptr.isEmpty then some outvec else splitDelimsLoop delims f ptr outvec

def splitDelims (buf delims : Str) : Option (List Str) :=
  if buf.length = 0 then some [] else splitDelimsLoop delims (buf.length + 1) buf []

/-! ## igris::join(vector, char) and the iterator-range join of string.h -/

/-- `for (; iter != preend; iter++) { ret.append(*iter); ret.push_back(delim); } ret.append(*iter);`
with a delimiter string (one character for `join(vec, char)`) -/
def joinLoop (delim : Str) : List Str → Str → Str
  | [], ret => ret
  | [last], ret => ret ++ last
  | t :: rest, ret => joinLoop delim rest (ret ++ t ++ delim)

def join (vec : List Str) (delim : Byte) : Str :=
  if vec.length = 0 then [] else joinLoop [delim] vec []

/-- `join(start, end, delim, prefix, postfix)`, with the `tot == 0` guard -/
def joinFmt (vec : List Str) (delim pre post : Str) : Str :=
  let ret := pre
  if vec.length = 0 then ret ++ post else
  joinLoop delim vec ret ++ post

/-! ## igris::trim — string.h -/

def isWsTrim (c : Byte) : Bool := c == SP || c == NL || c == CR || c == TAB

/-- `while (left != right && ws(*right)) --right;`
`right` moves *backwards*: it is represented by the bytes from `*right` down
to `*left` (so `left == right` is "one byte left", `--right` is the tail).
All of them are inside the buffer. -/
def trimBack : List Byte → List Byte
  | [] => []
  | [c] => [c]
  | c :: rest => if isWsTrim c then trimBack rest else c :: rest

def trim (view : Str) : Str :=
  if view.length = 0 then [] else
  -- while (left != end && ws(*left)) ++left;
  let left := view.dropWhile isWsTrim
  -- if (left == end) return "";
  if left.isEmpty then [] else
  -- right = data + size - 1; … ; return std::string(left, right - left + 1)
  (trimBack left.reverse).reverse

/-! ## igris_memmem — memmem.c -/

/-- libc `memchr(l, c, n)` as an offset -/
def memchr (c : Byte) : Cur → Nat → Option Nat
  | [], _ => none
  | x :: rest, off => if x == c then some off else memchr c rest (off + 1)

/-- `for (cur = cl; cur <= last; cur++) if (cur[0] == cs[0] && memcmp(cur, cs, s_len) == 0) return cur;`
`cur <= last` is `cur.length ≥ s_len`: the `s_len` bytes `memcmp` may read
are inside the extent. -/
def memmemLoop (s : Str) : Cur → Nat → Option Nat
  | [], _ => none
  | a :: rest, off =>
    if (a :: rest).length < s.length then none
    else if s.head? == some a && (a :: rest).take s.length == s then some off
    else memmemLoop s rest (off + 1)

/-- result: `none` = NULL, `some off` = `l + off` -/
def memmem (l s : Str) : Option Nat :=
  if l.length = 0 ∨ s.length = 0 then none
  else if l.length < s.length then none
  else if s.length = 1 then memchr (s.headD NUL) l 0
  else memmemLoop s l 0

/-! ## igris::replace — replace.cpp -/

def replaceLoop (sub rep : Str) : Nat → Cur → Str → Option Str
  | 0, _, _ => none
  | f + 1, strit, output =>
    match memmem strit sub with
    | none => some (output ++ strit)                         -- output.append(strit, streit - strit)
    | some step =>
      -- output.append(strit, step); strit += step; output.append(rep); strit += sub.size();
      replaceLoop sub rep f (strit.drop (step + sub.length)) (output ++ strit.take step ++ rep)

def replace (input sub rep : Str) : Option Str :=
  if sub.length = 0 then some input else replaceLoop sub rep (input.length + 1) input []

/-! ## replace_substrings — replace_substrings.c (bounded by `maxsize`) -/

/-- `replace_substrings_put(&bufit, &room, src, len)`: state = (bytes written
from `buffer[0]` on, free bytes) -/
def rsPut (st : Str × Nat) (src : Str) (len : Nat) : Str × Nat :=
  let len := min len st.2
  (st.1 ++ src.take len, st.2 - len)

def rsLoop (sub rep : Str) : Nat → Cur → Str × Nat → Option (Str × Nat)
  | 0, _, _ => none
  | f + 1, strit, st =>
    match memmem strit sub with
    | none => some (rsPut st strit strit.length)
    | some step =>
      rsLoop sub rep f (strit.drop (step + sub.length)) (rsPut (rsPut st strit step) rep rep.length)

/-- the bytes written to `buffer[0], buffer[1], …` (contiguous from 0) -/
def replaceSubstrings (maxsize : Nat) (input sub rep : Str) : Option Str :=
  if maxsize = 0 then some [] else
  let room := maxsize - 1
  if sub.length = 0 then
    let len := min (maxsize - 1) input.length
    some (input.take len ++ [NUL])
  else
    match rsLoop sub rep (input.length + 1) input ([], room) with
    | none => none
    | some st => some (st.1 ++ [NUL])

/-! ## igris::split_cmdargs -/

def cmdargsLoop : Nat → Cur → List Str → Option (List Str)
  | 0, _, _ => none
  | f + 1, ptr, outvec =>
    -- while (ptr != end && *ptr == ' ') ptr++;
    match ptr.dropWhile (· == SP) with
    | [] => some outvec                                   -- if (ptr == end) break;
    | c :: rest =>
      if c == DQ || c == SQ then
        -- delim = *ptr; ptr++; strt = ptr; while (ptr != end && *ptr != delim) ptr++;
        let strt := rest
        let p := rest.dropWhile (· != c)
        let outvec := outvec ++ [between strt p]
        match p with
        | [] => some outvec                               -- if (ptr == end) break;
        | _ :: p' => cmdargsLoop f p' outvec               -- ptr++;
      else
        let strt := c :: rest
        let p := strt.dropWhile (· != SP)
        cmdargsLoop f p (outvec ++ [between strt p])

def splitCmdargs (buf : Str) : Option (List Str) :=
  if buf.length = 0 then some [] else cmdargsLoop (buf.length + 1) buf []

/-! ## argvc_internal_split / argvc_internal_split_n — argvc.h

Result: `argc`, the offsets stored in `argv[0..argc)` and the new contents of
the line (the routines write terminators into it).  A loop function gets the
cursor `data` and returns the pointers it stored as offsets *from that cursor*
and the new contents of *that suffix*; the enclosing iteration adds the
distance it has advanced (at top level the cursor is the line itself). -/

def wsArgv : Str := [SP, CR, NL, TAB]

structure ArgvRes where
  argc : Nat
  argv : List Nat
  mem : Str
deriving DecidableEq, Repr

/-- `while (*data != '\0') { if (strchr(ws, *data)) ++data; else break; }` -/
def skipWsZ : Cur → Option Cur
  | [] => none
  | c :: rest => if c != NUL then (if strchrHit wsArgv c then skipWsZ rest else some (c :: rest)) else some (c :: rest)

/-- `while (!strchr(ws, *data) && *data != '\0') ++data;` -/
def scanTokZ : Cur → Option Cur
  | [] => none
  | c :: rest => if !strchrHit wsArgv c && c != NUL then scanTokZ rest else some (c :: rest)

def argvSplitGo (argcmax : Nat) : Nat → Cur → Nat → Option ArgvRes
  | 0, _, _ => none
  | f + 1, data, argc => do
    let d1 ← skipWsZ data
    let c ← d1.head?
    -- if (*data == '\0' || argc >= argcmax) return argc;
    if c == NUL || argc ≥ argcmax then some ⟨argc, [], data⟩ else
    -- argv[argc++] = data;
    let o1 := data.length - d1.length
    let d2 ← scanTokZ d1
    let c2 ← d2.head?
    -- if (*data == '\0') return argc;
    if c2 == NUL then some ⟨argc + 1, [o1], data⟩ else
    if strchrHit wsArgv c2 then
      -- *data++ = '\0'; continue;
      let k := data.length - d2.length + 1
      let r ← argvSplitGo argcmax f d2.tail (argc + 1)
      some ⟨r.argc, o1 :: r.argv.map (· + k), data.take (k - 1) ++ NUL :: r.mem⟩
    else some ⟨argc + 1, [o1], data⟩                        -- break (unreachable)

/-- `argvc_internal_split(data, argv, argcmax)`; `data` = the whole allocation -/
def argvSplit (data : Str) (argcmax : Nat) : Option ArgvRes :=
  argvSplitGo argcmax (data.length + 1) data 0

def argvSplitNGo (argcmax : Nat) : Nat → Cur → Nat → Option ArgvRes
  | 0, _, _ => none
  | f + 1, data, argc =>
    -- while (data != eptr && strchr(ws, *data)) ++data;
    let d1 := data.dropWhile (strchrHit wsArgv)
    -- if (data == eptr || *data == '\0' || argc >= argcmax) return argc;
    match d1 with
    | [] => some ⟨argc, [], data⟩
    | c :: _ =>
      if c == NUL || argc ≥ argcmax then some ⟨argc, [], data⟩ else
      -- argv[argc++] = data; while (data != eptr && !strchr(ws, *data)) ++data;
      let o1 := data.length - d1.length
      let d2 := d1.dropWhile (fun c => !strchrHit wsArgv c)
      -- if (data != eptr && strchr(ws, *data)) { *data++ = '\0'; goto newarg_search; }
      match d2 with
      | [] => some ⟨argc + 1, [o1], data⟩
      | c2 :: rest2 =>
        if strchrHit wsArgv c2 then
          let k := data.length - d2.length + 1
          match argvSplitNGo argcmax f rest2 (argc + 1) with
          | none => none
          | some r => some ⟨r.argc, o1 :: r.argv.map (· + k), data.take (k - 1) ++ NUL :: r.mem⟩
        else some ⟨argc + 1, [o1], data⟩

/-- `argvc_internal_split_n(data, maxlen, argv, argcmax)` on exactly `maxlen` bytes -/
def argvSplitN (data : Str) (argcmax : Nat) : Option ArgvRes :=
  argvSplitNGo argcmax (data.length + 1) data 0

/-- the C string at offset `off` of `mem` (`strlen`/`strcmp`/handler reads):
a fault if no terminator follows inside `mem` -/
def cstrAt (mem : Str) (off : Nat) : Option Str :=
  let s := mem.drop off
  if s.contains NUL then some (s.takeWhile (· != NUL)) else none

/-- the same, but bounded by the extent (tokens of the `_n` variant: the last
one may end at `data + maxlen` without terminator) -/
def cstrAtN (mem : Str) (off : Nat) : Str := (mem.drop off).takeWhile (· != NUL)

/-! ## shell dispatchers — mshell.c / rshell.c -/

abbrev ENOENT : Int := 2
abbrev SSHELL_ARGCMAX : Nat := 10

/-- what a dispatcher does: return code, and the handler call if any
(global handler index, argc given to the handler, the argument strings) -/
structure Dispatch where
  rc : Int
  call : Option (Nat × Int × List Str)
deriving DecidableEq, Repr

/-- `argv[i]` read as C strings from the line after splitting -/
def argStrings (mem : Str) : List Nat → Option (List Str)
  | [] => some []
  | o :: os => do
    let s ← cstrAt mem o
    let r ← argStrings mem os
    some (s :: r)

/-- `while (it->func != NULL) { if (!strcmp(argv[0], it->name)) … ++it; }`
returns the index of the first entry whose name equals `a0` -/
def findCmd (a0 : Str) : List Str → Nat → Option Nat
  | [], _ => none
  | name :: rest, k => if name == a0 then some k else findCmd a0 rest (k + 1)

/-- tables of `mshell_tables_execute`: handler index = `4 * table + entry`
(the numbering the harness uses) -/
def findCmdTables (a0 : Str) : List (List Str × Nat) → Nat → Option (Nat × Nat)
  | [], _ => none
  | (tbl, drop) :: rest, t =>
    match findCmd a0 tbl 0 with
    | some k => some (4 * t + k, drop)
    | none => findCmdTables a0 rest (t + 1)

/-- common part: split the line, look `argv[0]` up, call.
`rcEmpty` — return value for `*str == '\0'` and for `argc == 0`. -/
def shellExecute (rcEmpty : Int) (str : Str) (tables : List (List Str × Nat)) : Option Dispatch := do
  -- if (*str == '\0') return …;
  let c ← str.head?
  if c == NUL then some ⟨rcEmpty, none⟩ else
  -- argc = argvc_internal_split(str, argv, SSHELL_ARGCMAX);
  let r ← argvSplit str SSHELL_ARGCMAX
  -- if (argc == 0) return …;
  if r.argc = 0 then some ⟨rcEmpty, none⟩ else
  let args ← argStrings r.mem r.argv
  match args with
  | [] => none
  | a0 :: _ =>
    match findCmdTables a0 tables 0 with
    | none => some ⟨ENOENT, none⟩
    | some (k, drop) =>
      -- res = it->func(argc - dropargs, argv + dropargs, …); return SSHELL_OK;
      some ⟨0, some (k, (r.argc : Int) - drop, args.drop drop)⟩

/-- before `fix: mshell_execute … return ENOENT for a blank line` (and the
rshell twin): no `argc == 0` test, `argv[0]` is read although nothing was
stored there — modelled as a fault -/
def shellExecuteOrig (rcEmpty : Int) (str : Str) (tables : List (List Str × Nat)) : Option Dispatch := do
  let c ← str.head?
  if c == NUL then some ⟨rcEmpty, none⟩ else
  let r ← argvSplit str SSHELL_ARGCMAX
  let args ← argStrings r.mem r.argv
  match args with
  | [] => none                                           -- strcmp(argv[0], …) with argv[0] never written
  | a0 :: _ =>
    match findCmdTables a0 tables 0 with
    | none => some ⟨ENOENT, none⟩
    | some (k, drop) => some ⟨0, some (k, (r.argc : Int) - drop, args.drop drop)⟩

def mshellExecute (str : Str) (table : List Str) : Option Dispatch :=
  shellExecute ENOENT str [(table, 0)]
def mshellTablesExecute (str : Str) (tables : List (List Str)) : Option Dispatch :=
  shellExecute ENOENT str (tables.map fun t => (t, 0))
def rshellExecute (str : Str) (table : List Str) (dropargs : Nat) : Option Dispatch :=
  shellExecute 0 str [(table, dropargs)]
def rshellTablesExecute (str : Str) (tables : List (List Str × Nat)) : Option Dispatch :=
  shellExecute 0 str tables

/-! ## path helpers — pathops.h (NUL-terminated) -/

/-- `*path == '.' && (path[1] == '/' || path[1] == '\0')` -/
def isSingleDot (path : Cur) : Option Bool :=
  match path with
  | [] => none
  | c :: rest =>
    if c != DOT then some false else
    match rest with
    | [] => none
    | nc :: _ => some (nc == SLASH || nc == NUL)

/-- before `fix: path_is_single_dot reads path[1] only after path[0] == '.'`:
`char nc = *(path + 1);` came first -/
def isSingleDotOrig (path : Cur) : Option Bool :=
  match path with
  | [] => none
  | c :: rest =>
    match rest with
    | [] => none
    | nc :: _ => some (c == DOT && (nc == SLASH || nc == NUL))

/-- `while (*path == '/' || path_is_single_dot(path)) ++path;` -/
def skipSlashDots : Cur → Option Cur
  | [] => none
  | c :: rest =>
    if c == SLASH then skipSlashDots rest else
    match isSingleDot (c :: rest) with
    | none => none
    | some true => skipSlashDots rest
    | some false => some (c :: rest)

/-- `while (*end && *end != '/') ++end;` -/
def scanComp : Cur → Option Cur
  | [] => none
  | c :: rest => if c != NUL && c != SLASH then scanComp rest else some (c :: rest)

/-- `path_next(path, &len)` for `path != NULL`: `none` = fault, `some none` =
NULL, `some (some (off, len))` = `path + off`, `*p_len = len` -/
def pathNext (path : Cur) : Option (Option (Nat × Nat)) := do
  let p ← skipSlashDots path
  let c ← p.head?
  if c == NUL then some none else
  let e ← scanComp p
  some (some (path.length - p.length, p.length - e.length))

/-- `path_iterate(path)` for `path != NULL`: the returned cursor or NULL -/
def pathIterate (path : Cur) : Option (Option Cur) := do
  let c ← path.head?
  if c == NUL then some none else
  if c == SLASH then
    let p ← skipSlashDots path
    some (some p)
  else
    let p ← scanComp path
    let p ← skipSlashDots p
    some (some p)

/-- `path_compare_node(a, b)`; `*a < *b` compares `char`s (signed) -/
def compareNode : Cur → Cur → Option Int
  | [], _ => none
  | ca :: ra, b =>
    if ca != NUL && ca != SLASH then
      match b with
      | [] => none
      | cb :: rb =>
        if cb != NUL && cb != SLASH then
          if ca == cb then compareNode ra rb else some (if ca.slt cb then -1 else 1)
        else some 1
    else
      match b with
      | [] => none
      | cb :: _ => if cb == NUL || cb == SLASH then some 0 else some (-1)

def removePrefixLoop : Nat → Cur → Cur → Option Cur
  | 0, _, _ => none
  | f + 1, path, pre => do
    -- while (*prefix != 0 || *path != 0)
    let cp ← pre.head?
    let continue_ ← (if cp != NUL then some true else do let c ← path.head?; some (c != NUL))
    if !continue_ then some path else
    let cmp ← compareNode path pre
    if cmp == 0 then
      -- if (*path == 0 || *prefix == 0) break;
      let c ← path.head?
      if c == NUL || cp == NUL then some path else
      match (← pathIterate path), (← pathIterate pre) with
      | some p', some q' => removePrefixLoop f p' q'
      | _, _ => none                                     -- NULL would be dereferenced
    else some path

/-- `path_remove_prefix(path, prefix)`: the returned cursor into `path` -/
def pathRemovePrefix (path pre : Cur) : Option Cur :=
  removePrefixLoop (path.length + pre.length + 1) path pre

/-! ## creader_readline — creader.h -/

/-- `while ((it != *token) && (*(it - 1) == '\r')) --it;` on offsets -/
def rewindCR (mem : Str) (token : Nat) : Nat → Option Nat
  | 0 => if token = 0 then some 0 else none
  | it + 1 =>
    if it + 1 = token then some (it + 1) else
    match mem[it]? with
    | none => none
    | some c => if c == CR then rewindCR mem token it else some (it + 1)

/-- one call on a reader over `mem` (`strt = 0`, `fini = mem.length`) with the
given cursor: returns (`len`, offset of `*token`, new cursor) -/
def creaderReadline (mem : Str) (cursor : Nat) : Option (Int × Nat × Nat) :=
  let cur := mem.drop cursor
  -- if (creader_end(reader)) return -1;
  if cur.isEmpty then some (-1, cursor, cursor) else
  -- while (it != fini && *it != '\n' && *it != '\0') it++;
  let rest := cur.dropWhile (fun c => c != NL && c != NUL)
  let it := mem.length - rest.length
  if !rest.isEmpty then
    -- reader->cursor = it + 1; then step back over '\r'
    match rewindCR mem cursor it with
    | none => none
    | some it' => some ((it' : Int) - cursor, cursor, it + 1)
  else
    -- reader->cursor = it; return it - *token;
    some ((it : Int) - cursor, cursor, it)

/-- the harness loop: call until -1, at most `fuel` times;
`none` in the list position = the loop did not end -/
def creaderAll (mem : Str) : Nat → Nat → Option (List (Nat × Int × Nat) × Bool)
  | 0, _ => some ([], false)
  | f + 1, cursor =>
    match creaderReadline mem cursor with
    | none => none
    | some (len, tok, cur') =>
      if len < 0 then some ([], true) else
      match creaderAll mem f cur' with
      | none => none
      | some (l, ended) => some ((tok, len, cur') :: l, ended)

end Igris.C19
