/-
  C19 (extension) — reference definitions for the routines of Model2.lean.
  Core Lean only.
-/
import IgrisModel.C19.Model2
import IgrisModel.C19.Spec
namespace Igris.C19
open Igris.Proto

/-- what stands behind the last `sep` of `s` (all of `s` when there is none) -/
def lastSeg (sep : Byte) (s : Str) : Str := (s.reverse.takeWhile (· != sep)).reverse

/-- value of an upper-case hexadecimal digit -/
def unhexD (c : Byte) : Option Byte :=
  if 0x30 ≤ c.toNat ∧ c.toNat ≤ 0x39 then some (c - 0x30#8)
  else if 0x41 ≤ c.toNat ∧ c.toNat ≤ 0x46 then some (c - 0x37#8)
  else none

/-- reader of the dstring notation: a backslash introduces `\\`, `\n`, `\t` or
`\xHH`; every other character stands for itself; anything else is rejected -/
def decodeD : Nat → Str → Option Str
  | 0, _ => none
  | _ + 1, [] => some []
  | f + 1, c :: rest =>
    if c != BSL then (decodeD f rest).map (c :: ·) else
    match rest with
    | [] => none
    | k :: rest' =>
      if k == BSL then (decodeD f rest').map (BSL :: ·)
      else if k == LN then (decodeD f rest').map (NL :: ·)
      else if k == LT then (decodeD f rest').map (TAB :: ·)
      else if k == LX then
        match rest' with
        | h :: l :: rest'' =>
          match unhexD h, unhexD l with
          | some hv, some lv => (decodeD f rest'').map ((hv <<< 4 ||| lv) :: ·)
          | _, _ => none
        | _ => none
      else none

/-- the reader on a whole text (fuel: its length + 1) -/
def undstring (e : Str) : Option Str := decodeD (e.length + 1) e

/-- the help text of a table: per entry `name`, then `" - " help` when the
entry has a help string, then CR LF -/
def helpLine (e : HelpEntry) : Str :=
  e.1 ++ (match e.2 with | some h => SEP3 ++ h | none => []) ++ CRLF

def helpText (t : List HelpEntry) : Str := (t.map helpLine).flatten

def helpTextTables (ts : List (List HelpEntry)) : Str := (ts.map helpText).flatten

end Igris.C19
