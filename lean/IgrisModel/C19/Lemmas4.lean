/- C19 round 3: helper lemmas (fast evaluation = model; the 32-bit counter of join<Iter>) -/
import IgrisModel.C19.Model3
import IgrisModel.C19.LemmasPtr
namespace Igris.C19
open Igris.Proto

theorem memmemLoopF_eq (s : Str) : ∀ (cur : Cur) (off : Nat),
    memmemLoopF s s.length cur cur.length off = memmemLoop s cur off := by
  intro cur
  induction cur with
  | nil => intro off; simp [memmemLoopF, memmemLoop]
  | cons a rest ih =>
    intro off
    simp only [memmemLoopF, memmemLoop, List.length_cons, Nat.add_sub_cancel]
    rw [ih]

theorem memmemF_eq' (l s : Str) : memmemF l s = memmem l s := by
  unfold memmemF memmem
  rw [memmemLoopF_eq]

theorem memmemF_fun : memmemF = memmem := by
  funext l s; exact memmemF_eq' l s

theorem replaceLoopF_eq (sub rep : Str) : ∀ (f : Nat) (strit : Cur) (out : Str),
    replaceLoopF sub rep f strit out = replaceLoop sub rep f strit out := by
  intro f
  induction f with
  | zero => intro _ _; rfl
  | succ f ih =>
    intro strit out
    simp only [replaceLoopF, replaceLoop, memmemF_fun]
    cases memmem strit sub with
    | none => rfl
    | some step => exact ih _ _

theorem rsLoopF_eq (sub rep : Str) : ∀ (f : Nat) (strit : Cur) (st : Str × Nat),
    rsLoopF sub rep f strit st = rsLoop sub rep f strit st := by
  intro f
  induction f with
  | zero => intro _ _; rfl
  | succ f ih =>
    intro strit st
    simp only [rsLoopF, rsLoop, memmemF_fun]
    cases memmem strit sub with
    | none => rfl
    | some step => exact ih _ _

end Igris.C19
