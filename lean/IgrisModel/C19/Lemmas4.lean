/- C19 round 3: helper lemmas (fast evaluation = model; the 32-bit counter of join<Iter>) -/
import IgrisModel.C19.Model3
import IgrisModel.C19.LemmasPtr
namespace Igris.C19
open Igris.Proto

theorem memmemLoopF_eq (s : Str) : ∀ (cur : Cur) (off : Nat),
    memmemLoopF s s.length cur cur.length off = memmemLoop s cur off := by
  intro cur
  induction cur with
  | nil => intro off; simp [memmemLoopF, memmemLoop]
  | cons a rest ih =>
    intro off
    simp only [memmemLoopF, memmemLoop, List.length_cons, Nat.add_sub_cancel]
    rw [ih]

theorem memmemF_eq' (l s : Str) : memmemF l s = memmem l s := by
  unfold memmemF memmem
  rw [memmemLoopF_eq]

theorem memmemF_fun : memmemF = memmem := by
  funext l s; exact memmemF_eq' l s

theorem replaceLoopF_eq (sub rep : Str) : ∀ (f : Nat) (strit : Cur) (out : Str),
    replaceLoopF sub rep f strit out = replaceLoop sub rep f strit out := by
  intro f
  induction f with
  | zero => intro _ _; rfl
  | succ f ih =>
    intro strit out
    simp only [replaceLoopF, replaceLoop, memmemF_fun]
    cases memmem strit sub with
    | none => rfl
    | some step => exact ih _ _

theorem rsLoopF_eq (sub rep : Str) : ∀ (f : Nat) (strit : Cur) (st : Str × Nat),
    rsLoopF sub rep f strit st = rsLoop sub rep f strit st := by
  intro f
  induction f with
  | zero => intro _ _; rfl
  | succ f ih =>
    intro strit st
    simp only [rsLoopF, rsLoop, memmemF_fun]
    cases memmem strit sub with
    | none => rfl
    | some step => exact ih _ _


/-! ## the 32-bit counter of the iterator-range `join` -/

/-- once `tot - 1 ≥ 2³²` the test `i < tot - 1` is true for every value the wrapping counter
can take: the loop only stops by reading `*it` behind the last element -/
theorem joinFmtLoopP_overrun (vec : List Str) (delim : Str) (totm1 : Nat) (h : 2 ^ 32 ≤ totm1) :
    ∀ (f i it : Nat) (ret : Str), i < 2 ^ 32 → it ≤ vec.length → vec.length - it < f →
      joinFmtLoopP vec delim totm1 f i it ret = .oob vec.length := by
  intro f
  induction f with
  | zero => intro i it ret _ _ hf; omega
  | succ f ih =>
    intro i it ret hi hit hf
    unfold joinFmtLoopP
    rw [if_pos (by omega)]
    by_cases he : it = vec.length
    · subst he
      simp [rdV]
    · have hlt : it < vec.length := by omega
      rw [rdV_lt vec it hlt]
      simp only [PR.ok_bind]
      exact ih _ _ _ (Nat.mod_lt _ (by decide)) (by omega) (by omega)

theorem joinFmtP_overrun' (vec : List Str) (delim pre post : Str) (h : 2 ^ 32 < vec.length) :
    joinFmtP vec delim pre post = .oob vec.length := by
  unfold joinFmtP
  have h0 : vec.length ≠ 0 := by omega
  simp only []
  rw [if_neg h0]
  have hsd : sizeDec vec.length = vec.length - 1 := by simp [sizeDec, h0]
  rw [hsd, joinFmtLoopP_overrun vec delim (vec.length - 1) (by omega) (vec.length + 1) 0 0 pre (by decide) (by omega) (by omega)]
  rfl

end Igris.C19
