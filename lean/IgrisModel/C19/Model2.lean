/-
  C19 (extension) — model of the remaining routines of the anchored files
  (after the `fix:` commits of branch fix-C19).  Core Lean only.

    igris/util/pathops.h     path_is_abs, path_is_simple, path_is_double_dot, path_last_node,
                             path_next(path, NULL)
    igris/creader.h          creader_skip, creader_skipws
    igris/buffer.h           operator==/!= (buffer), operator==/!= (const char*), the constructors' sizes
    igris/util/string.cpp    dstring (and its twins in util/dstring.h, util/dstring.c)
    igris/shell/mshell.c     mshell_help, mshell_tables_help
    igris/shell/rshell.c     rshell_help, rshell_tables_help, rshell_execute_v called directly
    igris/datastruct/argvc.h argvc_length_of_first

  Pointer model as in Model.lean: a forward pointer is the cursor over the
  rest of the allocation, a read on `[]` is the fault.  `path_last_node` walks
  backwards: offsets and `mem[i]?` (an offset below 0 cannot be formed: the
  `0` case of the loop is the read of `path[-1]`).
-/
import IgrisModel.C19.Model
namespace Igris.C19
open Igris.Proto

abbrev BSL : Byte := 0x5c#8
abbrev LN : Byte := 0x6e#8   -- 'n'
abbrev LT : Byte := 0x74#8   -- 't'
abbrev LX : Byte := 0x78#8   -- 'x'

/-! ## pathops.h: predicates -/

/-- `return path[0] == '/';` -/
def pathIsAbs (path : Cur) : Option Bool := do
  let c ← path.head?
  some (c == SLASH)

/-- `while ((c = *path++)) if (c == '/') return false;  return true;` -/
def pathIsSimple : Cur → Option Bool
  | [] => none
  | c :: rest => if c != NUL then (if c == SLASH then some false else pathIsSimple rest) else some true

/-- `*path == '.' && *(path + 1) == '.' && (*(path + 2) == '/' || *(path + 2) == '\0')`
(short-circuit: `path[1]` is read only after `path[0] == '.'`, `path[2]` only
after `path[1] == '.'`) -/
def pathIsDoubleDot (path : Cur) : Option Bool :=
  match path with
  | [] => none
  | c0 :: r0 =>
    if c0 != DOT then some false else
    match r0 with
    | [] => none
    | c1 :: r1 =>
      if c1 != DOT then some false else
      match r1 with
      | [] => none
      | c2 :: _ => some (c2 == SLASH || c2 == NUL)

/-! ## path_last_node -/

/-- libc `strlen`: a fault when no terminator lies inside the extent -/
def strlenZ : Cur → Option Nat
  | [] => none
  | c :: rest => if c == NUL then some 0 else (strlenZ rest).map (· + 1)

/-- `do { --it; } while (*it != sep && it != path);`  `it` is an offset from
`path`; the argument is its value *before* the decrement.  `--it` at offset 0
is `path - 1`: the read of `*it` is then outside the extent. -/
def lastNodeBack (sep : Byte) (mem : Str) : Nat → Option Nat
  | 0 => none
  | it + 1 =>
    match mem[it]? with
    | none => none
    | some c => if c != sep && it != 0 then lastNodeBack sep mem it else some it

/-- `path_last_node` with the separator as a parameter (the code: `'\\'`);
result = offset of the returned pointer.  First line = the repair
(`fix: path_last_node("") …`). -/
def pathLastNodeSep (sep : Byte) (path : Cur) : Option Nat := do
  let c0 ← path.head?
  if c0 == NUL then some 0 else
  let n ← strlenZ path
  let it ← lastNodeBack sep path n
  let c ← path[it]?
  -- if (*it == sep) it++;
  some (if c == sep then it + 1 else it)

def pathLastNode (path : Cur) : Option Nat := pathLastNodeSep BSL path

/-- before the repair: no test for the empty path -/
def pathLastNodeOrig (path : Cur) : Option Nat := do
  let n ← strlenZ path
  let it ← lastNodeBack BSL path n
  let c ← path[it]?
  some (if c == BSL then it + 1 else it)

/-- `path_next(path, NULL)`: like `path_next(path, &len)` without the scan for
the end of the component -/
def pathNextNoLen (path : Cur) : Option (Option Nat) := do
  let p ← skipSlashDots path
  let c ← p.head?
  if c == NUL then some none else some (some (path.length - p.length))

/-! ## argvc_length_of_first — argvc.h -/

/-- `while (*str != ' ' && *str != '\0') ++str; return str - strt;` -/
def lengthOfFirst : Cur → Option Nat
  | [] => none
  | c :: rest => if c != SP && c != NUL then (lengthOfFirst rest).map (· + 1) else some 0

/-! ## creader_skip / creader_skipws — creader.h -/

/-- `for (s = symbols; *s != 0; ++s) if (*cursor == *s) { found = 1; break; }` -/
def skipFound (c : Byte) : Cur → Option Bool
  | [] => none
  | s :: rest => if s != NUL then (if c == s then some true else skipFound c rest) else some false

/-- the `while (reader->cursor != reader->fini)` loop: (count, cursor) -/
def creaderSkipLoop (symbols : Cur) : Cur → Nat → Option (Nat × Cur)
  | [], count => some (count, [])
  | c :: rest, count =>
    match skipFound c symbols with
    | none => none
    | some true => creaderSkipLoop symbols rest (count + 1)
    | some false => some (count, c :: rest)

/-- `creader_skip(reader, symbols)` on a reader whose unread part is `cur`;
`symbols` = the whole allocation of the C string -/
def creaderSkip (cur : Cur) (symbols : Cur) : Option (Nat × Cur) := creaderSkipLoop symbols cur 0

/-- `creader_skipws`: `creader_skip(reader, "\t\n\r ")` -/
def creaderSkipws (cur : Cur) : Option (Nat × Cur) := creaderSkip cur [TAB, NL, CR, SP, NUL]

/-! ## igris::buffer — buffer.h -/

/-- libc `strncmp(a, b, n) == 0` on two extents: the bytes are compared as
long as they are equal, not NUL and fewer than `n`; a read outside an extent
is a fault -/
def strncmpEq : Cur → Cur → Nat → Option Bool
  | _, _, 0 => some true
  | [], _, _ + 1 => none
  | _ :: _, [], _ + 1 => none
  | x :: a, y :: b, n + 1 =>
    if x != y then some false else if x == NUL then some true else strncmpEq a b n

/-- libc `memcmp(a, b, n) == 0` -/
def memcmpEq (a b : Cur) (n : Nat) : Option Bool :=
  if a.length < n ∨ b.length < n then none else some (a.take n == b.take n)

/-- `buffer::operator==(const buffer&)` after `fix: buffer == compares all the
bytes`: `sz == other.sz && (sz == 0 || memcmp(buf, other.buf, sz) == 0)` -/
def bufEq (a b : Str) : Option Bool :=
  if a.length != b.length then some false else
  if a.length == 0 then some true else memcmpEq a b a.length

/-- `operator!=`: `sz != other.sz || (sz != 0 && memcmp(…) != 0)` -/
def bufNe (a b : Str) : Option Bool :=
  if a.length != b.length then some true else
  if a.length == 0 then some false else (memcmpEq a b a.length).map (!·)

/-- before the repair: `(sz == other.sz) && strncmp(buf, other.buf, min(sz, other.sz)) == 0` -/
def bufEqOrig (a b : Str) : Option Bool :=
  if a.length != b.length then some false else strncmpEq a b (min a.length b.length)

/-- `buffer::operator==(const char *str)`: `strncmp(buf, str, sz) == 0`
(`a` = exactly the `sz` bytes of the buffer, `str` = allocation of the C string) -/
def bufEqZ (a : Str) (str : Cur) : Option Bool := strncmpEq a str a.length

def bufNeZ (a : Str) (str : Cur) : Option Bool := (strncmpEq a str a.length).map (!·)

/-- which constructor `igris::buffer(x)` selects and the size it records:
a string literal and a `const char[N]` go to `buffer(const char*)` (`strlen`),
a non-const `char[N]` goes to the array template (`N`, terminator and
everything behind it included).  `n` = array size, `text` = its contents. -/
def bufCtorSize (isConstArray : Bool) (arr : Str) : Option Nat :=
  if isConstArray then strlenZ arr else some arr.length

/-! ## dstring — string.cpp (twins: util/dstring.h, bytes_to_dstring in util/dstring.c) -/

/-- `isprint` in the "C" locale (and `igris_isprint`): 0x20 … 0x7e.  For a
negative `char` glibc's table gives 0 as well. -/
def isPrint (c : Byte) : Bool := 0x20 ≤ c.toNat && c.toNat ≤ 0x7e

/-- `half2hex(n)`: `n < 10 ? '0' + n : 'A' - 10 + n` -/
def half2hex (n : Byte) : Byte := if n.toNat < 10 then 0x30#8 + n else 0x37#8 + n

/-- one iteration of the loop.  After `fix: dstring escapes the backslash` the
test for `'\\'` comes first (it was behind `isprint`, which holds for a
backslash: the escape branch could not be reached). -/
def dstringByte (c : Byte) : Str :=
  if c == BSL then [BSL, BSL]
  else if isPrint c then [c]
  else if c == NL then [BSL, LN]
  else if c == TAB then [BSL, LT]
  else [BSL, LX, half2hex ((c &&& 0xF0#8) >>> 4), half2hex (c &&& 0x0F#8)]

def dstring : Str → Str
  | [] => []
  | c :: rest => dstringByte c ++ dstring rest

/-- before the repair: `isprint` first -/
def dstringByteOrig (c : Byte) : Str :=
  if isPrint c then [c]
  else if c == NL then [BSL, LN]
  else if c == TAB then [BSL, LT]
  else if c == BSL then [BSL, BSL]
  else [BSL, LX, half2hex ((c &&& 0xF0#8) >>> 4), half2hex (c &&& 0x0F#8)]

def dstringOrig : Str → Str
  | [] => []
  | c :: rest => dstringByteOrig c ++ dstringOrig rest

/-! ## help texts — mshell.c / rshell.c

A table entry is (name, optional help).  `mshell_help` calls `write` for every
piece: the model returns the list of pieces in call order. -/

abbrev HelpEntry := Str × Option Str

def SEP3 : Str := [SP, 0x2d#8, SP]     -- " - "
def CRLF : Str := [CR, NL]

/-- `mshell_help`: the `write` calls of one table -/
def mshellHelp : List HelpEntry → List Str
  | [] => []
  | (name, help) :: rest =>
    ([name] ++ (match help with | some h => [SEP3, h] | none => []) ++ [CRLF]) ++ mshellHelp rest

def mshellTablesHelp : List (List HelpEntry) → List Str
  | [] => []
  | t :: rest => mshellHelp t ++ mshellTablesHelp rest

/-- `memcpy(ans + len, src, l = __MIN__((int)strlen(src), ansmax - len - 1)); len += l;`
`out` = the bytes `ans[0 .. len)` written so far (contiguous from `ans`).
`ansmax - len - 1` is an `int`; it is ≥ 0 whenever `ansmax ≥ 1` (invariant
`len ≤ ansmax - 1`), so natural subtraction is exact there. -/
def helpPut (ansmax : Nat) (out : Str) (src : Str) : Str :=
  out ++ src.take (min src.length (ansmax - out.length - 1))

def rshellHelpLoop (ansmax : Nat) : List HelpEntry → Str → Str
  | [], out => out
  | (name, help) :: rest, out =>
    let out := helpPut ansmax out name
    let out := match help with
      | some h => helpPut ansmax (helpPut ansmax out SEP3) h
      | none => out
    let out := helpPut ansmax out CRLF
    rshellHelpLoop ansmax rest out

/-- `rshell_help(cmdtable, ans, ansmax)`: (returned length, bytes written from
`ans[0]` on — the text and its terminator).  `ansmax ≤ 0`: nothing is written
(`fix: rshell_help … ansmax`; before it `memcpy` got the length -1). -/
def rshellHelp (table : List HelpEntry) (ansmax : Int) : Nat × Str :=
  if ansmax ≤ 0 then (0, []) else
  let out := rshellHelpLoop ansmax.toNat table []
  (out.length, out ++ [NUL])

/-- `rshell_tables_help`: `len += rshell_help(tit->table, ans + len, ansmax - len - 1);`
then `ans[len] = 0`.  The inner terminators are overwritten by the next table
or by the final one, so the bytes written are `out ++ [NUL]`. -/
def rshellTablesHelpLoop (ansmax : Int) : List (List HelpEntry) → Str → Str
  | [], out => out
  | t :: rest, out =>
    let r := rshellHelp t (ansmax - out.length - 1)
    rshellTablesHelpLoop ansmax rest (out ++ r.2.take r.1)

def rshellTablesHelp (tables : List (List HelpEntry)) (ansmax : Int) : Nat × Str :=
  if ansmax ≤ 0 then (0, []) else
  let out := rshellTablesHelpLoop ansmax tables []
  (out.length, out ++ [NUL])

/-! ## rshell_execute_v called directly (argv given by the caller, `argc ≥ 1`) -/

/-- `argv` = the argument strings (`argc = argv.length ≥ 1`; with `argc = 0`
the routine reads `argv[0]`, an element the caller never provided: fault) -/
def rshellExecuteV (argv : List Str) (table : List Str) (dropargs : Nat) : Option Dispatch :=
  match argv with
  | [] => none
  | a0 :: _ =>
    match findCmd a0 table 0 with
    | none => some ⟨ENOENT, none⟩
    | some k => some ⟨0, some (k, (argv.length : Int) - dropargs, argv.drop dropargs)⟩

end Igris.C19
