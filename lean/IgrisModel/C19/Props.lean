/-
  C19 — PROPERTY THEOREMS.

  Property: "Text, path and command-line utilities match their definitions and
  stay in bounds.  For every input, split returns exactly the maximal runs of
  non-delimiter characters in order, join is its inverse on such token lists,
  trim removes exactly the leading and trailing white space, replace performs
  left-to-right non-overlapping substitution and igris_memmem finds the first
  occurrence or none.  The argv splitter and the shell dispatchers tokenise on
  white space, never produce more than the allowed arguments, invoke the
  handler of the first token if and only if it names a command, and tolerate
  empty and blank lines.  Path helpers (next, iterate, compare_node,
  remove_prefix) agree with a component-wise reference, and none of these
  routines reads or writes outside the extent of the buffers it is given."

  Model: Model.lean (the code after the fix-C19 repairs).  Specifications:
  Spec.lean.  "Stays in bounds" is part of every `… = some …` statement: the
  model functions return `none` on an access outside the extent they are given
  (see the header of Model.lean), so equality with `some spec` says at once
  "no fault, enough fuel, and this value".
-/
import IgrisModel.C19.Lemmas
import IgrisModel.C19.Lemmas2
import IgrisModel.C19.LemmasPtr
import IgrisModel.C19.Lemmas3
import IgrisModel.C19.Lemmas4
import IgrisModel.C19.Lemmas5
import IgrisModel.C19.Lemmas6
namespace Igris.C19
open Igris.Proto

/-! ## split -/

/-- `split(buf, delim)`: for every buffer (any bytes, any length, not
terminated) exactly the maximal runs of characters `≠ delim`, and no access
outside the buffer -/
theorem splitChar_eq_runs (buf : Str) (delim : Byte) :
    splitChar buf delim = some (runs (· == delim) buf) := by
  unfold splitChar
  rw [splitCharLoop_eq delim _ buf [] (by omega)]
  simp

/-- the tokens `runs` produces are non-empty and free of delimiters … -/
theorem runs_tokens (d : Byte → Bool) (s : Str) :
    ∀ t ∈ runs d s, t ≠ [] ∧ ∀ c ∈ t, d c = false :=
  runsGo_tokens d s [] (by simp)

/-- … and together they are exactly the non-delimiter characters of the
input, in order (nothing lost, nothing invented, nothing reordered) -/
theorem runs_flatten (d : Byte → Bool) (s : Str) :
    (runs d s).flatten = s.filter (fun c => !d c) := by
  simpa [runs] using runsGo_flatten d s []

/-- `split(buf, delims)` as the code is: NUL is a delimiter too, whatever
`delims` says (`strchr(delims, 0)` finds the terminator of `delims`).
Holds for every buffer; no access outside the buffer. -/
theorem splitDelims_eq_runs_with_nul (buf delims : Str) :
    splitDelims buf delims = some (runs (fun c => c == NUL || delims.contains c) buf) := by
  unfold splitDelims
  split
  · rename_i h
    have : buf = [] := List.eq_nil_of_length_eq_zero h
    subst this; rfl
  · rw [splitDelimsLoop_eq delims _ buf [] (by omega)]
    simp only [List.nil_append]
    rfl

/-
  FULL STATEMENT (false on the tree, see `splitDelims_nul_witness`):
     ∀ buf delims, splitDelims buf delims = some (runs (fun c => delims.contains c) buf)
  Proved part: buffers without NUL.   Recorded finding: C19-split-delims-nul.
-/
theorem splitDelims_eq_runs_partial (buf delims : Str) (h : NUL ∉ buf) :
    splitDelims buf delims = some (runs (fun c => delims.contains c) buf) := by
  rw [splitDelims_eq_runs_with_nul]
  congr 1
  apply runs_congr
  intro c hc
  have : c ≠ NUL := fun e => h (e ▸ hc)
  simp [this]

/-- "a\0a" split at "," : the code returns two tokens, the definition one -/
theorem splitDelims_nul_witness :
    splitDelims [0x61#8, NUL, 0x61#8] [0x2c#8]
      ≠ some (runs (fun c => [0x2c#8].contains c) [0x61#8, NUL, 0x61#8]) := by decide

-- non-vacuity of the hypothesis of `splitDelims_eq_runs_partial`
example : NUL ∉ ([0x61#8, 0x20#8, 0x62#8] : Str) := by decide

/-- before `fix: split(buffer, char) tests for the end of the buffer …` the
delimiter-skipping loop read the byte behind the buffer — on the empty buffer
and after the last token of any other -/
theorem splitCharOrig_overread_witness :
    splitCharOrig [] SP = none ∧ splitCharOrig [0x61#8] SP = none := by decide

/-! ## join, and join ∘ split / split ∘ join -/

/-- `join(vec, delim)` = the tokens with one delimiter between neighbours -/
theorem join_eq_intercalate (vec : List Str) (delim : Byte) :
    join vec delim = List.intercalate [delim] vec := by
  unfold join
  split
  · rename_i h
    have : vec = [] := List.eq_nil_of_length_eq_zero h
    subst this; rfl
  · rw [joinLoop_eq]; simp

/-- the iterator-range `join` of string.h (with the repaired empty range) -/
theorem joinFmt_eq (vec : List Str) (delim pre post : Str) :
    joinFmt vec delim pre post = pre ++ List.intercalate delim vec ++ post := by
  unfold joinFmt
  split
  · rename_i h
    have : vec = [] := List.eq_nil_of_length_eq_zero h
    subst this; simp [List.intercalate]
  · simp only [joinLoop_eq]

/-- split ∘ join = id on lists of non-empty delimiter-free tokens -/
theorem split_join (toks : List Str) (delim : Byte)
    (h : ∀ t ∈ toks, t ≠ [] ∧ delim ∉ t) :
    splitChar (join toks delim) delim = some toks := by
  rw [splitChar_eq_runs, join_eq_intercalate]
  congr 1
  apply runs_split_join _ delim (by simp)
  intro t ht
  refine ⟨(h t ht).1, fun c hc => ?_⟩
  have : c ≠ delim := fun e => (h t ht).2 (e ▸ hc)
  simpa using this

-- the hypothesis is satisfiable
example : ∀ t ∈ ([[0x61#8], [0x62#8, 0x63#8]] : List Str), t ≠ [] ∧ SP ∉ t := by decide

/-- what split returns is such a token list: join ∘ split is a fixed point of split -/
theorem split_join_split (buf : Str) (delim : Byte) :
    ∀ toks, splitChar buf delim = some toks → splitChar (join toks delim) delim = some toks := by
  intro toks h
  rw [splitChar_eq_runs] at h
  cases h
  apply split_join
  intro t ht
  have := runs_tokens (· == delim) buf t ht
  refine ⟨this.1, fun hm => ?_⟩
  have := this.2 delim hm
  simp at this


/-! ## trim -/

/-- `trim(view)` = the view without its leading and without its trailing
white space (`' ' \n \r \t`), for every buffer; all reads inside the view -/
theorem trim_eq_strip (view : Str) : trim view = strip isWsTrim view := trim_eq_strip' view

/-- "removes exactly the leading and trailing white space", declaratively:
the view is `pre ++ trim view ++ post` with `pre`, `post` white space only,
and a non-empty result neither starts nor ends with white space
(this determines `pre`, the result and `post` uniquely) -/
theorem trim_exact (view : Str) :
    ∃ pre post, view = pre ++ trim view ++ post
      ∧ (∀ c ∈ pre, isWsTrim c = true) ∧ (∀ c ∈ post, isWsTrim c = true)
      ∧ (∀ c, (trim view).head? = some c → isWsTrim c = false)
      ∧ (∀ c, (trim view).getLast? = some c → isWsTrim c = false) := by
  rw [trim_eq_strip]
  exact strip_exact isWsTrim view

/-! ## igris_memmem -/

/-- for a non-empty needle `igris_memmem` returns the offset of the first
occurrence, or NULL when there is none … -/
theorem memmem_eq_firstOcc (l s : Str) (hs : s ≠ []) : memmem l s = firstOcc s l :=
  memmem_eq_firstOcc' l s hs

/-- … declaratively: a returned offset is an occurrence and no smaller offset is -/
theorem memmem_some (l s : Str) (i : Nat) (hs : s ≠ []) (h : memmem l s = some i) :
    s <+: l.drop i ∧ (∀ j, j < i → ¬ s <+: l.drop j) ∧ i + s.length ≤ l.length := by
  have h' := h
  rw [memmem_eq_firstOcc l s hs] at h'
  exact ⟨(firstOcc_some_spec s l i h').1, (firstOcc_some_spec s l i h').2, memmem_bound l s i hs h⟩

/-- NULL is returned only when the needle occurs nowhere -/
theorem memmem_none (l s : Str) (hs : s ≠ []) (h : memmem l s = none) : ∀ j, ¬ s <+: l.drop j := by
  rw [memmem_eq_firstOcc l s hs] at h
  exact firstOcc_none_spec s l hs h

/-- the routine's own convention ("we need something to compare"): an empty
needle is never found.  (`firstOcc [] l` would be `some 0`.) -/
theorem memmem_empty_needle (l : Str) : memmem l [] = none := by simp [memmem]

example : memmem [0x61#8, 0x62#8, 0x61#8, 0x62#8] [0x62#8] = some 1 := by decide

/-! ## replace -/

/-- `igris::replace(input, sub, rep)` = left-to-right non-overlapping
substitution (an empty pattern replaces nothing), for all inputs -/
theorem replace_eq_subst (input sub rep : Str) : replace input sub rep = some (subst sub rep input) := by
  unfold replace subst
  split
  · rename_i h
    have : sub = [] := List.eq_nil_of_length_eq_zero h
    subst this; rfl
  · rename_i h
    have hs : sub ≠ [] := fun e => h (by simp [e])
    rw [replaceLoop_eq sub rep hs _ input [] (by omega)]
    cases sub with
    | nil => exact absurd rfl hs
    | cons a as => simp

/-- the substitution spec itself: where the pattern does not occur nothing
changes, at the first occurrence the pattern is replaced and the scan resumes
*behind* it (non-overlapping, the replacement is not rescanned) -/
theorem subst_unfold (sub rep s : Str) (hs : sub ≠ []) :
    subst sub rep s =
      match firstOcc sub s with
      | none => s
      | some i => s.take i ++ rep ++ subst sub rep (s.drop (i + sub.length)) := by
  have he : sub.isEmpty = false := by cases sub with | nil => exact absurd rfl hs | cons a as => rfl
  unfold subst
  simp only [he, Bool.false_eq_true, ↓reduceIte]
  cases ho : firstOcc sub s with
  | none => exact substGo_none sub rep s ho
  | some i => exact substGo_some sub rep s i hs ho

/-! ## replace_substrings -/

/-- `replace_substrings(buffer, maxsize, …)`: the bytes written are, from
`buffer[0]` on, the substitution result cut to `maxsize - 1` characters and a
NUL; nothing for `maxsize = 0` -/
theorem replaceSubstrings_eq (maxsize : Nat) (input sub rep : Str) :
    replaceSubstrings maxsize input sub rep =
      some (if maxsize = 0 then [] else (subst sub rep input).take (maxsize - 1) ++ [NUL]) := by
  unfold replaceSubstrings subst
  split
  · rfl
  · split
    · rename_i h
      have : sub = [] := List.eq_nil_of_length_eq_zero h
      subst this
      simp only [List.isEmpty_nil, ↓reduceIte]
      congr 2
      rw [List.take_eq_take_iff]
      omega
    · rename_i h
      have hs : sub ≠ [] := fun e => h (by simp [e])
      have he : sub.isEmpty = false := by cases sub with | nil => exact absurd rfl hs | cons a as => rfl
      have := rsLoop_eq sub rep hs (maxsize - 1) (input.length + 1) input [] (by omega)
      simp only [RsRep, List.take_nil, List.length_nil, Nat.sub_zero, List.nil_append] at this
      simp only [this, he, Bool.false_eq_true, ↓reduceIte]

/-- hence no byte at an offset `≥ maxsize` is written -/
theorem replaceSubstrings_in_bounds (maxsize : Nat) (input sub rep w : Str)
    (h : replaceSubstrings maxsize input sub rep = some w) : w.length ≤ maxsize := by
  rw [replaceSubstrings_eq] at h
  cases h
  split
  · simp
  · simp only [List.length_append, List.length_take, List.length_singleton]; omega

/-! ## split_cmdargs -/

/-- `split_cmdargs(buf)` = the quote-aware tokenisation `cmdargsSpec`, for
every buffer; no access outside the buffer -/
theorem splitCmdargs_eq (buf : Str) : splitCmdargs buf = some (cmdargsSpec buf) := by
  unfold splitCmdargs cmdargsSpec
  split
  · rename_i h
    have : buf = [] := List.eq_nil_of_length_eq_zero h
    subst this; rfl
  · rw [cmdargsLoop_eq _ buf [] (by omega)]; simp

/-- without quote characters `split_cmdargs` is `split(buf, ' ')` -/
theorem cmdargsSpec_no_quotes (s : Str) (h : DQ ∉ s ∧ SQ ∉ s) :
    cmdargsSpec s = runs (· == SP) s := cmdGo_no_quotes s h


/-! ## the argv splitters -/

/-- `argvc_internal_split(data, argv, argcmax)` on a NUL-terminated line
(`text`, its terminator, anything behind it): no access behind the terminator,
at most `argcmax` pointers are stored, and the C strings they point to after
the call are exactly the first `argcmax` maximal runs of non-white-space
characters of `text` (white space = `" \r\n\t"`).  The line keeps its length. -/
theorem argvSplit_spec (text junk : Str) (argcmax : Nat) (hn : NUL ∉ text) :
    ∃ r, argvSplit (text ++ NUL :: junk) argcmax = some r
      ∧ r.argc = r.argv.length ∧ r.argc ≤ argcmax
      ∧ argStrings r.mem r.argv = some ((runs isWsArgv text).take argcmax)
      ∧ r.mem.length = (text ++ NUL :: junk).length := by
  obtain ⟨r, h1, h2, h3, h4⟩ :=
    argvSplitGo_spec argcmax ((text ++ NUL :: junk).length + 1) text junk 0 hn (by simp; omega)
  refine ⟨r, h1, by omega, ?_, by simpa using h3, h4⟩
  have := argStrings_length _ _ _ h3
  rw [h2, Nat.zero_add, ← this, List.length_take]
  omega

-- the hypothesis is satisfiable, and a blank line gives argc = 0
example : NUL ∉ ([0x20#8, 0x61#8, 0x09#8, 0x62#8] : Str) := by decide
example : (argvSplit [0x20#8, 0x20#8, NUL] 10).map (·.argc) = some 0 := by decide

/-- `argvc_internal_split_n(data, maxlen, argv, argcmax)` on exactly `maxlen`
bytes, not terminated: no access at or behind `data[maxlen]`, at most `argcmax`
pointers, and the strings they point to (up to the next NUL or to
`data + maxlen`) are the first `argcmax` maximal runs of characters that are
neither white space nor NUL -/
theorem argvSplitN_spec (data : Str) (argcmax : Nat) :
    ∃ r, argvSplitN data argcmax = some r
      ∧ r.argc = r.argv.length ∧ r.argc ≤ argcmax
      ∧ r.argv.map (cstrAtN r.mem) = (runs (fun c => c == NUL || isWsArgv c) data).take argcmax
      ∧ r.mem.length = data.length := by
  obtain ⟨r, h1, h2, h3, h4⟩ := argvSplitNGo_spec argcmax (data.length + 1) data 0 (by omega)
  have hfun : strchrHit wsArgv = (fun c => c == NUL || isWsArgv c) := funext strchrHit_ws
  rw [hfun] at h3
  refine ⟨r, h1, by omega, ?_, by simpa using h3, h4⟩
  have : r.argv.length = ((runs (fun c => c == NUL || isWsArgv c) data).take (argcmax - 0)).length := by
    rw [← h3]; simp
  rw [h2, Nat.zero_add, this, List.length_take]
  omega

/-- what the two splitters write: the line after the call is the line before
it with some white-space characters (for the `_n` variant: or NULs) replaced
by NUL — same length, every other byte untouched, nothing outside the extent -/
theorem argvSplit_writes (data : Str) (argcmax : Nat) (r : ArgvRes)
    (h : argvSplit data argcmax = some r) : onlyTerminated r.mem data = true :=
  argvSplitGo_mem _ _ _ _ _ h

theorem argvSplitN_writes (data : Str) (argcmax : Nat) (r : ArgvRes)
    (h : argvSplitN data argcmax = some r) : onlyTerminated r.mem data = true :=
  argvSplitNGo_mem _ _ _ _ _ h

/-! ## the shell dispatchers -/

/-- all four dispatchers: on a NUL-terminated line the result is
`dispatchSpec` of the first 10 white-space separated tokens — return code for
empty and blank lines, ENOENT when the first token names no command,
otherwise exactly one call, of the first entry (table order, then entry order)
whose name equals the first token, with `argc - dropargs` and the tokens from
`dropargs` on.  No access behind the terminator, never more than 10 arguments. -/
theorem shellExecute_spec (rcEmpty : Int) (text junk : Str) (tables : List (List Str × Nat))
    (hn : NUL ∉ text) :
    shellExecute rcEmpty (text ++ NUL :: junk) tables
      = some (dispatchSpec rcEmpty ((runs isWsArgv text).take SSHELL_ARGCMAX) tables) :=
  shellExecute_spec' rcEmpty text junk tables hn

theorem mshellExecute_spec (text junk : Str) (table : List Str) (hn : NUL ∉ text) :
    mshellExecute (text ++ NUL :: junk) table
      = some (dispatchSpec ENOENT ((runs isWsArgv text).take 10) [(table, 0)]) :=
  shellExecute_spec' _ _ _ _ hn

theorem mshellTablesExecute_spec (text junk : Str) (tables : List (List Str)) (hn : NUL ∉ text) :
    mshellTablesExecute (text ++ NUL :: junk) tables
      = some (dispatchSpec ENOENT ((runs isWsArgv text).take 10) (tables.map fun t => (t, 0))) :=
  shellExecute_spec' _ _ _ _ hn

theorem rshellExecute_spec (text junk : Str) (table : List Str) (dropargs : Nat) (hn : NUL ∉ text) :
    rshellExecute (text ++ NUL :: junk) table dropargs
      = some (dispatchSpec 0 ((runs isWsArgv text).take 10) [(table, dropargs)]) :=
  shellExecute_spec' _ _ _ _ hn

theorem rshellTablesExecute_spec (text junk : Str) (tables : List (List Str × Nat)) (hn : NUL ∉ text) :
    rshellTablesExecute (text ++ NUL :: junk) tables
      = some (dispatchSpec 0 ((runs isWsArgv text).take 10) tables) :=
  shellExecute_spec' _ _ _ _ hn

/-- a handler is invoked if and only if the line has a first token and that
token is the name of an entry of one of the tables -/
theorem dispatch_calls_iff (rcBlank : Int) (toks : List Str) (tables : List (List Str × Nat)) :
    (dispatchSpec rcBlank toks tables).call.isSome
      ↔ ∃ t0 rest, toks = t0 :: rest ∧ ∃ e ∈ tables, t0 ∈ e.1 := by
  cases toks with
  | nil => simp [dispatchSpec]
  | cons t0 rest =>
    simp only [dispatchSpec]
    cases hf : findCmdTables t0 tables 0 with
    | none =>
      have := (findCmdTables_none_iff t0 tables 0).mp hf
      simp only [Option.isSome_none, Bool.false_eq_true, false_iff]
      rintro ⟨t, r, he, e, hmem, hin⟩
      cases he
      exact this e hmem hin
    | some p =>
      have hne : ¬ (∀ e ∈ tables, t0 ∉ e.1) := by
        intro hall
        have := (findCmdTables_none_iff t0 tables 0).mpr hall
        rw [hf] at this; cases this
      simp only [Option.isSome_some, true_iff]
      refine ⟨t0, rest, rfl, ?_⟩
      apply Classical.byContradiction
      intro hno
      exact hne (fun e he hin => hno ⟨e, he, hin⟩)

/-- … and it is the handler of the *first* such entry, called with the tokens
(minus `dropargs`): `h = 4 * table + entry` is the harness' numbering -/
theorem dispatch_call_spec (rcBlank : Int) (toks : List Str) (tables : List (List Str × Nat))
    (h : Nat) (argc : Int) (args : List Str)
    (hc : (dispatchSpec rcBlank toks tables).call = some (h, argc, args)) :
    ∃ t0 rest t i tbl drop, toks = t0 :: rest
      ∧ h = 4 * t + i ∧ tables[t]? = some (tbl, drop) ∧ tbl[i]? = some t0
      ∧ (∀ i', i' < i → tbl[i']? ≠ some t0)
      ∧ (∀ t', t' < t → ∀ e, tables[t']? = some e → t0 ∉ e.1)
      ∧ argc = (toks.length : Int) - drop ∧ args = toks.drop drop
      ∧ (dispatchSpec rcBlank toks tables).rc = 0 := by
  cases toks with
  | nil => simp [dispatchSpec] at hc
  | cons t0 rest =>
    simp only [dispatchSpec] at hc ⊢
    cases hf : findCmdTables t0 tables 0 with
    | none => rw [hf] at hc; simp at hc
    | some p =>
      obtain ⟨k, drop⟩ := p
      rw [hf] at hc
      simp only [Option.some.injEq, Prod.mk.injEq] at hc
      obtain ⟨t, i, tbl, hk, htab, hi, hfirst, hprev⟩ := findCmdTables_some_spec t0 tables 0 k drop hf
      exact ⟨t0, rest, t, i, tbl, drop, rfl, by omega, htab, hi, hfirst, hprev, hc.2.1.symm, hc.2.2.symm, rfl⟩

/-- before the repairs a blank line made the dispatchers use `argv[0]` without
ever having stored it -/
theorem shellExecuteOrig_blank_witness :
    shellExecuteOrig ENOENT [SP, SP, NUL] [([[0x61#8]], 0)] = none := by decide

-- a line with tokens, a table that names the first one
example : mshellExecute [0x61#8, 0x20#8, 0x62#8, NUL] [[0x62#8], [0x61#8]]
    = some ⟨0, some (1, 2, [[0x61#8], [0x62#8]])⟩ := by decide
-- blank line: tolerated
example : mshellExecute [0x20#8, 0x09#8, NUL] [[0x61#8]] = some ⟨ENOENT, none⟩ := by decide


/-! ## path helpers (NUL-terminated: `p` is the text, then the terminator, then
whatever else the allocation holds; a read behind the allocation is a fault) -/

/-- `path_next`: NULL iff nothing is left after the leading slashes and single
dots, else the offset of the first real component and its length -/
theorem pathNext_spec (p junk : Str) (hn : NUL ∉ p) :
    pathNext (p ++ NUL :: junk)
      = some (match skipRef p with
              | [] => none
              | c :: r => some (p.length - (c :: r).length, (headComp (c :: r)).length)) :=
  pathNext_eq p junk hn

/-- component-wise: `path_next` returns NULL iff the path has no component;
otherwise it points at the first component (`"."` and empty pieces skipped)
and what follows `path + off + len` has exactly the remaining components —
walking with `path_next` enumerates `comps p` -/
theorem pathNext_components (p junk : Str) (hn : NUL ∉ p) :
    match pathNext (p ++ NUL :: junk) with
    | none => False
    | some none => comps p = []
    | some (some (off, len)) =>
        ∃ h t, comps p = h :: t ∧ (p.drop off).take len = h ∧ comps (p.drop (off + len)) = t := by
  rw [pathNext_eq p junk hn]
  have hc := skipRef_components p
  have hsuf := skipRef_suffix p
  cases hr : skipRef p with
  | nil => rw [hr] at hc; exact hc
  | cons c r =>
    rw [hr] at hc hsuf
    obtain ⟨h, t, h1, h2, h3, h4⟩ := hc
    obtain ⟨pre, hpre⟩ := hsuf
    have hoff : p.length - (c :: r).length = pre.length := by rw [← hpre]; simp
    have hdrop : p.drop pre.length = c :: r := by
      rw [← hpre]; simp
    refine ⟨h, t, h1, ?_, ?_⟩
    · simp only [hoff, hdrop, h2, h3]
    · simp only [hoff, h2, ← List.drop_drop, hdrop, h4]

/-- before the repair `path_is_single_dot` read the byte behind the terminator
whenever it was called at the end of a string (every path_next / path_iterate
walk ends there) -/
theorem isSingleDotOrig_overread_witness :
    isSingleDotOrig [NUL] = none ∧ isSingleDot [NUL] = some false := by decide

/-- `path_iterate`: NULL on the empty path, else the cursor at the next real
component behind the first piece (a leading slash is a piece of its own) -/
theorem pathIterate_spec (p junk : Str) (hn : NUL ∉ p) :
    pathIterate (p ++ NUL :: junk)
      = some (if p.isEmpty then none else some (iterRef p ++ NUL :: junk)) :=
  pathIterate_eq p junk hn

/-- `path_compare_node`: lexicographic order (signed `char`) of the two first pieces -/
theorem compareNode_spec (a ja b jb : Str) (ha : NUL ∉ a) (hb : NUL ∉ b) :
    compareNode (a ++ NUL :: ja) (b ++ NUL :: jb) = some (lexCmp (headComp a) (headComp b)) :=
  compareNode_eq a ja b jb ha hb

/-- in particular it returns 0 exactly when the first pieces are equal -/
theorem compareNode_zero_iff (a ja b jb : Str) (ha : NUL ∉ a) (hb : NUL ∉ b) :
    compareNode (a ++ NUL :: ja) (b ++ NUL :: jb) = some 0 ↔ headComp a = headComp b := by
  rw [compareNode_eq a ja b jb ha hb]
  simp [lexCmp_eq_zero_iff]

/-- `path_remove_prefix`: the cursor into `path` after stepping over the
leading pieces it shares with `prefix` (never NULL, never a fault) -/
theorem pathRemovePrefix_spec (p jp q jq : Str) (hp : NUL ∉ p) (hq : NUL ∉ q) :
    pathRemovePrefix (p ++ NUL :: jp) (q ++ NUL :: jq) = some (removePrefixSpec p q ++ NUL :: jp) := by
  unfold pathRemovePrefix removePrefixSpec
  rw [removePrefixLoop_eq _ p jp q jq hp hq (by simp; omega)]
  congr 2
  exact removePrefixRef_stable _ _ p q (by simp; omega) (by omega)

/-- the result is a suffix of `path` -/
theorem removePrefixSpec_suffix (p q : Str) : removePrefixSpec p q <:+ p :=
  removePrefixRef_suffix _ p q

-- "/a/b" minus "/a/c" = "b" (cf. pathops.remove_prefix_3 of tests/pathops.cpp)
example : pathRemovePrefix [SLASH, 0x61#8, SLASH, 0x62#8, NUL] [SLASH, 0x61#8, SLASH, 0x63#8, NUL]
    = some [0x62#8, NUL] := by decide


/-! ## creader_readline -/

/-- one call with the cursor anywhere inside the buffer: -1 at the end,
otherwise the length of the next line as `lineRef` defines it, `*token` = the
old cursor, and the cursor moves behind the line and its terminator.
No access outside `[strt, fini)`. -/
theorem creaderReadline_spec (mem : Str) (cursor : Nat) (h : cursor ≤ mem.length) :
    creaderReadline mem cursor
      = some (if (mem.drop cursor).isEmpty then (-1, cursor, cursor)
              else (((lineRef (mem.drop cursor)).1 : Int), cursor, cursor + (lineRef (mem.drop cursor)).2)) :=
  creaderReadline_eq mem cursor h

/-- every successful call consumes at least one character and stays inside … -/
theorem lineRef_progress (s : Str) (hs : s ≠ []) : 1 ≤ (lineRef s).2 ∧ (lineRef s).2 ≤ s.length :=
  lineRef_used s hs

/-- … hence a read loop `while ((len = creader_readline(..)) >= 0)` ends after
at most `size + 1` calls, on every buffer (also one whose last line has no
terminator) -/
theorem creader_loop_ends (mem : Str) : ∃ l, creaderAll mem (mem.length + 2) 0 = some (l, true) :=
  creaderAll_ends mem _ 0 (by omega) (by omega)

-- "a\r\n" is one line of length 1 ("a\n" gave 0 before the repair)
example : creaderReadline [0x61#8, CR, NL] 0 = some (1, 0, 3) := by decide

/-! # Extension (round 3): the remaining routines of the anchored files

Model: Model2.lean, reference definitions: Spec2.lean, lemmas: Lemmas2.lean.
A C string is again `text ++ NUL :: junk` (the whole allocation), `= some …`
says "no access outside the extent" as well. -/

/-! ## pathops.h: predicates -/

/-- `path_is_abs`: the first character is `'/'` (false for the empty path) -/
theorem pathIsAbs_spec (s junk : Str) (hn : NUL ∉ s) :
    pathIsAbs (s ++ NUL :: junk) = some (s.head? == some SLASH) :=
  pathIsAbs_eq s junk hn

/-- `path_is_simple`: no `'/'` anywhere in the path; stops at the terminator -/
theorem pathIsSimple_spec (s junk : Str) (hn : NUL ∉ s) :
    pathIsSimple (s ++ NUL :: junk) = some (!s.contains SLASH) :=
  pathIsSimple_eq s junk hn

/-- `path_is_double_dot`: the first piece of the path (up to the first `'/'`)
is exactly `".."`; `path[1]`, `path[2]` are read only inside the string -/
theorem pathIsDoubleDot_spec (s junk : Str) (hn : NUL ∉ s) :
    pathIsDoubleDot (s ++ NUL :: junk) = some (headComp s == [DOT, DOT]) :=
  pathIsDoubleDot_eq s junk hn

example : NUL ∉ ([DOT, DOT, SLASH, 0x61#8] : Str) := by decide

/-! ## path_last_node -/

/-- the algorithm of `path_last_node`, for ANY separator byte: the returned
pointer is `path + (length - |lastSeg|)`, i.e. it points at what stands behind
the last separator (at the whole path when there is none, at the terminator
when the path ends with the separator); every read lies inside the string -/
theorem pathLastNodeSep_spec (sep : Byte) (s junk : Str) (hn : NUL ∉ s) :
    pathLastNodeSep sep (s ++ NUL :: junk) = some (s.length - (lastSeg sep s).length) :=
  pathLastNodeSep_eq sep s junk hn

/-- `lastSeg` is what its name says: `s = pre ++ lastSeg`, the separator does
not occur in it, and `pre` is empty or ends with the separator; and it is the
suffix of `s` at the returned offset -/
theorem lastSeg_exact (sep : Byte) (s : Str) :
    (∃ pre, s = pre ++ lastSeg sep s ∧ sep ∉ lastSeg sep s ∧ (pre = [] ∨ pre.getLast? = some sep))
    ∧ s.drop (s.length - (lastSeg sep s).length) = lastSeg sep s :=
  ⟨lastSeg_char sep s, lastSeg_drop sep s⟩

/-- the code as it is: the separator is the backslash -/
theorem pathLastNode_spec (s junk : Str) (hn : NUL ∉ s) :
    pathLastNode (s ++ NUL :: junk) = some (s.length - (lastSeg BSL s).length) :=
  pathLastNodeSep_eq BSL s junk hn

/-
  FULL STATEMENT in the reading of every other helper of pathops.h (false on the
  tree, see `pathLastNode_slash_witness`):
     ∀ s, pathLastNode (s ++ NUL :: junk) = some (s.length - (lastSeg SLASH s).length)
  Proved part: paths in which neither separator occurs.
  Recorded finding: C19-path-last-node-backslash.
-/
theorem pathLastNode_slash_partial (s junk : Str) (hn : NUL ∉ s) (h1 : BSL ∉ s) (h2 : SLASH ∉ s) :
    pathLastNode (s ++ NUL :: junk) = some (s.length - (lastSeg SLASH s).length) := by
  rw [pathLastNode_spec s junk hn, lastSeg_of_not_mem BSL s h1, lastSeg_of_not_mem SLASH s h2]

/-- `path_last_node("a/b")` returns `"a/b"`, not `"b"` -/
theorem pathLastNode_slash_witness :
    pathLastNode [0x61#8, SLASH, 0x62#8, NUL]
      ≠ some (([0x61#8, SLASH, 0x62#8] : Str).length - (lastSeg SLASH [0x61#8, SLASH, 0x62#8]).length) := by
  decide

example : NUL ∉ ([0x61#8, 0x62#8] : Str) ∧ BSL ∉ ([0x61#8, 0x62#8] : Str) ∧ SLASH ∉ ([0x61#8, 0x62#8] : Str) := by
  decide

/-- before `fix: path_last_node("") …` the loop stepped in front of the string -/
theorem pathLastNodeOrig_underread_witness :
    pathLastNodeOrig [NUL] = none ∧ pathLastNodeOrig [NUL, 0x61#8] = none ∧ pathLastNode [NUL] = some 0 := by
  decide

/-- `path_next(path, NULL)` finds the same component as `path_next(path, &len)` -/
theorem pathNextNoLen_spec (p junk : Str) (hn : NUL ∉ p) :
    pathNextNoLen (p ++ NUL :: junk)
      = some (match skipRef p with
              | [] => none
              | c :: r => some (p.length - (c :: r).length)) := by
  rw [pathNextNoLen_of_pathNext _ _ (pathNext_spec p junk hn)]
  cases skipRef p <;> rfl

/-- `argvc_length_of_first`: the length of the run in front of the first space -/
theorem lengthOfFirst_spec (s junk : Str) (hn : NUL ∉ s) :
    lengthOfFirst (s ++ NUL :: junk) = some (s.takeWhile (· != SP)).length :=
  lengthOfFirst_eq s junk hn

/-! ## creader_skip / creader_skipws -/

/-- `creader_skip`: the count is the length of the longest prefix of the unread
part made of characters of `symbols`, the cursor ends behind it; the unread
part is not read beyond `fini`, `symbols` not behind its terminator -/
theorem creaderSkip_spec (cur sy junk : Str) (hn : NUL ∉ sy) :
    creaderSkip cur (sy ++ NUL :: junk)
      = some ((cur.takeWhile (sy.contains ·)).length, cur.dropWhile (sy.contains ·)) := by
  simpa [creaderSkip] using creaderSkipLoop_eq sy junk hn cur 0

/-- `creader_skipws` leaves the cursor at the first character that is not one
of tab, LF, CR, space (or at the end), and counts what it passed -/
theorem creaderSkipws_spec (cur : Str) :
    creaderSkipws cur
      = some ((cur.takeWhile isWsTrim).length, cur.dropWhile isWsTrim) := by
  have h := creaderSkip_spec cur [TAB, NL, CR, SP] [] (by decide)
  have hf : (fun c => ([TAB, NL, CR, SP] : Str).contains c) = isWsTrim := by
    funext c
    simp only [isWsTrim, List.contains_cons, List.contains_nil, Bool.or_false]
    cases h1 : (c == SP) <;> cases h2 : (c == NL) <;> cases h3 : (c == CR) <;> cases h4 : (c == TAB) <;> rfl
  rw [hf] at h
  exact h

/-- … so what is left is empty or starts with a non-space, and nothing but
white space was passed -/
theorem creaderSkipws_exact (cur : Str) :
    ∃ n rest, creaderSkipws cur = some (n, rest) ∧ cur = cur.take n ++ rest ∧
      (∀ c ∈ cur.take n, isWsTrim c = true) ∧ (∀ c r, rest = c :: r → isWsTrim c = false) := by
  refine ⟨_, _, creaderSkipws_spec cur, ?_, ?_, ?_⟩
  · rw [take_takeWhile_length]; exact List.takeWhile_append_dropWhile.symm
  · intro c hc
    rw [take_takeWhile_length] at hc
    exact mem_takeWhile_sat isWsTrim cur c hc
  · intro c r hr
    exact dropWhile_head_not isWsTrim cur c r hr

/-! ## igris::buffer -/

/-- `buffer == buffer` (after the repair) is equality of the byte sequences,
`!=` its negation; neither reads outside the two extents -/
theorem bufEq_spec (a b : Str) : bufEq a b = some (decide (a = b)) ∧ bufNe a b = some (decide (a ≠ b)) :=
  ⟨bufEq_eq a b, bufNe_eq a b⟩

/-- before `fix: buffer == … memcmp`: "a\0b" == "a\0c" -/
theorem bufEqOrig_nul_witness :
    bufEqOrig [0x61#8, NUL, 0x62#8] [0x61#8, NUL, 0x63#8] = some true := by decide

/-- `buffer == const char*` exactly as the code is (`strncmp(buf, str, sz) == 0`),
for every buffer and every C string: the buffer's bytes up to its first NUL
are compared with the first `sz` characters of `str`.  No read outside the
buffer or behind the terminator of `str`. -/
theorem bufEqZ_exact (a t junk : Str) (hn : NUL ∉ t) :
    bufEqZ a (t ++ NUL :: junk) = some (a.takeWhile (· != NUL) == t.take a.length) := by
  have := strncmpEq_cstr t junk hn a.length a (Nat.le_refl _)
  simpa [bufEqZ, List.take_length] using this

/-
  FULL STATEMENT (false on the tree, see `bufEqZ_prefix_witness`):
     ∀ a t, bufEqZ a (t ++ NUL :: junk) = some (decide (a = t))
  Proved part: NUL-free buffers compared with strings that are not longer.
  Recorded finding: C19-buffer-eq-cstr-prefix.
-/
theorem bufEqZ_partial (a t junk : Str) (hn : NUL ∉ t) (ha : NUL ∉ a) (hl : t.length ≤ a.length) :
    bufEqZ a (t ++ NUL :: junk) = some (decide (a = t)) := by
  rw [bufEqZ_exact a t junk hn]
  have h1 : a.takeWhile (· != NUL) = a :=
    takeWhile_all a _ (fun x hx => by
      simp only [bne_iff_ne, ne_eq]
      intro e; exact ha (e ▸ hx))
  rw [h1, List.take_of_length_le hl, beq_dec]

/-- `buffer("c", 1) == "cmd"` and `buffer("ab\0x", 4) == "ab"` hold -/
theorem bufEqZ_prefix_witness :
    bufEqZ [0x63#8] [0x63#8, 0x6d#8, 0x64#8, NUL] = some true ∧
    bufEqZ [0x61#8, 0x62#8, NUL, 0x78#8] [0x61#8, 0x62#8, NUL] = some true := by decide

example : NUL ∉ ([0x61#8] : Str) ∧ ([0x61#8] : Str).length ≤ ([0x61#8, 0x62#8] : Str).length := by decide

/-! ## dstring -/

/-- the notation is unambiguous: reading the output back gives the input, for
every byte string (so `dstring` is injective) -/
theorem undstring_dstring (s : Str) : undstring (dstring s) = some s :=
  decodeD_dstring s _ (by have := (dstring_length s).1; omega)

theorem dstring_injective (s t : Str) (h : dstring s = dstring t) : s = t := by
  have h1 := undstring_dstring s
  rw [h, undstring_dstring t] at h1
  exact (Option.some.inj h1).symm

/-- the output is printable ASCII only and at most four characters per byte
(`bytes_to_dstring` needs `4 * size + 1` bytes of room, never more) -/
theorem dstring_output (s : Str) :
    (∀ c ∈ dstring s, isPrint c = true) ∧ (dstring s).length ≤ 4 * s.length :=
  ⟨dstring_all_printable s, (dstring_length s).2⟩

/-- before `fix: dstring … escape the backslash`: the two bytes `\ n` and the
line feed had the same image -/
theorem dstringOrig_ambiguous_witness :
    dstringOrig [BSL, LN] = dstringOrig [NL] ∧ ([BSL, LN] : Str) ≠ [NL] := by decide

/-! ## help texts -/

/-- `mshell_help` / `mshell_tables_help`: the pieces handed to `write`, in call
order, concatenate to the help text of the table(s) -/
theorem mshellHelp_spec (t : List HelpEntry) (ts : List (List HelpEntry)) :
    (mshellHelp t).flatten = helpText t ∧ (mshellTablesHelp ts).flatten = helpTextTables ts :=
  ⟨mshellHelp_flatten t, mshellTablesHelp_flatten ts⟩

/-- `rshell_help(table, ans, ansmax)` for `ansmax ≥ 1`: the answer is the help
text cut to `ansmax - 1` characters plus the terminator, the return value its
length; at most `ansmax` bytes are written -/
theorem rshellHelp_spec (t : List HelpEntry) (m : Nat) (h : 0 < m) :
    rshellHelp t (m : Int)
      = (((helpText t).take (m - 1)).length, (helpText t).take (m - 1) ++ [NUL])
    ∧ (rshellHelp t (m : Int)).2.length ≤ m := by
  rw [rshellHelp_pos t m h]
  refine ⟨rfl, ?_⟩
  simp [List.length_take]; omega

example : (0 : Nat) < 1 := by decide

/-- `rshell_tables_help` for `ansmax ≥ 1`: the concatenated help texts cut to
`ansmax - 2` characters (the routine keeps one byte more in reserve than
`rshell_help`) plus the terminator; at most `ansmax` bytes are written — also
for `ansmax = 1`, where the unrepaired code gave `memcpy` the length -1 -/
theorem rshellTablesHelp_spec (ts : List (List HelpEntry)) (m : Nat) (h : 0 < m) :
    rshellTablesHelp ts (m : Int)
      = (((helpTextTables ts).take (m - 2)).length, (helpTextTables ts).take (m - 2) ++ [NUL])
    ∧ (rshellTablesHelp ts (m : Int)).2.length ≤ m := by
  rw [rshellTablesHelp_pos ts m h]
  refine ⟨rfl, ?_⟩
  simp [List.length_take]; omega

/-- no room, nothing written (both routines) -/
theorem rshellHelp_no_room (t : List HelpEntry) (ts : List (List HelpEntry)) (m : Int) (h : m ≤ 0) :
    rshellHelp t m = (0, []) ∧ rshellTablesHelp ts m = (0, []) := by
  simp [rshellHelp, rshellTablesHelp, h]

example : (-1 : Int) ≤ 0 := by decide

/-! ## rshell_execute_v called with the caller's argv -/

/-- with `argc ≥ 1` the routine is `dispatchSpec` on the argument strings as
they are (no tokenising: they may contain white space) -/
theorem rshellExecuteV_spec (a0 : Str) (rest : List Str) (table : List Str) (dropargs : Nat) :
    rshellExecuteV (a0 :: rest) table dropargs
      = some (dispatchSpec 0 (a0 :: rest) [(table, dropargs)]) :=
  rshellExecuteV_eq a0 rest table dropargs

/-- `argc = 0` is outside the routine's contract: it reads `argv[0]` -/
theorem rshellExecuteV_argc0_witness (table : List Str) (d : Nat) :
    rshellExecuteV [] table d = none := rfl


/-! # Extension (round 4): "stays in bounds" as a theorem

Pointer-level models: Ptr.lean (explicit indices into a memory of exactly the
given extent; `PR.oob i` = an access at index `i` outside it, `PR.fuel` = a
loop did not end; loop tests in the order the code evaluates them).  For each
routine: `…P_safe` — for EVERY input the pointer-level model yields `PR.ok` of
the specified value (no access outside the extent, every loop ends);
`…P_refines` — it computes what the list-level model of Model.lean computes
(so every value theorem above is a theorem about it); `…OrigP_overread_witness`
— the body before the repair yields `PR.oob` on the inputs recorded in
corpus/C19/fixed-defects.ops.  The driver runs the `…P` functions. -/

/-! ## split -/

/-- `split(buf, delim)`, pointer level: never an access outside `[data, data+size)`,
both loops end, and the tokens are the maximal runs -/
theorem splitCharP_safe (buf : Str) (delim : Byte) :
    splitCharP buf delim = .ok (runs (· == delim) buf) :=
  splitCharLoopP_eq buf delim _ 0 [] _ (by omega) (by rw [List.drop_zero]; exact splitChar_eq_runs buf delim)

theorem splitCharP_refines (buf : Str) (delim : Byte) :
    (splitCharP buf delim).toOption = splitChar buf delim := by
  rw [splitCharP_safe, splitChar_eq_runs]; rfl

/-- 8b4a8e9: `while (*ptr == delim) ptr++;` read `data[size]` — index 0 of the
empty buffer, index 1 of "a" (`splitc - 20`, `splitc 61 20`) -/
theorem splitCharOrigP_overread_witness :
    splitCharOrigP [] SP = .oob 0 ∧ splitCharOrigP [0x61#8] SP = .oob 1 := by decide

/-- `split(buf, delims)`, pointer level (exact behaviour: NUL is a delimiter too) -/
theorem splitDelimsP_safe (buf delims : Str) :
    splitDelimsP buf delims = .ok (runs (fun c => c == NUL || delims.contains c) buf) := by
  have h := splitDelims_eq_runs_with_nul buf delims
  unfold splitDelims at h
  unfold splitDelimsP
  by_cases h0 : buf.length = 0
  · rw [if_pos h0] at h; rw [if_pos h0, ← Option.some.inj h]; rfl
  · rw [if_neg h0] at h; rw [if_neg h0]
    exact splitDelimsLoopP_eq buf delims _ 0 [] _ (by omega) (by rw [List.drop_zero]; exact h)

theorem splitDelimsP_refines (buf delims : Str) :
    (splitDelimsP buf delims).toOption = splitDelims buf delims := by
  rw [splitDelimsP_safe, splitDelims_eq_runs_with_nul]; rfl

/-- 76a8f9d: `while (strchr(delims, *ptr) != NULL && ptr != end)` read `data[size]`
after a trailing delimiter (`splitd 6120 202f`: index 2 of a 2-byte buffer) -/
theorem splitDelimsOrigP_overread_witness :
    splitDelimsOrigP [0x61#8, SP] [SP, SLASH] = .oob 2 := by decide

/-! ## split_cmdargs -/

theorem splitCmdargsP_safe (buf : Str) : splitCmdargsP buf = .ok (cmdargsSpec buf) := by
  have h := splitCmdargs_eq buf
  unfold splitCmdargs at h
  unfold splitCmdargsP
  by_cases h0 : buf.length = 0
  · rw [if_pos h0] at h; rw [if_pos h0, ← Option.some.inj h]; rfl
  · rw [if_neg h0] at h; rw [if_neg h0]
    exact cmdargsLoopP_eq buf _ 0 [] _ (by omega) (by rw [List.drop_zero]; exact h)

theorem splitCmdargsP_refines (buf : Str) : (splitCmdargsP buf).toOption = splitCmdargs buf := by
  rw [splitCmdargsP_safe, splitCmdargs_eq]; rfl

/-- 16fd822: `while (*ptr == ' ' && ptr != end)` read `data[size]` after the last
token / the closing quote (`cmdargs 61`, `cmdargs 226122`) -/
theorem splitCmdargsOrigP_overread_witness :
    splitCmdargsOrigP [0x61#8] = .oob 1 ∧ splitCmdargsOrigP [DQ, 0x61#8, DQ] = .oob 3 := by decide

/-! ## trim -/

/-- `trim(view)`, pointer level: `left` stays in `[0, size]`, `right` (which is
decremented) in `[left, size-1]` — in particular never below 0 — and the
result is the strip -/
theorem trimP_safe (view : Str) : trimP view = .ok (strip isWsTrim view) := by
  rw [trimP_eq, trim_eq_strip]

theorem trimP_refines (view : Str) : trimP view = .ok (trim view) := trimP_eq view

/-! ## igris_memmem, replace, replace_substrings -/

/-- `igris_memmem(l, l_len, s, s_len)` on exactly sized blocks: every `cur[0]`,
`cs[0]`, `memcmp` and `memchr` access is inside them; result = the list-level
`memmem` (for which `memmem_some` / `memmem_none` hold) -/
theorem memmemP_refines (l s : Str) : memmemP l 0 l.length s s.length = .ok (memmem l s) := by
  have := memmemP_eq l s 0 (by omega)
  simp only [Nat.sub_zero, List.drop_zero, Nat.add_zero] at this
  rw [this]
  cases memmem l s <;> rfl

theorem memmemP_safe (l s : Str) (hs : s ≠ []) : memmemP l 0 l.length s s.length = .ok (firstOcc s l) := by
  rw [memmemP_refines, memmem_eq_firstOcc l s hs]

-- the hypothesis is satisfiable
example : ([0x61#8] : Str) ≠ [] := by decide

/-- the same for a call on the rest of a block from index `b` on (the calls of
`replace` / `replace_substrings`): the returned pointer is `b + offset` -/
theorem memmemP_rest (lm sm : Str) (b : Nat) (hb : b ≤ lm.length) :
    memmemP lm b (lm.length - b) sm sm.length = .ok ((memmem (lm.drop b) sm).map (· + b)) :=
  memmemP_eq lm sm b hb

example : (0 : Nat) ≤ ([0x61#8] : Str).length := by decide

/-- `igris::replace`, pointer level -/
theorem replaceP_safe (input sub rep : Str) : replaceP input sub rep = .ok (subst sub rep input) :=
  replaceP_eq input sub rep

theorem replaceP_refines (input sub rep : Str) : (replaceP input sub rep).toOption = replace input sub rep := by
  rw [replaceP_safe, replace_eq_subst]; rfl

/-- `replace_substrings`, pointer level: the destination is a block of exactly
`maxsize` bytes; no `memcpy` and not the final `*bufit = 0` touches
`buffer[maxsize]` or beyond, no read leaves `input` / `rep`, for every `maxsize` -/
theorem replaceSubstringsP_safe (maxsize : Nat) (input sub rep : Str) :
    replaceSubstringsP maxsize input sub rep =
      .ok (if maxsize = 0 then [] else (subst sub rep input).take (maxsize - 1) ++ [NUL]) :=
  replaceSubstringsP_refines maxsize input sub rep _ (replaceSubstrings_eq maxsize input sub rep)

theorem replaceSubstringsP_refines' (maxsize : Nat) (input sub rep : Str) :
    (replaceSubstringsP maxsize input sub rep).toOption = replaceSubstrings maxsize input sub rep := by
  rw [replaceSubstringsP_safe, replaceSubstrings_eq]; rfl

/-- d4e621a: the unrepaired routine wrote behind the destination
(`rsub 2 61616161 61 6262`, `rsub 0 6161 61 62`, `rsub 3 61616161 - 62`) -/
theorem replaceSubstringsOrigP_overwrite_witness :
    replaceSubstringsOrigP 2 [0x61#8, 0x61#8, 0x61#8, 0x61#8] [0x61#8] [0x62#8, 0x62#8] = .oob 2
    ∧ replaceSubstringsOrigP 0 [0x61#8, 0x61#8] [0x61#8] [0x62#8] = .oob 0
    ∧ replaceSubstringsOrigP 3 [0x61#8, 0x61#8, 0x61#8, 0x61#8] [] [0x62#8] = .oob 3 := by decide

/-! ## join -/

/-- `join(vec, delim)`, iterators as indices: `*iter` only for `iter < size` -/
theorem joinP_safe (vec : List Str) (delim : Byte) : joinP vec delim = .ok (List.intercalate [delim] vec) := by
  rw [joinP_eq, join_eq_intercalate]

theorem joinP_refines (vec : List Str) (delim : Byte) : joinP vec delim = .ok (join vec delim) := joinP_eq vec delim

/-- the iterator-range `join`: the counter `i` is a 32-bit `unsigned`, so the
statement is for ranges of at most 2³² elements -/
theorem joinFmtP_safe (vec : List Str) (delim pre post : Str) (h32 : vec.length ≤ 2 ^ 32) :
    joinFmtP vec delim pre post = .ok (pre ++ List.intercalate delim vec ++ post) := by
  rw [joinFmtP_eq' vec delim pre post h32, joinFmt_eq]

example : ([[0x61#8]] : List Str).length ≤ 2 ^ 32 := by decide

/-- 6236ab4: without the `tot == 0` guard `tot - 1` wraps and `*it` is read on
the empty range (`joinf 2c 5b 5d`) -/
theorem joinFmtOrigP_overread_witness : joinFmtOrigP [] [0x2c#8] [0x5b#8] [0x5d#8] = .oob 0 := by decide

/-! ## argvc_internal_split_n -/

/-- `argvc_internal_split_n`, pointer level, on exactly `maxlen` bytes and an
`argv` array of exactly `argcmax` slots: no read or write at or behind
`data[maxlen]`, no store at or behind `argv[argcmax]`; the result (argc,
pointers as indices, the line after the call) is that of the list-level model,
for which `argvSplitN_spec` / `argvSplitN_writes` hold -/
theorem argvSplitNP_refines (data : Str) (argcmax : Nat) :
    ∃ r, argvSplitNP data argcmax = .ok r ∧ argvSplitN data argcmax = some r := by
  obtain ⟨r, h, _⟩ := argvSplitN_spec data argcmax
  refine ⟨r, ?_, h⟩
  have := argvSplitNLoopP_eq argcmax (data.length + 1) data 0 0 [] r (by omega) (by rw [List.drop_zero]; exact h)
  unfold argvSplitNP
  rw [this]
  simp

/-- eff14ad: the unrepaired tests read `data[maxlen]` (`argvn 61 2`, `argvn 6120 2`) -/
theorem argvSplitNOrigP_overread_witness :
    argvSplitNOrigP [0x61#8] 2 = .oob 1 ∧ argvSplitNOrigP [0x61#8, SP] 2 = .oob 2 := by decide

/-! ## creader_readline -/

/-- one call, pointer level: the forward scan tests `it != fini` before `*it`,
the rewind never reads in front of `*token`; value = the list-level model
(`creaderReadline_spec`); the new cursor stays inside `[strt, fini]` -/
theorem creaderReadlineP_refines (mem : Str) (cursor : Nat) (h : cursor ≤ mem.length) :
    ∃ r, creaderReadlineP mem cursor = .ok r ∧ creaderReadline mem cursor = some r ∧ r.2.2 ≤ mem.length := by
  obtain ⟨r, h1, h2, h3⟩ := creaderReadlineP_eq mem cursor h
  exact ⟨r, h2, h1, h3⟩

example : (0 : Nat) ≤ ([0x61#8] : Str).length := by decide

/-- the read loop over the pointer-level reader ends on every buffer, without a fault -/
theorem creaderP_loop_ends (mem : Str) : ∃ l, creaderAllP mem (mem.length + 2) 0 = .ok (l, true) := by
  obtain ⟨l, h⟩ := creader_loop_ends mem
  exact ⟨l, creaderAllP_eq mem _ 0 (by omega) _ h⟩

/-- 6d1ea18: `while (*it != '\n' && *it != '\0' && it != fini)` read `*fini` on an
unterminated last line (`creader 6162`) -/
theorem creaderReadlineOrigP_overread_witness :
    creaderReadlineOrigP [0x61#8, 0x62#8] 0 = .oob 2 := by decide


/-! ## argvc_internal_split_n and the terminator (finding C19-argvn-nul-not-terminator)

argvc.h calls `_n` the "safe variant of argvc_internal_split that also checks
the length"; its source has the test `*data == '\0'` → `return argc`.  That
test is dead: `strchr(ws, 0)` is not NULL, so a NUL is skipped as white space
and parsing goes on behind it.  `argvSplitN_spec` (above) is the EXACT
behaviour for all inputs (NUL counts as a separator).

  FULL STATEMENT (false on the tree, see `argvSplitN_nul_witness`):
     ∀ data argcmax, ∃ r, argvSplitN data argcmax = some r ∧
        r.argv.map (cstrAtN r.mem) = (runs isWsArgv (data.takeWhile (· != NUL))).take argcmax
     — "tokenise on white space", the line ending at its terminator as in argvc_internal_split.
  Proved part: buffers without NUL. -/
theorem argvSplitN_ws_partial (data : Str) (argcmax : Nat) (hn : NUL ∉ data) :
    ∃ r, argvSplitN data argcmax = some r
      ∧ r.argc = r.argv.length ∧ r.argc ≤ argcmax
      ∧ r.argv.map (cstrAtN r.mem) = (runs isWsArgv data).take argcmax
      ∧ r.mem.length = data.length := by
  obtain ⟨r, h1, h2, h3, h4, h5⟩ := argvSplitN_spec data argcmax
  refine ⟨r, h1, h2, h3, ?_, h5⟩
  rw [h4]
  congr 1
  apply runs_congr
  intro c hc
  have : c ≠ NUL := fun e => hn (e ▸ hc)
  simp [this]

/-- on a NUL-free text the two splitters produce the same argument strings
(`_n` on the bare text, the terminated one on the text with its terminator) -/
theorem argvSplitN_eq_terminated_partial (text junk : Str) (argcmax : Nat) (hn : NUL ∉ text) :
    ∃ r rz, argvSplitN text argcmax = some r ∧ argvSplit (text ++ NUL :: junk) argcmax = some rz
      ∧ some (r.argv.map (cstrAtN r.mem)) = argStrings rz.mem rz.argv := by
  obtain ⟨r, h1, _, _, h4, _⟩ := argvSplitN_ws_partial text argcmax hn
  obtain ⟨rz, g1, _, _, g4, _⟩ := argvSplit_spec text junk argcmax hn
  exact ⟨r, rz, h1, g1, by rw [h4, g4]⟩

example : NUL ∉ ([0x61#8, SP, 0x62#8] : Str) := by decide

/-- "a\0j": `_n` delivers two arguments `a`, `j`; `argvc_internal_split` on the
same terminated line delivers `a`; a pure white-space tokenisation would give
the single run `a\0j` -/
theorem argvSplitN_nul_witness :
    (argvSplitN [0x61#8, NUL, 0x6a#8] 10).map (fun r => r.argv.map (cstrAtN r.mem)) = some [[0x61#8], [0x6a#8]]
    ∧ (argvSplit [0x61#8, NUL, 0x6a#8, NUL] 10).bind (fun r => argStrings r.mem r.argv) = some [[0x61#8]]
    ∧ (runs isWsArgv [0x61#8, NUL, 0x6a#8]).take 10 = [[0x61#8, NUL, 0x6a#8]] := by decide

/-! ## path_remove_prefix against an independent definition

`pathRemovePrefix_spec` (above) refines the cursor loop to the list recursion
`removePrefixRef`, which has the shape of the loop.  Independent definition
(Spec3.lean): `nodes p` — the first piece of the path as it stands (empty for
an absolute path), then the real components of the rest — and `lcpLen`, the
length of the longest common prefix of two lists.  -/

/-- `path_iterate` walks the nodes: the first piece is `nodes p`'s head, the
path `iterRef p` it returns (`pathIterate_spec`) has the remaining nodes -/
theorem nodes_walk (p : Str) (hp : p ≠ []) : nodes p = headComp p :: nodes (iterRef p) :=
  nodes_iterRef p hp

example : ([0x61#8] : Str) ≠ [] := by decide

/-- `path_remove_prefix(path, prefix)` for all NUL-terminated inputs: never
NULL, no fault, the result is a suffix of `path`, and its nodes are the nodes
of `path` without the longest common prefix of the two node lists
(not only when `prefix` matches entirely: `/a/b` minus `/a/c` is `b`) -/
theorem pathRemovePrefix_nodes (p jp q jq : Str) (hp : NUL ∉ p) (hq : NUL ∉ q) :
    ∃ r, pathRemovePrefix (p ++ NUL :: jp) (q ++ NUL :: jq) = some (r ++ NUL :: jp)
      ∧ r <:+ p ∧ nodes r = (nodes p).drop (lcpLen (nodes p) (nodes q)) :=
  ⟨removePrefixSpec p q, pathRemovePrefix_spec p jp q jq hp hq, removePrefixSpec_suffix p q,
    removePrefixRef_nodes _ p q (by omega)⟩

example : NUL ∉ ([SLASH, 0x61#8] : Str) := by decide

/-- nodes vs. components: they are the same list up to the first piece —
`comps` is `nodes` without the non-real pieces (the empty root, a leading dot) -/
theorem comps_eq_nodes_filter (p : Str) : comps p = (nodes p).filter isReal := comps_eq_filter_nodes p

/-
  FULL STATEMENT in terms of `comps`, the component list `path_next` enumerates
  (false on the tree, see `pathRemovePrefix_dot_witness`):
     comps (result) = (comps path).drop (lcpLen (comps path) (comps prefix))
  Proved part: neither path begins with a single-dot piece, and both are
  absolute or both relative.  Recorded finding: C19-path-remove-prefix-leading-dot.
-/
theorem pathRemovePrefix_comps_partial (p jp q jq : Str) (hp : NUL ∉ p) (hq : NUL ∉ q)
    (hdp : headComp p ≠ [DOT]) (hdq : headComp q ≠ [DOT])
    (hk : p.head? = some SLASH ↔ q.head? = some SLASH) :
    ∃ r, pathRemovePrefix (p ++ NUL :: jp) (q ++ NUL :: jq) = some (r ++ NUL :: jp)
      ∧ r <:+ p ∧ comps r = (comps p).drop (lcpLen (comps p) (comps q)) :=
  ⟨removePrefixSpec p q, pathRemovePrefix_spec p jp q jq hp hq, removePrefixSpec_suffix p q,
    removePrefix_comps_partial p q hdp hdq hk⟩

-- the hypotheses are satisfiable: "/a/b" and "/a"
example : headComp [SLASH, 0x61#8, SLASH, 0x62#8] ≠ [DOT] ∧ headComp [SLASH, 0x61#8] ≠ [DOT]
    ∧ (([SLASH, 0x61#8, SLASH, 0x62#8] : Str).head? = some SLASH ↔ ([SLASH, 0x61#8] : Str).head? = some SLASH) := by
  decide

/-- "./a/b" minus "a": both paths have the first component `a`, `path_next`
on "./a/b" points at `a`, but `path_remove_prefix` counts the leading dot as a
node and returns the path unchanged (the `comps` reading gives `b`) -/
theorem pathRemovePrefix_dot_witness :
    pathRemovePrefix [DOT, SLASH, 0x61#8, SLASH, 0x62#8, NUL] [0x61#8, NUL]
      = some [DOT, SLASH, 0x61#8, SLASH, 0x62#8, NUL]
    ∧ comps [DOT, SLASH, 0x61#8, SLASH, 0x62#8] = [[0x61#8], [0x62#8]]
    ∧ comps [0x61#8] = [[0x61#8]]
    ∧ (comps [DOT, SLASH, 0x61#8, SLASH, 0x62#8]).drop
        (lcpLen (comps [DOT, SLASH, 0x61#8, SLASH, 0x62#8]) (comps [0x61#8])) = [[0x62#8]] := by decide


/-! ## path_next / path_iterate, pointer level

The cursor models of Model.lean already fault on a read behind the allocation;
here the same routines with explicit indices into the allocation. -/

/-- `path_next(path, &len)`: every `*path`, `path[1]`, `*end` is inside the
allocation (in fact not behind the terminator), both loops end, and the result
is that of `pathNext_spec` -/
theorem pathNextP_safe (p junk : Str) (hn : NUL ∉ p) :
    pathNextP (p ++ NUL :: junk) 0
      = .ok (match skipRef p with
             | [] => none
             | c :: r => some (p.length - (c :: r).length, (headComp (c :: r)).length)) := by
  have h := pathNext_spec p junk hn
  rw [pathNextP_eq (p ++ NUL :: junk) 0 (by omega) _ (by rw [List.drop_zero]; exact h)]
  cases skipRef p <;> simp

/-- `path_iterate(path)`: no access outside the allocation, and the returned
pointer is the index at which `iterRef p` (and the terminator) begins -/
theorem pathIterateP_safe (p junk : Str) (hn : NUL ∉ p) :
    ∃ r, pathIterateP (p ++ NUL :: junk) 0 = .ok r ∧
      (if p.isEmpty then none else some (iterRef p ++ NUL :: junk)) = r.map (fun q => (p ++ NUL :: junk).drop q) :=
  pathIterateP_eq (p ++ NUL :: junk) 0 _ (by rw [List.drop_zero]; exact pathIterate_spec p junk hn)

example : NUL ∉ ([DOT, SLASH, 0x61#8] : Str) := by decide

/-- 03ab9aa: `path_is_single_dot` loaded `path[1]` first — index 1 of the
1-byte allocation of `""` (`pnext -`) -/
theorem isSingleDotOrigP_overread_witness :
    isSingleDotOrigP [NUL] 0 = .oob 1 ∧ isSingleDotP [NUL] 0 = .ok false := by decide


/-! ## argvc_internal_split, pointer level -/

/-- `argvc_internal_split` with explicit indices into the allocation of the
terminated line and an `argv` array of exactly `argcmax` slots: no read or
write outside the allocation (none behind the terminator), no store at or
behind `argv[argcmax]`, all loops end; the result is that of the cursor model,
for which `argvSplit_spec` / `argvSplit_writes` hold -/
theorem argvSplitP_refines (text junk : Str) (argcmax : Nat) (hn : NUL ∉ text) :
    ∃ r, argvSplitP (text ++ NUL :: junk) argcmax = .ok r ∧ argvSplit (text ++ NUL :: junk) argcmax = some r := by
  obtain ⟨r, h, _⟩ := argvSplit_spec text junk argcmax hn
  refine ⟨r, ?_, h⟩
  have := argvSplitLoopP_eq argcmax ((text ++ NUL :: junk).length + 1) (text ++ NUL :: junk) 0 0 [] r (by omega)
    (by rw [List.drop_zero]; exact h)
  unfold argvSplitP
  rw [this]
  simp

example : NUL ∉ ([0x61#8, SP, 0x62#8] : Str) := by decide


/-! # Extension round 3 -/

/-! ## the iterator-range `join` beyond 2³² elements (32-bit counter) -/

/-- `for (unsigned int i = 0; i < tot - 1; ++i)`: for a range of MORE than 2³² elements the
counter wraps before it reaches `tot - 1`, the loop never ends by its test and `*it` is read
behind the last element (index `size`). -/
theorem joinFmtP_overrun (vec : List Str) (delim pre post : Str) (h : 2 ^ 32 < vec.length) :
    joinFmtP vec delim pre post = .oob vec.length := joinFmtP_overrun' vec delim pre post h

example (n : Nat) (h : 2 ^ 32 < n) : 2 ^ 32 < (List.replicate n ([] : Str)).length := by
  rw [List.length_replicate]; exact h

/-- the excluded region of `joinFmtP_safe`, exactly: the routine is correct (and in bounds)
iff the range has at most 2³² elements -/
theorem joinFmtP_safe_iff (vec : List Str) (delim pre post : Str) :
    joinFmtP vec delim pre post = .ok (pre ++ List.intercalate delim vec ++ post) ↔ vec.length ≤ 2 ^ 32 := by
  constructor
  · intro h
    by_cases hl : vec.length ≤ 2 ^ 32
    · exact hl
    · rw [joinFmtP_overrun vec delim pre post (by omega)] at h
      cases h
  · exact joinFmtP_safe vec delim pre post

/-! ## `replace_substrings` in place (`buffer == input`) -/

/-- replacement SHORTER than the pattern: the output cursor falls behind the input cursor and
the copy of the next piece overlaps its source — `memcpy` with overlapping ranges, undefined
(`"aabb"`, `"aa"` → `"."` in a 5-byte block: `memcpy(buf+1, buf+2, 2)`) -/
theorem rsInPlace_shorter_witness :
    replaceSubstringsInPlace [0x61#8, 0x61#8, 0x62#8, 0x62#8, 0x5a#8] 4 [0x61#8, 0x61#8] [0x2e#8] = .oob (-1) := by decide

/-- replacement LONGER than the pattern: the output overtakes the input and overwrites bytes
that have not been read yet (`"aa"`, `"a"` → `"bb"`: the block becomes `"bbb\0"`, the
substitution is `"bbbb"`) -/
theorem rsInPlace_longer_witness :
    replaceSubstringsInPlace [0x61#8, 0x61#8, 0x5a#8, 0x5a#8, 0x5a#8] 2 [0x61#8] [0x62#8, 0x62#8]
        = .ok [0x62#8, 0x62#8, 0x62#8, 0x00#8, 0x5a#8]
      ∧ subst [0x61#8] [0x62#8, 0x62#8] [0x61#8, 0x61#8] = [0x62#8, 0x62#8, 0x62#8, 0x62#8] := by decide

/-- replacement as long as the pattern: every `memcpy` has `dst == src`, the block receives the
substitution, the terminator, and keeps the rest (instance; the general statement is open) -/
theorem rsInPlace_samelen_example :
    replaceSubstringsInPlace [0x61#8, 0x2e#8, 0x61#8, 0x5a#8, 0x59#8] 3 [0x61#8] [0x62#8]
      = .ok [0x62#8, 0x2e#8, 0x62#8, 0x00#8, 0x59#8] := by decide

/-! ## the linear-time evaluation the driver uses for long inputs = the models -/

theorem memmemF_eq (l s : Str) : memmemF l s = memmem l s := memmemF_eq' l s

theorem replaceF_eq (input sub rep : Str) : replaceF input sub rep = replace input sub rep := by
  unfold replaceF replace
  rw [replaceLoopF_eq]

theorem replaceSubstringsF_eq (maxsize : Nat) (input sub rep : Str) :
    replaceSubstringsF maxsize input sub rep = replaceSubstrings maxsize input sub rep := by
  have h : rsLoopF = rsLoop := by
    funext a b c d e; exact rsLoopF_eq a b c d e
  simp only [replaceSubstringsF, replaceSubstrings, h]
  split
  · rfl
  · split
    · rfl
    · cases rsLoop sub rep (input.length + 1) input ([], maxsize - 1) <;> rfl

/-! ## a membership table for `strchr` (the harmless form of the seeded change) -/

/-- looking a byte up in the table is `strchr(delims, c) != NULL` — for every delimiter string
and byte; so a table built from the contents at every call (or cached under the contents)
changes nothing, whereas a table cached under the ADDRESS of `delims` is only right as long as
the contents behind that address do not change (seeded change
`C19-split-delims-table-by-address`, caught by the fixed-address cases `re`) -/
theorem delimTable_lookup (d : Str) (c : Byte) : (delimTable d)[c.toNat]? = some (strchrHit d c) := by
  have hc : c.toNat < 256 := c.isLt
  unfold delimTable strchrHit
  rw [List.getElem?_map, List.getElem?_range hc]
  simp only [Option.map_some]
  congr 1
  have key : ∀ x : Byte, (x.toNat == c.toNat) = (x == c) := by
    intro x
    by_cases h : x = c
    · subst h; simp
    · have hn : x.toNat ≠ c.toNat := fun e => h (BitVec.eq_of_toNat_eq e)
      rw [beq_eq_false_iff_ne.mpr hn, beq_eq_false_iff_ne.mpr h]
  have h0 : (c.toNat == 0) = (c == NUL) := by
    have := key NUL
    rw [show (NUL : Byte).toNat = 0 from rfl] at this
    rw [Bool.beq_comm, this, Bool.beq_comm]
  have h1 : d.any (fun x => x.toNat == c.toNat) = d.contains c := by
    induction d with
    | nil => rfl
    | cons x xs ih =>
      rw [List.any_cons, List.contains_cons, ih, key x, Bool.beq_comm]
  rw [h0, h1]

/-! ## Round 3b: `path_compare_node` with explicit indices

`compareNodeP` (Model3.lean) reads the two allocations through `rd`: an index behind a block is
`PR.oob index`, exhausted fuel is `PR.fuel`.  The driver runs THIS function for `pcmp`. -/

/-- refinement: wherever the cursor model of Model.lean yields a value, the index-level model
yields the same value - so `compareNode_spec` / `compareNode_zero_iff` transfer; the fuel
`remaining bytes of a's block + 1` always suffices -/
theorem compareNodeP_refines (ma mb : Str) (a b : Nat) (v : Int)
    (h : compareNode (ma.drop a) (mb.drop b) = some v) :
    compareNodeP ma mb (ma.length - a + 1) a b = .ok v :=
  compareNodeP_ok ma mb _ a b v (by omega) h

example : compareNode (([0x61#8, 0x2f#8, 0#8] : Str).drop 0) (([0x62#8, 0#8] : Str).drop 0) = some (-1) := by decide

/-- for two C strings (text, terminator, anything behind it): no access outside either
allocation, the loop ends, and the value is the signed lexicographic order of the first pieces -/
theorem compareNodeP_safe (a ja b jb : Str) (ha : NUL ∉ a) (hb : NUL ∉ b) :
    compareNodeP (a ++ NUL :: ja) (b ++ NUL :: jb) ((a ++ NUL :: ja).length + 1) 0 0
      = .ok (lexCmp (headComp a) (headComp b)) := by
  have h := compareNode_spec a ja b jb ha hb
  exact compareNodeP_ok _ _ _ 0 0 _ (by omega) (by rw [List.drop_zero, List.drop_zero]; exact h)

example : NUL ∉ ([0x61#8, 0x2f#8] : Str) := by decide

/-- totality, exactly: with enough fuel the routine either returns a value or touches the byte
directly behind one of the two blocks - never any other index, never `fuel`; and it returns a
value **iff** the cursor model does (i.e. iff both first pieces end inside their blocks) -/
theorem compareNodeP_total (ma mb : Str) (a b : Nat) (hal : a ≤ ma.length) (hbl : b ≤ mb.length) :
    (∃ v, compareNodeP ma mb (ma.length - a + 1) a b = .ok v ∧ compareNode (ma.drop a) (mb.drop b) = some v)
    ∨ (compareNode (ma.drop a) (mb.drop b) = none ∧
        (compareNodeP ma mb (ma.length - a + 1) a b = .oob ma.length
          ∨ compareNodeP ma mb (ma.length - a + 1) a b = .oob mb.length)) := by
  cases h : compareNode (ma.drop a) (mb.drop b) with
  | some v => exact Or.inl ⟨v, compareNodeP_ok ma mb _ a b v (by omega) h, rfl⟩
  | none => exact Or.inr ⟨rfl, compareNodeP_oob ma mb _ a b (by omega) hal hbl h⟩

/-- non-terminated arguments (outside the contract): equal texts without terminator run to the
byte behind the first block; a piece that ends in `a` but not in `b` reads behind `b`'s block -/
theorem compareNodeP_unterminated_witness :
    compareNodeP [0x61#8] [0x61#8] 2 0 0 = .oob 1
    ∧ compareNodeP [0x61#8, 0#8] [0x61#8] 3 0 0 = .oob 1
    ∧ compareNodeP [0x61#8, 0x62#8, 0#8] [0x61#8] 4 0 0 = .oob 1 := by decide

/-! ## Round 3b: `path_remove_prefix` with explicit indices

`pathRemovePrefixP` (Ptr2.lean): the loop of the C code over two memory blocks, built from `rd`,
`compareNodeP` and `pathIterateP`; a NULL from `path_iterate` would be the result `oob (-1)`.
The driver runs THIS function for `prem`. -/

/-- refinement: wherever the cursor model yields a cursor, the index-level model yields the
index at which that cursor begins -/
theorem pathRemovePrefixP_refines (mp mq : Str) (c : Cur) (h : pathRemovePrefix mp mq = some c) :
    ∃ r, pathRemovePrefixP mp mq = .ok r ∧ c = mp.drop r := by
  unfold pathRemovePrefix at h
  exact removePrefixLoopP_ok mp mq _ 0 0 c (by rw [List.drop_zero, List.drop_zero]; exact h)

example : pathRemovePrefix [0x61#8, 0#8] [0x61#8, 0#8] = some [0#8] := by decide

/-- for two C strings: no access outside either allocation, no NULL dereference, the loop ends
within `strlen(path) + strlen(prefix) + 3` iterations, and the returned pointer is where the
component-wise reference `removePrefixSpec` (followed by the terminator) begins -/
theorem pathRemovePrefixP_safe (p jp q jq : Str) (hp : NUL ∉ p) (hq : NUL ∉ q) :
    ∃ r, pathRemovePrefixP (p ++ NUL :: jp) (q ++ NUL :: jq) = .ok r ∧
      (p ++ NUL :: jp).drop r = removePrefixSpec p q ++ NUL :: jp := by
  obtain ⟨r, hr, e⟩ := pathRemovePrefixP_refines _ _ _ (pathRemovePrefix_spec p jp q jq hp hq)
  exact ⟨r, hr, e.symm⟩

/-- instances: `"/a/b"` minus `"/a"` is the pointer at offset 3 (`"b"`); a prefix block without
terminator is read behind its end (outside the contract) -/
theorem pathRemovePrefixP_witness :
    pathRemovePrefixP [0x2f#8, 0x61#8, 0x2f#8, 0x62#8, 0#8] [0x2f#8, 0x61#8, 0#8] = .ok 3
    ∧ pathRemovePrefixP [0x61#8, 0#8] [0x61#8] = .oob 1 := by decide

end Igris.C19
