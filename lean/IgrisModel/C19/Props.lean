/-
  C19 — PROPERTY THEOREMS.

  Property: "Text, path and command-line utilities match their definitions and
  stay in bounds.  For every input, split returns exactly the maximal runs of
  non-delimiter characters in order, join is its inverse on such token lists,
  trim removes exactly the leading and trailing white space, replace performs
  left-to-right non-overlapping substitution and igris_memmem finds the first
  occurrence or none.  The argv splitter and the shell dispatchers tokenise on
  white space, never produce more than the allowed arguments, invoke the
  handler of the first token if and only if it names a command, and tolerate
  empty and blank lines.  Path helpers (next, iterate, compare_node,
  remove_prefix) agree with a component-wise reference, and none of these
  routines reads or writes outside the extent of the buffers it is given."

  Model: Model.lean (the code after the fix-C19 repairs).  Specifications:
  Spec.lean.  "Stays in bounds" is part of every `… = some …` statement: the
  model functions return `none` on an access outside the extent they are given
  (see the header of Model.lean), so equality with `some spec` says at once
  "no fault, enough fuel, and this value".
-/
import IgrisModel.C19.Lemmas
namespace Igris.C19
open Igris.Proto

/-! ## split -/

/-- `split(buf, delim)`: for every buffer (any bytes, any length, not
terminated) exactly the maximal runs of characters `≠ delim`, and no access
outside the buffer -/
theorem splitChar_eq_runs (buf : Str) (delim : Byte) :
    splitChar buf delim = some (runs (· == delim) buf) := by
  unfold splitChar
  rw [splitCharLoop_eq delim _ buf [] (by omega)]
  simp

/-- the tokens `runs` produces are non-empty and free of delimiters … -/
theorem runs_tokens (d : Byte → Bool) (s : Str) :
    ∀ t ∈ runs d s, t ≠ [] ∧ ∀ c ∈ t, d c = false :=
  runsGo_tokens d s [] (by simp)

/-- … and together they are exactly the non-delimiter characters of the
input, in order (nothing lost, nothing invented, nothing reordered) -/
theorem runs_flatten (d : Byte → Bool) (s : Str) :
    (runs d s).flatten = s.filter (fun c => !d c) := by
  simpa [runs] using runsGo_flatten d s []

/-- `split(buf, delims)` as the code is: NUL is a delimiter too, whatever
`delims` says (`strchr(delims, 0)` finds the terminator of `delims`).
Holds for every buffer; no access outside the buffer. -/
theorem splitDelims_eq_runs_with_nul (buf delims : Str) :
    splitDelims buf delims = some (runs (fun c => c == NUL || delims.contains c) buf) := by
  unfold splitDelims
  split
  · rename_i h
    have : buf = [] := List.eq_nil_of_length_eq_zero h
    subst this; rfl
  · rw [splitDelimsLoop_eq delims _ buf [] (by omega)]
    simp only [List.nil_append]
    rfl

/-
  FULL STATEMENT (false on the tree, see `splitDelims_nul_witness`):
     ∀ buf delims, splitDelims buf delims = some (runs (fun c => delims.contains c) buf)
  Proved part: buffers without NUL.   Recorded finding: C19-split-delims-nul.
-/
theorem splitDelims_eq_runs_partial (buf delims : Str) (h : NUL ∉ buf) :
    splitDelims buf delims = some (runs (fun c => delims.contains c) buf) := by
  rw [splitDelims_eq_runs_with_nul]
  congr 1
  apply runs_congr
  intro c hc
  have : c ≠ NUL := fun e => h (e ▸ hc)
  simp [this]

/-- "a\0a" split at "," : the code returns two tokens, the definition one -/
theorem splitDelims_nul_witness :
    splitDelims [0x61#8, NUL, 0x61#8] [0x2c#8]
      ≠ some (runs (fun c => [0x2c#8].contains c) [0x61#8, NUL, 0x61#8]) := by decide

-- non-vacuity of the hypothesis of `splitDelims_eq_runs_partial`
example : NUL ∉ ([0x61#8, 0x20#8, 0x62#8] : Str) := by decide

/-- before `fix: split(buffer, char) tests for the end of the buffer …` the
delimiter-skipping loop read the byte behind the buffer — on the empty buffer
and after the last token of any other -/
theorem splitCharOrig_overread_witness :
    splitCharOrig [] SP = none ∧ splitCharOrig [0x61#8] SP = none := by decide

/-! ## join, and join ∘ split / split ∘ join -/

/-- `join(vec, delim)` = the tokens with one delimiter between neighbours -/
theorem join_eq_intercalate (vec : List Str) (delim : Byte) :
    join vec delim = List.intercalate [delim] vec := by
  unfold join
  split
  · rename_i h
    have : vec = [] := List.eq_nil_of_length_eq_zero h
    subst this; rfl
  · rw [joinLoop_eq]; simp

/-- the iterator-range `join` of string.h (with the repaired empty range) -/
theorem joinFmt_eq (vec : List Str) (delim pre post : Str) :
    joinFmt vec delim pre post = pre ++ List.intercalate delim vec ++ post := by
  unfold joinFmt
  split
  · rename_i h
    have : vec = [] := List.eq_nil_of_length_eq_zero h
    subst this; simp [List.intercalate]
  · simp only [joinLoop_eq]

/-- split ∘ join = id on lists of non-empty delimiter-free tokens -/
theorem split_join (toks : List Str) (delim : Byte)
    (h : ∀ t ∈ toks, t ≠ [] ∧ delim ∉ t) :
    splitChar (join toks delim) delim = some toks := by
  rw [splitChar_eq_runs, join_eq_intercalate]
  congr 1
  apply runs_split_join _ delim (by simp)
  intro t ht
  refine ⟨(h t ht).1, fun c hc => ?_⟩
  have : c ≠ delim := fun e => (h t ht).2 (e ▸ hc)
  simpa using this

-- the hypothesis is satisfiable
example : ∀ t ∈ ([[0x61#8], [0x62#8, 0x63#8]] : List Str), t ≠ [] ∧ SP ∉ t := by decide

/-- what split returns is such a token list: join ∘ split is a fixed point of split -/
theorem split_join_split (buf : Str) (delim : Byte) :
    ∀ toks, splitChar buf delim = some toks → splitChar (join toks delim) delim = some toks := by
  intro toks h
  rw [splitChar_eq_runs] at h
  cases h
  apply split_join
  intro t ht
  have := runs_tokens (· == delim) buf t ht
  refine ⟨this.1, fun hm => ?_⟩
  have := this.2 delim hm
  simp at this

end Igris.C19
