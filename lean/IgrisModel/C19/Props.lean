import IgrisModel.C19.Lemmas
namespace Igris.C19
open Igris.Proto

/-- before the repair, `split(buf, ' ')` read the byte behind an empty buffer -/
theorem splitCharOrig_empty_witness : splitCharOrig [] SP = none := by decide

end Igris.C19
