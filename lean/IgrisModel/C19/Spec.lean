/-
  C19 — reference specifications: simple definitions over lists, written
  without pointers, offsets, fuel or buffers.  (Core Lean only.)
-/
import IgrisModel.C19.Model
namespace Igris.C19
open Igris.Proto

/-! ### maximal runs of non-delimiter characters

Left-to-right scan with the token collected so far: a delimiter (or the end)
closes a non-empty token, a non-delimiter extends it. -/
def runsGo (d : Byte → Bool) : Str → Str → List Str
  | acc, [] => if acc.isEmpty then [] else [acc]
  | acc, c :: cs =>
    if d c then (if acc.isEmpty then runsGo d [] cs else acc :: runsGo d [] cs)
    else runsGo d (acc ++ [c]) cs

def runs (d : Byte → Bool) (s : Str) : List Str := runsGo d [] s

/-- strip: drop the leading, then the trailing characters satisfying `w` -/
def strip (w : Byte → Bool) (s : Str) : Str :=
  ((s.dropWhile w).reverse.dropWhile w).reverse

/-! ### first occurrence -/

/-- `sub` occurs in `l` at offset `i` -/
def OccursAt (sub l : Str) (i : Nat) : Prop := sub <+: l.drop i

/-- offset of the first occurrence of `sub` in `l` -/
def firstOcc (sub : Str) : Str → Option Nat
  | [] => if sub.isEmpty then some 0 else none
  | c :: cs => if sub.isPrefixOf (c :: cs) then some 0 else (firstOcc sub cs).map (· + 1)

/-! ### left-to-right non-overlapping substitution

Scan left to right; `skip` = characters of the last match still to be passed
over.  At a position outside a match: if `sub` matches here, emit `rep` and
skip the match, otherwise emit the character. -/
def substGo (sub rep : Str) : Nat → Str → Str
  | _, [] => []
  | k + 1, _ :: cs => substGo sub rep k cs
  | 0, c :: cs =>
    if sub.isPrefixOf (c :: cs) then rep ++ substGo sub rep (sub.length - 1) cs
    else c :: substGo sub rep 0 cs

/-- an empty pattern is never replaced (convention of both igris routines) -/
def subst (sub rep s : Str) : Str := if sub.isEmpty then s else substGo sub rep 0 s

/-! ### split_cmdargs: tokens separated by spaces, a token that starts with a
quote character runs to the matching quote (or to the end) -/
inductive CmdMode
  | gap
  | word (acc : Str)
  | quote (q : Byte) (acc : Str)

def cmdGo : CmdMode → Str → List Str
  | .gap, [] => []
  | .word acc, [] => [acc]
  | .quote _ acc, [] => [acc]
  | .gap, c :: cs =>
    if c == SP then cmdGo .gap cs
    else if c == DQ || c == SQ then cmdGo (.quote c []) cs
    else cmdGo (.word [c]) cs
  | .word acc, c :: cs => if c == SP then acc :: cmdGo .gap cs else cmdGo (.word (acc ++ [c])) cs
  | .quote q acc, c :: cs => if c == q then acc :: cmdGo .gap cs else cmdGo (.quote q (acc ++ [c])) cs

def cmdargsSpec (s : Str) : List Str := cmdGo .gap s

/-! ### command lines -/

/-- white space of the argv splitter: `" \r\n\t"` -/
def isWsArgv (c : Byte) : Bool := c == SP || c == CR || c == NL || c == TAB

/-- `new` is `old` except that some white-space characters have been replaced
by the terminator NUL (same length, nothing else changed) -/
def onlyTerminated : Str → Str → Bool
  | [], [] => true
  | a :: as, b :: bs => (a == b || (a == NUL && isWsArgv b)) && onlyTerminated as bs
  | _, _ => false

/-- expected behaviour of a dispatcher on the token list of the line -/
def dispatchSpec (rcBlank : Int) (toks : List Str) (tables : List (List Str × Nat)) : Dispatch :=
  match toks with
  | [] => ⟨rcBlank, none⟩
  | t0 :: _ =>
    match findCmdTables t0 tables 0 with
    | none => ⟨ENOENT, none⟩
    | some (k, drop) => ⟨0, some (k, (toks.length : Int) - drop, toks.drop drop)⟩


/-! ### paths, component-wise -/

/-- the pieces between slashes (always at least one: `""` gives `[""]`,
`"/a"` gives `["", "a"]`, `"a/"` gives `["a", ""]`) -/
def splitSlash : Str → List Str
  | [] => [[]]
  | c :: cs =>
    if c == SLASH then [] :: splitSlash cs
    else match splitSlash cs with
      | [] => [[c]]
      | p :: ps => (c :: p) :: ps

def joinSlash (cs : List Str) : Str := List.intercalate [SLASH] cs

/-- a component that counts: not empty and not `"."` -/
def isReal (c : Str) : Bool := !c.isEmpty && c != [DOT]

/-- the components of a path: `"/dev/./null"` gives `["dev", "null"]` -/
def comps (p : Str) : List Str := (splitSlash p).filter isReal

/-- drop leading slashes and single dots: the path from its first real component on -/
def skipRef (p : Str) : Str := joinSlash ((splitSlash p).dropWhile (fun c => !isReal c))

/-- the first piece of a path (up to the first slash) -/
def headComp (p : Str) : Str := p.takeWhile (· != SLASH)

/-- one step of `path_iterate` on a non-empty path: leave the first piece
(a leading slash counts as an empty piece), go to the next real component -/
def iterRef (p : Str) : Str := joinSlash ((splitSlash p).tail.dropWhile (fun c => !isReal c))

/-- lexicographic comparison of `char` strings (`char` is signed) -/
def lexCmp : Str → Str → Int
  | [], [] => 0
  | [], _ :: _ => -1
  | _ :: _, [] => 1
  | x :: xs, y :: ys => if x == y then lexCmp xs ys else if x.slt y then -1 else 1

/-- `path_remove_prefix`: while both paths are non-empty and their first pieces
are equal, step both to their next component; what is left of `path` -/
def removePrefixRef : Nat → Str → Str → Str
  | 0, p, _ => p
  | f + 1, p, q =>
    if p.isEmpty || q.isEmpty then p
    else if headComp p == headComp q then removePrefixRef f (iterRef p) (iterRef q)
    else p


/-- enough steps for any `p`: every step shortens it -/
def removePrefixSpec (p q : Str) : Str := removePrefixRef (p.length + 1) p q


/-! ### lines -/

/-- the first line of a non-empty `s`: (its length, characters consumed).
A line ends at `\n` or NUL; carriage returns directly in front of the
terminator do not belong to it; a last line without terminator is taken as
it is. -/
def lineRef (s : Str) : Nat × Nat :=
  let body := s.takeWhile (fun c => c != NL && c != NUL)
  if body.length = s.length then (body.length, body.length)
  else ((body.reverse.dropWhile (· == CR)).length, body.length + 1)

end Igris.C19
