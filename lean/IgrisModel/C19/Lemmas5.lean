/- C19 round 3b: index-level `path_compare_node` against the cursor model. -/
import IgrisModel.C19.Model3
import IgrisModel.C19.LemmasPtr
namespace Igris.C19
open Igris.Proto

/-- value side: whenever the cursor model yields a value, the index-level model yields it
(no `oob`, no `fuel`) -/
theorem compareNodeP_ok (ma mb : Str) : ∀ (f a b : Nat) (v : Int), ma.length < a + f →
    compareNode (ma.drop a) (mb.drop b) = some v → compareNodeP ma mb f a b = .ok v := by
  intro f
  induction f with
  | zero =>
    intro a b v hf h
    have : ma.drop a = [] := List.drop_eq_nil_of_le (by omega)
    rw [this] at h; simp [compareNode] at h
  | succ f ih =>
    intro a b v hf h
    by_cases ha : a < ma.length
    · rw [drop_cons_of_lt ma a ha] at h
      unfold compareNodeP
      rw [rd_lt ma a ha]
      simp only [PR.ok_bind]
      unfold compareNode at h
      by_cases h1 : (ma[a] != NUL && ma[a] != SLASH) = true
      · simp only [h1, if_true] at h ⊢
        by_cases hb : b < mb.length
        · rw [drop_cons_of_lt mb b hb] at h
          rw [rd_lt mb b hb]
          simp only [PR.ok_bind] at h ⊢
          by_cases h2 : (mb[b] != NUL && mb[b] != SLASH) = true
          · simp only [h2, if_true] at h ⊢
            by_cases h3 : (ma[a] == mb[b]) = true
            · simp only [h3, if_true] at h ⊢
              exact ih (a + 1) (b + 1) v (by omega) h
            · simp only [h3] at h ⊢
              simp only [Bool.false_eq_true, if_false] at h ⊢
              injection h with h; rw [← h]; rfl
          · simp only [h2] at h ⊢
            simp only [Bool.false_eq_true, if_false] at h ⊢
            injection h with h; rw [← h]; rfl
        · have : mb.drop b = [] := List.drop_eq_nil_of_le (by omega)
          rw [this] at h; simp at h
      · simp only [h1] at h ⊢
        simp only [Bool.false_eq_true, if_false] at h ⊢
        by_cases hb : b < mb.length
        · rw [drop_cons_of_lt mb b hb] at h
          rw [rd_lt mb b hb]
          simp only [PR.ok_bind] at h ⊢
          split at h <;> (injection h with h; rw [← h]; simp_all)
        · have : mb.drop b = [] := List.drop_eq_nil_of_le (by omega)
          rw [this] at h; simp at h
    · have : ma.drop a = [] := List.drop_eq_nil_of_le (by omega)
      rw [this] at h; simp [compareNode] at h

/-- fault side: whenever the cursor model faults (a read on the empty cursor), the index-level
model reports an access exactly at the end of one of the two blocks -/
theorem compareNodeP_oob (ma mb : Str) : ∀ (f a b : Nat), ma.length < a + f →
    a ≤ ma.length → b ≤ mb.length →
    compareNode (ma.drop a) (mb.drop b) = none →
    compareNodeP ma mb f a b = .oob ma.length ∨ compareNodeP ma mb f a b = .oob mb.length := by
  intro f
  induction f with
  | zero => intro a b hf ha; omega
  | succ f ih =>
    intro a b hf hal hbl h
    by_cases ha : a < ma.length
    · rw [drop_cons_of_lt ma a ha] at h
      unfold compareNodeP
      rw [rd_lt ma a ha]
      simp only [PR.ok_bind]
      unfold compareNode at h
      by_cases hb : b < mb.length
      · rw [drop_cons_of_lt mb b hb] at h
        rw [rd_lt mb b hb]
        simp only [PR.ok_bind] at h ⊢
        by_cases h1 : (ma[a] != NUL && ma[a] != SLASH) = true
        · simp only [h1, if_true] at h ⊢
          by_cases h2 : (mb[b] != NUL && mb[b] != SLASH) = true
          · simp only [h2, if_true] at h ⊢
            by_cases h3 : (ma[a] == mb[b]) = true
            · simp only [h3, if_true] at h ⊢
              exact ih (a + 1) (b + 1) (by omega) (by omega) (by omega) h
            · simp only [h3] at h; simp at h
          · simp only [h2] at h; simp at h
        · simp only [h1] at h
          simp only [Bool.false_eq_true, if_false] at h
          split at h <;> simp at h
      · have hbe : b = mb.length := by omega
        rw [rd_ge mb b (by omega)]
        right
        by_cases h1 : (ma[a] != NUL && ma[a] != SLASH) = true
        · simp only [h1, if_true, PR.oob_bind, hbe]
        · simp only [h1, Bool.false_eq_true, if_false, PR.oob_bind, hbe]
    · have hae : a = ma.length := by omega
      left
      unfold compareNodeP
      rw [rd_ge ma a (by omega)]
      simp only [PR.oob_bind, hae]

end Igris.C19
