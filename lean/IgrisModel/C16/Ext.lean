/-
  C16 — the parts of igris/time/timer_manager.h that `Model.lean` leaves out, written the way the
  code is written (core Lean only):

  * `set_start` / `set_interval` on a timer object (planned or not) and the one-argument
    `plan(tim)` — a setter on a PLANNED timer changes its deadline without moving it in the list;
  * destroying a timer (`~timer_head_basic` → `~dlist_node` → `unlink()`), here: the object is
    deleted and a fresh one (start 0, interval 0, not planned) is constructed in the same slot;
  * destroying the manager while timers are planned (`~dlist_base`: `pop_front` until empty):
    every timer becomes unplanned, the objects keep their fields;
  * callbacks that do any of this and callbacks that call `exec(now')` of the same manager
    (nested `exec`).  The `k`-th callback of the OUTER exec runs first, the callbacks of a nested
    exec are numbered after it (`k+1, …`) and appear after it in the callback sequence; the outer
    loop continues with the next free number.
-/
import IgrisModel.C16.Model
namespace Igris.C16

/-- `tim.set_start(v)` -/
def Mgr.setStart (m : Mgr) (i : Nat) (v : Int) : Mgr :=
  { m with tm := setTm m.tm i { m.tm i with start := v } }

/-- `tim.set_interval(v)` -/
def Mgr.setInterval (m : Mgr) (i : Nat) (v : Int) : Mgr :=
  { m with tm := setTm m.tm i { m.tm i with interval := v } }

/-- `delete tim; tim = new timer(...)`: the destructor unlinks the node, the fresh object has
`_start = 0`, `_interval = 0` and is not planned -/
def Mgr.destroy (m : Mgr) (i : Nat) : Mgr :=
  { (m.unplan i) with tm := setTm m.tm i {} }

/-- `~timer_manager_basic` → `~dlist_base`: `while (!empty()) pop_front();` then a fresh manager -/
def Mgr.dropMgr (m : Mgr) : Mgr := { m with lst := [] }

/-- what a callback may do (extended) -/
inductive ActX where
  | unplan (j : Nat)
  | plan (j : Nat) (start interval : Int)
  | setStart (j : Nat) (v : Int)
  | setInterval (j : Nat) (v : Int)
  /-- `manager.plan(tim_j)` with the fields the timer has -/
  | replan (j : Nat)
  | destroy (j : Nat)
  /-- `manager.exec(now)` from inside the callback -/
  | exec (now : Int)
deriving DecidableEq, Repr

def ActX.ofAction : Action → ActX
  | .unplan j => .unplan j
  | .plan j s iv => .plan j s iv

abbrev CbX := Nat → Nat → List ActX

/-- how an `exec` ended -/
inductive Stat where
  /-- the loop exited by itself -/
  | done
  /-- fuel ran out with a due head (the real loop would still be running) -/
  | running
  /-- the callback destroyed its own timer: `exec` then reads `tim.is_planned()` of a dead object -/
  | uaf
deriving DecidableEq, Repr

/-- the calls that are not `exec` -/
def applyX (m : Mgr) : ActX → Mgr
  | .unplan j => m.unplan j
  | .plan j s iv => m.plan3 j s iv
  | .setStart j v => m.setStart j v
  | .setInterval j v => m.setInterval j v
  | .replan j => m.plan j
  | .destroy j => m.destroy j
  | .exec _ => m

/-- the calls of one callback in order; `ex` is the manager's `exec` (for nested calls), `k` the
next free callback number.  Result: manager, callbacks made by nested execs, status. -/
def runActsX (ex : Int → Nat → Mgr → Mgr × List Fire × Stat) (k : Nat) (m : Mgr) :
    List ActX → Mgr × List Fire × Stat
  | [] => (m, [], .done)
  | .exec now :: as =>
    let r := ex now k m
    if r.2.2 = .done then
      let r' := runActsX ex (k + r.2.1.length) r.1 as
      (r'.1, r.2.1 ++ r'.2.1, r'.2.2)
    else r
  | a :: as => runActsX ex k (applyX m a) as

/-- `exec(now)` with callbacks that may do everything in `ActX` -/
def execX (cb : CbX) : Nat → Int → Nat → Mgr → Mgr × List Fire × Stat
  | 0, now, _, m => (m, [], if (m.headDue now).isNone then .done else .running)
  | fuel + 1, now, k, m =>
    match m.headDue now with
    | none => (m, [], .done)
    | some i =>
      let f : Fire := ⟨i, (m.tm i).finish⟩
      let c := runActsX (execX cb fuel) (k + 1) m (cb k i)
      if c.2.2 = .done then
        if ActX.destroy i ∈ cb k i then (c.1, f :: c.2.1, .uaf)
        else
          let r := execX cb fuel now (k + 1 + c.2.1.length) (rearm c.1 i (m.tm i))
          (r.1, f :: (c.2.1 ++ r.2.1), r.2.2)
      else (c.1, f :: c.2.1, c.2.2)

end Igris.C16
