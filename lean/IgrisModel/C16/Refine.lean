/-
  C16 — the manager refines the reference scheduler.
-/
import IgrisModel.C16.Lemmas
namespace Igris.C16

theorem absM_unplan (m : Mgr) (j : Nat) : absM (m.unplan j) = (absM m).unplan j := by
  funext x
  simp only [absM, Ref.unplan, mem_unplan, unplan_tm]
  by_cases hx : x = j
  · simp [hx]
  · simp [hx]

theorem absM_plan3 (m : Mgr) (j : Nat) (s iv : Int) : absM (m.plan3 j s iv) = (absM m).plan j s iv := by
  funext x
  simp only [absM, Ref.plan, mem_plan3, plan3_tm]
  by_cases hx : x = j
  · subst hx; simp [Timer.finish]
  · simp [hx, setTm_other _ _ hx]

theorem absM_applyAct (m : Mgr) (a : Action) : absM (applyAct m a) = (absM m).act a := by
  cases a with
  | unplan j => exact absM_unplan m j
  | plan j s iv => exact absM_plan3 m j s iv

theorem absM_runCb (m : Mgr) (l : List Action) : absM (runCb m l) = (absM m).acts l := by
  induction l generalizing m with
  | nil => rfl
  | cons a as ih =>
    rw [runCb_cons, ih, absM_applyAct]
    rfl

theorem Timer.ext' {a b : Timer} (h1 : a.finish = b.finish) (h2 : a.interval = b.interval) : a = b := by
  cases a; cases b
  simp only [Timer.finish] at h1
  simp only at h2
  subst h2
  simp only [Timer.mk.injEq, and_true]
  omega

theorem absM_execBody (m : Mgr) (acts : List Action) (i : Nat) (hi : i ∈ m.lst) :
    absM (execBody acts m i) = (absM m).fired i acts := by
  have hri : absM m i = some ((m.tm i).finish, (m.tm i).interval) := by simp [absM, hi]
  unfold Ref.fired
  rw [hri]
  simp only
  rw [← absM_runCb]
  unfold execBody
  rcases rearm_self (runCb m acts) i (m.tm i) with ⟨h1, h2⟩ | ⟨h1, h2, h3, h4⟩ | ⟨h1, h2, h3, h4⟩
  · rw [h2]
    have : absM (runCb m acts) i = Option.none := by simp [absM, h1]
    simp [this]
  · have : absM (runCb m acts) i = some ((m.tm i).finish, (m.tm i).interval) := by simp [absM, h1, h2]
    simp only [this, if_true]
    funext x
    by_cases hx : x = i
    · subst hx
      simp [absM, h4, h3]
    · have ho := rearm_other (runCb m acts) i x (m.tm i) hx
      simp only [hx, if_false]
      simp only [absM, ho.1, ho.2]
  · have : absM (runCb m acts) i ≠ some ((m.tm i).finish, (m.tm i).interval) := by
      simp only [absM, h1, if_true, ne_eq, Option.some.injEq, Prod.mk.injEq, not_and]
      intro e1 e2
      exact h2 (Timer.ext' e1 e2)
    simp only [this, if_false]
    funext x
    by_cases hx : x = i
    · subst hx
      simp [absM, h4, h3, h1]
    · have ho := rearm_other (runCb m acts) i x (m.tm i) hx
      simp only [absM, ho.1, ho.2]

/-- every (finished) run of the loop is a run of the reference scheduler -/
theorem Steps.refines {cb : Cb} {now : Int} {k : Nat} {m m' : Mgr} {fs : List Fire}
    (h : Steps cb now k m fs m') (hcb : CbPos cb) (hm : WF m) (hdone : m'.headDue now = Option.none) :
    Ref.Exec cb now k (absM m) fs (absM m') := by
  induction h with
  | nil k m =>
    apply Ref.Exec.done
    intro i d p hp
    simp only [absM] at hp
    split at hp
    · rename_i hi
      simp only [Option.some.injEq, Prod.mk.injEq] at hp
      rw [← hp.1]; exact none_due hm hdone i hi
    · simp at hp
  | @cons k m m' i fs hd tl ih =>
    obtain ⟨rest, hl, hdue⟩ := headDue_some hd
    have hi : i ∈ m.lst := by rw [hl]; simp
    have hmin := Sorted.head_le (hl ▸ hm.sorted)
    refine Ref.Exec.fire (p := (m.tm i).interval) (by simp [absM, hi]) hdue ?_ ?_
    · intro j d' p' hp
      simp only [absM] at hp
      split at hp
      · rename_i hj
        simp only [Option.some.injEq, Prod.mk.injEq] at hp
        rw [← hp.1]; exact hmin j (hl ▸ hj)
      · simp at hp
    · rw [← absM_execBody m (cb k i) i hi]
      exact ih (hm.execBody _ (hcb k i) i) hdone

/-! ### observables -/

theorem absM_pending (m : Mgr) (i : Nat) : i ∈ m.lst ↔ absM m i ≠ Option.none := by
  simp only [absM]
  split <;> simp_all

theorem absM_empty (m : Mgr) : m.empty = true ↔ (absM m).IsEmpty := by
  simp only [Mgr.empty, List.isEmpty_iff, Ref.IsEmpty, absM]
  constructor
  · intro h i; simp [h]
  · intro h
    cases hl : m.lst with
    | nil => rfl
    | cons x xs =>
      have := h x
      simp [hl] at this

theorem absM_minimal (m : Mgr) (now v : Int) (hm : WF m) (h : m.minimalInterval now = some v) :
    (absM m).Earliest (v + now) := by
  unfold Mgr.minimalInterval at h
  split at h
  · simp at h
  · rename_i i rest hl
    simp only [Option.some.injEq] at h
    have hi : i ∈ m.lst := by rw [hl]; simp
    have hmin := Sorted.head_le (hl ▸ hm.sorted)
    have e : v + now = (m.tm i).finish := by omega
    rw [e]
    refine ⟨⟨i, (m.tm i).interval, by simp [absM, hi]⟩, ?_⟩
    intro j d' p' hp
    simp only [absM] at hp
    split at hp
    · rename_i hj
      simp only [Option.some.injEq, Prod.mk.injEq] at hp
      rw [← hp.1]; exact hmin j (hl ▸ hj)
    · simp at hp

/-! ### a run that never ends (callbacks re-planning into the past) -/

theorem pastCb_body (k : Nat) (m : Mgr) (hl : m.lst = [0]) (ht : m.tm 0 = ⟨-(k : Int), 1⟩) :
    (execBody (pastCb k 0) m 0).lst = [0] ∧ (execBody (pastCb k 0) m 0).tm 0 = ⟨-((k + 1 : Nat) : Int), 1⟩ := by
  have h1l : (runCb m (pastCb k 0)).lst = [0] := by
    simp [pastCb, runCb, applyAct, Mgr.plan3, Mgr.plan, Mgr.unplan, hl, insertBefore]
  have h1t : (runCb m (pastCb k 0)).tm 0 = ⟨-(k : Int) - 1, 1⟩ := by
    simp [pastCb, runCb, applyAct]
  have hmem : 0 ∈ (runCb m (pastCb k 0)).lst := by rw [h1l]; simp
  have hne : (runCb m (pastCb k 0)).tm 0 ≠ m.tm 0 := by
    rw [h1t, ht]; simp only [ne_eq, Timer.mk.injEq, and_true]; omega
  unfold execBody
  rw [rearm_changed _ 0 _ hmem hne]
  refine ⟨?_, ?_⟩
  · simp [Mgr.plan, Mgr.unplan, h1l, insertBefore]
  · simp only [plan_tm, unplan_tm, h1t, Timer.mk.injEq, and_true]; omega

theorem pastCb_never (fuel k : Nat) (m : Mgr) (hl : m.lst = [0]) (ht : m.tm 0 = ⟨-(k : Int), 1⟩) :
    (execLoop pastCb 5 fuel k m).2.2 = false := by
  have hd : m.headDue 5 = some 0 := by
    unfold Mgr.headDue
    rw [hl]
    simp only [ht, Timer.check]
    rw [if_pos]
    simp only [decide_eq_true_eq]; omega
  induction fuel generalizing k m with
  | zero => simp [execLoop, hd]
  | succ n ih =>
    unfold execLoop
    simp only [hd]
    have hb := pastCb_body k m hl ht
    apply ih (k + 1) _ hb.1 hb.2
    unfold Mgr.headDue
    rw [hb.1]
    simp only [hb.2, Timer.check]
    rw [if_pos]
    simp only [decide_eq_true_eq]; omega
end Igris.C16

namespace Igris.C16

/-- a planned timer that is due when the loop starts gets its callback, unless an earlier
callback of this exec made a call naming it -/
theorem Steps.due_runs {cb : Cb} {now : Int} {k : Nat} {m m' : Mgr} {fs : List Fire}
    (h : Steps cb now k m fs m') (hcb : CbPos cb) (hm : WF m) (hdone : m'.headDue now = Option.none)
    (i : Nat) (hi : i ∈ m.lst) (hdue : (m.tm i).finish ≤ now) :
    (∃ f ∈ fs, f.id = i ∧ f.deadline = (m.tm i).finish) ∨
    (∃ n f a, fs[n]? = some f ∧ a ∈ cb (k + n) f.id ∧ a.target = i) := by
  induction h with
  | nil k m =>
    have := none_due hm hdone i hi
    omega
  | @cons k m m' j fs hd tl ih =>
    by_cases hji : j = i
    · subst hji
      left
      exact ⟨_, List.mem_cons_self, rfl, rfl⟩
    · by_cases ht : ∃ a ∈ cb k j, a.target = i
      · obtain ⟨a, ha, hta⟩ := ht
        right
        exact ⟨0, ⟨j, (m.tm j).finish⟩, a, by simp, by simpa using ha, hta⟩
      · have hu : ∀ a ∈ cb k j, a.target ≠ i := fun a ha e => ht ⟨a, ha, e⟩
        have hb := execBody_untouched_other m (cb k j) i j hu (Ne.symm hji)
        have hm2 := hm.execBody (cb k j) (hcb k j) j
        rcases ih hm2 hdone (hb.2.mpr hi) (by rw [hb.1]; exact hdue) with ⟨f, hf, h1, h2⟩ | ⟨n, f, a, h1, h2, h3⟩
        · left
          exact ⟨f, List.mem_cons_of_mem _ hf, h1, by rw [h2, hb.1]⟩
        · right
          refine ⟨n + 1, f, a, by simpa using h1, ?_, h3⟩
          have e : k + (n + 1) = k + 1 + n := by omega
          rw [e]; exact h2

end Igris.C16
