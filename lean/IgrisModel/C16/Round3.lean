/-
  C16 — helper lemmas of extension round 3: signed residues modulo 2^w, the firing lists of the
  `w`-bit manager, the delegate model.
-/
import IgrisModel.C16.WrapNLemmas
import IgrisModel.C16.Delegate
import IgrisModel.C16.Guard
import IgrisModel.C16.More
namespace Igris.C16
variable {w : Nat}

theorem toInt_range (x : BitVec w) : -(2 ^ (w - 1) : Int) ≤ x.toInt ∧ x.toInt < 2 ^ (w - 1) := by
  have h1 := @BitVec.le_toInt w x
  have h2 := @BitVec.toInt_lt w x
  constructor
  · simpa using h1
  · simpa using h2

/-- the balanced residue of a number between −2^w and 2^w, case by case -/
theorem bmod_cases (hw : 0 < w) (e : Int) (h1 : -(2 ^ w : Int) < e) (h2 : e < 2 ^ w) :
    e.bmod (2 ^ w) = if e < -(2 ^ (w - 1)) then e + 2 ^ w else if e < 2 ^ (w - 1) then e else e - 2 ^ w := by
  have hp := two_pow_half w hw
  have hpos : (0 : Int) < 2 ^ (w - 1) := Int.pow_pos (by decide)
  rw [Int.bmod_def, cast_two_pow]
  by_cases h0 : 0 ≤ e
  · rw [Int.emod_eq_of_lt h0 h2]
    split <;> split <;> (try split) <;> omega
  · have e1 : e % 2 ^ w = e + 2 ^ w := by
      rw [← Int.add_emod_right, Int.emod_eq_of_lt (by omega) (by omega)]
    rw [e1]
    split <;> split <;> (try split) <;> omega

/-- deadlines of timer `i` in the firing lists, read modulo 2^w -/
theorem fires_toN (w : Nat) (i : Nat) (fss : List (List Fire)) :
    (((fss.map (fun fs => fs.map (Fire.toN w))).flatten.filter (fun f => f.id = i)).map (·.deadline)) =
      ((fss.flatten.filter (fun f => f.id = i)).map (·.deadline)).map (wrN w) := by
  induction fss with
  | nil => rfl
  | cons fs fss ih =>
    simp only [List.map_cons, List.flatten_cons, List.filter_append, List.map_append, ih]
    congr 1
    induction fs with
    | nil => rfl
    | cons f fs ih2 =>
      simp only [List.map_cons, List.filter_cons, Fire.toN]
      split <;> simp_all

/-! ### the re-entrancy guard -/

theorem runActsX_guard (k : Nat) (m : Mgr) (acts : List ActG) :
    runActsX execReentered k m (acts.map ActG.toX) = (runCb m (acts.filterMap ActG.base?), [], .done) := by
  induction acts generalizing m k with
  | nil => rfl
  | cons a as ih =>
    cases a with
    | base b =>
      cases b with
      | unplan j => simp only [List.map_cons, ActG.toX, ActX.ofAction, runActsX, applyX, List.filterMap_cons, ActG.base?]; rw [ih]; rfl
      | plan j s iv => simp only [List.map_cons, ActG.toX, ActX.ofAction, runActsX, applyX, List.filterMap_cons, ActG.base?]; rw [ih]; rfl
    | exec now =>
      simp only [List.map_cons, ActG.toX, runActsX, execReentered, List.filterMap_cons, ActG.base?, if_true,
        List.length_nil, Nat.add_zero, List.nil_append]
      rw [ih]

theorem not_destroy_mem_guard (i : Nat) (acts : List ActG) : ActX.destroy i ∉ acts.map ActG.toX := by
  intro h
  obtain ⟨a, _, e⟩ := List.mem_map.mp h
  cases a with
  | base b => cases b <;> simp [ActG.toX, ActX.ofAction] at e
  | exec now => simp [ActG.toX] at e

theorem execG_guard_aux (cb : Nat → Nat → List ActG) (fuel : Nat) (now : Int) (k : Nat) (m : Mgr) :
    execG (fun k i => (cb k i).map ActG.toX) fuel now k m =
      ((execLoop (fun k i => (cb k i).filterMap ActG.base?) now fuel k m).1,
       (execLoop (fun k i => (cb k i).filterMap ActG.base?) now fuel k m).2.1,
       statOfBool (execLoop (fun k i => (cb k i).filterMap ActG.base?) now fuel k m).2.2) := by
  induction fuel generalizing k m with
  | zero =>
    simp only [execG, execLoop]
    cases (m.headDue now) <;> rfl
  | succ n ih =>
    unfold execG execLoop
    cases hd : m.headDue now with
    | none => rfl
    | some i =>
      simp only [runActsX_guard, not_destroy_mem_guard, if_true, if_false, List.length_nil, Nat.add_zero,
        List.nil_append]
      rw [ih]
      rfl

end Igris.C16
