/-
  C16 — the SAME manager instantiated over a wrapping tick counter:

    igris::timer_manager_basic<igris::timer_spec<uint32_t>>     (difftime_t = uint32_t)

  Every arithmetic operation is the code's `uint32_t` operation (`BitVec 32`):
    finish()  = _start + _interval                      (mod 2^32)
    check(c)  = c - _start >= _interval                 (unsigned comparison of a mod-2^32 difference)
    shift()   : _start += _interval                     (mod 2^32)
    plan      : "deadline a is earlier than deadline b" —
                `Cmp.less`        a < b                          (unsigned; the code as shipped)
                `Cmp.signedDiff`  (int32_t)(a - b) < 0           (the repaired code, fix-C16)
    minimal_interval(c) = first().finish() - c           (mod 2^32)

  Core Lean only.  The list / callback structure is that of `Model.lean`.
-/
import IgrisModel.C16.Model
namespace Igris.C16

/-- `uint32_t` -/
abbrev W32 := BitVec 32

structure TimerW where
  start : W32 := 0
  interval : W32 := 0
deriving DecidableEq, Repr, Inhabited

namespace TimerW
/-- `finish(): return _start + _interval;` -/
def finish (t : TimerW) : W32 := t.start + t.interval
/-- `check(curtime): return curtime - _start >= _interval;` (all `uint32_t`) -/
def check (t : TimerW) (curtime : W32) : Bool := decide (t.interval ≤ curtime - t.start)
/-- `shift(): _start += _interval;` -/
def shift (t : TimerW) : TimerW := { t with start := t.start + t.interval }
end TimerW

/-- how `plan` decides that deadline `a` comes before deadline `b` -/
inductive Cmp where
  /-- `finish < tim.finish()` on `uint32_t` (as shipped) -/
  | less
  /-- `static_cast<int32_t>(finish - tim.finish()) < 0` (repaired) -/
  | signedDiff
deriving DecidableEq, Repr

def Cmp.earlier : Cmp → W32 → W32 → Bool
  | .less, a, b => decide (a < b)
  | .signedDiff, a, b => decide ((a - b).toInt < 0)

structure MgrW where
  tm : Nat → TimerW
  lst : List Nat

def MgrW.init : MgrW := ⟨fun _ => {}, []⟩

def setTmW (tm : Nat → TimerW) (i : Nat) (t : TimerW) : Nat → TimerW :=
  fun x => if x = i then t else tm x

def MgrW.unplan (m : MgrW) (i : Nat) : MgrW := { m with lst := m.lst.filter (· != i) }

def insertBeforeW (c : Cmp) (tm : Nat → TimerW) (fin : W32) (i : Nat) : List Nat → List Nat
  | [] => [i]
  | j :: rest =>
    if c.earlier fin (tm j).finish then i :: j :: rest else j :: insertBeforeW c tm fin i rest

def MgrW.plan (c : Cmp) (m : MgrW) (i : Nat) : MgrW :=
  let fin := (m.tm i).finish
  let m1 := m.unplan i
  { m1 with lst := insertBeforeW c m1.tm fin i m1.lst }

def MgrW.plan3 (c : Cmp) (m : MgrW) (i : Nat) (s iv : W32) : MgrW :=
  MgrW.plan c { m with tm := setTmW m.tm i ⟨s, iv⟩ } i

inductive ActionW where
  | unplan (j : Nat)
  | plan (j : Nat) (start interval : W32)
deriving DecidableEq, Repr

def applyActW (c : Cmp) (m : MgrW) : ActionW → MgrW
  | .unplan j => m.unplan j
  | .plan j s iv => m.plan3 c j s iv

def runCbW (c : Cmp) (m : MgrW) (acts : List ActionW) : MgrW := acts.foldl (applyActW c) m

abbrev CbW := Nat → Nat → List ActionW

structure FireW where
  id : Nat
  deadline : W32
deriving DecidableEq, Repr

def MgrW.headDue (m : MgrW) (now : W32) : Option Nat :=
  match m.lst with
  | [] => none
  | i :: _ => if (m.tm i).check now then some i else none

def rearmW (c : Cmp) (m1 : MgrW) (i : Nat) (t0 : TimerW) : MgrW :=
  if i ∈ m1.lst then
    let m2 := m1.unplan i
    let m3 : MgrW := if m2.tm i = t0 then { m2 with tm := setTmW m2.tm i (m2.tm i).shift } else m2
    m3.plan c i
  else m1

def execBodyW (c : Cmp) (acts : List ActionW) (m : MgrW) (i : Nat) : MgrW :=
  rearmW c (runCbW c m acts) i (m.tm i)

def execLoopW (c : Cmp) (cb : CbW) (now : W32) : Nat → Nat → MgrW → MgrW × List FireW × Bool
  | 0, _, m => (m, [], (m.headDue now).isNone)
  | fuel + 1, k, m =>
    match m.headDue now with
    | none => (m, [], true)
    | some i =>
      let r := execLoopW c cb now fuel (k + 1) (execBodyW c (cb k i) m i)
      (r.1, ⟨i, (m.tm i).finish⟩ :: r.2.1, r.2.2)

def MgrW.empty (m : MgrW) : Bool := m.lst.isEmpty

/-- `minimal_interval(curtime)`: `first().finish() - curtime` as `uint32_t` -/
def MgrW.minimalInterval (m : MgrW) (now : W32) : Option W32 :=
  match m.lst with
  | [] => none
  | i :: _ => some ((m.tm i).finish - now)

inductive OpW where
  | plan (i : Nat) (start interval : W32)
  | unplan (i : Nat)
  | exec (now : W32) (cb : CbW) (fuel : Nat)

def stepOpW (c : Cmp) (m : MgrW) : OpW → MgrW × List FireW × Bool
  | .plan i s iv => (m.plan3 c i s iv, [], true)
  | .unplan i => (m.unplan i, [], true)
  | .exec now cb fuel => execLoopW c cb now fuel 0 m

def runOpsW (c : Cmp) (m : MgrW) : List OpW → MgrW × List (List FireW) × Bool
  | [] => (m, [], true)
  | op :: ops =>
    let r := stepOpW c m op
    let r' := runOpsW c r.1 ops
    (r'.1, r.2.1 :: r'.2.1, r.2.2 && r'.2.2)

/-! ### reading an unbounded-time object modulo 2^32 -/

/-- truncation of an unbounded tick value to the 32-bit counter -/
def wr (x : Int) : W32 := BitVec.ofInt 32 x

def Timer.toW (t : Timer) : TimerW := ⟨wr t.start, wr t.interval⟩
def Mgr.toW (m : Mgr) : MgrW := ⟨fun i => (m.tm i).toW, m.lst⟩
def Action.toW : Action → ActionW
  | .unplan j => .unplan j
  | .plan j s iv => .plan j (wr s) (wr iv)
def Fire.toW (f : Fire) : FireW := ⟨f.id, wr f.deadline⟩
def cbToW (cb : Cb) : CbW := fun k i => (cb k i).map Action.toW
def Op.toW : Op → OpW
  | .plan i s iv => .plan i (wr s) (wr iv)
  | .unplan i => .unplan i
  | .exec now cb fuel => .exec (wr now) (cbToW cb) fuel

/-! ### stimer with the arithmetic done in `unsigned long` (`stimer.c` after the repair)

`long` has `w` bits (`w = 64` on the LP64 platform of the harness, `w = 32` on the ILP32
microcontrollers the library is written for):
`(long)((unsigned long)curtime - (unsigned long)start) >= interval`,
`start = (long)((unsigned long)start + (unsigned long)interval)`. -/

structure STimerN (w : Nat) where
  start : BitVec w := 0
  interval : BitVec w := 0
  planed : Bool := false
deriving DecidableEq, Repr, Inhabited

/-- `timer->planed && ((long)((unsigned long)curtime - (unsigned long)timer->start) >= timer->interval)` -/
def stimerCheckN {w : Nat} (t : STimerN w) (curtime : BitVec w) : Bool :=
  t.planed && decide (t.interval.toInt ≤ (curtime - t.start).toInt)

def stimerSwiftN {w : Nat} (t : STimerN w) : STimerN w := { t with start := t.start + t.interval }

def stimerFinishN {w : Nat} (t : STimerN w) : BitVec w := t.start + t.interval

def stimerPeriodicN {w : Nat} (t : STimerN w) (curtime : BitVec w) : STimerN w × Bool :=
  if stimerCheckN t curtime then (stimerSwiftN t, true) else (t, false)

def STimer.toN (w : Nat) (t : STimer) : STimerN w := ⟨BitVec.ofInt w t.start, BitVec.ofInt w t.interval, t.planed⟩

/-- the LP64 instance the harness runs -/
abbrev W64 := BitVec 64
abbrev STimerW := STimerN 64
def stimerCheckW (t : STimerW) (curtime : W64) : Bool := stimerCheckN t curtime
def stimerSwiftW (t : STimerW) : STimerW := stimerSwiftN t
def stimerFinishW (t : STimerW) : W64 := stimerFinishN t
def stimerPeriodicW (t : STimerW) (curtime : W64) : STimerW × Bool := stimerPeriodicN t curtime
def wr64 (x : Int) : W64 := BitVec.ofInt 64 x

end Igris.C16
