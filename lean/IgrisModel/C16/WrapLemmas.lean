/-
  C16 — the 32-bit wrapping manager (`Wrap.lean`) simulates the unbounded-time manager
  (`Model.lean`) as long as the history stays inside a window of the counter range.
-/
import IgrisModel.C16.Refine
import IgrisModel.C16.Wrap
namespace Igris.C16

/-! ### truncation -/

theorem wr_add (a b : Int) : wr (a + b) = wr a + wr b := by
  simp [wr, BitVec.ofInt_add]

theorem wr_sub (a b : Int) : wr (a - b) = wr a - wr b := by
  simp only [wr, Int.sub_eq_add_neg, BitVec.ofInt_add, BitVec.ofInt_neg, BitVec.sub_eq_add_neg]

theorem wr_toNat (x : Int) (h0 : 0 ≤ x) (h1 : x < 2 ^ 32) : ((wr x).toNat : Int) = x := by
  simp only [wr, BitVec.toNat_ofInt]
  omega

theorem wr_toInt (x : Int) (h0 : -(2 ^ 31) ≤ x) (h1 : x < 2 ^ 31) : (wr x).toInt = x := by
  simp only [wr, BitVec.toInt_ofInt, Int.bmod_def]
  split <;> omega

theorem wr_inj {a b : Int} (h : wr a = wr b) (h1 : -(2 ^ 31) ≤ a - b) (h2 : a - b < 2 ^ 31) : a = b := by
  have e : wr (a - b) = 0#32 := by rw [wr_sub, h]; simp
  have := wr_toInt (a - b) h1 h2
  rw [e] at this
  simp at this
  omega

@[simp] theorem toW_finish (t : Timer) : t.toW.finish = wr t.finish := by
  simp [Timer.toW, TimerW.finish, Timer.finish, wr_add]

@[simp] theorem toW_shift (t : Timer) : t.shift.toW = t.toW.shift := by
  simp [Timer.toW, TimerW.shift, Timer.shift, wr_add]

/-! ### the window -/

/-- a timer seen from time `now`: positive interval of at most `D`, started (not in the future),
deadline at most `G` behind -/
structure TWin (G D now : Int) (t : Timer) : Prop where
  pos : 0 < t.interval
  le : t.interval ≤ D
  start_le : t.start ≤ now
  fin_ge : now - G ≤ t.finish

/-- every planned timer is inside the window -/
def Win (G D now : Int) (m : Mgr) : Prop := ∀ i ∈ m.lst, TWin G D now (m.tm i)

def ActWin (G D now : Int) : Action → Prop
  | .unplan _ => True
  | .plan _ s iv => TWin G D now ⟨s, iv⟩

def CbWin (G D now : Int) (cb : Cb) : Prop := ∀ k i, ∀ a ∈ cb k i, ActWin G D now a

/-- the parameters: how late an `exec` may come (`G`), how long an interval may be (`D`) -/
structure Params (G D : Int) : Prop where
  g0 : 0 ≤ G
  gd : G + D < 2 ^ 31

theorem TWin.close {G D now : Int} {a b : Timer} (ha : TWin G D now a) (hb : TWin G D now b) :
    -(G + D) ≤ a.finish - b.finish ∧ a.finish - b.finish ≤ G + D := by
  have := ha.pos; have := ha.le; have := ha.start_le; have := ha.fin_ge
  have := hb.pos; have := hb.le; have := hb.start_le; have := hb.fin_ge
  simp only [Timer.finish] at *
  omega

theorem check_sim {G D now : Int} (P : Params G D) {t : Timer} (h : TWin G D now t) :
    t.toW.check (wr now) = t.check now := by
  have h1 := h.pos; have h2 := h.le; have h3 := h.start_le; have h4 := h.fin_ge
  have := P.g0; have := P.gd
  simp only [Timer.finish] at h4
  have a := wr_toNat t.interval (by omega) (by omega)
  have b := wr_toNat (now - t.start) (by omega) (by omega)
  simp only [Timer.toW, TimerW.check, Timer.check, ← wr_sub, BitVec.le_def, decide_eq_decide]
  omega

theorem earlier_sim {a b : Int} (h1 : -(2 ^ 31) ≤ a - b) (h2 : a - b < 2 ^ 31) :
    Cmp.signedDiff.earlier (wr a) (wr b) = decide (a < b) := by
  simp only [Cmp.earlier, ← wr_sub, wr_toInt (a - b) h1 h2, decide_eq_decide]
  omega

theorem toW_inj {G D now : Int} (P : Params G D) {a b : Timer} (ha : TWin G D now a) (hb : TWin G D now b)
    (h : a.toW = b.toW) : a = b := by
  have := ha.pos; have := ha.le; have := ha.start_le; have := ha.fin_ge
  have := hb.pos; have := hb.le; have := hb.start_le; have := hb.fin_ge
  have := P.g0; have := P.gd
  simp only [Timer.finish] at *
  simp only [Timer.toW, TimerW.mk.injEq] at h
  have e1 := wr_inj h.1 (by omega) (by omega)
  have e2 := wr_inj h.2 (by omega) (by omega)
  cases a; cases b; simp_all

/-! ### the operations commute with truncation -/

theorem insertBefore_sim (tm : Nat → Timer) (fin : Int) (i : Nat) (l : List Nat)
    (h : ∀ j ∈ l, -(2 ^ 31) ≤ fin - (tm j).finish ∧ fin - (tm j).finish < 2 ^ 31) :
    insertBeforeW .signedDiff (fun x => (tm x).toW) (wr fin) i l = insertBefore tm fin i l := by
  induction l with
  | nil => rfl
  | cons j rest ih =>
    have hj := h j (by simp)
    simp only [insertBeforeW, insertBefore, toW_finish, earlier_sim hj.1 hj.2]
    rw [ih (fun x hx => h x (List.mem_cons_of_mem _ hx))]
    by_cases hlt : fin < (tm j).finish <;> simp [hlt]

theorem toW_unplan (m : Mgr) (i : Nat) : (m.unplan i).toW = m.toW.unplan i := rfl

theorem toW_setTm (m : Mgr) (i : Nat) (t : Timer) :
    ({ m with tm := setTm m.tm i t } : Mgr).toW = { m.toW with tm := setTmW m.toW.tm i t.toW } := by
  simp only [Mgr.toW]
  congr 1
  funext x
  simp only [setTm, setTmW]
  split <;> rfl

theorem Win.unplan {G D now : Int} {m : Mgr} (h : Win G D now m) (i : Nat) : Win G D now (m.unplan i) :=
  fun x hx => h x ((mem_unplan m i x).mp hx).1

theorem plan_sim {G D now : Int} (P : Params G D) (m : Mgr) (i : Nat) (hw : Win G D now (m.unplan i))
    (hi : TWin G D now (m.tm i)) :
    (m.plan i).toW = m.toW.plan .signedDiff i ∧ Win G D now (m.plan i) := by
  have := P.g0; have := P.gd
  refine ⟨?_, ?_⟩
  · simp only [Mgr.plan, MgrW.plan, Mgr.toW, MgrW.unplan, Mgr.unplan, toW_finish]
    congr 1
    symm
    apply insertBefore_sim
    intro j hj
    have hjw : TWin G D now (m.tm j) := hw j hj
    have := hi.close hjw
    omega
  · intro x hx
    rcases (mem_plan m i x).mp hx with e | e
    · subst e; exact hi
    · by_cases hxi : x = i
      · subst hxi; exact hi
      · exact hw x ((mem_unplan m i x).mpr ⟨e, hxi⟩)

theorem plan3_sim {G D now : Int} (P : Params G D) (m : Mgr) (i : Nat) (s iv : Int) (hw : Win G D now m)
    (hi : TWin G D now ⟨s, iv⟩) :
    (m.plan3 i s iv).toW = m.toW.plan3 .signedDiff i (wr s) (wr iv) ∧ Win G D now (m.plan3 i s iv) := by
  unfold Mgr.plan3 MgrW.plan3
  have h := plan_sim P ({ m with tm := setTm m.tm i ⟨s, iv⟩ } : Mgr) i (now := now) ?_ ?_
  · rw [h.1, toW_setTm]
    exact ⟨rfl, h.2⟩
  · intro x hx
    have hx' := (mem_unplan _ i x).mp hx
    show TWin G D now (setTm m.tm i ⟨s, iv⟩ x)
    rw [setTm_other _ _ hx'.2]
    exact hw x hx'.1
  · show TWin G D now (setTm m.tm i ⟨s, iv⟩ i)
    rw [setTm_same]; exact hi

theorem applyAct_sim {G D now : Int} (P : Params G D) (m : Mgr) (a : Action) (hw : Win G D now m)
    (ha : ActWin G D now a) :
    (applyAct m a).toW = applyActW .signedDiff m.toW a.toW ∧ Win G D now (applyAct m a) := by
  cases a with
  | unplan j => exact ⟨rfl, hw.unplan j⟩
  | plan j s iv => exact plan3_sim P m j s iv hw ha

theorem runCb_sim {G D now : Int} (P : Params G D) (m : Mgr) (acts : List Action) (hw : Win G D now m)
    (ha : ∀ a ∈ acts, ActWin G D now a) :
    (runCb m acts).toW = runCbW .signedDiff m.toW (acts.map Action.toW) ∧ Win G D now (runCb m acts) := by
  induction acts generalizing m with
  | nil => exact ⟨rfl, hw⟩
  | cons a as ih =>
    have h1 := applyAct_sim P m a hw (ha a (by simp))
    have h2 := ih (applyAct m a) h1.2 (fun b hb => ha b (by simp [hb]))
    rw [runCb_cons]
    refine ⟨?_, h2.2⟩
    rw [h2.1, h1.1]
    rfl

theorem TWin.shift {G D now : Int} (P : Params G D) {t : Timer} (h : TWin G D now t) (hdue : t.finish ≤ now) :
    TWin G D now t.shift := by
  have := h.pos; have := h.le; have := h.start_le; have := h.fin_ge; have := P.g0
  refine ⟨h.pos, h.le, ?_, ?_⟩
  · simpa [Timer.shift, Timer.finish] using hdue
  · rw [shift_finish]; omega

theorem rearm_sim {G D now : Int} (P : Params G D) (m1 : Mgr) (i : Nat) (t0 : Timer) (hw : Win G D now m1)
    (ht0 : TWin G D now t0) (hdue : t0.finish ≤ now) :
    (rearm m1 i t0).toW = rearmW .signedDiff m1.toW i t0.toW ∧ Win G D now (rearm m1 i t0) := by
  by_cases hi : i ∈ m1.lst
  · have hti := hw i hi
    by_cases he : m1.tm i = t0
    · rw [rearm_same m1 i t0 hi he]
      have h := plan_sim P ({ m1.unplan i with tm := setTm m1.tm i t0.shift } : Mgr) i (now := now) ?_ ?_
      · refine ⟨?_, h.2⟩
        rw [h.1]
        have hiW : i ∈ m1.toW.lst := hi
        have heW : (m1.toW.unplan i).tm i = t0.toW := by show (m1.tm i).toW = t0.toW; rw [he]
        simp only [rearmW, hiW, if_true, heW]
        congr 1
        have := toW_setTm (m1.unplan i) i t0.shift
        rw [toW_shift] at this
        rw [← heW] at this ⊢
        exact this
      · intro x hx
        have hx' := (mem_unplan _ i x).mp hx
        have hx'' := (mem_unplan m1 i x).mp hx'.1
        show TWin G D now (setTm m1.tm i t0.shift x)
        rw [setTm_other _ _ hx'.2]
        exact hw x hx''.1
      · show TWin G D now (setTm m1.tm i t0.shift i)
        rw [setTm_same]; exact ht0.shift P hdue
    · rw [rearm_changed m1 i t0 hi he]
      have h := plan_sim P (m1.unplan i) i (now := now) ((hw.unplan i).unplan i) hti
      refine ⟨?_, h.2⟩
      rw [h.1]
      have hiW : i ∈ m1.toW.lst := hi
      have heW : ¬ (m1.toW.unplan i).tm i = t0.toW := by
        show ¬ (m1.tm i).toW = t0.toW
        exact fun e => he (toW_inj P hti ht0 e)
      simp only [rearmW, hiW, if_true, heW, if_false]
      rfl
  · rw [rearm_not_mem m1 i t0 hi]
    have hiW : i ∉ m1.toW.lst := hi
    exact ⟨by simp [rearmW, hiW], hw⟩

theorem headDue_sim {G D now : Int} (P : Params G D) (m : Mgr) (hw : Win G D now m) :
    m.toW.headDue (wr now) = m.headDue now := by
  unfold MgrW.headDue Mgr.headDue
  show (match m.lst with | [] => none | i :: _ => if ((m.tm i).toW).check (wr now) then some i else none) = _
  cases hl : m.lst with
  | nil => rfl
  | cons i rest =>
    simp only
    rw [check_sim P (hw i (by rw [hl]; simp))]

theorem execBody_sim {G D now : Int} (P : Params G D) (m : Mgr) (i : Nat) (acts : List Action)
    (hw : Win G D now m) (hi : i ∈ m.lst) (hdue : (m.tm i).finish ≤ now) (ha : ∀ a ∈ acts, ActWin G D now a) :
    (execBody acts m i).toW = execBodyW .signedDiff (acts.map Action.toW) m.toW i ∧
      Win G D now (execBody acts m i) := by
  have h1 := runCb_sim P m acts hw ha
  have h2 := rearm_sim P (runCb m acts) i (m.tm i) h1.2 (hw i hi) hdue
  refine ⟨?_, h2.2⟩
  unfold execBody execBodyW
  rw [h2.1, h1.1]
  rfl

/-- one `exec(now)`: the 32-bit manager makes the same callbacks (deadlines modulo 2^32) and ends
in the truncation of the unbounded manager's state -/
theorem execLoop_sim {G D now : Int} (P : Params G D) (cb : Cb) (hcb : CbWin G D now cb) (fuel k : Nat) (m : Mgr)
    (hw : Win G D now m) :
    execLoopW .signedDiff (cbToW cb) (wr now) fuel k m.toW =
      ((execLoop cb now fuel k m).1.toW, (execLoop cb now fuel k m).2.1.map Fire.toW,
        (execLoop cb now fuel k m).2.2) ∧
    Win G D now (execLoop cb now fuel k m).1 := by
  induction fuel generalizing k m with
  | zero =>
    simp only [execLoopW, execLoop, headDue_sim P m hw, List.map_nil]
    exact ⟨trivial, hw⟩
  | succ n ih =>
    unfold execLoopW execLoop
    rw [headDue_sim P m hw]
    cases hd : m.headDue now with
    | none => exact ⟨rfl, hw⟩
    | some i =>
      obtain ⟨rest, hl, hdue⟩ := headDue_some hd
      have hi : i ∈ m.lst := by rw [hl]; simp
      have hb := execBody_sim P m i (cb k i) hw hi hdue (hcb k i)
      have h := ih (k + 1) (execBody (cb k i) m i) hb.2
      simp only
      refine ⟨?_, h.2⟩
      have e : execBodyW Cmp.signedDiff (cbToW cb k i) m.toW i = (execBody (cb k i) m i).toW := hb.1.symm
      rw [e, h.1]
      simp [Fire.toW, Mgr.toW]

/-! ### histories -/

/-- between two operations: positive intervals of at most `D`, no start after the clock `c`, no
deadline before `lo` (the time of the previous `exec`) -/
def J (D lo c : Int) (m : Mgr) : Prop :=
  ∀ i ∈ m.lst, 0 < (m.tm i).interval ∧ (m.tm i).interval ≤ D ∧ (m.tm i).start ≤ c ∧ lo ≤ (m.tm i).finish

/-- the precondition on a history, read with `lo` = time of the previous `exec` (or of the
creation of the manager) and `c` = the latest time seen so far (`lo ≤ c`):
* `plan(i, s, iv)`: `0 < iv ≤ D`, the start is not more than `G` after the previous exec, the
  deadline is not before the previous exec;
* `exec(now)`: time does not go backwards (`now` is not before any start given to `plan` since),
  `exec` comes at most `G` after the previous one, the callbacks plan inside the window of `now`. -/
def HistWin (G D : Int) : Int → Int → List Op → Prop
  | _, _, [] => True
  | lo, c, .plan _ s iv :: ops => 0 < iv ∧ iv ≤ D ∧ s ≤ lo + G ∧ lo ≤ s + iv ∧ HistWin G D lo (max c s) ops
  | lo, c, .unplan _ :: ops => HistWin G D lo c ops
  | lo, c, .exec now cb _ :: ops => c ≤ now ∧ now ≤ lo + G ∧ CbWin G D now cb ∧ HistWin G D now now ops

theorem J.win {G D lo c now : Int} {m : Mgr} (h : J D lo c m) (h1 : c ≤ now) (h2 : now ≤ lo + G) :
    Win G D now m := by
  intro i hi
  obtain ⟨a, b, c', d⟩ := h i hi
  exact ⟨a, b, by omega, by omega⟩

theorem CbWin.pos {G D now : Int} {cb : Cb} (h : CbWin G D now cb) : CbPos cb := by
  intro k i j s iv hm
  exact (h k i _ hm).pos

theorem J.wfpos {D lo c : Int} {m : Mgr} (h : J D lo c m) : ∀ i ∈ m.lst, 0 < (m.tm i).interval :=
  fun i hi => (h i hi).1

/-- whole histories -/
theorem runOps_sim {G D : Int} (P : Params G D) (ops : List Op) (lo c : Int) (m : Mgr) (hm : WF m)
    (hj : J D lo c m) (hc : c ≤ lo + G) (hh : HistWin G D lo c ops) (hfin : (runOps m ops).2.2 = true) :
    runOpsW .signedDiff m.toW (ops.map Op.toW) =
      ((runOps m ops).1.toW, (runOps m ops).2.1.map (fun fs => fs.map Fire.toW), true) := by
  induction ops generalizing lo c m with
  | nil => rfl
  | cons op ops ih =>
    simp only [runOps, Bool.and_eq_true] at hfin
    cases op with
    | plan i s iv =>
      obtain ⟨h1, h2, h3, h4, h5⟩ := hh
      have hw : Win G D (max c s) m := hj.win (by omega) (by omega)
      have ht : TWin G D (max c s) ⟨s, iv⟩ := ⟨h1, h2, by simp only []; omega, by simp only [Timer.finish]; omega⟩
      have hs := plan3_sim P m i s iv hw ht
      have hj' : J D lo (max c s) (m.plan3 i s iv) := by
        intro x hx
        have := hs.2 x hx
        refine ⟨this.pos, this.le, this.start_le, ?_⟩
        rcases (mem_plan3 m i x s iv).mp hx with e | e
        · subst e; simp [Timer.finish]; omega
        · by_cases hxi : x = i
          · subst hxi; simp [Timer.finish]; omega
          · rw [plan3_tm, setTm_other _ _ hxi]; exact (hj x e).2.2.2
      have := ih lo (max c s) (m.plan3 i s iv) (hm.plan3 i s iv h1) hj' (by omega) h5 hfin.2
      simp only [List.map_cons, runOpsW, runOps, stepOpW, stepOp, Op.toW, ← hs.1, this]
      simp
    | unplan i =>
      have hj' : J D lo c (m.unplan i) := fun x hx => hj x ((mem_unplan m i x).mp hx).1
      have := ih lo c (m.unplan i) (hm.unplan i) hj' hc hh hfin.2
      simp only [List.map_cons, runOpsW, runOps, stepOpW, stepOp, Op.toW, ← toW_unplan, this]
      simp
    | exec now cb fuel =>
      obtain ⟨h1, h2, h3, h4⟩ := hh
      have hw : Win G D now m := hj.win h1 h2
      have hs := execLoop_sim P cb h3 fuel 0 m hw
      have hm' : WF (execLoop cb now fuel 0 m).1 := (execLoop_steps cb now fuel 0 m).wf h3.pos hm
      have hnd := none_due hm' (execLoop_done cb now fuel 0 m hfin.1)
      have hj' : J D now now (execLoop cb now fuel 0 m).1 := by
        intro x hx
        have := hs.2 x hx
        have := hnd x hx
        exact ⟨‹TWin G D now _›.pos, ‹TWin G D now _›.le, ‹TWin G D now _›.start_le, by omega⟩
      have := ih now now _ hm' hj' (by have := P.g0; omega) h4 hfin.2
      have hf1 : (execLoop cb now fuel 0 m).2.2 = true := hfin.1
      simp only [List.map_cons, runOpsW, runOps, stepOpW, stepOp, Op.toW, hs.1, this]
      simp [hf1]

end Igris.C16
