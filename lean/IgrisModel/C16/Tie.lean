/-
  C16 — DRIVER-side canonicalisation of what the property leaves open: the order of callbacks among timers
  with EQUAL deadlines ("callbacks within one exec run in non-decreasing deadline order" - nothing about ties).
  Core Lean only.  Nothing here is part of the model or of a theorem; it decides what the correspondence check
  compares.  The harness (`harness/C16.cpp`, `tie_step`) computes the same predicate on the real objects.

  * `canonFires`: maximal runs of consecutive callbacks with equal deadline are printed sorted by timer id.
  * `tieScan`: walks the exec loop iteration by iteration and says whether the outcome of this exec may depend on
    the order inside a tie.  A GROUP opens when the head of the list shares its deadline with another planned
    timer; it collects every timer that is at that deadline while it is open and closes when each member has had
    its callback.  While a group is open every callback must satisfy, for ALL members `id` of the group (whichever
    of them the implementation chooses to run at this index):
      rule 1 (at every index of the group):  the scripted calls are the same list for every member and name no member; or
      rule 2 (at every index of the group):  each member's list is the same at every index of the group and consists
              only of `unplan(self)`, `plan(self, s, iv)` with `s + iv > now`, and (ignored) nested `exec` calls;
    and no timer with another deadline may run before the group is closed.  Under these rules every order inside
    the tie ends in the same state with the same multiset of callbacks; otherwise the exec is `tie-dependent`
    and the rest of the case is judged by the harness oracle only (it follows the order it observes).
  * a case in which a setter has hit a PLANNED timer (list no longer sorted; outside the property) is
    `tie-dependent` as soon as two planned timers share a deadline at an operation boundary or at a callback.
-/
import IgrisModel.C16.Ext
namespace Igris.C16

/-- insert by id into a list sorted by id -/
def insById {α : Type} (idOf : α → Nat) (x : α) : List α → List α
  | [] => [x]
  | y :: ys => if idOf x ≤ idOf y then x :: y :: ys else y :: insById idOf x ys

/-- maximal runs of equal deadline sorted by id (`acc`: output so far, reversed; `run`: the current run, sorted) -/
def canonRuns {α : Type} (idOf : α → Nat) (sameDl : α → α → Bool) : List α → List α → List α → List α
  | acc, run, [] => acc.reverse ++ run
  | acc, [], x :: xs => canonRuns idOf sameDl acc [x] xs
  | acc, r :: run, x :: xs =>
    if sameDl r x then canonRuns idOf sameDl acc (insById idOf x (r :: run)) xs
    else canonRuns idOf sameDl ((r :: run).reverse ++ acc) [x] xs

def canonFires {α : Type} (idOf : α → Nat) (sameDl : α → α → Bool) (fs : List α) : List α :=
  canonRuns idOf sameDl [] [] fs

/-- one loop iteration as the tie analysis sees it: head, its deadline, the planned timers at that deadline,
whether ANY two planned timers share a deadline -/
structure TieIn where
  h : Nat
  d : Int
  s : List Nat
  anyTie : Bool

structure TieSt where
  isOpen : Bool := false
  d : Int := 0
  g : List Nat := []
  fired : List Nat := []
  k0 : Nat := 0
  all1 : Bool := true
  all2 : Bool := true
  bad : Bool := false

def actTarget? : ActX → Option Nat
  | .unplan j => some j
  | .plan j _ _ => some j
  | .setStart j _ => some j
  | .setInterval j _ => some j
  | .replan j => some j
  | .destroy j => some j
  | .exec _ => none

def selfSafe (now : Int) (id : Nat) : ActX → Bool
  | .unplan j => j == id
  | .plan j s iv => j == id && decide (s + iv > now)
  | .exec _ => true
  | _ => false

def tieIter (acts : Nat → Nat → List ActX) (now : Int) (dchk : Bool) (st : TieSt) (k : Nat) (it : TieIn) : TieSt :=
  if dchk && (it.anyTie || it.s.length ≥ 2) then { st with bad := true } else
  if st.isOpen && it.d != st.d then { st with bad := true } else
  let st : TieSt :=
    if st.isOpen then { st with g := st.g ++ it.s.filter (fun j => !st.g.contains j) }
    else if it.s.length ≥ 2 then { isOpen := true, d := it.d, g := it.s, fired := [], k0 := k }
    else st
  if !st.isOpen then st else
  let first := match st.g with | [] => [] | a :: _ => acts k a
  let p1 := st.g.all fun id =>
    acts k id == first && (acts k id).all fun a => match actTarget? a with | some j => !st.g.contains j | none => true
  let p2 := st.g.all fun id => acts k id == acts st.k0 id && (acts k id).all (selfSafe now id)
  let st := { st with all1 := st.all1 && p1, all2 := st.all2 && p2, fired := it.h :: st.fired }
  if !st.all1 && !st.all2 then { st with bad := true }
  else if st.g.all (fun j => st.fired.contains j) then { st with isOpen := false } else st

/-- `next k m` = the iteration the loop makes in state `m` as callback number `k` (none: the loop exits) and the
state after it -/
def tieScan {σ : Type} (next : Nat → σ → Option (TieIn × σ)) (acts : Nat → Nat → List ActX) (now : Int) (dchk : Bool) :
    Nat → Nat → σ → TieSt → Bool
  | 0, _, _, st => st.bad
  | fuel + 1, k, m, st =>
    match next k m with
    | none => st.bad
    | some (it, m') =>
      let st' := tieIter acts now dchk st k it
      if st'.bad then true else tieScan next acts now dchk fuel (k + 1) m' st'

/-- do two entries of the list share a key? -/
def anyDup {α : Type} [BEq α] : List α → Bool
  | [] => false
  | x :: xs => xs.contains x || anyDup xs

end Igris.C16
