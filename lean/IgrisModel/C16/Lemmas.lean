/-
  C16 — helper lemmas: list insertion, the well-formedness invariant and its
  preservation by every API call and by the exec loop body.
-/
import IgrisModel.C16.Spec
namespace Igris.C16

/-! ### sortedness by deadline -/

theorem Sorted.congr {tm tm' : Nat → Timer} {l : List Nat} (h : ∀ x ∈ l, tm x = tm' x)
    (hs : Sorted tm l) : Sorted tm' l := by
  unfold Sorted at *
  refine List.Pairwise.imp_of_mem ?_ hs
  intro a b ha hb hab
  rw [← h a ha, ← h b hb]; exact hab

@[simp] theorem setTm_same (tm : Nat → Timer) (i : Nat) (t : Timer) : setTm tm i t i = t := by
  simp [setTm]

theorem setTm_other (tm : Nat → Timer) {i x : Nat} (t : Timer) (h : x ≠ i) : setTm tm i t x = tm x := by
  simp [setTm, h]

/-! ### insertBefore -/

theorem mem_insertBefore (tm : Nat → Timer) (fin : Int) (i x : Nat) (l : List Nat) :
    x ∈ insertBefore tm fin i l ↔ x = i ∨ x ∈ l := by
  induction l with
  | nil => simp [insertBefore]
  | cons j rest ih =>
    unfold insertBefore
    split
    · simp
    · simp only [List.mem_cons, ih]
      constructor
      · rintro (h | h | h) <;> simp [h]
      · rintro (h | h | h) <;> simp [h]

theorem nodup_insertBefore (tm : Nat → Timer) (fin : Int) (i : Nat) (l : List Nat)
    (hi : i ∉ l) (hl : l.Nodup) : (insertBefore tm fin i l).Nodup := by
  induction l with
  | nil => simp [insertBefore]
  | cons j rest ih =>
    simp only [List.mem_cons, not_or] at hi
    have hl' := List.nodup_cons.mp hl
    unfold insertBefore
    split
    · refine List.nodup_cons.mpr ⟨?_, hl⟩
      simp [hi.1, hi.2]
    · refine List.nodup_cons.mpr ⟨?_, ih hi.2 hl'.2⟩
      rw [mem_insertBefore]
      intro h
      rcases h with h | h
      · exact hi.1 h.symm
      · exact hl'.1 h

theorem sorted_insertBefore (tm : Nat → Timer) (i : Nat) (l : List Nat)
    (hs : Sorted tm l) : Sorted tm (insertBefore tm (tm i).finish i l) := by
  induction l with
  | nil => simp [insertBefore, Sorted]
  | cons j rest ih =>
    unfold Sorted at hs
    have hs' := List.pairwise_cons.mp hs
    unfold insertBefore
    split
    · rename_i hlt
      unfold Sorted
      refine List.pairwise_cons.mpr ⟨?_, hs⟩
      intro x hx
      rcases List.mem_cons.mp hx with h | h
      · subst h; omega
      · have := hs'.1 x h; omega
    · rename_i hge
      unfold Sorted
      refine List.pairwise_cons.mpr ⟨?_, ih hs'.2⟩
      intro x hx
      rcases (mem_insertBefore tm _ i x rest).mp hx with h | h
      · subst h; omega
      · exact hs'.1 x h

theorem insertBefore_congr {tm tm' : Nat → Timer} (fin : Int) (i : Nat) (l : List Nat)
    (h : ∀ x ∈ l, tm x = tm' x) : insertBefore tm fin i l = insertBefore tm' fin i l := by
  induction l with
  | nil => rfl
  | cons j rest ih =>
    unfold insertBefore
    rw [h j (by simp), ih (fun x hx => h x (by simp [hx]))]

/-- the head of a sorted list has the earliest deadline -/
theorem Sorted.head_le {tm : Nat → Timer} {i : Nat} {l : List Nat} (h : Sorted tm (i :: l)) :
    ∀ x ∈ i :: l, (tm i).finish ≤ (tm x).finish := by
  intro x hx
  rcases List.mem_cons.mp hx with h' | h'
  · subst h'; omega
  · exact (List.pairwise_cons.mp h).1 x h'

/-! ### unplan / plan / plan3 -/

@[simp] theorem unplan_tm (m : Mgr) (i : Nat) : (m.unplan i).tm = m.tm := rfl

theorem mem_unplan (m : Mgr) (i x : Nat) : x ∈ (m.unplan i).lst ↔ x ∈ m.lst ∧ x ≠ i := by
  simp [Mgr.unplan]

theorem not_mem_unplan (m : Mgr) (i : Nat) : i ∉ (m.unplan i).lst := by
  simp [mem_unplan]

theorem unplan_of_not_mem (m : Mgr) (i : Nat) (h : i ∉ m.lst) : m.unplan i = m := by
  cases m with
  | mk tm lst =>
    simp only [Mgr.unplan, Mgr.mk.injEq, true_and]
    apply List.filter_eq_self.mpr
    intro a ha
    simp only [bne_iff_ne, ne_eq]
    intro h'; subst h'; exact h ha

theorem WF.unplan {m : Mgr} (h : WF m) (i : Nat) : WF (m.unplan i) where
  nodup := List.Pairwise.filter _ h.nodup
  sorted := by
    have := h.sorted
    unfold Sorted at *
    exact List.Pairwise.filter _ this
  pos := fun x hx => h.pos x ((mem_unplan m i x).mp hx).1

@[simp] theorem plan_tm (m : Mgr) (i : Nat) : (m.plan i).tm = m.tm := rfl

theorem mem_plan (m : Mgr) (i x : Nat) : x ∈ (m.plan i).lst ↔ x = i ∨ x ∈ m.lst := by
  simp only [Mgr.plan, mem_insertBefore, mem_unplan]
  constructor
  · rintro (h | h)
    · exact Or.inl h
    · exact Or.inr h.1
  · intro h
    by_cases hx : x = i
    · exact Or.inl hx
    · rcases h with h | h
      · exact Or.inl h
      · exact Or.inr ⟨h, hx⟩

theorem WF.plan {m : Mgr} (h : WF m) (i : Nat) (hp : 0 < (m.tm i).interval) : WF (m.plan i) := by
  have hu := h.unplan i
  refine ⟨?_, ?_, ?_⟩
  · exact nodup_insertBefore _ _ _ _ (not_mem_unplan m i) hu.nodup
  · exact sorted_insertBefore m.tm i _ hu.sorted
  · intro x hx
    rcases (mem_plan m i x).mp hx with h' | h'
    · subst h'; exact hp
    · exact h.pos x h'

/-- overwriting the fields of a timer that is not linked keeps the invariant -/
theorem WF.setTm {m : Mgr} (h : WF m) (i : Nat) (t : Timer) (hi : i ∉ m.lst) :
    WF { m with tm := setTm m.tm i t } := by
  have hc : ∀ x ∈ m.lst, m.tm x = Igris.C16.setTm m.tm i t x := by
    intro x hx
    rw [setTm_other]
    intro h'; subst h'; exact hi hx
  refine ⟨h.nodup, h.sorted.congr hc, ?_⟩
  intro x hx
  show 0 < (Igris.C16.setTm m.tm i t x).interval
  rw [← hc x hx]; exact h.pos x hx

theorem plan3_eq (m : Mgr) (i : Nat) (s iv : Int) :
    m.plan3 i s iv = ({ m.unplan i with tm := setTm m.tm i ⟨s, iv⟩ } : Mgr).plan i := by
  simp [Mgr.plan3, Mgr.plan, Mgr.unplan, List.filter_filter]

@[simp] theorem plan3_tm (m : Mgr) (i : Nat) (s iv : Int) :
    (m.plan3 i s iv).tm = setTm m.tm i ⟨s, iv⟩ := rfl

theorem mem_plan3 (m : Mgr) (i x : Nat) (s iv : Int) :
    x ∈ (m.plan3 i s iv).lst ↔ x = i ∨ x ∈ m.lst := by
  unfold Mgr.plan3
  rw [mem_plan]

theorem WF.plan3 {m : Mgr} (h : WF m) (i : Nat) (s iv : Int) (hp : 0 < iv) : WF (m.plan3 i s iv) := by
  rw [plan3_eq]
  apply WF.plan
  · exact (h.unplan i).setTm i ⟨s, iv⟩ (not_mem_unplan m i)
  · simpa using hp

/-! ### callbacks -/

theorem WF.applyAct {m : Mgr} (h : WF m) (a : Action) (ha : ∀ j s iv, a = Action.plan j s iv → 0 < iv) :
    WF (applyAct m a) := by
  cases a with
  | unplan j => exact h.unplan j
  | plan j s iv => exact h.plan3 j s iv (ha j s iv rfl)

theorem runCb_cons (m : Mgr) (a : Action) (as : List Action) :
    runCb m (a :: as) = runCb (applyAct m a) as := rfl

@[simp] theorem runCb_nil (m : Mgr) : runCb m [] = m := rfl

theorem ActsPos.tail {a : Action} {as : List Action} (h : ActsPos (a :: as)) : ActsPos as :=
  fun j s iv hm => h j s iv (List.mem_cons_of_mem _ hm)

theorem WF.runCb {m : Mgr} (h : WF m) (acts : List Action) (ha : ActsPos acts) : WF (runCb m acts) := by
  induction acts generalizing m with
  | nil => exact h
  | cons a as ih =>
    rw [runCb_cons]
    apply ih _ ha.tail
    apply h.applyAct
    intro j s iv e
    exact ha j s iv (by simp [e])

/-- what a callback can have done to timer `x`: nothing to its fields (and it did
not link it), or its last word was a `plan x s iv` of the script -/
theorem runCb_frame (m : Mgr) (acts : List Action) (x : Nat) :
    ((runCb m acts).tm x = m.tm x ∧ (x ∈ (runCb m acts).lst → x ∈ m.lst)) ∨
    (∃ s iv, Action.plan x s iv ∈ acts ∧ (runCb m acts).tm x = ⟨s, iv⟩ ∧ x ∈ (runCb m acts).lst) ∨
    (∃ s iv, Action.plan x s iv ∈ acts ∧ x ∉ (runCb m acts).lst) := by
  induction acts generalizing m with
  | nil => left; simp
  | cons a as ih =>
    rw [runCb_cons]
    rcases ih (applyAct m a) with ⟨h1, h2⟩ | ⟨s, iv, h1, h2⟩ | ⟨s, iv, h1, h2⟩
    · cases a with
      | unplan j =>
        left
        refine ⟨by rw [h1]; rfl, fun hx => ?_⟩
        exact ((mem_unplan m j x).mp (h2 hx)).1
      | plan j s iv =>
        by_cases hxj : x = j
        · subst hxj
          by_cases hm : x ∈ (runCb (applyAct m (Action.plan x s iv)) as).lst
          · right; left
            refine ⟨s, iv, by simp, ?_, hm⟩
            rw [h1]; simp [applyAct]
          · right; right
            exact ⟨s, iv, by simp, hm⟩
        · left
          refine ⟨?_, fun hx => ?_⟩
          · rw [h1]; simp [applyAct, setTm_other _ _ hxj]
          · have := (mem_plan3 m j x s iv).mp (h2 hx)
            rcases this with h | h
            · exact absurd h hxj
            · exact h
    · right; left
      exact ⟨s, iv, List.mem_cons_of_mem _ h1, h2⟩
    · right; right
      exact ⟨s, iv, List.mem_cons_of_mem _ h1, h2⟩

theorem applyAct_other (m : Mgr) (a : Action) (i : Nat) (h : a.target ≠ i) :
    (applyAct m a).tm i = m.tm i ∧ (i ∈ (applyAct m a).lst ↔ i ∈ m.lst) := by
  cases a with
  | unplan j =>
    simp only [Action.target] at h
    refine ⟨rfl, ?_⟩
    simp only [applyAct, mem_unplan]
    constructor
    · exact fun h' => h'.1
    · exact fun h' => ⟨h', fun e => h e.symm⟩
  | plan j s iv =>
    simp only [Action.target] at h
    refine ⟨?_, ?_⟩
    · simp [applyAct, setTm_other _ _ (Ne.symm h)]
    · simp only [applyAct, mem_plan3]
      constructor
      · rintro (h' | h')
        · exact absurd h'.symm h
        · exact h'
      · exact fun h' => Or.inr h'

/-- a callback none of whose calls names timer `i` leaves `i` alone -/
theorem runCb_untouched (m : Mgr) (acts : List Action) (i : Nat) (h : ∀ a ∈ acts, a.target ≠ i) :
    (runCb m acts).tm i = m.tm i ∧ (i ∈ (runCb m acts).lst ↔ i ∈ m.lst) := by
  induction acts generalizing m with
  | nil => simp
  | cons a as ih =>
    rw [runCb_cons]
    have h1 := applyAct_other m a i (h a (by simp))
    have h2 := ih (applyAct m a) (fun b hb => h b (by simp [hb]))
    exact ⟨h2.1.trans h1.1, h2.2.trans h1.2⟩

/-- a callback that never plans timer `i` cannot link it -/
theorem runCb_not_mem (m : Mgr) (acts : List Action) (i : Nat)
    (h : ∀ s iv, Action.plan i s iv ∉ acts) (hi : i ∉ m.lst) : i ∉ (runCb m acts).lst := by
  induction acts generalizing m with
  | nil => simpa using hi
  | cons a as ih =>
    rw [runCb_cons]
    apply ih _ (fun s iv hm => h s iv (by simp [hm]))
    cases a with
    | unplan j => simp only [applyAct, mem_unplan]; exact fun h' => hi h'.1
    | plan j s iv =>
      simp only [applyAct, mem_plan3]
      rintro (h' | h')
      · subst h'; exact h s iv (by simp)
      · exact hi h'

/-! ### the loop body -/

theorem headDue_some {m : Mgr} {now : Int} {i : Nat} (h : m.headDue now = some i) :
    ∃ rest, m.lst = i :: rest ∧ (m.tm i).finish ≤ now := by
  unfold Mgr.headDue at h
  split at h
  · simp at h
  · rename_i j rest hl
    split at h
    · rename_i hc
      simp only [Option.some.injEq] at h
      subst h
      refine ⟨rest, hl, ?_⟩
      simp only [Timer.check, decide_eq_true_eq] at hc
      simp only [Timer.finish]; omega
    · simp at h

theorem headDue_none {m : Mgr} {now : Int} (h : m.headDue now = none) :
    m.lst = [] ∨ ∃ i rest, m.lst = i :: rest ∧ now < (m.tm i).finish := by
  unfold Mgr.headDue at h
  split at h
  · left; assumption
  · rename_i j rest hl
    right
    refine ⟨j, rest, hl, ?_⟩
    split at h
    · simp at h
    · rename_i hc
      simp only [Timer.check, decide_eq_true_eq] at hc
      simp only [Timer.finish]; omega

@[simp] theorem shift_interval (t : Timer) : t.shift.interval = t.interval := rfl
@[simp] theorem shift_finish (t : Timer) : t.shift.finish = t.finish + t.interval := by
  simp [Timer.shift, Timer.finish]


theorem rearm_not_mem (m1 : Mgr) (i : Nat) (t0 : Timer) (h : i ∉ m1.lst) : rearm m1 i t0 = m1 := by
  simp [rearm, h]

theorem rearm_same (m1 : Mgr) (i : Nat) (t0 : Timer) (h : i ∈ m1.lst) (he : m1.tm i = t0) :
    rearm m1 i t0 = ({ m1.unplan i with tm := setTm m1.tm i t0.shift } : Mgr).plan i := by
  simp [rearm, h, he]

theorem rearm_changed (m1 : Mgr) (i : Nat) (t0 : Timer) (h : i ∈ m1.lst) (he : m1.tm i ≠ t0) :
    rearm m1 i t0 = (m1.unplan i).plan i := by
  simp [rearm, h, he]

theorem WF.rearm {m1 : Mgr} (h : WF m1) (i : Nat) (t0 : Timer) : WF (rearm m1 i t0) := by
  by_cases hi : i ∈ m1.lst
  · have hp := h.pos i hi
    have hu := h.unplan i
    have hn := not_mem_unplan m1 i
    by_cases he : m1.tm i = t0
    · rw [rearm_same m1 i t0 hi he]
      apply WF.plan (hu.setTm i _ hn)
      subst he
      simpa using hp
    · rw [rearm_changed m1 i t0 hi he]
      exact WF.plan hu i hp
  · rw [rearm_not_mem m1 i t0 hi]; exact h

theorem WF.execBody {m : Mgr} (h : WF m) (acts : List Action) (ha : ActsPos acts) (i : Nat) :
    WF (execBody acts m i) :=
  (h.runCb acts ha).rearm i _

/-- `rearm` of timer `j` does not concern any other timer -/
theorem rearm_other (m1 : Mgr) (j i : Nat) (t0 : Timer) (h : i ≠ j) :
    (rearm m1 j t0).tm i = m1.tm i ∧ (i ∈ (rearm m1 j t0).lst ↔ i ∈ m1.lst) := by
  have hmem : ∀ (tm' : Nat → Timer), i ∈ (({ m1.unplan j with tm := tm' } : Mgr).plan j).lst ↔ i ∈ m1.lst := by
    intro tm'
    rw [mem_plan]
    show i = j ∨ i ∈ (m1.unplan j).lst ↔ _
    rw [mem_unplan]
    constructor
    · rintro (h' | h')
      · exact absurd h' h
      · exact h'.1
    · exact fun h' => Or.inr ⟨h', h⟩
  by_cases hj : j ∈ m1.lst
  · by_cases he : m1.tm j = t0
    · rw [rearm_same m1 j t0 hj he]
      exact ⟨by simp [setTm_other _ _ h], hmem _⟩
    · rw [rearm_changed m1 j t0 hj he]
      exact ⟨rfl, hmem m1.tm⟩
  · rw [rearm_not_mem m1 j t0 hj]; exact ⟨rfl, Iff.rfl⟩

/-- `rearm` of the fired timer itself: the three outcomes -/
theorem rearm_self (m1 : Mgr) (i : Nat) (t0 : Timer) :
    (i ∉ m1.lst ∧ rearm m1 i t0 = m1) ∨
    (i ∈ m1.lst ∧ m1.tm i = t0 ∧ (rearm m1 i t0).tm i = t0.shift ∧ i ∈ (rearm m1 i t0).lst) ∨
    (i ∈ m1.lst ∧ m1.tm i ≠ t0 ∧ (rearm m1 i t0).tm i = m1.tm i ∧ i ∈ (rearm m1 i t0).lst) := by
  by_cases hi : i ∈ m1.lst
  · right
    by_cases he : m1.tm i = t0
    · left
      rw [rearm_same m1 i t0 hi he]
      refine ⟨hi, he, by simp, ?_⟩
      rw [mem_plan]; exact Or.inl rfl
    · right
      rw [rearm_changed m1 i t0 hi he]
      refine ⟨hi, he, rfl, ?_⟩
      rw [mem_plan]; exact Or.inl rfl
  · left; exact ⟨hi, rearm_not_mem m1 i t0 hi⟩

/-! ### the loop as a relation -/

/-- `Steps cb now k m fs m'`: starting with callback number `k` in state `m`, the loop of
`exec(now)` can make the callbacks `fs` (in this order) and be in state `m'` -/
inductive Steps (cb : Cb) (now : Int) : Nat → Mgr → List Fire → Mgr → Prop
  | nil (k : Nat) (m : Mgr) : Steps cb now k m [] m
  | cons {k : Nat} {m m' : Mgr} {i : Nat} {fs : List Fire} (hd : m.headDue now = some i)
      (tl : Steps cb now (k + 1) (execBody (cb k i) m i) fs m') :
      Steps cb now k m (⟨i, (m.tm i).finish⟩ :: fs) m'

theorem execLoop_steps (cb : Cb) (now : Int) (fuel k : Nat) (m : Mgr) :
    Steps cb now k m (execLoop cb now fuel k m).2.1 (execLoop cb now fuel k m).1 := by
  induction fuel generalizing k m with
  | zero => exact Steps.nil k m
  | succ n ih =>
    unfold execLoop
    split
    · exact Steps.nil k m
    · rename_i i hd
      exact Steps.cons hd (ih (k + 1) _)

theorem execLoop_done (cb : Cb) (now : Int) (fuel k : Nat) (m : Mgr)
    (h : (execLoop cb now fuel k m).2.2 = true) : (execLoop cb now fuel k m).1.headDue now = none := by
  induction fuel generalizing k m with
  | zero => simpa [execLoop] using h
  | succ n ih =>
    unfold execLoop at h ⊢
    split
    · assumption
    · rename_i i hd
      simp only [hd] at h
      exact ih (k + 1) _ h

theorem Steps.wf {cb : Cb} {now : Int} {k : Nat} {m m' : Mgr} {fs : List Fire}
    (h : Steps cb now k m fs m') (hcb : CbPos cb) (hm : WF m) : WF m' := by
  induction h with
  | nil => exact hm
  | cons hd _ ih => exact ih (hm.execBody _ (hcb _ _) _)

end Igris.C16

namespace Igris.C16

/-! ### weighted sums over the timer list (termination measure) -/

@[simp] theorem wsum_nil (f : Nat → Nat) : wsum f [] = 0 := rfl
@[simp] theorem wsum_cons (f : Nat → Nat) (x : Nat) (l : List Nat) : wsum f (x :: l) = f x + wsum f l := by
  simp [wsum]

theorem wsum_congr {f g : Nat → Nat} {l : List Nat} (h : ∀ x ∈ l, f x = g x) : wsum f l = wsum g l := by
  induction l with
  | nil => rfl
  | cons x rest ih =>
    simp only [wsum_cons]
    rw [h x (by simp), ih (fun y hy => h y (by simp [hy]))]

theorem wsum_filter_le (f : Nat → Nat) (p : Nat → Bool) (l : List Nat) : wsum f (l.filter p) ≤ wsum f l := by
  induction l with
  | nil => simp
  | cons x rest ih =>
    simp only [List.filter_cons]
    split <;> simp only [wsum_cons] <;> omega

theorem wsum_filter_insertBefore (f : Nat → Nat) (p : Nat → Bool) (tm : Nat → Timer) (fin : Int)
    (j : Nat) (l : List Nat) :
    wsum f ((insertBefore tm fin j l).filter p) = (if p j then f j else 0) + wsum f (l.filter p) := by
  induction l with
  | nil => simp only [insertBefore, List.filter_cons, List.filter_nil]; split <;> simp
  | cons x rest ih =>
    unfold insertBefore
    split
    · simp only [List.filter_cons]
      split <;> split <;> (try simp only [wsum_cons]) <;> omega
    · simp only [List.filter_cons]
      split <;> (try simp only [wsum_cons]) <;> (try rw [ih]) <;> omega

theorem wsum_insertBefore (f : Nat → Nat) (tm : Nat → Timer) (fin : Int) (j : Nat) (l : List Nat) :
    wsum f (insertBefore tm fin j l) = f j + wsum f l := by
  induction l with
  | nil => simp [insertBefore]
  | cons x rest ih =>
    unfold insertBefore
    split
    · simp only [wsum_cons]
    · simp only [wsum_cons, ih]; omega

theorem wsum_filter_ne (f : Nat → Nat) (i : Nat) (l : List Nat) (hn : l.Nodup) (hi : i ∈ l) :
    wsum f (l.filter (· != i)) + f i = wsum f l := by
  induction l with
  | nil => simp at hi
  | cons x rest ih =>
    have hn' := List.nodup_cons.mp hn
    simp only [List.filter_cons]
    by_cases hx : x = i
    · subst hx
      simp only [bne_self_eq_false, Bool.false_eq_true, if_false, wsum_cons]
      have : rest.filter (· != x) = rest := by
        apply List.filter_eq_self.mpr
        intro a ha
        simp only [bne_iff_ne, ne_eq]
        intro e; subst e; exact hn'.1 ha
      rw [this]; omega
    · have hne : (x != i) = true := by simp [hx]
      simp only [hne, if_true, wsum_cons]
      have hi' : i ∈ rest := by
        rcases List.mem_cons.mp hi with h | h
        · exact absurd h.symm hx
        · exact h
      have := ih hn'.2 hi'
      omega

theorem filter_ne_comm (l : List Nat) (i j : Nat) :
    (l.filter (· != j)).filter (· != i) = (l.filter (· != i)).filter (· != j) := by
  simp only [List.filter_filter]
  congr 1
  funext a
  exact Bool.and_comm _ _

/-! ### the termination measure -/

/-- the same without timer `i` -/
def lagSumEx (now : Int) (i : Nat) (m : Mgr) : Nat :=
  wsum (fun x => lag now (m.tm x)) (m.lst.filter (· != i))

theorem lagSum_split (now : Int) (m : Mgr) (i : Nat) (hn : m.lst.Nodup) (hi : i ∈ m.lst) :
    lagSumEx now i m + lag now (m.tm i) = lagSum now m :=
  wsum_filter_ne _ i m.lst hn hi

theorem lagSumEx_of_not_mem (now : Int) (m : Mgr) (i : Nat) (hi : i ∉ m.lst) :
    lagSumEx now i m = lagSum now m := by
  unfold lagSumEx lagSum
  congr 1
  apply List.filter_eq_self.mpr
  intro a ha
  simp only [bne_iff_ne, ne_eq]
  intro e; subst e; exact hi ha

theorem lag_future {now : Int} {t : Timer} (h : now < t.finish) : lag now t = 0 := by
  unfold lag; omega

theorem lagSumEx_applyAct (now : Int) (i : Nat) (m : Mgr) (a : Action)
    (hf : ∀ j s iv, a = Action.plan j s iv → now < s + iv) :
    lagSumEx now i (applyAct m a) ≤ lagSumEx now i m := by
  cases a with
  | unplan j =>
    unfold lagSumEx
    simp only [applyAct, Mgr.unplan]
    rw [filter_ne_comm]
    exact wsum_filter_le _ _ _
  | plan j s iv =>
    have hfut := hf j s iv rfl
    unfold lagSumEx
    simp only [applyAct, Mgr.plan3, Mgr.plan, Mgr.unplan]
    rw [wsum_filter_insertBefore]
    have h0 : lag now (setTm m.tm j ⟨s, iv⟩ j) = 0 := by
      apply lag_future; simp [Timer.finish]; exact hfut
    have hc : wsum (fun x => lag now (setTm m.tm j ⟨s, iv⟩ x)) ((m.lst.filter (· != j)).filter (· != i)) =
        wsum (fun x => lag now (m.tm x)) ((m.lst.filter (· != j)).filter (· != i)) := by
      apply wsum_congr
      intro x hx
      have : x ≠ j := by
        have := (List.mem_filter.mp (List.mem_filter.mp hx).1).2
        simpa using this
      simp only [setTm_other _ _ this]
    rw [hc, h0, filter_ne_comm]
    have := wsum_filter_le (fun x => lag now (m.tm x)) (· != j) (m.lst.filter (· != i))
    split <;> omega

theorem lagSumEx_runCb (now : Int) (i : Nat) (m : Mgr) (acts : List Action) (hf : ActsFuture now acts) :
    lagSumEx now i (runCb m acts) ≤ lagSumEx now i m := by
  induction acts generalizing m with
  | nil => exact Nat.le_refl _
  | cons a as ih =>
    rw [runCb_cons]
    refine Nat.le_trans (ih _ (fun j s iv h => hf j s iv (by simp [h]))) ?_
    apply lagSumEx_applyAct
    intro j s iv e
    exact hf j s iv (by simp [e])

/-- `plan(tim)` adds the timer's own lag to the others' -/
theorem lagSum_plan (now : Int) (m : Mgr) (i : Nat) :
    lagSum now (m.plan i) = lag now (m.tm i) + lagSumEx now i m := by
  unfold lagSum lagSumEx
  simp only [Mgr.plan, Mgr.unplan]
  rw [wsum_insertBefore]

theorem lagSumEx_setTm (now : Int) (m : Mgr) (i : Nat) (t : Timer) :
    lagSumEx now i { m with tm := setTm m.tm i t } = lagSumEx now i m := by
  unfold lagSumEx
  apply wsum_congr
  intro x hx
  have : x ≠ i := by simpa using (List.mem_filter.mp hx).2
  simp only [setTm_other _ _ this]

theorem lagSumEx_unplan (now : Int) (m : Mgr) (i : Nat) :
    lagSumEx now i (m.unplan i) = lagSumEx now i m := by
  unfold lagSumEx
  simp only [Mgr.unplan, List.filter_filter, Bool.and_self]

/-- one loop iteration strictly decreases the measure when the callback plans only into the future -/
theorem lagSum_execBody (now : Int) (m : Mgr) (i : Nat) (acts : List Action) (hm : WF m)
    (hd : m.headDue now = some i) (hf : ActsFuture now acts) :
    lagSum now (execBody acts m i) < lagSum now m := by
  obtain ⟨rest, hl, hdue⟩ := headDue_some hd
  have hi : i ∈ m.lst := by rw [hl]; simp
  have hsplit := lagSum_split now m i hm.nodup hi
  have hpos := hm.pos i hi
  have hlag : 1 ≤ lag now (m.tm i) := by unfold lag; omega
  have hcb := lagSumEx_runCb now i m acts hf
  unfold execBody
  rcases rearm_self (runCb m acts) i (m.tm i) with ⟨h1, h2⟩ | ⟨h1, h2, _, _⟩ | ⟨h1, h2, _, _⟩
  · rw [h2, ← lagSumEx_of_not_mem now _ i h1]; omega
  · rw [rearm_same _ i _ h1 h2, lagSum_plan]
    simp only [setTm_same]
    have e := lagSumEx_setTm now ((runCb m acts).unplan i) i (m.tm i).shift
    simp only [unplan_tm] at e
    rw [e, lagSumEx_unplan]
    have : lag now (m.tm i).shift < lag now (m.tm i) := by
      unfold lag at hlag ⊢
      rw [shift_finish]; omega
    omega
  · rw [rearm_changed _ i _ h1 h2, lagSum_plan, lagSumEx_unplan]
    simp only [unplan_tm]
    have : lag now ((runCb m acts).tm i) = 0 := by
      rcases runCb_frame m acts i with ⟨e, _⟩ | ⟨s, iv, hmem, e, _⟩ | ⟨s, iv, _, e⟩
      · exact absurd e h2
      · apply lag_future; rw [e]; exact hf i s iv hmem
      · exact absurd h1 e
    omega

theorem execLoop_terminates (cb : Cb) (now : Int) (fuel k : Nat) (m : Mgr) (hm : WF m) (hp : CbPos cb)
    (hf : CbFuture now cb) (hfuel : lagSum now m ≤ fuel) : (execLoop cb now fuel k m).2.2 = true := by
  induction fuel generalizing k m with
  | zero =>
    simp only [execLoop, Option.isNone_iff_eq_none]
    cases hd : m.headDue now with
    | none => rfl
    | some i =>
      exfalso
      obtain ⟨rest, hl, hdue⟩ := headDue_some hd
      have hi : i ∈ m.lst := by rw [hl]; simp
      have := lagSum_split now m i hm.nodup hi
      have : 1 ≤ lag now (m.tm i) := by unfold lag; omega
      omega
  | succ n ih =>
    unfold execLoop
    split
    · rfl
    · rename_i i hd
      apply ih
      · exact hm.execBody _ (hp k i) i
      · have := lagSum_execBody now m i (cb k i) hm hd (hf k i)
        omega

/-- more fuel does not change a finished run -/
theorem execLoop_fuel_mono (cb : Cb) (now : Int) (fuel fuel' k : Nat) (m : Mgr)
    (h : (execLoop cb now fuel k m).2.2 = true) (hle : fuel ≤ fuel') :
    execLoop cb now fuel' k m = execLoop cb now fuel k m := by
  induction fuel generalizing fuel' k m with
  | zero =>
    simp only [execLoop, Option.isNone_iff_eq_none] at h
    cases fuel' with
    | zero => rfl
    | succ n => simp [execLoop, h]
  | succ n ih =>
    cases fuel' with
    | zero => omega
    | succ n' =>
      unfold execLoop at h ⊢
      split
      · rfl
      · rename_i i hd
        simp only [hd] at h
        rw [ih n' (k + 1) _ h (by omega)]

end Igris.C16

namespace Igris.C16

/-! ### order of the callbacks inside one exec -/

theorem Steps.head {cb : Cb} {now : Int} {k : Nat} {m m' : Mgr} {g : Fire} {fs : List Fire}
    (h : Steps cb now k m (g :: fs) m') :
    m.headDue now = some g.id ∧ g.deadline = (m.tm g.id).finish ∧
      Steps cb now (k + 1) (execBody (cb k g.id) m g.id) fs m' := by
  cases h with
  | cons hd tl => exact ⟨hd, rfl, tl⟩

/-- after the loop body for the due head `i` (deadline `d`): every planned timer has a deadline
`≥ d`, except those the callback itself planned earlier than that -/
theorem execBody_lower {m : Mgr} {now : Int} {i : Nat} (acts : List Action) (hm : WF m)
    (hd : m.headDue now = some i) :
    ∀ x ∈ (execBody acts m i).lst,
      (m.tm i).finish ≤ ((execBody acts m i).tm x).finish ∨
      ∃ s iv, Action.plan x s iv ∈ acts ∧ ((execBody acts m i).tm x).finish = s + iv := by
  obtain ⟨rest, hl, _⟩ := headDue_some hd
  have hmin := Sorted.head_le (hl ▸ hm.sorted)
  have hi : i ∈ m.lst := by rw [hl]; simp
  intro x hx
  unfold execBody at hx ⊢
  by_cases hxi : x = i
  · subst hxi
    rcases rearm_self (runCb m acts) x (m.tm x) with ⟨h1, h2⟩ | ⟨_, _, h3, _⟩ | ⟨h1, h2, h3, _⟩
    · rw [h2] at hx; exact absurd hx h1
    · left; rw [h3, shift_finish]; have := hm.pos x hi; omega
    · right
      rcases runCb_frame m acts x with ⟨e, _⟩ | ⟨s, iv, hmem, e, _⟩ | ⟨s, iv, _, e⟩
      · exact absurd e h2
      · exact ⟨s, iv, hmem, by rw [h3, e]; rfl⟩
      · exact absurd h1 e
  · have ho := rearm_other (runCb m acts) i x (m.tm i) hxi
    rw [ho.1]
    have hx1 := ho.2.mp hx
    rcases runCb_frame m acts x with ⟨e, hmem⟩ | ⟨s, iv, hmem, e, _⟩ | ⟨s, iv, _, e⟩
    · left; rw [e]; exact hmin x (hl ▸ hmem hx1)
    · right; exact ⟨s, iv, hmem, by rw [e]; rfl⟩
    · exact absurd hx1 e

/-- successive callbacks: the deadline does not decrease, unless the first callback itself
planned the second timer at that earlier deadline -/
theorem Steps.adjacent {cb : Cb} {now : Int} {k : Nat} {m m' : Mgr} {fs : List Fire}
    (h : Steps cb now k m fs m') (hcb : CbPos cb) (hm : WF m) :
    ∀ n f g, fs[n]? = some f → fs[n + 1]? = some g →
      f.deadline ≤ g.deadline ∨
      ∃ s iv, Action.plan g.id s iv ∈ cb (k + n) f.id ∧ g.deadline = s + iv := by
  induction h with
  | nil => intro n f g h1; simp at h1
  | @cons k m m' i fs hd tl ih =>
    intro n f g h1 h2
    have hm2 := hm.execBody (cb k i) (hcb k i) i
    cases n with
    | zero =>
      simp only [List.getElem?_cons_zero, Option.some.injEq] at h1
      subst h1
      simp only [Nat.zero_add, List.getElem?_cons_succ] at h2
      cases fs with
      | nil => simp at h2
      | cons g' fs' =>
        simp only [List.getElem?_cons_zero, Option.some.injEq] at h2
        subst h2
        obtain ⟨hd2, hdl, _⟩ := tl.head
        obtain ⟨rest, hl, _⟩ := headDue_some hd2
        have hg : g'.id ∈ (execBody (cb k i) m i).lst := by rw [hl]; simp
        have := execBody_lower (cb k i) hm hd g'.id hg
        rw [← hdl] at this
        simpa using this
    | succ n' =>
      simp only [List.getElem?_cons_succ] at h1 h2
      have := ih hm2 n' f g h1 h2
      have e : k + 1 + n' = k + (n' + 1) := by omega
      rw [e] at this
      exact this

theorem chain_head_le (x : Int) (xs : List Int)
    (h : ∀ n a b, (x :: xs)[n]? = some a → (x :: xs)[n + 1]? = some b → a ≤ b) : ∀ y ∈ xs, x ≤ y := by
  induction xs generalizing x with
  | nil => intro y hy; simp at hy
  | cons z zs ih =>
    intro y hy
    have hxz : x ≤ z := h 0 x z (by simp) (by simp)
    rcases List.mem_cons.mp hy with e | e
    · subst e; exact hxz
    · have := ih z (fun n a b h1 h2 => h (n + 1) a b (by simpa using h1) (by simpa using h2)) y e
      omega

theorem chain_pairwise (l : List Int)
    (h : ∀ n a b, l[n]? = some a → l[n + 1]? = some b → a ≤ b) : l.Pairwise (· ≤ ·) := by
  induction l with
  | nil => exact List.Pairwise.nil
  | cons x xs ih =>
    refine List.pairwise_cons.mpr ⟨chain_head_le x xs h, ih ?_⟩
    intro n a b h1 h2
    exact h (n + 1) a b (by simpa using h1) (by simpa using h2)

/-! ### catch-up of a timer no callback touches -/

theorem execBody_untouched_other (m : Mgr) (acts : List Action) (i j : Nat)
    (hu : ∀ a ∈ acts, a.target ≠ i) (hij : i ≠ j) :
    (execBody acts m j).tm i = m.tm i ∧ (i ∈ (execBody acts m j).lst ↔ i ∈ m.lst) := by
  unfold execBody
  have h1 := runCb_untouched m acts i hu
  have h2 := rearm_other (runCb m acts) j i (m.tm j) hij
  exact ⟨h2.1.trans h1.1, h2.2.trans h1.2⟩

theorem execBody_untouched_self (m : Mgr) (acts : List Action) (i : Nat)
    (hu : ∀ a ∈ acts, a.target ≠ i) (hi : i ∈ m.lst) :
    (execBody acts m i).tm i = (m.tm i).shift ∧ i ∈ (execBody acts m i).lst := by
  unfold execBody
  have h1 := runCb_untouched m acts i hu
  rcases rearm_self (runCb m acts) i (m.tm i) with ⟨h, _⟩ | ⟨_, _, h3, h4⟩ | ⟨_, h, _, _⟩
  · exact absurd (h1.2.mpr hi) h
  · exact ⟨h3, h4⟩
  · exact absurd h1.1 h

theorem Steps.catch_up {cb : Cb} {now : Int} {k : Nat} {m m' : Mgr} {fs : List Fire}
    (h : Steps cb now k m fs m') (i : Nat) (hu : Untouched cb i) (hi : i ∈ m.lst) :
    ∃ n : Nat,
      (fs.filter (fun f => f.id = i)).map (·.deadline) =
        (List.range n).map (fun (q : Nat) => (m.tm i).finish + (q : Int) * (m.tm i).interval) ∧
      m'.tm i = ⟨(m.tm i).start + (n : Int) * (m.tm i).interval, (m.tm i).interval⟩ ∧ i ∈ m'.lst := by
  induction h with
  | nil k m => exact ⟨0, by simp, by simp, hi⟩
  | @cons k m m' j fs hd tl ih =>
    by_cases hji : j = i
    · subst hji
      have hb := execBody_untouched_self m (cb k j) j (hu k j) hi
      obtain ⟨n, h1, h2, h3⟩ := ih hb.2
      refine ⟨n + 1, ?_, ?_, h3⟩
      · simp only [List.filter_cons, decide_true, if_true, List.map_cons, h1, hb.1, shift_finish,
          shift_interval]
        rw [List.range_succ_eq_map]
        simp only [List.map_cons, List.map_map]
        congr 1
        · simp
        · apply List.map_congr_left
          intro q _
          simp only [Function.comp, Nat.succ_eq_add_one]
          have : ((q + 1 : Nat) : Int) * (m.tm j).interval = (q : Int) * (m.tm j).interval + (m.tm j).interval := by
            rw [Int.natCast_add, Int.add_mul]; simp
          rw [this]; omega
      · rw [h2, hb.1]
        simp only [Timer.shift]
        have : ((n + 1 : Nat) : Int) * (m.tm j).interval = (n : Int) * (m.tm j).interval + (m.tm j).interval := by
          rw [Int.natCast_add, Int.add_mul]; simp
        rw [this]
        congr 1; omega
    · have hb := execBody_untouched_other m (cb k j) i j (hu k j) (Ne.symm hji)
      obtain ⟨n, h1, h2, h3⟩ := ih (hb.2.mpr hi)
      refine ⟨n, ?_, ?_, h3⟩
      · have : decide (j = i) = false := by simp [hji]
        simp only [List.filter_cons, this, Bool.false_eq_true, if_false]
        rw [h1, hb.1]
      · rw [h2, hb.1]

/-! ### timers that are not planned -/

theorem Steps.not_mem {cb : Cb} {now : Int} {k : Nat} {m m' : Mgr} {fs : List Fire}
    (h : Steps cb now k m fs m') (i : Nat) (hnp : ∀ k x s iv, Action.plan i s iv ∉ cb k x)
    (hi : i ∉ m.lst) : (∀ f ∈ fs, f.id ≠ i) ∧ i ∉ m'.lst := by
  induction h with
  | nil => exact ⟨by simp, hi⟩
  | @cons k m m' j fs hd tl ih =>
    obtain ⟨rest, hl, _⟩ := headDue_some hd
    have hj : j ∈ m.lst := by rw [hl]; simp
    have hji : i ≠ j := fun e => hi (e ▸ hj)
    have h1 := runCb_not_mem m (cb k j) i (hnp k j) hi
    have h2 : i ∉ (execBody (cb k j) m j).lst := by
      unfold execBody
      rw [(rearm_other _ j i _ hji).2]; exact h1
    obtain ⟨h3, h4⟩ := ih h2
    refine ⟨?_, h4⟩
    intro f hf
    rcases List.mem_cons.mp hf with e | e
    · subst e; exact fun e' => hji e'.symm
    · exact h3 f e

theorem Steps.not_early {cb : Cb} {now : Int} {k : Nat} {m m' : Mgr} {fs : List Fire}
    (h : Steps cb now k m fs m') : ∀ f ∈ fs, f.deadline ≤ now := by
  induction h with
  | nil => simp
  | @cons k m m' j fs hd tl ih =>
    obtain ⟨rest, hl, hdue⟩ := headDue_some hd
    intro f hf
    rcases List.mem_cons.mp hf with e | e
    · subst e; exact hdue
    · exact ih f e

/-- when the loop has exited, no planned timer is due -/
theorem none_due {m : Mgr} {now : Int} (hm : WF m) (h : m.headDue now = none) :
    ∀ i ∈ m.lst, now < (m.tm i).finish := by
  rcases headDue_none h with e | ⟨j, rest, hl, hlt⟩
  · intro i hi; rw [e] at hi; simp at hi
  · intro i hi
    have := Sorted.head_le (hl ▸ hm.sorted) i (hl ▸ hi)
    omega

end Igris.C16
