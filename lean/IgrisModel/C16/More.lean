/-
  C16 — lemmas for the extension theorems: FIFO among equal deadlines, the extended
  callbacks of `Ext.lean`, stimer in wrapping arithmetic.
-/
import IgrisModel.C16.WrapLemmas
import IgrisModel.C16.Ext
namespace Igris.C16

/-! ### order of the list (FIFO) -/

theorem insertBefore_sublist (tm : Nat → Timer) (fin : Int) (i : Nat) (l : List Nat) :
    l.Sublist (insertBefore tm fin i l) := by
  induction l with
  | nil => simp [insertBefore]
  | cons j rest ih =>
    simp only [insertBefore]
    split
    · exact List.Sublist.cons _ (List.Sublist.refl _)
    · exact List.Sublist.cons_cons _ ih

theorem pair_filter_ne {a b j : Nat} {l : List Nat} (h : [b, a].Sublist l) (ha : a ≠ j) (hb : b ≠ j) :
    [b, a].Sublist (l.filter (· != j)) := by
  have := h.filter (· != j)
  simpa [ha, hb] using this

theorem pair_unplan {a b j : Nat} {m : Mgr} (h : [b, a].Sublist m.lst) (ha : a ≠ j) (hb : b ≠ j) :
    [b, a].Sublist (m.unplan j).lst := pair_filter_ne h ha hb

theorem pair_plan {a b j : Nat} {m : Mgr} (h : [b, a].Sublist m.lst) (ha : a ≠ j) (hb : b ≠ j) :
    [b, a].Sublist (m.plan j).lst :=
  (pair_filter_ne h ha hb).trans (insertBefore_sublist _ _ _ _)

theorem pair_plan3 {a b j : Nat} {m : Mgr} (s iv : Int) (h : [b, a].Sublist m.lst) (ha : a ≠ j) (hb : b ≠ j) :
    [b, a].Sublist (m.plan3 j s iv).lst :=
  pair_plan (m := { m with tm := setTm m.tm j ⟨s, iv⟩ }) h ha hb

theorem pair_applyAct {a b : Nat} {m : Mgr} (x : Action) (h : [b, a].Sublist m.lst) (ha : x.target ≠ a)
    (hb : x.target ≠ b) : [b, a].Sublist (applyAct m x).lst := by
  cases x with
  | unplan j => exact pair_unplan h (Ne.symm ha) (Ne.symm hb)
  | plan j s iv => exact pair_plan3 s iv h (Ne.symm ha) (Ne.symm hb)

theorem pair_runCb {a b : Nat} (acts : List Action) {m : Mgr} (h : [b, a].Sublist m.lst)
    (ha : ∀ x ∈ acts, x.target ≠ a) (hb : ∀ x ∈ acts, x.target ≠ b) : [b, a].Sublist (runCb m acts).lst := by
  induction acts generalizing m with
  | nil => exact h
  | cons x xs ih =>
    rw [runCb_cons]
    exact ih (pair_applyAct x h (ha x (by simp)) (hb x (by simp)))
      (fun y hy => ha y (by simp [hy])) (fun y hy => hb y (by simp [hy]))

theorem pair_rearm {a b i : Nat} {m : Mgr} (t0 : Timer) (h : [b, a].Sublist m.lst) (ha : a ≠ i) (hb : b ≠ i) :
    [b, a].Sublist (rearm m i t0).lst := by
  by_cases hi : i ∈ m.lst
  · by_cases he : m.tm i = t0
    · rw [rearm_same m i t0 hi he]
      exact pair_plan (m := { m.unplan i with tm := setTm m.tm i t0.shift }) (pair_unplan h ha hb) ha hb
    · rw [rearm_changed m i t0 hi he]
      exact pair_plan (pair_unplan h ha hb) ha hb
  · rw [rearm_not_mem m i t0 hi]; exact h

/-- a timer planned when `b` is already planned with a deadline that is not later goes behind `b` -/
theorem insertBefore_after (tm : Nat → Timer) (fin : Int) (i b : Nat) (l : List Nat) (hs : Sorted tm l)
    (hb : b ∈ l) (hle : (tm b).finish ≤ fin) : [b, i].Sublist (insertBefore tm fin i l) := by
  induction l with
  | nil => simp at hb
  | cons j rest ih =>
    have hs' : Sorted tm rest := (List.pairwise_cons.mp hs).2
    have hjle : ∀ x ∈ rest, (tm j).finish ≤ (tm x).finish := (List.pairwise_cons.mp hs).1
    simp only [insertBefore]
    have hnot : ¬ fin < (tm j).finish := by
      rcases List.mem_cons.mp hb with e | e
      · subst e; omega
      · have := hjle b e; omega
    simp only [hnot, if_false]
    rcases List.mem_cons.mp hb with e | e
    · subst e
      apply List.Sublist.cons_cons
      apply List.singleton_sublist.mpr
      rw [mem_insertBefore]; exact Or.inl rfl
    · exact List.Sublist.cons _ (ih hs' e)

theorem pair_head {a b i : Nat} {rest : List Nat} (h : [b, a].Sublist (i :: rest)) (hn : (i :: rest).Nodup)
    (hab : a ≠ b) : a ≠ i := by
  intro e
  subst e
  have hnr : a ∉ rest := (List.nodup_cons.mp hn).1
  cases h with
  | cons _ h' => exact hnr (h'.subset (by simp))
  | cons_cons _ h' => exact hab rfl

/-- `a` stands behind `b` in the list and no callback names either: `a` never runs before `b` has -/
theorem Steps.fifo {cb : Cb} {now : Int} {k : Nat} {m m' : Mgr} {fs : List Fire}
    (h : Steps cb now k m fs m') (hcb : CbPos cb) (hm : WF m) {a b : Nat} (hab : a ≠ b)
    (hp : [b, a].Sublist m.lst) (hua : Untouched cb a) (hub : Untouched cb b) :
    ∀ (n : Nat) (f : Fire), fs[n]? = some f → f.id = a → ∃ (n' : Nat) (g : Fire), n' < n ∧ fs[n']? = some g ∧ g.id = b := by
  induction h with
  | nil => intro n f hf; simp at hf
  | @cons k m m' i fs hd tl ih =>
    obtain ⟨rest, hl, _⟩ := headDue_some hd
    have hai : a ≠ i := by
      have hn := hm.nodup
      rw [hl] at hp hn
      exact pair_head hp hn hab
    intro n f hf hfa
    by_cases hbi : b = i
    · subst hbi
      cases n with
      | zero =>
        simp only [List.getElem?_cons_zero, Option.some.injEq] at hf
        subst hf
        exact absurd hfa.symm hai
      | succ n => exact ⟨0, _, Nat.succ_pos n, rfl, rfl⟩
    · cases n with
      | zero =>
        simp only [List.getElem?_cons_zero, Option.some.injEq] at hf
        subst hf
        exact absurd hfa.symm hai
      | succ n =>
        have hp' : [b, a].Sublist (execBody (cb k i) m i).lst := by
          unfold execBody
          apply pair_rearm _ _ hai hbi
          exact pair_runCb _ hp (fun x hx => hua k i x hx) (fun x hx => hub k i x hx)
        obtain ⟨n', g, h1, h2, h3⟩ := ih (hm.execBody _ (hcb _ _) _) hp' n f (by simpa using hf) hfa
        exact ⟨n' + 1, g, by omega, by simpa using h2, h3⟩

/-! ### the extended callbacks: on plan/unplan scripts `execX` is `execLoop` -/

def statOfBool : Bool → Stat
  | true => .done
  | false => .running

theorem runActsX_base (ex : Int → Nat → Mgr → Mgr × List Fire × Stat) (k : Nat) (m : Mgr) (acts : List Action) :
    runActsX ex k m (acts.map ActX.ofAction) = (runCb m acts, [], .done) := by
  induction acts generalizing m with
  | nil => rfl
  | cons a as ih =>
    cases a with
    | unplan j => simp only [List.map_cons, ActX.ofAction, runActsX, applyX]; rw [ih]; rfl
    | plan j s iv => simp only [List.map_cons, ActX.ofAction, runActsX, applyX]; rw [ih]; rfl

theorem not_destroy_mem_base (i : Nat) (acts : List Action) : ActX.destroy i ∉ acts.map ActX.ofAction := by
  intro h
  obtain ⟨a, _, e⟩ := List.mem_map.mp h
  cases a <;> simp [ActX.ofAction] at e

theorem execX_base_aux (cb : Cb) (fuel : Nat) (now : Int) (k : Nat) (m : Mgr) :
    execX (fun k i => (cb k i).map ActX.ofAction) fuel now k m =
      ((execLoop cb now fuel k m).1, (execLoop cb now fuel k m).2.1, statOfBool (execLoop cb now fuel k m).2.2) := by
  induction fuel generalizing k m with
  | zero =>
    simp only [execX, execLoop]
    cases (m.headDue now) <;> rfl
  | succ n ih =>
    unfold execX execLoop
    cases hd : m.headDue now with
    | none => rfl
    | some i =>
      simp only [runActsX_base, not_destroy_mem_base, if_true, if_false, List.length_nil, Nat.add_zero,
        List.nil_append]
      rw [ih]
      rfl

/-! ### stimer in wrapping arithmetic -/

theorem ofInt_sub' (w : Nat) (a b : Int) : BitVec.ofInt w (a - b) = BitVec.ofInt w a - BitVec.ofInt w b := by
  simp only [Int.sub_eq_add_neg, BitVec.ofInt_add, BitVec.ofInt_neg, BitVec.sub_eq_add_neg]

theorem stimerCheckN_sim (w : Nat) (hw : 0 < w) (t : STimer) (now : Int)
    (h1 : -2 ^ (w - 1) ≤ now - t.start) (h2 : now - t.start < 2 ^ (w - 1))
    (h3 : -2 ^ (w - 1) ≤ t.interval) (h4 : t.interval < 2 ^ (w - 1)) :
    stimerCheckN (t.toN w) (BitVec.ofInt w now) = stimerCheck t now := by
  simp only [stimerCheckN, stimerCheck, STimer.toN, ← ofInt_sub', BitVec.toInt_ofInt_eq_self hw h1 h2,
    BitVec.toInt_ofInt_eq_self hw h3 h4]

theorem stimerSwiftN_sim (w : Nat) (t : STimer) : stimerSwiftN (t.toN w) = (stimerSwift t).toN w := by
  simp [stimerSwiftN, stimerSwift, STimer.toN, BitVec.ofInt_add]

theorem stimerPeriodicN_sim (w : Nat) (hw : 0 < w) (t : STimer) (now : Int)
    (h1 : -2 ^ (w - 1) ≤ now - t.start) (h2 : now - t.start < 2 ^ (w - 1))
    (h3 : -2 ^ (w - 1) ≤ t.interval) (h4 : t.interval < 2 ^ (w - 1)) :
    stimerPeriodicN (t.toN w) (BitVec.ofInt w now) =
      ((stimerPeriodic t now).1.toN w, (stimerPeriodic t now).2) := by
  unfold stimerPeriodicN stimerPeriodic
  rw [stimerCheckN_sim w hw t now h1 h2 h3 h4]
  split
  · rw [stimerSwiftN_sim]
  · rfl

end Igris.C16
