/-
  C16 — `timer_manager_basic::exec` with the re-entrancy guard (fix-C16, C16-nested-exec-refires) and
  `minimal_interval` on an empty manager (fix-C16, C16-minimal-interval-empty).  Core Lean only.

    void exec(time_t curtime) {
        system_lock();
        if (executing) { system_unlock(); return; }     // called from a callback of this manager
        executing = true;
        while (!timer_list.empty()) { … tim.execute(); … }   // as before
        executing = false;
    }

    difftime_t minimal_interval(time_t curtime) {
        if (timer_list.empty()) return std::numeric_limits<difftime_t>::max();   // no deadline: "never"
        return sub(timer_list.first().finish(), curtime);
    }
-/
import IgrisModel.C16.Ext
namespace Igris.C16

/-- `exec(now)` entered while `executing` is set: returns at once, nothing changes, no callback -/
def execReentered : Int → Nat → Mgr → Mgr × List Fire × Stat := fun _ _ m => (m, [], .done)

/-- `exec(now)` of the repaired code with callbacks that may do everything in `ActX`: the loop of
`execX`; an `exec` call made by a callback finds `executing == true` (`execReentered`) -/
def execG (cb : CbX) : Nat → Int → Nat → Mgr → Mgr × List Fire × Stat
  | 0, now, _, m => (m, [], if (m.headDue now).isNone then .done else .running)
  | fuel + 1, now, k, m =>
    match m.headDue now with
    | none => (m, [], .done)
    | some i =>
      let f : Fire := ⟨i, (m.tm i).finish⟩
      let c := runActsX execReentered (k + 1) m (cb k i)
      if c.2.2 = .done then
        if ActX.destroy i ∈ cb k i then (c.1, f :: c.2.1, .uaf)
        else
          let r := execG cb fuel now (k + 1 + c.2.1.length) (rearm c.1 i (m.tm i))
          (r.1, f :: (c.2.1 ++ r.2.1), r.2.2)
      else (c.1, f :: c.2.1, c.2.2)

/-- a callback script of plan / unplan calls with `exec` calls anywhere in between -/
inductive ActG where
  | base (a : Action)
  | exec (now : Int)
deriving DecidableEq, Repr

def ActG.toX : ActG → ActX
  | .base a => ActX.ofAction a
  | .exec now => .exec now

def ActG.base? : ActG → Option Action
  | .base a => some a
  | .exec _ => none

/-- `minimal_interval(curtime)` of the repaired code; `dmax` = `numeric_limits<difftime_t>::max()` -/
def Mgr.minimalIntervalC (dmax : Int) (m : Mgr) (now : Int) : Int :=
  match m.lst with
  | [] => dmax
  | i :: _ => (m.tm i).finish - now

end Igris.C16
