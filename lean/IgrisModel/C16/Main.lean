import IgrisModel.C16.Model
import IgrisModel.Common.Proto
open Igris.Proto Igris.C16

/-- a scripted callback rule `I@K:acts` : timer id (`none` = any), callback index (`none` = any) -/
structure Rule where
  id : Option Nat
  k : Option Nat
  acts : List Action

def parseAct? (s : String) : Option Action :=
  match s.toList with
  | 'u' :: rest => (String.ofList rest).toNat?.map Action.unplan
  | 'p' :: rest =>
    match (String.ofList rest).splitOn "." with
    | [j, st, iv] => do
        let j ← j.toNat?
        let st ← st.toInt?
        let iv ← iv.toInt?
        pure (Action.plan j st iv)
    | _ => none
  | _ => none

def parseSel? (s : String) : Option (Option Nat) :=
  if s = "*" then some none else s.toNat?.map some

def parseRule? (s : String) : Option Rule :=
  match s.splitOn ":" with
  | [sel, acts] =>
    match sel.splitOn "@" with
    | [i, k] => do
        let i ← parseSel? i
        let k ← parseSel? k
        let acts ← (if acts = "" then some [] else (acts.splitOn ",").mapM parseAct?)
        pure ⟨i, k, acts⟩
    | _ => none
  | _ => none

def parseRules? (s : String) : Option (List Rule) :=
  if s = "-" then some [] else (s.splitOn ";").mapM parseRule?

def cbOf (rules : List Rule) : Cb := fun k i =>
  rules.flatMap fun r =>
    if (r.id = none ∨ r.id = some i) ∧ (r.k = none ∨ r.k = some k) then r.acts else []

/-- driver state: number of timers, manager, last `now`; or a stimer -/
inductive St where
  | none
  | mgr (n : Nat) (m : Mgr) (cur : Int)
  | st (t : STimer)

def summary (n : Nat) (m : Mgr) (cur : Int) : String :=
  let ts := (List.range n).map fun i =>
    toString (m.tm i).finish ++ "/" ++ (if i ∈ m.lst then "1" else "0")
  "t=" ++ ",".intercalate ts ++ " e=" ++ (if m.empty then "1" else "0") ++ " m=" ++
    (match m.minimalInterval cur with | some d => toString d | none => "-")

def showFires (fs : List Fire) : String :=
  if fs.isEmpty then "-" else ",".intercalate (fs.map fun f => toString f.id ++ ":" ++ toString f.deadline)

def showST (t : STimer) : String :=
  toString t.start ++ " " ++ toString t.interval ++ " " ++ (if t.planed then "1" else "0")

/-- the model loop is given this many iterations; more means `nonterm` -/
def driverFuel : Nat := 30000

/-- speed only: replace the chain of `setTm` closures by a table lookup (same function on ids < n,
the only ids the harness uses) -/
def compact (n : Nat) (m : Mgr) : Mgr :=
  let arr := ((List.range n).map m.tm).toArray
  { m with tm := fun i => if i < n then arr.getD i {} else m.tm i }

def stepLine (s : St) (line : String) : St × String :=
  let bad := (s, "bad-op")
  match words line with
  | ["reset", "s"] => (.st {}, "ok")
  | ["reset", n] =>
    match n.toNat? with
    | some n => (.mgr n Mgr.init 0, "ok")
    | none => bad
  | op :: args =>
    match s with
    | .none => bad
    | .mgr n m cur =>
      match op, args with
      | "plan", [i, st, iv] | "plan1", [i, st, iv] =>
        match i.toNat?, st.toInt?, iv.toInt? with
        | some i, some st, some iv =>
          let m' := m.plan3 i st iv
          (.mgr n (compact n m') cur, summary n m' cur)
        | _, _, _ => bad
      | "unplan", [i] =>
        match i.toNat? with
        | some i => let m' := m.unplan i; (.mgr n (compact n m') cur, summary n m' cur)
        | none => bad
      | "exec", [now, rules] =>
        match now.toInt?, parseRules? rules with
        | some now, some rules =>
          let r := execLoop (cbOf rules) now driverFuel 0 m
          if r.2.2 then
            (.mgr n (compact n r.1) now, "f=" ++ showFires r.2.1 ++ " " ++ summary n r.1 now)
          else (.mgr n r.1 now, "nonterm")
        | _, _ => bad
      | "qmin", [now] =>
        match now.toInt? with
        | some now =>
          (.mgr n m now, match m.minimalInterval now with | some d => toString d | none => "fault")
        | none => bad
      | "q", [now] =>
        match now.toInt? with
        | some now => (.mgr n m now, summary n m now)
        | none => bad
      | _, _ => bad
    | .st t =>
      match op, args with
      | "sinit", [a, b] =>
        match a.toInt?, b.toInt? with
        | some a, some b => let t' := stimerInit t a b; (.st t', showST t')
        | _, _ => bad
      | "splan", [a, b] =>
        match a.toInt?, b.toInt? with
        | some a, some b => let t' := stimerPlan t a b; (.st t', showST t')
        | _, _ => bad
      | "sstart", [a] =>
        match a.toInt? with
        | some a => let t' := stimerStart t a; (.st t', showST t')
        | none => bad
      | "sswift", [] => let t' := stimerSwift t; (.st t', showST t')
      | "sfinish", [] => (s, toString (stimerFinish t))
      | "scheck", [a] =>
        match a.toInt? with
        | some a => (s, if stimerCheck t a then "1" else "0")
        | none => bad
      | "speriodic", [a] =>
        match a.toInt? with
        | some a =>
          let r := stimerPeriodic t a
          (.st r.1, (if r.2 then "1 " else "0 ") ++ showST r.1)
        | none => bad
      | _, _ => bad
  | _ => bad

def main : IO Unit := run St.none stepLine
