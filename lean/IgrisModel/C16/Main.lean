import IgrisModel.C16.Model
import IgrisModel.C16.Wrap
import IgrisModel.C16.Ext
import IgrisModel.C16.WrapN
import IgrisModel.C16.Guard
import IgrisModel.C16.Delegate
import IgrisModel.C16.Tie
import IgrisModel.Common.Proto
open Igris.Proto Igris.C16

/-- a scripted callback rule `I@K:acts` : timer id (`none` = any), callback index (`none` = any) -/
structure Rule where
  id : Option Nat
  k : Option Nat
  acts : List ActX

def parseAct? (s : String) : Option ActX :=
  match s.toList with
  | 'u' :: rest => (String.ofList rest).toNat?.map ActX.unplan
  | 'r' :: rest => (String.ofList rest).toNat?.map ActX.replan
  | 'd' :: rest => (String.ofList rest).toNat?.map ActX.destroy
  | 'x' :: rest => (String.ofList rest).toInt?.map ActX.exec
  | 'p' :: rest =>
    match (String.ofList rest).splitOn "." with
    | [j, st, iv] => do
        let j ← j.toNat?
        let st ← st.toInt?
        let iv ← iv.toInt?
        pure (ActX.plan j st iv)
    | _ => none
  | 's' :: rest =>
    match (String.ofList rest).splitOn "." with
    | [j, v] => do
        let j ← j.toNat?
        let v ← v.toInt?
        pure (ActX.setStart j v)
    | _ => none
  | 'i' :: rest =>
    match (String.ofList rest).splitOn "." with
    | [j, v] => do
        let j ← j.toNat?
        let v ← v.toInt?
        pure (ActX.setInterval j v)
    | _ => none
  | _ => none

def parseSel? (s : String) : Option (Option Nat) :=
  if s = "*" then some none else s.toNat?.map some

def parseRule? (s : String) : Option Rule :=
  match s.splitOn ":" with
  | [sel, acts] =>
    match sel.splitOn "@" with
    | [i, k] => do
        let i ← parseSel? i
        let k ← parseSel? k
        let acts ← (if acts = "" then some [] else (acts.splitOn ",").mapM parseAct?)
        pure ⟨i, k, acts⟩
    | _ => none
  | _ => none

def parseRules? (s : String) : Option (List Rule) :=
  if s = "-" then some [] else (s.splitOn ";").mapM parseRule?

def cbXOf (rules : List Rule) : CbX := fun k i =>
  rules.flatMap fun r =>
    if (r.id = none ∨ r.id = some i) ∧ (r.k = none ∨ r.k = some k) then r.acts else []

/-- the plan/unplan part of an action (`none`: not expressible in `Action`) -/
def baseAct? : ActX → Option Action
  | .unplan j => some (.unplan j)
  | .plan j s iv => some (.plan j s iv)
  | _ => none

/-- the rules as callbacks of the base model — defined when every act is `plan`/`unplan` -/
def cbOf? (rules : List Rule) : Option Cb :=
  if rules.all (fun r => r.acts.all (fun a => (baseAct? a).isSome)) then
    some fun k i =>
      rules.flatMap fun r =>
        if (r.id = none ∨ r.id = some i) ∧ (r.k = none ∨ r.k = some k) then r.acts.filterMap baseAct? else []
  else none

/-- driver state -/
inductive St where
  | none
  /-- `timer_manager` over int64: number of timers, manager, last `now`, the unarmed timer (if any) -/
  | mgr (n : Nat) (m : Mgr) (cur : Int) (unarmed : Option Nat) (td : Bool)
  /-- the outcome of the case depends on the order among timers with equal deadlines (which the property leaves
  open): nothing more is compared until the next `reset` (the harness prints the same token; its oracle goes on) -/
  | tainted
  /-- `timer_manager_basic<timer_spec<uint32_t>>`; op lines carry unbounded tick values -/
  | mgrW (n : Nat) (m : MgrW) (cur : W32) (hz : Bool)
  | st (t : STimer)
  /-- stimer with tick values that may lie beyond `LONG_MAX` (read modulo 2^64) -/
  | stW (t : STimerW)
  /-- `timer_manager_basic<timer_spec<T>>` for a `w`-bit integral `T` (`sgn`: signed); every tick value of
  the op lines is moved by `off` before it is truncated to `w` bits -/
  | mgrN (w : Nat) (sgn : Bool) (tsg : Bool) (off : Int) (n : Nat) (m : MgrN w) (cur : BitVec w) (hz : Bool)
  /-- four `igris::delegate<void, int>` objects -/
  | dlg (slots : List Dlg)

def summary (n : Nat) (m : Mgr) (cur : Int) : String :=
  let ts := (List.range n).map fun i =>
    toString (m.tm i).finish ++ "/" ++ (if i ∈ m.lst then "1" else "0")
  "t=" ++ ",".intercalate ts ++ " e=" ++ (if m.empty then "1" else "0") ++ " m=" ++
    (match m.minimalInterval cur with | some d => toString d | none => "-")

def summaryW (n : Nat) (m : MgrW) (cur : W32) : String :=
  let ts := (List.range n).map fun i =>
    toString (m.tm i).finish.toNat ++ "/" ++ (if i ∈ m.lst then "1" else "0")
  "t=" ++ ",".intercalate ts ++ " e=" ++ (if m.empty then "1" else "0") ++ " m=" ++
    (match m.minimalInterval cur with | some d => toString d.toNat | none => "-")

def showFires (fs : List Fire) : String :=
  let fs := canonFires Fire.id (fun a b => a.deadline == b.deadline) fs
  if fs.isEmpty then "-" else ",".intercalate (fs.map fun f => toString f.id ++ ":" ++ toString f.deadline)

def showFiresW (fs : List FireW) : String :=
  let fs := canonFires FireW.id (fun a b => a.deadline == b.deadline) fs
  if fs.isEmpty then "-" else ",".intercalate (fs.map fun f => toString f.id ++ ":" ++ toString f.deadline.toNat)

def showST (t : STimer) : String :=
  toString t.start ++ " " ++ toString t.interval ++ " " ++ (if t.planed then "1" else "0")

def showSTW (t : STimerW) : String :=
  toString t.start.toInt ++ " " ++ toString t.interval.toInt ++ " " ++ (if t.planed then "1" else "0")

/-- the model loop is given this many iterations; more means `nonterm` -/
def driverFuel : Nat := 30000

/-- speed only: replace the chain of `setTm` closures by a table lookup (same function on ids < n,
the only ids the harness uses) -/
def compact (n : Nat) (m : Mgr) : Mgr :=
  let arr := ((List.range n).map m.tm).toArray
  { m with tm := fun i => if i < n then arr.getD i {} else m.tm i }

def compactW (n : Nat) (m : MgrW) : MgrW :=
  let arr := ((List.range n).map m.tm).toArray
  { m with tm := fun i => if i < n then arr.getD i {} else m.tm i }

/-- the repaired code compares deadlines by the sign of their difference -/
def drvCmp : Cmp := .signedDiff

def tieToken : String := "tie-dependent"

def hasSetter (rules : List Rule) : Bool :=
  rules.any fun r => r.acts.any fun a => match a with | .setStart _ _ | .setInterval _ _ => true | _ => false

def hasActs (rules : List Rule) : Bool := rules.any fun r => !r.acts.isEmpty

def anyTieMgr (m : Mgr) : Bool := anyDup (m.lst.map fun j => (m.tm j).finish)

def nextMgr (n : Nat) (cbx : CbX) (now : Int) (k : Nat) (m : Mgr) : Option (TieIn × Mgr) :=
  match m.headDue now with
  | Option.none => Option.none
  | some h =>
    let d := (m.tm h).finish
    let r := execG cbx 1 now k m
    some (⟨h, d, m.lst.filter (fun j => (m.tm j).finish == d), anyTieMgr m⟩, compact n r.1)

/-- histories OUTSIDE the window precondition (`reset U|I|V`): "deadline order" is only defined while the pending
deadlines lie within half of the counter range of each other - the comparison by the sign of the difference is then
a strict total order on distinct deadlines.  `orderBad`: it is not (two deadlines exactly half the range apart, or a
cycle): where `plan` inserts then depends on how the scan is written, which the property does not fix. -/
def orderBad {w : Nat} (ds : List (BitVec w)) : Bool :=
  let e (a b : BitVec w) : Bool := decide ((a - b).toInt < 0)
  ds.any fun a => ds.any fun b =>
    (a != b && e a b == e b a) || ds.any fun c => e a b && e b c && !e a c

def orderBadW (m : MgrW) : Bool := orderBad (m.lst.map fun j => (m.tm j).finish)
def orderBadN {w : Nat} (m : MgrN w) : Bool := orderBad (m.lst.map fun j => (m.tm j).finish)

def nextW (n : Nat) (cb : CbW) (nw : W32) (k : Nat) (m : MgrW) : Option (TieIn × MgrW) :=
  match m.headDue nw with
  | Option.none => Option.none
  | some h =>
    let d := (m.tm h).finish
    let r := execLoopW drvCmp cb nw 1 k m
    some (⟨h, d.toNat, m.lst.filter (fun j => (m.tm j).finish == d), orderBadW m⟩, compactW n r.1)

def stepMgr (n : Nat) (m : Mgr) (cur : Int) (un : Option Nat) (td : Bool) (op : String) (args : List String) :
    Option (St × String) :=
  let ret (m' : Mgr) (cur' : Int) (s : String) : Option (St × String) := some (.mgr n (compact n m') cur' un td, s)
  match op, args with
  | "plan", [i, st, iv] | "plan1", [i, st, iv] => do
    let i ← i.toNat?; let st ← st.toInt?; let iv ← iv.toInt?
    let m' := m.plan3 i st iv
    ret m' cur (summary n m' cur)
  | "unplan", [i] => do
    let i ← i.toNat?
    let m' := m.unplan i
    ret m' cur (summary n m' cur)
  | "sets", [i, v] => do
    let i ← i.toNat?; let v ← v.toInt?
    let m' := m.setStart i v
    ret m' cur (summary n m' cur)
  | "seti", [i, v] => do
    let i ← i.toNat?; let v ← v.toInt?
    let m' := m.setInterval i v
    ret m' cur (summary n m' cur)
  | "replan", [i] => do
    let i ← i.toNat?
    let m' := m.plan i
    ret m' cur (summary n m' cur)
  | "destroy", [i] => do
    let i ← i.toNat?
    let m' := m.destroy i
    ret m' cur (summary n m' cur)
  | "dropmgr", [] =>
    let m' := m.dropMgr
    ret m' cur (summary n m' cur)
  | "exec", [now, rules] => do
    let now ← now.toInt?
    let rules ← parseRules? rules
    -- an unarmed timer's `execute()` does nothing and is not seen by the harness
    let rules := match un with
      | some u => rules.map fun r => { r with acts := if r.id = some u then [] else r.acts }
      | Option.none => rules
    let vis (fs : List Fire) := match un with
      | some u => fs.filter (fun f => f.id != u)
      | Option.none => fs
    let cbxT : CbX := fun k i => if some i = un then [] else cbXOf rules k i
    if (td || hasActs rules) && tieScan (nextMgr n cbxT now) cbxT now td driverFuel 0 m {} then
      some (.tainted, tieToken)
    else
    match cbOf? rules, un with
    | some cb, Option.none =>
      let r := execLoop cb now driverFuel 0 m
      if r.2.2 then ret r.1 now ("f=" ++ showFires r.2.1 ++ " " ++ summary n r.1 now)
      else some (.mgr n r.1 now un td, "nonterm")
    | _, _ =>
      let cbx : CbX := fun k i => if some i = un then [] else cbXOf rules k i
      let r := execG cbx driverFuel now 0 m
      match r.2.2 with
      | .done => ret r.1 now ("f=" ++ showFires (vis r.2.1) ++ " " ++ summary n r.1 now)
      | .running => some (.mgr n r.1 now un td, "nonterm")
      | .uaf => some (.mgr n r.1 now un td, "fault")
  | "qmin", [now] => do
    let now ← now.toInt?
    some (.mgr n m now un td, toString (m.minimalIntervalC 9223372036854775807 now))
  | "q", [now] => do
    let now ← now.toInt?
    some (.mgr n m now un td, summary n m now)
  | _, _ => Option.none

def baseActs? (rules : List Rule) : Option CbW :=
  (cbOf? rules).map cbToW

def stepMgrW (n : Nat) (m : MgrW) (cur : W32) (hz : Bool) (op : String) (args : List String) : Option (St × String) :=
  let ret (m' : MgrW) (cur' : W32) (s : String) : Option (St × String) := some (.mgrW n (compactW n m') cur' hz, s)
  match op, args with
  | "plan", [i, st, iv] | "plan1", [i, st, iv] => do
    let i ← i.toNat?; let st ← st.toInt?; let iv ← iv.toInt?
    let m' := m.plan3 drvCmp i (wr st) (wr iv)
    ret m' cur (summaryW n m' cur)
  | "unplan", [i] => do
    let i ← i.toNat?
    let m' := m.unplan i
    ret m' cur (summaryW n m' cur)
  | "exec", [now, rules] => do
    let now ← now.toInt?
    let rules ← parseRules? rules
    let cb ← baseActs? rules
    if (hz || hasActs rules) && tieScan (nextW n cb (wr now)) (cbXOf rules) now hz driverFuel 0 m {} then
      some (.tainted, tieToken)
    else
    let r := execLoopW drvCmp cb (wr now) driverFuel 0 m
    if r.2.2 then ret r.1 (wr now) ("f=" ++ showFiresW r.2.1 ++ " " ++ summaryW n r.1 (wr now))
    else some (.mgrW n r.1 (wr now) hz, "nonterm")
  | "q", [now] => do
    let now ← now.toInt?
    some (.mgrW n m (wr now) hz, summaryW n m (wr now))
  | _, _ => Option.none

def showTick {w : Nat} (sgn : Bool) (x : BitVec w) : String :=
  if sgn then toString x.toInt else toString x.toNat

def summaryN {w : Nat} (sgn tsg : Bool) (n : Nat) (m : MgrN w) (cur : BitVec w) : String :=
  let ts := (List.range n).map fun i =>
    showTick tsg (m.tm i).finish ++ "/" ++ (if i ∈ m.lst then "1" else "0")
  "t=" ++ ",".intercalate ts ++ " e=" ++ (if m.empty then "1" else "0") ++ " m=" ++
    (match m.minimalInterval cur with | some d => showTick sgn d | none => "-")

def showFiresN {w : Nat} (sgn : Bool) (fs : List (FireN w)) : String :=
  let fs := canonFires FireN.id (fun a b => a.deadline == b.deadline) fs
  if fs.isEmpty then "-" else ",".intercalate (fs.map fun f => toString f.id ++ ":" ++ showTick sgn f.deadline)

def compactN {w : Nat} (n : Nat) (m : MgrN w) : MgrN w :=
  let arr := ((List.range n).map m.tm).toArray
  { m with tm := fun i => if i < n then arr.getD i {} else m.tm i }

/-- the callbacks of the base model with every start moved by `off`, truncated to `w` bits -/
def cbOffN (w : Nat) (off : Int) (cb : Cb) : CbN w := fun k i =>
  (cb k i).map fun a => match a with
    | .unplan j => ActionN.unplan j
    | .plan j s iv => ActionN.plan j (wrN w (s + off)) (wrN w iv)

def nextN {w : Nat} (sgn : Bool) (n : Nat) (cb : CbN w) (nw : BitVec w) (k : Nat) (m : MgrN w) :
    Option (TieIn × MgrN w) :=
  match m.headDue sgn nw with
  | Option.none => Option.none
  | some h =>
    let d := (m.tm h).finish
    let r := execLoopN sgn cb nw 1 k m
    some (⟨h, d.toNat, m.lst.filter (fun j => (m.tm j).finish == d), orderBadN m⟩, compactN n r.1)

def stepMgrN (w : Nat) (sgn tsg : Bool) (off : Int) (n : Nat) (m : MgrN w) (cur : BitVec w) (hz : Bool) (op : String)
    (args : List String) : Option (St × String) :=
  let ret (m' : MgrN w) (cur' : BitVec w) (s : String) : Option (St × String) :=
    some (.mgrN w sgn tsg off n (compactN n m') cur' hz, s)
  match op, args with
  | "plan", [i, st, iv] | "plan1", [i, st, iv] => do
    let i ← i.toNat?; let st ← st.toInt?; let iv ← iv.toInt?
    let m' := m.plan3 i (wrN w (st + off)) (wrN w iv)
    ret m' cur (summaryN sgn tsg n m' cur)
  | "unplan", [i] => do
    let i ← i.toNat?
    let m' := m.unplan i
    ret m' cur (summaryN sgn tsg n m' cur)
  | "exec", [now, rules] => do
    let now ← now.toInt?
    let rules ← parseRules? rules
    let cb ← cbOf? rules
    let nw := wrN w (now + off)
    if (hz || hasActs rules) && tieScan (nextN sgn n (cbOffN w off cb) nw) (cbXOf rules) now hz driverFuel 0 m {} then
      some (.tainted, tieToken)
    else
    let r := execLoopN sgn (cbOffN w off cb) nw driverFuel 0 m
    if r.2.2 then ret r.1 nw ("f=" ++ showFiresN tsg r.2.1 ++ " " ++ summaryN sgn tsg n r.1 nw)
    else some (.mgrN w sgn tsg off n r.1 nw hz, "nonterm")
  | "q", [now] => do
    let now ← now.toInt?
    some (.mgrN w sgn tsg off n m (wrN w (now + off)) hz, summaryN sgn tsg n m (wrN w (now + off)))
  | _, _ => Option.none

/-- target ids of the delegate harness: plain functions 1..3, member functions 11..13 (objects 1..3),
external functions 21..23 (objects 0..3), functor `operator()` 31..32 (functor objects 41..42) -/
def showCall : Call → String
  | .function fn arg => "F" ++ toString fn ++ "(" ++ toString arg ++ ")"
  | .method fn _ obj arg =>
    if fn ≥ 30 then "L" ++ toString (fn - 30) ++ "(" ++ toString arg ++ ")"
    else "M" ++ toString obj ++ "." ++ toString (fn - 10) ++ "(" ++ toString arg ++ ")"
  | .ext fn obj arg => "X" ++ toString (fn - 20) ++ "[" ++ toString obj ++ "](" ++ toString arg ++ ")"

def showDlg (d : Dlg) (calls : List Call) : String :=
  "a=" ++ (if d.armed then "1" else "0") ++ " c=" ++ (if calls.isEmpty then "-" else String.join (calls.map showCall))

def stepDlg (sl : List Dlg) (op : String) (args : List String) : Option (St × String) :=
  let get (a : Nat) : Dlg := sl.getD a {}
  let put (a : Nat) (d : Dlg) (calls : List Call) : Option (St × String) := some (.dlg (sl.set a d), showDlg d calls)
  match op, args with
  | "dnew", [a, "0"] => do let a ← a.toNat?; put a ({} : Dlg).clean []
  | "dnew", [a, "f", k] => do let a ← a.toNat?; let k ← k.toNat?; put a (Dlg.ofFunction k) []
  | "dnew", [a, "m", o, k] => do let a ← a.toNat?; let o ← o.toNat?; let k ← k.toNat?; put a (Dlg.ofMethod (10 + k) 0 o) []
  | "dnew", [a, "x", k, o] => do let a ← a.toNat?; let k ← k.toNat?; let o ← o.toNat?; put a (Dlg.ofExt (20 + k) o) []
  | "dnew", [a, "l", k] => do let a ← a.toNat?; let k ← k.toNat?; put a (Dlg.ofMethod (30 + k) 0 (40 + k)) []
  | "dcopy", [a, b] | "dmove", [a, b] => do let a ← a.toNat?; let b ← b.toNat?; put a (get b).copy.copy []
  | "dclean", [a] => do let a ← a.toNat?; put a (get a).clean []
  | "dinv", [a, x] => do
    let a ← a.toNat?; let x ← x.toInt?
    put a (get a) ((get a).invoke x ++ (get a).invoke x)
  | "dreset", [a, x] => do
    let a ← a.toNat?; let x ← x.toInt?
    let r := (get a).invokeAndReset x
    put a r.1 r.2
  | "deq", [a, b] => do
    let a ← a.toNat?; let b ← b.toNat?
    some (.dlg sl, if (get a).eq (get b) then "1" else "0")
  | "dtim", [a, x, n] => do
    let a ← a.toNat?; let x ← x.toInt?; let n ← n.toInt?
    -- `timer<int>(dlg, x)` planned at (0, 1), `exec(n)`: one `execute()` = one `dlg(x)` per callback of the model
    let fires := (execLoop (fun _ _ => []) n driverFuel 0 (Mgr.init.plan3 0 0 1)).2.1
    put a (get a) (fires.flatMap fun _ => (get a).invoke x)
  | _, _ => Option.none

/-- what the models embed: `long` and the stimer fields are `BitVec 64` read as signed (`stW`), `planed` / the
result of `stimer_check` an `int`, `stimer_finish` an unsigned 64-bit value; the managers run as
`MgrN 64 true` (and `Mgr` over `Int` for in-range values), `MgrN 32 true`, `MgrN 32 false` / `MgrW`; the "never"
value of `minimal_interval`; a delegate is three 8-byte words (`Dlg`) -/
def tyName (w : Nat) (sgn : Bool) : String := toString (w / 8) ++ (if sgn then "s" else "u")
def mgrTypes (w : Nat) (sgn : Bool) : String :=
  "time=" ++ tyName w sgn ++ ",diff=" ++ tyName w sgn ++ ",never=" ++
    toString (if sgn then 2 ^ (w - 1) - 1 else 2 ^ w - 1 : Nat)
def constsLine : String :=
  "long=" ++ tyName 64 true ++ " stimer.start=" ++ tyName 64 true ++ " stimer.interval=" ++ tyName 64 true ++
  " stimer.planed=" ++ tyName 32 true ++ " stimer_finish=" ++ tyName 64 false ++ " stimer_check=" ++ tyName 32 true ++
  " mgr[" ++ mgrTypes 64 true ++ "] i32[" ++ mgrTypes 32 true ++ "] u32[" ++ mgrTypes 32 false ++ "]" ++
  " u32s[time=" ++ tyName 32 false ++ ",diff=" ++ tyName 32 true ++ ",never=2147483647]" ++
  " default=int64"

/-- the scenario the harness runs before `main()`: plan (0,3) and (0,5), `exec(7)`, `minimal_interval(7)`, `empty()`,
unplan both, `minimal_interval(7)`, two stimer checks, lock count -/
def premainLine : String :=
  let m := (Mgr.init.plan3 0 0 3).plan3 1 0 5
  let r := execLoop (fun _ _ => []) 7 driverFuel 0 m
  let m2 := (r.1.unplan 0).unplan 1
  let t1 : STimerW := stimerPlanN {} (wr64 5250) (wr64 9223372036854775807)
  let t2 : STimerW := stimerPlanN t1 (wr64 0) (wr64 3)
  "f=" ++ showFires r.2.1 ++ " m=" ++ toString (r.1.minimalIntervalC 9223372036854775807 7) ++
    " e=" ++ (if r.1.empty then "1" else "0") ++ " n=" ++ toString (m2.minimalIntervalC 9223372036854775807 7) ++
    " s=" ++ (if stimerCheckW t1 (wr64 5000) then "1" else "0") ++ (if stimerCheckW t2 (wr64 3) then "1" else "0") ++
    " l=0"

def stepST (t : STimer) (op : String) (args : List String) : Option (St × String) :=
  match op, args with
  | "sinit", [a, b] => do
    let a ← a.toInt?; let b ← b.toInt?
    let t' := stimerInit t a b; some (.st t', showST t')
  | "splan", [a, b] => do
    let a ← a.toInt?; let b ← b.toInt?
    let t' := stimerPlan t a b; some (.st t', showST t')
  | "sstart", [a] => do
    let a ← a.toInt?
    let t' := stimerStart t a; some (.st t', showST t')
  | "sswift", [] => let t' := stimerSwift t; some (.st t', showST t')
  | "sfinish", [] => some (.st t, toString (stimerFinish t))
  | "scheck", [a] => do
    let a ← a.toInt?
    some (.st t, if stimerCheck t a then "1" else "0")
  | "speriodic", [a] => do
    let a ← a.toInt?
    let r := stimerPeriodic t a
    some (.st r.1, (if r.2 then "1 " else "0 ") ++ showST r.1)
  | _, _ => Option.none

def stepSTW (t : STimerW) (op : String) (args : List String) : Option (St × String) :=
  match op, args with
  | "sinit", [a, b] => do
    let a ← a.toInt?; let b ← b.toInt?
    let t' : STimerW := stimerInitN t (wr64 a) (wr64 b); some (.stW t', showSTW t')
  | "splan", [a, b] => do
    let a ← a.toInt?; let b ← b.toInt?
    let t' : STimerW := stimerPlanN t (wr64 a) (wr64 b); some (.stW t', showSTW t')
  | "sstart", [a] => do
    let a ← a.toInt?
    let t' : STimerW := stimerStartN t (wr64 a); some (.stW t', showSTW t')
  | "sswift", [] => let t' := stimerSwiftW t; some (.stW t', showSTW t')
  | "sfinish", [] => some (.stW t, toString (stimerFinishW t).toNat)
  | "scheck", [a] => do
    let a ← a.toInt?
    some (.stW t, if stimerCheckW t (wr64 a) then "1" else "0")
  | "speriodic", [a] => do
    let a ← a.toInt?
    let r := stimerPeriodicW t (wr64 a)
    some (.stW r.1, (if r.2 then "1 " else "0 ") ++ showSTW r.1)
  | _, _ => Option.none

def stepLine (s : St) (line : String) : St × String :=
  let bad := (s, "bad-op")
  match words line with
  | ["reset", "s"] => (.st {}, "ok")
  | ["reset", "S"] | ["reset", "T"] => (.stW {}, "ok")
  | ["reset", md, n] =>
    match n.toNat? with
    | some n =>
      if md = "u" ∨ md = "U" then (.mgrW n MgrW.init 0 (md = "U"), "ok")
      else if md = "i" ∨ md = "I" then (.mgrN 32 true true 0 n MgrN.init 0 (md = "I"), "ok")
      -- timer_spec<uint32_t, int32_t>: unsigned ticks, the elapsed time and the interval are int32_t
      else if md = "v" ∨ md = "V" then (.mgrN 32 true false 0 n MgrN.init 0 (md = "V"), "ok")
      else if md = "z" then (.mgr n Mgr.init 0 (some (n - 1)) false, "ok")
      else bad
    | Option.none => bad
  | ["reset", "C"] => (.none, "ok")
  | ["consts"] => (s, constsLine)
  | ["premain"] => (s, premainLine)
  | ["reset", "D"] => (.dlg (List.replicate 4 ({} : Dlg).clean), "ok")
  | ["reset", "l", n, off] =>
    match n.toNat?, off.toInt? with
    | some n, some off => (.mgrN 64 true true off n MgrN.init (wrN 64 off) false, "ok")
    | _, _ => bad
  | ["reset", n] =>
    match n.toNat? with
    | some n => (.mgr n Mgr.init 0 Option.none false, "ok")
    | Option.none => bad
  | op :: args =>
    match s with
    | .none => bad
    | .tainted => (s, tieToken)
    | .mgr n m cur un td =>
      -- a setter that hits a planned timer, or an exec whose callbacks use setters: from here on the list may be
      -- unsorted and what happens depends on the positions of timers with equal deadlines
      let tdOp : Bool := match op, args with
        | "sets", [i, _] | "seti", [i, _] => (i.toNat?.map (fun i => m.lst.contains i)).getD false
        | "exec", [_, rules] => ((parseRules? rules).map hasSetter).getD false
        | _, _ => false
      let td' := td || tdOp
      match stepMgr n m cur un td' op args with
      | some (.mgr n' m' cur' un' t', r) =>
        if td' && (anyTieMgr m || anyTieMgr m') then (.tainted, tieToken) else (.mgr n' m' cur' un' t', r)
      | some x => x
      | Option.none => bad
    | .mgrW n m cur hz =>
      match stepMgrW n m cur hz op args with
      | some (.mgrW n' m' c' h', r) =>
        if hz && (orderBadW m || orderBadW m') then (.tainted, tieToken) else (.mgrW n' m' c' h', r)
      | some x => x
      | Option.none => bad
    | .st t => (stepST t op args).getD bad
    | .stW t => (stepSTW t op args).getD bad
    | .mgrN w sgn tsg off n m cur hz =>
      if hz && orderBadN m then (.tainted, tieToken) else
      match stepMgrN w sgn tsg off n m cur hz op args with
      | some (.mgrN w' sgn' tsg' off' n' m' c' h', r) =>
        if hz && orderBadN m' then (.tainted, tieToken) else (.mgrN w' sgn' tsg' off' n' m' c' h', r)
      | some x => x
      | Option.none => bad
    | .dlg sl => (stepDlg sl op args).getD bad
  | _ => bad

def main : IO Unit := run St.none stepLine
