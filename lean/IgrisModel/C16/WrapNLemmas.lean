/-
  C16 — the `w`-bit manager of ANY integral instance (`WrapN.lean`: int32_t, int64_t, uint32_t …)
  simulates the unbounded-time manager (`Model.lean`) as long as the history stays inside a window
  of less than half the counter range.  Width-generic version of `WrapLemmas.lean`; the window
  vocabulary (`TWin`, `Win`, `CbWin`, `J`, `HistWin`) is the one defined there.
-/
import IgrisModel.C16.WrapLemmas
import IgrisModel.C16.WrapN
namespace Igris.C16

/-! ### truncation to `w` bits -/

theorem wrN_add (w : Nat) (a b : Int) : wrN w (a + b) = wrN w a + wrN w b := by
  simp [wrN, BitVec.ofInt_add]

theorem wrN_sub (w : Nat) (a b : Int) : wrN w (a - b) = wrN w a - wrN w b := by
  simp only [wrN, Int.sub_eq_add_neg, BitVec.ofInt_add, BitVec.ofInt_neg, BitVec.sub_eq_add_neg]

theorem two_pow_half (w : Nat) (hw : 0 < w) : (2 : Int) ^ w = 2 * 2 ^ (w - 1) := by
  obtain ⟨k, rfl⟩ : ∃ k, w = k + 1 := ⟨w - 1, by omega⟩
  simp [Int.pow_succ]; omega

theorem cast_two_pow (w : Nat) : ((2 ^ w : Nat) : Int) = (2 : Int) ^ w := by simp

theorem wrN_toNat (w : Nat) (x : Int) (h0 : 0 ≤ x) (h1 : x < 2 ^ w) : ((wrN w x).toNat : Int) = x := by
  simp only [wrN, BitVec.toNat_ofInt, cast_two_pow]
  rw [Int.emod_eq_of_lt h0 h1]
  omega

theorem wrN_toInt (w : Nat) (hw : 0 < w) (x : Int) (h0 : -(2 ^ (w - 1)) ≤ x) (h1 : x < 2 ^ (w - 1)) :
    (wrN w x).toInt = x := by
  have hp := two_pow_half w hw
  simp only [wrN, BitVec.toInt_ofInt, Int.bmod_def, cast_two_pow]
  by_cases hx : 0 ≤ x
  · rw [Int.emod_eq_of_lt hx (by omega)]
    split <;> omega
  · have e : x % 2 ^ w = x + 2 ^ w := by
      rw [← Int.add_emod_right, Int.emod_eq_of_lt (by omega) (by omega)]
    rw [e]
    split <;> omega

/-- the parameters: how late an `exec` may come (`G`), how long an interval may be (`D`); together
less than half the range of the `w`-bit counter -/
structure ParamsN (w : Nat) (G D : Int) : Prop where
  hw : 0 < w
  g0 : 0 ≤ G
  gd : G + D < 2 ^ (w - 1)

variable {w : Nat}

theorem wrN_inj (hw : 0 < w) {a b : Int} (h : wrN w a = wrN w b) (h1 : -(2 ^ (w - 1)) ≤ a - b) (h2 : a - b < 2 ^ (w - 1)) : a = b := by
  have e : wrN w (a - b) = 0#w := by rw [wrN_sub w, h]; simp
  have := wrN_toInt w hw (a - b) h1 h2
  rw [e] at this
  simp at this
  omega

@[simp] theorem toN_finish (t : Timer) : (t.toN w).finish = wrN w t.finish := by
  simp [Timer.toN, TimerN.finish, Timer.finish, wrN_add w]

@[simp] theorem toN_shift (t : Timer) : (t.shift.toN w) = (t.toN w).shift := by
  simp [Timer.toN, TimerN.shift, Timer.shift, wrN_add w]

theorem check_simN (sgn : Bool) {G D now : Int} (P : ParamsN w G D) {t : Timer} (h : TWin G D now t) :
    (t.toN w).check sgn (wrN w now) = t.check now := by
  have h1 := h.pos; have h2 := h.le; have h3 := h.start_le; have h4 := h.fin_ge
  have := P.g0; have := P.gd; have hp := two_pow_half w P.hw
  simp only [Timer.finish] at h4
  cases sgn with
  | false =>
    have a := wrN_toNat w t.interval (by omega) (by omega)
    have b := wrN_toNat w (now - t.start) (by omega) (by omega)
    simp only [Timer.toN, TimerN.check, TimerN.ivalue, TimerN.elapsed, Timer.check, ← wrN_sub w,
      decide_eq_decide, Bool.false_eq_true, if_false]
    omega
  | true =>
    have a := wrN_toInt w P.hw t.interval (by omega) (by omega)
    have b := wrN_toInt w P.hw (now - t.start) (by omega) (by omega)
    simp only [Timer.toN, TimerN.check, TimerN.ivalue, TimerN.elapsed, Timer.check, ← wrN_sub w,
      decide_eq_decide, if_true]
    omega

theorem earlier_simN (hw : 0 < w) {a b : Int} (h1 : -(2 ^ (w - 1)) ≤ a - b) (h2 : a - b < 2 ^ (w - 1)) :
    earlierN (wrN w a) (wrN w b) = decide (a < b) := by
  simp only [earlierN, ← wrN_sub w, wrN_toInt w hw (a - b) h1 h2, decide_eq_decide]
  omega

theorem toN_inj {G D now : Int} (P : ParamsN w G D) {a b : Timer} (ha : TWin G D now a) (hb : TWin G D now b)
    (h : (a.toN w) = (b.toN w)) : a = b := by
  have := ha.pos; have := ha.le; have := ha.start_le; have := ha.fin_ge
  have := hb.pos; have := hb.le; have := hb.start_le; have := hb.fin_ge
  have := P.g0; have := P.gd
  simp only [Timer.finish] at *
  simp only [Timer.toN, TimerN.mk.injEq] at h
  have e1 := wrN_inj P.hw h.1 (by omega) (by omega)
  have e2 := wrN_inj P.hw h.2 (by omega) (by omega)
  cases a; cases b; simp_all

/-! ### the operations commute with truncation -/

theorem insertBefore_simN (hw : 0 < w) (tm : Nat → Timer) (fin : Int) (i : Nat) (l : List Nat)
    (h : ∀ j ∈ l, -(2 ^ (w - 1)) ≤ fin - (tm j).finish ∧ fin - (tm j).finish < 2 ^ (w - 1)) :
    insertBeforeN (fun x => (tm x).toN w) (wrN w fin) i l = insertBefore tm fin i l := by
  induction l with
  | nil => rfl
  | cons j rest ih =>
    have hj := h j (by simp)
    simp only [insertBeforeN, insertBefore, toN_finish, earlier_simN hw hj.1 hj.2]
    rw [ih (fun x hx => h x (List.mem_cons_of_mem _ hx))]
    by_cases hlt : fin < (tm j).finish <;> simp [hlt]

theorem toN_unplan (m : Mgr) (i : Nat) : (m.unplan i).toN w = (m.toN w).unplan i := rfl

theorem toN_setTm (m : Mgr) (i : Nat) (t : Timer) :
    ({ m with tm := setTm m.tm i t } : Mgr).toN w = { (m.toN w) with tm := setTmN (m.toN w).tm i (t.toN w) } := by
  simp only [Mgr.toN]
  congr 1
  funext x
  simp only [setTm, setTmN]
  split <;> rfl

theorem plan_simN {G D now : Int} (P : ParamsN w G D) (m : Mgr) (i : Nat) (hw : Win G D now (m.unplan i))
    (hi : TWin G D now (m.tm i)) :
    (m.plan i).toN w = (m.toN w).plan i ∧ Win G D now (m.plan i) := by
  have := P.g0; have := P.gd
  refine ⟨?_, ?_⟩
  · simp only [Mgr.plan, MgrN.plan, Mgr.toN, MgrN.unplan, Mgr.unplan, toN_finish]
    congr 1
    symm
    apply insertBefore_simN P.hw
    intro j hj
    have hjw : TWin G D now (m.tm j) := hw j hj
    have := hi.close hjw
    omega
  · intro x hx
    rcases (mem_plan m i x).mp hx with e | e
    · subst e; exact hi
    · by_cases hxi : x = i
      · subst hxi; exact hi
      · exact hw x ((mem_unplan m i x).mpr ⟨e, hxi⟩)

theorem plan3_simN {G D now : Int} (P : ParamsN w G D) (m : Mgr) (i : Nat) (s iv : Int) (hw : Win G D now m)
    (hi : TWin G D now ⟨s, iv⟩) :
    (m.plan3 i s iv).toN w = (m.toN w).plan3 i (wrN w s) (wrN w iv) ∧ Win G D now (m.plan3 i s iv) := by
  unfold Mgr.plan3 MgrN.plan3
  have h := plan_simN P ({ m with tm := setTm m.tm i ⟨s, iv⟩ } : Mgr) i (now := now) ?_ ?_
  · rw [h.1, toN_setTm]
    exact ⟨rfl, h.2⟩
  · intro x hx
    have hx' := (mem_unplan _ i x).mp hx
    show TWin G D now (setTm m.tm i ⟨s, iv⟩ x)
    rw [setTm_other _ _ hx'.2]
    exact hw x hx'.1
  · show TWin G D now (setTm m.tm i ⟨s, iv⟩ i)
    rw [setTm_same]; exact hi

theorem applyAct_simN {G D now : Int} (P : ParamsN w G D) (m : Mgr) (a : Action) (hw : Win G D now m)
    (ha : ActWin G D now a) :
    (applyAct m a).toN w = applyActN (m.toN w) (a.toN w) ∧ Win G D now (applyAct m a) := by
  cases a with
  | unplan j => exact ⟨rfl, hw.unplan j⟩
  | plan j s iv => exact plan3_simN P m j s iv hw ha

theorem runCb_simN {G D now : Int} (P : ParamsN w G D) (m : Mgr) (acts : List Action) (hw : Win G D now m)
    (ha : ∀ a ∈ acts, ActWin G D now a) :
    (runCb m acts).toN w = runCbN (m.toN w) (acts.map (Action.toN w)) ∧ Win G D now (runCb m acts) := by
  induction acts generalizing m with
  | nil => exact ⟨rfl, hw⟩
  | cons a as ih =>
    have h1 := applyAct_simN P m a hw (ha a (by simp))
    have h2 := ih (applyAct m a) h1.2 (fun b hb => ha b (by simp [hb]))
    rw [runCb_cons]
    refine ⟨?_, h2.2⟩
    rw [h2.1, h1.1]
    rfl

theorem TWin.shift0 {G D now : Int} (hg : 0 ≤ G) {t : Timer} (h : TWin G D now t) (hdue : t.finish ≤ now) :
    TWin G D now t.shift := by
  have := h.pos; have := h.le; have := h.start_le; have := h.fin_ge
  refine ⟨h.pos, h.le, ?_, ?_⟩
  · simpa [Timer.shift, Timer.finish] using hdue
  · rw [shift_finish]; omega

theorem rearm_simN {G D now : Int} (P : ParamsN w G D) (m1 : Mgr) (i : Nat) (t0 : Timer) (hw : Win G D now m1)
    (ht0 : TWin G D now t0) (hdue : t0.finish ≤ now) :
    (rearm m1 i t0).toN w = rearmN (m1.toN w) i (t0.toN w) ∧ Win G D now (rearm m1 i t0) := by
  by_cases hi : i ∈ m1.lst
  · have hti := hw i hi
    by_cases he : m1.tm i = t0
    · rw [rearm_same m1 i t0 hi he]
      have h := plan_simN P ({ m1.unplan i with tm := setTm m1.tm i t0.shift } : Mgr) i (now := now) ?_ ?_
      · refine ⟨?_, h.2⟩
        rw [h.1]
        have hiW : i ∈ (m1.toN w).lst := hi
        have heW : ((m1.toN w).unplan i).tm i = (t0.toN w) := by show (m1.tm i).toN w = (t0.toN w); rw [he]
        simp only [rearmN, hiW, if_true, heW]
        congr 1
        have := toN_setTm (w := w) (m1.unplan i) i t0.shift
        rw [toN_shift] at this
        rw [← heW] at this ⊢
        exact this
      · intro x hx
        have hx' := (mem_unplan _ i x).mp hx
        have hx'' := (mem_unplan m1 i x).mp hx'.1
        show TWin G D now (setTm m1.tm i t0.shift x)
        rw [setTm_other _ _ hx'.2]
        exact hw x hx''.1
      · show TWin G D now (setTm m1.tm i t0.shift i)
        rw [setTm_same]; exact ht0.shift0 P.g0 hdue
    · rw [rearm_changed m1 i t0 hi he]
      have h := plan_simN P (m1.unplan i) i (now := now) ((hw.unplan i).unplan i) hti
      refine ⟨?_, h.2⟩
      rw [h.1]
      have hiW : i ∈ (m1.toN w).lst := hi
      have heW : ¬ ((m1.toN w).unplan i).tm i = (t0.toN w) := by
        show ¬ (m1.tm i).toN w = (t0.toN w)
        exact fun e => he (toN_inj P hti ht0 e)
      simp only [rearmN, hiW, if_true, heW, if_false]
      rfl
  · rw [rearm_not_mem m1 i t0 hi]
    have hiW : i ∉ (m1.toN w).lst := hi
    exact ⟨by simp [rearmN, hiW], hw⟩

theorem headDue_simN (sgn : Bool) {G D now : Int} (P : ParamsN w G D) (m : Mgr) (hw : Win G D now m) :
    (m.toN w).headDue sgn (wrN w now) = m.headDue now := by
  unfold MgrN.headDue Mgr.headDue
  show (match m.lst with | [] => none | i :: _ => if (((m.tm i).toN w)).check sgn (wrN w now) then some i else none) = _
  cases hl : m.lst with
  | nil => rfl
  | cons i rest =>
    simp only
    rw [check_simN sgn P (hw i (by rw [hl]; simp))]

theorem execBody_simN {G D now : Int} (P : ParamsN w G D) (m : Mgr) (i : Nat) (acts : List Action)
    (hw : Win G D now m) (hi : i ∈ m.lst) (hdue : (m.tm i).finish ≤ now) (ha : ∀ a ∈ acts, ActWin G D now a) :
    (execBody acts m i).toN w = execBodyN (acts.map (Action.toN w)) (m.toN w) i ∧
      Win G D now (execBody acts m i) := by
  have h1 := runCb_simN P m acts hw ha
  have h2 := rearm_simN P (runCb m acts) i (m.tm i) h1.2 (hw i hi) hdue
  refine ⟨?_, h2.2⟩
  unfold execBody execBodyN
  rw [h2.1, h1.1]
  rfl

/-- one `exec(now)`: the `w`-bit manager makes the same callbacks (deadlines modulo 2^w) and ends
in the truncation of the unbounded manager's state -/
theorem execLoop_simN (sgn : Bool) {G D now : Int} (P : ParamsN w G D) (cb : Cb) (hcb : CbWin G D now cb) (fuel k : Nat) (m : Mgr)
    (hw : Win G D now m) :
    execLoopN sgn (cbToN w cb) (wrN w now) fuel k (m.toN w) =
      ((execLoop cb now fuel k m).1.toN w, (execLoop cb now fuel k m).2.1.map (Fire.toN w),
        (execLoop cb now fuel k m).2.2) ∧
    Win G D now (execLoop cb now fuel k m).1 := by
  induction fuel generalizing k m with
  | zero =>
    simp only [execLoopN, execLoop, headDue_simN sgn P m hw, List.map_nil]
    exact ⟨trivial, hw⟩
  | succ n ih =>
    unfold execLoopN execLoop
    rw [headDue_simN sgn P m hw]
    cases hd : m.headDue now with
    | none => exact ⟨rfl, hw⟩
    | some i =>
      obtain ⟨rest, hl, hdue⟩ := headDue_some hd
      have hi : i ∈ m.lst := by rw [hl]; simp
      have hb := execBody_simN P m i (cb k i) hw hi hdue (hcb k i)
      have h := ih (k + 1) (execBody (cb k i) m i) hb.2
      simp only
      refine ⟨?_, h.2⟩
      have e : execBodyN (cbToN w cb k i) (m.toN w) i = (execBody (cb k i) m i).toN w := hb.1.symm
      rw [e, h.1]
      simp [Fire.toN, Mgr.toN]

/-- whole histories -/
theorem runOps_simN (sgn : Bool) {G D : Int} (P : ParamsN w G D) (ops : List Op) (lo c : Int) (m : Mgr) (hm : WF m)
    (hj : J D lo c m) (hc : c ≤ lo + G) (hh : HistWin G D lo c ops) (hfin : (runOps m ops).2.2 = true) :
    runOpsN sgn (m.toN w) (ops.map (Op.toN w)) =
      ((runOps m ops).1.toN w, (runOps m ops).2.1.map (fun fs => fs.map (Fire.toN w)), true) := by
  induction ops generalizing lo c m with
  | nil => rfl
  | cons op ops ih =>
    simp only [runOps, Bool.and_eq_true] at hfin
    cases op with
    | plan i s iv =>
      obtain ⟨h1, h2, h3, h4, h5⟩ := hh
      have hw : Win G D (max c s) m := hj.win (by omega) (by omega)
      have ht : TWin G D (max c s) ⟨s, iv⟩ := ⟨h1, h2, by simp only []; omega, by simp only [Timer.finish]; omega⟩
      have hs := plan3_simN P m i s iv hw ht
      have hj' : J D lo (max c s) (m.plan3 i s iv) := by
        intro x hx
        have := hs.2 x hx
        refine ⟨this.pos, this.le, this.start_le, ?_⟩
        rcases (mem_plan3 m i x s iv).mp hx with e | e
        · subst e; simp [Timer.finish]; omega
        · by_cases hxi : x = i
          · subst hxi; simp [Timer.finish]; omega
          · rw [plan3_tm, setTm_other _ _ hxi]; exact (hj x e).2.2.2
      have := ih lo (max c s) (m.plan3 i s iv) (hm.plan3 i s iv h1) hj' (by omega) h5 hfin.2
      simp only [List.map_cons, runOpsN, runOps, stepOpN, stepOp, Op.toN, ← hs.1, this]
      simp
    | unplan i =>
      have hj' : J D lo c (m.unplan i) := fun x hx => hj x ((mem_unplan m i x).mp hx).1
      have := ih lo c (m.unplan i) (hm.unplan i) hj' hc hh hfin.2
      simp only [List.map_cons, runOpsN, runOps, stepOpN, stepOp, Op.toN, ← toN_unplan, this]
      simp
    | exec now cb fuel =>
      obtain ⟨h1, h2, h3, h4⟩ := hh
      have hw : Win G D now m := hj.win h1 h2
      have hs := execLoop_simN sgn P cb h3 fuel 0 m hw
      have hm' : WF (execLoop cb now fuel 0 m).1 := (execLoop_steps cb now fuel 0 m).wf h3.pos hm
      have hnd := none_due hm' (execLoop_done cb now fuel 0 m hfin.1)
      have hj' : J D now now (execLoop cb now fuel 0 m).1 := by
        intro x hx
        have := hs.2 x hx
        have := hnd x hx
        exact ⟨‹TWin G D now _›.pos, ‹TWin G D now _›.le, ‹TWin G D now _›.start_le, by omega⟩
      have := ih now now _ hm' hj' (by have := P.g0; omega) h4 hfin.2
      have hf1 : (execLoop cb now fuel 0 m).2.2 = true := hfin.1
      simp only [List.map_cons, runOpsN, runOps, stepOpN, stepOp, Op.toN, hs.1, this]
      simp [hf1]
end Igris.C16
