/-
  C16 — the reference scheduler the property statement refers to.

  Independent of the timer list: the pending set is a finite map
  id ↦ (deadline, period) (as a function, so that equality of pending sets is
  plain equality), "earliest" is a minimum over it, and one `exec(now)` is a
  RELATION: repeatedly pick ANY pending timer with the earliest deadline (ties
  are not ordered by the reference) as long as that deadline is `≤ now`.
-/
import IgrisModel.C16.Model
namespace Igris.C16

/-- pending timers: id ↦ (deadline, period) -/
abbrev Ref := Nat → Option (Int × Int)

namespace Ref

def none : Ref := fun _ => Option.none

/-- `plan(j, start, interval)`: pending with deadline `start + interval` -/
def plan (r : Ref) (j : Nat) (s iv : Int) : Ref := fun x => if x = j then some (s + iv, iv) else r x

/-- `unplan(j)`: not pending -/
def unplan (r : Ref) (j : Nat) : Ref := fun x => if x = j then Option.none else r x

def act (r : Ref) : Action → Ref
  | .unplan j => r.unplan j
  | .plan j s iv => r.plan j s iv

def acts (r : Ref) (l : List Action) : Ref := l.foldl act r

def IsEmpty (r : Ref) : Prop := ∀ i, r i = Option.none

/-- `d` is the earliest pending deadline -/
def Earliest (r : Ref) (d : Int) : Prop :=
  (∃ i p, r i = some (d, p)) ∧ ∀ j d' p', r j = some (d', p') → d ≤ d'

/-- timer `i`'s callback has run and made the calls `l`: if `i` is still pending with the
deadline and period it had (its callback did not unplan it and did not re-plan it
differently), it is re-armed exactly one period after the previous deadline -/
def fired (r : Ref) (i : Nat) (l : List Action) : Ref :=
  match r i with
  | some (d, p) =>
    if (r.acts l) i = some (d, p) then fun x => if x = i then some (d + p, p) else (r.acts l) x
    else r.acts l
  | Option.none => r.acts l

/-- `Exec cb now k r fs r'`: one `exec(now)` of the reference, whose callbacks are numbered from
`k`, makes the callbacks `fs` and ends in `r'` -/
inductive Exec (cb : Cb) (now : Int) : Nat → Ref → List Fire → Ref → Prop
  /-- stop only when nothing pending is due -/
  | done {k : Nat} {r : Ref} (h : ∀ i d p, r i = some (d, p) → now < d) : Exec cb now k r [] r
  /-- fire a pending timer that is due and has the earliest deadline -/
  | fire {k : Nat} {r r' : Ref} {i : Nat} {d p : Int} {fs : List Fire}
      (hp : r i = some (d, p)) (hdue : d ≤ now)
      (hmin : ∀ j d' p', r j = some (d', p') → d ≤ d')
      (tl : Exec cb now (k + 1) (r.fired i (cb k i)) fs r') :
      Exec cb now k r (⟨i, d⟩ :: fs) r'

/-- a history on the reference -/
inductive Hist : Ref → List Op → List (List Fire) → Ref → Prop
  | nil (r : Ref) : Hist r [] [] r
  | plan {r r' : Ref} {i : Nat} {s iv : Int} {ops : List Op} {fss : List (List Fire)}
      (tl : Hist (r.plan i s iv) ops fss r') : Hist r (Op.plan i s iv :: ops) ([] :: fss) r'
  | unplan {r r' : Ref} {i : Nat} {ops : List Op} {fss : List (List Fire)}
      (tl : Hist (r.unplan i) ops fss r') : Hist r (Op.unplan i :: ops) ([] :: fss) r'
  | exec {r r1 r' : Ref} {now : Int} {cb : Cb} {fuel : Nat} {fs : List Fire} {ops : List Op}
      {fss : List (List Fire)}
      (hd : Exec cb now 0 r fs r1) (tl : Hist r1 ops fss r') :
      Hist r (Op.exec now cb fuel :: ops) (fs :: fss) r'

end Ref


/-! ### vocabulary of the property theorems (invariant, hypotheses on callbacks, measure) -/

/-- the list is ordered by non-decreasing `finish()` -/
def Sorted (tm : Nat → Timer) (l : List Nat) : Prop :=
  l.Pairwise (fun a b => (tm a).finish ≤ (tm b).finish)

/-- invariant of the manager: no timer is linked twice, the list is sorted by
deadline, every planned timer has a positive interval -/
structure WF (m : Mgr) : Prop where
  nodup : m.lst.Nodup
  sorted : Sorted m.tm m.lst
  pos : ∀ i ∈ m.lst, 0 < (m.tm i).interval

/-- every `plan` a callback makes has a positive interval -/
def ActsPos (acts : List Action) : Prop := ∀ j s iv, Action.plan j s iv ∈ acts → 0 < iv

def CbPos (cb : Cb) : Prop := ∀ k i, ActsPos (cb k i)

/-- the timer an action is about -/
def Action.target : Action → Nat
  | .unplan j => j
  | .plan j _ _ => j

/-- `Σ_{x ∈ l} f x` -/
def wsum (f : Nat → Nat) (l : List Nat) : Nat := (l.map f).sum

/-- how far a timer's deadline lies behind `now` (0 when it is not due) -/
def lag (now : Int) (t : Timer) : Nat := (now + 1 - t.finish).toNat

/-- sum of the lags of all planned timers -/
def lagSum (now : Int) (m : Mgr) : Nat := wsum (fun x => lag now (m.tm x)) m.lst

/-- every `plan` a callback makes has its deadline after `now` -/
def ActsFuture (now : Int) (acts : List Action) : Prop :=
  ∀ j s iv, Action.plan j s iv ∈ acts → now < s + iv

def CbFuture (now : Int) (cb : Cb) : Prop := ∀ k i, ActsFuture now (cb k i)

/-- no callback makes a call naming timer `i` -/
def Untouched (cb : Cb) (i : Nat) : Prop := ∀ k x, ∀ a ∈ cb k x, a.target ≠ i

/-- an operation of a history respects "positive intervals" -/
def OpValid : Op → Prop
  | .plan _ _ iv => 0 < iv
  | .unplan _ => True
  | .exec _ cb _ => CbPos cb

/-- the operation never plans timer `i` (neither directly nor from a callback) -/
def OpNoPlan (i : Nat) : Op → Prop
  | .plan j _ _ => j ≠ i
  | .unplan _ => True
  | .exec _ cb _ => ∀ k x s iv, Action.plan i s iv ∉ cb k x

/-- polling `STIMER_PERIODIC` at the times `ts` -/
def stimerPolls (t : STimer) : List Int → STimer × List Bool
  | [] => (t, [])
  | now :: ts =>
    let r := stimerPeriodic t now
    let r' := stimerPolls r.1 ts
    (r'.1, r.2 :: r'.2)

/-- (witness for `exec_terminates`) every callback re-plans timer 0 one tick further into the past -/
def pastCb : Cb := fun k _ => [Action.plan 0 (-(k : Int) - 1) 1]

/-- the pending set of the manager: the linked timers with their deadline and period -/
def absM (m : Mgr) : Ref :=
  fun i => if i ∈ m.lst then some ((m.tm i).finish, (m.tm i).interval) else Option.none

end Igris.C16
