/-
  C16 — timers.  Executable model of

    igris/time/timer_manager.h   timer_head_basic / timer_manager_basic<timer_spec<int64_t>>
    igris/datastruct/stimer.c    flag-style timer

  written the way the code is written.  Core Lean only.

  Abstractions (DESIGN.md §7 C16):
  * the intrusive `igris::dlist` of timer heads is a `List Nat` of timer ids in
    list order (the pointer mechanics are property C01); `is_planned()` is
    membership, `unplan()` removes the id, `move_prev(tim, it)` inserts before `it`;
  * `int64_t` time / difftime are `Int` (the code's signed arithmetic has no
    defined wrap-around; values are assumed to stay inside int64, the harness
    asserts it);
  * `execute()` (a delegate) is a parameter: for the `k`-th callback of one
    `exec`, running for timer `i`, the callback performs the API calls
    `cb k i : List Action` on the same manager;
  * `system_lock/unlock` pairs are not modelled (property C20); the harness
    observes that the lock count is 0 inside every callback and after every call.
-/
namespace Igris.C16

/-- fields of `timer_head_basic`: `_start`, `_interval` -/
structure Timer where
  start : Int := 0
  interval : Int := 0
deriving DecidableEq, Repr, Inhabited

namespace Timer
/-- `finish(): return _start + _interval;` -/
def finish (t : Timer) : Int := t.start + t.interval
/-- `check(curtime): return curtime - _start >= _interval;` -/
def check (t : Timer) (curtime : Int) : Bool := decide (curtime - t.start ≥ t.interval)
/-- `shift(): _start += _interval;` -/
def shift (t : Timer) : Timer := { t with start := t.start + t.interval }
end Timer

/-- the timer objects (by id) and `timer_list` (ids of the linked heads, in list order) -/
structure Mgr where
  tm : Nat → Timer
  lst : List Nat

def Mgr.init : Mgr := ⟨fun _ => {}, []⟩

def setTm (tm : Nat → Timer) (i : Nat) (t : Timer) : Nat → Timer :=
  fun x => if x = i then t else tm x

/-- `tim.unplan()`: `lnk.unlink()` -/
def Mgr.unplan (m : Mgr) (i : Nat) : Mgr := { m with lst := m.lst.filter (· != i) }

/-- `it = find_if(begin, end, [&](tim){ return finish < tim.finish(); }); move_prev(tim, it)`:
insert `i` before the first entry whose finish is strictly later (at the end if none) -/
def insertBefore (tm : Nat → Timer) (fin : Int) (i : Nat) : List Nat → List Nat
  | [] => [i]
  | j :: rest => if fin < (tm j).finish then i :: j :: rest else j :: insertBefore tm fin i rest

/-- `plan(tim)`: `finish = tim.finish(); tim.unplan(); find_if …; move_prev` -/
def Mgr.plan (m : Mgr) (i : Nat) : Mgr :=
  let fin := (m.tm i).finish
  let m1 := m.unplan i
  { m1 with lst := insertBefore m1.tm fin i m1.lst }

/-- `plan(tim, start, interval)`: `set_start; set_interval; plan(tim)` -/
def Mgr.plan3 (m : Mgr) (i : Nat) (s iv : Int) : Mgr :=
  ({ m with tm := setTm m.tm i ⟨s, iv⟩ }).plan i

/-- what a callback may do with the manager it runs under -/
inductive Action where
  | unplan (j : Nat)
  | plan (j : Nat) (start interval : Int)
deriving DecidableEq, Repr

def applyAct (m : Mgr) : Action → Mgr
  | .unplan j => m.unplan j
  | .plan j s iv => m.plan3 j s iv

/-- `tim.execute()` : the callback's API calls in order -/
def runCb (m : Mgr) (acts : List Action) : Mgr := acts.foldl applyAct m

/-- callbacks of one `exec`: `cb k i` = calls made by the `k`-th callback (0-based) when it is timer `i`'s -/
abbrev Cb := Nat → Nat → List Action

/-- one callback invocation: timer id and its deadline (`finish()`) at that moment -/
structure Fire where
  id : Nat
  deadline : Int
deriving DecidableEq, Repr

/-- loop head: `!timer_list.empty()`, `tim = timer_list.first()`, `tim.check(curtime)` -/
def Mgr.headDue (m : Mgr) (now : Int) : Option Nat :=
  match m.lst with
  | [] => none
  | i :: _ => if (m.tm i).check now then some i else none

/-- after `tim.execute()` (repaired code):
```
auto linked = tim.is_planned();
if (linked) {
    tim.unplan();
    if (tim._start == start && tim._interval == interval)   // not re-planned by its own callback
        tim.shift();
    plan(tim);
}
```
`t0` is the (start, interval) snapshot taken before `execute()`. -/
def rearm (m1 : Mgr) (i : Nat) (t0 : Timer) : Mgr :=
  if i ∈ m1.lst then
    let m2 := m1.unplan i
    let m3 : Mgr := if m2.tm i = t0 then { m2 with tm := setTm m2.tm i (m2.tm i).shift } else m2
    m3.plan i
  else m1

/-- loop body for the due head `i` whose callback makes the calls `acts` -/
def execBody (acts : List Action) (m : Mgr) (i : Nat) : Mgr :=
  rearm (runCb m acts) i (m.tm i)

/-- `exec(curtime)`: the `while` loop, at most `fuel` iterations.
Result: final manager, callbacks made (in order), and whether the loop exited by
itself (`false`: fuel ran out with a due head, i.e. the real loop would still be running). -/
def execLoop (cb : Cb) (now : Int) : Nat → Nat → Mgr → Mgr × List Fire × Bool
  | 0, _, m => (m, [], (m.headDue now).isNone)
  | fuel + 1, k, m =>
    match m.headDue now with
    | none => (m, [], true)
    | some i =>
      let r := execLoop cb now fuel (k + 1) (execBody (cb k i) m i)
      (r.1, ⟨i, (m.tm i).finish⟩ :: r.2.1, r.2.2)

/-- `empty()` -/
def Mgr.empty (m : Mgr) : Bool := m.lst.isEmpty

/-- `minimal_interval(curtime)`: `timer_list.first().finish() - curtime`
(`none`: the list is empty; the code then reads through the list head as if it were a timer) -/
def Mgr.minimalInterval (m : Mgr) (now : Int) : Option Int :=
  match m.lst with
  | [] => none
  | i :: _ => some ((m.tm i).finish - now)

/-! ### histories -/

inductive Op where
  | plan (i : Nat) (start interval : Int)
  | unplan (i : Nat)
  /-- `exec(now)` with the callbacks `cb`; `fuel` bounds the loop iterations of the model -/
  | exec (now : Int) (cb : Cb) (fuel : Nat)

/-- manager after an operation, with the callbacks it made and whether it returned -/
def stepOp (m : Mgr) : Op → Mgr × List Fire × Bool
  | .plan i s iv => (m.plan3 i s iv, [], true)
  | .unplan i => (m.unplan i, [], true)
  | .exec now cb fuel => execLoop cb now fuel 0 m

/-- run a history: final manager, the callbacks of every operation, and whether every `exec` returned -/
def runOps (m : Mgr) : List Op → Mgr × List (List Fire) × Bool
  | [] => (m, [], true)
  | op :: ops =>
    let r := stepOp m op
    let r' := runOps r.1 ops
    (r'.1, r.2.1 :: r'.2.1, r.2.2 && r'.2.2)

/-! ### stimer (igris/datastruct/stimer.c) -/

structure STimer where
  start : Int := 0
  interval : Int := 0
  planed : Bool := false
deriving DecidableEq, Repr, Inhabited

/-- `return timer->planed && (curtime - timer->start >= timer->interval);` -/
def stimerCheck (t : STimer) (curtime : Int) : Bool :=
  t.planed && decide (curtime - t.start ≥ t.interval)

def stimerInit (_ : STimer) (start interval : Int) : STimer := ⟨start, interval, false⟩

def stimerSwift (t : STimer) : STimer := { t with start := t.start + t.interval }

/-- `unsigned long stimer_finish`: `start + interval` converted to `unsigned long` (LP64) -/
def stimerFinish (t : STimer) : Nat := ((t.start + t.interval) % (2 ^ 64 : Int)).toNat

def stimerPlan (t : STimer) (start interval : Int) : STimer :=
  { stimerInit t start interval with planed := true }

def stimerStart (t : STimer) (start : Int) : STimer := { t with start := start, planed := true }

/-- `STIMER_PERIODIC(tim, curtime)`: `if (stimer_check(tim, curtime) && (stimer_swift(tim), 1))` -/
def stimerPeriodic (t : STimer) (curtime : Int) : STimer × Bool :=
  if stimerCheck t curtime then (stimerSwift t, true) else (t, false)

end Igris.C16
