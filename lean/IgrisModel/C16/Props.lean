import IgrisModel.C16.Model
namespace Igris.C16
theorem placeholder : True := trivial
end Igris.C16
