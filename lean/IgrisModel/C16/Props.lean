/-
  C16 — "Timers fire exactly when due, in deadline order, without drift."

  Property theorems over the model `IgrisModel/C16/Model.lean` (igris::timer_manager after the
  repair e79c48f, and stimer).  All statements are for EVERY manager state satisfying the
  invariant `WF` (which every history of plan/unplan/exec with positive intervals reaches:
  `sorted_inv`), EVERY `now`, EVERY callback behaviour `cb : Nat → Nat → List Action`
  (callback number → timer id → the plan/unplan calls it makes), EVERY fuel.

  Hypotheses that are really needed are named and visible:
  * `CbPos cb`        the callbacks plan with positive intervals (the property's "positive intervals");
  * `CbFuture now cb` the callbacks plan only deadlines `> now` — needed for termination ONLY
                      (`exec_terminates`; `exec_terminates_needs_future` shows a run that never
                      ends without it);
  * the hypothesis of `order_in_exec`: no callback plans a deadline earlier than the deadline
    of the timer it runs for.
  "Non-decreasing time" of the property text is not needed by any theorem: over `Int` the
  due rule `now - start ≥ interval` does not care where `now` comes from.
-/
import IgrisModel.C16.Refine
import IgrisModel.C16.More
import IgrisModel.C16.Round3
namespace Igris.C16

/-! ### sorted_inv -/

/-- The invariant (no double link, list sorted by deadline, planned intervals positive) holds
after EVERY history of plan / unplan / exec — whatever the callbacks do, whether or not an
`exec` ran out of fuel. -/
theorem sorted_inv (ops : List Op) (hv : ∀ op ∈ ops, OpValid op) (m : Mgr) (hm : WF m) :
    WF (runOps m ops).1 := by
  induction ops generalizing m with
  | nil => exact hm
  | cons op ops ih =>
    simp only [runOps]
    apply ih (fun o ho => hv o (List.mem_cons_of_mem _ ho))
    have hop := hv op (by simp)
    cases op with
    | plan i s iv => exact hm.plan3 i s iv hop
    | unplan i => exact hm.unplan i
    | exec now cb fuel => exact (execLoop_steps cb now fuel 0 m).wf hop hm

theorem init_wf : WF Mgr.init := ⟨List.nodup_nil, List.Pairwise.nil, by simp [Mgr.init]⟩

/-- in particular from the freshly constructed manager -/
theorem sorted_inv_init (ops : List Op) (hv : ∀ op ∈ ops, OpValid op) :
    Sorted (runOps Mgr.init ops).1.tm (runOps Mgr.init ops).1.lst :=
  (sorted_inv ops hv Mgr.init init_wf).sorted

/-- the invariant at every point of the `exec` loop (prefix of the loop = smaller fuel) -/
theorem sorted_inv_exec (cb : Cb) (now : Int) (fuel k : Nat) (m : Mgr) (hm : WF m) (hcb : CbPos cb) :
    WF (execLoop cb now fuel k m).1 :=
  (execLoop_steps cb now fuel k m).wf hcb hm

-- the hypotheses are satisfiable: two timers with equal deadlines, a callback that re-plans
example : WF ((Mgr.init.plan3 0 0 3).plan3 1 1 2) ∧ CbPos (fun _ _ => [Action.plan 0 7 2]) := by
  refine ⟨(init_wf.plan3 0 0 3 (by decide)).plan3 1 1 2 (by decide), ?_⟩
  intro k i j s iv h
  simp only [List.mem_singleton, Action.plan.injEq] at h
  omega

/-! ### not_early -/

/-- A callback never runs before its timer's deadline: every callback made by `exec(now)` has
`deadline ≤ now` (`deadline` = the timer's `start + interval` at that moment).
No hypothesis at all. -/
theorem not_early (cb : Cb) (now : Int) (fuel k : Nat) (m : Mgr) :
    ∀ f ∈ (execLoop cb now fuel k m).2.1, f.deadline ≤ now :=
  (execLoop_steps cb now fuel k m).not_early

/-! ### all_due_fire -/

/-- When `exec(now)` has returned, no planned timer has a deadline `≤ now`: everything that
was due has run (and has been re-armed past `now` or unplanned). -/
theorem all_due_fire (cb : Cb) (now : Int) (fuel k : Nat) (m : Mgr) (hm : WF m) (hcb : CbPos cb)
    (hfin : (execLoop cb now fuel k m).2.2 = true) :
    ∀ i ∈ (execLoop cb now fuel k m).1.lst, now < ((execLoop cb now fuel k m).1.tm i).finish :=
  none_due (sorted_inv_exec cb now fuel k m hm hcb) (execLoop_done cb now fuel k m hfin)

/-- Every planned timer whose deadline has passed runs during that `exec`: its callback is made
at exactly that deadline — unless an earlier callback of the same `exec` made a call naming
the timer (unplanned or re-planned it), which is the only way out. -/
theorem due_runs (cb : Cb) (now : Int) (fuel k : Nat) (m : Mgr) (hm : WF m) (hcb : CbPos cb)
    (hfin : (execLoop cb now fuel k m).2.2 = true) (i : Nat) (hi : i ∈ m.lst)
    (hdue : (m.tm i).finish ≤ now) :
    (∃ f ∈ (execLoop cb now fuel k m).2.1, f.id = i ∧ f.deadline = (m.tm i).finish) ∨
    (∃ n f a, (execLoop cb now fuel k m).2.1[n]? = some f ∧ a ∈ cb (k + n) f.id ∧ a.target = i) :=
  (execLoop_steps cb now fuel k m).due_runs hcb hm (execLoop_done cb now fuel k m hfin) i hi hdue

/-! ### order_in_exec -/

/-- Successive callbacks of one `exec`: the deadline does not decrease — unless the earlier of
the two callbacks itself planned the later timer at that earlier deadline. (Arbitrary callbacks.) -/
theorem order_in_exec_adjacent (cb : Cb) (now : Int) (fuel k : Nat) (m : Mgr) (hm : WF m) (hcb : CbPos cb)
    (n : Nat) (f g : Fire)
    (hf : (execLoop cb now fuel k m).2.1[n]? = some f)
    (hg : (execLoop cb now fuel k m).2.1[n + 1]? = some g) :
    f.deadline ≤ g.deadline ∨
    ∃ s iv, Action.plan g.id s iv ∈ cb (k + n) f.id ∧ g.deadline = s + iv :=
  (execLoop_steps cb now fuel k m).adjacent hcb hm n f g hf hg

/-- Callbacks within one `exec` run in non-decreasing deadline order, PROVIDED no callback
re-plans into the past: (`hnp`) the `n`-th callback, running for a timer with deadline `d`,
plans only deadlines `≥ d`. -/
theorem order_in_exec (cb : Cb) (now : Int) (fuel k : Nat) (m : Mgr) (hm : WF m) (hcb : CbPos cb)
    (hnp : ∀ n f, (execLoop cb now fuel k m).2.1[n]? = some f →
      ∀ j s iv, Action.plan j s iv ∈ cb (k + n) f.id → f.deadline ≤ s + iv) :
    ((execLoop cb now fuel k m).2.1.map (·.deadline)).Pairwise (· ≤ ·) := by
  apply chain_pairwise
  intro n a b h1 h2
  simp only [List.getElem?_map, Option.map_eq_some_iff] at h1 h2
  obtain ⟨f, hf, rfl⟩ := h1
  obtain ⟨g, hg, rfl⟩ := h2
  rcases order_in_exec_adjacent cb now fuel k m hm hcb n f g hf hg with h | ⟨s, iv, hmem, e⟩
  · exact h
  · rw [e]; exact hnp n f hf g.id s iv hmem

/-- in particular when the callbacks plan only into the future -/
theorem order_in_exec_future (cb : Cb) (now : Int) (fuel k : Nat) (m : Mgr) (hm : WF m) (hcb : CbPos cb)
    (hfut : CbFuture now cb) :
    ((execLoop cb now fuel k m).2.1.map (·.deadline)).Pairwise (· ≤ ·) := by
  apply order_in_exec cb now fuel k m hm hcb
  intro n f hf j s iv hmem
  have h1 := not_early cb now fuel k m f (List.mem_of_getElem? hf)
  have h2 := hfut (k + n) f.id j s iv hmem
  omega

/-- the hypothesis of `order_in_exec` cannot be dropped: the first callback plans timer 1 into
the past and the deadlines come out as 5, 2 -/
theorem order_in_exec_witness :
    ((execLoop (fun k _ => if k = 0 then [Action.plan 1 0 2] else []) 6 10 0
        (Mgr.init.plan3 0 0 5)).2.1.map (·.deadline)).take 2 = [5, 2] := by
  decide

/-! ### rearm -/

/-- The loop body for the due head `i`, callback calls `acts`:
* the callback left the timer planned and did not touch its start/interval ⇒ it is re-armed at
  exactly previous deadline + interval, same interval (no drift);
* the callback re-planned its own timer ⇒ it keeps exactly what the callback asked for;
* the callback unplanned it ⇒ it stays unplanned. -/
theorem rearm_left_alone (m : Mgr) (acts : List Action) (i : Nat)
    (hpl : i ∈ (runCb m acts).lst) (hsame : (runCb m acts).tm i = m.tm i) :
    i ∈ (execBody acts m i).lst ∧
    ((execBody acts m i).tm i).finish = (m.tm i).finish + (m.tm i).interval ∧
    ((execBody acts m i).tm i).interval = (m.tm i).interval := by
  unfold execBody
  rcases rearm_self (runCb m acts) i (m.tm i) with ⟨h, _⟩ | ⟨_, _, h3, h4⟩ | ⟨_, h, _, _⟩
  · exact absurd hpl h
  · exact ⟨h4, by rw [h3, shift_finish], by rw [h3, shift_interval]⟩
  · exact absurd hsame h

theorem rearm_replanned (m : Mgr) (acts : List Action) (i : Nat)
    (hpl : i ∈ (runCb m acts).lst) (hch : (runCb m acts).tm i ≠ m.tm i) :
    i ∈ (execBody acts m i).lst ∧ (execBody acts m i).tm i = (runCb m acts).tm i := by
  unfold execBody
  rcases rearm_self (runCb m acts) i (m.tm i) with ⟨h, _⟩ | ⟨_, h, _, _⟩ | ⟨_, _, h3, h4⟩
  · exact absurd hpl h
  · exact absurd h hch
  · exact ⟨h4, h3⟩

theorem rearm_unplanned (m : Mgr) (acts : List Action) (i : Nat) (hun : i ∉ (runCb m acts).lst) :
    execBody acts m i = runCb m acts :=
  rearm_not_mem _ i _ hun

/-- and a self re-plan `plan(i, s, iv)` as the callback's last word about `i` gives deadline
`s + iv` exactly (this is the clause the unrepaired code violated: it gave `s + 2·iv`) -/
theorem rearm_self_replan (m : Mgr) (acts : List Action) (i : Nat) (s iv : Int)
    (hpl : i ∈ (runCb m acts).lst) (hlast : (runCb m acts).tm i = ⟨s, iv⟩) (hne : m.tm i ≠ ⟨s, iv⟩) :
    ((execBody acts m i).tm i).finish = s + iv := by
  rw [(rearm_replanned m acts i hpl (by rw [hlast]; exact Ne.symm hne)).2, hlast]
  rfl

/-- Catch-up without drift.  A planned timer `i` (deadline `d`, interval `iv`) that no callback
touches fires in one `exec(now)` exactly at the deadlines `d, d+iv, …, d+(n-1)·iv` — one firing
per elapsed period — and is left planned with deadline `d + n·iv`, where `n` is determined by
`d + (n-1)·iv ≤ now < d + n·iv` (`n = 0` if `now < d`). -/
theorem catch_up (cb : Cb) (now : Int) (fuel k : Nat) (m : Mgr) (hm : WF m) (hcb : CbPos cb)
    (hfin : (execLoop cb now fuel k m).2.2 = true) (i : Nat) (hu : Untouched cb i) (hi : i ∈ m.lst) :
    ∃ n : Nat,
      ((execLoop cb now fuel k m).2.1.filter (fun f => f.id = i)).map (·.deadline) =
        (List.range n).map (fun (q : Nat) => (m.tm i).finish + (q : Int) * (m.tm i).interval) ∧
      (execLoop cb now fuel k m).1.tm i =
        ⟨(m.tm i).start + (n : Int) * (m.tm i).interval, (m.tm i).interval⟩ ∧
      i ∈ (execLoop cb now fuel k m).1.lst ∧
      now < (m.tm i).finish + (n : Int) * (m.tm i).interval ∧
      (0 < n → (m.tm i).finish + ((n : Int) - 1) * (m.tm i).interval ≤ now) := by
  have hs := execLoop_steps cb now fuel k m
  obtain ⟨n, h1, h2, h3⟩ := hs.catch_up i hu hi
  refine ⟨n, h1, h2, h3, ?_, ?_⟩
  · have := all_due_fire cb now fuel k m hm hcb hfin i h3
    rw [h2] at this
    simp only [Timer.finish] at this ⊢
    omega
  · intro hn
    -- the last firing of `i` was not early
    have hlast : (m.tm i).finish + ((n - 1 : Nat) : Int) * (m.tm i).interval ∈
        ((execLoop cb now fuel k m).2.1.filter (fun f => f.id = i)).map (·.deadline) := by
      rw [h1]
      exact List.mem_map.mpr ⟨n - 1, List.mem_range.mpr (by omega), rfl⟩
    obtain ⟨f, hf, hfd⟩ := List.mem_map.mp hlast
    have hne := not_early cb now fuel k m f (List.mem_filter.mp hf).1
    have e : ((n - 1 : Nat) : Int) = (n : Int) - 1 := by omega
    rw [e] at hfd
    omega

/-- the number of firings in `catch_up` as a quotient: `⌊(now - d)/iv⌋ + 1` for a due timer -/
theorem catch_up_count (now d iv : Int) (n : Nat) (hiv : 0 < iv) (hd : d ≤ now)
    (h1 : now < d + (n : Int) * iv) (h2 : 0 < n → d + ((n : Int) - 1) * iv ≤ now) :
    (n : Int) = (now - d) / iv + 1 := by
  have hn : 0 < n := by
    rcases Nat.eq_zero_or_pos n with e | e
    · subst e; simp at h1; omega
    · exact e
  have h2 := h2 hn
  have a : (n : Int) - 1 ≤ (now - d) / iv := by
    rw [Int.le_ediv_iff_mul_le hiv]; omega
  have b : (now - d) / iv < (n : Int) := by
    rw [Int.ediv_lt_iff_lt_mul hiv]; omega
  omega

-- `Untouched` is satisfiable together with callbacks that do act (on other timers)
example : Untouched (fun _ _ => [Action.unplan 1, Action.plan 2 0 1]) 0 := by
  intro k x a ha
  simp only [List.mem_cons, List.mem_nil_iff, or_false] at ha
  rcases ha with rfl | rfl <;> simp [Action.target]

/-! ### unplanned_never_fires -/

/-- A timer that is not planned when `exec` starts and that no callback plans does not fire in
that `exec`, and is still not planned afterwards. -/
theorem unplanned_never_fires (cb : Cb) (now : Int) (fuel k : Nat) (m : Mgr) (i : Nat)
    (hi : i ∉ m.lst) (hnp : ∀ k x s iv, Action.plan i s iv ∉ cb k x) :
    (∀ f ∈ (execLoop cb now fuel k m).2.1, f.id ≠ i) ∧ i ∉ (execLoop cb now fuel k m).1.lst :=
  (execLoop_steps cb now fuel k m).not_mem i hnp hi

/-- History form: once a timer is unplanned, it never fires during any later operation until
somebody plans it again. -/
theorem unplanned_never_fires_history (ops : List Op) (m : Mgr) (i : Nat)
    (hops : ∀ op ∈ ops, OpNoPlan i op) :
    ∀ fs ∈ (runOps (m.unplan i) ops).2.1, ∀ f ∈ fs, f.id ≠ i := by
  have key : ∀ (ops : List Op) (m : Mgr), (∀ op ∈ ops, OpNoPlan i op) → i ∉ m.lst →
      ∀ fs ∈ (runOps m ops).2.1, ∀ f ∈ fs, f.id ≠ i := by
    intro ops
    induction ops with
    | nil => intro m _ _ fs hfs; simp [runOps] at hfs
    | cons op ops ih =>
      intro m hops hi fs hfs
      simp only [runOps, List.mem_cons] at hfs
      have hop := hops op (by simp)
      have hrest := fun o ho => hops o (List.mem_cons_of_mem _ ho)
      have hstep : (∀ f ∈ (stepOp m op).2.1, f.id ≠ i) ∧ i ∉ (stepOp m op).1.lst := by
        cases op with
        | plan j s iv =>
          refine ⟨by simp [stepOp], ?_⟩
          simp only [stepOp, mem_plan3]
          rintro (h | h)
          · exact hop h.symm
          · exact hi h
        | unplan j =>
          refine ⟨by simp [stepOp], ?_⟩
          simp only [stepOp, mem_unplan]
          exact fun h => hi h.1
        | exec now cb fuel => exact unplanned_never_fires cb now fuel 0 m i hi hop
      rcases hfs with e | e
      · subst e; exact hstep.1
      · exact ih _ hrest hstep.2 fs e
  exact key ops _ hops (not_mem_unplan m i)

/-! ### exec_terminates -/

/-- `exec(now)` returns: with callbacks that plan only deadlines after `now`, the loop exits
after at most `lagSum now m` iterations (the sum over the planned timers of how far their
deadline lies behind `now`) -/
theorem exec_terminates (cb : Cb) (now : Int) (k : Nat) (m : Mgr) (hm : WF m) (hcb : CbPos cb)
    (hfut : CbFuture now cb) (fuel : Nat) (hfuel : lagSum now m ≤ fuel) :
    (execLoop cb now fuel k m).2.2 = true :=
  execLoop_terminates cb now fuel k m hm hcb hfut hfuel

/-- and the result does not depend on the fuel once the loop has exited -/
theorem exec_fuel_irrelevant (cb : Cb) (now : Int) (fuel fuel' k : Nat) (m : Mgr)
    (hfin : (execLoop cb now fuel k m).2.2 = true) (hle : fuel ≤ fuel') :
    execLoop cb now fuel' k m = execLoop cb now fuel k m :=
  execLoop_fuel_mono cb now fuel fuel' k m hfin hle

/-- `CbFuture` cannot be dropped from `exec_terminates`: with one timer (start 0, interval 1),
`now = 5` and callbacks that re-plan the timer one tick further into the past each time
(positive interval, so `WF` and `CbPos` hold), the loop is still running after ANY number of
iterations — the real `exec` does not return. -/
theorem exec_terminates_needs_future :
    WF (Mgr.init.plan3 0 0 1) ∧ CbPos pastCb ∧
    ∀ fuel, (execLoop pastCb 5 fuel 0 (Mgr.init.plan3 0 0 1)).2.2 = false := by
  refine ⟨init_wf.plan3 0 0 1 (by decide), ?_, ?_⟩
  · intro k i j s iv h
    simp only [pastCb, List.mem_singleton, Action.plan.injEq] at h
    omega
  · intro fuel
    exact pastCb_never fuel 0 _ (by decide) (by simp [Mgr.plan3, Mgr.plan, Mgr.unplan])

-- the hypotheses of `exec_terminates` are satisfiable by callbacks that do re-plan
example : CbFuture 10 (fun _ i => [Action.plan i 10 1, Action.unplan (i + 1)]) := by
  intro k i j s iv h
  simp only [List.mem_cons, Action.plan.injEq, List.mem_nil_iff, or_false, reduceCtorEq] at h
  omega

/-! ### refines_reference -/

/-- The pending set of the manager after `plan` / `unplan` is the reference's. -/
theorem refines_reference_plan (m : Mgr) (j : Nat) (s iv : Int) :
    absM (m.plan3 j s iv) = (absM m).plan j s iv := absM_plan3 m j s iv

theorem refines_reference_unplan (m : Mgr) (j : Nat) : absM (m.unplan j) = (absM m).unplan j :=
  absM_unplan m j

/-- Every returned `exec(now)` is an execution of the reference scheduler with the same
callbacks in the same order and the same resulting pending set: each callback is a pending
timer with the EARLIEST reference deadline, that deadline is `≤ now`, the reference re-arms /
drops / keeps the timer by its own rule (`Ref.fired`), and the reference stops only when
nothing pending is due. -/
theorem refines_reference_exec (cb : Cb) (now : Int) (fuel k : Nat) (m : Mgr) (hm : WF m) (hcb : CbPos cb)
    (hfin : (execLoop cb now fuel k m).2.2 = true) :
    Ref.Exec cb now k (absM m) (execLoop cb now fuel k m).2.1 (absM (execLoop cb now fuel k m).1) :=
  (execLoop_steps cb now fuel k m).refines hcb hm (execLoop_done cb now fuel k m hfin)

/-- Whole histories: the manager's pending set and its callbacks are those of the reference
scheduler run on the same history. -/
theorem refines_reference (ops : List Op) (hv : ∀ op ∈ ops, OpValid op) (m : Mgr) (hm : WF m)
    (hfin : (runOps m ops).2.2 = true) :
    Ref.Hist (absM m) ops (runOps m ops).2.1 (absM (runOps m ops).1) := by
  induction ops generalizing m with
  | nil => exact Ref.Hist.nil _
  | cons op ops ih =>
    simp only [runOps, Bool.and_eq_true] at hfin ⊢
    have hop := hv op (by simp)
    have hrest := fun o ho => hv o (List.mem_cons_of_mem _ ho)
    cases op with
    | plan i s iv =>
      have := ih hrest (m.plan3 i s iv) (hm.plan3 i s iv hop) hfin.2
      rw [absM_plan3] at this
      exact Ref.Hist.plan this
    | unplan i =>
      have := ih hrest (m.unplan i) (hm.unplan i) hfin.2
      rw [absM_unplan] at this
      exact Ref.Hist.unplan this
    | exec now cb fuel =>
      have h1 := refines_reference_exec cb now fuel 0 m hm hop hfin.1
      have hm' := sorted_inv_exec cb now fuel 0 m hm hop
      exact Ref.Hist.exec h1 (ih hrest _ hm' hfin.2)

/-- from the freshly constructed manager the reference starts with nothing pending -/
theorem refines_reference_init (ops : List Op) (hv : ∀ op ∈ ops, OpValid op)
    (hfin : (runOps Mgr.init ops).2.2 = true) :
    Ref.Hist Ref.none ops (runOps Mgr.init ops).2.1 (absM (runOps Mgr.init ops).1) := by
  have h := refines_reference ops hv Mgr.init init_wf hfin
  have e : absM Mgr.init = Ref.none := by
    funext i; simp [absM, Mgr.init, Ref.none]
  rwa [e] at h

/-- observables: `is_planned`, the deadline, `empty()`, `minimal_interval(now)` -/
theorem pending_eq (m : Mgr) (i : Nat) :
    (i ∈ m.lst ↔ absM m i ≠ none) ∧
    (i ∈ m.lst → absM m i = some ((m.tm i).finish, (m.tm i).interval)) :=
  ⟨absM_pending m i, fun h => by simp [absM, h]⟩

theorem empty_eq (m : Mgr) : m.empty = true ↔ (absM m).IsEmpty := absM_empty m

/-- `minimal_interval(now)` is the reference's time to the earliest pending deadline -/
theorem minimal_interval_eq (m : Mgr) (hm : WF m) (now v : Int) (h : m.minimalInterval now = some v) :
    (absM m).Earliest (v + now) := absM_minimal m now v hm h

/-- FULL statement that does NOT hold: "for every manager `minimal_interval(now)` is the
reference's time to the next deadline".  On an empty manager there is no next deadline and the
code reads `_start`/`_interval` through the list head (out of the manager object; recorded
finding C16-minimal-interval-empty).  `minimal_interval_eq` above is the `_partial` form (its
hypothesis `= some v` is exactly "not empty", see `minimal_interval_defined`); witness: -/
theorem minimal_interval_empty_witness : Mgr.init.empty = true ∧ ∀ now, Mgr.init.minimalInterval now = none :=
  ⟨rfl, fun _ => rfl⟩

theorem minimal_interval_defined (m : Mgr) (now : Int) :
    m.minimalInterval now = none ↔ m.empty = true := by
  unfold Mgr.minimalInterval Mgr.empty
  split <;> simp_all

/-! ### stimer -/

/-- the flag-style timer obeys the same due rule: due iff planned and the deadline
`start + interval` has been reached -/
theorem stimer_check_iff (t : STimer) (now : Int) :
    stimerCheck t now = true ↔ t.planed = true ∧ t.start + t.interval ≤ now := by
  simp only [stimerCheck, Bool.and_eq_true, decide_eq_true_eq]
  constructor <;> rintro ⟨h1, h2⟩ <;> exact ⟨h1, by omega⟩

/-- … which is the manager's `check()` for the same start / interval -/
theorem stimer_same_rule (t : STimer) (now : Int) (hp : t.planed = true) :
    stimerCheck t now = (Timer.check ⟨t.start, t.interval⟩ now) := by
  simp [stimerCheck, Timer.check, hp]

/-- no drift: after any sequence of polls the deadline is the initial deadline plus one interval
per firing, the interval and the planned flag are unchanged -/
theorem stimer_periodic_no_drift (t : STimer) (ts : List Int) :
    (stimerPolls t ts).1.start + (stimerPolls t ts).1.interval =
      t.start + t.interval + ((stimerPolls t ts).2.count true : Int) * t.interval ∧
    (stimerPolls t ts).1.interval = t.interval ∧ (stimerPolls t ts).1.planed = t.planed := by
  induction ts generalizing t with
  | nil => simp [stimerPolls]
  | cons now ts ih =>
    simp only [stimerPolls]
    by_cases hc : stimerCheck t now = true
    · have e : stimerPeriodic t now = (stimerSwift t, true) := by simp [stimerPeriodic, hc]
      rw [e]
      obtain ⟨h1, h2, h3⟩ := ih (stimerSwift t)
      simp only [stimerSwift] at h1 h2 h3 ⊢
      refine ⟨?_, h2, h3⟩
      rw [h1, List.count_cons_self, Int.natCast_add, Int.add_mul]
      omega
    · have e : stimerPeriodic t now = (t, false) := by simp [stimerPeriodic, hc]
      rw [e]
      obtain ⟨h1, h2, h3⟩ := ih t
      refine ⟨?_, h2, h3⟩
      rw [h1]
      simp

/-- a poll fires exactly when the timer is due, and then advances the deadline by exactly one interval -/
theorem stimer_periodic_rule (t : STimer) (now : Int) :
    ((stimerPeriodic t now).2 = true ↔ t.planed = true ∧ t.start + t.interval ≤ now) ∧
    ((stimerPeriodic t now).2 = true →
      (stimerPeriodic t now).1.start + (stimerPeriodic t now).1.interval = t.start + t.interval + t.interval) ∧
    ((stimerPeriodic t now).2 = false → (stimerPeriodic t now).1 = t) := by
  have h := stimer_check_iff t now
  unfold stimerPeriodic
  split
  · rename_i hc
    exact ⟨⟨fun _ => h.mp hc, fun _ => rfl⟩, fun _ => by simp [stimerSwift], fun e => by simp at e⟩
  · rename_i hc
    refine ⟨⟨fun e => by simp at e, fun e => absurd (h.mpr e) hc⟩, fun e => by simp at e, fun _ => rfl⟩


/-! ## Extensions

### naming of the theorems that carry a hypothesis which cannot be dropped

FULL statements that do NOT hold for the code (each with its kernel-checked witness above):
"callbacks within one exec run in non-decreasing deadline order" (`order_in_exec_witness`),
"minimal_interval(now) is the reference's time to the next deadline" (`minimal_interval_empty_witness`),
"exec(now) returns" (`exec_terminates_needs_future`).  The provable forms under their visible hypothesis: -/

theorem order_in_exec_partial (cb : Cb) (now : Int) (fuel k : Nat) (m : Mgr) (hm : WF m) (hcb : CbPos cb)
    (hnp : ∀ n f, (execLoop cb now fuel k m).2.1[n]? = some f →
      ∀ j s iv, Action.plan j s iv ∈ cb (k + n) f.id → f.deadline ≤ s + iv) :
    ((execLoop cb now fuel k m).2.1.map (·.deadline)).Pairwise (· ≤ ·) :=
  order_in_exec cb now fuel k m hm hcb hnp

theorem minimal_interval_eq_partial (m : Mgr) (hm : WF m) (now v : Int) (h : m.minimalInterval now = some v) :
    (absM m).Earliest (v + now) := minimal_interval_eq m hm now v h

theorem exec_terminates_partial (cb : Cb) (now : Int) (k : Nat) (m : Mgr) (hm : WF m) (hcb : CbPos cb)
    (hfut : CbFuture now cb) (fuel : Nat) (hfuel : lagSum now m ≤ fuel) :
    (execLoop cb now fuel k m).2.2 = true := exec_terminates cb now k m hm hcb hfut fuel hfuel

/-- outside "positive intervals": a planned due timer whose interval is `≤ 0` makes `exec` spin —
for EVERY fuel the loop is still running (callbacks that do nothing) -/
theorem nonpositive_interval_never_returns (now s iv : Int) (hiv : iv ≤ 0) (hdue : s + iv ≤ now) :
    ∀ fuel k, (execLoop (fun _ _ => []) now fuel k ⟨fun _ => ⟨s, iv⟩, [0]⟩).2.2 = false := by
  intro fuel
  induction fuel generalizing s with
  | zero =>
    intro k
    have : (decide (now - s ≥ iv)) = true := by simp; omega
    simp [execLoop, Mgr.headDue, Timer.check, this]
  | succ n ih =>
    intro k
    have hc : (decide (now - s ≥ iv)) = true := by simp; omega
    have hd : (⟨fun _ => ⟨s, iv⟩, [0]⟩ : Mgr).headDue now = some 0 := by simp [Mgr.headDue, Timer.check, hc]
    have hb : execBody [] ⟨fun _ => ⟨s, iv⟩, [0]⟩ 0 = ⟨setTm (fun _ => ⟨s, iv⟩) 0 ⟨s + iv, iv⟩, [0]⟩ := by
      simp [execBody, rearm, runCb, Mgr.unplan, Mgr.plan, insertBefore, Timer.shift]
    have he : (⟨setTm (fun _ => ⟨s, iv⟩) 0 ⟨s + iv, iv⟩, [0]⟩ : Mgr).headDue now = some 0 := by
      have : (decide (now - (s + iv) ≥ iv)) = true := by simp; omega
      simp [Mgr.headDue, Timer.check, this]
    -- the state after the body behaves like a fresh single-timer manager with start s + iv
    have key : ∀ (fuel k : Nat) (tm : Nat → Timer), tm 0 = ⟨s + iv, iv⟩ →
        (execLoop (fun _ _ => []) now fuel k ⟨tm, [0]⟩).2.2 =
        (execLoop (fun _ _ => []) now fuel k ⟨fun _ => ⟨s + iv, iv⟩, [0]⟩).2.2 := by
      intro fuel
      induction fuel with
      | zero => intro k tm h0; simp [execLoop, Mgr.headDue, h0]
      | succ q ihq =>
        intro k tm h0
        unfold execLoop
        have e1 : (⟨tm, [0]⟩ : Mgr).headDue now = (⟨fun _ => ⟨s + iv, iv⟩, [0]⟩ : Mgr).headDue now := by
          simp [Mgr.headDue, h0]
        rw [e1]
        cases hh : (⟨fun _ => ⟨s + iv, iv⟩, [0]⟩ : Mgr).headDue now with
        | none => rfl
        | some i =>
          have hi : i = 0 := by
            simp only [Mgr.headDue] at hh
            split at hh <;> simp_all
          subst hi
          simp only
          have b1 : execBody [] ⟨tm, [0]⟩ 0 = ⟨setTm tm 0 ⟨s + iv + iv, iv⟩, [0]⟩ := by
            simp [execBody, rearm, runCb, Mgr.unplan, Mgr.plan, insertBefore, Timer.shift, h0]
          have b2 : execBody [] ⟨fun _ => ⟨s + iv, iv⟩, [0]⟩ 0 =
              ⟨setTm (fun _ => ⟨s + iv, iv⟩) 0 ⟨s + iv + iv, iv⟩, [0]⟩ := by
            simp [execBody, rearm, runCb, Mgr.unplan, Mgr.plan, insertBefore, Timer.shift]
          show (execLoop _ now q (k + 1) (execBody [] ⟨tm, [0]⟩ 0)).2.2 =
            (execLoop _ now q (k + 1) (execBody [] ⟨fun _ => ⟨s + iv, iv⟩, [0]⟩ 0)).2.2
          rw [b1, b2]
          -- both states have timer 0 = ⟨s+iv+iv, iv⟩: compare through a common canonical state
          have c1 : ∀ (tm1 tm2 : Nat → Timer), tm1 0 = tm2 0 →
              (execLoop (fun _ _ => []) now q (k + 1) ⟨tm1, [0]⟩).2.2 =
              (execLoop (fun _ _ => []) now q (k + 1) ⟨tm2, [0]⟩).2.2 := by
            intro tm1 tm2 h12
            -- generalise: only timer 0 matters
            have gen : ∀ (fuel k : Nat) (a b : Nat → Timer), a 0 = b 0 →
                (execLoop (fun _ _ => []) now fuel k ⟨a, [0]⟩).2.2 =
                (execLoop (fun _ _ => []) now fuel k ⟨b, [0]⟩).2.2 := by
              intro fuel
              induction fuel with
              | zero => intro k a b hab; simp [execLoop, Mgr.headDue, hab]
              | succ r ihr =>
                intro k a b hab
                unfold execLoop
                have e2 : (⟨a, [0]⟩ : Mgr).headDue now = (⟨b, [0]⟩ : Mgr).headDue now := by
                  simp [Mgr.headDue, hab]
                rw [e2]
                cases hb2 : (⟨b, [0]⟩ : Mgr).headDue now with
                | none => rfl
                | some j =>
                  have hj : j = 0 := by
                    simp only [Mgr.headDue] at hb2
                    split at hb2 <;> simp_all
                  subst hj
                  simp only
                  have x1 : execBody [] ⟨a, [0]⟩ 0 = ⟨setTm a 0 (a 0).shift, [0]⟩ := by
                    simp [execBody, rearm, runCb, Mgr.unplan, Mgr.plan, insertBefore]
                  have x2 : execBody [] ⟨b, [0]⟩ 0 = ⟨setTm b 0 (b 0).shift, [0]⟩ := by
                    simp [execBody, rearm, runCb, Mgr.unplan, Mgr.plan, insertBefore]
                  show (execLoop _ now r (k + 1) (execBody [] ⟨a, [0]⟩ 0)).2.2 =
                    (execLoop _ now r (k + 1) (execBody [] ⟨b, [0]⟩ 0)).2.2
                  rw [x1, x2]
                  exact ihr (k + 1) _ _ (by simp [hab])
            exact gen q (k + 1) tm1 tm2 h12
          exact c1 _ _ (by simp)
    unfold execLoop
    rw [hd]
    simp only
    rw [hb, key n (k + 1) _ (by simp)]
    exact ih (s + iv) (by omega) (k + 1)

-- the hypotheses are satisfiable: interval 0, deadline 5, now 5
example : (0 : Int) ≤ 0 ∧ (5 : Int) + 0 ≤ 5 := by omega

/-- a callback that re-plans its own timer with exactly the values it already has is "left
alone" for the code and for the reference alike: it asked for deadline `s + iv` and gets
`s + 2·iv` (this is what `rearm_self_replan` excludes by `hne`) -/
theorem rearm_self_replan_same_values_witness :
    ((execBody [Action.plan 0 0 3] (Mgr.init.plan3 0 0 3) 0).tm 0).finish = 6 ∧
    ((execBody [Action.plan 0 1 2] (Mgr.init.plan3 0 0 3) 0).tm 0).finish = 3 := by
  decide

/-! ### wrap-around: `timer_manager_basic<timer_spec<uint32_t>>` (model `Wrap.lean`)

Precondition on a history (`HistWin G D lo c ops`, `lo` = time of the previous `exec`, `c` = latest
time seen): positive intervals of at most `D`; time does not go backwards (an `exec` is not given
a time before a start handed to `plan` since); every `exec` comes at most `G` after the previous
one; no deadline is planned before the time of the previous `exec`; `G + D < 2^31`. -/

/-- one `exec(now)`: the 32-bit manager makes exactly the callbacks of the unbounded-time manager
(deadlines modulo 2^32), ends in its state modulo 2^32 and returns when it returns — so
`not_early`, `all_due_fire`, `due_runs`, `order_in_exec*`, `rearm_*`, `catch_up` hold ACROSS the wrap -/
theorem wrap_exec_refines {G D now : Int} (P : Params G D) (cb : Cb) (hcb : CbWin G D now cb) (fuel k : Nat)
    (m : Mgr) (hw : Win G D now m) :
    execLoopW .signedDiff (cbToW cb) (wr now) fuel k m.toW =
      ((execLoop cb now fuel k m).1.toW, (execLoop cb now fuel k m).2.1.map Fire.toW,
        (execLoop cb now fuel k m).2.2) :=
  (execLoop_sim P cb hcb fuel k m hw).1

/-- whole histories across any number of wraps -/
theorem wrap_refines {G D : Int} (P : Params G D) (ops : List Op) (lo c : Int) (m : Mgr) (hm : WF m)
    (hj : J D lo c m) (hc : c ≤ lo + G) (hh : HistWin G D lo c ops) (hfin : (runOps m ops).2.2 = true) :
    runOpsW .signedDiff m.toW (ops.map Op.toW) =
      ((runOps m ops).1.toW, (runOps m ops).2.1.map (fun fs => fs.map Fire.toW), true) :=
  runOps_sim P ops lo c m hm hj hc hh hfin

theorem HistWin.valid {G D : Int} : ∀ (ops : List Op) (lo c : Int), HistWin G D lo c ops → ∀ op ∈ ops, OpValid op
  | [], _, _, _ => by simp
  | .plan i s iv :: ops, lo, c, h => by
    intro op hop
    rcases List.mem_cons.mp hop with e | e
    · subst e; exact h.1
    · exact HistWin.valid ops lo (max c s) h.2.2.2.2 op e
  | .unplan i :: ops, lo, c, h => by
    intro op hop
    rcases List.mem_cons.mp hop with e | e
    · subst e; trivial
    · exact HistWin.valid ops lo c h op e
  | .exec now cb fuel :: ops, lo, c, h => by
    intro op hop
    rcases List.mem_cons.mp hop with e | e
    · subst e; exact h.2.2.1.pos
    · exact HistWin.valid ops now now h.2.2.2 op e

/-- … hence from a fresh manager the 32-bit manager's callbacks and pending set are those of the
REFERENCE scheduler run in unbounded time on the same history, read modulo 2^32: timers fire
exactly when due and in deadline order across the wrap -/
theorem wrap_refines_reference {G D : Int} (P : Params G D) (ops : List Op) (t0 : Int)
    (hh : HistWin G D t0 t0 ops) (hfin : (runOps Mgr.init ops).2.2 = true) :
    ∃ (fss : List (List Fire)) (m' : Mgr),
      Ref.Hist Ref.none ops fss (absM m') ∧
      runOpsW .signedDiff MgrW.init (ops.map Op.toW) = (m'.toW, fss.map (fun fs => fs.map Fire.toW), true) := by
  refine ⟨(runOps Mgr.init ops).2.1, (runOps Mgr.init ops).1,
    refines_reference_init ops (HistWin.valid ops t0 t0 hh) hfin, ?_⟩
  have h := wrap_refines P ops t0 t0 Mgr.init init_wf (by intro i hi; simp [Mgr.init] at hi)
    (by have := P.g0; omega) hh hfin
  exact h

-- the precondition is satisfiable by a history that crosses the wrap (2^32 = 4294967296)
example : HistWin (2 ^ 30) (2 ^ 30) 4294967200 4294967200
    [Op.plan 0 4294967200 50, Op.exec 4294967290 (fun _ _ => [Action.plan 1 4294967290 10]) 9,
     Op.exec 4294967300 (fun _ _ => []) 9] := by
  refine ⟨by omega, by omega, by omega, by omega, by omega, by omega, ?_, by omega, by omega, ?_, trivial⟩
  · intro k i a ha
    simp only [List.mem_singleton] at ha
    subst ha
    exact ⟨by simp, by simp, by simp, by simp [Timer.finish]⟩
  · intro k i a ha; simp at ha

/-- `minimal_interval` is the unbounded one modulo 2^32 (no precondition) -/
theorem wrap_minimal_interval (m : Mgr) (now : Int) :
    m.toW.minimalInterval (wr now) = (m.minimalInterval now).map wr := by
  unfold MgrW.minimalInterval Mgr.minimalInterval
  show (match m.lst with | [] => none | i :: _ => some ((m.tm i).toW.finish - wr now)) = _
  cases m.lst with
  | nil => rfl
  | cons i rest => simp [wr_sub]

/-- the code AS SHIPPED (`finish < tim.finish()` on unsigned values): timer 0 has deadline
2^32 − 16, timer 1 deadline 2^32 + 5 (= 5 after the wrap) is sorted in front of it, and at
time 2^32 − 14 timer 0 is due but `exec` makes no callback; the repaired comparison runs it -/
theorem wrap_unsigned_less_witness :
    let plans (c : Cmp) := (MgrW.init.plan3 c 0 (wr 4294967264) (wr 16)).plan3 c 1 (wr 4294967264) (wr 37)
    (plans .less).lst = [1, 0] ∧
    ((plans .less).tm 0).check (wr 4294967282) = true ∧
    (execLoopW .less (fun _ _ => []) (wr 4294967282) 5 0 (plans .less)).2.1 = [] ∧
    (execLoopW .signedDiff (fun _ _ => []) (wr 4294967282) 5 0 (plans .signedDiff)).2.1 = [⟨0, wr 4294967280⟩] := by
  decide

/-- the precondition cannot be relaxed to "gap < 2^31 and interval < 2^31": 2^31 − 2 ticks after
the previous exec (time 0) a timer with interval 2^31 − 1 is planned while timer 0 (deadline 5) is
overdue; the difference of the deadlines does not fit `int32_t`, the new timer is put in front and
the overdue timer does not run although `exec` returns -/
theorem wrap_window_needed_witness :
    let m := (MgrW.init.plan3 .signedDiff 0 (wr 0) (wr 5)).plan3 .signedDiff 1 (wr 2147483646) (wr 2147483647)
    m.lst = [1, 0] ∧ (m.tm 0).check (wr 2147483646) = true ∧
    (execLoopW .signedDiff (fun _ _ => []) (wr 2147483646) 5 0 m).2 = ([], true) := by
  decide

/-- nor can "no start after the clock": an unsigned `check` reads a start 10 ticks in the future as
a start 2^32 − 10 ticks ago and runs the timer at once (the unbounded-time manager does not) -/
theorem wrap_future_start_witness :
    (execLoopW .signedDiff (fun _ _ => []) (wr 100) 1 0
        (MgrW.init.plan3 .signedDiff 0 (wr 110) (wr 1073741824))).2.1 = [⟨0, wr 1073741934⟩] ∧
    (execLoop (fun _ _ => []) 100 1 0 (Mgr.init.plan3 0 110 1073741824)).2.1 = [] := by
  decide

/-! ### stimer in the arithmetic of a `w`-bit `long` (model `stimerCheckN` …, `Wrap.lean`) -/

/-- the due rule against an independent statement: with the tick values read in unbounded time,
`stimer_check` (computed in wrapping `w`-bit arithmetic) says "due" exactly when the timer is
planned and the deadline `start + interval` has been reached — provided the poll is less than
half the range away from the start -/
theorem stimer_wrap_due_iff (w : Nat) (hw : 0 < w) (t : STimer) (now : Int)
    (h1 : -2 ^ (w - 1) ≤ now - t.start) (h2 : now - t.start < 2 ^ (w - 1))
    (h3 : -2 ^ (w - 1) ≤ t.interval) (h4 : t.interval < 2 ^ (w - 1)) :
    stimerCheckN (t.toN w) (BitVec.ofInt w now) = true ↔ t.planed = true ∧ t.start + t.interval ≤ now := by
  rw [stimerCheckN_sim w hw t now h1 h2 h3 h4]
  exact stimer_check_iff t now

-- satisfiable across the wrap of a 32-bit long: start 2^31 − 6, poll at 2^31 + 10
example : (-2 ^ (32 - 1) : Int) ≤ 2147483658 - 2147483642 ∧ (2147483658 - 2147483642 : Int) < 2 ^ (32 - 1) := by
  omega

/-- the polls of a history stay within half the range of the (moving) start -/
def PollsWin (w : Nat) : STimer → List Int → Prop
  | _, [] => True
  | t, now :: ts =>
    (-2 ^ (w - 1) ≤ now - t.start ∧ now - t.start < 2 ^ (w - 1)) ∧ PollsWin w (stimerPeriodic t now).1 ts

def stimerPollsN {w : Nat} (t : STimerN w) : List (BitVec w) → STimerN w × List Bool
  | [] => (t, [])
  | now :: ts =>
    let r := stimerPeriodicN t now
    let r' := stimerPollsN r.1 ts
    (r'.1, r.2 :: r'.2)

/-- `STIMER_PERIODIC` polled across the wrap fires at the polls at which the unbounded-time timer
fires and ends in its state modulo 2^w — with `stimer_periodic_no_drift`: no drift across the wrap -/
theorem stimer_wrap_polls (w : Nat) (hw : 0 < w) (t : STimer) (ts : List Int)
    (h3 : -2 ^ (w - 1) ≤ t.interval) (h4 : t.interval < 2 ^ (w - 1)) (hp : PollsWin w t ts) :
    stimerPollsN (t.toN w) (ts.map (BitVec.ofInt w)) = ((stimerPolls t ts).1.toN w, (stimerPolls t ts).2) := by
  induction ts generalizing t with
  | nil => rfl
  | cons now ts ih =>
    obtain ⟨⟨a, b⟩, c⟩ := hp
    simp only [List.map_cons, stimerPollsN, stimerPolls, stimerPeriodicN_sim w hw t now a b h3 h4]
    have hiv : (stimerPeriodic t now).1.interval = t.interval := by
      unfold stimerPeriodic; split <;> rfl
    rw [ih (stimerPeriodic t now).1 (by rw [hiv]; exact h3) (by rw [hiv]; exact h4) c]

example : PollsWin 32 ⟨2147483642, 10, true⟩ [2147483645, 2147483652, 2147483670] := by
  refine ⟨by dsimp only; omega, ?_⟩
  have e1 : (stimerPeriodic ⟨2147483642, 10, true⟩ 2147483645).1 = ⟨2147483642, 10, true⟩ := by decide
  rw [e1]
  refine ⟨by dsimp only; omega, ?_⟩
  have e2 : (stimerPeriodic ⟨2147483642, 10, true⟩ 2147483652).1 = ⟨2147483652, 10, true⟩ := by decide
  rw [e2]
  exact ⟨by dsimp only; omega, trivial⟩

/-- outside the window the wrapped rule and the unbounded rule differ (32-bit `long`): a poll 2^31
ticks after the start reads the elapsed time as negative — "not due" although the deadline passed -/
theorem stimer_wrap_window_needed_witness :
    stimerCheckN ((⟨0, 10, true⟩ : STimer).toN 32) (BitVec.ofInt 32 2147483648) = false ∧
    stimerCheck ⟨0, 10, true⟩ 2147483648 = true ∧
    -- inside the window, across the wrap of a 32-bit long, they agree (audit probe P8)
    stimerCheckN ((⟨2147483642, 10, true⟩ : STimer).toN 32) (BitVec.ofInt 32 2147483658) = true := by
  decide

/-! ### no drift over whole histories -/

/-- the operation does not name timer `i` -/
def OpUntouched (i : Nat) : Op → Prop
  | .plan j _ _ => j ≠ i
  | .unplan j => j ≠ i
  | .exec _ cb _ => Untouched cb i

def execTimes : List Op → List Int
  | [] => []
  | .exec now _ _ :: ops => now :: execTimes ops
  | _ :: ops => execTimes ops

theorem range_map_add (n1 n2 : Nat) (f d : Int) :
    (List.range (n1 + n2)).map (fun (q : Nat) => f + (q : Int) * d) =
      (List.range n1).map (fun (q : Nat) => f + (q : Int) * d) ++
      (List.range n2).map (fun (q : Nat) => (f + (n1 : Int) * d) + (q : Int) * d) := by
  rw [List.range_add, List.map_append, List.map_map]
  congr 1
  apply List.map_congr_left
  intro q _
  simp only [Function.comp, Int.natCast_add, Int.add_mul]
  omega

/-- No drift at full strength: a planned periodic timer (deadline `f`, interval `d`) that no later
operation names fires — over the WHOLE history, however late and however irregular the `exec`
calls come, whatever the other timers and callbacks do — exactly at `f, f+d, …, f+(n-1)·d` in this
order, stays planned with deadline `f + n·d`, and `n` is the number of deadlines that lie at or
before the latest `exec` time: every exec time is `< f + n·d`, and (if `n > 0`) some exec time is
`≥ f + (n-1)·d`. -/
theorem no_drift_history (i : Nat) (ops : List Op) (m : Mgr) (hm : WF m) (hv : ∀ op ∈ ops, OpValid op)
    (hu : ∀ op ∈ ops, OpUntouched i op) (hfin : (runOps m ops).2.2 = true) (hi : i ∈ m.lst) :
    ∃ n : Nat,
      ((runOps m ops).2.1.flatten.filter (fun f => f.id = i)).map (·.deadline) =
        (List.range n).map (fun (q : Nat) => (m.tm i).finish + (q : Int) * (m.tm i).interval) ∧
      (runOps m ops).1.tm i = ⟨(m.tm i).start + (n : Int) * (m.tm i).interval, (m.tm i).interval⟩ ∧
      i ∈ (runOps m ops).1.lst ∧
      (∀ t ∈ execTimes ops, t < (m.tm i).finish + (n : Int) * (m.tm i).interval) ∧
      (0 < n → ∃ t ∈ execTimes ops, (m.tm i).finish + ((n : Int) - 1) * (m.tm i).interval ≤ t) := by
  induction ops generalizing m with
  | nil =>
    refine ⟨0, by simp [runOps], by simp [runOps], by simpa [runOps] using hi, by simp [execTimes], by simp⟩
  | cons op ops ih =>
    have hop := hv op (by simp)
    have huo := hu op (by simp)
    have hv' := fun o ho => hv o (List.mem_cons_of_mem _ ho)
    have hu' := fun o ho => hu o (List.mem_cons_of_mem _ ho)
    simp only [runOps, Bool.and_eq_true] at hfin
    have hpos := hm.pos i hi
    cases op with
    | plan j s iv =>
      have hji : i ≠ j := fun e => huo e.symm
      have hi' : i ∈ (m.plan3 j s iv).lst := (mem_plan3 m j i s iv).mpr (Or.inr hi)
      have htm : (m.plan3 j s iv).tm i = m.tm i := by rw [plan3_tm, setTm_other _ _ hji]
      obtain ⟨n, h1, h2, h3, h4, h5⟩ := ih (m.plan3 j s iv) (hm.plan3 j s iv hop) hv' hu' hfin.2 hi'
      rw [htm] at h1 h2 h4 h5
      exact ⟨n, by simpa [runOps, stepOp] using h1, by simpa [runOps, stepOp] using h2,
        by simpa [runOps, stepOp] using h3, by simpa [execTimes] using h4, by simpa [execTimes] using h5⟩
    | unplan j =>
      have hji : i ≠ j := fun e => huo e.symm
      have hi' : i ∈ (m.unplan j).lst := (mem_unplan m j i).mpr ⟨hi, hji⟩
      obtain ⟨n, h1, h2, h3, h4, h5⟩ := ih (m.unplan j) (hm.unplan j) hv' hu' hfin.2 hi'
      exact ⟨n, by simpa [runOps, stepOp] using h1, by simpa [runOps, stepOp] using h2,
        by simpa [runOps, stepOp] using h3, by simpa [execTimes] using h4, by simpa [execTimes] using h5⟩
    | exec now cb fuel =>
      obtain ⟨n1, c1, c2, c3, c4, c5⟩ := catch_up cb now fuel 0 m hm hop hfin.1 i huo hi
      have hm' := sorted_inv_exec cb now fuel 0 m hm hop
      obtain ⟨n2, h1, h2, h3, h4, h5⟩ := ih (execLoop cb now fuel 0 m).1 hm' hv' hu' hfin.2 c3
      rw [c2] at h1 h2 h4 h5
      simp only [Timer.finish] at h1 h2 h4 h5 c4 c5 ⊢
      refine ⟨n1 + n2, ?_, ?_, by simpa [runOps, stepOp] using h3, ?_, ?_⟩
      · simp only [runOps, stepOp, List.flatten_cons, List.filter_append, List.map_append]
        rw [c1, h1, range_map_add]
        simp only [Timer.finish]
        congr 2
        · funext q; omega
      · simp only [runOps, stepOp]
        rw [h2]
        simp only [Int.natCast_add, Int.add_mul, Timer.mk.injEq, and_true]
        omega
      · intro t ht
        simp only [execTimes, List.mem_cons] at ht
        have hn2 : (0 : Int) ≤ (n2 : Int) * (m.tm i).interval := Int.mul_nonneg (by omega) (by omega)
        simp only [Int.natCast_add, Int.add_mul]
        rcases ht with e | e
        · subst e; omega
        · have := h4 t e; omega
      · intro hn
        simp only [execTimes, List.mem_cons]
        by_cases hn2 : 0 < n2
        · obtain ⟨t, ht, hle⟩ := h5 hn2
          refine ⟨t, Or.inr ht, ?_⟩
          simp only [Int.natCast_add, Int.add_mul, Int.sub_mul] at hle ⊢
          omega
        · have e : n2 = 0 := by omega
          subst e
          have := c5 (by omega)
          refine ⟨now, Or.inl rfl, ?_⟩
          simpa using this

/-- … and as a count: if `T` is the latest `exec` time of the history and the timer was planned at
start `s` with interval `d` (deadline `s + d`), the number of its firings is `⌊(T − s)/d⌋`
(0 when `T < s + d`) — for every exec schedule -/
theorem firing_count_history (s d T : Int) (n : Nat) (times : List Int) (hd : 0 < d)
    (hT : T ∈ times) (hmax : ∀ t ∈ times, t ≤ T)
    (h1 : ∀ t ∈ times, t < (s + d) + (n : Int) * d)
    (h2 : 0 < n → ∃ t ∈ times, (s + d) + ((n : Int) - 1) * d ≤ t) :
    (n : Int) = ((T - s) / d).toNat := by
  have a := h1 T hT
  rcases Nat.eq_zero_or_pos n with e | e
  · subst e
    simp only [Int.natCast_zero, Int.zero_mul, Int.add_zero] at a
    have : (T - s) / d ≤ 0 := by
      have : (T - s) / d < 1 := by rw [Int.ediv_lt_iff_lt_mul hd]; omega
      omega
    omega
  · obtain ⟨t, ht, hle⟩ := h2 e
    have := hmax t ht
    have lo : (n : Int) ≤ (T - s) / d := by
      rw [Int.le_ediv_iff_mul_le hd]
      have : (s + d) + ((n : Int) - 1) * d = s + (n : Int) * d := by rw [Int.sub_mul]; omega
      omega
    have hi : (T - s) / d < (n : Int) + 1 := by
      rw [Int.ediv_lt_iff_lt_mul hd]
      have : ((n : Int) + 1) * d = (n : Int) * d + d := by rw [Int.add_mul]; omega
      omega
    omega

-- satisfiable: planned at 0 with interval 3, execs at 4 and 10: 3 firings (3, 6, 9)
example : ((3 : Nat) : Int) = (((10 : Int) - 0) / 3).toNat := by decide

/-! ### FIFO among equal deadlines (the code has it: `plan` inserts before the first STRICTLY later deadline) -/

/-- a timer planned while `b` is planned with a deadline that is not later is linked behind `b` -/
theorem plan_behind_equal_deadline (m : Mgr) (hm : WF m) (a b : Nat) (s iv : Int) (hab : b ≠ a)
    (hb : b ∈ m.lst) (hle : (m.tm b).finish ≤ s + iv) :
    [b, a].Sublist (m.plan3 a s iv).lst := by
  rw [plan3_eq]
  have hu := (hm.unplan a).setTm a ⟨s, iv⟩ (not_mem_unplan m a)
  have hb' : b ∈ (m.unplan a).lst := (mem_unplan m a b).mpr ⟨hb, hab⟩
  have hunplan : (({ m.unplan a with tm := setTm m.tm a ⟨s, iv⟩ } : Mgr).unplan a).lst = (m.unplan a).lst := by
    simp [Mgr.unplan, List.filter_filter]
  show [b, a].Sublist (insertBefore _ _ a _)
  rw [hunplan]
  apply insertBefore_after _ _ a b _ hu.sorted hb'
  show (setTm m.tm a ⟨s, iv⟩ b).finish ≤ (setTm m.tm a ⟨s, iv⟩ a).finish
  rw [setTm_other _ _ hab, setTm_same]
  exact hle

/-- stability: if `a` stands behind `b` in the list (in particular: planned later with the same
deadline) and no callback names either of them, every callback of `a` in an `exec` is preceded by
a callback of `b` — equal deadlines run in the order in which they were planned -/
theorem fifo_equal_deadlines (cb : Cb) (now : Int) (fuel k : Nat) (m : Mgr) (hm : WF m) (hcb : CbPos cb)
    (a b : Nat) (hab : a ≠ b) (hp : [b, a].Sublist m.lst) (hua : Untouched cb a) (hub : Untouched cb b) :
    ∀ (n : Nat) (f : Fire), (execLoop cb now fuel k m).2.1[n]? = some f → f.id = a →
      ∃ (n' : Nat) (g : Fire), n' < n ∧ (execLoop cb now fuel k m).2.1[n']? = some g ∧ g.id = b :=
  (execLoop_steps cb now fuel k m).fifo hcb hm hab hp hua hub

-- two timers with the same deadline 3, planned 0 then 1: they run 0 then 1
example : (execLoop (fun _ _ => []) 3 5 0 ((Mgr.init.plan3 0 0 3).plan3 1 1 2)).2.1 = [⟨0, 3⟩, ⟨1, 3⟩] := by decide

/-! ### setters, `plan(tim)`, destruction, nested `exec` (model `Ext.lean`) -/

/-- on callbacks that only plan / unplan, the extended `exec` is the `exec` of the theorems above -/
theorem execX_conservative (cb : Cb) (fuel : Nat) (now : Int) (k : Nat) (m : Mgr) :
    execX (fun k i => (cb k i).map ActX.ofAction) fuel now k m =
      ((execLoop cb now fuel k m).1, (execLoop cb now fuel k m).2.1, statOfBool (execLoop cb now fuel k m).2.2) :=
  execX_base_aux cb fuel now k m

/-- which operations preserve the invariant: the setters on a timer that is NOT planned,
`plan(tim)` of a timer with a positive interval, destroying a timer, destroying the manager -/
theorem setters_on_unplanned_keep_invariant (m : Mgr) (hm : WF m) (i : Nat) (v : Int) (hi : i ∉ m.lst) :
    WF (m.setStart i v) ∧ WF (m.setInterval i v) :=
  ⟨hm.setTm i _ hi, hm.setTm i _ hi⟩

theorem replan_keeps_invariant (m : Mgr) (hm : WF m) (i : Nat) (hp : 0 < (m.tm i).interval) : WF (m.plan i) :=
  hm.plan i hp

theorem destroy_keeps_invariant (m : Mgr) (hm : WF m) (i : Nat) : WF (m.destroy i) ∧ WF m.dropMgr := by
  refine ⟨?_, ⟨List.nodup_nil, List.Pairwise.nil, by simp [Mgr.dropMgr]⟩⟩
  exact (hm.unplan i).setTm i {} (not_mem_unplan m i)

/-- destroying a timer is unplanning it (for the list and for every other timer) -/
theorem destroy_is_unplan (m : Mgr) (i : Nat) :
    (m.destroy i).lst = (m.unplan i).lst ∧ ∀ x, x ≠ i → (m.destroy i).tm x = m.tm x :=
  ⟨rfl, fun x hx => setTm_other _ _ hx⟩

/-- the documented sequence `set_start; set_interval; plan(tim)` is `plan(tim, start, interval)`,
also on a planned timer (`plan` unlinks first) -/
theorem setters_then_plan (m : Mgr) (i : Nat) (s iv : Int) :
    ((m.setStart i s).setInterval i iv).plan i = m.plan3 i s iv := by
  unfold Mgr.plan3 Mgr.setStart Mgr.setInterval
  congr 2
  funext x
  simp only [setTm]
  split <;> simp_all

/-- the operation that does NOT preserve the invariant: a setter on a PLANNED timer.  Timers 0
(deadline 5) and 1 (deadline 7); `set_start(10)` on timer 0 moves its deadline to 15 but not its
place: the list is no longer sorted, at time 8 timer 1 is due and `exec` returns without running
it, and `minimal_interval` is not the time to the earliest deadline; `plan(tim)` repairs it -/
theorem set_start_on_planned_witness :
    let m := ((Mgr.init.plan3 0 0 5).plan3 1 0 7).setStart 0 10
    m.lst = [0, 1] ∧ (m.tm 0).finish = 15 ∧ (m.tm 1).finish = 7 ∧
    (execLoop (fun _ _ => []) 8 5 0 m).2 = ([], true) ∧
    m.minimalInterval 8 = some 7 ∧
    (execLoop (fun _ _ => []) 8 5 0 (m.plan 0)).2.1 = [⟨1, 7⟩] := by
  decide

/-- nested `exec` (finding C16-nested-exec-refires): the callback of timer 0 (deadline 5) calls
`exec(5)`; its own timer is still at the head with its old fields, so the nested exec runs the same
callback again for the same deadline -/
theorem nested_exec_refires_witness :
    (execX (fun k _ => if k = 0 then [ActX.exec 5] else []) 5 5 0 ((Mgr.init.plan3 0 0 5).plan3 1 0 6)).2.1 =
      [⟨0, 5⟩, ⟨0, 5⟩] := by
  decide

/-- … while a callback that first takes its own timer out of the way (unplans it) and then calls
`exec` gets the other due timers run in order, each once -/
theorem nested_exec_after_unplan_witness :
    (execX (fun k _ => if k = 0 then [ActX.unplan 0, ActX.exec 6] else []) 5 5 0
        ((Mgr.init.plan3 0 0 5).plan3 1 0 6)).2.1 = [⟨0, 5⟩, ⟨1, 6⟩] := by
  decide

/-- destroying its own timer from a callback: `exec` then reads the dead object (finding
C16-destroy-self-in-callback); destroying the NEXT timer in the list is harmless -/
theorem destroy_in_callback_witness :
    (execX (fun k _ => if k = 0 then [ActX.destroy 0] else []) 5 5 0 ((Mgr.init.plan3 0 0 5).plan3 1 0 5)).2.2 = Stat.uaf ∧
    (execX (fun k _ => if k = 0 then [ActX.destroy 1] else []) 5 5 0 ((Mgr.init.plan3 0 0 5).plan3 1 0 5)).2 =
      ([⟨0, 5⟩], Stat.done) := by
  decide


/-! ## Extension round 3

### stimer.c in the arithmetic of a `w`-bit `long`, without any window (`w = 64`: the harness) -/

/-- `stimer_check` is true exactly when the timer is planned and the ELAPSED time — the difference
of the two `long` values reduced modulo 2^w into the signed range — has reached the interval
(all three read as signed `long`s).  Every timer, every `curtime`. -/
theorem stimer_check_elapsed_iff {w : Nat} (t : STimerN w) (c : BitVec w) :
    stimerCheckN t c = true ↔
      t.planed = true ∧ t.interval.toInt ≤ (c.toInt - t.start.toInt).bmod (2 ^ w) := by
  simp [stimerCheckN, BitVec.toInt_sub]

/-- what the model calls elapsed IS that residue -/
theorem stimer_elapsed_eq {w : Nat} (t : STimerN w) (c : BitVec w) :
    stimerElapsedN t c = (c.toInt - t.start.toInt).bmod (2 ^ w) := by
  simp [stimerElapsedN, BitVec.toInt_sub]

/-- TRANSFER to the due rule over the integers, with the EXACT admissible region: the wrapped
`stimer_check` agrees with `planned ∧ start + interval ≤ curtime` (no wrap, the `long` values read
as integers) IF AND ONLY IF the timer is not planned, or `curtime − start` lies in `[−2^(w−1),
2^(w−1))`, or it lies above and the interval is so small that the wrapped (negative) elapsed time
still reaches it, or it lies below and the interval is larger than the wrapped elapsed time. -/
theorem stimer_transfer_iff {w : Nat} (hw : 0 < w) (t : STimerN w) (c : BitVec w) :
    (stimerCheckN t c = true ↔ t.planed = true ∧ t.start.toInt + t.interval.toInt ≤ c.toInt) ↔
      (t.planed = false ∨
       (-(2 ^ (w - 1)) ≤ c.toInt - t.start.toInt ∧ c.toInt - t.start.toInt < 2 ^ (w - 1)) ∨
       (2 ^ (w - 1) ≤ c.toInt - t.start.toInt ∧ t.interval.toInt ≤ c.toInt - t.start.toInt - 2 ^ w) ∨
       (c.toInt - t.start.toInt < -(2 ^ (w - 1)) ∧ c.toInt - t.start.toInt + 2 ^ w < t.interval.toInt)) := by
  have hp := two_pow_half w hw
  obtain ⟨s1, s2⟩ := toInt_range t.start
  obtain ⟨i1, i2⟩ := toInt_range t.interval
  obtain ⟨c1, c2⟩ := toInt_range c
  rw [stimer_check_elapsed_iff, bmod_cases hw _ (by omega) (by omega)]
  cases hpl : t.planed with
  | false => simp
  | true =>
    simp only [true_and, Bool.true_eq_false, false_or]
    split
    · omega
    · split <;> omega

/-- inside the window (the clock is less than half the range away from the start point, on either
side) the integer rule holds for EVERY interval, also `LONG_MAX`, `LONG_MIN`, 0 and −1 -/
theorem stimer_transfer_in_window {w : Nat} (hw : 0 < w) (t : STimerN w) (c : BitVec w)
    (h1 : -(2 ^ (w - 1)) ≤ c.toInt - t.start.toInt) (h2 : c.toInt - t.start.toInt < 2 ^ (w - 1)) :
    stimerCheckN t c = true ↔ t.planed = true ∧ t.start.toInt + t.interval.toInt ≤ c.toInt :=
  (stimer_transfer_iff hw t c).mpr (Or.inr (Or.inl ⟨h1, h2⟩))

-- satisfiable: the parked flag timer of the seeded change (start 5250, interval LONG_MAX, clock 5000)
example : (-(2 ^ (64 - 1)) : Int) ≤ (5000#64).toInt - (5250#64).toInt ∧
    (5000#64).toInt - (5250#64).toInt < 2 ^ (64 - 1) := by decide

/-- a timer whose start point lies AHEAD of the clock (by at most half the range) is not due,
whatever non-negative interval it has — in particular the parked timer with interval `LONG_MAX` -/
theorem stimer_start_ahead_not_due {w : Nat} (hw : 0 < w) (t : STimerN w) (c : BitVec w)
    (hahead : c.toInt < t.start.toInt) (hwin : -(2 ^ (w - 1)) ≤ c.toInt - t.start.toInt)
    (hiv : 0 ≤ t.interval.toInt) : stimerCheckN t c = false := by
  have hp : (0 : Int) < 2 ^ (w - 1) := Int.pow_pos (by decide)
  have h := stimer_transfer_in_window hw t c hwin (by omega)
  cases hc : stimerCheckN t c with
  | false => rfl
  | true => have := (h.mp hc).2; omega

example : (5000#64).toInt < (5250#64).toInt ∧ (0 : Int) ≤ (9223372036854775807#64).toInt := by decide

/-- outside the region both directions of the disagreement occur (`w = 64`): start `LONG_MAX − 5`,
interval 10, clock `LONG_MIN + 10` (16 ticks later, across the wrap): due, while the integer rule
says not due; start `LONG_MIN`, interval 5, clock `LONG_MAX`: not due (elapsed reads −1), while the
integer rule says due -/
theorem stimer_transfer_outside_witness :
    let a : STimerN 64 := ⟨9223372036854775802#64, 10#64, true⟩
    let b : STimerN 64 := ⟨BitVec.ofInt 64 (-9223372036854775808), 5#64, true⟩
    stimerCheckN a (BitVec.ofInt 64 (-9223372036854775798)) = true ∧
    ¬ (a.start.toInt + a.interval.toInt ≤ (BitVec.ofInt 64 (-9223372036854775798)).toInt) ∧
    stimerCheckN b 9223372036854775807#64 = false ∧
    b.start.toInt + b.interval.toInt ≤ (9223372036854775807#64).toInt := by
  decide

/-- why `stimer_check` must compare the ELAPSED time with the interval and not the clock with
`stimer_finish()`: for the parked timer (start 5250, interval `LONG_MAX`, clock 5000) the code's
form says "not due", the form `(long)(curtime − stimer_finish(t)) ≥ 0` says "due" -/
theorem stimer_check_via_finish_witness :
    let t : STimerN 64 := ⟨5250#64, 9223372036854775807#64, true⟩
    stimerCheckN t 5000#64 = false ∧ (0 : Int) ≤ (5000#64 - stimerFinishN t).toInt := by
  decide

/-- `stimer_finish()` is `start + interval` over the integers reduced modulo 2^w (as `unsigned long`) -/
theorem stimer_finish_eq {w : Nat} (t : STimerN w) :
    ((stimerFinishN t).toNat : Int) = (t.start.toInt + t.interval.toInt) % 2 ^ w := by
  have e : stimerFinishN t = BitVec.ofInt w (t.start.toInt + t.interval.toInt) := by
    simp [stimerFinishN, BitVec.ofInt_add]
  rw [e, BitVec.toNat_ofInt, cast_two_pow]
  have : (0 : Int) < 2 ^ w := Int.pow_pos (by decide)
  have := Int.emod_nonneg (t.start.toInt + t.interval.toInt) (Int.ne_of_gt this)
  omega

/-- No drift in the `w`-bit arithmetic itself, for EVERY sequence of polls (no window): after any
polls `STIMER_PERIODIC` has advanced the start point by exactly (number of firings) · interval
modulo 2^w, and has changed neither the interval nor the planned flag -/
theorem stimer_periodicN_no_drift {w : Nat} (t : STimerN w) (ts : List (BitVec w)) :
    (stimerPollsN t ts).1.start = t.start + BitVec.ofNat w ((stimerPollsN t ts).2.count true) * t.interval ∧
    (stimerPollsN t ts).1.interval = t.interval ∧ (stimerPollsN t ts).1.planed = t.planed := by
  induction ts generalizing t with
  | nil => simp [stimerPollsN]
  | cons now ts ih =>
    simp only [stimerPollsN]
    by_cases hc : stimerCheckN t now = true
    · have e : stimerPeriodicN t now = (stimerSwiftN t, true) := by simp [stimerPeriodicN, hc]
      rw [e]
      obtain ⟨h1, h2, h3⟩ := ih (stimerSwiftN t)
      simp only [stimerSwiftN] at h1 h2 h3 ⊢
      refine ⟨?_, h2, h3⟩
      rw [h1, List.count_cons_self]
      generalize List.count true _ = n
      have : BitVec.ofNat w (n + 1) = BitVec.ofNat w n + 1#w := by simp [BitVec.ofNat_add]
      rw [this, BitVec.add_mul, BitVec.one_mul]
      ac_rfl
    · have e : stimerPeriodicN t now = (t, false) := by simp [stimerPeriodicN, hc]
      rw [e]
      obtain ⟨h1, h2, h3⟩ := ih t
      refine ⟨?_, h2, h3⟩
      rw [h1]; simp

/-! ### `timer_spec<T>` at every width, signed and unsigned (`WrapN.lean`)

`w = 64, sgn = true`: the shipped `timer_manager`; `w = 32, sgn = true`: `timer_spec<int32_t>` (a
1 kHz tick wraps after 24.8 days); `w = 32, sgn = false`: `timer_spec<uint32_t>`.  The window
precondition is the one of `wrap_refines` with `2^31` replaced by `2^(w−1)`. -/

/-- one `exec(now)`: the `w`-bit manager makes exactly the callbacks of the unbounded-time manager
(deadlines modulo 2^w), ends in its state modulo 2^w and returns when it returns -/
theorem wrapN_exec_refines {w : Nat} (sgn : Bool) {G D now : Int} (P : ParamsN w G D) (cb : Cb)
    (hcb : CbWin G D now cb) (fuel k : Nat) (m : Mgr) (hw : Win G D now m) :
    execLoopN sgn (cbToN w cb) (wrN w now) fuel k (m.toN w) =
      ((execLoop cb now fuel k m).1.toN w, (execLoop cb now fuel k m).2.1.map (Fire.toN w),
        (execLoop cb now fuel k m).2.2) :=
  (execLoop_simN sgn P cb hcb fuel k m hw).1

/-- whole histories, crossing the wrap of the counter any number of times -/
theorem wrapN_refines {w : Nat} (sgn : Bool) {G D : Int} (P : ParamsN w G D) (ops : List Op) (lo c : Int)
    (m : Mgr) (hm : WF m) (hj : J D lo c m) (hc : c ≤ lo + G) (hh : HistWin G D lo c ops)
    (hfin : (runOps m ops).2.2 = true) :
    runOpsN sgn (m.toN w) (ops.map (Op.toN w)) =
      ((runOps m ops).1.toN w, (runOps m ops).2.1.map (fun fs => fs.map (Fire.toN w)), true) :=
  runOps_simN sgn P ops lo c m hm hj hc hh hfin

/-- … hence from a fresh manager the callbacks and the pending set are those of the REFERENCE
scheduler run in unbounded time on the same history, read modulo 2^w: due exactly when due, in
deadline order, across the wrap — for int32_t, int64_t, uint32_t and every other width -/
theorem wrapN_refines_reference {w : Nat} (sgn : Bool) {G D : Int} (P : ParamsN w G D) (ops : List Op)
    (t0 : Int) (hh : HistWin G D t0 t0 ops) (hfin : (runOps Mgr.init ops).2.2 = true) :
    ∃ (fss : List (List Fire)) (m' : Mgr),
      Ref.Hist Ref.none ops fss (absM m') ∧
      runOpsN sgn MgrN.init (ops.map (Op.toN w)) = (m'.toN w, fss.map (fun fs => fs.map (Fire.toN w)), true) := by
  refine ⟨(runOps Mgr.init ops).2.1, (runOps Mgr.init ops).1,
    refines_reference_init ops (HistWin.valid ops t0 t0 hh) hfin, ?_⟩
  exact wrapN_refines sgn P ops t0 t0 Mgr.init init_wf (by intro i hi; simp [Mgr.init] at hi)
    (by have := P.g0; omega) hh hfin

-- the parameters exist for the three instances (gap and interval up to 2^30 resp. 2^62 ticks)
example : ParamsN 32 (2 ^ 30) (2 ^ 30 - 1) := ⟨by decide, by decide, by decide⟩
example : ParamsN 64 (2 ^ 62) (2 ^ 62 - 1) := ⟨by decide, by decide, by decide⟩
-- and a history that starts 10 ticks before the wrap of int32_t (2^31 = 2147483648) and crosses it
example : HistWin (2 ^ 30) (2 ^ 30 - 1) 2147483638 2147483638
    [Op.plan 0 2147483638 5, Op.exec 2147483644 (fun _ _ => []) 9, Op.exec 2147483700 (fun _ _ => []) 99] := by
  refine ⟨by omega, by omega, by omega, by omega, by omega, by omega, ?_, by omega, by omega, ?_, trivial⟩
  · intro k i a ha; simp at ha
  · intro k i a ha; simp at ha

/-- NO DRIFT ACROSS THE WRAP: a planned periodic timer (deadline `f`, interval `d`) that no later
operation names fires, on the `w`-bit manager, over the whole history and however often the
counter wraps, exactly at `f, f+d, …, f+(n−1)·d` read modulo 2^w — the k-th firing at start + k·interval
exactly —, stays planned, and `n` counts the deadlines up to the latest `exec` time -/
theorem wrapN_no_drift {w : Nat} (sgn : Bool) {G D : Int} (P : ParamsN w G D) (i : Nat) (ops : List Op)
    (lo c : Int) (m : Mgr) (hm : WF m) (hj : J D lo c m) (hc : c ≤ lo + G) (hh : HistWin G D lo c ops)
    (hu : ∀ op ∈ ops, OpUntouched i op) (hfin : (runOps m ops).2.2 = true) (hi : i ∈ m.lst) :
    ∃ n : Nat,
      ((runOpsN sgn (m.toN w) (ops.map (Op.toN w))).2.1.flatten.filter (fun f => f.id = i)).map (·.deadline) =
        (List.range n).map (fun (q : Nat) => wrN w ((m.tm i).finish + (q : Int) * (m.tm i).interval)) ∧
      (runOpsN sgn (m.toN w) (ops.map (Op.toN w))).1.tm i =
        ⟨wrN w ((m.tm i).start + (n : Int) * (m.tm i).interval), wrN w (m.tm i).interval⟩ ∧
      i ∈ (runOpsN sgn (m.toN w) (ops.map (Op.toN w))).1.lst ∧
      (∀ t ∈ execTimes ops, t < (m.tm i).finish + (n : Int) * (m.tm i).interval) ∧
      (0 < n → ∃ t ∈ execTimes ops, (m.tm i).finish + ((n : Int) - 1) * (m.tm i).interval ≤ t) := by
  obtain ⟨n, h1, h2, h3, h4, h5⟩ := no_drift_history i ops m hm (HistWin.valid ops lo c hh) hu hfin hi
  refine ⟨n, ?_, ?_, ?_, h4, h5⟩
  · rw [wrapN_refines sgn P ops lo c m hm hj hc hh hfin]
    simp only
    rw [fires_toN, h1, List.map_map]
    rfl
  · rw [wrapN_refines sgn P ops lo c m hm hj hc hh hfin]
    show ((runOps m ops).1.tm i).toN w = _
    rw [h2]; rfl
  · rw [wrapN_refines sgn P ops lo c m hm hj hc hh hfin]
    exact h3

/-- `minimal_interval` is the unbounded one modulo 2^w (no precondition) -/
theorem wrapN_minimal_interval {w : Nat} (m : Mgr) (now : Int) :
    (m.toN w).minimalInterval (wrN w now) = (m.minimalInterval now).map (wrN w) := by
  unfold MgrN.minimalInterval Mgr.minimalInterval
  show (match m.lst with | [] => none | i :: _ => some (((m.tm i).toN w).finish - wrN w now)) = _
  cases m.lst with
  | nil => rfl
  | cons i rest => simp [wrN_sub]

/-- signed and unsigned instances differ OUTSIDE the window: a start 10 ticks in the future is not
due on `timer_spec<int32_t>` (the elapsed time reads −10) and fires at once on `timer_spec<uint32_t>` -/
theorem wrapN_signed_future_start_witness :
    (execLoopN (w := 32) true (fun _ _ => []) (wrN 32 100) 1 0
        (MgrN.init.plan3 0 (wrN 32 110) (wrN 32 1073741824))).2.1 = [] ∧
    (execLoopN (w := 32) false (fun _ _ => []) (wrN 32 100) 1 0
        (MgrN.init.plan3 0 (wrN 32 110) (wrN 32 1073741824))).2.1 = [⟨0, wrN 32 1073741934⟩] := by
  decide

/-- the window cannot be widened to "gap < 2^(w−1) and interval < 2^(w−1)" on the signed instance
either: the overdue timer 0 is starved by a timer planned 2^31 − 2 ticks later with interval 2^31 − 1 -/
theorem wrapN_window_needed_witness :
    let m := ((MgrN.init (w := 32)).plan3 0 (wrN 32 0) (wrN 32 5)).plan3 1 (wrN 32 2147483646) (wrN 32 2147483647)
    m.lst = [1, 0] ∧ (m.tm 0).check true (wrN 32 2147483646) = true ∧
    (execLoopN true (fun _ _ => []) (wrN 32 2147483646) 5 0 m).2 = ([], true) := by
  decide

/-! ### time going backwards, time jumping far ahead -/

/-- `exec` with a time that is NOT LATER than the time of an `exec` that has returned (time going
backwards, or the same time again) makes no callback and changes nothing — whatever the callbacks
would do.  (Far AHEAD: `catch_up` / `catch_up_count` — one firing per missed period, `⌊(now−d)/iv⌋+1`
of them, at `d, d+iv, …`; "without drift" requires exactly that the k-th deadline is `d + k·iv`
however late `exec` comes.) -/
theorem exec_backwards_no_fire (m : Mgr) (now0 now : Int) (h0 : ∀ i ∈ m.lst, now0 < (m.tm i).finish)
    (hle : now ≤ now0) (cb : Cb) (fuel k : Nat) : execLoop cb now fuel k m = (m, [], true) := by
  have hd : m.headDue now = none := by
    unfold Mgr.headDue
    split
    · rfl
    · rename_i i rest hl
      have := h0 i (by rw [hl]; simp)
      have hc : (m.tm i).check now = false := by
        simp only [Timer.check, Timer.finish, decide_eq_false_iff_not] at this ⊢
        omega
      simp [hc]
  cases fuel with
  | zero => simp [execLoop, hd]
  | succ n => simp [execLoop, hd]

/-- … in particular after any `exec(now0)` that returned (`all_due_fire` gives the hypothesis) -/
theorem exec_twice_backwards (cb cb' : Cb) (now0 now : Int) (fuel fuel' k k' : Nat) (m : Mgr) (hm : WF m)
    (hcb : CbPos cb) (hfin : (execLoop cb now0 fuel k m).2.2 = true) (hle : now ≤ now0) :
    execLoop cb' now fuel' k' (execLoop cb now0 fuel k m).1 = ((execLoop cb now0 fuel k m).1, [], true) :=
  exec_backwards_no_fire _ now0 now (all_due_fire cb now0 fuel k m hm hcb hfin) hle cb' fuel' k'

example : WF Mgr.init ∧ CbPos (fun _ _ => []) ∧ (execLoop (fun _ _ => []) 5 3 0 Mgr.init).2.2 = true :=
  ⟨init_wf, by intro k i j s iv h; simp at h, by decide⟩


/-! ### the repaired findings: re-entrant `exec`, `minimal_interval` of an empty manager (`Guard.lean`) -/

/-- RE-ENTRANT `exec` (repaired C16-nested-exec-refires): with callbacks that make plan / unplan
calls and call `exec(now')` of the same manager ANYWHERE in between — with any times, while their own
timer is still planned and due — `exec` is exactly the `exec` of the same callbacks without those
calls.  So every theorem above (`not_early`, `all_due_fire`, `order_in_exec*`, `rearm_*`, `catch_up`,
`refines_reference_exec` …) holds for such callbacks; in particular no timer's callback is run twice
for one deadline. -/
theorem nested_exec_ignored (cb : Nat → Nat → List ActG) (fuel : Nat) (now : Int) (k : Nat) (m : Mgr) :
    execG (fun k i => (cb k i).map ActG.toX) fuel now k m =
      ((execLoop (fun k i => (cb k i).filterMap ActG.base?) now fuel k m).1,
       (execLoop (fun k i => (cb k i).filterMap ActG.base?) now fuel k m).2.1,
       statOfBool (execLoop (fun k i => (cb k i).filterMap ActG.base?) now fuel k m).2.2) :=
  execG_guard_aux cb fuel now k m

/-- the scenario of `nested_exec_refires_witness` on the repaired code: timer 0 (deadline 5) calls
`exec(5)` from its callback — one callback, and it is re-armed at 10 -/
theorem nested_exec_no_refire_witness :
    let r := execG (fun k _ => if k = 0 then [ActX.exec 5] else []) 5 5 0 ((Mgr.init.plan3 0 0 5).plan3 1 0 6)
    r.2.1 = [⟨0, 5⟩] ∧ r.2.2 = Stat.done ∧ (r.1.tm 0).finish = 10 ∧ r.1.lst = [1, 0] := by
  decide

/-- `minimal_interval(now)` (repaired C16-minimal-interval-empty) at FULL strength, for every
manager: when nothing is planned the reference has nothing pending and the result is the "never"
value `numeric_limits<difftime_t>::max()`; otherwise it is the reference's time to the earliest
pending deadline -/
theorem minimal_interval_total (dmax : Int) (m : Mgr) (hm : WF m) (now : Int) :
    (m.empty = true → m.minimalIntervalC dmax now = dmax ∧ (absM m).IsEmpty) ∧
    (m.empty = false → (absM m).Earliest (m.minimalIntervalC dmax now + now)) := by
  cases hl : m.lst with
  | nil =>
    have he : m.empty = true := by simp [Mgr.empty, hl]
    refine ⟨fun _ => ⟨by simp [Mgr.minimalIntervalC, hl], (empty_eq m).mp he⟩, fun h => ?_⟩
    rw [he] at h; exact absurd h (by decide)
  | cons i rest =>
    have he : m.empty = false := by simp [Mgr.empty, hl]
    refine ⟨fun h => by rw [he] at h; exact absurd h (by decide), fun _ => ?_⟩
    have h1 : m.minimalInterval now = some ((m.tm i).finish - now) := by simp [Mgr.minimalInterval, hl]
    have h2 : m.minimalIntervalC dmax now = (m.tm i).finish - now := by simp [Mgr.minimalIntervalC, hl]
    rw [h2]
    exact minimal_interval_eq m hm now _ h1


/-! ### `igris::delegate` (model `Delegate.lean`): the delegate invoked is the one stored, with its
argument, exactly once -/

/-- for every way of constructing an armed delegate, `invoke(arg)` makes exactly ONE call: of the
stored function with `arg`; of the stored external function with the stored object pointer (null
allowed) and `arg`; of the stored member function on the stored object with `arg` -/
theorem delegate_invokes_stored (arg : Int) :
    (∀ f, f ≠ 0 → (Dlg.ofFunction f).invoke arg = [Call.function f arg]) ∧
    (∀ f obj, f ≠ 0 → (Dlg.ofExt f obj).invoke arg = [Call.ext f obj arg]) ∧
    (∀ fn adj obj, fn ≠ 0 → obj ≠ 0 → adj ≠ BitVec.allOnes 64 →
      (Dlg.ofMethod fn adj obj).invoke arg = [Call.method fn adj obj arg]) := by
  refine ⟨fun f hf => ?_, fun f obj hf => ?_, fun fn adj obj hf ho ha => ?_⟩
  · simp [Dlg.invoke, Dlg.ofFunction, Dlg.armed, hf]
  · simp [Dlg.invoke, Dlg.ofExt, Dlg.armed, hf]
  · have ha' : ¬ adj = 18446744073709551615#64 := ha
    simp [Dlg.invoke, Dlg.ofMethod, Dlg.armed, hf, ho, ha']

example : (1 : Nat) ≠ 0 ∧ (0#64) ≠ BitVec.allOnes 64 := by decide

/-- an unarmed delegate (default constructed, cleaned, or after `invoke_and_reset`) calls nothing;
a copy calls exactly what the original calls; `invoke_and_reset` makes the call of the delegate as it
was and leaves it unarmed; `operator==` is "same stored target" -/
theorem delegate_unarmed_copy_reset (d : Dlg) (arg : Int) :
    (d.clean.invoke arg = [] ∧ d.clean.armed = false) ∧
    d.copy.invoke arg = d.invoke arg ∧
    ((d.invokeAndReset arg).2 = d.invoke arg ∧ (d.invokeAndReset arg).1.invoke arg = [] ∧
      (d.invokeAndReset arg).1.armed = false) ∧
    (∀ e : Dlg, d.eq e = true ↔ d = e) := by
  refine ⟨⟨by simp [Dlg.clean, Dlg.invoke, Dlg.armed], by simp [Dlg.clean, Dlg.armed]⟩, rfl,
    ⟨rfl, by simp [Dlg.invokeAndReset, Dlg.clean, Dlg.invoke, Dlg.armed],
      by simp [Dlg.invokeAndReset, Dlg.clean, Dlg.armed]⟩, fun e => ?_⟩
  cases d; cases e
  simp [Dlg.eq, and_assoc]
  constructor
  · rintro ⟨a, b, c⟩; exact ⟨c, a, b⟩
  · rintro ⟨a, b, c⟩; exact ⟨b, c, a⟩

/-- exactly once per due deadline: a timer whose `execute()` is `dlg(arg)` makes, in one `exec`, as
many calls of the stored target as the model makes callbacks of that timer -/
theorem delegate_once_per_due (d : Dlg) (arg : Int) (c : Call) (hd : d.invoke arg = [c]) (fires : List Fire) :
    fires.flatMap (fun _ => d.invoke arg) = List.replicate fires.length c := by
  induction fires with
  | nil => rfl
  | cons f fs ih =>
    rw [List.flatMap_cons, ih, hd, List.length_cons, List.replicate_succ]
    rfl

/-- where the representation does NOT do what was stored (not reachable through `make_delegate`
with a valid object): a member function stored with a NULL object pointer is called as a plain
function (the object test decides METHOD / FUNCTION) -/
theorem delegate_method_null_object_witness :
    (Dlg.ofMethod 7 0 0).invoke 1 = [Call.function 7 1] := by decide


/-! ### `check()` of the manager at the timer level: exact admissible regions -/

/-- signed instances (`int32_t`, `int64_t`, `timer_spec<uint32_t, int32_t>`): `check` agrees with
the integer rule `start + interval ≤ curtime` (fields read as signed values) EXACTLY in the
region of `stimer_transfer_iff` — it is the same rule -/
theorem timer_check_signed_transfer_iff {w : Nat} (hw : 0 < w) (t : TimerN w) (c : BitVec w) :
    (t.check true c = true ↔ t.start.toInt + t.interval.toInt ≤ c.toInt) ↔
      ((-(2 ^ (w - 1)) ≤ c.toInt - t.start.toInt ∧ c.toInt - t.start.toInt < 2 ^ (w - 1)) ∨
       (2 ^ (w - 1) ≤ c.toInt - t.start.toInt ∧ t.interval.toInt ≤ c.toInt - t.start.toInt - 2 ^ w) ∨
       (c.toInt - t.start.toInt < -(2 ^ (w - 1)) ∧ c.toInt - t.start.toInt + 2 ^ w < t.interval.toInt)) := by
  have e : t.check true c = stimerCheckN ⟨t.start, t.interval, true⟩ c := by
    simp [TimerN.check, TimerN.ivalue, TimerN.elapsed, stimerCheckN]
  have h := stimer_transfer_iff hw ⟨t.start, t.interval, true⟩ c
  simp only [true_and, Bool.true_eq_false, false_or] at h
  rw [e]
  exact h

/-- unsigned instance (`uint32_t`): `check` agrees with `start + interval ≤ curtime` on the
unsigned values EXACTLY when the counter has not wrapped since `start` (`start ≤ curtime`), or it
has and the interval is larger than the wrapped elapsed time -/
theorem timer_check_unsigned_transfer_iff {w : Nat} (t : TimerN w) (c : BitVec w) :
    (t.check false c = true ↔ t.start.toNat + t.interval.toNat ≤ c.toNat) ↔
      (t.start.toNat ≤ c.toNat ∨ c.toNat + 2 ^ w - t.start.toNat < t.interval.toNat) := by
  have hs := t.start.isLt
  have hc := c.isLt
  have hi := t.interval.isLt
  have hsub : (c - t.start).toNat = if t.start.toNat ≤ c.toNat then c.toNat - t.start.toNat
      else c.toNat + 2 ^ w - t.start.toNat := by
    rw [BitVec.toNat_sub]
    split
    · rename_i h
      have : 2 ^ w - t.start.toNat + c.toNat = (c.toNat - t.start.toNat) + 2 ^ w := by omega
      rw [this, Nat.add_mod_right, Nat.mod_eq_of_lt (by omega)]
    · rename_i h
      rw [Nat.mod_eq_of_lt (by omega)]; omega
  simp only [TimerN.check, TimerN.ivalue, TimerN.elapsed, Bool.false_eq_true, if_false, decide_eq_true_eq,
    Int.ofNat_le, hsub]
  split <;> omega

-- both regions are inhabited on a 32-bit counter: before the wrap, and across it with a long interval
example : ((4294967290#32).toNat ≤ (4294967295#32).toNat) ∧
    ((5#32).toNat + 2 ^ 32 - (4294967290#32).toNat < (100#32).toNat) := by decide

end Igris.C16
