/-
  C16 — "Timers fire exactly when due, in deadline order, without drift."

  Property theorems over the model `IgrisModel/C16/Model.lean` (igris::timer_manager after the
  repair e79c48f, and stimer).  All statements are for EVERY manager state satisfying the
  invariant `WF` (which every history of plan/unplan/exec with positive intervals reaches:
  `sorted_inv`), EVERY `now`, EVERY callback behaviour `cb : Nat → Nat → List Action`
  (callback number → timer id → the plan/unplan calls it makes), EVERY fuel.

  Hypotheses that are really needed are named and visible:
  * `CbPos cb`        the callbacks plan with positive intervals (the property's "positive intervals");
  * `CbFuture now cb` the callbacks plan only deadlines `> now` — needed for termination ONLY
                      (`exec_terminates`; `exec_terminates_needs_future` shows a run that never
                      ends without it);
  * the hypothesis of `order_in_exec`: no callback plans a deadline earlier than the deadline
    of the timer it runs for.
  "Non-decreasing time" of the property text is not needed by any theorem: over `Int` the
  due rule `now - start ≥ interval` does not care where `now` comes from.
-/
import IgrisModel.C16.Refine
namespace Igris.C16

/-! ### sorted_inv -/

/-- The invariant (no double link, list sorted by deadline, planned intervals positive) holds
after EVERY history of plan / unplan / exec — whatever the callbacks do, whether or not an
`exec` ran out of fuel. -/
theorem sorted_inv (ops : List Op) (hv : ∀ op ∈ ops, OpValid op) (m : Mgr) (hm : WF m) :
    WF (runOps m ops).1 := by
  induction ops generalizing m with
  | nil => exact hm
  | cons op ops ih =>
    simp only [runOps]
    apply ih (fun o ho => hv o (List.mem_cons_of_mem _ ho))
    have hop := hv op (by simp)
    cases op with
    | plan i s iv => exact hm.plan3 i s iv hop
    | unplan i => exact hm.unplan i
    | exec now cb fuel => exact (execLoop_steps cb now fuel 0 m).wf hop hm

theorem init_wf : WF Mgr.init := ⟨List.nodup_nil, List.Pairwise.nil, by simp [Mgr.init]⟩

/-- in particular from the freshly constructed manager -/
theorem sorted_inv_init (ops : List Op) (hv : ∀ op ∈ ops, OpValid op) :
    Sorted (runOps Mgr.init ops).1.tm (runOps Mgr.init ops).1.lst :=
  (sorted_inv ops hv Mgr.init init_wf).sorted

/-- the invariant at every point of the `exec` loop (prefix of the loop = smaller fuel) -/
theorem sorted_inv_exec (cb : Cb) (now : Int) (fuel k : Nat) (m : Mgr) (hm : WF m) (hcb : CbPos cb) :
    WF (execLoop cb now fuel k m).1 :=
  (execLoop_steps cb now fuel k m).wf hcb hm

-- the hypotheses are satisfiable: two timers with equal deadlines, a callback that re-plans
example : WF ((Mgr.init.plan3 0 0 3).plan3 1 1 2) ∧ CbPos (fun _ _ => [Action.plan 0 7 2]) := by
  refine ⟨(init_wf.plan3 0 0 3 (by decide)).plan3 1 1 2 (by decide), ?_⟩
  intro k i j s iv h
  simp only [List.mem_singleton, Action.plan.injEq] at h
  omega

/-! ### not_early -/

/-- A callback never runs before its timer's deadline: every callback made by `exec(now)` has
`deadline ≤ now` (`deadline` = the timer's `start + interval` at that moment).
No hypothesis at all. -/
theorem not_early (cb : Cb) (now : Int) (fuel k : Nat) (m : Mgr) :
    ∀ f ∈ (execLoop cb now fuel k m).2.1, f.deadline ≤ now :=
  (execLoop_steps cb now fuel k m).not_early

/-! ### all_due_fire -/

/-- When `exec(now)` has returned, no planned timer has a deadline `≤ now`: everything that
was due has run (and has been re-armed past `now` or unplanned). -/
theorem all_due_fire (cb : Cb) (now : Int) (fuel k : Nat) (m : Mgr) (hm : WF m) (hcb : CbPos cb)
    (hfin : (execLoop cb now fuel k m).2.2 = true) :
    ∀ i ∈ (execLoop cb now fuel k m).1.lst, now < ((execLoop cb now fuel k m).1.tm i).finish :=
  none_due (sorted_inv_exec cb now fuel k m hm hcb) (execLoop_done cb now fuel k m hfin)

/-- Every planned timer whose deadline has passed runs during that `exec`: its callback is made
at exactly that deadline — unless an earlier callback of the same `exec` made a call naming
the timer (unplanned or re-planned it), which is the only way out. -/
theorem due_runs (cb : Cb) (now : Int) (fuel k : Nat) (m : Mgr) (hm : WF m) (hcb : CbPos cb)
    (hfin : (execLoop cb now fuel k m).2.2 = true) (i : Nat) (hi : i ∈ m.lst)
    (hdue : (m.tm i).finish ≤ now) :
    (∃ f ∈ (execLoop cb now fuel k m).2.1, f.id = i ∧ f.deadline = (m.tm i).finish) ∨
    (∃ n f a, (execLoop cb now fuel k m).2.1[n]? = some f ∧ a ∈ cb (k + n) f.id ∧ a.target = i) :=
  (execLoop_steps cb now fuel k m).due_runs hcb hm (execLoop_done cb now fuel k m hfin) i hi hdue

/-! ### order_in_exec -/

/-- Successive callbacks of one `exec`: the deadline does not decrease — unless the earlier of
the two callbacks itself planned the later timer at that earlier deadline. (Arbitrary callbacks.) -/
theorem order_in_exec_adjacent (cb : Cb) (now : Int) (fuel k : Nat) (m : Mgr) (hm : WF m) (hcb : CbPos cb)
    (n : Nat) (f g : Fire)
    (hf : (execLoop cb now fuel k m).2.1[n]? = some f)
    (hg : (execLoop cb now fuel k m).2.1[n + 1]? = some g) :
    f.deadline ≤ g.deadline ∨
    ∃ s iv, Action.plan g.id s iv ∈ cb (k + n) f.id ∧ g.deadline = s + iv :=
  (execLoop_steps cb now fuel k m).adjacent hcb hm n f g hf hg

/-- Callbacks within one `exec` run in non-decreasing deadline order, PROVIDED no callback
re-plans into the past: (`hnp`) the `n`-th callback, running for a timer with deadline `d`,
plans only deadlines `≥ d`. -/
theorem order_in_exec (cb : Cb) (now : Int) (fuel k : Nat) (m : Mgr) (hm : WF m) (hcb : CbPos cb)
    (hnp : ∀ n f, (execLoop cb now fuel k m).2.1[n]? = some f →
      ∀ j s iv, Action.plan j s iv ∈ cb (k + n) f.id → f.deadline ≤ s + iv) :
    ((execLoop cb now fuel k m).2.1.map (·.deadline)).Pairwise (· ≤ ·) := by
  apply chain_pairwise
  intro n a b h1 h2
  simp only [List.getElem?_map, Option.map_eq_some_iff] at h1 h2
  obtain ⟨f, hf, rfl⟩ := h1
  obtain ⟨g, hg, rfl⟩ := h2
  rcases order_in_exec_adjacent cb now fuel k m hm hcb n f g hf hg with h | ⟨s, iv, hmem, e⟩
  · exact h
  · rw [e]; exact hnp n f hf g.id s iv hmem

/-- in particular when the callbacks plan only into the future -/
theorem order_in_exec_future (cb : Cb) (now : Int) (fuel k : Nat) (m : Mgr) (hm : WF m) (hcb : CbPos cb)
    (hfut : CbFuture now cb) :
    ((execLoop cb now fuel k m).2.1.map (·.deadline)).Pairwise (· ≤ ·) := by
  apply order_in_exec cb now fuel k m hm hcb
  intro n f hf j s iv hmem
  have h1 := not_early cb now fuel k m f (List.mem_of_getElem? hf)
  have h2 := hfut (k + n) f.id j s iv hmem
  omega

/-- the hypothesis of `order_in_exec` cannot be dropped: the first callback plans timer 1 into
the past and the deadlines come out as 5, 2 -/
theorem order_in_exec_witness :
    ((execLoop (fun k _ => if k = 0 then [Action.plan 1 0 2] else []) 6 10 0
        (Mgr.init.plan3 0 0 5)).2.1.map (·.deadline)).take 2 = [5, 2] := by
  decide

/-! ### rearm -/

/-- The loop body for the due head `i`, callback calls `acts`:
* the callback left the timer planned and did not touch its start/interval ⇒ it is re-armed at
  exactly previous deadline + interval, same interval (no drift);
* the callback re-planned its own timer ⇒ it keeps exactly what the callback asked for;
* the callback unplanned it ⇒ it stays unplanned. -/
theorem rearm_left_alone (m : Mgr) (acts : List Action) (i : Nat)
    (hpl : i ∈ (runCb m acts).lst) (hsame : (runCb m acts).tm i = m.tm i) :
    i ∈ (execBody acts m i).lst ∧
    ((execBody acts m i).tm i).finish = (m.tm i).finish + (m.tm i).interval ∧
    ((execBody acts m i).tm i).interval = (m.tm i).interval := by
  unfold execBody
  rcases rearm_self (runCb m acts) i (m.tm i) with ⟨h, _⟩ | ⟨_, _, h3, h4⟩ | ⟨_, h, _, _⟩
  · exact absurd hpl h
  · exact ⟨h4, by rw [h3, shift_finish], by rw [h3, shift_interval]⟩
  · exact absurd hsame h

theorem rearm_replanned (m : Mgr) (acts : List Action) (i : Nat)
    (hpl : i ∈ (runCb m acts).lst) (hch : (runCb m acts).tm i ≠ m.tm i) :
    i ∈ (execBody acts m i).lst ∧ (execBody acts m i).tm i = (runCb m acts).tm i := by
  unfold execBody
  rcases rearm_self (runCb m acts) i (m.tm i) with ⟨h, _⟩ | ⟨_, h, _, _⟩ | ⟨_, _, h3, h4⟩
  · exact absurd hpl h
  · exact absurd h hch
  · exact ⟨h4, h3⟩

theorem rearm_unplanned (m : Mgr) (acts : List Action) (i : Nat) (hun : i ∉ (runCb m acts).lst) :
    execBody acts m i = runCb m acts :=
  rearm_not_mem _ i _ hun

/-- and a self re-plan `plan(i, s, iv)` as the callback's last word about `i` gives deadline
`s + iv` exactly (this is the clause the unrepaired code violated: it gave `s + 2·iv`) -/
theorem rearm_self_replan (m : Mgr) (acts : List Action) (i : Nat) (s iv : Int)
    (hpl : i ∈ (runCb m acts).lst) (hlast : (runCb m acts).tm i = ⟨s, iv⟩) (hne : m.tm i ≠ ⟨s, iv⟩) :
    ((execBody acts m i).tm i).finish = s + iv := by
  rw [(rearm_replanned m acts i hpl (by rw [hlast]; exact Ne.symm hne)).2, hlast]
  rfl

/-- Catch-up without drift.  A planned timer `i` (deadline `d`, interval `iv`) that no callback
touches fires in one `exec(now)` exactly at the deadlines `d, d+iv, …, d+(n-1)·iv` — one firing
per elapsed period — and is left planned with deadline `d + n·iv`, where `n` is determined by
`d + (n-1)·iv ≤ now < d + n·iv` (`n = 0` if `now < d`). -/
theorem catch_up (cb : Cb) (now : Int) (fuel k : Nat) (m : Mgr) (hm : WF m) (hcb : CbPos cb)
    (hfin : (execLoop cb now fuel k m).2.2 = true) (i : Nat) (hu : Untouched cb i) (hi : i ∈ m.lst) :
    ∃ n : Nat,
      ((execLoop cb now fuel k m).2.1.filter (fun f => f.id = i)).map (·.deadline) =
        (List.range n).map (fun (q : Nat) => (m.tm i).finish + (q : Int) * (m.tm i).interval) ∧
      (execLoop cb now fuel k m).1.tm i =
        ⟨(m.tm i).start + (n : Int) * (m.tm i).interval, (m.tm i).interval⟩ ∧
      i ∈ (execLoop cb now fuel k m).1.lst ∧
      now < (m.tm i).finish + (n : Int) * (m.tm i).interval ∧
      (0 < n → (m.tm i).finish + ((n : Int) - 1) * (m.tm i).interval ≤ now) := by
  have hs := execLoop_steps cb now fuel k m
  obtain ⟨n, h1, h2, h3⟩ := hs.catch_up i hu hi
  refine ⟨n, h1, h2, h3, ?_, ?_⟩
  · have := all_due_fire cb now fuel k m hm hcb hfin i h3
    rw [h2] at this
    simp only [Timer.finish] at this ⊢
    omega
  · intro hn
    -- the last firing of `i` was not early
    have hlast : (m.tm i).finish + ((n - 1 : Nat) : Int) * (m.tm i).interval ∈
        ((execLoop cb now fuel k m).2.1.filter (fun f => f.id = i)).map (·.deadline) := by
      rw [h1]
      exact List.mem_map.mpr ⟨n - 1, List.mem_range.mpr (by omega), rfl⟩
    obtain ⟨f, hf, hfd⟩ := List.mem_map.mp hlast
    have hne := not_early cb now fuel k m f (List.mem_filter.mp hf).1
    have e : ((n - 1 : Nat) : Int) = (n : Int) - 1 := by omega
    rw [e] at hfd
    omega

/-- the number of firings in `catch_up` as a quotient: `⌊(now - d)/iv⌋ + 1` for a due timer -/
theorem catch_up_count (now d iv : Int) (n : Nat) (hiv : 0 < iv) (hd : d ≤ now)
    (h1 : now < d + (n : Int) * iv) (h2 : 0 < n → d + ((n : Int) - 1) * iv ≤ now) :
    (n : Int) = (now - d) / iv + 1 := by
  have hn : 0 < n := by
    rcases Nat.eq_zero_or_pos n with e | e
    · subst e; simp at h1; omega
    · exact e
  have h2 := h2 hn
  have a : (n : Int) - 1 ≤ (now - d) / iv := by
    rw [Int.le_ediv_iff_mul_le hiv]; omega
  have b : (now - d) / iv < (n : Int) := by
    rw [Int.ediv_lt_iff_lt_mul hiv]; omega
  omega

-- `Untouched` is satisfiable together with callbacks that do act (on other timers)
example : Untouched (fun _ _ => [Action.unplan 1, Action.plan 2 0 1]) 0 := by
  intro k x a ha
  simp only [List.mem_cons, List.mem_nil_iff, or_false] at ha
  rcases ha with rfl | rfl <;> simp [Action.target]

/-! ### unplanned_never_fires -/

/-- A timer that is not planned when `exec` starts and that no callback plans does not fire in
that `exec`, and is still not planned afterwards. -/
theorem unplanned_never_fires (cb : Cb) (now : Int) (fuel k : Nat) (m : Mgr) (i : Nat)
    (hi : i ∉ m.lst) (hnp : ∀ k x s iv, Action.plan i s iv ∉ cb k x) :
    (∀ f ∈ (execLoop cb now fuel k m).2.1, f.id ≠ i) ∧ i ∉ (execLoop cb now fuel k m).1.lst :=
  (execLoop_steps cb now fuel k m).not_mem i hnp hi

/-- History form: once a timer is unplanned, it never fires during any later operation until
somebody plans it again. -/
theorem unplanned_never_fires_history (ops : List Op) (m : Mgr) (i : Nat)
    (hops : ∀ op ∈ ops, OpNoPlan i op) :
    ∀ fs ∈ (runOps (m.unplan i) ops).2.1, ∀ f ∈ fs, f.id ≠ i := by
  have key : ∀ (ops : List Op) (m : Mgr), (∀ op ∈ ops, OpNoPlan i op) → i ∉ m.lst →
      ∀ fs ∈ (runOps m ops).2.1, ∀ f ∈ fs, f.id ≠ i := by
    intro ops
    induction ops with
    | nil => intro m _ _ fs hfs; simp [runOps] at hfs
    | cons op ops ih =>
      intro m hops hi fs hfs
      simp only [runOps, List.mem_cons] at hfs
      have hop := hops op (by simp)
      have hrest := fun o ho => hops o (List.mem_cons_of_mem _ ho)
      have hstep : (∀ f ∈ (stepOp m op).2.1, f.id ≠ i) ∧ i ∉ (stepOp m op).1.lst := by
        cases op with
        | plan j s iv =>
          refine ⟨by simp [stepOp], ?_⟩
          simp only [stepOp, mem_plan3]
          rintro (h | h)
          · exact hop h.symm
          · exact hi h
        | unplan j =>
          refine ⟨by simp [stepOp], ?_⟩
          simp only [stepOp, mem_unplan]
          exact fun h => hi h.1
        | exec now cb fuel => exact unplanned_never_fires cb now fuel 0 m i hi hop
      rcases hfs with e | e
      · subst e; exact hstep.1
      · exact ih _ hrest hstep.2 fs e
  exact key ops _ hops (not_mem_unplan m i)

/-! ### exec_terminates -/

/-- `exec(now)` returns: with callbacks that plan only deadlines after `now`, the loop exits
after at most `lagSum now m` iterations (the sum over the planned timers of how far their
deadline lies behind `now`) -/
theorem exec_terminates (cb : Cb) (now : Int) (k : Nat) (m : Mgr) (hm : WF m) (hcb : CbPos cb)
    (hfut : CbFuture now cb) (fuel : Nat) (hfuel : lagSum now m ≤ fuel) :
    (execLoop cb now fuel k m).2.2 = true :=
  execLoop_terminates cb now fuel k m hm hcb hfut hfuel

/-- and the result does not depend on the fuel once the loop has exited -/
theorem exec_fuel_irrelevant (cb : Cb) (now : Int) (fuel fuel' k : Nat) (m : Mgr)
    (hfin : (execLoop cb now fuel k m).2.2 = true) (hle : fuel ≤ fuel') :
    execLoop cb now fuel' k m = execLoop cb now fuel k m :=
  execLoop_fuel_mono cb now fuel fuel' k m hfin hle

/-- `CbFuture` cannot be dropped from `exec_terminates`: with one timer (start 0, interval 1),
`now = 5` and callbacks that re-plan the timer one tick further into the past each time
(positive interval, so `WF` and `CbPos` hold), the loop is still running after ANY number of
iterations — the real `exec` does not return. -/
theorem exec_terminates_needs_future :
    WF (Mgr.init.plan3 0 0 1) ∧ CbPos pastCb ∧
    ∀ fuel, (execLoop pastCb 5 fuel 0 (Mgr.init.plan3 0 0 1)).2.2 = false := by
  refine ⟨init_wf.plan3 0 0 1 (by decide), ?_, ?_⟩
  · intro k i j s iv h
    simp only [pastCb, List.mem_singleton, Action.plan.injEq] at h
    omega
  · intro fuel
    exact pastCb_never fuel 0 _ (by decide) (by simp [Mgr.plan3, Mgr.plan, Mgr.unplan])

-- the hypotheses of `exec_terminates` are satisfiable by callbacks that do re-plan
example : CbFuture 10 (fun _ i => [Action.plan i 10 1, Action.unplan (i + 1)]) := by
  intro k i j s iv h
  simp only [List.mem_cons, Action.plan.injEq, List.mem_nil_iff, or_false, reduceCtorEq] at h
  omega

/-! ### refines_reference -/

/-- The pending set of the manager after `plan` / `unplan` is the reference's. -/
theorem refines_reference_plan (m : Mgr) (j : Nat) (s iv : Int) :
    absM (m.plan3 j s iv) = (absM m).plan j s iv := absM_plan3 m j s iv

theorem refines_reference_unplan (m : Mgr) (j : Nat) : absM (m.unplan j) = (absM m).unplan j :=
  absM_unplan m j

/-- Every returned `exec(now)` is an execution of the reference scheduler with the same
callbacks in the same order and the same resulting pending set: each callback is a pending
timer with the EARLIEST reference deadline, that deadline is `≤ now`, the reference re-arms /
drops / keeps the timer by its own rule (`Ref.fired`), and the reference stops only when
nothing pending is due. -/
theorem refines_reference_exec (cb : Cb) (now : Int) (fuel k : Nat) (m : Mgr) (hm : WF m) (hcb : CbPos cb)
    (hfin : (execLoop cb now fuel k m).2.2 = true) :
    Ref.Exec cb now k (absM m) (execLoop cb now fuel k m).2.1 (absM (execLoop cb now fuel k m).1) :=
  (execLoop_steps cb now fuel k m).refines hcb hm (execLoop_done cb now fuel k m hfin)

/-- Whole histories: the manager's pending set and its callbacks are those of the reference
scheduler run on the same history. -/
theorem refines_reference (ops : List Op) (hv : ∀ op ∈ ops, OpValid op) (m : Mgr) (hm : WF m)
    (hfin : (runOps m ops).2.2 = true) :
    Ref.Hist (absM m) ops (runOps m ops).2.1 (absM (runOps m ops).1) := by
  induction ops generalizing m with
  | nil => exact Ref.Hist.nil _
  | cons op ops ih =>
    simp only [runOps, Bool.and_eq_true] at hfin ⊢
    have hop := hv op (by simp)
    have hrest := fun o ho => hv o (List.mem_cons_of_mem _ ho)
    cases op with
    | plan i s iv =>
      have := ih hrest (m.plan3 i s iv) (hm.plan3 i s iv hop) hfin.2
      rw [absM_plan3] at this
      exact Ref.Hist.plan this
    | unplan i =>
      have := ih hrest (m.unplan i) (hm.unplan i) hfin.2
      rw [absM_unplan] at this
      exact Ref.Hist.unplan this
    | exec now cb fuel =>
      have h1 := refines_reference_exec cb now fuel 0 m hm hop hfin.1
      have hm' := sorted_inv_exec cb now fuel 0 m hm hop
      exact Ref.Hist.exec h1 (ih hrest _ hm' hfin.2)

/-- from the freshly constructed manager the reference starts with nothing pending -/
theorem refines_reference_init (ops : List Op) (hv : ∀ op ∈ ops, OpValid op)
    (hfin : (runOps Mgr.init ops).2.2 = true) :
    Ref.Hist Ref.none ops (runOps Mgr.init ops).2.1 (absM (runOps Mgr.init ops).1) := by
  have h := refines_reference ops hv Mgr.init init_wf hfin
  have e : absM Mgr.init = Ref.none := by
    funext i; simp [absM, Mgr.init, Ref.none]
  rwa [e] at h

/-- observables: `is_planned`, the deadline, `empty()`, `minimal_interval(now)` -/
theorem pending_eq (m : Mgr) (i : Nat) :
    (i ∈ m.lst ↔ absM m i ≠ none) ∧
    (i ∈ m.lst → absM m i = some ((m.tm i).finish, (m.tm i).interval)) :=
  ⟨absM_pending m i, fun h => by simp [absM, h]⟩

theorem empty_eq (m : Mgr) : m.empty = true ↔ (absM m).IsEmpty := absM_empty m

/-- `minimal_interval(now)` is the reference's time to the earliest pending deadline -/
theorem minimal_interval_eq (m : Mgr) (hm : WF m) (now v : Int) (h : m.minimalInterval now = some v) :
    (absM m).Earliest (v + now) := absM_minimal m now v hm h

/-- FULL statement that does NOT hold: "for every manager `minimal_interval(now)` is the
reference's time to the next deadline".  On an empty manager there is no next deadline and the
code reads `_start`/`_interval` through the list head (out of the manager object; recorded
finding C16-minimal-interval-empty).  `minimal_interval_eq` above is the `_partial` form (its
hypothesis `= some v` is exactly "not empty", see `minimal_interval_defined`); witness: -/
theorem minimal_interval_empty_witness : Mgr.init.empty = true ∧ ∀ now, Mgr.init.minimalInterval now = none :=
  ⟨rfl, fun _ => rfl⟩

theorem minimal_interval_defined (m : Mgr) (now : Int) :
    m.minimalInterval now = none ↔ m.empty = true := by
  unfold Mgr.minimalInterval Mgr.empty
  split <;> simp_all

/-! ### stimer -/

/-- the flag-style timer obeys the same due rule: due iff planned and the deadline
`start + interval` has been reached -/
theorem stimer_check_iff (t : STimer) (now : Int) :
    stimerCheck t now = true ↔ t.planed = true ∧ t.start + t.interval ≤ now := by
  simp only [stimerCheck, Bool.and_eq_true, decide_eq_true_eq]
  constructor <;> rintro ⟨h1, h2⟩ <;> exact ⟨h1, by omega⟩

/-- … which is the manager's `check()` for the same start / interval -/
theorem stimer_same_rule (t : STimer) (now : Int) (hp : t.planed = true) :
    stimerCheck t now = (Timer.check ⟨t.start, t.interval⟩ now) := by
  simp [stimerCheck, Timer.check, hp]

/-- no drift: after any sequence of polls the deadline is the initial deadline plus one interval
per firing, the interval and the planned flag are unchanged -/
theorem stimer_periodic_no_drift (t : STimer) (ts : List Int) :
    (stimerPolls t ts).1.start + (stimerPolls t ts).1.interval =
      t.start + t.interval + ((stimerPolls t ts).2.count true : Int) * t.interval ∧
    (stimerPolls t ts).1.interval = t.interval ∧ (stimerPolls t ts).1.planed = t.planed := by
  induction ts generalizing t with
  | nil => simp [stimerPolls]
  | cons now ts ih =>
    simp only [stimerPolls]
    by_cases hc : stimerCheck t now = true
    · have e : stimerPeriodic t now = (stimerSwift t, true) := by simp [stimerPeriodic, hc]
      rw [e]
      obtain ⟨h1, h2, h3⟩ := ih (stimerSwift t)
      simp only [stimerSwift] at h1 h2 h3 ⊢
      refine ⟨?_, h2, h3⟩
      rw [h1, List.count_cons_self, Int.natCast_add, Int.add_mul]
      omega
    · have e : stimerPeriodic t now = (t, false) := by simp [stimerPeriodic, hc]
      rw [e]
      obtain ⟨h1, h2, h3⟩ := ih t
      refine ⟨?_, h2, h3⟩
      rw [h1]
      simp

/-- a poll fires exactly when the timer is due, and then advances the deadline by exactly one interval -/
theorem stimer_periodic_rule (t : STimer) (now : Int) :
    ((stimerPeriodic t now).2 = true ↔ t.planed = true ∧ t.start + t.interval ≤ now) ∧
    ((stimerPeriodic t now).2 = true →
      (stimerPeriodic t now).1.start + (stimerPeriodic t now).1.interval = t.start + t.interval + t.interval) ∧
    ((stimerPeriodic t now).2 = false → (stimerPeriodic t now).1 = t) := by
  have h := stimer_check_iff t now
  unfold stimerPeriodic
  split
  · rename_i hc
    exact ⟨⟨fun _ => h.mp hc, fun _ => rfl⟩, fun _ => by simp [stimerSwift], fun e => by simp at e⟩
  · rename_i hc
    refine ⟨⟨fun e => by simp at e, fun e => absurd (h.mpr e) hc⟩, fun e => by simp at e, fun _ => rfl⟩

end Igris.C16
