/-
  C16 — igris/event/delegate.h : `igris::delegate<R, Args...>` as the code represents it (core Lean only).

    union { obj_t object; void *external_object; };
    union method_union { mtd_t method; struct { union { fnc_t function; extfnc_t external_function; };
                                                union { fnc_t attributes; uintptr_t external_attributes; }; } part; };

  A g++ pointer to member function is the pair (function address | vtable offset + 1, this-adjustment), so
  `method.method` overlays `part.function` (first word) and `part.attributes` (second word).  Pointers are
  numbers (0 = null); `uintptr_t` is `BitVec 64`.  What a call does is a `Call` record.
-/
namespace Igris.C16

structure Dlg where
  /-- `object` / `external_object` -/
  object : Nat := 0
  /-- `method.part.function` / `external_function` / first word of `method.method` -/
  fn : Nat := 0
  /-- `method.part.attributes` / `external_attributes` / second word of `method.method` -/
  attr : BitVec 64 := 0
deriving DecidableEq, Repr, Inhabited

/-- what `invoke` ends up calling -/
inductive Call where
  /-- `function(args...)` -/
  | function (fn : Nat) (arg : Int)
  /-- `(object->*method)(args...)` : method word, this-adjustment, object -/
  | method (fn : Nat) (adj : BitVec 64) (object : Nat) (arg : Int)
  /-- `external_function(external_object, args...)` -/
  | ext (fn : Nat) (object : Nat) (arg : Int)
deriving DecidableEq, Repr

namespace Dlg
/-- `clean()`: `object = 0; function = nullptr; attributes = 0;` (also the default constructor) -/
def clean (_ : Dlg) : Dlg := ⟨0, 0, 0⟩
/-- `delegate(const fnc_t func)` -/
def ofFunction (f : Nat) : Dlg := ⟨0, f, 0⟩
/-- `delegate(const extfnc_t func, void *obj)`: `external_attributes = -1` -/
def ofExt (f obj : Nat) : Dlg := ⟨obj, f, BitVec.allOnes 64⟩
/-- `delegate(R (T::*mtd)(Args...), T *ptr_obj)` : `method.method = horrible_cast(mtd)` -/
def ofMethod (mtdFn : Nat) (mtdAdj : BitVec 64) (obj : Nat) : Dlg := ⟨obj, mtdFn, mtdAdj⟩
/-- `armed()`: `method.part.function != nullptr` -/
def armed (d : Dlg) : Bool := d.fn != 0
/-- copy constructor / `operator=` : `object = d.object; method.method = d.method.method;` -/
def copy (d : Dlg) : Dlg := ⟨d.object, d.fn, d.attr⟩
/-- `operator==` : `method.method == b.method.method && object == b.object` -/
def eq (a b : Dlg) : Bool := a.fn == b.fn && a.attr == b.attr && a.object == b.object
/-- `invoke(args...)`:
```
if (!armed()) return R();
if (method.part.external_attributes == (uintptr_t)-1) return external_function(external_object, args...);
uint8_t type = object ? METHOD : FUNCTION;
if (type == METHOD) return (object->*method.method)(args...); else return method.part.function(args...);
``` -/
def invoke (d : Dlg) (arg : Int) : List Call :=
  if !d.armed then []
  else if d.attr = BitVec.allOnes 64 then [.ext d.fn d.object arg]
  else if d.object != 0 then [.method d.fn d.attr d.object arg]
  else [.function d.fn arg]
/-- `invoke_and_reset(args...)`: `copydlg = *this; clean(); return copydlg(args...);` -/
def invokeAndReset (d : Dlg) (arg : Int) : Dlg × List Call := (d.clean, d.copy.invoke arg)
end Dlg

end Igris.C16
