/-
  C16 — `timer_manager_basic<timer_spec<T>>` for an integral tick type `T` of ANY width, signed or
  unsigned, written the way the code (after fix-C16 "time arithmetic in the unsigned type") computes:

    using u = std::make_unsigned_t<time_t>;
    add(a, b)     = (time_t)((u)a + (u)b)                       (mod 2^w)
    sub(a, b)     = (difftime_t)(u)((u)a - (u)b)                (mod 2^w, then read as difftime_t)
    finish()      = add(_start, _interval)
    check(c)      = sub(c, _start) >= _interval
                      sgn = true  (int32_t, int64_t: difftime_t signed, same width):  signed comparison
                      sgn = false (uint32_t: difftime_t = uint32_t):                  unsigned comparison
    shift()       : _start = add(_start, _interval)
    earlier(a, b) = (make_signed_t<time_t>)(u)((u)a - (u)b) < 0      (every integral instance)
    minimal_interval(c) = sub(first().finish(), c)

  `w = 64, sgn = true` is the shipped `igris::timer_manager`, `w = 32, sgn = true` is
  `timer_spec<int32_t>` (a 1 kHz tick wraps after 24.8 days), `w = 32, sgn = false` is
  `timer_spec<uint32_t>` (= `Wrap.lean` with `Cmp.signedDiff`).  Core Lean only.
-/
import IgrisModel.C16.Wrap
namespace Igris.C16

structure TimerN (w : Nat) where
  start : BitVec w := 0
  interval : BitVec w := 0
deriving DecidableEq, Repr, Inhabited

namespace TimerN
variable {w : Nat}
/-- `finish(): return add(_start, _interval);` -/
def finish (t : TimerN w) : BitVec w := t.start + t.interval
/-- `sub(curtime, _start)` read as `difftime_t` -/
def elapsed (sgn : Bool) (t : TimerN w) (curtime : BitVec w) : Int :=
  if sgn then (curtime - t.start).toInt else ((curtime - t.start).toNat : Int)
/-- `_interval` as the value `difftime_t` holds -/
def ivalue (sgn : Bool) (t : TimerN w) : Int :=
  if sgn then t.interval.toInt else (t.interval.toNat : Int)
/-- `check(curtime): return sub(curtime, _start) >= _interval;` -/
def check (sgn : Bool) (t : TimerN w) (curtime : BitVec w) : Bool :=
  decide (t.ivalue sgn ≤ t.elapsed sgn curtime)
/-- `shift(): _start = add(_start, _interval);` -/
def shift (t : TimerN w) : TimerN w := { t with start := t.start + t.interval }
end TimerN

/-- `earlier(a, b)`: the difference of the deadlines read as signed is negative -/
def earlierN {w : Nat} (a b : BitVec w) : Bool := decide ((a - b).toInt < 0)

structure MgrN (w : Nat) where
  tm : Nat → TimerN w
  lst : List Nat

variable {w : Nat}

def MgrN.init : MgrN w := ⟨fun _ => {}, []⟩

def setTmN (tm : Nat → TimerN w) (i : Nat) (t : TimerN w) : Nat → TimerN w :=
  fun x => if x = i then t else tm x

def MgrN.unplan (m : MgrN w) (i : Nat) : MgrN w := { m with lst := m.lst.filter (· != i) }

def insertBeforeN (tm : Nat → TimerN w) (fin : BitVec w) (i : Nat) : List Nat → List Nat
  | [] => [i]
  | j :: rest =>
    if earlierN fin (tm j).finish then i :: j :: rest else j :: insertBeforeN tm fin i rest

def MgrN.plan (m : MgrN w) (i : Nat) : MgrN w :=
  let fin := (m.tm i).finish
  let m1 := m.unplan i
  { m1 with lst := insertBeforeN m1.tm fin i m1.lst }

def MgrN.plan3 (m : MgrN w) (i : Nat) (s iv : BitVec w) : MgrN w :=
  MgrN.plan { m with tm := setTmN m.tm i ⟨s, iv⟩ } i

inductive ActionN (w : Nat) where
  | unplan (j : Nat)
  | plan (j : Nat) (start interval : BitVec w)
deriving DecidableEq, Repr

def applyActN (m : MgrN w) : ActionN w → MgrN w
  | .unplan j => m.unplan j
  | .plan j s iv => m.plan3 j s iv

def runCbN (m : MgrN w) (acts : List (ActionN w)) : MgrN w := acts.foldl applyActN m

abbrev CbN (w : Nat) := Nat → Nat → List (ActionN w)

structure FireN (w : Nat) where
  id : Nat
  deadline : BitVec w
deriving DecidableEq, Repr

def MgrN.headDue (sgn : Bool) (m : MgrN w) (now : BitVec w) : Option Nat :=
  match m.lst with
  | [] => none
  | i :: _ => if (m.tm i).check sgn now then some i else none

def rearmN (m1 : MgrN w) (i : Nat) (t0 : TimerN w) : MgrN w :=
  if i ∈ m1.lst then
    let m2 := m1.unplan i
    let m3 : MgrN w := if m2.tm i = t0 then { m2 with tm := setTmN m2.tm i (m2.tm i).shift } else m2
    m3.plan i
  else m1

def execBodyN (acts : List (ActionN w)) (m : MgrN w) (i : Nat) : MgrN w :=
  rearmN (runCbN m acts) i (m.tm i)

def execLoopN (sgn : Bool) (cb : CbN w) (now : BitVec w) : Nat → Nat → MgrN w → MgrN w × List (FireN w) × Bool
  | 0, _, m => (m, [], (m.headDue sgn now).isNone)
  | fuel + 1, k, m =>
    match m.headDue sgn now with
    | none => (m, [], true)
    | some i =>
      let r := execLoopN sgn cb now fuel (k + 1) (execBodyN (cb k i) m i)
      (r.1, ⟨i, (m.tm i).finish⟩ :: r.2.1, r.2.2)

def MgrN.empty (m : MgrN w) : Bool := m.lst.isEmpty

/-- `minimal_interval(curtime)`: `sub(first().finish(), curtime)` as the bits of `difftime_t`
(`none`: the list is empty) -/
def MgrN.minimalInterval (m : MgrN w) (now : BitVec w) : Option (BitVec w) :=
  match m.lst with
  | [] => none
  | i :: _ => some ((m.tm i).finish - now)

inductive OpN (w : Nat) where
  | plan (i : Nat) (start interval : BitVec w)
  | unplan (i : Nat)
  | exec (now : BitVec w) (cb : CbN w) (fuel : Nat)

def stepOpN (sgn : Bool) (m : MgrN w) : OpN w → MgrN w × List (FireN w) × Bool
  | .plan i s iv => (m.plan3 i s iv, [], true)
  | .unplan i => (m.unplan i, [], true)
  | .exec now cb fuel => execLoopN sgn cb now fuel 0 m

def runOpsN (sgn : Bool) (m : MgrN w) : List (OpN w) → MgrN w × List (List (FireN w)) × Bool
  | [] => (m, [], true)
  | op :: ops =>
    let r := stepOpN sgn m op
    let r' := runOpsN sgn r.1 ops
    (r'.1, r.2.1 :: r'.2.1, r.2.2 && r'.2.2)

/-! ### reading an unbounded-time object modulo 2^w -/

/-- truncation of an unbounded tick value to the `w`-bit counter -/
def wrN (w : Nat) (x : Int) : BitVec w := BitVec.ofInt w x

def Timer.toN (w : Nat) (t : Timer) : TimerN w := ⟨wrN w t.start, wrN w t.interval⟩
def Mgr.toN (w : Nat) (m : Mgr) : MgrN w := ⟨fun i => (m.tm i).toN w, m.lst⟩
def Action.toN (w : Nat) : Action → ActionN w
  | .unplan j => .unplan j
  | .plan j s iv => .plan j (wrN w s) (wrN w iv)
def Fire.toN (w : Nat) (f : Fire) : FireN w := ⟨f.id, wrN w f.deadline⟩
def cbToN (w : Nat) (cb : Cb) : CbN w := fun k i => (cb k i).map (Action.toN w)
def Op.toN (w : Nat) : Op → OpN w
  | .plan i s iv => .plan i (wrN w s) (wrN w iv)
  | .unplan i => .unplan i
  | .exec now cb fuel => .exec (wrN w now) (cbToN w cb) fuel

/-! ### stimer.c, every function, in the arithmetic of a `w`-bit `long` (`Wrap.lean` has
`stimerCheckN / SwiftN / FinishN / PeriodicN`) -/

/-- `(long)((unsigned long)curtime - (unsigned long)timer->start)` -/
def stimerElapsedN (t : STimerN w) (curtime : BitVec w) : Int := (curtime - t.start).toInt

/-- `stimer_init`: `start = start; interval = interval; planed = 0;` -/
def stimerInitN (_ : STimerN w) (start interval : BitVec w) : STimerN w := ⟨start, interval, false⟩

/-- `stimer_plan`: `stimer_init(timer, start, interval); timer->planed = 1;` -/
def stimerPlanN (t : STimerN w) (start interval : BitVec w) : STimerN w :=
  { stimerInitN t start interval with planed := true }

/-- `stimer_start`: `timer->start = start; timer->planed = 1;` -/
def stimerStartN (t : STimerN w) (start : BitVec w) : STimerN w := { t with start := start, planed := true }

end Igris.C16
