// C06 harness, the generator (see C06_common.h)
#include "C06_common.h"

static long g_emitted = 0;
static void emit(const char *op, const bytes &f, const std::vector<Arg> &args, bool with_iso = false)
{
    if (args.size() > MAXARGS)
        return;
    Parsed P = classify(f, args);
    std::string key = finding_key(P, args);
    if (key == "skip")
        return;
    std::string line = hex(f);
    for (auto &a : args)
        line += " " + arg_str(a);
    printf("%s%s %s\n", key.empty() ? "" : ("@F:" + key + " ").c_str(), op, line.c_str());
    g_emitted++;
    if (with_iso && P.defined && !P.wide)
        printf("iso %s\n", line.c_str());
}

static const std::vector<long long> IVALS = {0, 1, -1, 42, -42, INT_MAX, INT_MIN, 255, 256, -128, 127, 128, -129, 65535, 65536, -32768, 32767, 32768, 7, 8, 9, 10, 100, -100, 0x7f00, 0xff00, 1000000, -999999};
static const std::vector<long long> LVALS = {0, 1, -1, 42, -42, LLONG_MAX, LLONG_MIN, 2147483648LL, -2147483648LL, -2147483649LL, 4294967295LL, 4294967296LL, 9223372036854775807LL, -9223372036854775807LL, 255, 256, 65536, 1000000000000LL, -1000000000000LL, 8, 10, 16};
static const std::vector<unsigned long long> PVALS = {0, 1, 0x1234, 0x7ffe12345678ull, 0xffffffffffffffffull, 0x8000000000000000ull, 0x1000000000000000ull, 0x0fffffffffffffffull, 0xdeadbeef};

static long long rnd_int(rng &r)
{
    if (r.chance(60)) return r.pick(IVALS);
    int bits = (int)r.range(1, 32);
    long long v = (long long)(r.next() & ((1ull << bits) - 1));
    return (int)(r.chance(40) ? -v : v);
}
static long long rnd_long(rng &r)
{
    if (r.chance(60)) return r.pick(LVALS);
    int bits = (int)r.range(1, 64);
    unsigned long long v = r.next() & (bits == 64 ? ~0ull : ((1ull << bits) - 1));
    return (long long)(r.chance(40) ? (0 - v) : v);
}
static bytes rnd_text(rng &r, size_t n, bool allow_high)
{
    bytes s(n);
    for (auto &c : s)
    {
        c = (uint8_t)r.range(32, 126);
        if (allow_high && r.chance(15)) c = (uint8_t)r.range(128, 255);
        if (r.chance(5)) c = (uint8_t)r.range(1, 31);
        if (c == '%') c = '_';
    }
    return s;
}
// a string argument for a directive whose effective precision is `prec` (-1: none)
static Arg rnd_str(rng &r, long prec)
{
    int mode = (int)r.below(prec >= 0 ? 7 : 4);
    switch (mode)
    {
    case 0: return AS(B(""), true);
    case 1: return AS(rnd_text(r, (size_t)r.range(1, 4), true), true);
    case 2: return AS(rnd_text(r, (size_t)r.range(5, 24), true), true);
    case 3: // unterminated allocation with an inner NUL
    {
        bytes s = rnd_text(r, (size_t)r.range(1, 8), true);
        s[r.below(s.size())] = 0;
        return AS(s, false);
    }
    case 4: return AS(rnd_text(r, (size_t)prec, true), false);                     // exactly `prec` bytes, no terminator
    case 5: return AS(rnd_text(r, (size_t)prec + (size_t)r.range(1, 5), true), false); // longer, no terminator
    default: return AS(rnd_text(r, (size_t)prec + (size_t)r.range(0, 3), true), true);
    }
}

struct Spec
{
    std::string flags, width, prec, len;
    char conv;
    long wstar = 0, pstar = 0; // values for `*`
};
// append the directive text and its arguments
static void put_dir(rng &r, const Spec &s, bytes &f, std::vector<Arg> &args)
{
    f.push_back('%');
    for (char c : s.flags) f.push_back((uint8_t)c);
    for (char c : s.width) f.push_back((uint8_t)c);
    if (s.width == "*") args.push_back(AI(s.wstar));
    for (char c : s.prec) f.push_back((uint8_t)c);
    if (s.prec == ".*") args.push_back(AI(s.pstar));
    for (char c : s.len) f.push_back((uint8_t)c);
    f.push_back((uint8_t)s.conv);
    long prec = -1;
    if (s.prec == ".*") prec = s.pstar >= 0 ? s.pstar : -1;
    else if (!s.prec.empty()) prec = atol(s.prec.c_str() + 1);
    bool wide = s.len == "l" || s.len == "ll" || s.len == "j" || s.len == "z" || s.len == "t";
    switch (s.conv)
    {
    case 'd': case 'i': case 'u': case 'o': case 'x': case 'X':
        args.push_back(wide ? AL(rnd_long(r)) : AI(rnd_int(r)));
        break;
    case 'c':
    {
        static const std::vector<long long> cv = {65, 0, 255, 256 + 66, -1, 128, 32, 126, 256, -256, 48};
        args.push_back(AI(r.chance(50) ? r.pick(cv) : r.range(33, 126)));
        break;
    }
    case 's':
        if (r.chance(2)) { Arg a; a.kind = 'n'; args.push_back(a); }
        else args.push_back(rnd_str(r, prec));
        break;
    case 'p':
        args.push_back(AP(r.chance(70) ? r.pick(PVALS) : r.next() >> r.below(64)));
        break;
    default:
        break;
    }
}

static const char *CONVS = "diuoxXcsp%";
static const char *const LENS_[] = {"", "hh", "h", "l", "ll", "j", "z", "t"};
static const std::vector<std::string> LENS(LENS_, LENS_ + 8);
static const char *const WIDTHS_[] = {"", "1", "7", "12", "*"};
static const std::vector<std::string> WIDTHS(WIDTHS_, WIDTHS_ + 5);
static const char *const PRECS_[] = {"", ".", ".0", ".1", ".5", ".*"};
static const std::vector<std::string> PRECS(PRECS_, PRECS_ + 6);
struct Around { const char *first, *second; };
static const Around AROUND[] = {{"", ""}, {"<", ">"}, {"a=", "."}, {"%%", " z"}, {"\t", "\n"}};

static std::string flags_of(rng &r, unsigned mask)
{
    std::string fl;
    const char *FL = "-+ #0";
    for (int b = 0; b < 5; b++)
        if (mask & (1u << b)) fl.push_back(FL[b]);
    // random order, occasionally a repeated flag
    for (size_t i = fl.size(); i > 1; i--) std::swap(fl[i - 1], fl[r.below(i)]);
    if (!fl.empty() && r.chance(10)) fl.push_back(fl[r.below(fl.size())]);
    return fl;
}

// a format of 1-3 mostly ISO-defined directives with literal text (as part (4))
static void rnd_format(rng &r, bytes &f, std::vector<Arg> &args)
{
    int nd = (int)r.range(1, 3);
    for (int d = 0; d < nd; d++)
    {
        bytes lit = rnd_text(r, (size_t)r.below(4), true);
        f.insert(f.end(), lit.begin(), lit.end());
        Spec s;
        s.conv = CONVS[r.below(10)];
        bool strict = r.chance(85);
        unsigned mask = (unsigned)r.below(32);
        if (strict)
        {
            if (strchr("diucsp", s.conv)) mask &= ~8u;
            if (strchr("csp", s.conv)) mask &= ~16u;
            if (s.conv == 'p') mask &= 1u;
            if (s.conv == '%') mask = 0;
        }
        s.flags = flags_of(r, mask);
        if (!(strict && s.conv == '%'))
        {
            int wk = (int)r.below(4);
            s.width = wk == 0 ? "" : wk == 1 ? "*" : std::to_string(r.range(1, 14));
            s.wstar = r.range(-14, 14);
            if (!(strict && (s.conv == 'c' || s.conv == 'p')))
            {
                int pk = (int)r.below(5);
                s.prec = pk == 0 ? "" : pk == 1 ? ".*" : pk == 2 ? "." : "." + std::to_string(r.range(0, 12));
                s.pstar = r.range(-2, 12);
            }
            if (!(strict && strchr("csp", s.conv)) && r.chance(50))
                s.len = LENS[r.below(LENS.size())];
        }
        if (args.size() + 3 > MAXARGS) break;
        put_dir(r, s, f, args);
    }
    bytes lit = rnd_text(r, (size_t)r.below(4), true);
    f.insert(f.end(), lit.begin(), lit.end());
}
// `op <n> <fmt> <args>` for the ops that carry a number (fd, fdv, sn, vsn)
static void emit_n(const char *op, long n, const bytes &f, const std::vector<Arg> &args)
{
    if (args.size() > MAXARGS)
        return;
#ifdef C06_NO_VSNPRINTF
    if (!strcmp(op, "vsn"))
        return;
#endif
    Parsed P = classify(f, args);
    if (!finding_key(P, args).empty())
        return;
    std::string line = hex(f);
    for (auto &a : args) line += " " + arg_str(a);
    printf("%s %ld %s\n", op, n, line.c_str());
    g_emitted++;
}
// the same with the number given as text (declared sizes up to SIZE_MAX)
static void emit_s(const char *op, const char *n, const bytes &f, const std::vector<Arg> &args)
{
    if (args.size() > MAXARGS)
        return;
#ifdef C06_NO_VSNPRINTF
    if (!strcmp(op, "vsn"))
        return;
#endif
    Parsed P = classify(f, args);
    if (!finding_key(P, args).empty())
        return;
    std::string line = hex(f);
    for (auto &a : args) line += " " + arg_str(a);
    printf("%s %s %s\n", op, n, line.c_str());
    g_emitted++;
}
// length of the output, for choosing buffer sizes around it (glibc; only a
// hint for the generator, 12 when ISO does not define the format)
static long out_len_hint(const bytes &f, const std::vector<Arg> &args)
{
    Parsed P = classify(f, args);
    if (!P.defined) return 12;
    bytes fz = f;
    fz.push_back(0);
    std::vector<Arg> a = args;
    std::vector<std::unique_ptr<exact_buf>> keep;
    for (auto &x : a)
        if (x.kind == 's' || x.kind == 'u')
        {
            bytes m = x.s;
            m.push_back(0);
            keep.emplace_back(new exact_buf(m));
            x.buf = keep.back().get();
        }
    Call g{W_GLIBC, nullptr, nullptr, 0};
    long n = dispatch(&g, (const char *)fz.data(), a, 0);
    for (auto &d : P.dirs)
        if (d.conv == 'p') n += 18; // igris' %p is longer than glibc's
    return n < 0 ? 12 : n;
}

static void gen_wrappers(rng &r, bool th)
{
    // (6) the remaining entry points: snprintf / vsnprintf (size argument:
    //     0, 1, around the length of the output, larger), fdprintf (variadic)
    static const char *const fixed_[] = {"", "a", "abc", "%d", "%5d|", "%-5d|", "x=%x", "%s", "%.3s|%c", "%%", "%p", "%lld %s"};
    for (std::string d : fixed_)
    {
        bytes f = B(d);
        Parsed P = classify(f, {});
        std::vector<Arg> args;
        for (char kd : P.need)
            args.push_back(kd == 'i' ? AI(r.pick(IVALS)) : kd == 'l' ? AL(r.pick(LVALS)) : kd == 'p' ? AP(r.pick(PVALS)) : AS(B("hello"), true));
        long n = out_len_hint(f, args);
        for (long size = 0; size <= n + 3; size++)
        {
            emit_n("sn", size, f, args);
            emit_n("vsn", size, f, args);
        }
        for (long lim = -1; lim <= n + 1; lim++)
            emit_n("fdv", lim, f, args);
    }
    // declared sizes that mean "large enough": around INT_MAX, 2^32, SIZE_MAX / 2, SIZE_MAX
    static const char *const huge_[] = {"4097", "2147483647", "2147483648", "4294967295", "4294967296", "9223372036854775807",
                                        "9223372036854775808", "18446744073709551614", "18446744073709551615"};
    for (std::string d : fixed_)
    {
        bytes f = B(d);
        Parsed P = classify(f, {});
        std::vector<Arg> args;
        for (char kd : P.need)
            args.push_back(kd == 'i' ? AI(r.pick(IVALS)) : kd == 'l' ? AL(r.pick(LVALS)) : kd == 'p' ? AP(r.pick(PVALS)) : AS(B("hello"), true));
        for (const char *h : huge_)
        {
            emit_s("sn", h, f, args);
            emit_s("vsn", h, f, args);
        }
    }
    long n6 = th ? 12000 : 1500;
    for (long k = 0; k < n6; k++)
    {
        bytes f;
        std::vector<Arg> args;
        rnd_format(r, f, args);
        long n = out_len_hint(f, args);
        if (k % 16 == 5)
        {
            emit_s(k % 32 == 5 ? "sn" : "vsn", huge_[r.below(sizeof huge_ / sizeof *huge_)], f, args);
            continue;
        }
        long size;
        switch ((int)r.below(6))
        {
        case 0: size = r.range(0, 2); break;
        case 1: size = n + r.range(-2, 2); break;
        case 2: size = n + 1; break; // exact fit
        case 3: size = r.range(0, n + 1); break;
        case 4: size = n + r.range(2, 40); break;
        default: size = r.range(0, 48); break;
        }
        if (size < 0) size = 0;
        switch ((int)(k % 4))
        {
        case 0: case 1: emit_n("sn", size, f, args); break;
        case 2: emit_n("vsn", size, f, args); break;
        default: emit_n("fdv", r.range(-1, n + 1), f, args); break;
        }
    }
}

// ---- round 3 generators ---------------------------------------------------
static Arg AW(const bytes &s) { Arg a; a.kind = 'w'; a.s = s; return a; }
static Arg AN(int slot) { Arg a; a.kind = 'N'; a.v = slot; return a; }
static std::string sub_text(const char *op, const char *n, const bytes &f, const std::vector<Arg> &args)
{
    std::string line = op;
    if (n) line += std::string(" ") + n;
    line += " " + hex(f);
    for (auto &a : args) line += " " + arg_str(a);
    return line;
}
static void put_n(rng &r, bytes &f, std::vector<Arg> &args, int &slot, bool decorated)
{
    static const char *const nl[] = {"", "hh", "h", "l", "ll", "j", "z", "t", "", "hh"};
    f.push_back('%');
    if (decorated)
    {
        // flags, a width, a precision on %n: undefined in ISO, parsed and ignored by the code
        static const char *const deco[] = {"-", "0", "5", "#", ".3", "+ ", "12.4"};
        for (const char *c = deco[r.below(7)]; *c; c++) f.push_back((uint8_t)*c);
    }
    for (const char *c = nl[r.below(10)]; *c; c++) f.push_back((uint8_t)*c);
    f.push_back('n');
    args.push_back(AN(slot++));
}
// one strict (ISO-defined) directive as in rnd_format
static void put_rnd_dir(rng &r, bytes &f, std::vector<Arg> &args, long maxw)
{
    Spec s;
    s.conv = CONVS[r.below(10)];
    unsigned mask = (unsigned)r.below(32);
    if (strchr("diucsp", s.conv)) mask &= ~8u;
    if (strchr("csp", s.conv)) mask &= ~16u;
    if (s.conv == 'p') mask &= 1u;
    if (s.conv == '%') mask = 0;
    s.flags = flags_of(r, mask);
    if (s.conv != '%')
    {
        int wk = (int)r.below(4);
        s.width = wk == 0 ? "" : wk == 1 ? "*" : std::to_string(r.range(1, maxw));
        s.wstar = r.range(-maxw, maxw);
        if (!(s.conv == 'c' || s.conv == 'p'))
        {
            int pk = (int)r.below(5);
            s.prec = pk == 0 ? "" : pk == 1 ? ".*" : pk == 2 ? "." : "." + std::to_string(r.range(0, 12));
            s.pstar = r.range(-2, 12);
        }
        if (!strchr("csp", s.conv) && r.chance(50)) s.len = LENS[r.below(LENS.size())];
    }
    put_dir(r, s, f, args);
}

static void gen_round3(rng &r, bool th)
{
    printf("consts\n");
    for (int k = 0; k < NPREMAIN; k++) printf("premain %d %s\n", k, PREMAIN[k]);

    // (7) %n: every length modifier at the counts where the converted value changes
    {
        static const char *const nl[] = {"", "hh", "h", "l", "ll", "j", "z", "t"};
        static const long cnts[] = {0, 1, 2, 127, 128, 255, 256, 257, 300, 32767, 32768, 65535, 65536, 65537};
        for (const char *l : nl)
            for (long cnt : cnts)
            {
                std::string d = std::string("%*s%") + l + "n|";
                emit("pn", B(d), {AI(cnt), AS(B(""), true), AN(0)});
            }
        emit("pn", B("%n"), {AN(0)});
        emit("pn", B("%n%n%hhn"), {AN(0), AN(1), AN(2)});
        emit("pn", B("abc%ndef%lln%%%hn"), {AN(0), AN(1), AN(2)});
        emit("pn", B("%5n|%-n|%.3n|%*n|%0hhn"), {AN(0), AN(1), AN(2), AI(7), AN(3), AN(4)});
        emit("pn", B("%Ln"), {AN(0)});
        long n7 = th ? 20000 : 3000;
        for (long k = 0; k < n7; k++)
        {
            bytes f;
            std::vector<Arg> args;
            int slot = 0;
            int nseg = (int)r.range(1, 4);
            for (int q = 0; q < nseg; q++)
            {
                bytes lit = rnd_text(r, (size_t)r.below(5), true);
                f.insert(f.end(), lit.begin(), lit.end());
                if (args.size() + 3 <= MAXARGS && r.chance(70)) put_rnd_dir(r, f, args, r.chance(10) ? 300 : 14);
                if (args.size() + 1 <= MAXARGS && r.chance(60)) put_n(r, f, args, slot, r.chance(8));
            }
            emit("pn", f, args);
        }
        // the ordinary stream through the int-accurate model as well
        long n7b = th ? 8000 : 1500;
        for (long k = 0; k < n7b; k++)
        {
            bytes f;
            std::vector<Arg> args;
            rnd_format(r, f, args);
            emit("pn", f, args);
        }
    }
    // (8) literal widths / precisions of 10 and more digits: atoi overflows `int`
    {
        static const char *const big[] = {"%4294967301d", "%4294967296d|", "%99999999999999999999d", "%-4294967299s|",
                                          "%.4294967298d", "%.99999999999999999999d", "%.4294967297s", "%9999999999d",
                                          "%2147483653s", "%.2147483648d", "%.9223372036854775808x", "%18446744073709551616d",
                                          "%5.4294967300d|%d", "a%4294967297cb"};
        for (std::string d : big)
        {
            bytes f = B(d);
            Parsed P = classify(f, {});
            std::vector<Arg> args;
            for (char kd : P.need) args.push_back(kd == 'i' ? AI(r.pick(IVALS)) : AS(B("xyz"), true));
            emit("pn", f, args);
        }
        // the literal form of the recorded finding: atoi gives INT_MIN on this host, `width = -width` overflows
        printf("@F:C06-star-width-int-min pfmin %s i:7\n", hex(B("%2147483648d")).c_str());
    }
    // (9) `*` and literal widths / precisions at the 8- and 16-bit boundaries
    {
        static const long bw[] = {254, 255, 256, 257, 4095, 4096, 4097, 65534, 65535, 65536, 65537, -255, -256, -65536};
        for (long w : bw)
        {
            emit("pf", B("%*d|"), {AI(w), AI(r.pick(IVALS))}, true);
            emit("pf", B("%-*s|"), {AI(w), AS(B("ab"), true)}, true);
            emit("pf", B("<%*p>"), {AI(w), AP(r.pick(PVALS))}, false);
            if (w >= 0)
            {
                emit("pf", B("%.*d|"), {AI(w), AI(r.pick(IVALS))}, true);
                emit("pf", B("%#.*llo|"), {AI(w), AL(r.pick(LVALS))}, true);
                emit("pf", B("%" + std::to_string(w) + "u|"), {AI(r.pick(IVALS))}, true);
                emit("pf", B("%." + std::to_string(w) + "x|"), {AI(r.pick(IVALS))}, true);
                bytes longs((size_t)w + 3, 'q');
                emit("pf", B("%.*s|"), {AI(w), AS(longs, true)}, true);
                bytes exact((size_t)w, 'r');
                if (w) emit("pf", B("%.*s|"), {AI(w), AS(exact, false)}, true);
                if (w <= 4095)
                {
                    emit_n("sn", w, B("%*d"), {AI(w), AI(5)}); // the output is exactly one longer than the buffer holds
                    emit_n("vsn", w + 1, B("%*d"), {AI(w), AI(5)});
                }
            }
        }
    }
    // (10) long inputs (the routines are linear): 330 000 / 300 000 characters
    {
        bytes big(330000), unt(300000);
        for (size_t i = 0; i < big.size(); i++) big[i] = (uint8_t)('a' + i % 26);
        for (size_t i = 0; i < unt.size(); i++) unt[i] = (uint8_t)('A' + i % 26);
        emit("pf", B("%s"), {AS(big, true)}, true);
        emit("pf", B("[%.*s]"), {AI(300000), AS(unt, false)}, true);
        emit("pf", B("%-99999d|%099999d|%.99999x"), {AI(-5), AI(-5), AI(255)}, true);
        emit("sp", B("<%s>"), {AS(big, true)});
        emit_n("sn", 0, B("%s"), {AS(big, true)});
        emit_n("sn", 1, B("%s"), {AS(big, true)});
        emit_n("vsn", 4096, B("%s"), {AS(big, true)});
        // (exactly fitting with a long output: the model's snprintf writes through List.set, quadratic - 4 000 characters)
        emit_n("sn", 4001, B("%.4000s"), {AS(big, true)});
        emit_n("vsn", 4000, B("%.4000s"), {AS(big, true)});
        // round 3b: the driver runs the closed form `vsnprintfFast` (theorem vsnprintf_fast_eq): the long output
        // exactly fitting its buffer (declared size = allocation = 330 001 bytes)
        emit_s("sn", "330001", B("%s"), {AS(big, true)});
        emit_s("vsn", "330003", B("<%s>"), {AS(big, true)});
        emit_n("fd", 299999, B("%s"), {AS(big, true)});
        emit_n("fdv", -1, B("%s"), {AS(big, true)});
    }
    // (11) every entry point on the same format and arguments, in one process state, one after the other;
    //      sizes 0, 1, exactly fitting, one short, SIZE_MAX; and random interleavings of different calls
    {
        static const char *const fixed_[] = {"", "a", "%d", "%5d|", "x=%x", "%s", "%.3s|%c", "%%", "%p", "%lld %s", "%-8.3o|%+i"};
        std::vector<std::pair<bytes, std::vector<Arg>>> pool;
        for (std::string d : fixed_)
        {
            bytes f = B(d);
            Parsed P = classify(f, {});
            std::vector<Arg> args;
            for (char kd : P.need)
                args.push_back(kd == 'i' ? AI(r.pick(IVALS)) : kd == 'l' ? AL(r.pick(LVALS)) : kd == 'p' ? AP(r.pick(PVALS)) : AS(B("hello"), true));
            pool.push_back({f, args});
        }
        long n11 = th ? 3000 : 300;
        for (long k = 0; k < n11; k++)
        {
            bytes f;
            std::vector<Arg> args;
            rnd_format(r, f, args);
            pool.push_back({f, args});
        }
        for (auto &fa : pool)
        {
            const bytes &f = fa.first;
            const std::vector<Arg> &args = fa.second;
            long n = out_len_hint(f, args);
            std::vector<std::string> sizes = {"0", "1", std::to_string(n), std::to_string(n + 1), std::to_string(n + 2), "18446744073709551615"};
            for (auto &sz : sizes)
            {
                if (strtoull(sz.c_str(), 0, 10) > 4096 && sz.size() < 10) continue;
                std::string lim = std::to_string(r.range(-1, n + 1));
                printf("seq %s / %s / %s / %s / %s / %s / %s\n", sub_text("sp", nullptr, f, args).c_str(),
                       sub_text("spv", nullptr, f, args).c_str(), sub_text("sn", sz.c_str(), f, args).c_str(),
                       sub_text("vsn", sz.c_str(), f, args).c_str(), sub_text("fd", "-1", f, args).c_str(),
                       sub_text("fdv", lim.c_str(), f, args).c_str(), sub_text("pf", nullptr, f, args).c_str());
                g_emitted++;
                if (&fa - &pool[0] >= 11 && &sz - &sizes[0] >= 1) break; // random formats: two sizes each
            }
        }
        long n11b = th ? 3000 : 400;
        static const char *const ops_[] = {"sp", "spv", "sn", "vsn", "fd", "fdv", "pf", "pn"};
        for (long k = 0; k < n11b; k++)
        {
            int nc = (int)r.range(2, 6);
            std::string line = "seq";
            for (int q = 0; q < nc; q++)
            {
                const auto &fa = r.chance(30) ? pool[r.below(11)] : pool[r.below(pool.size())];
                const char *op = ops_[r.below(8)];
                long n = out_len_hint(fa.first, fa.second);
                std::string num;
                if (!strcmp(op, "sn") || !strcmp(op, "vsn")) num = std::to_string(r.chance(50) ? r.range(0, 3) : std::max(0L, n + r.range(-2, 2)));
                if (!strcmp(op, "fd") || !strcmp(op, "fdv")) num = std::to_string(r.range(-1, n + 1));
                line += (q ? " / " : " ") + sub_text(op, num.empty() ? nullptr : num.c_str(), fa.first, fa.second);
            }
            printf("%s\n", line.c_str());
            g_emitted++;
        }
    }
    // (12) %lc / %ls: the code ignores the `l`
    {
        for (int v : {1, 65, 97, 126, 127}) emit("pf", B("[%lc]"), {AI(v)}, true);
        emit("pf", B("[%-4lc|%4lc]"), {AI(66), AI(67)}, true);
        emit("pf", B("%ls"), {AW(B(""))}, true);
        emit("pf", B("%ls|"), {AW(B("a"))}, true);
        emit("pf", B("%.1ls|"), {AW(B("ab"))}, true);
        emit("pf", B("%5ls|%-5ls|"), {AW(B("a")), AW(B("b"))}, true);
        emit("pf", B("%.0ls|"), {AW(B("abc"))}, true);
        // finding C06-wide-ls (emit() marks them as probes)
        emit("pf", B("%ls"), {AW(B("ab"))}, true);
        emit("pf", B("<%.2ls>"), {AW(B("abc"))}, true);
        emit("pf", B("<%6ls>"), {AW(B("hello"))}, true);
    }
}

void gen(rng &r, const std::string &tier)
{
    bool th = tier == "thorough";
    // (1) the directive grammar, enumerated
    int per = th ? 4 : 1;
    long combo = 0;
    for (unsigned mask = 0; mask < 32; mask++)
        for (auto &wd : WIDTHS)
            for (auto &pr : PRECS)
                for (auto &ln : LENS)
                    for (const char *cv = CONVS; *cv; cv++)
                        for (int rep = 0; rep < per; rep++)
                        {
                            combo++;
                            Spec s;
                            s.flags = flags_of(r, mask);
                            s.width = wd; s.prec = pr; s.len = ln; s.conv = *cv;
                            s.wstar = r.range(-3, 12);
                            s.pstar = r.chance(20) ? -1 : r.range(0, 9);
                            const Around &ar = (*cv == 'p') ? AROUND[1] : AROUND[r.below(5)];
                            bytes f = B(ar.first);
                            std::vector<Arg> args;
                            put_dir(r, s, f, args);
                            for (const char *c = ar.second; *c; c++) f.push_back((uint8_t)*c);
                            emit("pf", f, args, true);
                        }
    // (2) every integer boundary value through the plain and the most
    //     interacting directives
    {
        static const char *const ds_[] = {"%d", "%i", "%u", "%o", "%x", "%X", "%+d", "% d", "%05d", "%-5d|", "%.5d", "%+.5d", "%08.3d", "%#o", "%#x", "%#X", "%.0d", "%.0u", "%.0x", "%+.0d", "%#.0o", "%#.0x", "%*d", "%-*d|", "%.*d", "%5.3u", "%#7.4x", "%#-7o|", "%hhd", "%hhu", "%hd", "%hu", "%hhx", "%hx", "% 05d", "%+ d", "%-05d|", "%3d", "%10.7d", "%#10.7x", "%#.7o", "%#3o"};
        static const char *const dl_[] = {"%ld", "%lld", "%jd", "%zd", "%td", "%lu", "%llu", "%ju", "%zu", "%tu", "%lo", "%llx", "%jX", "%+ld", "%.20lld", "%025lld", "%-25lld|", "%#llo", "%#llx", "%#.25llo", "%*lld", "%.*llu", "%30.25lld", "%#30.25llx", "% lld", "%.0ld", "%#.0lo"};
        for (std::string d : ds_)
            for (long long v : IVALS)
            {
                std::vector<Arg> a;
                if (d.find('*') != std::string::npos) a.push_back(AI(r.range(-3, 12)));
                a.push_back(AI(v));
                emit("pf", B(d), a, true);
            }
        for (std::string d : dl_)
            for (long long v : LVALS)
            {
                std::vector<Arg> a;
                if (d.find('*') != std::string::npos) a.push_back(AI(r.range(-3, 30)));
                a.push_back(AL(v));
                emit("pf", B(d), a, true);
            }
        // all 8-bit values through %c, %hhd, %hhu; all `*` widths/precisions in a band
        for (int v = -130; v < 260; v++)
        {
            emit("pf", B("[%c]"), {AI(v)}, true);
            emit("pf", B("%hhd %hhu"), {AI(v), AI(v)}, true);
        }
        for (int w = -20; w <= 20; w++)
            for (int p = -2; p <= 12; p++)
            {
                emit("pf", B("%*.*d|"), {AI(w), AI(p), AI(r.pick(IVALS))}, true);
                emit("pf", B("%0*.*x|"), {AI(w), AI(p), AI(r.pick(IVALS))}, true);
                emit("pf", B("%*.*s|"), {AI(w), AI(p), rnd_str(r, p >= 0 ? p : -1)}, true);
                emit("pf", B("<%*p>"), {AI(w), AP(r.pick(PVALS))}, false);
            }
    }
    // (3) strings: empty / short / exactly sized unterminated with a precision
    {
        for (int n = 0; n <= 12; n++)
            for (int p = 0; p <= 13; p++)
            {
                bytes s = rnd_text(r, (size_t)n, true);
                std::string pd = "%." + std::to_string(p) + "s";
                emit("pf", B(pd), {AS(s, true)}, true);
                if (p <= n) emit("pf", B(pd), {AS(s, false)}, true);
                emit("pf", B("%-15.*s|"), {AI(p), AS(s, true)}, true);
                emit("pf", B("%15.*s|"), {AI(p), p <= n ? AS(s, false) : AS(s, true)}, true);
            }
        emit("pf", B("%s"), {AS(B(""), true)}, true);
        emit("pf", B("%s%s%s"), {AS(B("a"), true), AS(B(""), true), AS(B("bc"), true)}, true);
        { Arg a; a.kind = 'n'; emit("pf", B("%s|%.3s|%10s"), {a, a, a}, false); }
    }
    // (4) several directives in one format, with literal text
    long n4 = th ? 40000 : 6000;
    for (long k = 0; k < n4; k++)
    {
        bytes f;
        std::vector<Arg> args;
        int nd = (int)r.range(1, 3);
        for (int d = 0; d < nd; d++)
        {
            bytes lit = rnd_text(r, (size_t)r.below(4), true);
            f.insert(f.end(), lit.begin(), lit.end());
            Spec s;
            s.conv = CONVS[r.below(10)];
            bool strict = r.chance(75); // mostly ISO-defined combinations
            unsigned mask = (unsigned)r.below(32);
            if (strict)
            {
                if (strchr("diucsp", s.conv)) mask &= ~8u;       // '#'
                if (strchr("csp", s.conv)) mask &= ~16u;         // '0'
                if (s.conv == 'p') mask &= 1u;
                if (s.conv == '%') mask = 0;
            }
            s.flags = flags_of(r, mask);
            if (!(strict && s.conv == '%'))
            {
                int wk = (int)r.below(4);
                s.width = wk == 0 ? "" : wk == 1 ? "*" : std::to_string(r.range(1, 25));
                s.wstar = r.range(-25, 25);
                if (!(strict && (s.conv == 'c' || s.conv == 'p')))
                {
                    int pk = (int)r.below(5);
                    s.prec = pk == 0 ? "" : pk == 1 ? ".*" : pk == 2 ? "." : "." + std::to_string(r.range(0, 25));
                    s.pstar = r.range(-2, 25);
                }
                if (!(strict && strchr("csp", s.conv)) && r.chance(50))
                    s.len = LENS[r.below(LENS.size())];
            }
            if (args.size() + 3 > MAXARGS) break;
            put_dir(r, s, f, args);
        }
        bytes lit = rnd_text(r, (size_t)r.below(4), true);
        f.insert(f.end(), lit.begin(), lit.end());
        const char *op = k % 11 == 0 ? "sp" : k % 11 == 1 ? "spv" : "pf";
        if (k % 11 == 2)
        {
            // vfdprintf with an output error after `limit` characters
            Parsed P = classify(f, args);
            if (finding_key(P, args).empty())
            {
                std::string line = hex(f);
                for (auto &a : args) line += " " + arg_str(a);
                printf("fd %ld %s\n", (long)r.range(-1, 12), line.c_str());
            }
            continue;
        }
        emit(op, f, args, op[0] == 'p' && op[1] == 'f');
    }
    // (5) token soup: malformed and unusual directives (model vs code only;
    //     glibc is consulted only where ISO defines the behaviour)
    {
        static const char *const tok[] = {"%", "%", "%", "-", "+", " ", "#", "0", "1", "2", "9", "10", "*", ".", ".", "h", "hh", "l", "ll", "j", "z", "t", "L", "d", "i", "u", "o", "x", "X", "c", "s", "p", "%%", "q", "y", "\t", "k", "Z", "\x80", "\xff", "5"};
        long n5 = th ? 30000 : 5000;
        for (long k = 0; k < n5; k++)
        {
            bytes f;
            int nt = (int)r.range(1, 9);
            for (int t = 0; t < nt; t++)
                for (const char *c = tok[r.below(sizeof tok / sizeof tok[0])]; *c; c++) f.push_back((uint8_t)*c);
            Parsed P = classify(f, {});
            if (P.need.size() > MAXARGS) continue;
            // widths/precisions through `*` need their values before the string
            // arguments can be sized: two passes
            std::vector<Arg> args;
            for (char kd : P.need)
                args.push_back(kd == 'i' ? AI(r.chance(50) ? r.range(-4, 14) : rnd_int(r)) : kd == 'l' ? AL(rnd_long(r)) : kd == 'p' ? AP(r.pick(PVALS)) : AS(rnd_text(r, (size_t)r.below(6), true), true));
            // star arguments must stay small (they are widths)
            Parsed Q = classify(f, args);
            bool ok = true;
            for (auto &d : Q.dirs)
                if (labs(d.width) > 64 || labs(d.prec) > 64) ok = false;
            // a `*` value is any 'i' argument that is not a conversion's value:
            // simply clamp every int that a star consumed
            if (!ok)
            {
                for (auto &a : args)
                    if (a.kind == 'i' && (a.v > 64 || a.v < -64)) a.v = a.v % 13;
            }
            emit("pf", f, args, true);
        }
    }
    gen_wrappers(r, th);
    gen_round3(r, th);
    // probes of the recorded finding C06-star-width-int-min: `width = -width`
    // on INT_MIN is a signed overflow (UBSan aborts); excluded from the stream
    // everywhere else (classify: "width INT_MIN", generators keep `*` small)
    printf("@F:C06-star-width-int-min pfmin 252a64 i:-2147483648 i:1\n");
    printf("@F:C06-star-width-int-min pfmin 3c252d2a733e i:-2147483648 s:6162\n");
}

