// C19 harness, translation unit 4: the generator (see C19_common.h)
// generator-only code: compiled without optimisation (round 3b: -O1 under ASan/UBSan took 16 s for this unit, -O0 6 s)
#pragma GCC optimize("O0")
#include "C19_common.h"
// ---------------------------------------------------------------- gen
static void all_strings(const str &alpha, int maxlen, const std::function<void(const str &)> &f, int minlen = 0)
{
    for (int len = minlen; len <= maxlen; len++)
    {
        std::vector<int> idx(len, 0);
        while (true)
        {
            str s(len, 0);
            for (int i = 0; i < len; i++)
                s[i] = alpha[idx[i]];
            f(s);
            int k = len - 1;
            while (k >= 0 && ++idx[k] == (int)alpha.size())
                idx[k--] = 0;
            if (k < 0)
                break;
        }
    }
}
static str rnd_str(rng &r, const str &alpha, int len)
{
    str s(len, 0);
    for (auto &c : s)
        c = alpha[r.below(alpha.size())];
    return s;
}
static str names_arg(const toks &v)
{
    if (v.empty())
        return "-";
    str r;
    for (size_t i = 0; i < v.size(); i++)
        r += (i ? "," : "") + H(v[i]);
    return r;
}
// every generated line is printed; lines outside recorded findings are also kept (a bounded
// reservoir per routine) as the material of the fixed-address cases of round 3 (gen3)
#include <cstdarg>
#include <map>
static std::map<std::string, std::vector<std::string>> g_pool;
static std::map<std::string, unsigned long> g_seen;
static hv::rng g_pool_rng(12345);
static bool g_pool_on = true;
static void emitf(const char *fmt, ...) __attribute__((format(printf, 1, 2)));
static void emitf(const char *fmt, ...)
{
    va_list ap, ap2;
    va_start(ap, fmt);
    va_copy(ap2, ap);
    int n = vsnprintf(0, 0, fmt, ap);
    va_end(ap);
    std::string buf((size_t)n + 1, 0);
    vsnprintf(&buf[0], buf.size(), fmt, ap2);
    va_end(ap2);
    buf.resize((size_t)n);
    fputs(buf.c_str(), stdout);
    if (!g_pool_on)
        return;
    size_t i = 0;
    while (i < buf.size())
    {
        size_t j = buf.find('\n', i);
        if (j == std::string::npos)
            j = buf.size();
        std::string line = buf.substr(i, j - i);
        i = j + 1;
        if (line.empty() || line[0] == '@' || line.size() > 160)
            continue;
        std::string op = line.substr(0, line.find(' '));
        auto &v = g_pool[op];
        unsigned long k = ++g_seen[op];
        if (v.size() < 600)
            v.push_back(line);
        else
        {
            unsigned long x = g_pool_rng.below(k);
            if (x < v.size())
                v[x] = line;
        }
    }
}
#define P(...) emitf(__VA_ARGS__)
static const char *F_NUL = "@F:C19-split-delims-nul ";

static const char *F_ARGVN = "@F:C19-argvn-nul-not-terminator ";
static const char *F_PREMC = "@F:C19-path-remove-prefix-leading-dot ";
// probe where "NUL is one more separator" (the code) and "the line ends at its
// terminator" (argvc.h: safe variant of argvc_internal_split) give different arguments
static void emit_argvn_probe(const str &s, int m)
{
    if (s.find('\0') == str::npos || m <= 0)
        return;
    if (take(ref_runs(s, WS_ARGV + str(1, '\0')), m) != take(ref_runs(upto_nul(s), WS_ARGV), m))
        P("%sargvnz %s %d\n", F_ARGVN, H(s).c_str(), m);
}
// probe where a leading single-dot piece makes the node reading (the code) and the
// component reading differ
static void emit_premc_probe(const str &tp, const str &tq)
{
    str p = upto_nul(tp), q = upto_nul(tq);
    auto dot = [](const str &x) { return x == "." || x.compare(0, 2, "./") == 0; };
    if (!dot(p) && !dot(q))
        return;
    auto np = nodes(p), nq = nodes(q);
    size_t i = 0;
    while (i < np.size() && i < nq.size() && np[i].s == nq[i].s)
        i++;
    size_t code = i < np.size() ? np[i].pos : p.size();
    std::vector<comp> cp, cq;
    for (auto &c : raw_comps(p)) if (real(c)) cp.push_back(c);
    for (auto &c : raw_comps(q)) if (real(c)) cq.push_back(c);
    size_t k = 0;
    while (k < cp.size() && k < cq.size() && cp[k].s == cq[k].s)
        k++;
    size_t want = k < cp.size() ? cp[k].pos : p.size();
    if (code != want)
        P("%spremc %s %s\n", F_PREMC, H(tp).c_str(), H(tq).c_str());
}

static void emit_unary(const str &s)
{
    str h = H(s);
    bool nul = s.find('\0') != str::npos;
    P("splitc %s 20\nsplitc %s 2f\n", h.c_str(), h.c_str());
    P("%ssplitd %s 202f\n", nul ? F_NUL : "", h.c_str());
    P("trim %s\ncmdargs %s\ncreader %s\n", h.c_str(), h.c_str(), h.c_str());
    P("argvn %s 2\nargv %s 2\n", h.c_str(), h.c_str());
    emit_argvn_probe(s, 2);
    P("pnext %s\npiter %s\n", h.c_str(), h.c_str());
}


// ---------------------------------------------------------------- gen (extension)
static const char *F_BSL = "@F:C19-path-last-node-backslash ";
static const char *F_EQZ = "@F:C19-buffer-eq-cstr-prefix ";
static str entry_arg(const str &name, int help_kind, const str &help) // help_kind 0: NULL
{
    return H(name) + (help_kind ? ":" + H(help) : "");
}
static void emit_path2(const str &s)
{
    str h = H(s), p = upto_nul(s);
    P("pabs %s\npsimple %s\npdd %s\nplast %s\npnext0 %s\n", h.c_str(), h.c_str(), h.c_str(), h.c_str(), h.c_str());
    // the unix-separator reading of path_last_node: recorded finding
    size_t a = p.rfind('\\'), b = p.rfind('/');
    if ((a == str::npos ? 0 : a + 1) != (b == str::npos ? 0 : b + 1))
        P("%splastu %s\n", F_BSL, h.c_str());
}
// strncmp(a, z, |a|) == 0 computed by hand: where it differs from equality the
// comparison with a C string is a recorded finding (prefix / NUL in the buffer)
static void emit_beqz(const str &a, const str &t)
{
    str z = upto_nul(t);
    bool prefix_eq = true;
    for (size_t i = 0; i < a.size(); i++)
    {
        char x = a[i], y = i < z.size() ? z[i] : 0;
        if (x != y) { prefix_eq = false; break; }
        if (x == 0) break;
    }
    P("%sbeqz %s %s\n", prefix_eq != (a == z) ? F_EQZ : "", H(a).c_str(), H(t).c_str());
}
static void gen2(rng &r, bool th)
{
    // paths: every string <= 5 over {a / . \ NUL 0x80}, length 6 (7) over {a / . \}
    all_strings(str("a/.\\\0\x80", 6), 5, [&](const str &s) { emit_path2(s); });
    all_strings(str("a/.\\", 4), th ? 7 : 6, [&](const str &s) { emit_path2(s); }, 6);
    all_strings(str(" a\0\t", 4), th ? 6 : 5, [&](const str &s) { P("lenfirst %s\n", H(s).c_str()); });
    // creader_skip: every buffer <= 5 (6) over {space tab a NUL 0x80} x symbol sets
    {
        const std::vector<str> SY = {"", " ", "\t\n\r ", "a ", "\x80", str(" \0a", 3), "\x80\t"};
        all_strings(str(" \ta\0\x80", 5), th ? 6 : 5, [&](const str &s) {
            for (auto &y : SY)
                P("cskip %s %s\n", H(s).c_str(), H(y).c_str());
            P("cskipws %s\n", H(s).c_str());
        });
        all_strings(str(" \t\n\ra", 5), 4, [&](const str &s) { P("cskipws %s\n", H(s).c_str()); });
    }
    // buffer ==: all pairs of strings <= 3 over {a b NUL 0x80}; with C strings <= 4 over {a b 0x80}
    {
        std::vector<str> as, zs;
        all_strings(str("ab\0\x80", 4), 3, [&](const str &s) { as.push_back(s); });
        all_strings(str("ab\x80", 3), 4, [&](const str &s) { zs.push_back(s); });
        for (auto &a : as)
            for (auto &b : as)
                P("beq %s %s\n", H(a).c_str(), H(b).c_str());
        for (auto &a : as)
            for (auto &z : zs)
                emit_beqz(a, z);
        const char *arrs[] = {"00", "6100", "616200", "61006200", "6162630000", "610000000000", "616263646500"};
        for (auto a : arrs)
            P("bufctor c %s\nbufctor m %s\n", a, a);
        P("bufctor m 61\nbufctor m 616263\nbufctor m 616263646566\n");
    }
    // dstring: every single byte, every string <= 3 over the critical alphabet
    for (int c = 0; c < 256; c++)
        P("dstr %02x\ndstr 61%02x\n", c, c);
    all_strings(str("a\\\n\t\0\x80\xffnx~\x7f\x1f ", 13), 3, [&](const str &s) { P("dstr %s\n", H(s).c_str()); });
    all_strings(str("\\nx0a", 5), th ? 6 : 5, [&](const str &s) { P("dstr %s\n", H(s).c_str()); }, 4);
    // help: tables of <= 2 entries from a pool, every ansmax from -1 to the full length + 3
    {
        const std::vector<str> E = {entry_arg("a", 0, ""), entry_arg("ab", 1, "h"), entry_arg("", 1, ""), entry_arg("b", 1, ""), entry_arg("\x80", 1, "xy"),
                                    entry_arg("help", 1, "this text")};
        std::vector<str> T = {"_"};
        std::vector<size_t> L = {0};
        auto elen = [&](size_t i) { const size_t n[] = {3, 8, 5, 6, 8, 18}; return n[i]; };
        for (size_t i = 0; i < E.size(); i++)
        {
            T.push_back(E[i]);
            L.push_back(elen(i));
        }
        for (size_t i = 0; i < E.size(); i++)
            for (size_t j = 0; j < E.size(); j++)
            {
                T.push_back(E[i] + "," + E[j]);
                L.push_back(elen(i) + elen(j));
            }
        for (size_t t = 0; t < T.size(); t++)
        {
            P("mhelp %s\n", T[t].c_str());
            for (int m = -1; m <= (int)L[t] + 3; m++)
                P("rhelp %d %s\n", m, T[t].c_str());
        }
        P("mhelpt\nrhelpt 0\nrhelpt 1\nrhelpt 5\n");
        for (size_t t = 0; t < T.size(); t += (th ? 1 : 3))
            for (size_t u = 0; u < T.size(); u += (th ? 2 : 5))
            {
                P("mhelpt %s %s\n", T[t].c_str(), T[u].c_str());
                for (int m = -1; m <= (int)(L[t] + L[u]) + 3; m++)
                    P("rhelpt %d %s %s\n", m, T[t].c_str(), T[u].c_str());
            }
        for (int k = 0; k < (th ? 400 : 60); k++)
        {
            size_t a = r.below(T.size()), b = r.below(T.size()), c = r.below(T.size());
            int m = (int)r.range(-1, (int)(L[a] + L[b] + L[c]) + 3);
            P("rhelpt %d %s %s %s\nmhelpt %s %s %s\n", m, T[a].c_str(), T[b].c_str(), T[c].c_str(), T[a].c_str(), T[b].c_str(), T[c].c_str());
        }
    }
    // rshell_execute_v with the caller's argv (strings may contain white space), argc 1..3
    {
        const std::vector<str> Wd = {"a", "b", "ab", "", "a b", "\x80"};
        const std::vector<toks> tables = {{}, {"a"}, {"b", "a"}, {"ab", "a", "a"}, {"", "a b", "\x80"}};
        for (int n = 1; n <= 3; n++)
        {
            std::vector<int> idx(n, 0);
            while (true)
            {
                str line;
                for (int i = 0; i < n; i++)
                    line += " " + H(Wd[idx[i]]);
                for (auto &t : tables)
                    if (n < 3 || th || r.chance(25))
                        P("rshv %d %s%s\n", (int)r.below(n + 2), names_arg(t).c_str(), line.c_str());
                int k = n - 1;
                while (k >= 0 && ++idx[k] == (int)Wd.size())
                    idx[k--] = 0;
                if (k < 0)
                    break;
            }
        }
    }
    // command tables and lines with bytes >= 0x80 (strcmp compares unsigned char, the splitter char)
    {
        const std::vector<toks> tables = {{"\x80"}, {"a\xff", "\xff"}, {"a", "\x80" "a"}, {"\xff\x80", "\xff"}};
        all_strings(str(" a\x80\xff", 4), th ? 4 : 3, [&](const str &s) {
            for (auto &t : tables)
            {
                P("msh %s %s\nrsh %s %d %s\n", H(s).c_str(), names_arg(t).c_str(), H(s).c_str(), (int)r.below(2), names_arg(t).c_str());
            }
            P("msht %s %s %s\n", H(s).c_str(), names_arg(tables[1]).c_str(), names_arg(tables[0]).c_str());
            P("rsht %s 0:%s 1:%s\n", H(s).c_str(), names_arg(tables[2]).c_str(), names_arg(tables[3]).c_str());
        });
    }
    // random longer inputs
    int N = th ? 3000 : 400;
    const str WIDE = str(" a/.\\\"\0\n\r\t'bz\x80\xff\x7f\x01n", 18);
    for (int i = 0; i < N; i++)
    {
        int len = (int)r.range(6, r.chance(10) ? 200 : 40);
        str s = rnd_str(r, r.chance(50) ? str("ab/.\\") : WIDE, len);
        if (r.chance(30)) s.back() = r.chance(50) ? '\\' : '/';
        if (r.chance(15)) s[0] = r.chance(50) ? '\\' : '/';
        if (r.chance(30)) s = (r.chance(50) ? ".." : ".") + s;
        emit_path2(s);
        str t = rnd_str(r, WIDE, len);
        P("dstr %s\nlenfirst %s\n", H(t).c_str(), H(t).c_str());
        str ws = rnd_str(r, " \t\n\r", (int)r.range(0, 6)) + rnd_str(r, WIDE, (int)r.range(0, 10));
        P("cskipws %s\ncskip %s %s\n", H(ws).c_str(), H(ws).c_str(), H(rnd_str(r, " \t\n\ra\x80", (int)r.range(0, 4))).c_str());
        // buffers: equal, differing in one byte, differing behind a NUL, prefix
        str a = rnd_str(r, str("ab\0\x80", 4), (int)r.range(0, 24)), b = a;
        if (!b.empty() && r.chance(60)) b[r.below(b.size())] ^= (char)(1 << r.below(8));
        if (r.chance(15)) b += "a";
        P("beq %s %s\n", H(a).c_str(), H(b).c_str());
        str z = rnd_str(r, str("ab\x80", 3), (int)r.range(0, 12)), za = z.substr(0, r.below(z.size() + 1));
        emit_beqz(r.chance(50) ? z : za, z);
        emit_beqz(a, upto_nul(b));
    }
}


// ---------------------------------------------------------------- gen (round 3)
static void gen3(rng &r, bool th)
{
    g_pool_on = false;
    P("consts\n");
    for (size_t k = 0; k < NPREMAIN; k++)
        P("premain %zu %s\n", k, PREMAIN[k]);
    // (a) fixed-address cases.  split(buffer, delims): every ordered pair of delimiter strings of
    //     the SAME length (same extent, same address, other contents) on lines that contain both
    {
        const std::vector<str> D1 = {",", ";", " ", "a"}, D2 = {",;", "; ", " ,", "a,"};
        const std::vector<str> L = {"a,b;c,d", ";a, b;", "a b,c;d a", ",,;;", "abc"};
        for (auto &l : L)
            for (auto *D : {&D1, &D2})
                for (auto &d1 : *D)
                    for (auto &d2 : *D)
                    {
                        if (d1 == d2)
                            continue;
                        P("re splitd %s %s / splitd %s %s\n", H(l).c_str(), H(d1).c_str(), H(l).c_str(), H(d2).c_str());
                        if (th || r.chance(40))
                            P("re splitd %s %s / @t splitd %s %s / splitd %s %s / splitd %s %s\n", H(l).c_str(), H(d1).c_str(), H(L[r.below(L.size())]).c_str(),
                              H(d2).c_str(), H(l).c_str(), H(d2).c_str(), H(L[r.below(L.size())]).c_str(), H(d1).c_str());
                    }
        // the same for every routine with pointer arguments: cases of 2..4 calls drawn from the
        // lines the generators above produced for that routine (same roles -> same addresses),
        // a call on a second thread in between, and cases that mix routines
        std::vector<std::string> ops;
        for (auto &kv : g_pool)
            if (kv.first != "reset" && kv.first != "bufctor")
                ops.push_back(kv.first);
        int per = th ? 1200 : 160;
        for (auto &op : ops)
        {
            auto &v = g_pool[op];
            for (int i = 0; i < per; i++)
            {
                int n = (int)r.range(2, 4);
                int t = r.chance(25) ? (int)r.range(1, n - 1) : -1;
                str line = "re";
                for (int k = 0; k < n; k++)
                    line += str(k ? " / " : " ") + (k == t ? "@t " : "") + v[r.below(v.size())];
                P("%s\n", line.c_str());
            }
        }
        for (int i = 0; i < (th ? 6000 : 800); i++)
        {
            int n = (int)r.range(2, 5);
            str line = "re";
            for (int k = 0; k < n; k++)
            {
                auto &v = g_pool[ops[r.below(ops.size())]];
                line += str(k ? " / " : " ") + (r.chance(10) ? "@t " : "") + v[r.below(v.size())];
            }
            P("%s\n", line.c_str());
        }
    }
    // (b) boundary parameters, permanently in the stream: argcmax 0, 1, words-1, words, words+1
    //     for lines of 0..12 words; maxsize 0 .. needed+2 of replace_substrings
    for (int words = 0; words <= 12; words++)
    {
        str line = r.chance(50) ? " " : "";
        for (int k = 0; k < words; k++)
            line += str(1, (char)('a' + k)) + (k + 1 < words || r.chance(50) ? (r.chance(50) ? " " : "\t ") : "");
        std::set<int> ms = {0, 1, words - 1, words, words + 1};
        for (int m : ms)
            if (m >= 0)
                P("argv %s %d\nargvn %s %d\n", H(line).c_str(), m, H(line).c_str(), m);
    }
    {
        std::vector<str> pats;
        all_strings("a.", 2, [&](const str &s) { pats.push_back(s); });
        all_strings("a.", th ? 5 : 4, [&](const str &s) {
            for (auto &p : pats)
                for (auto &q : {str(""), str("."), str("aa."), str("a")})
                {
                    size_t full = ref_replace(s, p, q).size();
                    for (size_t m = 0; m <= full + 2; m++)
                        if (th || m <= 1 || m + 2 >= full)
                            P("rsub %zu %s %s %s\n", m, H(s).c_str(), H(p).c_str(), H(q).c_str());
                }
        });
    }
    // (c) replace_substrings in place (buffer == input), replacement as long as the pattern
    {
        std::vector<str> pats;
        all_strings("a.", 2, [&](const str &s) { pats.push_back(s); }, 1);
        all_strings("a.", th ? 5 : 4, [&](const str &s) {
            for (auto &p : pats)
                for (auto &q : pats)
                    if (p.size() == q.size())
                    {
                        P("rsubip %s %zu %s %s\n", H(s + "Z").c_str(), s.size(), H(p).c_str(), H(q).c_str());    // room for the terminator
                        P("rsubip %s %zu %s %s\n", H(s + "ZYX").c_str(), s.size(), H(p).c_str(), H(q).c_str()); // generous
                        if (!s.empty())
                            P("rsubip %s %zu %s %s\n", H(s).c_str(), s.size(), H(p).c_str(), H(q).c_str()); // maxsize == inlen: last byte cut
                    }
        });
    }
    // (d) long inputs: boundary lengths and >= 300 KiB through every linear routine
    {
        // sel: which routines (quick tier: the 300 KiB inputs go through a selection, the model
        // driver needs about a second for each; thorough: all of them)
        auto each = [&](size_t count, const str &unit, const str &tail, const char *sel = 0) {
            str a = std::to_string(count) + " " + H(unit) + " " + H(tail);
            auto on = [&](char c) { return th || !sel || strchr(sel, c); };
            if (on('c')) P("long %s splitc @ 20\n", a.c_str());
            if (on('d')) P("long %s splitd @ 202c\n", a.c_str());
            if (on('q')) P("long %s cmdargs @\n", a.c_str());
            if (on('t')) P("long %s trim @\n", a.c_str());
            if (on('m')) P("long %s memmem @ 6162\nlong %s memmem @ %s\n", a.c_str(), a.c_str(), H(tail.empty() ? unit : tail).c_str());
            // the model's replace loop costs (matches x length): many matches only on the short inputs
            if (on('r')) P("long %s replace @ %s 6262\n", a.c_str(), unit.size() * count > 8192 ? "6162" : "61");
            if (on('s')) P("long %s rsub %zu @ 6120 2e\n", a.c_str(), (size_t)r.range(0, (long)(unit.size() * count + 2)));
            if (on('a')) P("long %s argv @ 10\n", a.c_str());
            if (on('n')) P("long %s argvn @ 10\n", a.c_str());
            if (on('l')) P("long %s creader @\n", a.c_str());
            if (on('h')) P("long %s msh @ 61\n", a.c_str());
            if (on('p')) P("long %s pnext @\nlong %s piter @\n", a.c_str(), a.c_str());
        };
        for (size_t n : {255, 256, 257, 4095, 4096, 4097})
        {
            each(n, "a", "");
            each(n - 1, "a", " ");
        }
        if (th)
            for (size_t n : {65535, 65536, 65537})
                each(n, "a", "");
        // 300 KiB: about 1000 tokens / lines / matches of 307 bytes each
        str w300(299, 'a');
        each(1001, w300 + " a, b\n", "", "dtma");
        each(1001, " " + w300 + "/./a\"b\r\n", "x", "-");
        // 300 KiB without any delimiter, of white space only, of one-character path components
        each(307200, "a", "", "tm");
        each(307200, " ", "", "dtah");
        each(153600, "a/", "", "cp");
        {
            // a periodic needle (every position a candidate), 300 matches of a 65-byte pattern
            str nd = str(127, 'a') + "b", u1k = str(1023, 'a') + "b", n64 = str(64, 'a') + "b";
            P("long 307200 61 62 memmem @ %s\nlong 307200 61 - memmem @ %s\n", H(nd).c_str(), H(nd).c_str());
            P("long 300 %s - replace @ %s 2e\n", H(u1k).c_str(), H(n64).c_str());
            if (th)
            {
                P("long 300 %s - rsub 300000 @ %s 2e2e\n", H(u1k).c_str(), H(n64).c_str());
                P("long 300 %s - rsub 310000 @ 62 2e2e2e\n", H(u1k).c_str());
            }
        }
        // join of 1000 tokens of 300 bytes
        if (th)
        {
            str line;
            for (int k = 0; k < 1000; k++)
                line += " @";
            P("long 300 61 - join 2c%s\nlong 300 61 - joinf 2c20 5b 5d%s\n", line.c_str(), line.c_str());
        }
    }
}

void gen(rng &r, const std::string &tier)
{
    bool th = tier == "thorough";
    const str A7 = str(" a/.\"\0\n", 7);
    // (1) all strings over the property's alphabet
    //     quick: length <= 5 for every unary routine (19 608 strings);
    //     thorough: length 6 as well, cut in 8 slices by seed % 8 (the 8
    //     derived seeds of a thorough run cover all of them)
    all_strings(A7, 5, [&](const str &s) { emit_unary(s); });
    {
        // r.s % 8 is a bijection of seed % 8 (odd multiplier) and the derived
        // seeds of a thorough run are seed*1000 + 0..7: all slices are covered
        unsigned long n = 0, slice = (unsigned long)(r.s % 8);
        all_strings(
            A7, 6,
            [&](const str &s) {
                n++;
                if (th ? (n % 8 == slice) : (n % 64 == slice))
                    emit_unary(s);
            },
            6);
    }
    // (2) routine-specific alphabets
    //     white-space sets of trim / argv: " \n\r\t"
    all_strings(str(" \n\r\ta\0", 6), th ? 5 : 4, [&](const str &s) {
        str h = H(s);
        P("trim %s\nargv %s 3\nargvn %s 3\ncreader %s\n", h.c_str(), h.c_str(), h.c_str(), h.c_str());
        emit_argvn_probe(s, 3);
        P("%ssplitd %s 0a0d09\n", s.find('\0') != str::npos ? F_NUL : "", h.c_str());
    });
    //     both quote characters
    all_strings(str(" a\"'", 4), th ? 7 : 6, [&](const str &s) { P("cmdargs %s\n", H(s).c_str()); });
    //     argcmax 0..3 on short lines
    all_strings(str(" a\t\0", 4), 5, [&](const str &s) {
        for (int m = 0; m <= 3; m++)
        {
            P("argvn %s %d\nargv %s %d\n", H(s).c_str(), m, H(s).c_str(), m);
            emit_argvn_probe(s, m);
        }
    });
    //     memmem: every haystack <= 6 x needle <= 3 over {a, /, NUL}
    {
        std::vector<str> needles;
        all_strings(str("a/\0", 3), 3, [&](const str &s) { needles.push_back(s); });
        all_strings(str("a/\0", 3), th ? 7 : 6, [&](const str &l) {
            for (auto &s : needles)
                P("memmem %s %s\n", H(l).c_str(), H(s).c_str());
        });
    }
    //     replace / replace_substrings: src <= 5 over {a, ., NUL}, pattern <= 2
    {
        std::vector<str> pats;
        all_strings(str("a.\0", 3), 2, [&](const str &s) { pats.push_back(s); });
        const std::vector<str> reps = {"", "a", "..", str("a\0a", 3), "aa."};
        all_strings(str("a.\0", 3), 5, [&](const str &s) {
            for (auto &p : pats)
                for (auto &q : reps)
                {
                    P("replace %s %s %s\n", H(s).c_str(), H(p).c_str(), H(q).c_str());
                    str full = ref_replace(s, p, q);
                    // output buffers: exact fit, one short, generous, tiny
                    size_t sizes[4] = {full.size() + 1, full.size(), full.size() + 3, (size_t)r.below(3)};
                    size_t pick = r.below(3);
                    for (size_t k = 0; k < 4; k++)
                        if (th || k == pick || k == 3)
                            P("rsub %zu %s %s %s\n", sizes[k], H(s).c_str(), H(p).c_str(), H(q).c_str());
                }
        });
    }
    //     joins: all token lists of <= 3 tokens over tokens {"", a, aa, " ", "a b"}
    {
        const std::vector<str> T = {"", "a", "aa", " ", "a b", "/"};
        for (int n = 0; n <= 3; n++)
        {
            std::vector<int> idx(n, 0);
            while (true)
            {
                str line;
                for (int i = 0; i < n; i++)
                    line += " " + H(T[idx[i]]);
                P("join 20%s\njoin 2f%s\njoinf 2c20 5b 5d%s\njoinf - - -%s\n", line.c_str(), line.c_str(), line.c_str(), line.c_str());
                int k = n - 1;
                while (k >= 0 && ++idx[k] == (int)T.size())
                    idx[k--] = 0;
                if (k < 0)
                    break;
            }
        }
    }
    //     paths: pairs of all paths <= 4 over {a, b, /, .} for compare, <= 4 over {a,/,.} for remove_prefix
    {
        std::vector<str> ps;
        all_strings("ab/.", 3, [&](const str &s) { ps.push_back(s); });
        for (auto &a : ps)
            for (auto &b : ps)
                P("pcmp %s %s\n", H(a).c_str(), H(b).c_str());
        std::vector<str> qs;
        all_strings("a/.", th ? 5 : 4, [&](const str &s) { qs.push_back(s); });
        for (auto &a : qs)
            for (auto &b : qs)
            {
                P("prem %s %s\n", H(a).c_str(), H(b).c_str());
                emit_premc_probe(a, b);
            }
        all_strings("ab/.", th ? 8 : 7, [&](const str &s) { P("pnext %s\npiter %s\n", H(s).c_str(), H(s).c_str()); }, 6);
    }
    //     dispatchers: every line <= 4 over {space, a, b, tab, NUL} x command tables of 0..3 entries
    {
        const std::vector<toks> tables = {{}, {"a"}, {"b", "a"}, {"ab", "a", "a"}, {"aa", "b", "ab"}};
        all_strings(str(" ab\t\0", 5), th ? 5 : 4, [&](const str &s) {
            const toks &t = tables[r.below(tables.size())];
            const toks &t2 = tables[r.below(tables.size())];
            P("msh %s %s\n", H(s).c_str(), names_arg(t).c_str());
            P("rsh %s %d %s\n", H(s).c_str(), (int)r.below(2), names_arg(t).c_str());
            if (th || r.chance(30))
            {
                P("msht %s %s %s\n", H(s).c_str(), names_arg(t).c_str(), names_arg(t2).c_str());
                P("rsht %s %d:%s %d:%s\n", H(s).c_str(), (int)r.below(2), names_arg(t).c_str(), (int)r.below(2), names_arg(t2).c_str());
            }
        });
        // no table at all / three tables
        P("msht 61\nrsht 61\nmsht - \nmsht 61 - - 61\nrsht 61 0:- 1:- 0:61\n");
    }
    // (2b) the routines added by the extension
    gen2(r, th);
    // (3) random longer inputs, biased towards structure
    int N = th ? 4000 : 600;
    const str WIDE = str(" a/.\"\0\n\r\t'bz\x80\xff,", 15);
    for (int i = 0; i < N; i++)
    {
        int len = (int)r.range(7, r.chance(10) ? 200 : 40);
        const str &al = r.chance(50) ? A7 : WIDE;
        str s = rnd_str(r, al, len);
        // boundary bias: force the last / first character
        if (r.chance(30)) s.back() = r.chance(50) ? ' ' : '"';
        if (r.chance(20)) s[0] = ' ';
        emit_unary(s);
        str h = H(s);
        P("argvn %s %d\nargv %s %d\n", h.c_str(), (int)r.range(0, 12), h.c_str(), (int)r.range(0, 12));
        str d = rnd_str(r, str(" /.,\n\t\"a"), (int)r.range(1, 3));
        P("%ssplitd %s %s\n", s.find('\0') != str::npos ? F_NUL : "", h.c_str(), H(d).c_str());
        P("splitc %s %s\n", h.c_str(), H(str(1, al[r.below(al.size())])).c_str());
        // memmem / replace with a needle cut out of the haystack (mostly hits)
        size_t a = r.below(len), l = (size_t)r.range(0, std::min(4, len - (int)a));
        str needle = r.chance(75) ? s.substr(a, l) : rnd_str(r, al, (int)r.range(0, 3));
        P("memmem %s %s\n", h.c_str(), H(needle).c_str());
        str rep = rnd_str(r, al, (int)r.range(0, 4));
        P("replace %s %s %s\n", h.c_str(), H(needle).c_str(), H(rep).c_str());
        str full = ref_replace(s, needle, rep);
        size_t ms = r.chance(50) ? full.size() + 1 : (size_t)r.range(0, (int)full.size() + 4);
        P("rsub %zu %s %s %s\n", ms, h.c_str(), H(needle).c_str(), H(rep).c_str());
        // joins of random tokens
        {
            int n = (int)r.range(0, 6);
            str line;
            for (int k = 0; k < n; k++)
                line += " " + H(rnd_str(r, r.chance(70) ? str("abz.") : al, (int)r.range(r.chance(80) ? 1 : 0, 5)));
            P("join 20%s\njoinf %s %s %s%s\n", line.c_str(), H(rnd_str(r, ", ;", (int)r.range(0, 2))).c_str(), H(rnd_str(r, "[(<", (int)r.range(0, 2))).c_str(),
              H(rnd_str(r, "])>", (int)r.range(0, 2))).c_str(), line.c_str());
        }
        // structured paths: components from a small pool joined by runs of '/'
        {
            auto mk = [&]() {
                static const std::vector<str> C = {"a", "b", ".", "..", "ab", "", "a.", ".a", "\x80"};
                str p = r.chance(50) ? "/" : "";
                int n = (int)r.range(0, 5);
                for (int k = 0; k < n; k++)
                    p += C[r.below(C.size())] + (k + 1 < n || r.chance(30) ? str(1 + r.below(2), '/') : "");
                return p;
            };
            str p1 = mk(), p2 = r.chance(60) ? p1.substr(0, r.below(p1.size() + 1)) + (r.chance(30) ? mk() : "") : mk();
            P("pnext %s\npiter %s\npcmp %s %s\nprem %s %s\nprem %s %s\n", H(p1).c_str(), H(p1).c_str(), H(p1).c_str(), H(p2).c_str(), H(p1).c_str(),
              H(p2).c_str(), H(p2).c_str(), H(p1).c_str());
            emit_premc_probe(p1, p2);
            emit_premc_probe(p2, p1);
        }
        // command lines: words from a pool, 0..14 of them, random white space
        {
            static const std::vector<str> Wd = {"a", "b", "ab", "help", "set", "x"};
            int n = (int)r.range(0, r.chance(15) ? 14 : 4);
            str line = rnd_str(r, " \t", (int)r.below(3));
            for (int k = 0; k < n; k++)
                line += Wd[r.below(Wd.size())] + rnd_str(r, " \t\r\n", (int)r.range(k + 1 < n ? 1 : 0, 3));
            std::vector<toks> tb;
            for (int t = 0; t < 3; t++)
            {
                toks names;
                int m = (int)r.range(0, 3);
                for (int k = 0; k < m; k++)
                    names.push_back(Wd[r.below(Wd.size())]);
                tb.push_back(names);
            }
            str lh = H(line);
            P("msh %s %s\n", lh.c_str(), names_arg(tb[0]).c_str());
            P("rsh %s %d %s\n", lh.c_str(), (int)r.below(3), names_arg(tb[0]).c_str());
            P("msht %s %s %s %s\n", lh.c_str(), names_arg(tb[0]).c_str(), names_arg(tb[1]).c_str(), names_arg(tb[2]).c_str());
            P("rsht %s %d:%s %d:%s %d:%s\n", lh.c_str(), (int)r.below(2), names_arg(tb[0]).c_str(), (int)r.below(2), names_arg(tb[1]).c_str(), (int)r.below(3),
              names_arg(tb[2]).c_str());
            P("argv %s %d\nargvn %s %d\n", lh.c_str(), (int)r.range(0, 12), lh.c_str(), (int)r.range(0, 12));
        }
    }
    // (4) round 3: fixed-address cases, boundary parameters, long inputs, pre-main calls, constants
    gen3(r, th);
}
