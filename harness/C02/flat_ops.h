// Shared by C02.cpp (hosted: flat_map/flat_set over the libstdc++ vector) and
// C02_compat.cpp (compat/std/{vector,map,set}: std::map/std::set are the igris
// shims over igris::vector).  No std::vector in here: in the compat unit that
// name IS igris::vector.
#ifndef C02_FLAT_OPS_H
#define C02_FLAT_OPS_H
#include <string>
#include <algorithm>
#include <stdexcept>
#include <utility>
#include <cstdio>
#include <cstdlib>
#include <cstring>
#include <iterator>
#include <new>
#include <type_traits>
#if __has_include(<igris/util/ctrdtr.h>)
#include <igris/util/ctrdtr.h>
#endif
#if __has_include(<igris/container/flat_map_view.h>)
#include <igris/container/flat_map_view.h>
#endif

// heap-owning value: lifetime errors of the underlying vector become ASan reports
struct Box
{
    int *p;
    Box() : p(new int(0)) {}
    Box(int v) : p(new int(v)) {}
    Box(const Box &o) : p(new int(*o.p)) {}
    Box(Box &&o) noexcept : p(o.p) { o.p = nullptr; }
    Box &operator=(const Box &o)
    {
        if (this != &o)
        {
            int v = *o.p;
            delete p;
            p = new int(v);
        }
        return *this;
    }
    Box &operator=(Box &&o) noexcept
    {
        if (this != &o)
        {
            delete p;
            p = o.p;
            o.p = nullptr;
        }
        return *this;
    }
    ~Box()
    {
        delete p;
        p = nullptr;
    }
    bool operator==(const Box &o) const { return *p == *o.p; }
    bool operator!=(const Box &o) const { return *p != *o.p; }
    bool operator<(const Box &o) const { return *p < *o.p; }
    bool operator>(const Box &o) const { return *p > *o.p; }
};
inline int unbox(int x) { return x; }
inline int unbox(const Box &b) { return *b.p; }
inline int unbox(const std::string &s) { return atoi(s.c_str()); }

// key of type K made from the integer of the op line (std::string keys: the decimal text)
template <class K> struct MkKey
{
    static K of(int v) { return K(v); }
};
template <> struct MkKey<std::string>
{
    static std::string of(int v) { return std::to_string(v); }
};

// a comparator that is NOT equality-compatible: keys with the same last digit are equivalent
// (a strict weak order that is not a linear order); C++ % truncates, -13 % 10 == -3
struct ByLastDigit
{
    template <class A> bool operator()(const A &a, const A &b) const { return unbox(a) % 10 < unbox(b) % 10; }
};

// std::greater<std::string> on the decimal text, for key types that are not strings (the compat unit must
// not instantiate igris::flat_set<std::string, …>: the hosted unit does, over the libstdc++ vector — ODR)
struct TextGreater
{
    template <class A> bool operator()(const A &a, const A &b) const { return std::to_string(unbox(a)) > std::to_string(unbox(b)); }
};

// a STATEFUL comparator: the direction is a member, the default-constructed object orders ascending;
// only `flat_set(const Compare &)` / `std::set(const Compare &)` can make a descending set of this type
struct Dir
{
    bool desc = false;
    Dir() {}
    explicit Dir(bool d) : desc(d) {}
    template <class A> bool operator()(const A &a, const A &b) const { return desc ? unbox(b) < unbox(a) : unbox(a) < unbox(b); }
};

struct FlatBase
{
    virtual ~FlatBase() {}
    virtual std::string step(const std::string &line) = 0;
};

// ---- round 3b, fragility: the helpers of ctrdtr.h that vector.h does not use (copy_constructor, array_constructor),
// the others of that file and flat_map_view (not an anchored file) are OPTIONAL for the harness.  Global fallbacks of the
// same names, found by unqualified lookup from inside `namespace igris::c02_probe` only when igris itself no longer
// declares the name (the inner declaration hides them; by ADL they join the overload set as the worst match: `...`).
// A renamed / removed helper degrades to the behavioural probe (placement new / linear search done here), not to a
// compile error of every translation unit that includes this file.
struct c02_absent
{
};
c02_absent destructor(...);
c02_absent copy_constructor(...);
c02_absent move_constructor(...);
c02_absent array_destructor(...);
c02_absent array_constructor(...);
template <class K, class T, class E = void> struct flat_map_view
{ // fallback: the same interface over the array, linear search with ==
    using absent = c02_absent;
    std::pair<K, T> *b, *e;
    template <unsigned N> flat_map_view(std::pair<K, T> (&a)[N]) : b(a), e(a + N) {}
    std::pair<K, T> *begin() { return b; }
    std::pair<K, T> *end() { return e; }
    size_t size() const { return (size_t)(e - b); }
    std::pair<K, T> *find(const K &k)
    {
        for (auto *p = b; p != e; ++p)
            if (p->first == k)
                return p;
        return e;
    }
    T &operator[](const K &k) { return find(k)->second; }
};
namespace igris
{
    namespace c02_probe
    {
        template <class R> constexpr bool present = !std::is_same<R, ::c02_absent>::value;
        // array_constructor(q, q+2, v); copy_constructor(q+2, q[0]); move_constructor(q+3, move(q[1])); then the
        // destructors: returns "q0,q2,q3,<q1 is moved-from>"; `used` = how many of the five helpers exist
        template <class B> std::string ctrdtr_probe(int v, int &used)
        {
            alignas(B) unsigned char raw[4 * sizeof(B)];
            B *q = (B *)(void *)raw;
            used = 0;
            if constexpr (present<decltype(array_constructor(q, q + 2, v))>)
            {
                array_constructor(q, q + 2, v);
                used++;
            }
            else
            {
                new ((void *)q) B(v);
                new ((void *)(q + 1)) B(v);
            }
            if constexpr (present<decltype(copy_constructor(q + 2, (const B &)q[0]))>)
            {
                copy_constructor(q + 2, (const B &)q[0]);
                used++;
            }
            else
                new ((void *)(q + 2)) B((const B &)q[0]);
            if constexpr (present<decltype(move_constructor(q + 3, std::move(q[1])))>)
            {
                move_constructor(q + 3, std::move(q[1]));
                used++;
            }
            else
                new ((void *)(q + 3)) B(std::move(q[1]));
            std::string ret = std::to_string(unbox(q[0])) + "," + std::to_string(unbox(q[2])) + "," + std::to_string(unbox(q[3])) + "," + std::to_string(q[1].p == nullptr);
            if constexpr (present<decltype(destructor(q + 1))>)
            {
                destructor(q + 1);
                destructor(q);
                used++;
            }
            else
            {
                q[1].~B();
                q[0].~B();
            }
            if constexpr (present<decltype(array_destructor(q + 2, q + 4))>)
            {
                array_destructor(q + 2, q + 4);
                used++;
            }
            else
            {
                q[2].~B();
                q[3].~B();
            }
            return ret;
        }
        // flat_map_view over {1>0, 4>10, 7>20, 10>30}: find / operator[] / size / iteration
        template <class K> std::string mview_probe(K key)
        {
            std::pair<K, int> arr[4] = {{1, 0}, {4, 10}, {7, 20}, {10, 30}};
            flat_map_view<K, int> view(arr);
            auto it = view.find(key);
            size_t n = 0;
            for (auto &e : view)
                n += e.first > 0;
            return (it == view.end() ? std::string("end") : std::to_string(it - view.begin()) + ">" + std::to_string(view[key])) + "," + std::to_string(view.size()) + "," + std::to_string(n);
        }
    }
}

// ---- round 3b: flat_map / flat_set under ALLOCATION FAILURE.  Both classes (and the compat/std shims) take an
// allocator parameter and hand it to their storage vector: the compat unit instantiates them with FA, so that the
// storage is igris::vector<value_type, FA<value_type>>.  `afail <k> <op …>`: the k-th allocation made during the
// operation throws std::bad_alloc; std::map / std::set promise "no effects" for a single-element insertion that throws,
// so the dump must be what it was; then the SAME operation runs again unarmed and its line is the compared result.
inline long g_fa_fuse = -1; // -1 = disarmed
inline long g_fa_fired = 0;
template <class T> struct FA
{
    using value_type = T;
    FA() = default;
    template <class U> FA(const FA<U> &) {}
    T *allocate(size_t n)
    {
        if (g_fa_fuse == 0)
        {
            g_fa_fuse = -1;
            g_fa_fired++;
            throw std::bad_alloc();
        }
        if (g_fa_fuse > 0)
            g_fa_fuse--;
        return std::allocator<T>().allocate(n); // exactly sized heap block: ASan red zones on both sides
    }
    void deallocate(T *p, size_t n) { std::allocator<T>().deallocate(p, n); }
    bool operator==(const FA &) const { return true; }
    bool operator!=(const FA &) const { return false; }
};

// MK = key type of the map, Key = key type of the set
// HOSTED = the storage is the libstdc++ vector: the members of flat_map / flat_set that forward to vector members
// igris::vector does not have (cbegin/cend, crbegin/crend, max_size, shrink_to_fit, swap, get_allocator) compile
template <class Map, class Set, class Val, class Key, class MK = int, bool HOSTED = true> struct FlatOps : FlatBase
{
    Map fm;
    Set fs;
    using P = std::pair<MK, Val>;
    static MK mk(int v) { return MkKey<MK>::of(v); }
    static Key sk(int v) { return MkKey<Key>::of(v); }

    virtual void reset()
    {
        fm = Map();
        fs = Set();
    }
    std::string dump()
    {
        std::pair<int, int> a[256];
        size_t n = 0;
        for (auto it = fm.begin(); it != fm.end() && n < 256; ++it)
            a[n++] = {unbox(it->first), unbox(it->second)};
        std::stable_sort(a, a + n, [](const std::pair<int, int> &x, const std::pair<int, int> &y) { return x.first < y.first; });
        std::string s = " m=" + std::to_string(fm.size()) + ":";
        for (size_t i = 0; i < n; i++)
            s += (i ? "," : "") + std::to_string(a[i].first) + ">" + std::to_string(a[i].second);
        if (!n)
            s += "-";
        s += " s=" + std::to_string(fs.size()) + ":";
        bool first = true;
        for (auto it = fs.begin(); it != fs.end(); ++it)
        {
            s += (first ? "" : ",") + std::to_string(unbox(*it));
            first = false;
        }
        if (first)
            s += "-";
        return s;
    }
    std::string step(const std::string &line) override
    {
        char opb[32] = {0};
        int a[9] = {0};
        int cnt = sscanf(line.c_str(), "%31s %d %d %d %d %d %d %d %d", opb, a + 1, a + 2, a + 3, a + 4, a + 5, a + 6, a + 7, a + 8);
        std::string op = opb, ret = "-";
        if (op == "reset")
        {
            reset();
            return "ok";
        }
        if (op == "afail")
        { // `afail <k> <op …>` (see FA above); with std::allocator storage (hosted build) the operation simply runs
            size_t p1 = line.find(' '), p2 = p1 == std::string::npos ? p1 : line.find(' ', p1 + 1);
            if (p2 == std::string::npos)
                return "bad-op";
            std::string rest = line.substr(p2 + 1), before = dump();
            bool threw = false;
            std::string first;
            g_fa_fuse = a[1];
            try
            {
                first = step(rest);
            }
            catch (const std::bad_alloc &)
            {
                threw = true;
            }
            g_fa_fuse = -1;
            if (!threw)
                return first; // no allocation was refused: the operation has run, this is its line
            std::string after = dump();
            if (after != before)
                return "af=BAD" + after + " was" + before;
            return step(rest);
        }
        if (op == "mset")
            fm[mk(a[1])] = Val(a[2]);
        else if (op == "mget")
            ret = std::to_string(unbox(fm[mk(a[1])]));
        else if (op == "mins")
        {
            auto it = fm.insert(P(mk(a[1]), Val(a[2])));
            ret = std::to_string(unbox(it->first)) + ">" + std::to_string(unbox(it->second));
        }
        else if (op == "mempl")
        {
            auto p = fm.emplace(mk(a[1]), a[2]);
            ret = std::to_string(p.second) + "," + std::to_string(unbox(p.first->second));
        }
        else if (op == "mfind")
        {
            auto it = fm.find(mk(a[1]));
            const Map &cf = fm;
            auto it2 = cf.find(mk(a[1]));
            ret = it == fm.end() ? "end" : std::to_string(unbox(it->second));
            if ((it == fm.end()) != (it2 == cf.end()))
                ret += "!const";
        }
        else if (op == "mcount")
            ret = std::to_string(fm.count(mk(a[1])));
        else if (op == "mat")
        {
            const Map &cf = fm;
            std::string r2;
            try { ret = std::to_string(unbox(fm.at(mk(a[1])))); } catch (const std::out_of_range &) { ret = "throw"; }
            try { r2 = std::to_string(unbox(cf.at(mk(a[1])))); } catch (const std::out_of_range &) { r2 = "throw"; }
            if (r2 != ret)
                ret += "!const";
        }
        else if (op == "mclear")
            fm.clear();
        else if (op == "minit")
        {
            int n = (cnt - 1) / 2;
            switch (n)
            {
            case 0: fm = Map(std::initializer_list<P>{}); break;
            case 1: fm = Map({P(mk(a[1]), Val(a[2]))}); break;
            case 2: fm = Map({P(mk(a[1]), Val(a[2])), P(mk(a[3]), Val(a[4]))}); break;
            case 3: fm = Map({P(mk(a[1]), Val(a[2])), P(mk(a[3]), Val(a[4])), P(mk(a[5]), Val(a[6]))}); break;
            default: fm = Map({P(mk(a[1]), Val(a[2])), P(mk(a[3]), Val(a[4])), P(mk(a[5]), Val(a[6])), P(mk(a[7]), Val(a[8]))}); break;
            }
        }
        else if (op == "mcopy")
        {
            Map c(fm);
            Map d;
            d = c;
            Map e(std::move(c));
            ret = std::to_string(d == fm) + std::to_string(e != fm);
            fm = std::move(e);
        }
        else if (op == "sins")
            fs.insert(sk(a[1]));
        else if (op == "scount")
            ret = std::to_string(fs.count(sk(a[1])));
        else if (op == "sclear")
            fs.clear();
        else if (op == "msize")
            ret = std::to_string(fm.size());
        else if (op == "ssize")
            ret = std::to_string(fs.size());
        else if (op == "miter")
        { // for (it = begin(); it != end(); ++it): std::map visits the entries in key order
            ret = "";
            const Map &cf = fm;
            std::string r2;
            for (auto it = fm.begin(); it != fm.end(); ++it)
                ret += (ret.empty() ? "" : ",") + std::to_string(unbox(it->first)) + ">" + std::to_string(unbox(it->second));
            for (auto it = cf.begin(); it != cf.end(); ++it)
                r2 += (r2.empty() ? "" : ",") + std::to_string(unbox(it->first)) + ">" + std::to_string(unbox(it->second));
            if (r2 != ret)
                ret += "!const";
            if (ret.empty())
                ret = "-";
            if (fm.empty() != (fm.size() == 0))
                ret += "!empty";
        }
        else if (op == "meq")
        { // operator== / != against a map with the same entries put in through operator[] in REVERSE order
            Map c;
            P ent[64];
            size_t n = 0;
            for (auto it = fm.begin(); it != fm.end() && n < 64; ++it)
                ent[n++] = *it;
            for (size_t i = n; i-- > 0;)
                c[ent[i].first] = ent[i].second;
            ret = std::to_string(c == fm) + std::to_string(c != fm);
        }
        else if (op == "mcget")
        { // const operator[]: the mapped value, T() for an absent key, nothing inserted
            const Map &cf = fm;
            const Val &ref = cf[mk(a[1])];
            ret = std::to_string(unbox(ref));
        }
        else if (op == "mmisc")
        { // the rest of flat_map's interface: c/r iterators, reserve/capacity/shrink_to_fit/max_size, swap, empty
            if constexpr (HOSTED)
            {
                auto show = [](const std::string &acc, const P &e) { return acc + (acc.empty() ? "" : ",") + std::to_string(unbox(e.first)) + ">" + std::to_string(unbox(e.second)); };
                const Map &cf = fm;
                std::string f1, f2, r1, r2, r3;
                // round 3b: every member that is not std::map's lookup interface is OPTIONAL (a removed / renamed
                // forwarder degrades to the behavioural probe through begin() / end(), not to a compile error)
                auto fwd = [&](auto &m) { std::string acc; for (auto it = m.begin(); it != m.end(); ++it) acc = show(acc, *it); return acc; };
                auto rev = [&](auto &m) { std::string acc; P tmp[256]; size_t n = 0; for (auto it = m.begin(); it != m.end() && n < 256; ++it) tmp[n++] = *it; while (n) acc = show(acc, tmp[--n]); return acc; };
                if constexpr (requires { cf.cbegin() != cf.cend(); })
                    for (auto it = cf.cbegin(); it != cf.cend(); ++it) f1 = show(f1, *it);
                else
                    f1 = fwd(cf);
                if constexpr (requires { fm.rbegin() != fm.rend(); })
                    for (auto it = fm.rbegin(); it != fm.rend(); ++it) r1 = show(r1, *it);
                else
                    r1 = rev(fm);
                if constexpr (requires { cf.rbegin() != cf.rend(); })
                    for (auto it = cf.rbegin(); it != cf.rend(); ++it) r2 = show(r2, *it);
                else
                    r2 = rev(cf);
                if constexpr (requires { cf.crbegin() != cf.crend(); })
                    for (auto it = cf.crbegin(); it != cf.crend(); ++it) r3 = show(r3, *it);
                else
                    r3 = rev(cf);
                bool capok = true;
                if constexpr (requires { fm.reserve(fm.size() + 3); })
                {
                    fm.reserve(fm.size() + 3);
                    if constexpr (requires { fm.capacity() >= fm.size(); })
                        capok = fm.capacity() >= fm.size() + 3;
                }
                if constexpr (requires { fm.shrink_to_fit(); })
                    fm.shrink_to_fit();
                Map other;
                auto swp = [](Map &x, Map &y) {
                    if constexpr (requires { x.swap(y); })
                        x.swap(y);
                    else
                    {
                        Map t(std::move(x));
                        x = std::move(y);
                        y = std::move(t);
                    }
                };
                swp(other, fm);                 // fm empty, other holds the entries
                bool e1 = fm.empty() && fm.size() == 0 && !(other.empty() && other.size());
                swp(fm, other);
                f2 = fwd(fm);
                bool maxok = true;
                if constexpr (requires { fm.max_size() > 0; })
                    maxok = fm.max_size() > 0;
                ret = (f1.empty() ? "-" : f1) + "|" + (r1.empty() ? "-" : r1) + "|" + std::to_string(r1 == r2 && r2 == r3 && f1 == f2 && capok && e1 && maxok);
            }
        }
        else if (op == "smisc")
        { // the rest of flat_set's interface: cbegin, begin() const, get_allocator
            if constexpr (HOSTED)
            {
                const Set &cs = fs;
                if constexpr (requires { cs.get_allocator(); })
                    (void)cs.get_allocator();
                auto count = [&](auto first) { size_t n = 0; for (auto it = first; it != fs.end(); ++it) n++; return n; };
                size_t n1, n2;
                if constexpr (requires { cs.cbegin() != fs.end(); })
                    n1 = count(cs.cbegin());
                else
                    n1 = count(fs.begin());
                if constexpr (requires { cs.begin() != fs.end(); })
                    n2 = count(cs.begin());
                else
                    n2 = count(fs.begin());
                ret = std::to_string(n1) + "," + std::to_string(n2);
            }
        }
        else if (op == "ctrdtr")
        { // igris/util/ctrdtr.h on raw storage (vector.h uses constructor / move_constructor / destructor / array_destructor)
            int used = 0;
            ret = igris::c02_probe::ctrdtr_probe<Box>(a[1], used);
        }
        else if (op == "mview")
            ret = igris::c02_probe::mview_probe<int>(a[1]);
        else if (op == "siter")
        {
            // for (it = begin(); it != end(); ++it)
            ret = "";
            for (auto it = fs.begin(); it != fs.end(); ++it)
                ret += (ret.empty() ? "" : ",") + std::to_string(unbox(*it));
            if (ret.empty())
                ret = "-";
        }
        else
            return "bad-op";
        return ret + dump();
    }
};
#endif
